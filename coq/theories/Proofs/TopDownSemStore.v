(* C06 — the compiler over an arbitrary node store simulates the standard-store compiler
   (same solver run, denotationally equal diagrams, same false constants) whenever the store's
   get_or_insert returns a pointer denoting the requested node; the semantic-hash store does so
   if the hash is injective on the nodes the run touches (C11). *)
From Coq Require Import Bool NArith List Arith Lia Permutation.
Import ListNotations.
From RsddV Require Import Base.Util Base.Bdd Model.UnitProp Model.TopDown Model.TopDownStore Model.Wmc
  Proofs.Wmc Proofs.TopDown Proofs.TopDownSem.
From RsddV Require Import Proofs.UnitProp Proofs.UnitPropHash.
From RsddV Require Model.Compile.

Definition rel (r rx : bdd) : Prop := (forall x, den rx x = den r x) /\ (rx = BF <-> r = BF).
Definition crel (c cx : cache) : Prop :=
  Forall2 (fun e ex => fst e = fst ex /\ rel (snd e) (snd ex)) c cx.

Lemma rel_refl r : rel r r.
Proof. split; [reflexivity|tauto]. Qed.

Lemma is_false_iff p : is_false p = true <-> p = BF.
Proof. destruct p; simpl; split; congruence. Qed.

Lemma cache_get_rel c cx h : crel c cx ->
  match cache_get c h, cache_get cx h with
  | Some d, Some dx => rel d dx
  | None, None => True
  | _, _ => False
  end.
Proof.
  induction 1 as [|[k d] [kx dx] t tx [Hk Hr] _ IH]; simpl; [exact I|].
  cbn [fst snd] in *. subst kx. destruct (N.eqb k h); [exact Hr|exact IH].
Qed.

Section Sim.
Variable St : Type.
Variable mk : St -> var -> bdd -> bdd -> option (bdd * St).
Variable order : list nat.
Variable inv good : St -> Prop.
Variable mono : St -> St -> Prop.
Hypothesis mono_refl : forall st, mono st st.
Hypothesis mono_trans : forall a b c, mono a b -> mono b c -> mono a c.
Hypothesis good_mono : forall a b, mono a b -> good b -> good a.
(* get_or_insert keeps the store invariant, only grows the store, never returns a constant ... *)
Hypothesis mk_inv : forall st v lo hi r st', inv st -> mk st v lo hi = Some (r, st') ->
  inv st' /\ mono st st' /\ r <> BF.
(* ... and, in a good final store, returns a pointer denoting the requested node *)
Hypothesis mk_den : forall st v lo hi r st', inv st -> mk st v lo hi = Some (r, st') -> good st' ->
  forall x, den r x = if x v then den hi x else den lo x.

Notation fold_lits_x := (fold_lits_x St mk).
Notation conjoin_implied_x := (conjoin_implied_x St mk).
Notation branch_x := (branch_x St mk).
Notation topdown_hx := (topdown_hx St mk order).

(* ---- (A) structure: invariant and growth ---- *)
Lemma fold_inv lits : forall sub st b st', inv st -> fold_lits_x lits sub st = Some (b, st') ->
  inv st' /\ mono st st' /\ (sub <> BF -> b <> BF).
Proof.
  induction lits as [|l t IH]; intros sub st b st' Hi H; cbn [Model.TopDownStore.fold_lits_x] in H.
  - inversion H; subst. auto.
  - destruct (lit_node_x St mk st sub l) as [[n st1]|] eqn:E; [|discriminate].
    unfold lit_node_x in E.
    assert (G : inv st1 /\ mono st st1 /\ n <> BF) by (destruct (lpol l); eapply mk_inv; eauto).
    destruct G as [Hi1 [Hm1 Hn]]. destruct (IH _ _ _ _ Hi1 H) as [Hi' [Hm' Hb]].
    split; [exact Hi'|split; [eapply mono_trans; eauto|intros _; apply Hb; exact Hn]].
Qed.

Lemma conjoin_inv lits nnf st b st' : inv st -> conjoin_implied_x lits nnf st = Some (b, st') ->
  inv st' /\ mono st st'.
Proof.
  unfold Model.TopDownStore.conjoin_implied_x. intros Hi H. destruct (is_false nnf).
  - inversion H; subst. auto.
  - destruct (fold_inv _ _ _ _ _ Hi H) as [A [B _]]. auto.
Qed.

Definition rec_inv (rec : solver -> cache -> St -> option (xres St)) : Prop :=
  forall s c st r s' c' st', inv st -> rec s c st = Some (r, s', c', st') -> inv st' /\ mono st st'.

Lemma branch_inv rec : rec_inv rec -> forall v pol, rec_inv (fun s c st => branch_x rec s c st v pol).
Proof.
  intros Hrec v pol s c st r s' c' st' Hi H. unfold Model.TopDownStore.branch_x in H.
  destruct (sat_decide false s (v, pol)) as [s1 r0]. destruct r0; try discriminate.
  - destruct (conjoin_implied_x (new_assgn s1 v) BT st) as [[b st1]|] eqn:E; [|discriminate].
    inversion H; subst. eapply conjoin_inv; eauto.
  - inversion H; subst. auto.
  - destruct (rec s1 c st) as [[[[sub s2] c2] st2]|] eqn:Er; [|discriminate].
    destruct (Hrec _ _ _ _ _ _ _ Hi Er) as [Hi2 Hm2].
    destruct (conjoin_implied_x (new_assgn s2 v) sub st2) as [[b st3]|] eqn:E; [|discriminate].
    inversion H; subst. destruct (conjoin_inv _ _ _ _ _ Hi2 E) as [A B]. split; [exact A|eapply mono_trans; eauto].
Qed.

Lemma topdown_hx_inv : forall fuel level, rec_inv (fun s c st => topdown_hx fuel s level c st).
Proof.
  induction fuel as [|f IH]; intros level s c st r s' c' st' Hi H; [discriminate|].
  cbn [Model.TopDownStore.topdown_hx] in H.
  destruct (Nat.leb (s_nvars s) level || sat_is_sat s); [inversion H; subst; auto|].
  destruct (sat_is_set s (var_at_level order level)); [eapply IH; eauto|].
  destruct (cache_get c (sat_cur_hash s)); [inversion H; subst; auto|].
  destruct (branch_x _ s c st (var_at_level order level) true) as [[[[hi s1] c1] st1]|] eqn:E1; [|discriminate].
  destruct (branch_inv _ (IH (S level)) _ _ _ _ _ _ _ _ _ Hi E1) as [Hi1 Hm1].
  destruct (branch_x _ s1 c1 st1 (var_at_level order level) false) as [[[[lo s2] c2] st2]|] eqn:E2; [|discriminate].
  destruct (branch_inv _ (IH (S level)) _ _ _ _ _ _ _ _ _ Hi1 E2) as [Hi2 Hm2].
  destruct (bdd_eqb hi lo).
  - inversion H; subst. split; [exact Hi2|eapply mono_trans; eauto].
  - destruct (mk st2 (N.of_nat (var_at_level order level)) lo hi) as [[r3 st3]|] eqn:Em; [|discriminate].
    inversion H; subst. destruct (mk_inv _ _ _ _ _ _ Hi2 Em) as [A [B _]].
    split; [exact A|]. eapply mono_trans; [exact Hm1|]. eapply mono_trans; eauto.
Qed.

(* ---- (B) simulation of the standard-store compiler ---- *)
Lemma fold_rel lits : forall sub subx st bx st', inv st ->
  fold_lits_x lits subx st = Some (bx, st') -> good st' ->
  (forall x, den subx x = den sub x) -> sub <> BF -> subx <> BF ->
  (forall x, den bx x = den (fold_left lit_node lits sub) x) /\ bx <> BF.
Proof.
  induction lits as [|l t IH]; intros sub subx st bx st' Hi H Hg Hd Hs Hsx; cbn [Model.TopDownStore.fold_lits_x] in H.
  - inversion H; subst. auto.
  - destruct (lit_node_x St mk st subx l) as [[n st1]|] eqn:E; [|discriminate].
    unfold lit_node_x in E.
    assert (G : inv st1 /\ mono st st1 /\ n <> BF) by (destruct (lpol l); eapply mk_inv; eauto).
    destruct G as [Hi1 [Hm1 Hn]]. destruct (fold_inv _ _ _ _ _ Hi1 H) as [_ [Hm' _]].
    assert (Hg1 : good st1) by (eapply good_mono; eauto).
    cbn [fold_left]. apply (IH (lit_node sub l) n st1 bx st' Hi1 H Hg); [|unfold lit_node; destruct (lpol l); apply mk_node_not_false|exact Hn].
    intros x. rewrite den_lit_node. unfold lit_evalN.
    destruct (lpol l) eqn:Ep; rewrite (mk_den _ _ _ _ _ _ Hi E Hg1 x); cbn [den]; rewrite Hd;
      destruct (x (nvar l)); reflexivity.
Qed.

Lemma conjoin_rel lits nnf nnfx st bx st' : inv st -> rel nnf nnfx ->
  conjoin_implied_x lits nnfx st = Some (bx, st') -> good st' -> rel (conjoin_implied lits nnf) bx.
Proof.
  intros Hi [Hd Hbf] H Hg. unfold Model.TopDownStore.conjoin_implied_x in H. unfold conjoin_implied.
  destruct (is_false nnfx) eqn:Ex.
  - inversion H; subst. apply is_false_iff in Ex. rewrite (proj2 (is_false_iff nnf) (proj1 Hbf Ex)). apply rel_refl.
  - assert (Hnx : nnfx <> BF) by (intros E; apply is_false_iff in E; congruence).
    assert (Hn : nnf <> BF) by (intros E; apply Hnx, Hbf, E).
    assert (Ef : is_false nnf = false) by (destruct (is_false nnf) eqn:E; [apply is_false_iff in E; contradiction|reflexivity]).
    rewrite Ef. destruct (fold_rel lits nnf nnfx st bx st' Hi H Hg Hd Hn Hnx) as [A B].
    split; [exact A|]. split; [contradiction|]. intros E. exfalso. revert E. apply fold_lit_node_not_false. exact Hn.
Qed.

Definition rec_rel (rec : solver -> cache -> option (bdd * solver * cache))
           (recx : solver -> cache -> St -> option (xres St)) : Prop :=
  forall s c cx st rx sx cx' st', crel c cx -> inv st -> recx s cx st = Some (rx, sx, cx', st') -> good st' ->
    exists r c', rec s c = Some (r, sx, c') /\ crel c' cx' /\ rel r rx.

Lemma branch_rel rec recx : rec_inv recx -> rec_rel rec recx -> forall v pol,
  rec_rel (fun s c => branch false rec s c v pol) (fun s c st => branch_x recx s c st v pol).
Proof.
  intros Hinv Hrel v pol s c cx st rx sx cx' st' Hc Hi H Hg.
  unfold Model.TopDownStore.branch_x in H. unfold branch.
  destruct (sat_decide false s (v, pol)) as [s1 r0]. destruct r0; try discriminate.
  - destruct (conjoin_implied_x (new_assgn s1 v) BT st) as [[b st1]|] eqn:E; [|discriminate].
    inversion H; subst. eexists. eexists. split; [reflexivity|split; [exact Hc|]].
    eapply conjoin_rel; eauto. apply rel_refl.
  - inversion H; subst. eexists. eexists. split; [reflexivity|split; [exact Hc|apply rel_refl]].
  - destruct (recx s1 cx st) as [[[[subx s2] cx2] st2]|] eqn:Er; [|discriminate].
    destruct (Hinv _ _ _ _ _ _ _ Hi Er) as [Hi2 Hm2].
    destruct (conjoin_implied_x (new_assgn s2 v) subx st2) as [[b st3]|] eqn:E; [|discriminate].
    inversion H; subst. destruct (conjoin_inv _ _ _ _ _ Hi2 E) as [_ Hm3].
    assert (Hg2 : good st2) by (eapply good_mono; eauto).
    destruct (Hrel _ _ _ _ _ _ _ _ Hc Hi Er Hg2) as [sub [c2 [E1 [Hc2 Hr]]]]. rewrite E1.
    eexists. eexists. split; [reflexivity|split; [exact Hc2|]]. eapply conjoin_rel; eauto.
Qed.

Lemma topdown_hx_rel : forall fuel level,
  rec_rel (fun s c => topdown_h false order true fuel s level c) (fun s c st => topdown_hx fuel s level c st).
Proof.
  induction fuel as [|f IH]; intros level s c cx st rx sx cx' st' Hc Hi H Hg; [discriminate|].
  cbn [Model.TopDownStore.topdown_hx] in H. cbn [topdown_h].
  destruct (Nat.leb (s_nvars s) level || sat_is_sat s).
  { inversion H; subst. eexists. eexists. split; [reflexivity|split; [exact Hc|apply rel_refl]]. }
  set (v := var_at_level order level) in *.
  destruct (sat_is_set s v); [eapply IH; eauto|].
  pose proof (cache_get_rel c cx (sat_cur_hash s) Hc) as Hget.
  destruct (cache_get cx (sat_cur_hash s)) as [dx|] eqn:Egx; destruct (cache_get c (sat_cur_hash s)) as [d|] eqn:Eg;
    try contradiction.
  { inversion H; subst. eexists. eexists. split; [reflexivity|split; [exact Hc|exact Hget]]. }
  destruct (branch_x _ s cx st v true) as [[[[hix s1] cx1] st1]|] eqn:E1; [|discriminate].
  destruct (branch_inv _ (topdown_hx_inv f (S level)) _ _ _ _ _ _ _ _ _ Hi E1) as [Hi1 Hm1].
  destruct (branch_x _ s1 cx1 st1 v false) as [[[[lox s2] cx2] st2]|] eqn:E2; [|discriminate].
  destruct (branch_inv _ (topdown_hx_inv f (S level)) _ _ _ _ _ _ _ _ _ Hi1 E2) as [Hi2 Hm2].
  assert (Hfin : exists st3, (if bdd_eqb hix lox then Some (hix, st2) else mk st2 (N.of_nat v) lox hix) = Some (rx, st3)
                  /\ st' = st3 /\ cx' = cache_insert cx2 (sat_cur_hash s) rx /\ sx = s2).
  { destruct (if bdd_eqb hix lox then Some (hix, st2) else mk st2 (N.of_nat v) lox hix) as [[r3 st3]|]; [|discriminate].
    inversion H; subst. eauto. }
  destruct Hfin as [st3 [Efin [-> [-> ->]]]]. clear H.
  assert (Hm3 : mono st2 st3).
  { destruct (bdd_eqb hix lox); [inversion Efin; subst; apply mono_refl|].
    destruct (mk_inv _ _ _ _ _ _ Hi2 Efin) as [_ [B _]]. exact B. }
  assert (Hg2 : good st2) by (eapply good_mono; eauto).
  assert (Hg1 : good st1) by (eapply good_mono; eauto).
  destruct (branch_rel _ _ (topdown_hx_inv f (S level)) (IH (S level)) v true _ _ _ _ _ _ _ _ Hc Hi E1 Hg1)
    as [hi [c1 [B1 [Hc1 [Hdh Hbh]]]]].
  destruct (branch_rel _ _ (topdown_hx_inv f (S level)) (IH (S level)) v false _ _ _ _ _ _ _ _ Hc1 Hi1 E2 Hg2)
    as [lo [c2 [B2 [Hc2 [Hdl Hbl]]]]].
  rewrite B1, B2. eexists. eexists. split; [reflexivity|].
  change (if bdd_eqb hi lo then hi else dnnf_mk_node (N.of_nat v) lo hi) with (decision_node (N.of_nat v) lo hi).
  assert (Hr : rel (decision_node (N.of_nat v) lo hi) rx).
  { split.
    - intros x. rewrite decision_node_sem, <- Hdh, <- Hdl.
      destruct (bdd_eqb hix lox) eqn:Eq.
      + inversion Efin; subst. apply bdd_eqb_eq in Eq. subst lox. destruct (x (N.of_nat v)); reflexivity.
      + apply (mk_den _ _ _ _ _ _ Hi2 Efin Hg).
    - rewrite decision_node_false_iff. destruct (bdd_eqb hix lox) eqn:Eq.
      + inversion Efin; subst. apply bdd_eqb_eq in Eq. subst lox. tauto.
      + destruct (mk_inv _ _ _ _ _ _ Hi2 Efin) as [_ [_ Hne]]. split; [contradiction|].
        intros [El Eh]. exfalso. apply Hbl in El. apply Hbh in Eh. subst.
        assert (Hx : bdd_eqb BF BF = true) by reflexivity. congruence. }
  split; [|exact Hr]. constructor; [split; [reflexivity|exact Hr]|exact Hc2].
Qed.

Theorem compile_x_rel cls nvars st0 rx st' :
  inv st0 -> compile_x St mk order cls nvars st0 = Some (rx, st') -> good st' ->
  exists r, compile_cnf_topdown false order false true cls nvars = Some r /\ rel r rx.
Proof.
  intros Hi H Hg. unfold compile_x in H. unfold compile_cnf_topdown.
  destruct (sat_new false cls nvars) as [| |s]; [discriminate| |].
  - inversion H; subst. exists BF. split; [reflexivity|apply rel_refl].
  - destruct (topdown_hx (S nvars) s 0 [] st0) as [[[[r1 s1] c1] st1]|] eqn:E; [|discriminate].
    destruct (topdown_hx_inv _ _ _ _ _ _ _ _ _ Hi E) as [Hi1 Hm1].
    destruct (conjoin_inv _ _ _ _ _ Hi1 H) as [_ Hm2].
    assert (Hg1 : good st1) by (eapply good_mono; eauto).
    destruct (topdown_hx_rel (S nvars) 0 s [] [] st0 _ _ _ _ (Forall2_nil _) Hi E Hg1) as [r [c' [E1 [_ Hr]]]].
    rewrite E1. eexists. split; [reflexivity|]. eapply conjoin_rel; eauto.
Qed.
End Sim.

(* ================= the semantic-hash store ================= *)
From RsddV Require Import Model.Semirings Model.SemHash Proofs.SemHash Generated.Constants.

Section SemStore.
Variable m : mode.
Variable P : N.
Variable w : wmap.
Hypothesis HP : In P exported_primes.
Hypothesis HW : weights_ok P w = true.
(* D: the diagrams the run touches, closed under negation; on it every diagram is free with its
   variables in the weight map, and the semantic hash is injective (the hypothesis of C11) *)
Variable D : bdd -> Prop.
Hypothesis D_wf : forall p, D p -> free_bdd p /\ vars_in p w.
Hypothesis D_neg : forall p, D p -> D (neg p).
Hypothesis D_inj : forall p q, D p -> D q -> hash_m m P w p = hash_m m P w q -> feq (den p) (den q).

Definition sem_inv (st : sstore) : Prop :=
  forall h p, In (h, p) (ss_tbl st) ->
    (exists v lo hi, p = BN false v lo hi) /\ hash_m m P w p = Some h /\ In p (ss_log st).
Definition sem_good (st : sstore) : Prop := forall p, In p (ss_log st) -> D p.
Definition sem_mono (a b : sstore) : Prop := incl (ss_log a) (ss_log b).

Lemma ss_get_in t h p : ss_get t h = Some p -> In (h, p) t.
Proof.
  induction t as [|[k q] r IH]; simpl; [discriminate|]. destruct (N.eqb_spec k h) as [->|Hne].
  - intros H. inversion H. left. reflexivity.
  - intros H. right. apply IH. exact H.
Qed.

Lemma sem_mk_inv st v lo hi r st' : sem_inv st -> sem_get_or_insert m P w st v lo hi = Some (r, st') ->
  sem_inv st' /\ sem_mono st st' /\ r <> BF.
Proof.
  intros Hi H. unfold sem_get_or_insert in H.
  destruct (hash_m m P w (BN false v lo hi)) as [h|] eqn:Eh; [|discriminate].
  assert (Hkeep : forall tbl, tbl = ss_tbl st ->
            sem_inv (mkSStore tbl (BN false v lo hi :: ss_log st)) /\
            sem_mono st (mkSStore tbl (BN false v lo hi :: ss_log st))).
  { intros tbl ->. split; [|intros q Hq; right; exact Hq].
    intros h' p Hin. destruct (Hi h' p Hin) as [A [B C]]. split; [exact A|split; [exact B|right; exact C]]. }
  destruct (ss_get (ss_tbl st) h) as [p|] eqn:Eg.
  - inversion H; subst. destruct (Hkeep _ eq_refl) as [A B]. split; [exact A|split; [exact B|]].
    apply ss_get_in in Eg. destruct (Hi _ _ Eg) as [[v' [lo' [hi' ->]]] _]. discriminate.
  - destruct (ff_negate m P h) as [nh|]; [|discriminate].
    destruct (ss_get (ss_tbl st) nh) as [p|] eqn:Eg2.
    + inversion H; subst. destruct (Hkeep _ eq_refl) as [A B]. split; [exact A|split; [exact B|]].
      apply ss_get_in in Eg2. destruct (Hi _ _ Eg2) as [[v' [lo' [hi' ->]]] _]. discriminate.
    + inversion H; subst. split; [|split; [intros q Hq; right; exact Hq|discriminate]].
      intros h' p [Hin|Hin].
      * inversion Hin; subst. split; [eauto|split; [exact Eh|left; reflexivity]].
      * destruct (Hi h' p Hin) as [A [B C]]. split; [exact A|split; [exact B|right; exact C]].
Qed.

(* get_or_insert returns a pointer denoting the requested node's function *)
Lemma sem_mk_den st v lo hi r st' : sem_inv st -> sem_get_or_insert m P w st v lo hi = Some (r, st') ->
  sem_good st' -> forall x, den r x = if x v then den hi x else den lo x.
Proof.
  intros Hi H Hg. pose proof H as H0. unfold sem_get_or_insert in H.
  set (n := BN false v lo hi) in *.
  assert (Hden : forall x, den n x = if x v then den hi x else den lo x) by (intros x; apply xorb_false_l).
  destruct (sem_mk_inv _ _ _ _ _ _ Hi H0) as [_ [Hm _]].
  assert (Dn : D n).
  { apply Hg. destruct (hash_m m P w n) as [h|]; [|discriminate].
    destruct (ss_get (ss_tbl st) h); [inversion H; subst; left; reflexivity|].
    destruct (ff_negate m P h); [|discriminate].
    destruct (ss_get (ss_tbl st) n0); inversion H; subst; left; reflexivity. }
  destruct (hash_m m P w n) as [h|] eqn:Eh; [|discriminate].
  destruct (exported_ok_range P w HP HW) as [OK WR].
  destruct (ss_get (ss_tbl st) h) as [p|] eqn:Eg.
  - inversion H; subst r st'. apply ss_get_in in Eg. destruct (Hi _ _ Eg) as [_ [Hh Hl]].
    assert (Dp : D p) by (apply Hg; right; exact Hl).
    intros x. rewrite <- Hden. apply (D_inj p n Dp Dn). rewrite Hh, Eh. reflexivity.
  - destruct (ff_negate m P h) as [nh|] eqn:En; [|discriminate].
    destruct (ss_get (ss_tbl st) nh) as [p|] eqn:Eg2.
    + inversion H; subst r st'. apply ss_get_in in Eg2. destruct (Hi _ _ Eg2) as [_ [Hh Hl]].
      assert (Dp : D p) by (apply Hg; right; exact Hl).
      destruct (semantic_correct_if_injective m P OK w WR D D_wf D_neg D_inj p n Dp Dn) as [_ [Hneg _]].
      assert (E : hash_m m P w p = hneg m P (hash_m m P w n)).
      { rewrite Hh, Eh. unfold hneg. cbn [bind]. symmetry. exact En. }
      apply Hneg in E. intros x. rewrite den_neg, (E x). unfold fnot. rewrite negb_involutive. apply Hden.
    + inversion H; subst. exact Hden.
Qed.

Theorem sem_get_or_insert_correct st v lo hi r st' :
  sem_inv st -> sem_get_or_insert m P w st v lo hi = Some (r, st') -> sem_good st' ->
  feq (den r) (den (BN false v lo hi)) /\ sem_inv st' /\ r <> BF.
Proof.
  intros Hi H Hg. destruct (sem_mk_inv _ _ _ _ _ _ Hi H) as [A [_ B]]. split; [|auto].
  intros x. rewrite (sem_mk_den _ _ _ _ _ _ Hi H Hg x). symmetry. apply xorb_false_l.
Qed.

(* the compiler over the semantic store simulates the compiler over the standard store *)
Theorem compile_sem_rel order cls nvars rx st :
  compile_x sstore (sem_get_or_insert m P w) order cls nvars sstore_empty = Some (rx, st) ->
  sem_good st ->
  exists r, compile_cnf_topdown false order false true cls nvars = Some r /\ rel r rx.
Proof.
  intros H Hg.
  apply (compile_x_rel sstore (sem_get_or_insert m P w) order sem_inv sem_good sem_mono) with (st0 := sstore_empty) (st' := st).
  - intros a q Hq. exact Hq.
  - intros a b c Hab Hbc q Hq. apply Hbc, Hab, Hq.
  - intros a b Hab Hb q Hq. apply Hb, Hab, Hq.
  - exact sem_mk_inv.
  - exact sem_mk_den.
  - intros h p [].
  - exact H.
  - exact Hg.
Qed.

(* semantic_store_correct_if_injective: CONDITIONAL on injectivity of the semantic hash on the
   nodes the run requested (and their negations) and on C09's hash guard for the component cache.
   Says nothing about path freeness: the store may answer a request with an older node of the same
   function that tests other variables. *)
Theorem semantic_store_correct_if_injective order raw rx st :
  Permutation order (seq 0 (cnf_num_vars (cnf_new raw))) -> hash_guard raw ->
  compile_raw_sem m P w order raw = Some (rx, st) ->
  (forall p, In p (ss_log st) -> D p) ->
  (rx = BF <-> forall x, Compile.cnf_eval (cnfN raw) x = false) /\
  (forall x, den rx x = Compile.cnf_eval (cnfN raw) x).
Proof.
  intros Pm Hg H HD. unfold compile_raw_sem, compile_raw_x in H.
  destruct (compile_sem_rel order _ _ rx st H HD) as [r [E [Hd Hbf]]].
  destruct (topdown_correct order raw Pm Hg) as [r' [E' [Hbf' [Hden' _]]]].
  unfold compile_raw in E'. rewrite E in E'. inversion E'; subst r'.
  split; [rewrite Hbf; exact Hbf'|]. intros x. rewrite Hd. apply Hden'.
Qed.
End SemStore.
