From Coq Require Import Bool NArith List Lia Arith.
Import ListNotations.
From RsddV Require Import Base.Bdd.

Section C.
Variable level : var -> nat.
Hypothesis level_inj : forall u v, level u = level v -> u = v.

Fixpoint size (p : bdd) : nat :=
  match p with BT | BF => 1 | BN _ _ l h => 1 + size l + size h end.

(* all nodes at level >= k, ordered, reduced, high edge regular and not BF *)
Fixpoint wfb (k : nat) (p : bdd) : Prop :=
  match p with
  | BT | BF => True
  | BN c v l h => k <= level v /\ wfb (S (level v)) l /\ wfb (S (level v)) h
                  /\ l <> h /\ is_neg h = false /\ h <> BF
  end.

Lemma wfb_weaken k k' p : k' <= k -> wfb k p -> wfb k' p.
Proof. destruct p; simpl; intuition lia. Qed.

Lemma wfb_neg k p : wfb k p -> wfb k (neg p).
Proof. destruct p; simpl; auto. Qed.

Lemma size_neg p : size (neg p) = size p.
Proof. destruct p; reflexivity. Qed.


Lemma den_indep k p a a' :
  wfb k p -> (forall u, k <= level u -> a u = a' u) -> den p a = den p a'.
Proof.
  revert k; induction p as [| |c v l IHl h IHh]; simpl; intros k W Hag; try reflexivity.
  destruct W as (Hk & Wl & Wh & _).
  rewrite (Hag v Hk).
  rewrite (IHl (S (level v)) Wl), (IHh (S (level v)) Wh); auto; intros u Hu; apply Hag; lia.
Qed.

Lemma den_upd_low k p a v b : wfb k p -> level v < k -> den p (upd a v b) = den p a.
Proof.
  intros W Hl. apply (den_indep k); auto. intros u Hu. unfold upd.
  destruct (N.eqb_spec u v); [subst; lia | reflexivity].
Qed.


(* a function that ignores the top variable of a wf node has equal cofactor functions *)
Lemma node_cofactors c v l h k a :
  wfb k (BN c v l h) ->
  den (BN c v l h) (upd a v true) = xorb c (den h a) /\
  den (BN c v l h) (upd a v false) = xorb c (den l a).
Proof.
  simpl. intros (Hk & Wl & Wh & _). rewrite !upd_same.
  rewrite (den_upd_low _ _ _ _ _ Wh), (den_upd_low _ _ _ _ _ Wl); auto.
Qed.

Theorem bdd_canonical_n : forall n p q k,
  size p + size q <= n -> wfb k p -> wfb k q -> (forall a, den p a = den q a) -> p = q.
Proof.
  induction n as [|n IH]; intros p q k Hs Wp Wq E.
  { destruct p; simpl in Hs; lia. }
  (* a wf node never denotes a function independent of its top variable *)
  assert (NODEP : forall c v l h k0, size l + size h <= n -> wfb k0 (BN c v l h) ->
            (forall a, den (BN c v l h) (upd a v true) = den (BN c v l h) (upd a v false)) -> False).
  { intros c v l h k0 Hsz W Hc. pose proof W as W'. simpl in W'. destruct W' as (_ & Wl & Wh & Hne & _).
    apply Hne. apply (IH l h (S (level v))); auto. intros a.
    destruct (node_cofactors c v l h k0 a W) as [H1 H0]. specialize (Hc a). rewrite H1, H0 in Hc.
    destruct c, (den l a), (den h a); simpl in Hc; congruence. }
  destruct p as [| |c v l h], q as [| |c' v' l' h']; try reflexivity.
  - specialize (E (fun _ => true)); discriminate.
  - exfalso. apply (NODEP c' v' l' h' k); [simpl in Hs; lia | exact Wq |]. intros a. rewrite <- !E. reflexivity.
  - specialize (E (fun _ => true)); discriminate.
  - exfalso. apply (NODEP c' v' l' h' k); [simpl in Hs; lia | exact Wq |]. intros a. rewrite <- !E. reflexivity.
  - exfalso. apply (NODEP c v l h k); [simpl in Hs; lia | exact Wp |]. intros a. rewrite !E. reflexivity.
  - exfalso. apply (NODEP c v l h k); [simpl in Hs; lia | exact Wp |]. intros a. rewrite !E. reflexivity.
  - (* two nodes *)
    pose proof Wp as Wp'. pose proof Wq as Wq'. simpl in Wp', Wq'.
    destruct Wp' as (Hk & Wl & Wh & Hne & Hreg & HnF). destruct Wq' as (Hk' & Wl' & Wh' & Hne' & Hreg' & HnF').
    simpl in Hs.
    destruct (lt_eq_lt_dec (level v) (level v')) as [[Hlt|Heq]|Hgt].
    + exfalso. apply (NODEP c v l h k); [lia | exact Wp |]. intros a. rewrite !E.
      assert (Wq2 : wfb (level v') (BN c' v' l' h')) by (simpl; auto 10).
      rewrite !(den_upd_low _ _ _ _ _ Wq2 Hlt). reflexivity.
    + apply level_inj in Heq. subst v'.
      assert (Eh : forall a, xorb c (den h a) = xorb c' (den h' a)).
      { intros a. destruct (node_cofactors c v l h k a Wp) as [H1 _].
        destruct (node_cofactors c' v l' h' k a Wq) as [H1' _]. rewrite <- H1, <- H1'. apply E. }
      assert (El : forall a, xorb c (den l a) = xorb c' (den l' a)).
      { intros a. destruct (node_cofactors c v l h k a Wp) as [_ H0].
        destruct (node_cofactors c' v l' h' k a Wq) as [_ H0']. rewrite <- H0, <- H0'. apply E. }
      destruct (Bool.bool_dec c c') as [->|Hcc].
      * assert (h = h') by (apply (IH h h' (S (level v))); auto; [lia|]; intros a; specialize (Eh a); destruct c', (den h a), (den h' a); simpl in Eh; congruence).
        assert (l = l') by (apply (IH l l' (S (level v))); auto; [lia|]; intros a; specialize (El a); destruct c', (den l a), (den l' a); simpl in El; congruence).
        subst; reflexivity.
      * exfalso. assert (h = neg h').
        { apply (IH h (neg h') (S (level v))); auto using wfb_neg; [rewrite size_neg; lia|].
          intros a. rewrite den_neg. specialize (Eh a). destruct c, c', (den h a), (den h' a); simpl in *; congruence. }
        subst h. destruct h' as [| |[] ? ? ?]; simpl in *; congruence.
    + exfalso. apply (NODEP c' v' l' h' k); [lia | exact Wq |]. intros a. rewrite <- !E.
      assert (Wp2 : wfb (level v) (BN c v l h)) by (simpl; auto 10).
      rewrite !(den_upd_low _ _ _ _ _ Wp2 Hgt). reflexivity.
Qed.

Theorem bdd_canonical p q k :
  wfb k p -> wfb k q -> (forall a, den p a = den q a) -> p = q.
Proof. intros. eapply bdd_canonical_n; eauto. Qed.
End C.
