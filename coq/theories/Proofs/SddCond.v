(* Conditioning: condition(f, lbl, value) denotes f with lbl fixed to value and satisfies the
   builder invariant. *)
From Coq Require Import Bool NArith List Lia Arith Permutation.
Import ListNotations.
From RsddV Require Import Base.Bdd Base.Util Model.SddVtree Model.SddOps Proofs.SddBase.
From RsddV Require Import Proofs.SddVtree Proofs.SddInv Proofs.SddLoops Proofs.SddNode Proofs.SddAnd.

(* the loop over f.node_iter() as a function of its own *)
Fixpoint cond_loop (cf : bool -> sdd -> res sdd) (c' : bool) (l : list elem) : res (sdd + list elem) :=
  match l with
  | [] => Ok (inr [])
  | (p, s) :: r => bind (cf false p) (fun newp => cond_step newp (cf c' s) (cond_loop cf c' r))
  end.

Section Cond.
Variable t : vtree.
Hypothesis ND : NoDup (vleaves t).
Variable cm : bool.
Variable cache : sdd -> sdd -> option sdd.
Hypothesis CSound : cache_sound t cache.
Variable fuel : nat.
Hypothesis Hfuel : vheight t < fuel.
Variable lbl : var.
Variable value : bool.

Notation cf := (cond_m t cm cache fuel lbl value).
Notation cnd a := (upd a lbl value).

Lemma cond_m_or flip c idx els :
  cf flip (SOr c idx els) =
  bind (cond_loop cf (xorb flip c) els)
       (fun r => match r with inl x => Ok x | inr v => canonicalize cm (and_m t cm cache fuel) v idx end).
Proof.
  simpl. f_equal. induction els as [|[p s] r IH]; [reflexivity|]. simpl. rewrite <- IH. reflexivity.
Qed.

Lemma cond_m_bdd flip c l idx lo hi :
  cf flip (SBdd c l idx lo hi) =
  bind (cond_loop cf (xorb flip c) [(SVar l true, hi); (SVar l false, lo)])
       (fun r => match r with inl x => Ok x | inr v => canonicalize cm (and_m t cm cache fuel) v idx end).
Proof. cbn [cond_m cond_loop bind xorb]. reflexivity. Qed.

(* what the theorem says about one pointer *)
Definition cond_ok (p : sdd) : Prop :=
  forall u off flip, occurs t 0 u off -> under u off p ->
  exists x, cf flip p = Ok x /\ under u off x /\ forall a, sden x a = xorb flip (sden p (cnd a)).

Lemma good_at u off : occurs t 0 u off -> good (and_m t cm cache fuel) (under u off).
Proof.
  intros Ho. apply (and_m_good t ND cm cache CSound fuel u off Ho).
  pose proof (occurs_height _ _ _ _ Ho). lia.
Qed.

Section Loop.
Variables l r : vtree.
Variable off : nat.
Hypothesis Ho : occurs t 0 (VNode l r) off.
Notation m := (off + vsize l).
Notation okl := (okl (under l off) (under r (S m))).

Lemma cond_loop_spec c' : forall els, okl els -> excl els ->
  Forall (fun e => cond_ok (fst e) /\ cond_ok (snd e)) els ->
  exists res, cond_loop cf c' els = Ok res /\
    match res with
    | inl x => under (VNode l r) off x /\ (forall a, 1 <= cnt els (cnd a)) /\
               (forall a, sden x a = den_els (adjsubs c' els) (cnd a))
    | inr v => okl v /\ nonF v /\ (forall a, cnt v a = cnt els (cnd a)) /\
               (forall a, den_els v a = den_els (adjsubs c' els) (cnd a))
    end.
Proof.
  induction els as [|[p s] rest IH]; intros Hok Hex HI.
  - exists (inr []). split; [reflexivity|]. repeat split; constructor.
  - apply okl_cons in Hok. destruct Hok as (Hp & Hs & Hok).
    inversion HI as [|? ? [Ip Is] HI']; subst. simpl in Ip, Is.
    assert (Hex' : excl rest) by (intros a; specialize (Hex a); rewrite cnt_cons in Hex; lia).
    destruct (IH Hok Hex' HI') as (res & Er & Hr).
    destruct (Ip l off false (occurs_left _ _ _ _ _ Ho) Hp) as (newp & Enp & Unp & Dnp).
    destruct (Is r (S m) c' (occurs_right _ _ _ _ _ Ho) Hs) as (news & Ens & Uns & Dns).
    cbn [cond_loop]. rewrite Enp. cbn [bind]. unfold cond_step.
    assert (Dnp' : forall a, sden newp a = sden p (cnd a)) by (intros a; rewrite Dnp; apply xorb_false_l).
    unfold adjsubs. simpl map. fold (adjsubs c' rest). cbn [fst snd].
    destruct (s_is_false newp) eqn:Fp.
    { apply s_is_false_eq in Fp. subst newp. rewrite Er. exists res. split; [reflexivity|].
      destruct res as [x|v].
      - destruct Hr as (H1 & H2 & H3). repeat split; auto.
        + intros a. rewrite cnt_cons. specialize (H2 a). lia.
        + intros a. rewrite den_els_cons, H3. cbn [fst snd]. rewrite <- Dnp'. reflexivity.
      - destruct Hr as (H1 & H2 & H3 & H4). repeat split; auto.
        + intros a. rewrite cnt_cons, H3, <- Dnp'. reflexivity.
        + intros a. rewrite den_els_cons, H4. cbn [fst snd]. rewrite <- Dnp'. reflexivity. }
    rewrite Ens. cbn [bind].
    destruct (s_is_true newp) eqn:Tp.
    { apply s_is_true_eq in Tp. subst newp. exists (inl news). split; [reflexivity|]. repeat split.
      - apply U_R; auto.
      - intros a. rewrite cnt_cons, <- Dnp'. simpl. lia.
      - intros a. rewrite den_els_cons. cbn [fst snd]. rewrite <- Dnp', Dns, sden_adj. simpl.
        specialize (Hex (cnd a)). rewrite cnt_cons, <- Dnp' in Hex. simpl in Hex.
        assert (Hz : cnt (adjsubs c' rest) (cnd a) = 0) by (rewrite cnt_adjsubs; lia).
        rewrite (cnt_zero_den _ _ Hz). rewrite orb_false_r. reflexivity. }
    rewrite Er. cbn [bind]. destruct res as [x|v].
    + exists (inl x). split; [reflexivity|]. destruct Hr as (H1 & H2 & H3). repeat split; auto.
      * intros a. rewrite cnt_cons. specialize (H2 a). lia.
      * intros a. rewrite den_els_cons, H3. cbn [fst snd].
        specialize (Hex (cnd a)). rewrite cnt_cons in Hex. specialize (H2 a).
        destruct (sden p (cnd a)); [lia|]. reflexivity.
    + exists (inr ((newp, news) :: v)). split; [reflexivity|]. destruct Hr as (H1 & H2 & H3 & H4). repeat split.
      * apply okl_cons. auto.
      * constructor; auto. simpl. apply s_is_false_neq. exact Fp.
      * intros a. rewrite !cnt_cons, H3, Dnp'. reflexivity.
      * intros a. rewrite !den_els_cons, H4. cbn [fst snd]. rewrite Dnp', Dns, sden_adj. reflexivity.
Qed.

Lemma cond_node_spec c' els idx : idx = m -> okl els -> part els ->
  Forall (fun e => cond_ok (fst e) /\ cond_ok (snd e)) els ->
  exists x, bind (cond_loop cf c' els)
       (fun r => match r with inl x => Ok x | inr v => canonicalize cm (and_m t cm cache fuel) v idx end) = Ok x /\
    under (VNode l r) off x /\ forall a, sden x a = xorb c' (den_els els (cnd a)).
Proof.
  intros -> Hok Hp HI.
  destruct (cond_loop_spec c' els Hok (part_excl _ Hp) HI) as (res & Er & Hr).
  rewrite Er. cbn [bind]. destruct res as [x|v].
  - exists x. destruct Hr as (H1 & H2 & H3). repeat split; auto.
    intros a. rewrite H3. apply den_adjsubs. apply Hp.
  - destruct Hr as (H1 & H2 & H3 & H4).
    edestruct (canonicalize_spec t cm l r off Ho (and_m t cm cache fuel)) as (x & Ex & Ux & Dx).
    + apply good_at. eapply occurs_left; eauto.
    + apply good_at. eapply occurs_right; eauto.
    + exact H1.
    + intros a. rewrite H3. apply Hp.
    + intros Hl. eapply leaf_nonF_satl; eauto.
    + exists x. repeat split; eauto. intros a. rewrite Dx, H4. apply den_adjsubs. apply Hp.
Qed.
End Loop.

Lemma cond_ok_const p : s_is_const p = true -> cond_ok p.
Proof.
  intros Hc u off flip Ho Hu. destruct p; try discriminate; destruct flip; simpl;
    eexists; (split; [reflexivity|]); split; try constructor; reflexivity.
Qed.

Lemma cond_ok_var v pol : cond_ok (SVar v pol).
Proof.
  intros u off flip Ho Hu. apply under_var_in in Hu. eexists. split; [reflexivity|].
  unfold cond_var, upd. destruct (N.eqb_spec v lbl) as [->|Hn].
  - split; [destruct (Bool.eqb (xorb flip pol) value); constructor|].
    intros a. simpl. rewrite N.eqb_refl. destruct flip, pol, value; reflexivity.
  - split; [constructor; auto|]. intros a. simpl.
    destruct (N.eqb_spec v lbl); [contradiction|]. destruct flip, pol, (a v); reflexivity.
Qed.

Theorem cond_m_ok : forall p, cond_ok p.
Proof.
  induction p as [| |v b|c lb i lo hi IHlo IHhi|c i els IH] using sdd_ind'.
  - apply cond_ok_const; reflexivity.
  - apply cond_ok_const; reflexivity.
  - apply cond_ok_var.
  - intros u off flip Ho Hu.
    destruct (under_locate u off _ Hu eq_refl) as (l & r & off' & Ho' & Ha); [discriminate|].
    assert (Hot : occurs t 0 (VNode l r) off') by (eapply occurs_trans; eauto).
    destruct Ha as [(c0 & lbl0 & lo0 & hi0 & [= <- <- -> <- <-] & H1 & H2 & H3)|(c0 & els0 & [=] & _)].
    rewrite cond_m_bdd.
    destruct (cond_node_spec l r off' Hot (xorb flip c) [(SVar lb true, hi); (SVar lb false, lo)] (off' + vsize l) eq_refl)
      as (x & Ex & Ux & Dx).
    + repeat constructor; simpl; auto.
    + intros a. apply cnt_bdd_elems.
    + repeat constructor; simpl; auto using cond_ok_var.
    + exists x. split; [exact Ex|]. split; [eapply under_lift; eauto|].
      intros a. rewrite Dx. unfold den_els. simpl. rewrite <- xorb_assoc.
      destruct (upd a lbl value lb), (sden hi (upd a lbl value)), (sden lo (upd a lbl value)); simpl;
        rewrite ?xorb_false_r, ?xorb_true_r; reflexivity.
  - intros u off flip Ho Hu.
    destruct (under_locate u off _ Hu eq_refl) as (l & r & off' & Ho' & Ha); [discriminate|].
    assert (Hot : occurs t 0 (VNode l r) off') by (eapply occurs_trans; eauto).
    destruct Ha as [(c0 & lbl0 & lo0 & hi0 & [=] & _)|(c0 & els0 & [= <- -> <-] & H1 & H2 & H3)].
    rewrite cond_m_or.
    destruct (cond_node_spec l r off' Hot (xorb flip c) els (off' + vsize l) eq_refl H2 H3 IH) as (x & Ex & Ux & Dx).
    exists x. split; [exact Ex|]. split; [eapply under_lift; eauto|].
    intros a. rewrite Dx, sden_or. apply xorb_assoc.
Qed.

End Cond.

(* the pending-negation flag of the model is the Rust code's recursion on [sub.neg()] *)
Lemma cond_m_flip t cm cache fuel lbl value flip f :
  cond_m t cm cache fuel lbl value flip f =
  cond_m t cm cache fuel lbl value false (if flip then sneg f else f).
Proof. destruct flip; [|reflexivity]. destruct f as [| |v c|c l i lo hi|c i els]; try reflexivity; destruct c; reflexivity. Qed.
