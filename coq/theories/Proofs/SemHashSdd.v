(* C11, function level: why the hash of an SDD decision node -- sum over the elements of
   hash(prime) * hash(sub) (SddOr::semantic_hash, SddAnd::semantic_hash) -- is the defining sum
   of the function the node denotes.  Stated on Boolean functions, for any commutative
   semiring and normalised weights:
     deterministic disjunction:  H (f \/ g) = H f + H g   when f /\ g is unsatisfiable;
     decomposable conjunction:   H (f /\ g) = H f * H g   when every summed variable is ignored
                                                          by f or by g;
     hence for a list of (prime, sub) pairs with pairwise exclusive primes whose primes and subs
     live on disjoint variables:  H (\/_i p_i /\ s_i) = sum_i H p_i * H s_i.
   SddPtr itself is not modelled in Coq for C11; this is the semantic step of the argument, the
   tie of the SDD code to the defining sum is the correspondence/oracle. *)
From Coq Require Import Bool NArith List Lia Arith.
Import ListNotations.
From RsddV Require Import Base.Bdd Model.Wmc Proofs.Wmc.

Definition ignores (f : asg -> bool) (v : var) : Prop := forall a b, f (upd a v b) = f a.

Section G.
Variable S : Type.
Variable add mul : S -> S -> S.
Variable zero one : S.
Hypothesis add_comm : forall a b, add a b = add b a.
Hypothesis add_assoc : forall a b c, add (add a b) c = add a (add b c).
Hypothesis mul_assoc : forall a b c, mul (mul a b) c = mul a (mul b c).
Hypothesis mul_comm : forall a b, mul a b = mul b a.
Hypothesis mul_one_r : forall a, mul a one = a.
Hypothesis mul_zero_r : forall a, mul a zero = zero.
Hypothesis add_zero_r : forall a, add a zero = a.
Hypothesis distr_l : forall a b c, mul a (add b c) = add (mul a b) (mul a c).
Variable wlo whi : var -> S.
Hypothesis w_norm : forall v, add (wlo v) (whi v) = one.

Notation H := (wmc_spec S add mul zero one wlo whi).

Lemma add4 a b c d : add (add a b) (add c d) = add (add a c) (add b d).
Proof. rewrite !add_assoc. f_equal. rewrite <- !add_assoc. f_equal. apply add_comm. Qed.

(* deterministic disjunction *)
Lemma spec_or_excl vars f g : (forall a, f a && g a = false) -> forall x,
  H vars (fun a => f a || g a) x = add (H vars f x) (H vars g x).
Proof.
  intros E. induction vars as [|v vs IH]; intros x; cbn [Wmc.wmc_spec].
  - specialize (E x). destruct (f x), (g x); cbn [orb]; try discriminate.
    + symmetry. apply add_zero_r.
    + rewrite add_comm. symmetry. apply add_zero_r.
    + symmetry. apply add_zero_r.
  - rewrite !IH, !distr_l. apply add4.
Qed.

(* moving an update of a variable that is not summed into the function *)
Lemma spec_upd_out vars f v b : ext_fun f -> ~ In v vars -> forall x,
  H vars f (upd x v b) = H vars (fun a => f (upd a v b)) x.
Proof.
  intros EX. induction vars as [|u vs IH]; intros NI x; cbn [Wmc.wmc_spec].
  - reflexivity.
  - assert (Huv : u <> v) by (intros ->; apply NI; left; reflexivity).
    assert (NI' : ~ In v vs) by (intros Hin; apply NI; right; exact Hin).
    rewrite <- !(IH NI').
    f_equal; f_equal;
      apply (wmc_spec_ext S add mul zero one wlo whi vs f f); auto;
      intros w _; apply upd_comm; congruence.
Qed.

Lemma spec_ignored vars f v b : ext_fun f -> ignores f v -> ~ In v vars -> forall x,
  H vars f (upd x v b) = H vars f x.
Proof.
  intros EX IG NI x. rewrite (spec_upd_out vars f v b EX NI).
  apply (wmc_spec_ext S add mul zero one wlo whi vars); auto.
  intros a a' E. rewrite !IG. apply EX. exact E.
Qed.

Lemma mul_one_l' a : mul one a = a. Proof. rewrite mul_comm. apply mul_one_r. Qed.
Lemma mul_zero_l' a : mul zero a = zero. Proof. rewrite mul_comm. apply mul_zero_r. Qed.
Lemma distr_r' a b c : mul (add a b) c = add (mul a c) (mul b c).
Proof. rewrite mul_comm, distr_l, (mul_comm c a), (mul_comm c b). reflexivity. Qed.

(* a function that ignores the summed variable: the two branches coincide, the weights add up *)
Lemma spec_step_ignored v vs f x : ext_fun f -> ignores f v -> ~ In v vs ->
  H (v :: vs) f x = H vs f x /\ H vs f (upd x v false) = H vs f x /\ H vs f (upd x v true) = H vs f x.
Proof.
  intros EX IG NI. cbn [Wmc.wmc_spec].
  rewrite !(spec_ignored vs f v _ EX IG NI). rewrite <- distr_r', w_norm, mul_one_l'. auto.
Qed.

(* decomposable conjunction *)
Lemma spec_and_indep vars f g : NoDup vars -> ext_fun f -> ext_fun g ->
  (forall v, In v vars -> ignores f v \/ ignores g v) -> forall x,
  H vars (fun a => f a && g a) x = mul (H vars f x) (H vars g x).
Proof.
  intros ND EF EG. induction ND as [|v vs NI ND IH]; intros IG x.
  - cbn [Wmc.wmc_spec]. destruct (f x), (g x); cbn [andb].
    + symmetry. apply mul_one_r.
    + symmetry. apply mul_zero_r.
    + symmetry. apply mul_zero_l'.
    + symmetry. apply mul_zero_r.
  - assert (IG' : forall u, In u vs -> ignores f u \/ ignores g u) by (intros u Hu; apply IG; right; exact Hu).
    specialize (IH IG').
    destruct (IG v (or_introl eq_refl)) as [I|I].
    + destruct (spec_step_ignored v vs f x EF I NI) as (E & E0 & E1). rewrite E.
      cbn [Wmc.wmc_spec]. rewrite !IH, E0, E1.
      rewrite distr_l. rewrite <- !mul_assoc.
      rewrite (mul_comm (wlo v) (H vs f x)), (mul_comm (whi v) (H vs f x)). rewrite !mul_assoc. reflexivity.
    + destruct (spec_step_ignored v vs g x EG I NI) as (E & E0 & E1). rewrite E.
      cbn [Wmc.wmc_spec]. rewrite !IH, E0, E1.
      rewrite distr_r'. rewrite !mul_assoc. reflexivity.
Qed.

(* an SDD decision node, semantically: elements (prime_i, sub_i) *)
Definition den_pairs (els : list ((asg -> bool) * (asg -> bool))) (a : asg) : bool :=
  existsb (fun e => fst e a && snd e a) els.
Fixpoint sum_pairs (vars : list var) (els : list ((asg -> bool) * (asg -> bool))) (x : asg) : S :=
  match els with
  | [] => zero
  | (p, s) :: r => add (mul (H vars p x) (H vars s x)) (sum_pairs vars r x)
  end.
(* primes pairwise exclusive *)
Fixpoint excl_primes (els : list ((asg -> bool) * (asg -> bool))) : Prop :=
  match els with
  | [] => True
  | (p, _) :: r => (forall q s, In (q, s) r -> forall a, p a && q a = false) /\ excl_primes r
  end.

Theorem sdd_node_hash vars els : NoDup vars -> excl_primes els ->
  (forall p s, In (p, s) els -> ext_fun p /\ ext_fun s /\ forall v, In v vars -> ignores p v \/ ignores s v) ->
  forall x, H vars (den_pairs els) x = sum_pairs vars els x.
Proof.
  intros ND. induction els as [|[p s] r IH]; intros EX WF x.
  - cbn [sum_pairs]. unfold den_pairs. cbn [existsb].
    clear ND EX WF. revert x. induction vars as [|v vs IHv]; intros x; cbn [Wmc.wmc_spec]; [reflexivity|].
    rewrite !IHv, !mul_zero_r. apply add_zero_r.
  - destruct EX as [EXp EXr]. cbn [sum_pairs].
    destruct (WF p s (or_introl eq_refl)) as (EP & ES & IG).
    rewrite <- (spec_and_indep vars p s ND EP ES IG x).
    rewrite <- (IH EXr (fun p' s' Hin => WF p' s' (or_intror Hin)) x).
    rewrite <- spec_or_excl.
    + apply (wmc_spec_local S add mul zero one wlo whi). intros a _. unfold den_pairs. cbn [existsb fst snd]. reflexivity.
    + intros a. unfold den_pairs. destruct (p a) eqn:Pa; [|reflexivity]. cbn [andb].
      destruct (s a); [|reflexivity]. cbn [andb].
      apply not_true_is_false. intros Hex. apply existsb_exists in Hex. destruct Hex as [[q s'] [Hin Hq]].
      cbn [fst snd] in Hq. apply andb_true_iff in Hq. destruct Hq as [Hq _].
      specialize (EXp q s' Hin a). rewrite Pa, Hq in EXp. discriminate.
Qed.
End G.
