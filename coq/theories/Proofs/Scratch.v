(* C10: queries are pure.  The memoised fold returns what the plain recursion returns, marks
   exactly the reachable nodes, and clear_scratch (with its short-circuit) empties them again:
   every public query maps the all-empty scratch state to the all-empty scratch state. *)
From Coq Require Import Bool NArith List Lia Arith.
Import ListNotations.
From RsddV Require Import Base.Bdd Model.Wmc Model.Scratch.

Lemma node_eqb_eq a b : node_eqb a b = true <-> a = b.
Proof.
  destruct a as [[v l] h], b as [[v' l'] h']. simpl. rewrite !andb_true_iff, N.eqb_eq, !bdd_eqb_eq.
  split; [intros [[-> ->] ->]; reflexivity|intros [= -> -> ->]; auto].
Qed.
Lemma node_eqb_refl a : node_eqb a a = true. Proof. apply node_eqb_eq. reflexivity. Qed.
Lemma node_eqb_neq a b : a <> b -> node_eqb a b = false.
Proof. intros H. destruct (node_eqb a b) eqn:E; auto. apply node_eqb_eq in E. contradiction. Qed.

Fixpoint size (p : bdd) : nat := match p with BN _ _ l h => 1 + size l + size h | _ => 1 end.
Definition node_size (n : node) : nat := let '(_, l, h) := n in 1 + size l + size h.
Lemma nodes_size p n : In n (nodes p) -> node_size n <= size p.
Proof.
  induction p as [| |c v lo IHlo hi IHhi]; simpl; try contradiction.
  intros [<-|H]; [simpl; lia|]. apply in_app_or in H. destruct H as [H|H]; [specialize (IHlo H)|specialize (IHhi H)]; lia.
Qed.
Lemma node_not_in_children v lo hi : ~ In (v, lo, hi) (nodes lo ++ nodes hi).
Proof.
  intros H. apply in_app_or in H. destruct H as [H|H]; apply nodes_size in H; simpl in H; lia.
Qed.
(* descendants of a reachable node are reachable *)
Lemma nodes_trans p : forall v lo hi, In (v, lo, hi) (nodes p) -> incl (nodes lo ++ nodes hi) (nodes p).
Proof.
  induction p as [| |c u l IHl h IHh]; simpl; intros v lo hi H; try contradiction.
  destruct H as [E|H].
  - injection E as -> -> ->. intros m Hm. right. exact Hm.
  - apply in_app_or in H. intros m Hm. right. apply in_or_app.
    destruct H as [H|H]; [left; eapply IHl; eauto|right; eapply IHh; eauto].
Qed.

Ltac neq E := let EE := fresh "EE" in intros EE; rewrite EE in E; rewrite node_eqb_refl in E; discriminate.

Section Q.
Variable S : Type.
Variable add mul : S -> S -> S.
Variable zero one : S.
Variable wlo whi : var -> S.

Notation scratch := (scratch S).
Notation plain := (wmc_c S add mul zero one wlo whi).
Notation fold_memo := (fold_memo S add mul zero one wlo whi).
Notation set_s := (set_s S).
Notation clear := (clear S).

Definition node_ptr (n : node) : bdd := let '(v, l, h) := n in BN false v l h.
Definition all_empty (s : scratch) : Prop := forall n, s n = None.

Lemma set_s_same s n v : set_s s n v n = v.
Proof. unfold Scratch.set_s. rewrite node_eqb_refl. reflexivity. Qed.
Lemma set_s_other s n v m : m <> n -> set_s s n v m = s m.
Proof. intros H. unfold Scratch.set_s. rewrite node_eqb_neq; auto. Qed.

(* invariant during a fold: memoised values are the plain values, and marks are closed under
   descendants *)
Definition entry_ok (n : node) (e : option (payload S)) : Prop :=
  match e with
  | None => True
  | Some (PFold a b) =>
      (forall x, a = Some x -> x = plain true (node_ptr n)) /\
      (forall y, b = Some y -> y = plain false (node_ptr n))
  | Some PCount => False
  end.
Definition finv (s : scratch) : Prop :=
  (forall n, entry_ok n (s n)) /\
  (forall v lo hi, s (v, lo, hi) <> None -> forall m, In m (nodes lo ++ nodes hi) -> s m <> None).

Lemma finv_empty s : all_empty s -> finv s.
Proof. intros E. split; [intros n; rewrite E; exact I|intros v lo hi H; rewrite E in H; contradiction]. Qed.

Theorem fold_memo_spec : forall p c0 s, finv s ->
  let '(r, s') := fold_memo c0 p s in
  r = plain c0 p /\ finv s' /\
  (forall n, ~ In n (nodes p) -> s' n = s n) /\
  (forall n, In n (nodes p) -> s' n <> None) /\
  (forall n, s n <> None -> s' n <> None).
Proof.
  induction p as [| |c v lo IHlo hi IHhi]; intros c0 s I.
  - simpl. repeat split; auto; try apply I; contradiction.
  - simpl. repeat split; auto; try apply I; contradiction.
  - cbn [Scratch.fold_memo].
    set (ng := xorb c0 c). set (n := (v, lo, hi)).
    (* the miss path *)
    assert (HELPER : forall cached,
              (forall x, cached = Some x -> x = plain (negb ng) (node_ptr n)) ->
              (s n = None \/ exists a b, s n = Some (PFold a b) /\ (if ng then b else a) = cached) ->
              let '(r, s') :=
                (let '(lv, s1) := fold_memo ng lo s in
                 let '(hv, s2) := fold_memo ng hi s1 in
                 let r := add (mul (wlo v) lv) (mul (whi v) hv) in
                 (r, set_s s2 n (Some (if ng then PFold (Some r) cached else PFold cached (Some r))))) in
              r = plain c0 (BN c v lo hi) /\ finv s' /\
              (forall m, ~ In m (nodes (BN c v lo hi)) -> s' m = s m) /\
              (forall m, In m (nodes (BN c v lo hi)) -> s' m <> None) /\
              (forall m, s m <> None -> s' m <> None)).
    { intros cached Hc Hs.
      specialize (IHlo ng s I). destruct (fold_memo ng lo s) as [lv s1]. destruct IHlo as (Elv & I1 & F1 & M1 & K1).
      specialize (IHhi ng s1 I1). destruct (fold_memo ng hi s1) as [hv s2]. destruct IHhi as (Ehv & I2 & F2 & M2 & K2).
      assert (ER : add (mul (wlo v) lv) (mul (whi v) hv) = plain c0 (BN c v lo hi)) by (subst lv hv; reflexivity).
      assert (NN : ~ In n (nodes lo ++ nodes hi)) by apply node_not_in_children.
      split; [exact ER|]. split; [|split; [|split]].
      - destruct I2 as [EO DC]. split.
        + intros m. destruct (node_eqb m n) eqn:E.
          * apply node_eqb_eq in E. subst m. rewrite set_s_same.
            assert (PN : forall b, plain b (node_ptr n) = add (mul (wlo v) (plain b lo)) (mul (whi v) (plain b hi))).
            { intros b. simpl. rewrite xorb_false_r. reflexivity. }
            assert (RV : add (mul (wlo v) lv) (mul (whi v) hv) = plain ng (node_ptr n)) by (rewrite PN; subst lv hv; reflexivity).
            destruct ng; simpl; split; intros z Hz; try (injection Hz as <-; exact RV); apply Hc; exact Hz.
          * rewrite set_s_other by (neq E). apply EO.
        + intros v' lo' hi' Hm m Hin. destruct (node_eqb (v', lo', hi') n) eqn:E.
          * apply node_eqb_eq in E. injection E as -> -> ->.
            assert (m <> n) by (intros ->; contradiction).
            rewrite set_s_other by assumption.
            apply in_app_or in Hin. destruct Hin as [Hin|Hin]; [apply K2, M1; exact Hin|apply M2; exact Hin].
          * assert (NE : (v', lo', hi') <> n) by (neq E).
            rewrite set_s_other in Hm by assumption.
            destruct (node_eqb m n) eqn:E2; [apply node_eqb_eq in E2; subst m; rewrite set_s_same; discriminate|].
            rewrite set_s_other by (neq E2).
            eapply DC; eauto.
      - intros m Hm. simpl in Hm.
        assert (m <> n) by (intros ->; apply Hm; left; reflexivity).
        rewrite set_s_other by assumption.
        rewrite F2, F1; auto; intros Hin; apply Hm; right; apply in_or_app; auto.
      - intros m Hm. simpl in Hm. destruct Hm as [<-|Hm]; [rewrite set_s_same; discriminate|].
        assert (m <> n) by (intros ->; contradiction).
        rewrite set_s_other by assumption.
        apply in_app_or in Hm. destruct Hm as [Hm|Hm]; [apply K2, M1; exact Hm|apply M2; exact Hm].
      - intros m Hm. destruct (node_eqb m n) eqn:E; [apply node_eqb_eq in E; subst m; rewrite set_s_same; discriminate|].
        rewrite set_s_other by (neq E). apply K2, K1, Hm. }
    (* a hit: nothing changes, and the marks below are already there *)
    assert (HIT : forall r, r = plain c0 (BN c v lo hi) -> s n <> None ->
              r = plain c0 (BN c v lo hi) /\ finv s /\
              (forall m, ~ In m (nodes (BN c v lo hi)) -> s m = s m) /\
              (forall m, In m (nodes (BN c v lo hi)) -> s m <> None) /\
              (forall m, s m <> None -> s m <> None)).
    { intros r Er Hn. repeat split; auto; try apply I.
      intros m Hm. simpl in Hm. destruct Hm as [<-|Hm]; auto. destruct I as [_ DC]. eapply DC; eauto. }
    assert (PC : forall b, plain b (node_ptr n) = plain (xorb b c) (BN c v lo hi)).
    { intros b. simpl. rewrite xorb_false_r. destruct b, c; reflexivity. }
    assert (C0 : c0 = xorb ng c) by (unfold ng; destruct c0, c; reflexivity).
    unfold Scratch.read_fold. fold n.
    pose proof (proj1 I n) as EO. destruct (s n) as [[a b|]|] eqn:Sn; unfold entry_ok in EO.
    + destruct EO as [Ea Eb].
      destruct a as [x|], b as [y|].
      * apply HIT; [|discriminate]. destruct ng; [rewrite (Ea _ eq_refl)|rewrite (Eb _ eq_refl)]; rewrite PC, C0; reflexivity.
      * destruct ng eqn:NG.
        -- apply HIT; [|discriminate]. rewrite (Ea _ eq_refl), PC, C0. reflexivity.
        -- apply HELPER; [intros z [= <-]; apply Ea; reflexivity|right; eauto].
      * destruct ng eqn:NG.
        -- apply HELPER; [intros z [= <-]; apply Eb; reflexivity|right; eauto].
        -- apply HIT; [|discriminate]. rewrite (Eb _ eq_refl), PC, C0. reflexivity.
      * apply HELPER; [intros z Hz; discriminate|right; exists None, None; split; auto; destruct ng; reflexivity].
    + contradiction.
    + apply HELPER; [intros z Hz; discriminate|left; reflexivity].
Qed.

(* clear_scratch empties every reachable node provided emptiness is closed under descendants
   inside the diagram -- which is what justifies stopping at an already-empty node *)
Theorem clear_spec : forall p s,
  (forall v lo hi, In (v, lo, hi) (nodes p) -> s (v, lo, hi) = None -> forall m, In m (nodes lo ++ nodes hi) -> s m = None) ->
  (forall n, In n (nodes p) -> clear p s n = None) /\
  (forall n, ~ In n (nodes p) -> clear p s n = s n) /\
  (forall n, s n = None -> clear p s n = None).
Proof.
  induction p as [| |c v lo IHlo hi IHhi]; intros s H.
  - simpl. repeat split; auto; contradiction.
  - simpl. repeat split; auto; contradiction.
  - cbn [Scratch.clear]. set (n := (v, lo, hi)) in *.
    assert (NN : ~ In n (nodes lo ++ nodes hi)) by apply node_not_in_children.
    destruct (s n) as [e|] eqn:Sn.
    + set (s1 := set_s s n None).
      assert (H1 : forall v' lo' hi', In (v', lo', hi') (nodes lo) -> s1 (v', lo', hi') = None ->
                   forall m, In m (nodes lo' ++ nodes hi') -> s1 m = None).
      { intros v' lo' hi' Hin Hs m Hm.
        assert (NE : (v', lo', hi') <> n) by (intros E; apply NN; rewrite <- E; apply in_or_app; auto).
        unfold s1 in Hs. rewrite set_s_other in Hs by assumption.
        unfold s1. destruct (node_eqb m n) eqn:E; [apply node_eqb_eq in E; subst m; apply set_s_same|].
        rewrite set_s_other by (neq E).
        eapply (H v' lo' hi'); eauto. simpl. right. apply in_or_app. auto. }
      destruct (IHlo s1 H1) as (C1 & F1 & K1). set (s2 := clear lo s1) in *.
      assert (H2 : forall v' lo' hi', In (v', lo', hi') (nodes hi) -> s2 (v', lo', hi') = None ->
                   forall m, In m (nodes lo' ++ nodes hi') -> s2 m = None).
      { intros v' lo' hi' Hin Hs m Hm.
        destruct (in_dec (fun a b => match bool_dec (node_eqb a b) true with left e => left (proj1 (node_eqb_eq a b) e) | right ne => right (fun E => ne (proj2 (node_eqb_eq a b) E)) end) (v', lo', hi') (nodes lo)) as [Il|Nl].
        - apply C1. eapply nodes_trans; eauto.
        - rewrite F1 in Hs by assumption.
          assert (NE : (v', lo', hi') <> n) by (intros E; apply NN; rewrite <- E; apply in_or_app; auto).
          unfold s1 in Hs. rewrite set_s_other in Hs by assumption.
          apply K1. unfold s1. destruct (node_eqb m n) eqn:E; [apply node_eqb_eq in E; subst m; apply set_s_same|].
          rewrite set_s_other by (neq E).
          eapply (H v' lo' hi'); eauto. simpl. right. apply in_or_app. auto. }
      destruct (IHhi s2 H2) as (C2 & F2 & K2).
      split; [|split].
      * intros m Hm. simpl in Hm. destruct Hm as [<-|Hm].
        -- apply K2, K1. unfold s1. apply set_s_same.
        -- apply in_app_or in Hm. destruct Hm as [Hm|Hm]; [apply K2, C1; exact Hm|apply C2; exact Hm].
      * intros m Hm. simpl in Hm.
        assert (m <> n) by (intros ->; apply Hm; left; reflexivity).
        rewrite F2, F1 by (intros Hin; apply Hm; right; apply in_or_app; auto).
        unfold s1. apply set_s_other. assumption.
      * intros m Hm. apply K2, K1. unfold s1.
        destruct (node_eqb m n) eqn:E; [apply node_eqb_eq in E; subst m; apply set_s_same|].
        rewrite set_s_other by (neq E). exact Hm.
    + split; [|split]; auto.
      intros m Hm. simpl in Hm. destruct Hm as [<-|Hm]; auto. eapply (H v lo hi); eauto. simpl. left. reflexivity.
Qed.

(* THE THEOREM (C10, weighted counting / evaluation / semantic hashing): from an all-empty
   scratch state the public fold returns the plain recursion's value and leaves the scratch
   state all-empty *)
Theorem fold_public_pure p s : all_empty s ->
  fst (fold_public S add mul zero one wlo whi p s) = plain false p /\
  all_empty (snd (fold_public S add mul zero one wlo whi p s)).
Proof.
  intros E. unfold fold_public.
  pose proof (fold_memo_spec p false s (finv_empty s E)) as H.
  destruct (fold_memo false p s) as [r s1]. destruct H as (Er & I1 & F1 & M1 & K1). simpl.
  split; [exact Er|].
  assert (HC : forall v lo hi, In (v, lo, hi) (nodes p) -> s1 (v, lo, hi) = None -> forall m, In m (nodes lo ++ nodes hi) -> s1 m = None).
  { intros v lo hi Hin Hs. exfalso. apply (M1 _ Hin). exact Hs. }
  destruct (clear_spec p s1 HC) as (C & F & K).
  intros n. destruct (in_dec (fun a b => match bool_dec (node_eqb a b) true with left e => left (proj1 (node_eqb_eq a b) e) | right ne => right (fun E' => ne (proj2 (node_eqb_eq a b) E')) end) n (nodes p)) as [Hin|Hn].
  - apply C. exact Hin.
  - rewrite F, F1 by assumption. apply E.
Qed.
End Q.

(* any sequence of public folds -- different weights, diagrams sharing sub-structure -- returns,
   call by call, the answers of the pure recursion, and ends with an all-empty scratch state *)
Section Seq.
Variable S : Type.
Variable add mul : S -> S -> S.
Variable zero one : S.

Definition query := ((var -> S) * (var -> S) * bdd)%type.
Fixpoint run_queries (qs : list query) (s : scratch S) : list S * scratch S :=
  match qs with
  | [] => ([], s)
  | (wlo, whi, p) :: r =>
    let '(a, s1) := fold_public S add mul zero one wlo whi p s in
    let '(rest, s2) := run_queries r s1 in (a :: rest, s2)
  end.

Theorem queries_commute qs : forall s, all_empty S s ->
  fst (run_queries qs s) = map (fun q => let '(wlo, whi, p) := q in wmc_m S add mul zero one wlo whi p) qs /\
  all_empty S (snd (run_queries qs s)).
Proof.
  induction qs as [|[[wlo whi] p] r IH]; intros s E; simpl; [split; auto|].
  destruct (fold_public_pure S add mul zero one wlo whi p s E) as [Ea Es].
  destruct (fold_public S add mul zero one wlo whi p s) as [a s1]. simpl in Ea, Es.
  destruct (IH s1 Es) as [Er Es2]. destruct (run_queries r s1) as [rest s2]. simpl in *.
  split; [rewrite Ea, Er; reflexivity|exact Es2].
Qed.
End Seq.
