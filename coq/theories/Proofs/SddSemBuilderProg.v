(* C11 -- SemanticSddBuilder, operations and programs (CONDITIONAL on injectivity, hypotheses as in
   Proofs/SddSemBuilderStore.v): condition, exists, ite / iff / xor (only the triples Ite::new
   resolves to a constant return; the rest is todo!() = Panic), compose, compile_cnf, operation
   programs over a pool.  Partial correctness: runs that return. *)
From Coq Require Import Bool NArith List Lia Arith Permutation.
Import ListNotations.
From RsddV Require Import Base.Bdd Base.Util Model.SddVtree Model.SddOps Model.Semirings Model.SemHash
  Model.SddSemBuilder.
From RsddV Require Model.Compile Proofs.SddProg.
From RsddV Require Import Proofs.Semirings Proofs.Wmc Proofs.SemHash Proofs.SemHashSdd Proofs.SddBase Proofs.SddVtree
  Proofs.SddWmc Proofs.SddInv Proofs.SddLoops Proofs.SddSemBuilderBase Proofs.SddSemBuilderStore Proofs.SddSemBuilderAnd.

(* the loop over f.node_iter() of condition as a function of its own *)
Fixpoint cond_loop (H : sdd -> N) (cf : bool -> sdd -> M sdd) (c' : bool) (l : list elem) : M (sdd + list elem) :=
  match l with
  | [] => ret (inr [])
  | (p, s) :: r => bnd (cf false p) (fun newp => cond_step H newp (cf c' s) (cond_loop H cf c' r))
  end.

Section Prog.
Variable t : vtree.
Variable P : N.
Hypothesis OK : ff_ok P.
Variable w : wmap.
Hypothesis WR : wrange P w.
Notation H := (shash P w).
Variable D : sdd -> Prop.
Variable K : sdd -> sdd -> Prop.
Hypothesis Dneg : forall p, D p -> D (sneg p).
Hypothesis DF : D SF.
Hypothesis Dinj : forall p q, D p -> D q -> shash P w p = shash P w q -> forall a, sden p a = sden q a.
Hypothesis KT : K ST ST.
Hypothesis KF : K SF SF.
Hypothesis Kinj : forall a b a' b', K a b -> K a' b' -> app_key P H a b = app_key P H a' b' ->
  forall x, sden a x && sden b x = sden a' x && sden b' x.

Notation swf := (swf t).
Notation sokl := (sokl t).
Notation inv := (inv t P w D K).
Notation sp := (sp (evok D K)).

Let and_ok_m fuel := and_m_ok t P OK w WR D K Dneg DF Dinj KT KF Kinj fuel.
Let or_ok_m fuel := or_m_ok t P OK w WR D K Dneg DF Dinj KT KF Kinj fuel.

(* ---- condition ---- *)
Section Cond.
Variable lbl : var.
Variable value : bool.
Notation cf := (cond_m P H lbl value).
Notation cnd a := (upd a lbl value).

Lemma cond_m_or flip c idx els :
  cf flip (SOr c idx els) = bnd (cond_loop H cf (xorb flip c) els) (cond_fin P H idx).
Proof.
  simpl. f_equal. induction els as [|[p s] r IH]; [reflexivity|]. simpl. rewrite <- IH. reflexivity.
Qed.

Definition cond_ok (p : sdd) : Prop :=
  forall flip st, inv st -> swf p ->
  sp (cf flip p) st (fun x s => inv s /\ swf x /\ forall a, sden x a = xorb flip (sden p (cnd a))).

Lemma cond_var_sem v pol a : sden (cond_var lbl value v pol) a = sden (SVar v pol) (cnd a).
Proof.
  unfold cond_var. destruct (N.eqb_spec v lbl) as [->|Hn].
  - simpl. unfold upd. rewrite N.eqb_refl. destruct pol, value; reflexivity.
  - simpl. unfold upd. destruct (N.eqb_spec v lbl); [contradiction|reflexivity].
Qed.
Lemma cond_var_swf v pol : In v (vleaves t) -> swf (cond_var lbl value v pol).
Proof. intros Hv. unfold cond_var. destruct (N.eqb v lbl); [destruct (Bool.eqb pol value)|]; constructor. exact Hv. Qed.

Section Loop.
Variables l r : vtree.
Variable off : nat.
Hypothesis Ho : occurs t 0 (VNode l r) off.
Notation m := (off + vsize l).
Notation L := (vleaves l).
Notation R := (vleaves r).

Definition lp_post (c' : bool) (els : list elem) (res : sdd + list elem) : Prop :=
  match res with
  | inl x => swf x /\ (forall a, 1 <= cnt els (cnd a)) /\
             (forall a, sden x a = den_els (adjsubs c' els) (cnd a))
  | inr v => sokl l r v /\ (forall a, cnt v a = cnt els (cnd a)) /\
             (forall a, den_els v a = den_els (adjsubs c' els) (cnd a))
  end.

Lemma cond_step_sp c' p s rest_els newp (news : M sdd) (rest : M (sdd + list elem)) st :
  inv st -> swf newp -> dep L newp -> (forall a, sden newp a = sden p (cnd a)) ->
  excl ((p, s) :: rest_els) ->
  (forall st1, inv st1 -> sp news st1 (fun ns s' => inv s' /\ swf ns /\ dep R ns /\
                                         forall a, sden ns a = xorb c' (sden s (cnd a)))) ->
  (forall st1, inv st1 -> sp rest st1 (fun res s' => inv s' /\ lp_post c' rest_els res)) ->
  sp (cond_step H newp news rest) st (fun res s' => inv s' /\ lp_post c' ((p, s) :: rest_els) res).
Proof.
  intros Hinv Wnp Dnp Snp Hex Hnews Hrest. unfold cond_step.
  assert (Hex' : excl rest_els) by (intros a; specialize (Hex a); rewrite cnt_cons in Hex; lia).
  eapply sp_seq; [eapply is_falseS_sp; eassumption|]. intros f st1 [-> Hf]. destruct f.
  { specialize (Hf eq_refl). eapply sp_mono; [apply Hrest; exact Hinv|]. intros res s' (I1 & Hr).
    split; [exact I1|]. destruct res as [x|v]; cbn [lp_post] in *; unfold adjsubs in *; cbn [map fst snd] in *.
    - destruct Hr as (H1 & H2 & H3). repeat split; auto.
      + intros a. rewrite cnt_cons. specialize (H2 a). lia.
      + intros a. rewrite den_els_cons, H3. cbn [fst snd]. rewrite <- Snp, Hf. reflexivity.
    - destruct Hr as (H1 & H3 & H4). repeat split; auto.
      + intros a. rewrite cnt_cons, H3, <- Snp, Hf. reflexivity.
      + intros a. rewrite den_els_cons, H4. cbn [fst snd]. rewrite <- Snp, Hf. reflexivity. }
  clear Hf.
  eapply sp_seq; [apply Hnews; exact Hinv|]. intros ns st1 (I1 & Wns & Dns & Sns).
  eapply sp_seq; [eapply is_trueS_sp; eassumption|]. intros tr st2 [-> Ht]. destruct tr.
  { specialize (Ht eq_refl). apply sp_ret. split; [exact I1|]. cbn [lp_post]. repeat split.
    - exact Wns.
    - intros a. rewrite cnt_cons, <- Snp, Ht. lia.
    - intros a. unfold adjsubs. cbn [map fst snd]. rewrite den_els_cons. cbn [fst snd].
      rewrite <- Snp, Ht, Sns, sden_adj. simpl.
      specialize (Hex (cnd a)). rewrite cnt_cons, <- Snp, Ht in Hex.
      assert (Hz : cnt (adjsubs c' rest_els) (cnd a) = 0) by (rewrite cnt_adjsubs; lia).
      fold (adjsubs c' rest_els). rewrite (cnt_zero_den _ _ Hz). rewrite orb_false_r. reflexivity. }
  clear Ht.
  eapply sp_seq; [apply Hrest; exact I1|]. intros res st2 (I2 & Hr). apply sp_ret. split; [exact I2|].
  destruct res as [x|v]; cbn [lp_post] in *; unfold adjsubs in *; cbn [map fst snd] in *.
  - destruct Hr as (H1 & H2 & H3). repeat split; auto.
    + intros a. rewrite cnt_cons. specialize (H2 a). lia.
    + intros a. rewrite den_els_cons, H3. cbn [fst snd].
      specialize (Hex (cnd a)). rewrite cnt_cons in Hex. specialize (H2 a).
      destruct (sden p (cnd a)); [lia|]. reflexivity.
  - destruct Hr as (H1 & H3 & H4). repeat split.
    + apply sokl_cons. auto 6.
    + intros a. rewrite !cnt_cons, H3, Snp. reflexivity.
    + intros a. rewrite !den_els_cons, H4. cbn [fst snd]. rewrite Snp, Sns, sden_adj. reflexivity.
Qed.

Lemma lp_post_nil c' : lp_post c' [] (inr []).
Proof. cbn [lp_post]. repeat split; constructor. Qed.

Lemma cond_loop_sp c' : forall els st, inv st -> sokl l r els -> excl els ->
  Forall (fun e => cond_ok (fst e) /\ cond_ok (snd e)) els ->
  sp (cond_loop H cf c' els) st (fun res s => inv s /\ lp_post c' els res).
Proof.
  induction els as [|[p s] rest IH]; intros st Hinv Hok Hex HI.
  - apply sp_ret. split; [exact Hinv | apply lp_post_nil].
  - apply sokl_cons in Hok. destruct Hok as (Wp & Ws & Dp & Ds & Hok).
    inversion HI as [|? ? [Ip Is] HI']; subst. cbn [fst snd] in Ip, Is.
    assert (Hex' : excl rest) by (intros a; specialize (Hex a); rewrite cnt_cons in Hex; lia).
    cbn [cond_loop].
    eapply sp_seq; [apply Ip; assumption|]. intros newp st1 (I1 & Wnp & Snp).
    assert (Snp' : forall a, sden newp a = sden p (cnd a)) by (intros a; rewrite Snp; apply xorb_false_l).
    apply (cond_step_sp c' p s rest newp); auto.
    + eapply dep_cond; eauto.
    + intros st2 I2. eapply sp_mono; [apply Is; assumption|]. intros ns s' (I3 & Wns & Sns).
      split; [exact I3|]. split; [exact Wns|]. split; [|exact Sns].
      apply (dep_cond R ns (adj c' s) lbl value); [intros a; rewrite Sns, sden_adj; reflexivity | apply dep_adj; exact Ds].
Qed.

Lemma cond_fin_sp c' els st res : inv st -> part els -> lp_post c' els res ->
  sp (cond_fin P H m res) st (fun x s => inv s /\ swf x /\ forall a, sden x a = xorb c' (den_els els (cnd a))).
Proof.
  intros Hinv Hp Hr. destruct res as [x|v]; cbn [cond_fin lp_post] in *.
  - destruct Hr as (H1 & H2 & H3). apply sp_ret. split; [exact Hinv|]. split; [exact H1|].
    intros a. rewrite H3. apply den_adjsubs. apply Hp.
  - destruct Hr as (H1 & H3 & H4). unfold canonicalize.
    eapply sp_mono.
    { eapply (unique_or_sp t P OK w WR D K Dneg DF Dinj l r off Ho v); [exact Hinv | exact H1 |].
      intros a. rewrite H3. apply Hp. }
    intros x s (I1 & Wx & Sx). split; [exact I1|]. split; [exact Wx|].
    intros a. rewrite Sx, H4. apply den_adjsubs. apply Hp.
Qed.
End Loop.

Lemma cond_ok_const p : s_is_const p = true -> cond_ok p.
Proof.
  intros Hc flip st Hinv _. destruct p; try discriminate; destruct flip; cbn [cond_m]; apply sp_ret;
    (split; [exact Hinv|]); (split; [constructor | reflexivity]).
Qed.

Lemma cond_ok_var v pol : cond_ok (SVar v pol).
Proof.
  intros flip st Hinv Wp. inversion Wp as [| |? ? Hv| |]; subst. cbn [cond_m]. apply sp_ret. split; [exact Hinv|].
  split; [apply cond_var_swf; exact Hv|]. intros a. rewrite cond_var_sem. simpl.
  destruct flip, pol, (upd a lbl value v); reflexivity.
Qed.

Theorem cond_m_ok : forall p, cond_ok p.
Proof.
  induction p as [| |v b|c lb i lo hi IHlo IHhi|c i els IH] using sdd_ind'.
  - apply cond_ok_const; reflexivity.
  - apply cond_ok_const; reflexivity.
  - apply cond_ok_var.
  - intros flip st Hinv Wp.
    inversion Wp as [| | |l r off c0 lbl0 lo0 hi0 Ho Hl Wlo Whi Dlo Dhi|]; subst.
    cbn [cond_m].
    assert (HvT : In lb (vleaves t)) by (eapply in_left_leaves; eauto).
    assert (Hex : excl [(SVar lb true, hi); (SVar lb false, lo)]).
    { intros a. unfold cnt. simpl. destruct (a lb); simpl; lia. }
    eapply sp_seq.
    { apply (cond_step_sp l r (xorb flip c) (SVar lb true) hi [(SVar lb false, lo)]); auto.
      - apply cond_var_swf; exact HvT.
      - apply (dep_cond _ _ (SVar lb true) lbl value); [apply cond_var_sem | apply dep_var; exact Hl].
      - apply cond_var_sem.
      - intros st1 I1. eapply sp_mono; [apply IHhi; assumption|]. intros ns s' (I2 & Wns & Sns).
        split; [exact I2|]. split; [exact Wns|]. split; [|exact Sns].
        apply (dep_cond _ ns (adj (xorb flip c) hi) lbl value); [intros a; rewrite Sns, sden_adj; reflexivity | apply dep_adj; exact Dhi].
      - intros st1 I1.
        apply (cond_step_sp l r (xorb flip c) (SVar lb false) lo []); auto.
        + apply cond_var_swf; exact HvT.
        + apply (dep_cond _ _ (SVar lb false) lbl value); [apply cond_var_sem | apply dep_var; exact Hl].
        + apply cond_var_sem.
        + intros a. unfold cnt. simpl. destruct (Bool.eqb (a lb) false); simpl; lia.
        + intros st2 I2. eapply sp_mono; [apply IHlo; assumption|]. intros ns s' (I3 & Wns & Sns).
          split; [exact I3|]. split; [exact Wns|]. split; [|exact Sns].
          apply (dep_cond _ ns (adj (xorb flip c) lo) lbl value); [intros a; rewrite Sns, sden_adj; reflexivity | apply dep_adj; exact Dlo].
        + intros st2 I2. apply sp_ret. split; [exact I2 | apply lp_post_nil]. }
    intros res st1 (I1 & Hr).
    eapply sp_mono.
    { apply (cond_fin_sp l r off Ho (xorb flip c) [(SVar lb true, hi); (SVar lb false, lo)] st1 res I1); [|exact Hr].
      intros a. apply cnt_bdd_elems. }
    intros x s (I2 & Wx & Sx). split; [exact I2|]. split; [exact Wx|].
    intros a. rewrite Sx. unfold den_els. simpl. rewrite <- xorb_assoc.
    destruct (upd a lbl value lb), (sden hi (upd a lbl value)), (sden lo (upd a lbl value)); simpl;
      rewrite ?xorb_false_r, ?xorb_true_r; reflexivity.
  - intros flip st Hinv Wp.
    inversion Wp as [| | | |l r off c0 els0 Ho Hok Hp]; subst.
    rewrite cond_m_or.
    assert (HI : Forall (fun e => cond_ok (fst e) /\ cond_ok (snd e)) els).
    { exact IH. }
    eapply sp_seq; [apply (cond_loop_sp l r (xorb flip c) els st Hinv Hok (part_excl _ Hp) HI)|].
    intros res st1 (I1 & Hr).
    eapply sp_mono; [apply (cond_fin_sp l r off Ho (xorb flip c) els st1 res I1 Hp Hr)|].
    intros x s (I2 & Wx & Sx). split; [exact I2|]. split; [exact Wx|].
    intros a. rewrite Sx, sden_or. apply xorb_assoc.
Qed.
End Cond.

Notation U := swf.
Notation denotes := (SddProg.denotes swf).

Lemma condition_ok x v b st : inv st -> swf x ->
  sp (condition_m P H x v b) st (fun r s => inv s /\ swf r /\ forall a, sden r a = sden x (upd a v b)).
Proof.
  intros Hinv Wx. unfold condition_m. eapply sp_mono; [apply (cond_m_ok v b x false st Hinv Wx)|].
  intros r s (I1 & Wr & Sr). split; [exact I1|]. split; [exact Wr|]. intros a. rewrite Sr. apply xorb_false_l.
Qed.

Lemma exists_ok fuel x v st : inv st -> swf x ->
  sp (exists_m t P H fuel x v) st
     (fun r s => inv s /\ swf r /\ forall a, sden r a = sden x (upd a v true) || sden x (upd a v false)).
Proof.
  intros Hinv Wx. unfold exists_m.
  eapply sp_seq; [apply condition_ok; assumption|]. intros r1 st1 (I1 & W1 & S1).
  eapply sp_seq; [apply condition_ok; assumption|]. intros r2 st2 (I2 & W2 & S2).
  eapply sp_mono; [apply or_ok_m; assumption|]. intros r s (I3 & Wr & Sr). split; [exact I3|]. split; [exact Wr|].
  intros a. rewrite Sr, S1, S2. reflexivity.
Qed.

Lemma ite_ok f g h st : inv st -> swf f -> swf g -> swf h ->
  sp (ite_m t f g h) st (fun r s => inv s /\ swf r /\ forall a, sden r a = if sden f a then sden g a else sden h a).
Proof.
  intros Hinv Wf Wg Wh. unfold ite_m.
  pose proof (SddProg.s_ite_std_sound (is_prime_ptr t) f g h) as Hstd.
  destruct (s_ite_new (is_prime_ptr t) f g h) as [a b c|a b c|r] eqn:En; try apply sp_panic.
  apply sp_ret. split; [exact Hinv|]. split.
  - apply (SddProg.s_ite_const_under (is_prime_ptr t) swf f g h r); auto using swf_sneg; constructor.
  - intros a. apply (Hstd a).
Qed.

Lemma compose_ok fuel f v g st : inv st -> In v (vleaves t) -> swf f -> swf g ->
  sp (compose_m t P H fuel f v g) st (fun r s => inv s /\ swf r /\ forall a, sden r a =
      (Bool.eqb (upd a v true v) (sden g (upd a v true)) && sden f (upd a v true)) ||
      (Bool.eqb (upd a v false v) (sden g (upd a v false)) && sden f (upd a v false))).
Proof.
  intros Hinv Hv Wf Wg. unfold compose_m.
  eapply sp_seq; [apply ite_ok; auto using swf_sneg; constructor; exact Hv|]. intros i st1 (I1 & Wi & Si).
  eapply sp_seq; [apply and_ok_m; assumption|]. intros x st2 (I2 & Wx & Sx).
  eapply sp_mono; [apply exists_ok; assumption|]. intros r s (I3 & Wr & Sr). split; [exact I3|]. split; [exact Wr|].
  intros a. rewrite Sr, !Sx, !Si, !sden_sneg. simpl.
  destruct (upd a v true v), (upd a v false v), (sden g (upd a v true)), (sden g (upd a v false)); reflexivity.
Qed.

(* ---- compile_cnf ---- *)
Lemma clause_fold_ok fuel (c : list lit) : Forall (fun l : lit => In (fst l) (vleaves t)) c ->
  forall x st, inv st -> swf x ->
  sp (clause_fold t P H fuel c x) st
     (fun r s => inv s /\ swf r /\ forall a, sden r a = sden x a || Compile.clause_eval a c).
Proof.
  induction 1 as [|l c Hl _ IH]; intros x st Hinv Wx.
  - apply sp_ret. split; [exact Hinv|]. split; [exact Wx|]. intros a. simpl. rewrite orb_false_r. reflexivity.
  - cbn [clause_fold].
    eapply sp_seq; [apply or_ok_m; [exact Hinv | exact Wx | constructor; exact Hl]|]. intros y st1 (I1 & Wy & Sy).
    eapply sp_mono; [apply IH; assumption|]. intros r s (I2 & Wr & Sr). split; [exact I2|]. split; [exact Wr|].
    intros a. rewrite Sr, Sy. unfold Compile.clause_eval. simpl. unfold Compile.lit_eval at 1.
    rewrite orb_assoc. reflexivity.
Qed.

Lemma clause_ok fuel (c : list lit) st : inv st -> Forall (fun l : lit => In (fst l) (vleaves t)) c ->
  sp (clause_m t P H fuel c) st (fun r s => inv s /\ swf r /\ forall a, sden r a = Compile.clause_eval a c).
Proof.
  intros Hinv Hc. destruct c as [|[v p] rest]; [apply sp_panic|]. unfold clause_m.
  assert (Hv : In v (vleaves t)) by (inversion Hc; auto).
  eapply sp_mono; [apply (clause_fold_ok fuel _ Hc (SVar v p) st Hinv); constructor; exact Hv|].
  intros r s (I1 & Wr & Sr). split; [exact I1|]. split; [exact Wr|].
  intros a. rewrite Sr. unfold Compile.clause_eval. cbn [existsb].
  unfold Compile.lit_eval. cbn [sden fst snd]. destruct (Bool.eqb (a v) p); reflexivity.
Qed.

Lemma clauses_ok fuel (cs : list (list lit)) : Forall (Forall (fun l : lit => In (fst l) (vleaves t))) cs ->
  forall st, inv st ->
  sp (clauses_m t P H fuel cs) st
     (fun v s => inv s /\ Forall swf v /\ length v = length cs /\
                 forall a, forallb (fun p => sden p a) v = Compile.cnf_eval cs a).
Proof.
  induction 1 as [|c r Hc _ IH]; intros st Hinv.
  - apply sp_ret. split; [exact Hinv|]. repeat split; auto.
  - cbn [clauses_m].
    eapply sp_seq; [apply clause_ok; assumption|]. intros x st1 (I1 & Wx & Sx).
    eapply sp_seq; [apply IH; assumption|]. intros v st2 (I2 & Wv & Lv & Sv).
    apply sp_ret. split; [exact I2|]. repeat split; auto.
    + simpl. congruence.
    + intros a. simpl. rewrite Sx, Sv. reflexivity.
Qed.

Lemma cnf_helper_ok fuel : forall hf vec st, inv st -> Forall swf vec ->
  sp (cnf_helper t P H fuel hf vec) st
     (fun o s => inv s /\ match o with
                          | None => vec = []
                          | Some x => vec <> [] /\ swf x /\ forall a, sden x a = forallb (fun p => sden p a) vec
                          end).
Proof.
  induction hf as [|hf IH]; intros vec st Hinv Hu; [apply sp_oof|].
  cbn [cnf_helper]. destruct vec as [|x [|y rest]].
  - apply sp_ret. auto.
  - apply sp_ret. split; [exact Hinv|]. inversion Hu; subst. repeat split; auto; try discriminate.
    intros a. simpl. rewrite andb_true_r. reflexivity.
  - set (vec := x :: y :: rest) in *. set (k := Nat.div2 (length vec)).
    assert (Hsplit : firstn k vec ++ skipn k vec = vec) by apply firstn_skipn.
    assert (Hu' : Forall swf (firstn k vec) /\ Forall swf (skipn k vec)) by (apply Forall_app; rewrite Hsplit; exact Hu).
    destruct Hu' as [Ul Ur].
    eapply sp_seq; [apply IH; assumption|]. intros ol st1 (I1 & Hol).
    eapply sp_seq; [apply IH; assumption|]. intros or_ st2 (I2 & Hor).
    assert (Hall : forall a, forallb (fun p => sden p a) vec =
                             forallb (fun p => sden p a) (firstn k vec) && forallb (fun p => sden p a) (skipn k vec)).
    { intros a. rewrite <- forallb_app, Hsplit. reflexivity. }
    destruct ol as [xl|]; destruct or_ as [xr|].
    + destruct Hol as (_ & Wl & Sl). destruct Hor as (_ & Wr & Sr).
      eapply sp_seq; [apply and_ok_m; assumption|]. intros z st3 (I3 & Wz & Sz). apply sp_ret. split; [exact I3|].
      repeat split; auto; try discriminate. intros a. rewrite Sz, Sl, Sr, Hall. reflexivity.
    + destruct Hol as (_ & Wl & Sl). apply sp_ret. split; [exact I2|]. repeat split; auto; try discriminate;
      intros a; rewrite Sl, Hall, Hor; simpl; rewrite andb_true_r; reflexivity.
    + destruct Hor as (_ & Wr & Sr). apply sp_ret. split; [exact I2|]. repeat split; auto; try discriminate;
      intros a; rewrite Sr, Hall, Hol; reflexivity.
    + apply sp_ret. split; [exact I2|]. rewrite <- Hsplit, Hol, Hor. reflexivity.
Qed.

Lemma compile_cnf_ok fuel (f sorted : list (list lit)) st : inv st -> Permutation sorted f ->
  Forall (Forall (fun l : lit => In (fst l) (vleaves t))) f ->
  sp (compile_cnf_m t P H fuel f sorted) st (fun r s => inv s /\ swf r /\ forall a, sden r a = Compile.cnf_eval f a).
Proof.
  intros Hinv Pm Hv. unfold compile_cnf_m.
  destruct (Nat.eqb_spec (length f) 0) as [E0|E0].
  { destruct f; [|discriminate]. apply sp_ret. split; [exact Hinv|]. split; [constructor | reflexivity]. }
  destruct (existsb (fun c : list lit => Nat.eqb (length c) 0) f) eqn:Ee.
  { apply sp_ret. split; [exact Hinv|]. split; [constructor|]. intros a. simpl. symmetry. unfold Compile.cnf_eval.
    apply existsb_exists in Ee. destruct Ee as (c & Hin & Hc). destruct c; [|discriminate].
    apply not_true_is_false. intros Ht. rewrite forallb_forall in Ht. specialize (Ht [] Hin). discriminate. }
  assert (Hv' : Forall (Forall (fun l : lit => In (fst l) (vleaves t))) sorted) by (rewrite Pm; exact Hv).
  eapply sp_seq; [apply clauses_ok; assumption|]. intros v st1 (I1 & Wv & Lv & Sv).
  eapply sp_seq; [apply cnf_helper_ok; assumption|]. intros o st2 (I2 & Ho). apply sp_ret. split; [exact I2|].
  destruct o as [x|].
  - destruct Ho as (_ & Wx & Sx). split; [exact Wx|]. intros a. rewrite Sx, Sv.
    unfold Compile.cnf_eval. apply SddProg.forallb_perm. exact Pm.
  - exfalso. subst v. simpl in Lv. apply E0. rewrite <- (Permutation_length Pm). auto.
Qed.

(* ---- programs ---- *)
Definition pool_ok (pool : list sdd) (fs : list SddProg.bfun) : Prop := Forall2 denotes pool fs.

Lemma pget_ok pool fs i : pool_ok pool fs -> denotes (pget pool i) (SddProg.fget fs i).
Proof.
  intros Hp. unfold pget, SddProg.fget. revert i. induction Hp; intros [|i]; simpl; auto; split; try constructor; reflexivity.
Qed.

Lemma pool_ok_snoc pool fs p f : pool_ok pool fs -> denotes p f -> pool_ok (pool ++ [p]) (fs ++ [f]).
Proof. intros H1 H2. apply Forall2_app; auto. Qed.

Lemma step_ok fuel pool fs o st : inv st -> pool_ok pool fs -> SddProg.op_wf t o ->
  sp (step_s t P H fuel pool o) st (fun pool' s => inv s /\ pool_ok pool' (fs ++ [SddProg.spec_op fs o])).
Proof.
  intros Hinv Hp Hw. unfold step_s.
  assert (G := fun i => pget_ok pool fs i Hp).
  assert (Push : forall (mr : M sdd) f,
            sp mr st (fun r s => inv s /\ swf r /\ forall a, sden r a = f a) ->
            sp (bnd mr (fun x => ret (pool ++ [x]))) st (fun pool' s => inv s /\ pool_ok pool' (fs ++ [f]))).
  { intros mr f Hm. eapply sp_seq; [exact Hm|]. intros r s (I1 & Wr & Sr). apply sp_ret. split; [exact I1|].
    apply pool_ok_snoc; [exact Hp | split; assumption]. }
  destruct o as [| |v pol|i|i j|i j|i j|i j|i j k|i v b|i v|i v j|f sorted]; cbn [SddProg.spec_op]; apply Push.
  - apply sp_ret. split; [exact Hinv|]. split; [constructor | reflexivity].
  - apply sp_ret. split; [exact Hinv|]. split; [constructor | reflexivity].
  - apply sp_ret. split; [exact Hinv|]. split; [constructor; exact Hw | reflexivity].
  - destruct (G i) as [Ui Di]. apply sp_ret. split; [exact Hinv|]. split; [apply swf_sneg; exact Ui|].
    intros a. rewrite sden_sneg, Di. reflexivity.
  - destruct (G i) as [Ui Di]. destruct (G j) as [Uj Dj].
    eapply sp_mono; [apply and_ok_m; assumption|]. intros r s (I1 & Wr & Sr). split; [exact I1|]. split; [exact Wr|].
    intros a. rewrite Sr, Di, Dj. reflexivity.
  - destruct (G i) as [Ui Di]. destruct (G j) as [Uj Dj].
    eapply sp_mono; [apply or_ok_m; assumption|]. intros r s (I1 & Wr & Sr). split; [exact I1|]. split; [exact Wr|].
    intros a. rewrite Sr, Di, Dj. reflexivity.
  - destruct (G i) as [Ui Di]. destruct (G j) as [Uj Dj].
    eapply sp_mono; [apply ite_ok; auto using swf_sneg|]. intros r s (I1 & Wr & Sr). split; [exact I1|]. split; [exact Wr|].
    intros a. rewrite Sr, sden_sneg, Di, Dj. destruct (SddProg.fget fs i a), (SddProg.fget fs j a); reflexivity.
  - destruct (G i) as [Ui Di]. destruct (G j) as [Uj Dj].
    eapply sp_mono; [apply ite_ok; auto using swf_sneg|]. intros r s (I1 & Wr & Sr). split; [exact I1|]. split; [exact Wr|].
    intros a. rewrite Sr, sden_sneg, Di, Dj. destruct (SddProg.fget fs i a), (SddProg.fget fs j a); reflexivity.
  - destruct (G i) as [Ui Di]. destruct (G j) as [Uj Dj]. destruct (G k) as [Uk Dk].
    eapply sp_mono; [apply ite_ok; auto|]. intros r s (I1 & Wr & Sr). split; [exact I1|]. split; [exact Wr|].
    intros a. rewrite Sr, Di, Dj, Dk. reflexivity.
  - destruct (G i) as [Ui Di].
    eapply sp_mono; [apply condition_ok; assumption|]. intros r s (I1 & Wr & Sr). split; [exact I1|]. split; [exact Wr|].
    intros a. rewrite Sr, Di. reflexivity.
  - destruct (G i) as [Ui Di].
    eapply sp_mono; [apply exists_ok; assumption|]. intros r s (I1 & Wr & Sr). split; [exact I1|]. split; [exact Wr|].
    intros a. rewrite Sr, !Di. reflexivity.
  - destruct (G i) as [Ui Di]. destruct (G j) as [Uj Dj].
    eapply sp_mono; [apply compose_ok; assumption|]. intros r s (I1 & Wr & Sr). split; [exact I1|]. split; [exact Wr|].
    intros a. rewrite Sr, !Di, !Dj. reflexivity.
  - destruct Hw as [Pm Hv]. apply compile_cnf_ok; assumption.
Qed.

Theorem run_s_ok fuel : forall ops pool fs st, inv st -> pool_ok pool fs -> Forall (SddProg.op_wf t) ops ->
  sp (run_s t P H fuel pool ops) st (fun pool' s => inv s /\ pool_ok pool' (SddProg.spec_run fs ops)).
Proof.
  induction ops as [|o ops IH]; intros pool fs st Hinv Hp Hw.
  - apply sp_ret. split; assumption.
  - inversion Hw as [|? ? Hw1 Hw2]; subst. cbn [run_s].
    eapply sp_seq; [apply (step_ok fuel pool fs o st Hinv Hp Hw1)|]. intros pool1 st1 (I1 & Hp1).
    apply (IH pool1 _ st1 I1 Hp1 Hw2).
Qed.
End Prog.
