(* C01: every operation program keeps every pool entry a well-formed ROBDD denoting the value of
   the specification program — for every order, every forgetting stream, across run-time
   extensions of the order. *)
From Coq Require Import Bool NArith List Lia Arith Permutation.
Import ListNotations.
From RsddV Require Import Base.Bdd Model.IteStd Proofs.IteStd Proofs.BddCanon Model.BddOps Proofs.BddIte
  Proofs.BddOps Model.BddProg.

(* the order is a permutation of 0..n-1 (what VarOrder::new builds from a permutation) *)
Definition wf_order (o : order) : Prop := NoDup o /\ forall x, In x o -> x < length o.

Lemma level_of_in o v : wf_order o -> in_order o v = true -> level_of o v < length o /\ In (level_of o v) o.
Proof.
  unfold in_order, level_of. intros [_ Hb] H. apply Nat.ltb_lt in H.
  assert (Hin : In (nth (N.to_nat v) o (length o + N.to_nat v)) o) by (apply nth_In; exact H).
  split; auto.
Qed.

Lemma level_of_out o v : in_order o v = false -> level_of o v = length o + N.to_nat v.
Proof.
  unfold in_order, level_of. intros H. apply Nat.ltb_ge in H. apply nth_overflow. exact H.
Qed.

Lemma level_of_lt_in o v : wf_order o -> level_of o v < length o -> in_order o v = true.
Proof.
  intros _ H. destruct (in_order o v) eqn:E; auto. rewrite (level_of_out _ _ E) in H. lia.
Qed.

Lemma level_of_inj o : wf_order o -> forall u v, level_of o u = level_of o v -> u = v.
Proof.
  intros WO u v E. pose proof WO as [ND Hb].
  destruct (in_order o u) eqn:Eu, (in_order o v) eqn:Ev.
  - unfold in_order in Eu, Ev. apply Nat.ltb_lt in Eu, Ev. unfold level_of in E.
    rewrite (nth_indep o _ 0 Eu), (nth_indep o _ 0 Ev) in E.
    apply N2Nat.inj. apply (proj1 (NoDup_nth o 0) ND); auto.
  - destruct (level_of_in _ _ WO Eu) as [H1 H2]. specialize (Hb _ H2). rewrite (level_of_out _ _ Ev) in E. lia.
  - destruct (level_of_in _ _ WO Ev) as [H1 H2]. specialize (Hb _ H2). rewrite (level_of_out _ _ Eu) in E. lia.
  - rewrite (level_of_out _ _ Eu), (level_of_out _ _ Ev) in E. apply N2Nat.inj. lia.
Qed.

Lemma wf_order_new_last o : wf_order o -> wf_order (fst (new_last o)).
Proof.
  intros [ND Hb]. simpl. split.
  - apply (Permutation_NoDup (Permutation_cons_append o (length o))). constructor; auto.
    intros Hin. specialize (Hb _ Hin). lia.
  - intros x Hin. rewrite app_length. simpl. apply in_app_or in Hin. destruct Hin as [H|[<-|[]]]; [specialize (Hb _ H)|]; lia.
Qed.

Lemma level_of_new_last_old o v : in_order o v = true -> level_of (o ++ [length o]) v = level_of o v.
Proof.
  unfold in_order, level_of. intros H. apply Nat.ltb_lt in H.
  rewrite app_nth1 by exact H. apply nth_indep. exact H.
Qed.

Lemma level_of_new_last_new o : level_of (o ++ [length o]) (N.of_nat (length o)) = length o.
Proof. unfold level_of. rewrite Nat2N.id, app_nth2 by lia. rewrite Nat.sub_diag. reflexivity. Qed.

(* well-formedness only looks at the levels of the variables present *)
Lemma WF_ext level level' L L' : (forall v, level v < L -> level' v = level v) -> L <= L' ->
  forall p k, WF level L k p -> WF level' L' k p.
Proof.
  intros Hag HL. induction p as [| |c v lo IHlo hi IHhi]; intros k [W B]; split; simpl in *; auto.
  - destruct W as (Hk & Wl & Wh & Hne & Hreg & HnF). destruct B as (Bv & Bl & Bh).
    rewrite (Hag v Bv). repeat split; auto.
    + apply (IHlo (S (level v))). split; auto.
    + apply (IHhi (S (level v))). split; auto.
  - destruct W as (Hk & Wl & Wh & Hne & Hreg & HnF). destruct B as (Bv & Bl & Bh).
    rewrite (Hag v Bv). repeat split; try lia.
    + apply (IHlo (S (level v))). split; auto.
    + apply (IHhi (S (level v))). split; auto.
Qed.

Lemma csound_ext level level' L L' s : (forall v, level v < L -> level' v = level v) -> L <= L' ->
  csound level L s -> csound level' L' s.
Proof.
  intros Hag HL. unfold csound. apply Forall_impl. intros [[[a b] c] r] [W D]. split; auto.
  eapply WF_ext; eauto.
Qed.

Definition entry_ok (o : order) (p : bdd) (f : bfun) : Prop :=
  WF (level_of o) (length o) 0 p /\ forall x, den p x = f x.
Definition pool_ok (o : order) (pool : list bdd) (fpool : list bfun) : Prop := Forall2 (entry_ok o) pool fpool.

Definition inv (st : bstate) (n : nat) (fpool : list bfun) : Prop :=
  wf_order (bord st) /\ n = length (bord st) /\ pool_ok (bord st) (bpool st) fpool /\
  csound (level_of (bord st)) (length (bord st)) (bcache st).

Lemma pool_get o pool fpool i : pool_ok o pool fpool -> entry_ok o (nth i pool BF) (getf fpool i).
Proof.
  unfold getf. intros H. revert i. induction H as [|p f pool fpool Hpf H IH]; intros [|i]; simpl; auto;
    split; simpl; auto; split; simpl; auto.
Qed.

Lemma pool_push o pool fpool p f : pool_ok o pool fpool -> entry_ok o p f -> pool_ok o (pool ++ [p]) (fpool ++ [f]).
Proof. intros H E. apply Forall2_app; auto. Qed.

Lemma Forall2_impl {A B} (P Q : A -> B -> Prop) l l' : (forall a b, P a b -> Q a b) -> Forall2 P l l' -> Forall2 Q l l'.
Proof. intros H F. induction F; constructor; auto. Qed.

Section Step.
Variable remember : nat -> bool.

Lemma push_opt_inv st n fpool o f :
  inv st n fpool ->
  ok_result (level_of (bord st)) (length (bord st)) 0 o f ->
  exists st', push_opt st o = Some st' /\ inv st' n (fpool ++ [f]).
Proof.
  intros (WO & Hn & PO & CS) (r & s' & -> & Wr & Dr & CS'). simpl.
  eexists; split; [reflexivity|]. unfold inv; simpl. repeat split; try apply WO; auto.
  apply pool_push; auto. split; auto.
Qed.

Lemma forallb_getp st fpool l x :
  pool_ok (bord st) (bpool st) fpool ->
  forallb (fun p => den p x) (map (getp st) l) = forallb (fun i => getf fpool i x) l.
Proof.
  intros PO. induction l as [|i l IH]; simpl; auto. rewrite IH. f_equal.
  destruct (pool_get _ _ _ i PO) as [_ D]. apply D.
Qed.
Lemma existsb_getp st fpool l x :
  pool_ok (bord st) (bpool st) fpool ->
  existsb (fun p => den p x) (map (getp st) l) = existsb (fun i => getf fpool i x) l.
Proof.
  intros PO. induction l as [|i l IH]; simpl; auto. rewrite IH. f_equal.
  destruct (pool_get _ _ _ i PO) as [_ D]. apply D.
Qed.

Lemma ok_result_ext level L k o f f' : (forall x, f x = f' x) -> ok_result level L k o f -> ok_result level L k o f'.
Proof.
  intros E (r & s & H1 & H2 & H3 & H4). exists r, s.
  split; [exact H1|]. split; [exact H2|]. split; [|exact H4]. intros x. rewrite H3. apply E.
Qed.

Theorem run_op_inv st n fpool op st' :
  inv st n fpool -> run_op remember st op = Some st' ->
  inv st' (fst (spec_op n fpool op)) (snd (spec_op n fpool op)).
Proof.
  intros I R. pose proof I as (WO & Hn & PO & CS).
  pose proof (level_of_inj _ WO) as LI.
  set (o := bord st) in *. set (lv := level_of o) in *. set (L := length o) in *.
  assert (G : forall i, WF lv L 0 (getp st i) /\ forall x, den (getp st i) x = getf fpool i x)
    by (intros i; apply (pool_get _ _ _ i PO)).
  assert (FU : L - 0 < S L) by lia.
  assert (FU' : L < S L) by lia.
  (* generic closing step for results that go through push_opt *)
  assert (PUSH : forall ores f, ok_result lv L 0 ores f -> push_opt st ores = Some st' -> inv st' n (fpool ++ [f])).
  { intros ores f OK E. destruct (push_opt_inv st n fpool ores f I OK) as (st'' & E' & I'). congruence. }
  assert (PURE : forall r f, WF lv L 0 r -> (forall x, den r x = f x) -> Some (push st r (bcache st)) = Some st' -> inv st' n (fpool ++ [f])).
  { intros r f W D E. injection E as <-. unfold inv; simpl. repeat split; try apply WO; auto.
    apply pool_push; auto. split; auto. }
  destruct op as [b|v pol|i|i j|i j|i j|i j|i j k|i v b|i lits|i v|i v j|l|l|pol]; cbn [run_op spec_op fst snd] in *; fold o lv L in R.
  - eapply PURE; [| |exact R]. apply WF_const. destruct b; reflexivity.
  - destruct (in_order o v) eqn:IO; [|discriminate].
    destruct (var_m_spec lv L v pol (proj1 (level_of_in _ _ WO IO))) as [W D]. eapply PURE; eauto.
  - destruct (G i) as [W D]. eapply PURE; [apply WF_neg; exact W| |exact R].
    intros x. rewrite den_neg, D. reflexivity.
  - destruct (G i) as [Wi Di], (G j) as [Wj Dj]. eapply PUSH; [|exact R].
    eapply ok_result_ext; [|apply (and_ok lv LI L remember); eauto]. intros x. simpl. rewrite Di, Dj. reflexivity.
  - destruct (G i) as [Wi Di], (G j) as [Wj Dj]. eapply PUSH; [|exact R].
    eapply ok_result_ext; [|apply (or_ok lv LI L remember); eauto]. intros x. simpl. rewrite Di, Dj. reflexivity.
  - destruct (G i) as [Wi Di], (G j) as [Wj Dj]. eapply PUSH; [|exact R].
    eapply ok_result_ext; [|apply (xor_ok lv LI L remember); eauto]. intros x. simpl. rewrite Di, Dj. reflexivity.
  - destruct (G i) as [Wi Di], (G j) as [Wj Dj]. eapply PUSH; [|exact R].
    eapply ok_result_ext; [|apply (iff_ok lv LI L remember); eauto]. intros x. simpl. rewrite Di, Dj. reflexivity.
  - destruct (G i) as [Wi Di], (G j) as [Wj Dj], (G k) as [Wk Dk]. eapply PUSH; [|exact R].
    eapply ok_result_ext; [|apply (ite_ok lv LI L remember); eauto]. intros x. simpl. rewrite Di, Dj, Dk. reflexivity.
  - destruct (in_order o v) eqn:IO; [|discriminate]. destruct (G i) as [Wi Di].
    destruct (condition_m_correct lv LI L v b 0 _ Wi) as [W D]. eapply PURE; [exact W| |exact R].
    intros x. rewrite D, Di. reflexivity.
  - destruct (forallb _ lits) eqn:IO; [|discriminate]. destruct (G i) as [Wi Di].
    destruct (condition_model_ok lv LI L lits _ Wi) as [W D]. eapply PURE; [exact W| |exact R].
    intros x. rewrite D, Di. reflexivity.
  - destruct (in_order o v) eqn:IO; [|discriminate]. destruct (G i) as [Wi Di]. eapply PUSH; [|exact R].
    eapply ok_result_ext; [|apply (exists_ok lv LI L remember); eauto]. intros x. simpl.
    unfold exists_. rewrite !Di. reflexivity.
  - destruct (in_order o v) eqn:IO; [|discriminate]. destruct (G i) as [Wi Di], (G j) as [Wj Dj]. eapply PUSH; [|exact R].
    eapply ok_result_ext; [|apply (compose_ok lv LI L remember); eauto; apply (level_of_in _ _ WO IO)].
    intros x. unfold compose_, compose_spec, exists_. rewrite !Di, !Dj. reflexivity.
  - eapply PUSH; [|exact R].
    eapply ok_result_ext; [|apply (and_lst_ok lv LI L remember); eauto].
    + intros x. simpl. apply forallb_getp. exact PO.
    + apply WF_BT.
    + apply Forall_forall. intros p Hin. apply in_map_iff in Hin. destruct Hin as (i & <- & _). apply G.
  - eapply PUSH; [|exact R].
    eapply ok_result_ext; [|apply (or_lst_ok lv LI L remember); eauto].
    + intros x. simpl. apply existsb_getp. exact PO.
    + apply WF_BF.
    + apply Forall_forall. intros p Hin. apply in_map_iff in Hin. destruct Hin as (i & <- & _). apply G.
  - (* new_var: the order grows by one level; everything built so far stays well formed *)
    injection R as <-. unfold inv; simpl.
    pose proof (wf_order_new_last o WO) as WO'. simpl in WO'.
    assert (AG : forall v, lv v < L -> level_of (o ++ [length o]) v = lv v).
    { intros v Hv. apply level_of_new_last_old. apply level_of_lt_in; auto. }
    assert (LEN : length (o ++ [length o]) = S L) by (rewrite app_length; simpl; unfold L; lia).
    split; [exact WO'|]. split; [rewrite LEN; unfold L; lia|]. split.
    + apply Forall2_app.
      * eapply Forall2_impl; [|exact PO]. intros p f [W D]. split; auto.
        rewrite LEN. eapply WF_ext; [exact AG| |exact W]. lia.
      * constructor; [|constructor]. rewrite Hn. fold o.
        assert (HL : level_of (o ++ [length o]) (N.of_nat (length o)) < length (o ++ [length o])).
        { rewrite level_of_new_last_new, LEN. unfold L. lia. }
        destruct (var_m_spec (level_of (o ++ [length o])) (length (o ++ [length o])) (N.of_nat (length o)) pol HL) as [W D].
        split; auto.
    + rewrite LEN. eapply csound_ext; [exact AG| |exact CS]. lia.
Qed.

Theorem run_prog_inv ops : forall st n fpool st',
  inv st n fpool -> run_prog remember st ops = Some st' ->
  inv st' (fst (spec_prog n fpool ops)) (snd (spec_prog n fpool ops)).
Proof.
  induction ops as [|op ops IH]; intros st n fpool st' I R; simpl in *.
  - injection R as <-. exact I.
  - destruct (run_op remember st op) as [st1|] eqn:E; [|discriminate].
    pose proof (run_op_inv _ _ _ _ _ I E) as I1.
    destruct (spec_op n fpool op) as [n1 fp1]. simpl in I1. apply (IH _ _ _ _ I1 R).
Qed.
End Step.

(* The C01 statement: for every order (permutation), every forgetting stream and every
   program that the builder runs without panicking, every pool entry is a well-formed ROBDD
   (for the final order) that evaluates, on every assignment, to the specification's value. *)
Theorem ops_correct remember o ops st' :
  wf_order o -> run_prog remember (bstate_init o) ops = Some st' ->
  pool_ok (bord st') (bpool st') (snd (spec_prog (length o) [] ops)).
Proof.
  intros WO R.
  assert (I : inv (bstate_init o) (length o) []).
  { unfold inv; simpl. repeat split; try apply WO; constructor. }
  exact (proj1 (proj2 (proj2 (run_prog_inv remember ops _ _ _ _ I R)))).
Qed.

(* programs that only mention variables of the order never fail: fuel S(length o) suffices *)
Fixpoint vars_ok (n : nat) (ops : list bop) : bool :=
  match ops with
  | [] => true
  | op :: r =>
    let inr (v : var) := Nat.ltb (N.to_nat v) n in
    match op with
    | OVar v _ | OCond _ v _ | OExists _ v | OCompose _ v _ => inr v && vars_ok n r
    | OCondModel _ lits => forallb (fun l => inr (fst l)) lits && vars_ok n r
    | ONewVar _ => vars_ok (S n) r
    | _ => vars_ok n r
    end
  end.

Theorem ops_total remember ops : forall st n fpool,
  inv st n fpool -> vars_ok n ops = true -> exists st', run_prog remember st ops = Some st'.
Proof.
  induction ops as [|op ops IH]; intros st n fpool I V; simpl; [eauto|].
  pose proof I as (WO & Hn & PO & CS). pose proof (level_of_inj _ WO) as LI.
  assert (G : forall i, WF (level_of (bord st)) (length (bord st)) 0 (getp st i))
    by (intros i; apply (pool_get _ _ _ i PO)).
  assert (STEP : exists st1, run_op remember st op = Some st1).
  { assert (PO' : forall ores f, ok_result (level_of (bord st)) (length (bord st)) 0 ores f -> exists st1, push_opt st ores = Some st1).
    { intros ores f OK. destruct (push_opt_inv st n fpool ores f I OK) as (st1 & E & _). eauto. }
    assert (INR : forall v, Nat.ltb (N.to_nat v) (length (bord st)) = true -> level_of (bord st) v < length (bord st)).
    { intros v Hv. apply (level_of_in _ _ WO). exact Hv. }
    subst n. simpl in V.
    destruct op as [b|v pol|i|i j|i j|i j|i j|i j k|i v b|i lits|i v|i v j|l|l|pol]; cbn [run_op].
    - eauto.
    - apply andb_true_iff in V. destruct V as [V1 V]. unfold in_order. rewrite V1. eauto.
    - eauto.
    - eapply PO'. apply (and_ok _ LI _ remember); auto. lia.
    - eapply PO'. apply (or_ok _ LI _ remember); auto. lia.
    - eapply PO'. apply (xor_ok _ LI _ remember); auto. lia.
    - eapply PO'. apply (iff_ok _ LI _ remember); auto. lia.
    - eapply PO'. apply (ite_ok _ LI _ remember); auto. lia.
    - apply andb_true_iff in V. destruct V as [V1 V]. unfold in_order. rewrite V1. eauto.
    - apply andb_true_iff in V. destruct V as [V1 V]. unfold in_order. rewrite V1. eauto.
    - apply andb_true_iff in V. destruct V as [V1 V]. unfold in_order. rewrite V1.
      eapply PO'. apply (exists_ok _ LI _ remember); auto. lia.
    - apply andb_true_iff in V. destruct V as [V1 V]. unfold in_order. rewrite V1.
      eapply PO'. apply (compose_ok _ LI _ remember); auto.
    - eapply PO'. apply (and_lst_ok _ LI _ remember); auto; [apply WF_BT|].
      apply Forall_forall. intros p Hin. apply in_map_iff in Hin. destruct Hin as (i & <- & _). apply G.
    - eapply PO'. apply (or_lst_ok _ LI _ remember); auto; [apply WF_BF|].
      apply Forall_forall. intros p Hin. apply in_map_iff in Hin. destruct Hin as (i & <- & _). apply G.
    - simpl. eauto. }
  destruct STEP as [st1 E]. rewrite E.
  pose proof (run_op_inv remember _ _ _ _ _ I E) as I1.
  apply (IH st1 (fst (spec_op n fpool op)) (snd (spec_op n fpool op)) I1).
  destruct op; simpl in *; try (apply andb_true_iff in V; destruct V as [_ V]); exact V.
Qed.
