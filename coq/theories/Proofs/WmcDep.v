(* C07, last sentence: for an ordered BDD and ARBITRARY weights the count equals the sum taken only
   over the variables each sub-function actually depends on. *)
From Coq Require Import Bool NArith List Lia Arith Sorted.
Import ListNotations.
From RsddV Require Import Base.Bdd Model.Wmc Proofs.BddCanon Proofs.BddIte Proofs.Wmc Proofs.Smooth.

Section Dep.
Variable level : var -> nat.
Hypothesis level_inj : forall u v, level u = level v -> u = v.
Variable S : Type.
Variable add mul : S -> S -> S.
Variable zero one : S.
Variable wlo whi : var -> S.
Notation wmc_c := (wmc_c S add mul zero one wlo whi).

Definition agrees_outside (vars : list var) (a x : asg) : Prop := forall u, ~ In u vars -> a u = x u.
(* in the context fixed by x outside (v :: vs), the function ignores v *)
Definition indep_at (vs : list var) (f : asg -> bool) (x : asg) (v : var) : Prop :=
  forall a, agrees_outside (v :: vs) a x -> f (upd a v true) = f (upd a v false).

(* the dependency-restricted sum: walk the variables in order; branch (and weigh) only on a
   variable the current sub-function depends on *)
Inductive dep_sum : list var -> (asg -> bool) -> asg -> S -> Prop :=
| ds_nil f x : dep_sum [] f x (if f x then one else zero)
| ds_dep v vs f x s0 s1 :
    ~ indep_at vs f x v ->
    dep_sum vs f (upd x v false) s0 -> dep_sum vs f (upd x v true) s1 ->
    dep_sum (v :: vs) f x (add (mul (wlo v) s0) (mul (whi v) s1))
| ds_skip v vs f x s :
    indep_at vs f x v -> dep_sum vs f x s -> dep_sum (v :: vs) f x s.

Lemma agrees_upd vs a x v b : ~ In v vs -> agrees_outside vs a (upd x v b) -> agrees_outside (v :: vs) a x /\ a v = b.
Proof.
  intros Hn H. split.
  - intros u Hu. rewrite H by (intros Hin; apply Hu; right; exact Hin).
    unfold upd. destruct (N.eqb_spec u v); auto. subst. exfalso. apply Hu. left. reflexivity.
  - rewrite (H v Hn). apply upd_same.
Qed.

Lemma agrees_upd_in vs a x v b : agrees_outside (v :: vs) a x -> agrees_outside (v :: vs) (upd a v b) x.
Proof.
  intros H u Hu. unfold upd. destruct (N.eqb_spec u v); [subst; exfalso; apply Hu; left; reflexivity|apply H; exact Hu].
Qed.
Lemma agrees_cons vs a x v b : agrees_outside vs a (upd x v b) -> agrees_outside (v :: vs) a x.
Proof.
  intros H u Hu. rewrite H by (intros Hin; apply Hu; right; exact Hin).
  unfold upd. destruct (N.eqb_spec u v); auto. subst. exfalso. apply Hu. left. reflexivity.
Qed.
Lemma agrees_weaken vs a x v : agrees_outside vs a x -> agrees_outside (v :: vs) a x.
Proof. intros H u Hu. apply H. intros Hin. apply Hu. right. exact Hin. Qed.

Lemma dep_sum_local vars : forall f g x s,
  (forall a, agrees_outside vars a x -> f a = g a) -> dep_sum vars f x s -> dep_sum vars g x s.
Proof.
  induction vars as [|v vs IH]; intros f g x s E D; inversion D; subst.
  - rewrite (E x) by (intros u _; reflexivity). constructor.
  - constructor.
    + intros I. match goal with H : ~ indep_at _ _ _ _ |- _ => apply H end. intros a Ha.
      rewrite (E (upd a v true)) by (apply agrees_upd_in; exact Ha).
      rewrite (E (upd a v false)) by (apply agrees_upd_in; exact Ha). apply I. exact Ha.
    + eapply IH; [|eassumption]. intros a Ha. apply E. eapply agrees_cons; eauto.
    + eapply IH; [|eassumption]. intros a Ha. apply E. eapply agrees_cons; eauto.
  - apply ds_skip.
    + intros a Ha.
      rewrite <- (E (upd a v true)) by (apply agrees_upd_in; exact Ha).
      rewrite <- (E (upd a v false)) by (apply agrees_upd_in; exact Ha).
      match goal with H : indep_at _ _ _ _ |- _ => apply H end. exact Ha.
    + eapply IH; [|eassumption]. intros a Ha. apply E. apply agrees_weaken. exact Ha.
Qed.

Lemma wfb0 k p : wfb level k p -> wfb level 0 p.
Proof. apply wfb_weaken. lia. Qed.

Lemma support_level_gt v c lo hi k : wfb level k (BN c v lo hi) ->
  forall u, In u (support lo ++ support hi) -> level v < level u.
Proof.
  simpl. intros (_ & Wl & Wh & _) u Hu. apply in_app_or in Hu.
  destruct Hu as [Hu|Hu]; [pose proof (wfb_support_ge level _ _ Wl u Hu)|pose proof (wfb_support_ge level _ _ Wh u Hu)]; lia.
Qed.

(* THE THEOREM: vars lists variables by strictly increasing level and covers the diagram's support *)
Theorem wmc_dep_correct : forall vars p c x,
  StronglySorted (fun u v => level u < level v) vars ->
  wfb level 0 p -> incl (support p) vars ->
  dep_sum vars (fun a => xorb c (den p a)) x (wmc_c c p).
Proof.
  induction vars as [|u vs IH]; intros p c x SS W INC.
  - destruct p as [| |c' v lo hi]; [| |exfalso; apply (INC v); simpl; auto].
    + pose proof (ds_nil (fun a => xorb c (den BT a)) x) as H. destruct c; exact H.
    + pose proof (ds_nil (fun a => xorb c (den BF a)) x) as H. destruct c; exact H.
  - inversion SS as [|? ? SS' Hall]; subst.
    assert (Hu_notin : ~ In u vs).
    { intros Hin. rewrite Forall_forall in Hall. specialize (Hall u Hin). lia. }
    destruct p as [| |c' v lo hi].
    + apply ds_skip; [intros a _; reflexivity|]. apply IH; auto. intros w Hw. contradiction.
    + apply ds_skip; [intros a _; reflexivity|]. apply IH; auto. intros w Hw. contradiction.
    + pose proof W as W'. simpl in W'. destruct W' as (_ & Wl & Wh & Hne & Hreg & HnF).
      pose proof (support_level_gt _ _ _ _ _ W) as GT.
      destruct (N.eq_dec v u) as [->|NE].
      * (* the head variable is the node's variable: the function depends on it *)
        assert (INClo : incl (support lo) vs).
        { intros w Hw. assert (Hin : In w (u :: vs)) by (apply INC; simpl; right; apply in_or_app; auto).
          destruct Hin as [E|]; auto. subst w. specialize (GT u (in_or_app _ _ _ (or_introl Hw))). lia. }
        assert (INChi : incl (support hi) vs).
        { intros w Hw. assert (Hin : In w (u :: vs)) by (apply INC; simpl; right; apply in_or_app; auto).
          destruct Hin as [E|]; auto. subst w. specialize (GT u (in_or_app _ _ _ (or_intror Hw))). lia. }
        cbn [Wmc.wmc_c]. apply ds_dep.
        -- intros I. apply (node_depends level level_inj c' u lo hi 0 W). intros a.
           (* move a onto x outside the listed variables: the diagram does not look there *)
           set (a' := fun w => if in_dec N.eq_dec w (u :: vs) then a w else x w).
           assert (AG : agrees_outside (u :: vs) a' x).
           { intros w Hw. unfold a'. destruct (in_dec N.eq_dec w (u :: vs)); [contradiction|reflexivity]. }
           specialize (I a' AG). cbv beta in I.
           assert (EQ : forall b, den (BN c' u lo hi) (upd a u b) = den (BN c' u lo hi) (upd a' u b)).
           { intros b. apply den_agree. intros w Hw. unfold upd. destruct (N.eqb_spec w u); auto.
             unfold a'. destruct (in_dec N.eq_dec w (u :: vs)) as [|Hn]; auto. exfalso. apply Hn. apply INC. exact Hw. }
           rewrite !EQ.
           assert (X : forall b1 b2, xorb c b1 = xorb c b2 -> b1 = b2) by (intros b1 b2; destruct c, b1, b2; simpl; congruence).
           apply X. exact I.
        -- eapply dep_sum_local; [|apply (IH lo (xorb c c') (upd x u false) SS' (wfb0 _ _ Wl) INClo)].
           intros a Ha. destruct (agrees_upd _ _ _ _ _ Hu_notin Ha) as [_ Eu]. cbn [den]. rewrite Eu, xorb_assoc. reflexivity.
        -- eapply dep_sum_local; [|apply (IH hi (xorb c c') (upd x u true) SS' (wfb0 _ _ Wh) INChi)].
           intros a Ha. destruct (agrees_upd _ _ _ _ _ Hu_notin Ha) as [_ Eu]. cbn [den]. rewrite Eu, xorb_assoc. reflexivity.
      * (* the head variable comes before the node's variable: the function ignores it *)
        assert (Hv : In v vs).
        { assert (Hin : In v (u :: vs)) by (apply INC; simpl; auto). destruct Hin as [->|]; [contradiction NE; reflexivity|auto]. }
        assert (LT : level u < level v) by (rewrite Forall_forall in Hall; apply Hall; exact Hv).
        apply ds_skip.
        -- intros a _. f_equal.
           assert (W2 : wfb level (level v) (BN c' v lo hi)) by (simpl; repeat split; auto).
           rewrite !(den_upd_low level _ _ _ _ _ W2 LT). reflexivity.
        -- apply IH; auto. intros w Hw. assert (Hin : In w (u :: vs)) by (apply INC; exact Hw).
           destruct Hin as [E|]; auto. subst w. exfalso.
           simpl in Hw. destruct Hw as [E|Hw]; [subst v; lia|]. specialize (GT _ Hw). lia.
Qed.
End Dep.
