(* Traversal facts for the VTree model: in-order numbering, and the queue-based breadth-first
   iterator (it enumerates every node once, and every node before its proper descendants). *)
From Coq Require Import Bool List Lia Arith Permutation.
Import ListNotations.
From RsddV Require Import Base.Util Model.VTree Proofs.VTreeBase.

Definition valid (t : vtree) (p : path) : Prop := exists s, subtree t p = Some s.

(* in-order index of the node at path [p]: left subtree first, then the node, then the right *)
Fixpoint idx (t : vtree) (p : path) : nat :=
  match t, p with
  | VNode l r, [] => size l
  | VNode l r, false :: q => idx l q
  | VNode l r, true :: q => size l + 1 + idx r q
  | VLeaf _, _ => 0
  end.

Definition pre (b : bool) (e : path * vtree) : path * vtree := (b :: fst e, snd e).
Definition shift (p : path) (e : path * vtree) : path * vtree := (p ++ fst e, snd e).

(* the in-order traversal with paths relative to the root of [t] *)
Fixpoint rdfs (t : vtree) : list (path * vtree) :=
  match t with
  | VLeaf _ => [([], t)]
  | VNode l r => map (pre false) (rdfs l) ++ [([], t)] ++ map (pre true) (rdfs r)
  end.

Lemma size_pos t : 1 <= size t.
Proof. destruct t; simpl; lia. Qed.

Lemma dfs_from_rdfs t : forall p, dfs_from p t = map (shift p) (rdfs t).
Proof.
  induction t as [v|l IHl r IHr]; intros p; simpl.
  - unfold shift; simpl. rewrite app_nil_r. reflexivity.
  - rewrite IHl, IHr, map_app. simpl map. rewrite !map_map.
    replace (shift p ([], VNode l r)) with (p, VNode l r) by (unfold shift; simpl; rewrite app_nil_r; reflexivity).
    f_equal; [|f_equal]; apply map_ext; intros [q s]; unfold shift, pre; simpl; rewrite <- app_assoc; reflexivity.
Qed.

Lemma dfs_rdfs t : dfs t = rdfs t.
Proof.
  unfold dfs. rewrite dfs_from_rdfs. rewrite map_ext with (g := fun e => e); [apply map_id|].
  intros [q s]; reflexivity.
Qed.

Lemma rdfs_length t : length (rdfs t) = size t.
Proof. induction t; simpl; auto. rewrite app_length; simpl. rewrite !map_length. lia. Qed.

Lemma subtree_leaf v b q : subtree (VLeaf v) (b :: q) = None.
Proof. reflexivity. Qed.

Lemma idx_lt t : forall p, valid t p -> idx t p < size t.
Proof.
  induction t as [v|l IHl r IHr]; intros p (s & H); simpl; [destruct p; lia|].
  destruct p as [|[|] q]; simpl in *; try lia.
  - specialize (IHr q (ex_intro _ s H)). lia.
  - specialize (IHl q (ex_intro _ s H)). lia.
Qed.

Lemma rdfs_nth t : forall p s, subtree t p = Some s -> nth_error (rdfs t) (idx t p) = Some (p, s).
Proof.
  induction t as [v|l IHl r IHr]; intros p s H.
  - destruct p; simpl in *; [inversion H; reflexivity|discriminate].
  - destruct p as [|[|] q]; simpl in *.
    + inversion H; subst. rewrite nth_error_app2 by (rewrite map_length, rdfs_length; lia).
      rewrite map_length, rdfs_length, Nat.sub_diag. reflexivity.
    + rewrite nth_error_app2 by (rewrite map_length, rdfs_length; lia).
      rewrite map_length, rdfs_length. replace (size l + 1 + idx r q - size l) with (S (idx r q)) by lia.
      simpl. rewrite (map_nth_error _ _ _ (IHr q s H)). reflexivity.
    + rewrite nth_error_app1 by (rewrite map_length, rdfs_length; apply idx_lt; eexists; eauto).
      rewrite (map_nth_error _ _ _ (IHl q s H)). reflexivity.
Qed.

Lemma rdfs_In t : forall p s, In (p, s) (rdfs t) <-> subtree t p = Some s.
Proof.
  intros p s. split.
  - revert p s. induction t as [v|l IHl r IHr]; intros p s H; simpl in *.
    + destruct H as [H|[]]. inversion H; subst. reflexivity.
    + apply in_app_or in H. destruct H as [H|[H|H]].
      * apply in_map_iff in H. destruct H as ([q u] & E & H). inversion E; subst. simpl. apply IHl; auto.
      * inversion H; subst. reflexivity.
      * apply in_map_iff in H. destruct H as ([q u] & E & H). inversion E; subst. simpl. apply IHr; auto.
  - intros H. eapply nth_error_In. apply rdfs_nth. exact H.
Qed.

Lemma NoDup_app_intro {A} (a b : list A) :
  NoDup a -> NoDup b -> (forall x, In x a -> ~ In x b) -> NoDup (a ++ b).
Proof.
  induction a as [|x t IH]; intros Ha Hb Hd; simpl; auto.
  inversion Ha; subst. constructor.
  - intros H. apply in_app_or in H. destruct H; [tauto|]. apply (Hd x); simpl; auto.
  - apply IH; auto. intros y Hy. apply Hd. right; auto.
Qed.

Lemma NoDup_map_cons (b : bool) (l : list path) : NoDup l -> NoDup (map (cons b) l).
Proof.
  induction 1 as [|x t Hn Hd IH]; simpl; constructor; auto.
  intros H. apply in_map_iff in H. destruct H as (y & E & Hy). inversion E; subst. tauto.
Qed.

Lemma map_fst_pre b l : map fst (map (pre b) l) = map (cons b) (map fst l).
Proof. rewrite !map_map. reflexivity. Qed.
Lemma map_snd_pre b l : map snd (map (pre b) l) = map snd l.
Proof. rewrite map_map. reflexivity. Qed.

Lemma rdfs_NoDup t : NoDup (map fst (rdfs t)).
Proof.
  induction t as [v|l IHl r IHr]; simpl.
  - constructor; auto. constructor.
  - rewrite map_app. simpl. rewrite !map_fst_pre. apply NoDup_app_intro.
    + apply NoDup_map_cons; auto.
    + constructor.
      * intros H. apply in_map_iff in H. destruct H as (y & E & _). discriminate.
      * apply NoDup_map_cons; auto.
    + intros x Hx [H|H].
      * subst. apply in_map_iff in Hx. destruct Hx as (y & E & _). discriminate.
      * apply in_map_iff in Hx. destruct Hx as (y & E & _). apply in_map_iff in H.
        destruct H as (z & E' & _). subst. discriminate.
Qed.

Lemma rdfs_fst_In t p : In p (map fst (rdfs t)) <-> valid t p.
Proof.
  split.
  - intros H. apply in_map_iff in H. destruct H as ([q s] & E & H). simpl in E; subst.
    exists s. apply rdfs_In; auto.
  - intros (s & H). apply in_map_iff. exists (p, s). split; auto. apply rdfs_In; auto.
Qed.

Lemma rdfs_index t p : valid t p -> index_of p (map fst (rdfs t)) = Some (idx t p).
Proof.
  intros (s & H). apply index_of_nth; [apply rdfs_NoDup|].
  rewrite (map_nth_error _ _ _ (rdfs_nth t p s H)). reflexivity.
Qed.

Lemma subtree_app t : forall p q, subtree t (p ++ q) = match subtree t p with Some s => subtree s q | None => None end.
Proof.
  induction t as [v|l IHl r IHr]; intros p q; destruct p as [|b p]; simpl; auto.
  destruct b; auto.
Qed.

Lemma valid_app_l t p q : valid t (p ++ q) -> valid t p.
Proof.
  intros (s & H). rewrite subtree_app in H. destruct (subtree t p) as [u|] eqn:E; [exists u; auto|discriminate].
Qed.

(* ---------- the breadth-first queue ---------- *)
Definition qsize (q : list (path * vtree)) : nat := fold_right (fun e n => size (snd e) + n) 0 q.
Definition allp (q : list (path * vtree)) : list (path * vtree) :=
  flat_map (fun e => map (shift (fst e)) (rdfs (snd e))) q.

Lemma qsize_app a b : qsize (a ++ b) = qsize a + qsize b.
Proof. induction a; simpl; auto. lia. Qed.

Lemma qsize_children e : qsize (children e) + 1 = size (snd e).
Proof. destruct e as [p [v|l r]]; unfold children; simpl; lia. Qed.

Lemma allp_app a b : allp (a ++ b) = allp a ++ allp b.
Proof. apply flat_map_app. Qed.

Lemma allp_step e q : Permutation (allp (e :: q)) (e :: allp (q ++ children e)).
Proof.
  rewrite allp_app. destruct e as [p [v|l r]]; unfold children; simpl.
  - unfold shift at 1; simpl. rewrite !app_nil_r. reflexivity.
  - rewrite !app_nil_r. rewrite map_app. simpl. unfold shift at 2; simpl. rewrite app_nil_r.
    rewrite !map_map.
    rewrite (map_ext (fun x => shift p (pre false x)) (shift (p ++ [false])))
      by (intros [a b]; unfold shift, pre; simpl; rewrite <- app_assoc; reflexivity).
    rewrite (map_ext (fun x => shift p (pre true x)) (shift (p ++ [true])))
      by (intros [a b]; unfold shift, pre; simpl; rewrite <- app_assoc; reflexivity).
    set (A := map (shift (p ++ [false])) (rdfs l)). set (B := map (shift (p ++ [true])) (rdfs r)).
    set (Q := allp q). set (x := (p, VNode l r)).
    rewrite <- app_assoc. simpl.
    apply Permutation_sym. apply Permutation_trans with (x :: (A ++ B) ++ Q).
    + constructor. apply Permutation_app_comm.
    + rewrite <- app_assoc. apply Permutation_cons_app. reflexivity.
Qed.

Lemma bfsq_perm : forall fuel q, qsize q <= fuel -> Permutation (bfsq fuel q) (allp q).
Proof.
  induction fuel as [|f IH]; intros q H.
  - destruct q as [|e q]; simpl in *; auto. pose proof (size_pos (snd e)). lia.
  - destruct q as [|e q]; simpl bfsq; auto.
    apply Permutation_sym. eapply Permutation_trans; [apply allp_step|]. constructor.
    apply Permutation_sym, IH. rewrite qsize_app. pose proof (qsize_children e). simpl in H. lia.
Qed.

Lemma allp_single t : allp [([], t)] = rdfs t.
Proof.
  unfold allp; simpl. rewrite app_nil_r. rewrite map_ext with (g := fun e => e); [apply map_id|].
  intros [q s]; reflexivity.
Qed.

Lemma bfs_perm t : Permutation (bfs t) (rdfs t).
Proof. unfold bfs. rewrite <- allp_single. apply bfsq_perm. simpl. lia. Qed.

Lemma index_of_shift x y l i : index_of x l = Some i -> ~ In y l -> index_of x (y :: l) = Some (S i).
Proof.
  intros H Hy. simpl. destruct (path_eqb x y) eqn:E.
  - apply path_eqb_true in E; subst. exfalso. apply Hy. apply index_of_Some in H.
    eapply nth_error_In. apply H.
  - rewrite H. reflexivity.
Qed.

(* every node is emitted before each of its proper descendants *)
Lemma bfsq_anc : forall fuel q, qsize q <= fuel -> NoDup (map fst (allp q)) ->
  forall e s1 s2, In e q -> valid (snd e) (s1 ++ s2) -> s2 <> [] ->
  exists i j, index_of (fst e ++ s1) (map fst (bfsq fuel q)) = Some i /\
              index_of (fst e ++ s1 ++ s2) (map fst (bfsq fuel q)) = Some j /\ i < j.
Proof.
  induction fuel as [|f IH]; intros q Hq ND e s1 s2 He Hv Hs.
  - destruct q as [|e0 q]; simpl in *; [tauto|]. pose proof (size_pos (snd e0)). lia.
  - destruct q as [|e0 q]; [simpl in He; tauto|]. simpl bfsq. simpl map.
    set (q1 := q ++ children e0) in *.
    assert (Hq1 : qsize q1 <= f).
    { unfold q1. rewrite qsize_app. pose proof (qsize_children e0). simpl in Hq. lia. }
    pose proof (Permutation_map fst (allp_step e0 q)) as HP. simpl in HP. fold q1 in HP.
    pose proof (Permutation_NoDup HP ND) as ND1. inversion ND1 as [|? ? Hn0 ND1']; subst.
    pose proof (Permutation_map fst (bfsq_perm f q1 Hq1)) as HPb.
    assert (Hn0' : ~ In (fst e0) (map fst (bfsq f q1))).
    { intros H. apply Hn0. eapply Permutation_in; eauto. }
    assert (Hshift : forall e' t1 t2, In e' q1 -> valid (snd e') (t1 ++ t2) -> t2 <> [] ->
      exists i j, index_of (fst e' ++ t1) (fst e0 :: map fst (bfsq f q1)) = Some i /\
                  index_of (fst e' ++ t1 ++ t2) (fst e0 :: map fst (bfsq f q1)) = Some j /\ i < j).
    { intros e' t1 t2 He' Hv' Ht. destruct (IH q1 Hq1 ND1' e' t1 t2 He' Hv' Ht) as (i & j & Ei & Ej & Hij).
      exists (S i), (S j). repeat split; [apply index_of_shift; auto|apply index_of_shift; auto|lia]. }
    destruct He as [<-|He].
    + destruct s1 as [|b s1].
      * rewrite app_nil_r. simpl app.
        assert (Hin : In (fst e0 ++ s2) (map fst (bfsq f q1))).
        { destruct Hv as (u & Hu). simpl in Hu.
          assert (Hall : In (fst e0 ++ s2) (map fst (allp (e0 :: q)))).
          { simpl. rewrite map_app. apply in_or_app. left. apply in_map_iff.
            exists (shift (fst e0) (s2, u)). split; [reflexivity|]. apply in_map. apply rdfs_In; auto. }
          apply (Permutation_in _ HP) in Hall. destruct Hall as [E|Hall].
          - exfalso. rewrite <- (app_nil_r (fst e0)) in E at 1. apply app_inv_head in E. auto.
          - eapply Permutation_in; [apply Permutation_sym; exact HPb|exact Hall]. }
        destruct (index_of_In _ _ Hin) as (j & Ej).
        exists 0, (S j). split; [simpl; rewrite path_eqb_refl; reflexivity|].
        split; [apply index_of_shift; auto|lia].
      * destruct e0 as [p0 [v|l r]]; simpl in Hv.
        { destruct Hv as (u & Hu). simpl in Hu. discriminate. }
        set (child := if b then r else l).
        assert (Hc : In (p0 ++ [b], child) q1).
        { unfold q1, children, child. apply in_or_app. right. simpl. destruct b; auto. }
        assert (Hvc : valid child (s1 ++ s2)).
        { destruct Hv as (u & Hu). exists u. simpl in Hu. exact Hu. }
        destruct (Hshift _ s1 s2 Hc Hvc Hs) as (i & j & Ei & Ej & Hij). simpl fst in *.
        exists i, j. rewrite <- !app_assoc in Ei, Ej. simpl in Ei, Ej. simpl app. auto.
    + apply Hshift; auto. unfold q1. apply in_or_app; auto.
Qed.

(* ---------- consequences for [bfs t] ---------- *)
Definition bpaths (t : vtree) : list path := map fst (bfs t).
Definition G (t : vtree) (p : path) : nat :=
  match index_of p (bpaths t) with Some i => i | None => 0 end.

Lemma bpaths_perm t : Permutation (bpaths t) (map fst (rdfs t)).
Proof. apply Permutation_map, bfs_perm. Qed.

Lemma bpaths_NoDup t : NoDup (bpaths t).
Proof. eapply Permutation_NoDup; [apply Permutation_sym, bpaths_perm|apply rdfs_NoDup]. Qed.

Lemma bpaths_In t p : In p (bpaths t) <-> valid t p.
Proof.
  rewrite <- rdfs_fst_In. split; apply Permutation_in; [|apply Permutation_sym]; apply bpaths_perm.
Qed.

Lemma bpaths_length t : length (bpaths t) = size t.
Proof. rewrite (Permutation_length (bpaths_perm t)), map_length. apply rdfs_length. Qed.

Lemma G_spec t p : valid t p ->
  index_of p (bpaths t) = Some (G t p) /\ nth_error (bpaths t) (G t p) = Some p /\ G t p < size t.
Proof.
  intros H. apply bpaths_In in H. destruct (index_of_In _ _ H) as (i & E).
  unfold G. rewrite E. split; auto. apply index_of_Some in E. rewrite bpaths_length in E. exact E.
Qed.

Lemma G_inj t p q : valid t p -> valid t q -> G t p = G t q -> p = q.
Proof.
  intros Hp Hq E. destruct (G_spec t p Hp) as (_ & E1 & _). destruct (G_spec t q Hq) as (_ & E2 & _).
  rewrite E in E1. rewrite E1 in E2. inversion E2; auto.
Qed.

Lemma G_anc t c s : valid t (c ++ s) -> s <> [] -> G t c < G t (c ++ s).
Proof.
  intros Hv Hs. unfold bfs.
  destruct (bfsq_anc (size t) [([], t)] ltac:(simpl; lia)
              ltac:(rewrite allp_single; apply rdfs_NoDup) ([], t) c s (or_introl eq_refl) Hv Hs)
    as (i & j & Ei & Ej & Hij).
  simpl in Ei, Ej. unfold G, bpaths, bfs. rewrite Ei, Ej. exact Hij.
Qed.

Lemma G_nth t i : i < size t -> exists p, nth_error (bpaths t) i = Some p /\ valid t p /\ G t p = i.
Proof.
  intros H. rewrite <- bpaths_length in H. destruct (nth_error (bpaths t) i) as [p|] eqn:E.
  - exists p. split; auto. assert (Hv : valid t p) by (apply bpaths_In; eapply nth_error_In; eauto).
    split; auto. unfold G. rewrite (index_of_nth _ _ _ (bpaths_NoDup t) E). reflexivity.
  - apply nth_error_None in E. lia.
Qed.
