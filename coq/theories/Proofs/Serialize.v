(* Proofs about the text side of Model/Serialize.v (property C17): DIMACS printing / parsing,
   LogicalExpr::from_dimacs, s-expressions and their variable mapping. *)
From Coq Require Import Bool NArith ZArith List Arith Lia Sorted Permutation.
Import ListNotations.
From RsddV Require Import Base.Bdd Model.Compile Model.Serialize.
From RsddV Require Model.CnfUtil Proofs.CnfUtil.

(* ==================================================================================== *)
(* DIMACS *)

Lemma z_of_lit_nonzero l : z_of_lit l <> 0%Z.
Proof. unfold z_of_lit. destruct (snd l); lia. Qed.

Lemma lit_of_z_of_lit l : lit_of_z (z_of_lit l) = l.
Proof.
  destruct l as [v b]. unfold lit_of_z, z_of_lit. cbn [fst snd]. destruct b.
  - f_equal; [|apply Z.leb_le; lia].
    rewrite Z.abs_eq by lia. rewrite Z2N.inj_add by lia. rewrite N2Z.id. change (Z.to_N 1) with 1%N. lia.
  - f_equal; [|apply Z.leb_gt; lia].
    rewrite Z.abs_opp, Z.abs_eq by lia. rewrite Z2N.inj_add by lia. rewrite N2Z.id. change (Z.to_N 1) with 1%N. lia.
Qed.

Lemma lex_ints_app a b : lex_ints (a ++ b) = lex_ints a ++ lex_ints b.
Proof. unfold lex_ints. apply flat_map_app. Qed.

(* a printed clause line is read back as that clause *)
Lemma parse_clause_line zs : forall lits rest,
  Forall (fun z => z <> 0%Z) zs ->
  parse_clause (lex_ints (zs ++ [0%Z]) ++ rest) lits = Some (rev lits ++ zs, rest).
Proof.
  induction zs as [|z zs IH]; intros lits rest Hnz.
  - cbn. rewrite app_nil_r. reflexivity.
  - inversion Hnz as [|? ? Hz Hzs]; subst. cbn [app]. unfold lex_ints in *. cbn [flat_map].
    destruct z as [|p|p]; [congruence| |]; cbn [lex_int app parse_clause].
    + rewrite IH by exact Hzs. cbn [rev]. rewrite <- app_assoc. reflexivity.
    + rewrite IH by exact Hzs. cbn [rev]. rewrite <- app_assoc. reflexivity.
Qed.

Lemma lex_line_nonempty zs rest : lex_ints (zs ++ [0%Z]) ++ rest <> [].
Proof.
  unfold lex_ints. destruct zs as [|z zs]; cbn; [discriminate|]. destruct z; cbn; discriminate.
Qed.

Definition lines_tokens (css : list (list Z)) : list tok :=
  lex_ints (concat (map (fun c => c ++ [0%Z]) css)).

Lemma lines_tokens_cons c css : lines_tokens (c :: css) = lex_ints (c ++ [0%Z]) ++ lines_tokens css.
Proof. unfold lines_tokens. cbn [map concat]. apply lex_ints_app. Qed.

Lemma parse_clauses_lines css : forall fuel,
  Forall (Forall (fun z => z <> 0%Z)) css ->
  length (lines_tokens css) < fuel ->
  parse_clauses fuel (lines_tokens css) = POk css.
Proof.
  induction css as [|c css IH]; intros fuel Hnz Hf.
  - destruct fuel; [lia|]. reflexivity.
  - inversion Hnz as [|? ? Hc Hcs]; subst. rewrite lines_tokens_cons in *.
    destruct fuel as [|f]; [lia|]. cbn [parse_clauses].
    pose proof (lex_line_nonempty c (lines_tokens css)) as Hne.
    destruct (lex_ints (c ++ [0%Z]) ++ lines_tokens css) as [|t ts] eqn:E; [congruence|].
    rewrite <- E. rewrite parse_clause_line by exact Hc. cbn [rev app].
    rewrite IH; [reflexivity|exact Hcs|].
    assert (L : length (lex_ints (c ++ [0%Z]) ++ lines_tokens css) = S (length ts)) by (rewrite E; reflexivity).
    rewrite app_length in L.
    assert (0 < length (lex_ints (c ++ [0%Z]))).
    { pose proof (lex_line_nonempty c []) as N. rewrite app_nil_r in N.
      destruct (lex_ints (c ++ [0%Z])); [congruence|cbn; lia]. }
    cbn [length] in Hf. lia.
Qed.

Lemma print_dimacs_tokens cs :
  lex_ints (concat (print_dimacs cs)) = lines_tokens (map (map z_of_lit) cs).
Proof. unfold lines_tokens, print_dimacs, print_clause. rewrite map_map. reflexivity. Qed.

Lemma print_nonzero cs : Forall (Forall (fun z => z <> 0%Z)) (map (map z_of_lit) cs).
Proof.
  apply Forall_forall. intros c Hc. apply in_map_iff in Hc. destruct Hc as (c' & <- & _).
  apply Forall_forall. intros z Hz. apply in_map_iff in Hz. destruct Hz as (l & <- & _).
  apply z_of_lit_nonzero.
Qed.

Lemma map_lit_roundtrip (cs : list dclause) : map (map lit_of_z) (map (map z_of_lit) cs) = cs.
Proof.
  rewrite map_map. rewrite <- (map_id cs) at 2. apply map_ext. intros c.
  rewrite map_map. rewrite <- (map_id c) at 2. apply map_ext. intros l. apply lit_of_z_of_lit.
Qed.

(* token level, no normalisation involved: the clause lines printed for ANY clause list (empty
   formula, empty clauses, repeated / complementary literals) are read back as that list *)
Theorem dimacs_roundtrip_raw cs :
  parse_dimacs_tokens (concat (print_dimacs cs)) = POk (map (map z_of_lit) cs).
Proof.
  unfold parse_dimacs_tokens. rewrite print_dimacs_tokens.
  apply parse_clauses_lines; [apply print_nonzero|lia].
Qed.

(* Cnf::from_dimacs ("p cnf nv nc" + to_dimacs (Cnf::new cs)) = Cnf::new cs, for every clause
   list and every (non-zero) pair of header numbers *)
Theorem dimacs_roundtrip cs nv nc :
  cnf_from_dimacs (header nv nc ++ lex_ints (concat (to_dimacs (CnfUtil.cnf_new cs)))) = POk (CnfUtil.cnf_new cs).
Proof.
  unfold cnf_from_dimacs, to_dimacs. cbn [header app parse_dimacs].
  rewrite print_dimacs_tokens.
  rewrite parse_clauses_lines; [|apply print_nonzero|lia].
  rewrite map_lit_roundtrip. rewrite Proofs.CnfUtil.cnf_new_idempotent. reflexivity.
Qed.

(* ... hence the same clause sets, clause by clause *)
Corollary dimacs_roundtrip_sets cs nv nc :
  exists c', cnf_from_dimacs (header nv nc ++ lex_ints (concat (to_dimacs (CnfUtil.cnf_new cs)))) = POk c' /\
  Forall2 (fun c c' => forall l, In l c' <-> In l c) cs (CnfUtil.clauses c').
Proof.
  exists (CnfUtil.cnf_new cs). split; [apply dimacs_roundtrip|].
  destruct (Proofs.CnfUtil.cnf_new_sem cs) as (H & _).
  clear -H. induction H as [|c c' l l' (Hc & _) _ IH]; constructor; assumption.
Qed.

(* the parser never runs out of the model's fuel *)
Lemma parse_clause_shorter : forall n ts lits c r,
  length ts <= n -> ts <> [] -> parse_clause ts lits = Some (c, r) -> length r < length ts.
Proof.
  induction n as [|n IH]; intros ts lits c r Hn Hne H.
  - destruct ts; [congruence|cbn in Hn; lia].
  - destruct ts as [|t ts]; [congruence|]. cbn [parse_clause] in H. destruct t; try discriminate.
    + destruct ts as [|t' ts'].
      * cbn in H. inversion H; subst. cbn. lia.
      * assert (L : length r < length (t' :: ts')) by (eapply IH; [cbn in *; lia|discriminate|exact H]).
        cbn [length] in *. lia.
    + inversion H; subst. cbn. lia.
    + destruct ts as [|t' ts']; [discriminate|]. destruct t'; try discriminate.
      destruct ts' as [|t'' ts''].
      * cbn in H. inversion H; subst. cbn. lia.
      * assert (L : length r < length (t'' :: ts'')) by (eapply IH; [cbn in *; lia|discriminate|exact H]).
        cbn [length] in *. lia.
Qed.

Lemma parse_clauses_fuel : forall fuel ts, length ts < fuel -> parse_clauses fuel ts <> PFuel.
Proof.
  induction fuel as [|f IH]; intros ts Hf; [lia|].
  cbn [parse_clauses]. destruct ts as [|t ts]; [discriminate|].
  destruct (parse_clause (t :: ts) []) as [[c r]|] eqn:E; [|discriminate].
  assert (L : length r < length (t :: ts)) by (eapply parse_clause_shorter; [apply Nat.le_refl|discriminate|exact E]).
  specialize (IH r). destruct (parse_clauses f r); try discriminate. apply IH. lia.
Qed.

Theorem parse_dimacs_no_fuel ts : parse_dimacs ts <> PFuel.
Proof.
  unfold parse_dimacs. destruct ts as [|[] ts]; try discriminate.
  destruct ts as [|[] ts]; try discriminate. destruct ts as [|[] ts]; try discriminate.
  destruct ts as [|[] ts]; try discriminate. apply parse_clauses_fuel. lia.
Qed.

(* literals delivered by the parser are never 0 *)
Lemma parse_clause_nonzero : forall n ts lits c r,
  length ts <= n -> Forall (fun z => z <> 0%Z) lits ->
  parse_clause ts lits = Some (c, r) -> Forall (fun z => z <> 0%Z) c.
Proof.
  induction n as [|n IH]; intros ts lits c r Hn Hl H.
  - destruct ts; [|cbn in Hn; lia]. cbn in H. inversion H; subst. apply Forall_rev, Hl.
  - destruct ts as [|t ts]; cbn [parse_clause] in H.
    + inversion H; subst. apply Forall_rev, Hl.
    + destruct t; try discriminate.
      * eapply IH; [|  |exact H]; [cbn in Hn; lia|constructor; [discriminate|exact Hl]].
      * inversion H; subst. apply Forall_rev, Hl.
      * destruct ts as [|t' ts']; [discriminate|]. destruct t'; try discriminate.
        eapply IH; [| |exact H]; [cbn in Hn; lia|constructor; [discriminate|exact Hl]].
Qed.

Lemma parse_clauses_nonzero : forall fuel ts cs,
  parse_clauses fuel ts = POk cs -> Forall (Forall (fun z => z <> 0%Z)) cs.
Proof.
  induction fuel as [|f IH]; intros ts cs H; [discriminate|].
  cbn [parse_clauses] in H. destruct ts as [|t ts]; [inversion H; constructor|].
  destruct (parse_clause (t :: ts) []) as [[c r]|] eqn:E; [|discriminate].
  destruct (parse_clauses f r) as [cs'| |] eqn:E'; try discriminate. inversion H; subst.
  constructor; [|eapply IH, E'].
  eapply parse_clause_nonzero; [apply Nat.le_refl|constructor|exact E].
Qed.

Lemma parse_dimacs_nonzero ts cs : parse_dimacs ts = POk cs -> Forall (Forall (fun z => z <> 0%Z)) cs.
Proof.
  unfold parse_dimacs. destruct ts as [|[] ts]; try discriminate.
  destruct ts as [|[] ts]; try discriminate. destruct ts as [|[] ts]; try discriminate.
  destruct ts as [|[] ts]; try discriminate. apply parse_clauses_nonzero.
Qed.

(* ==================================================================================== *)
(* LogicalExpr::from_dimacs *)

(* what a signed DIMACS integer means under an assignment of the DIMACS variables themselves *)
Definition zlit_eval (x : asg) (z : Z) : bool := Bool.eqb (x (Z.to_N (Z.abs z))) (0 <=? z)%Z.
Definition zcnf_eval (cs : list (list Z)) (x : asg) : bool := forallb (existsb (zlit_eval x)) cs.

Lemma fold_left_or_den l : forall init x,
  den_e (fold_left EOr l init) x = den_e init x || existsb (fun e => den_e e x) l.
Proof.
  induction l as [|e l IH]; intros init x; cbn [fold_left existsb]; [rewrite orb_false_r; reflexivity|].
  rewrite IH. cbn [den_e]. rewrite orb_assoc. reflexivity.
Qed.
Lemma fold_left_and_den l : forall init x,
  den_e (fold_left EAnd l init) x = den_e init x && forallb (fun e => den_e e x) l.
Proof.
  induction l as [|e l IH]; intros init x; cbn [fold_left forallb]; [rewrite andb_true_r; reflexivity|].
  rewrite IH. cbn [den_e]. rewrite andb_assoc. reflexivity.
Qed.

Lemma rev_cons_inv {A} (v : list A) last t : rev v = last :: t -> v = rev t ++ [last] /\ removelast v = rev t.
Proof.
  intros H. assert (E : v = rev t ++ [last]) by (rewrite <- (rev_involutive v), H; reflexivity).
  split; [exact E|]. rewrite E. apply removelast_last.
Qed.

Lemma pop_fold_or v e : pop_fold EOr v = Some e -> v <> [] /\ forall x, den_e e x = existsb (fun e => den_e e x) v.
Proof.
  unfold pop_fold. intros H.
  assert (G : match rev v with [] => None | last :: _ => Some (fold_left EOr (removelast v) last) end = Some e ->
              v <> [] /\ forall x, den_e e x = existsb (fun e => den_e e x) v).
  { destruct (rev v) as [|last t] eqn:E; [discriminate|]. intros H'. inversion H'; subst e.
    destruct (rev_cons_inv _ _ _ E) as (Ev & Er). split; [rewrite Ev; destruct (rev t); discriminate|].
    intros x. rewrite fold_left_or_den, Er. rewrite Ev. rewrite existsb_app. cbn [existsb].
    rewrite orb_false_r. apply orb_comm. }
  destruct v as [|a [|b v']]; [discriminate| |exact (G H)].
  inversion H; subst. split; [discriminate|]. intros x. cbn. rewrite orb_false_r. reflexivity.
Qed.

Lemma pop_fold_and v e : pop_fold EAnd v = Some e -> v <> [] /\ forall x, den_e e x = forallb (fun e => den_e e x) v.
Proof.
  unfold pop_fold. intros H.
  assert (G : match rev v with [] => None | last :: _ => Some (fold_left EAnd (removelast v) last) end = Some e ->
              v <> [] /\ forall x, den_e e x = forallb (fun e => den_e e x) v).
  { destruct (rev v) as [|last t] eqn:E; [discriminate|]. intros H'. inversion H'; subst e.
    destruct (rev_cons_inv _ _ _ E) as (Ev & Er). split; [rewrite Ev; destruct (rev t); discriminate|].
    intros x. rewrite fold_left_and_den, Er. rewrite Ev. rewrite forallb_app. cbn [forallb].
    rewrite andb_true_r. apply andb_comm. }
  destruct v as [|a [|b v']]; [discriminate| |exact (G H)].
  inversion H; subst. split; [discriminate|]. intros x. cbn. rewrite andb_true_r. reflexivity.
Qed.

Lemma pop_fold_none mk v : pop_fold mk v = None <-> v = [].
Proof.
  unfold pop_fold. split.
  - destruct v as [|a [|b v']]; [reflexivity|discriminate|].
    destruct (rev (a :: b :: v')) eqn:E; [|discriminate].
    intros _. apply (f_equal (@rev _)) in E. rewrite rev_involutive in E. exact E.
  - intros ->. reflexivity.
Qed.

Lemma all_some_spec {A} (l : list (option A)) :
  match all_some l with
  | Some r => l = map Some r
  | None => In None l
  end.
Proof.
  induction l as [|[x|] l IH]; cbn [all_some]; [reflexivity| |left; reflexivity].
  destruct (all_some l) as [r|]; [cbn; f_equal; exact IH|right; exact IH].
Qed.

Lemma existsb_map' {A B} (f : A -> B) (p : B -> bool) l :
  existsb p (map f l) = existsb (fun x => p (f x)) l.
Proof. induction l as [|a l IH]; cbn; [reflexivity|rewrite IH; reflexivity]. Qed.

Lemma elit_den z x : den_e (elit_of_z z) x = zlit_eval x z.
Proof. reflexivity. Qed.

Theorem expr_of_clauses_sem cs e :
  expr_of_clauses cs = Some e -> forall x, den_e e x = zcnf_eval cs x.
Proof.
  unfold expr_of_clauses. intros H x.
  pose proof (all_some_spec (map (fun c => pop_fold EOr (map elit_of_z c)) cs)) as S.
  destruct (all_some _) as [cv|]; [|discriminate].
  destruct (pop_fold_and _ _ H) as (_ & Hd). rewrite Hd. unfold zcnf_eval.
  clear H Hd. revert cv S. induction cs as [|c cs IH]; intros cv S.
  - destruct cv; [reflexivity|discriminate].
  - destruct cv as [|ec cv]; [discriminate|]. cbn [map] in S. inversion S as [[S1 S2]].
    cbn [forallb]. rewrite (IH _ S2). f_equal.
    destruct (pop_fold_or _ _ S1) as (_ & Hc). rewrite Hc.
    rewrite existsb_map'. reflexivity.
Qed.

(* when does it panic: exactly on an empty clause or on a formula without clauses *)
Theorem expr_of_clauses_defined cs :
  expr_of_clauses cs = None <-> (cs = [] \/ In [] cs).
Proof.
  unfold expr_of_clauses.
  pose proof (all_some_spec (map (fun c => pop_fold EOr (map elit_of_z c)) cs)) as S.
  destruct (all_some _) as [cv|].
  - rewrite pop_fold_none. split.
    + intros ->. destruct cs; [left; reflexivity|discriminate].
    + intros [->|Hin]; [destruct cv; [reflexivity|discriminate]|].
      exfalso. assert (In (pop_fold EOr (map elit_of_z [])) (map Some cv)) by (rewrite <- S; apply in_map_iff; exists []; auto).
      cbn in H. apply in_map_iff in H. destruct H as (? & ? & _). discriminate.
  - split; [|reflexivity]. intros _. right. apply in_map_iff in S. destruct S as (c & Hc & Hin).
    apply pop_fold_none in Hc. destruct c; [exact Hin|discriminate].
Qed.

Theorem dimacs_expr_sem ts e :
  expr_from_dimacs ts = POk e ->
  exists cs, parse_dimacs ts = POk cs /\ cs <> [] /\ ~ In [] cs /\ forall x, den_e e x = zcnf_eval cs x.
Proof.
  unfold expr_from_dimacs. destruct (parse_dimacs ts) as [cs| |] eqn:E; try discriminate.
  destruct (expr_of_clauses cs) as [e'|] eqn:E'; [|discriminate]. intros H; inversion H; subst e'.
  exists cs. split; [reflexivity|].
  assert (N : ~ (cs = [] \/ In [] cs)) by (rewrite <- expr_of_clauses_defined; congruence).
  split; [tauto|]. split; [tauto|]. apply expr_of_clauses_sem, E'.
Qed.

(* the two DIMACS front ends agree up to their numbering: Cnf::from_dimacs uses label v-1 for
   the DIMACS variable v, LogicalExpr::from_dimacs uses label v *)
Lemma zlit_shift x z : z <> 0%Z ->
  Proofs.CnfUtil.lit_true (fun v => x (v + 1)%N) (lit_of_z z) = zlit_eval x z.
Proof.
  intros Hz. unfold Proofs.CnfUtil.lit_true, lit_of_z, zlit_eval. cbn [fst snd].
  replace (Z.to_N (Z.abs z) - 1 + 1)%N with (Z.to_N (Z.abs z)) by lia.
  destruct (x (Z.to_N (Z.abs z))), (0 <=? z)%Z; reflexivity.
Qed.

Theorem dimacs_cnf_expr_agree ts e c :
  expr_from_dimacs ts = POk e -> cnf_from_dimacs ts = POk c ->
  forall x, den_e e x = Proofs.CnfUtil.cnf_sem (fun v => x (v + 1)%N) (CnfUtil.clauses c).
Proof.
  intros He Hc x. destruct (dimacs_expr_sem _ _ He) as (cs & Hp & _ & _ & Hd).
  unfold cnf_from_dimacs in Hc. rewrite Hp in Hc. inversion Hc; subst c.
  destruct (Proofs.CnfUtil.cnf_new_sem (map (map lit_of_z) cs)) as (_ & _ & Hs). rewrite Hs, Hd.
  pose proof (parse_dimacs_nonzero _ _ Hp) as Hnz. clear -Hnz.
  unfold zcnf_eval, Proofs.CnfUtil.cnf_sem. induction Hnz as [|c cs Hc _ IH]; [reflexivity|].
  cbn [map forallb]. rewrite IH. f_equal. unfold Proofs.CnfUtil.clause_sem. rewrite existsb_map'.
  clear IH. induction Hc as [|z c Hz _ IHc]; [reflexivity|]. cbn [existsb]. rewrite IHc, zlit_shift by exact Hz.
  reflexivity.
Qed.

(* ==================================================================================== *)
(* s-expressions *)

Lemma name_cmp_eq a : forall b, name_cmp a b = Eq <-> a = b.
Proof.
  induction a as [|x a IH]; intros [|y b]; cbn; split; try congruence; try reflexivity.
  - destruct (N.compare x y) eqn:E; try discriminate. apply N.compare_eq in E. subst y.
    intros H. apply IH in H. congruence.
  - intros H. inversion H; subst. rewrite N.compare_refl. apply IH. reflexivity.
Qed.

Lemma name_cmp_refl a : name_cmp a a = Eq.
Proof. apply name_cmp_eq. reflexivity. Qed.

Lemma name_cmp_antisym a : forall b, name_cmp b a = CompOpp (name_cmp a b).
Proof.
  induction a as [|x a IH]; intros [|y b]; cbn; try reflexivity.
  rewrite (N.compare_antisym x y). destruct (N.compare x y); cbn; try reflexivity. apply IH.
Qed.

Lemma name_cmp_trans a : forall b c, name_cmp a b = Lt -> name_cmp b c = Lt -> name_cmp a c = Lt.
Proof.
  induction a as [|x a IH]; intros [|y b] [|z c]; cbn; try congruence.
  destruct (N.compare x y) eqn:E1; try discriminate.
  - apply N.compare_eq in E1. subst y. destruct (N.compare x z); try congruence. apply IH.
  - destruct (N.compare y z) eqn:E2; try discriminate.
    + apply N.compare_eq in E2. subst z. rewrite E1. reflexivity.
    + intros _ _. assert (E : N.compare x z = Lt) by (rewrite N.compare_lt_iff in *; lia). rewrite E. reflexivity.
Qed.

Definition name_lt (a b : name) : Prop := name_cmp a b = Lt.

Lemma name_lt_irrefl a : ~ name_lt a a.
Proof. unfold name_lt. rewrite name_cmp_refl. discriminate. Qed.
Lemma name_lt_asym a b : name_lt a b -> ~ name_lt b a.
Proof. unfold name_lt. intros H. rewrite name_cmp_antisym, H. discriminate. Qed.
Lemma name_lt_total a b : name_lt a b \/ a = b \/ name_lt b a.
Proof.
  unfold name_lt. destruct (name_cmp a b) eqn:E.
  - right; left. apply name_cmp_eq, E.
  - left; reflexivity.
  - right; right. rewrite name_cmp_antisym, E. reflexivity.
Qed.

Lemma name_eqb_eq a b : name_eqb a b = true <-> a = b.
Proof. unfold name_eqb. rewrite <- name_cmp_eq. destruct (name_cmp a b); split; congruence. Qed.

(* ---- sets of names ---- *)
Lemma set_mem_In x s : set_mem x s = true <-> In x s.
Proof.
  unfold set_mem. rewrite existsb_exists. split.
  - intros (y & Hy & E). apply name_eqb_eq in E. subst. exact Hy.
  - intros H. exists x. split; [exact H|apply name_eqb_eq; reflexivity].
Qed.

Lemma set_add_In x y s : In x (set_add y s) <-> x = y \/ In x s.
Proof.
  unfold set_add. destruct (set_mem y s) eqn:E.
  - apply set_mem_In in E. split; [auto|]. intros [->|H]; assumption.
  - rewrite in_app_iff. cbn. intuition congruence.
Qed.

Lemma set_add_NoDup y s : NoDup s -> NoDup (set_add y s).
Proof.
  unfold set_add. destruct (set_mem y s) eqn:E; [auto|]. intros H.
  assert (~ In y s) by (rewrite <- set_mem_In; congruence).
  apply NoDup_rev in H. rewrite <- (rev_involutive (s ++ [y])). apply NoDup_rev.
  rewrite rev_app_distr. cbn. constructor; [rewrite <- in_rev; assumption|assumption].
Qed.

Lemma set_union_In b : forall a x, In x (set_union a b) <-> In x a \/ In x b.
Proof.
  unfold set_union. induction b as [|y b IH]; intros a x; cbn [fold_left]; [cbn; tauto|].
  rewrite IH, set_add_In. cbn. intuition congruence.
Qed.

Lemma set_union_NoDup b : forall a, NoDup a -> NoDup (set_union a b).
Proof.
  unfold set_union. induction b as [|y b IH]; intros a H; cbn [fold_left]; [exact H|].
  apply IH, set_add_NoDup, H.
Qed.

(* names occurring in an s-expression *)
Fixpoint svars (e : sexpr) : list name :=
  match e with
  | XTrue | XFalse => []
  | XVar s => [s]
  | XNot l => svars l
  | XOr a b | XAnd a b | XIff a b | XXor a b => svars a ++ svars b
  | XIte a b c => svars a ++ svars b ++ svars c
  end.

Lemma unique_variables_In e x : In x (unique_variables e) <-> In x (svars e).
Proof.
  induction e; cbn [unique_variables svars]; try tauto;
    rewrite ?set_union_In, ?in_app_iff; tauto.
Qed.

Lemma unique_variables_NoDup e : NoDup (unique_variables e).
Proof.
  induction e; cbn [unique_variables]; try (constructor; fail); try assumption;
    try (apply set_union_NoDup; assumption).
  - constructor; [intros []|constructor].
  - apply set_union_NoDup, set_union_NoDup. assumption.
Qed.

(* ---- sorting ---- *)
Lemma name_insert_In x y l : In x (name_insert y l) <-> x = y \/ In x l.
Proof.
  induction l as [|z l IH]; cbn [name_insert]; [cbn; intuition congruence|].
  destruct (name_cmp y z); cbn [In]; rewrite ?IH; cbn [In]; intuition congruence.
Qed.

Lemma name_sort_In x l : In x (name_sort l) <-> In x l.
Proof.
  induction l as [|y l IH]; cbn [name_sort fold_right]; [tauto|].
  fold (name_sort l). rewrite name_insert_In, IH. cbn. intuition congruence.
Qed.

Lemma name_insert_sorted y l :
  ~ In y l -> StronglySorted name_lt l -> StronglySorted name_lt (name_insert y l).
Proof.
  induction l as [|z l IH]; intros Hn Hs; cbn [name_insert]; [repeat constructor|].
  inversion Hs as [|? ? Hs' Hall]; subst.
  destruct (name_cmp y z) eqn:E.
  - apply name_cmp_eq in E. subst. exfalso. apply Hn. left; reflexivity.
  - constructor; [exact Hs|]. constructor; [exact E|].
    rewrite Forall_forall in *. intros w Hw. eapply name_cmp_trans; [exact E|apply Hall, Hw].
  - constructor.
    + apply IH; [intros H; apply Hn; right; exact H|exact Hs'].
    + apply Forall_forall. intros w Hw. apply name_insert_In in Hw. destruct Hw as [->|Hw].
      * unfold name_lt. rewrite name_cmp_antisym, E. reflexivity.
      * rewrite Forall_forall in Hall. apply Hall, Hw.
Qed.

Lemma name_sort_sorted l : NoDup l -> StronglySorted name_lt (name_sort l).
Proof.
  induction 1 as [|y l Hn Hd IH]; cbn [name_sort fold_right]; [constructor|].
  fold (name_sort l). apply name_insert_sorted; [rewrite name_sort_In; exact Hn|exact IH].
Qed.

Lemma name_insert_length y l : length (name_insert y l) = S (length l).
Proof. induction l as [|z l IH]; cbn [name_insert]; [reflexivity|]. destruct (name_cmp y z); cbn; rewrite ?IH; reflexivity. Qed.
Lemma name_sort_length l : length (name_sort l) = length l.
Proof. induction l as [|y l IH]; cbn [name_sort fold_right]; [reflexivity|]. fold (name_sort l). rewrite name_insert_length, IH. reflexivity. Qed.

(* a strictly sorted list is determined by its set of elements: the HashSet's iteration order
   cannot influence the mapping *)
Lemma sorted_unique l : forall l',
  StronglySorted name_lt l -> StronglySorted name_lt l' -> (forall x, In x l <-> In x l') -> l = l'.
Proof.
  induction l as [|a l IH]; intros [|b l'] Hs Hs' Hi.
  - reflexivity.
  - exfalso. apply (Hi b). left; reflexivity.
  - exfalso. apply (Hi a). left; reflexivity.
  - inversion Hs as [|? ? Hs1 Ha]; inversion Hs' as [|? ? Hs1' Hb]; subst.
    rewrite Forall_forall in Ha, Hb.
    assert (a = b).
    { destruct (proj1 (Hi a) (or_introl eq_refl)) as [E|Hin]; [congruence|].
      destruct (proj2 (Hi b) (or_introl eq_refl)) as [E|Hin']; [congruence|].
      exfalso. exact (name_lt_asym _ _ (Ha _ Hin') (Hb _ Hin)). }
    subst b. f_equal. apply IH; [assumption|assumption|].
    intros x. split; intros Hx.
    + destruct (proj1 (Hi x) (or_intror Hx)) as [E|H]; [|exact H]. subst x.
      exfalso. exact (name_lt_irrefl _ (Ha _ Hx)).
    + destruct (proj2 (Hi x) (or_intror Hx)) as [E|H]; [|exact H]. subst x.
      exfalso. exact (name_lt_irrefl _ (Hb _ Hx)).
Qed.

Theorem mapping_perm (l l' : list name) :
  NoDup l -> NoDup l' -> (forall x, In x l <-> In x l') -> name_sort l = name_sort l'.
Proof.
  intros H H' Hi. apply sorted_unique; [apply name_sort_sorted, H|apply name_sort_sorted, H'|].
  intros x. rewrite !name_sort_In. apply Hi.
Qed.

Lemma sorted_names_sorted e : StronglySorted name_lt (sorted_names e).
Proof. apply name_sort_sorted, unique_variables_NoDup. Qed.

Lemma sorted_names_In e x : In x (sorted_names e) <-> In x (svars e).
Proof. unfold sorted_names. rewrite name_sort_In. apply unique_variables_In. Qed.

Lemma sorted_nth_lt v : StronglySorted name_lt v ->
  forall i j a b, nth_error v i = Some a -> nth_error v j = Some b -> i < j -> name_lt a b.
Proof.
  induction 1 as [|x v Hs IH Hall]; intros i j a b Hi Hj Hlt; [destruct i; discriminate|].
  destruct j as [|j]; [lia|]. cbn in Hj. destruct i as [|i].
  - cbn in Hi. inversion Hi; subst. rewrite Forall_forall in Hall. apply Hall. eapply nth_error_In, Hj.
  - cbn in Hi. eapply IH; [exact Hi|exact Hj|lia].
Qed.

(* ---- the mapping: position in the sorted list ---- *)
Lemma map_get_combine v : forall k s i,
  StronglySorted name_lt v ->
  (map_get (combine v (seq k (length v))) s = Some i <-> exists j, i = k + j /\ nth_error v j = Some s).
Proof.
  unfold map_get. induction v as [|a v IH]; intros k s i Hs.
  - cbn. split; [discriminate|]. intros (j & _ & H). destruct j; discriminate.
  - inversion Hs as [|? ? Hs' Hall]; subst. cbn [length seq combine find fst].
    destruct (name_eqb a s) eqn:E.
    + apply name_eqb_eq in E. subst a. cbn [snd]. split.
      * intros H; inversion H; subst. exists 0. split; [lia|reflexivity].
      * intros (j & -> & Hj). destruct j as [|j]; [f_equal; lia|].
        cbn in Hj. exfalso. rewrite Forall_forall in Hall.
        exact (name_lt_irrefl _ (Hall _ (nth_error_In _ _ Hj))).
    + rewrite (IH (S k) s i Hs'). split.
      * intros (j & -> & Hj). exists (S j). split; [lia|exact Hj].
      * intros (j & -> & Hj). destruct j as [|j].
        -- cbn in Hj. inversion Hj; subst. rewrite (proj2 (name_eqb_eq s s) eq_refl) in E. discriminate.
        -- exists j. split; [lia|exact Hj].
Qed.

Lemma map_get_nth e s i :
  map_get (variable_mapping e) s = Some i <-> nth_error (sorted_names e) i = Some s.
Proof.
  unfold variable_mapping. rewrite map_get_combine by apply sorted_names_sorted. cbn.
  split; [intros (j & -> & H); exact H|intros H; exists i; auto].
Qed.

(* variable_mapping is the rank function of the sorted set of names *)
Theorem sexpr_mapping_lex e :
  let m := variable_mapping e in
  let n := length (unique_variables e) in
  (* defined exactly on the names of the expression, values below n *)
  (forall s, In s (svars e) <-> exists i, map_get m s = Some i) /\
  (forall s i, map_get m s = Some i -> i < n) /\
  (* order preserving (hence injective) *)
  (forall s s' i j, map_get m s = Some i -> map_get m s' = Some j -> (name_lt s s' <-> i < j)) /\
  (forall s s' i, map_get m s = Some i -> map_get m s' = Some i -> s = s') /\
  (* onto 0..n-1 *)
  (forall i, i < n -> exists s, map_get m s = Some i).
Proof.
  cbn zeta.
  assert (L : length (sorted_names e) = length (unique_variables e)) by apply name_sort_length.
  split; [|split; [|split; [|split]]].
  - intros s. rewrite <- sorted_names_In. split.
    + intros H. apply In_nth_error in H. destruct H as (i & H). exists i. apply map_get_nth, H.
    + intros (i & H). apply map_get_nth in H. eapply nth_error_In, H.
  - intros s i H. apply map_get_nth in H. rewrite <- L. apply nth_error_Some. congruence.
  - intros s s' i j Hi Hj. apply map_get_nth in Hi, Hj.
    pose proof (sorted_nth_lt _ (sorted_names_sorted e)) as S. split.
    + intros Hlt. destruct (Nat.lt_trichotomy i j) as [H|[H|H]]; [exact H| |].
      * subst j. rewrite Hi in Hj. inversion Hj; subst. exfalso. exact (name_lt_irrefl _ Hlt).
      * exfalso. exact (name_lt_asym _ _ Hlt (S _ _ _ _ Hj Hi H)).
    + intros H. exact (S _ _ _ _ Hi Hj H).
  - intros s s' i Hi Hj. apply map_get_nth in Hi, Hj. congruence.
  - intros i Hi. rewrite <- L in Hi. apply nth_error_Some in Hi.
    destruct (nth_error (sorted_names e) i) as [s|] eqn:E; [|congruence]. exists s. apply map_get_nth, E.
Qed.

Lemma filter_none {A} (p : A -> bool) l : (forall x, In x l -> p x = false) -> filter p l = [].
Proof.
  induction l as [|a l IH]; intros H; [reflexivity|]. cbn [filter].
  rewrite (H a (or_introl eq_refl)). apply IH. intros x Hx. apply H. right; exact Hx.
Qed.

(* rank, said directly: the index is the number of names of the expression that are smaller *)
Lemma sorted_rank v : StronglySorted name_lt v -> forall i s, nth_error v i = Some s ->
  length (filter (fun t => name_ltb t s) v) = i.
Proof.
  induction 1 as [|x v Hs IH Hall]; intros i s Hi; [destruct i; discriminate|].
  rewrite Forall_forall in Hall. cbn [filter]. destruct i as [|i].
  - cbn in Hi. inversion Hi; subst. unfold name_ltb at 1. rewrite name_cmp_refl.
    rewrite filter_none; [reflexivity|].
    intros t Ht. unfold name_ltb. rewrite name_cmp_antisym. rewrite (Hall _ Ht). reflexivity.
  - cbn in Hi. assert (Hx : name_lt x s) by (apply Hall; eapply nth_error_In, Hi).
    unfold name_ltb at 1. rewrite Hx. cbn [length]. f_equal. apply IH, Hi.
Qed.

Theorem sexpr_mapping_rank e s i :
  map_get (variable_mapping e) s = Some i ->
  i = length (filter (fun t => name_ltb t s) (sorted_names e)).
Proof. intros H. apply map_get_nth in H. symmetry. eapply sorted_rank; [apply sorted_names_sorted|exact H]. Qed.

(* ---- from_sexpr ---- *)
Fixpoint xeval (rho : name -> bool) (e : sexpr) : bool :=
  match e with
  | XTrue => true | XFalse => false
  | XVar s => rho s
  | XNot a => negb (xeval rho a)
  | XOr a b => xeval rho a || xeval rho b
  | XAnd a b => xeval rho a && xeval rho b
  | XIff a b => Bool.eqb (xeval rho a) (xeval rho b)
  | XXor a b => xorb (xeval rho a) (xeval rho b)
  | XIte g t e' => if xeval rho g then xeval rho t else xeval rho e'
  end.
Fixpoint no_const (e : sexpr) : bool :=
  match e with
  | XTrue | XFalse => false
  | XVar _ => true
  | XNot a => no_const a
  | XOr a b | XAnd a b | XIff a b | XXor a b => no_const a && no_const b
  | XIte g t e' => no_const g && no_const t && no_const e'
  end.

(* the assignment x of the numbered variables reads the name assignment rho through m *)
Definition agrees (m : list (name * nat)) (rho : name -> bool) (x : asg) : Prop :=
  forall s i, map_get m s = Some i -> x (N.of_nat i) = rho s.

Lemma sx_helper_sem m e :
  (forall s, In s (svars e) -> exists i, map_get m s = Some i) -> no_const e = true ->
  exists ex, sx_helper m e = Some ex /\
    forall rho x, agrees m rho x -> den_e ex x = xeval rho e.
Proof.
  induction e as [| |s|a IHa|a IHa b IHb|a IHa b IHb|a IHa b IHb|a IHa b IHb|g IHg t IHt f IHf];
    intros Hv Hc; cbn [no_const] in Hc; try discriminate.
  - destruct (Hv s (or_introl eq_refl)) as (i & Hi). exists (ELit (N.of_nat i) true).
    cbn [sx_helper]. rewrite Hi. split; [reflexivity|].
    intros rho x Ha. cbn. rewrite (Ha _ _ Hi). destruct (rho s); reflexivity.
  - assert (G : exists ex, (match sx_helper m a with Some x => Some (ENot x) | None => None end) = Some ex /\
                 forall rho x, agrees m rho x -> den_e ex x = xeval rho (XNot a)).
    { destruct (IHa Hv Hc) as (ex & He & Hd). exists (ENot ex). rewrite He. split; [reflexivity|].
      intros rho x Ha. cbn. rewrite (Hd _ _ Ha). reflexivity. }
    destruct a; try exact G.
    destruct (Hv s (or_introl eq_refl)) as (i & Hi). exists (ELit (N.of_nat i) false).
    cbn [sx_helper]. rewrite Hi. split; [reflexivity|].
    intros rho x Ha. cbn. rewrite (Ha _ _ Hi). destruct (rho s); reflexivity.
  - apply andb_true_iff in Hc. destruct Hc as (Ca & Cb). cbn [svars] in Hv.
    destruct (IHa (fun s H => Hv s (in_or_app _ _ _ (or_introl H))) Ca) as (xa & Ea & Da).
    destruct (IHb (fun s H => Hv s (in_or_app _ _ _ (or_intror H))) Cb) as (xb & Eb & Db).
    exists (EOr xa xb). cbn [sx_helper]. rewrite Ea, Eb. split; [reflexivity|].
    intros rho x Ha. cbn. rewrite (Da _ _ Ha), (Db _ _ Ha). reflexivity.
  - apply andb_true_iff in Hc. destruct Hc as (Ca & Cb). cbn [svars] in Hv.
    destruct (IHa (fun s H => Hv s (in_or_app _ _ _ (or_introl H))) Ca) as (xa & Ea & Da).
    destruct (IHb (fun s H => Hv s (in_or_app _ _ _ (or_intror H))) Cb) as (xb & Eb & Db).
    exists (EAnd xa xb). cbn [sx_helper]. rewrite Ea, Eb. split; [reflexivity|].
    intros rho x Ha. cbn. rewrite (Da _ _ Ha), (Db _ _ Ha). reflexivity.
  - apply andb_true_iff in Hc. destruct Hc as (Ca & Cb). cbn [svars] in Hv.
    destruct (IHa (fun s H => Hv s (in_or_app _ _ _ (or_introl H))) Ca) as (xa & Ea & Da).
    destruct (IHb (fun s H => Hv s (in_or_app _ _ _ (or_intror H))) Cb) as (xb & Eb & Db).
    exists (EIff xa xb). cbn [sx_helper]. rewrite Ea, Eb. split; [reflexivity|].
    intros rho x Ha. cbn. rewrite (Da _ _ Ha), (Db _ _ Ha). reflexivity.
  - apply andb_true_iff in Hc. destruct Hc as (Ca & Cb). cbn [svars] in Hv.
    destruct (IHa (fun s H => Hv s (in_or_app _ _ _ (or_introl H))) Ca) as (xa & Ea & Da).
    destruct (IHb (fun s H => Hv s (in_or_app _ _ _ (or_intror H))) Cb) as (xb & Eb & Db).
    exists (EXor xa xb). cbn [sx_helper]. rewrite Ea, Eb. split; [reflexivity|].
    intros rho x Ha. cbn. rewrite (Da _ _ Ha), (Db _ _ Ha). reflexivity.
  - apply andb_true_iff in Hc. destruct Hc as (Cgt & Cf). apply andb_true_iff in Cgt. destruct Cgt as (Cg & Ct).
    cbn [svars] in Hv.
    destruct (IHg (fun s H => Hv s (in_or_app _ _ _ (or_introl H))) Cg) as (xg & Eg & Dg).
    destruct (IHt (fun s H => Hv s (in_or_app _ _ _ (or_intror (in_or_app _ _ _ (or_introl H))))) Ct) as (xt & Et & Dt).
    destruct (IHf (fun s H => Hv s (in_or_app _ _ _ (or_intror (in_or_app _ _ _ (or_intror H))))) Cf) as (xf & Ef & Df).
    exists (EIte xg xt xf). cbn [sx_helper]. rewrite Eg, Et, Ef. split; [reflexivity|].
    intros rho x Ha. cbn. rewrite (Dg _ _ Ha), (Dt _ _ Ha), (Df _ _ Ha). reflexivity.
Qed.

(* a constant anywhere makes the helper hit todo!() *)
Lemma sx_helper_const m e : no_const e = false -> sx_helper m e = None.
Proof.
  induction e as [| |s|a IHa|a IHa b IHb|a IHa b IHb|a IHa b IHb|a IHa b IHb|g IHg t IHt f IHf];
    intros Hc; cbn [no_const] in Hc; try reflexivity; try discriminate.
  - specialize (IHa Hc). destruct a; cbn [sx_helper] in *; try (rewrite IHa; reflexivity); try reflexivity.
    discriminate.
  - cbn [sx_helper]. apply andb_false_iff in Hc. destruct Hc as [C|C]; [rewrite (IHa C); reflexivity|].
    rewrite (IHb C). destruct (sx_helper m a); reflexivity.
  - cbn [sx_helper]. apply andb_false_iff in Hc. destruct Hc as [C|C]; [rewrite (IHa C); reflexivity|].
    rewrite (IHb C). destruct (sx_helper m a); reflexivity.
  - cbn [sx_helper]. apply andb_false_iff in Hc. destruct Hc as [C|C]; [rewrite (IHa C); reflexivity|].
    rewrite (IHb C). destruct (sx_helper m a); reflexivity.
  - cbn [sx_helper]. apply andb_false_iff in Hc. destruct Hc as [C|C]; [rewrite (IHa C); reflexivity|].
    rewrite (IHb C). destruct (sx_helper m a); reflexivity.
  - cbn [sx_helper]. apply andb_false_iff in Hc. destruct Hc as [C|C].
    + apply andb_false_iff in C. destruct C as [C|C]; [rewrite (IHg C); reflexivity|].
      rewrite (IHt C). destruct (sx_helper m g); reflexivity.
    + rewrite (IHf C). destruct (sx_helper m g), (sx_helper m t); reflexivity.
Qed.

(* evaluation of the s-expression under a name assignment = evaluation of the resulting
   expression under any assignment of the numbered variables that reads rho through the mapping *)
Theorem from_sexpr_sem e :
  no_const e = true ->
  exists ex, from_sexpr e = Some ex /\
    forall rho x, agrees (variable_mapping e) rho x -> den_e ex x = xeval rho e.
Proof.
  intros Hc. unfold from_sexpr. apply sx_helper_sem; [|exact Hc].
  intros s Hs. apply (proj1 (sexpr_mapping_lex e)). exact Hs.
Qed.

Theorem from_sexpr_panics e : from_sexpr e = None <-> no_const e = false.
Proof.
  split.
  - intros H. destruct (no_const e) eqn:E; [|reflexivity].
    destruct (from_sexpr_sem e E) as (ex & He & _). congruence.
  - apply sx_helper_const.
Qed.

(* such an assignment exists for every rho: label i := value of the i-th smallest name *)
Definition numbered (e : sexpr) (rho : name -> bool) : asg :=
  fun v => match nth_error (sorted_names e) (N.to_nat v) with Some s => rho s | None => false end.
Lemma numbered_agrees e rho : agrees (variable_mapping e) rho (numbered e rho).
Proof.
  intros s i H. apply map_get_nth in H. unfold numbered. rewrite Nat2N.id, H. reflexivity.
Qed.

Corollary from_sexpr_sem_numbered e ex rho :
  from_sexpr e = Some ex -> den_e ex (numbered e rho) = xeval rho e.
Proof.
  intros H. assert (C : no_const e = true).
  { destruct (no_const e) eqn:E; [reflexivity|]. apply from_sexpr_panics in E. congruence. }
  destruct (from_sexpr_sem e C) as (ex' & He & Hd). rewrite H in He. inversion He; subst ex'.
  apply Hd, numbered_agrees.
Qed.
