(* Proofs for Model/Store.v (component C02L): the store-level node construction of the ROBDD
   builder refines the tree-layer [mk_node], and pointer identity in a reachable store is
   structural identity of unfoldings. *)
From Coq Require Import Bool NArith List Lia Arith Permutation.
Import ListNotations.
From RsddV Require Import Base.Bdd Model.BddOps Model.RobinHood Proofs.RobinHood Model.Store.

(* ------------------------------------------------------------------------------------- *)
(* the encoding is injective (it has a left inverse)                                      *)

Lemma nunpair_npair a b : nunpair (npair a b) = (a, b).
Proof.
  unfold nunpair, npair.
  assert (Hs : N.sqrt ((a + b) * (a + b) + b) = (a + b)%N).
  { apply N.sqrt_unique. rewrite <- N.add_1_r. split; nia. }
  cbv zeta. rewrite Hs. f_equal; lia.
Qed.

Lemma dec_enc_ptr p : dec_ptr (enc_ptr p) = p.
Proof.
  destruct p as [| |i|i]; unfold dec_ptr, enc_ptr; try reflexivity.
  - destruct (N.eqb_spec (2 + 2 * N.of_nat i) 0) as [E|_]; [lia|].
    destruct (N.eqb_spec (2 + 2 * N.of_nat i) 1) as [E|_]; [lia|].
    rewrite N.even_add_mul_2. cbn [N.even].
    replace (2 + 2 * N.of_nat i - 2)%N with (N.of_nat i * 2)%N by lia.
    rewrite N.div_mul by lia. rewrite Nat2N.id. reflexivity.
  - destruct (N.eqb_spec (3 + 2 * N.of_nat i) 0) as [E|_]; [lia|].
    destruct (N.eqb_spec (3 + 2 * N.of_nat i) 1) as [E|_]; [lia|].
    rewrite N.even_add_mul_2. cbn [N.even].
    replace (3 + 2 * N.of_nat i - 3)%N with (N.of_nat i * 2)%N by lia.
    rewrite N.div_mul by lia. rewrite Nat2N.id. reflexivity.
Qed.

Lemma dec_enc n : dec (enc n) = n.
Proof.
  destruct n as [[v lo] hi]. unfold dec, enc.
  rewrite nunpair_npair, nunpair_npair, !dec_enc_ptr. reflexivity.
Qed.

Lemma enc_inj n m : enc n = enc m -> n = m.
Proof. intros E. rewrite <- (dec_enc n), <- (dec_enc m), E. reflexivity. Qed.

Arguments dec : simpl never.
Arguments enc : simpl never.

(* ------------------------------------------------------------------------------------- *)
(* pointers                                                                              *)

Lemma sneg_involutive p : sneg (sneg p) = p.
Proof. destruct p; reflexivity. Qed.

Lemma child_ok_sneg i p : child_ok i (sneg p) <-> child_ok i p.
Proof. destruct p; simpl; tauto. Qed.

Lemma child_ok_le i j p : child_ok i p -> i <= j -> child_ok j p.
Proof. destruct p; simpl; lia. Qed.

Lemma sptr_eqb_eq p q : sptr_eqb p q = true <-> p = q.
Proof.
  destruct p, q; simpl; split; try congruence; try reflexivity;
    try (intros E; apply Nat.eqb_eq in E; congruence);
    intros E; injection E as ->; apply Nat.eqb_refl.
Qed.

Definition idbound (p : sptr) : nat := match p with SReg i | SCompl i => S i | _ => 0 end.

Lemma child_ok_idbound i p : child_ok i p <-> idbound p <= i.
Proof. destruct p; simpl; lia. Qed.

(* ------------------------------------------------------------------------------------- *)
(* unfold: fuel                                                                          *)

Lemma unfold_f_const f a : unfold_f f a STrue = Some BT /\ unfold_f f a SFalse = Some BF.
Proof. destruct f; split; reflexivity. Qed.

Lemma unfold_f_mono a : forall f p t, unfold_f f a p = Some t ->
  forall f', f <= f' -> unfold_f f' a p = Some t.
Proof.
  induction f as [|f IH]; intros p t Hu f' Hle.
  - destruct p; simpl in Hu; try discriminate; destruct f'; exact Hu.
  - destruct f' as [|f']; [lia|].
    destruct p as [| |i|i]; cbn [unfold_f] in Hu |- *; try exact Hu.
    + destruct (nth_error a i) as [e|]; [|discriminate].
      destruct (dec e) as [[v lo] hi].
      destruct (unfold_f f a lo) as [l|] eqn:El; [|discriminate].
      destruct (unfold_f f a hi) as [h|] eqn:Eh; [|discriminate].
      rewrite (IH _ _ El f') by lia. rewrite (IH _ _ Eh f') by lia. exact Hu.
    + destruct (nth_error a i) as [e|]; [|discriminate].
      destruct (dec e) as [[v lo] hi].
      destruct (unfold_f f a lo) as [l|] eqn:El; [|discriminate].
      destruct (unfold_f f a hi) as [h|] eqn:Eh; [|discriminate].
      rewrite (IH _ _ El f') by lia. rewrite (IH _ _ Eh f') by lia. exact Hu.
Qed.

(* one step of the walk *)
Lemma unfold_f_node f a p i e v lo hi :
  p = SReg i \/ p = SCompl i -> nth_error a i = Some e -> dec e = (v, lo, hi) ->
  unfold_f (S f) a p =
  match unfold_f f a lo, unfold_f f a hi with
  | Some l, Some h => Some (BN (s_is_neg p) v l h)
  | _, _ => None
  end.
Proof. intros [-> | ->] Hn Hd; cbn [unfold_f]; rewrite Hn, Hd; reflexivity. Qed.

Lemma wf_arena_nth a i : wf_arena a -> i < length a ->
  exists v lo hi, nth_error a i = Some (enc (v, lo, hi)) /\ child_ok i lo /\ child_ok i hi /\
                  s_is_neg hi = false /\ s_is_false hi = false.
Proof.
  intros Hwf Hi. destruct (nth_error a i) as [e|] eqn:En.
  - destruct (Hwf i e En) as (v & lo & hi & -> & H1 & H2 & H3 & H4). exists v, lo, hi. auto.
  - apply nth_error_None in En. lia.
Qed.

(* totality: in a well-formed arena a pointer's id + 1 units of fuel suffice *)
Lemma unfold_f_total a : wf_arena a ->
  forall f p, ptr_valid a p -> idbound p <= f -> exists t, unfold_f f a p = Some t.
Proof.
  intros Hwf. induction f as [|f IH]; intros p Hv Hb.
  - destruct p; simpl in Hb; try lia; eexists; reflexivity.
  - destruct p as [| |i|i]; try (eexists; reflexivity); unfold ptr_valid in Hv; simpl in Hv, Hb.
    + destruct (wf_arena_nth a i Hwf Hv) as (v & lo & hi & En & Hlo & Hhi & _).
      rewrite (unfold_f_node f a (SReg i) i _ v lo hi (or_introl eq_refl) En (dec_enc _)).
      destruct (IH lo) as [l El]; [eapply child_ok_le; [exact Hlo|lia]|apply child_ok_idbound in Hlo; lia|].
      destruct (IH hi) as [h Eh]; [eapply child_ok_le; [exact Hhi|lia]|apply child_ok_idbound in Hhi; lia|].
      rewrite El, Eh. eexists; reflexivity.
    + destruct (wf_arena_nth a i Hwf Hv) as (v & lo & hi & En & Hlo & Hhi & _).
      rewrite (unfold_f_node f a (SCompl i) i _ v lo hi (or_intror eq_refl) En (dec_enc _)).
      destruct (IH lo) as [l El]; [eapply child_ok_le; [exact Hlo|lia]|apply child_ok_idbound in Hlo; lia|].
      destruct (IH hi) as [h Eh]; [eapply child_ok_le; [exact Hhi|lia]|apply child_ok_idbound in Hhi; lia|].
      rewrite El, Eh. eexists; reflexivity.
Qed.

Lemma unfold_f_enough a f p : wf_arena a -> ptr_valid a p -> idbound p <= f ->
  unfold_f f a p = unfold a p.
Proof.
  intros Hwf Hv Hb. destruct (unfold_f_total a Hwf (idbound p) p Hv (le_n _)) as [t Et].
  unfold unfold. rewrite (unfold_f_mono a _ _ _ Et f Hb).
  rewrite (unfold_f_mono a _ _ _ Et (length a)); [reflexivity|].
  apply child_ok_idbound. exact Hv.
Qed.

Lemma unfold_total a p : wf_arena a -> ptr_valid a p -> exists t, unfold a p = Some t.
Proof.
  intros Hwf Hv. apply unfold_f_total; [exact Hwf|exact Hv|]. apply child_ok_idbound. exact Hv.
Qed.

(* the defining equation of [unfold], free of fuel *)
Lemma unfold_const a : unfold a STrue = Some BT /\ unfold a SFalse = Some BF.
Proof. apply unfold_f_const. Qed.

Lemma unfold_node a p i v lo hi : wf_arena a ->
  p = SReg i \/ p = SCompl i -> nth_error a i = Some (enc (v, lo, hi)) ->
  unfold a p =
  match unfold a lo, unfold a hi with
  | Some l, Some h => Some (BN (s_is_neg p) v l h)
  | _, _ => None
  end.
Proof.
  intros Hwf Hp En.
  assert (Hi : i < length a) by (apply nth_error_Some; congruence).
  destruct (Hwf i _ En) as (v' & lo' & hi' & E & Hlo & Hhi & _).
  apply enc_inj in E. injection E as <- <- <-.
  unfold unfold at 1. destruct (length a) as [|f] eqn:El; [lia|].
  rewrite (unfold_f_node f a p i _ v lo hi Hp En (dec_enc _)).
  rewrite (unfold_f_enough a f lo Hwf), (unfold_f_enough a f hi Hwf); [reflexivity| | | |].
  - unfold ptr_valid. eapply child_ok_le; [exact Hhi|lia].
  - apply child_ok_idbound in Hhi. lia.
  - unfold ptr_valid. eapply child_ok_le; [exact Hlo|lia].
  - apply child_ok_idbound in Hlo. lia.
Qed.

(* inversion *)
Lemma unfold_inv a p t : wf_arena a -> ptr_valid a p -> unfold a p = Some t ->
  match p with
  | STrue => t = BT
  | SFalse => t = BF
  | SReg i | SCompl i =>
    exists v lo hi l h, nth_error a i = Some (enc (v, lo, hi)) /\ child_ok i lo /\ child_ok i hi /\
      unfold a lo = Some l /\ unfold a hi = Some h /\ t = BN (s_is_neg p) v l h
  end.
Proof.
  intros Hwf Hv Hu. destruct p as [| |i|i].
  - rewrite (proj1 (unfold_const a)) in Hu. congruence.
  - rewrite (proj2 (unfold_const a)) in Hu. congruence.
  - destruct (wf_arena_nth a i Hwf Hv) as (v & lo & hi & En & Hlo & Hhi & _).
    rewrite (unfold_node a (SReg i) i v lo hi Hwf (or_introl eq_refl) En) in Hu.
    destruct (unfold a lo) as [l|] eqn:El; [|discriminate]. destruct (unfold a hi) as [h|] eqn:Eh; [|discriminate].
    injection Hu as <-. exists v, lo, hi, l, h. repeat split; auto.
  - destruct (wf_arena_nth a i Hwf Hv) as (v & lo & hi & En & Hlo & Hhi & _).
    rewrite (unfold_node a (SCompl i) i v lo hi Hwf (or_intror eq_refl) En) in Hu.
    destruct (unfold a lo) as [l|] eqn:El; [|discriminate]. destruct (unfold a hi) as [h|] eqn:Eh; [|discriminate].
    injection Hu as <-. exists v, lo, hi, l, h. repeat split; auto.
Qed.

(* negation of a pointer is negation of the tree *)
Lemma unfold_f_sneg a f p : unfold_f f a (sneg p) = option_map neg (unfold_f f a p).
Proof.
  destruct p as [| |i|i]; destruct f as [|f]; try reflexivity; cbn [unfold_f sneg];
    destruct (nth_error a i) as [e|]; try reflexivity;
    destruct (dec e) as [[v lo] hi];
    destruct (unfold_f f a lo); try reflexivity; destruct (unfold_f f a hi); reflexivity.
Qed.
Lemma unfold_sneg a p : unfold a (sneg p) = option_map neg (unfold a p).
Proof. apply unfold_f_sneg. Qed.

(* the polarity tests of a pointer are those of its tree *)
Lemma unfold_f_polarity a f p t : unfold_f f a p = Some t ->
  is_neg t = s_is_neg p /\ is_false t = s_is_false p.
Proof.
  destruct p as [| |i|i]; destruct f as [|f]; cbn [unfold_f]; try discriminate;
    try (intros E; injection E as <-; split; reflexivity);
    destruct (nth_error a i) as [e|]; try discriminate;
    destruct (dec e) as [[v lo] hi];
    destruct (unfold_f f a lo); try discriminate; destruct (unfold_f f a hi); try discriminate;
    intros E; injection E as <-; split; reflexivity.
Qed.

(* appending to the arena changes no unfolding *)
Lemma unfold_f_app a suf : forall f p t, unfold_f f a p = Some t -> unfold_f f (a ++ suf) p = Some t.
Proof.
  induction f as [|f IH]; intros p t Hu.
  - destruct p; cbn [unfold_f] in Hu |- *; congruence.
  - destruct p as [| |i|i]; cbn [unfold_f] in Hu |- *; try exact Hu.
    + destruct (nth_error a i) as [e|] eqn:En; [|discriminate].
      rewrite nth_error_app1 by (apply nth_error_Some; congruence). rewrite En.
      destruct (dec e) as [[v lo] hi].
      destruct (unfold_f f a lo) as [l|] eqn:El; [|discriminate].
      destruct (unfold_f f a hi) as [h|] eqn:Eh; [|discriminate].
      rewrite (IH _ _ El), (IH _ _ Eh). exact Hu.
    + destruct (nth_error a i) as [e|] eqn:En; [|discriminate].
      rewrite nth_error_app1 by (apply nth_error_Some; congruence). rewrite En.
      destruct (dec e) as [[v lo] hi].
      destruct (unfold_f f a lo) as [l|] eqn:El; [|discriminate].
      destruct (unfold_f f a hi) as [h|] eqn:Eh; [|discriminate].
      rewrite (IH _ _ El), (IH _ _ Eh). exact Hu.
Qed.

Lemma unfold_app a suf p t : unfold a p = Some t -> unfold (a ++ suf) p = Some t.
Proof.
  intros Hu. unfold unfold in *. apply (unfold_f_app a suf) in Hu.
  apply (unfold_f_mono _ _ _ _ Hu). rewrite app_length. lia.
Qed.

Lemma ptr_valid_app a suf p : ptr_valid a p -> ptr_valid (a ++ suf) p.
Proof. unfold ptr_valid. intros Hv. eapply child_ok_le; [exact Hv|]. rewrite app_length. lia. Qed.

(* well-formedness is kept by appending a well-formed node *)
Lemma wf_arena_nil : wf_arena [].
Proof. intros i e En. destruct i; discriminate. Qed.

Lemma wf_arena_snoc a e : wf_arena a -> node_ok (length a) e -> wf_arena (a ++ [e]).
Proof.
  intros Hwf Hn i x En. destruct (Nat.lt_ge_cases i (length a)) as [Hi|Hi].
  - rewrite nth_error_app1 in En by exact Hi. exact (Hwf i x En).
  - rewrite nth_error_app2 in En by exact Hi.
    destruct (i - length a) as [|k] eqn:Ek.
    + simpl in En. injection En as <-. replace i with (length a) by lia. exact Hn.
    + simpl in En. destruct k; discriminate.
Qed.

(* ------------------------------------------------------------------------------------- *)
(* MAIN: in a well-formed arena without duplicates, equal unfoldings = equal pointers     *)

Lemma ptr_eq_of_unfold_eq a : wf_arena a -> NoDup a ->
  forall t p q, ptr_valid a p -> ptr_valid a q ->
  unfold a p = Some t -> unfold a q = Some t -> p = q.
Proof.
  intros Hwf Hnd. induction t as [| |c v l IHl h IHh]; intros p q Hvp Hvq Hp Hq.
  - apply (unfold_inv a p _ Hwf Hvp) in Hp. apply (unfold_inv a q _ Hwf Hvq) in Hq.
    destruct p as [| |i|i]; try discriminate; try (destruct Hp as (? & ? & ? & ? & ? & _ & _ & _ & _ & _ & Ht); discriminate);
      destruct q as [| |j|j]; try discriminate; try (destruct Hq as (? & ? & ? & ? & ? & _ & _ & _ & _ & _ & Ht); discriminate).
    reflexivity.
  - apply (unfold_inv a p _ Hwf Hvp) in Hp. apply (unfold_inv a q _ Hwf Hvq) in Hq.
    destruct p as [| |i|i]; try discriminate; try (destruct Hp as (? & ? & ? & ? & ? & _ & _ & _ & _ & _ & Ht); discriminate);
      destruct q as [| |j|j]; try discriminate; try (destruct Hq as (? & ? & ? & ? & ? & _ & _ & _ & _ & _ & Ht); discriminate).
    reflexivity.
  - pose proof (unfold_inv a p _ Hwf Hvp Hp) as Ip. pose proof (unfold_inv a q _ Hwf Hvq Hq) as Iq.
    assert (Hnode : forall p i, p = SReg i \/ p = SCompl i -> ptr_valid a p ->
              (exists v0 lo hi l0 h0, nth_error a i = Some (enc (v0, lo, hi)) /\ child_ok i lo /\ child_ok i hi /\
                 unfold a lo = Some l0 /\ unfold a hi = Some h0 /\ BN c v l h = BN (s_is_neg p) v0 l0 h0) ->
              exists lo hi, nth_error a i = Some (enc (v, lo, hi)) /\ ptr_valid a lo /\ ptr_valid a hi /\
                 unfold a lo = Some l /\ unfold a hi = Some h /\ c = s_is_neg p /\ i < length a).
    { intros p0 i0 Hp0 Hv0 (v0 & lo & hi & l0 & h0 & En & Hlo & Hhi & Ul & Uh & Et).
      injection Et as -> -> -> ->.
      assert (Hi : i0 < length a) by (destruct Hp0 as [-> | ->]; exact Hv0).
      exists lo, hi. repeat split; auto; unfold ptr_valid; eapply child_ok_le; eauto; lia. }
    assert (Hfin : forall i j, (exists lo hi, nth_error a i = Some (enc (v, lo, hi)) /\ ptr_valid a lo /\ ptr_valid a hi /\
                     unfold a lo = Some l /\ unfold a hi = Some h /\ i < length a) ->
                   (exists lo hi, nth_error a j = Some (enc (v, lo, hi)) /\ ptr_valid a lo /\ ptr_valid a hi /\
                     unfold a lo = Some l /\ unfold a hi = Some h /\ j < length a) -> i = j).
    { intros i j (lo & hi & En & Vl & Vh & Ul & Uh & Hi) (lo' & hi' & En' & Vl' & Vh' & Ul' & Uh' & Hj).
      rewrite (IHl lo lo' Vl Vl' Ul Ul'), (IHh hi hi' Vh Vh' Uh Uh') in En.
      apply (proj1 (NoDup_nth_error a) Hnd i j Hi). congruence. }
    destruct p as [| |i|i]; try discriminate; destruct q as [| |j|j]; try discriminate.
    + f_equal. destruct (Hnode _ i (or_introl eq_refl) Hvp Ip) as (lo & hi & H1 & H2 & H3 & H4 & H5 & _ & H7).
      destruct (Hnode _ j (or_introl eq_refl) Hvq Iq) as (lo' & hi' & H1' & H2' & H3' & H4' & H5' & _ & H7').
      apply Hfin; [exists lo, hi|exists lo', hi']; auto 10.
    + destruct (Hnode _ i (or_introl eq_refl) Hvp Ip) as (_ & _ & _ & _ & _ & _ & _ & Hc & _).
      destruct (Hnode _ j (or_intror eq_refl) Hvq Iq) as (_ & _ & _ & _ & _ & _ & _ & Hc' & _).
      simpl in Hc, Hc'. congruence.
    + destruct (Hnode _ i (or_intror eq_refl) Hvp Ip) as (_ & _ & _ & _ & _ & _ & _ & Hc & _).
      destruct (Hnode _ j (or_introl eq_refl) Hvq Iq) as (_ & _ & _ & _ & _ & _ & _ & Hc' & _).
      simpl in Hc, Hc'. congruence.
    + f_equal. destruct (Hnode _ i (or_intror eq_refl) Hvp Ip) as (lo & hi & H1 & H2 & H3 & H4 & H5 & _ & H7).
      destruct (Hnode _ j (or_intror eq_refl) Hvq Iq) as (lo' & hi' & H1' & H2' & H3' & H4' & H5' & _ & H7').
      apply Hfin; [exists lo, hi|exists lo', hi']; auto 10.
Qed.

(* ------------------------------------------------------------------------------------- *)
(* one request                                                                           *)

Section WithHash.
Variable H : N -> N.

(* the store invariant: the table invariant of Proofs/RobinHood.v (which contains "no two arena
   slots hold the same element") and well-formedness of the arena *)
Definition store_inv (t : table) : Prop := TI H t /\ wf_arena (arena t).

Lemma store_inv_new c : 1 <= c -> store_inv (new_table c).
Proof. intros Hc. split; [apply TI_new; exact Hc|apply wf_arena_nil]. Qed.

(* the unique table's get_or_insert on a node that is in normal form with valid children *)
Lemma table_goi_spec t v lo hi : store_inv t ->
  ptr_valid (arena t) lo -> ptr_valid (arena t) hi -> s_is_neg hi = false -> s_is_false hi = false ->
  table_get_or_insert H t (v, lo, hi) <> OutOfFuel /\
  forall id t', table_get_or_insert H t (v, lo, hi) = Ok (id, t') ->
    store_inv t' /\ (exists suf, arena t' = arena t ++ suf) /\
    nth_error (arena t') id = Some (enc (v, lo, hi)).
Proof.
  intros [HTI Hwf] Hlo Hhi Hn Hf. unfold table_get_or_insert.
  destruct (goi_spec H t (enc (v, lo, hi)) HTI) as [Hnf Hres]. split; [exact Hnf|].
  intros id t' E. destruct (Hres id t' E) as (HTI' & Hid & Hnth & Hcase).
  assert (Hne : nth_error (arena t') id = Some (enc (v, lo, hi))).
  { rewrite (nth_error_nth' _ 0%N Hid). rewrite Hnth. reflexivity. }
  destruct Hcase as [(_ & Ha & _)|(_ & Ha & _ & _)].
  - split; [split; [exact HTI'|rewrite Ha; exact Hwf]|]. split; [exists []; rewrite app_nil_r; exact Ha|exact Hne].
  - split; [split; [exact HTI'|]|split; [exists [enc (v, lo, hi)]; exact Ha|exact Hne]].
    rewrite Ha. apply wf_arena_snoc; [exact Hwf|]. exists v, lo, hi. auto.
Qed.

(* RobddBuilder::get_or_insert: never out of fuel; if it returns, the store invariant holds
   again, the arena was only appended to, the result is valid and unfolds to the tree layer's
   mk_node of the unfoldings of the children *)
Lemma get_or_insert_s_spec t v lo hi : store_inv t ->
  ptr_valid (arena t) lo -> ptr_valid (arena t) hi ->
  get_or_insert_s H t v lo hi <> OutOfFuel /\
  forall p t', get_or_insert_s H t v lo hi = Ok (p, t') ->
    store_inv t' /\ (exists suf, arena t' = arena t ++ suf) /\ ptr_valid (arena t') p /\
    exists l h, unfold (arena t) lo = Some l /\ unfold (arena t) hi = Some h /\
                unfold (arena t') p = Some (mk_node v l h).
Proof.
  intros Hinv Hlo Hhi. pose proof Hinv as [HTI Hwf].
  destruct (unfold_total _ lo Hwf Hlo) as [l Ul]. destruct (unfold_total _ hi Hwf Hhi) as [h Uh].
  destruct (unfold_f_polarity _ _ _ _ Uh) as [Pn Pf].
  unfold get_or_insert_s. destruct (s_is_neg hi || s_is_false hi) eqn:Eb.
  - assert (Hn' : s_is_neg (sneg hi) = false /\ s_is_false (sneg hi) = false).
    { destruct hi; simpl in Eb |- *; try discriminate; auto. }
    destruct Hn' as [Hn' Hf'].
    destruct (table_goi_spec t v (sneg lo) (sneg hi) Hinv) as [Hnf Hres];
      [apply child_ok_sneg; exact Hlo|apply child_ok_sneg; exact Hhi|exact Hn'|exact Hf'|].
    destruct (table_get_or_insert H t (v, sneg lo, sneg hi)) as [[id t1]| |];
      [|split; [discriminate|intros p t' E; discriminate]|congruence].
    split; [discriminate|]. intros p t' E. injection E as <- <-.
    destruct (Hres id t1 eq_refl) as (Hinv1 & [suf Hsuf] & Hne).
    split; [exact Hinv1|]. split; [exists suf; exact Hsuf|].
    assert (Hid : id < length (arena t1)) by (apply nth_error_Some; congruence).
    split; [exact Hid|]. exists l, h. split; [exact Ul|]. split; [exact Uh|].
    rewrite (unfold_node (arena t1) (SCompl id) id v (sneg lo) (sneg hi) (proj2 Hinv1) (or_intror eq_refl) Hne).
    rewrite !unfold_sneg. rewrite Hsuf.
    rewrite (unfold_app _ suf _ _ Ul), (unfold_app _ suf _ _ Uh). cbn [option_map s_is_neg].
    unfold mk_node. rewrite Pn, Pf, Eb. reflexivity.
  - apply orb_false_iff in Eb. destruct Eb as [Hn Hf].
    destruct (table_goi_spec t v lo hi Hinv Hlo Hhi Hn Hf) as [Hnf Hres].
    destruct (table_get_or_insert H t (v, lo, hi)) as [[id t1]| |];
      [|split; [discriminate|intros p t' E; discriminate]|congruence].
    split; [discriminate|]. intros p t' E. injection E as <- <-.
    destruct (Hres id t1 eq_refl) as (Hinv1 & [suf Hsuf] & Hne).
    split; [exact Hinv1|]. split; [exists suf; exact Hsuf|].
    assert (Hid : id < length (arena t1)) by (apply nth_error_Some; congruence).
    split; [exact Hid|]. exists l, h. split; [exact Ul|]. split; [exact Uh|].
    rewrite (unfold_node (arena t1) (SReg id) id v lo hi (proj2 Hinv1) (or_introl eq_refl) Hne).
    rewrite Hsuf.
    rewrite (unfold_app _ suf _ _ Ul), (unfold_app _ suf _ _ Uh). cbn [s_is_neg].
    unfold mk_node. rewrite Pn, Pf, Hn, Hf. reflexivity.
Qed.

(* ------------------------------------------------------------------------------------- *)
(* histories                                                                             *)

Lemma step_inv t t' : store_inv t -> step H t t' ->
  store_inv t' /\ exists suf, arena t' = arena t ++ suf.
Proof.
  intros Hinv Hs. destruct Hs as [t v lo hi p t' Hlo Hhi E].
  destruct (get_or_insert_s_spec t v lo hi Hinv Hlo Hhi) as [_ Hres].
  destruct (Hres p t' E) as (Hinv' & Hsuf & _). auto.
Qed.

Lemma steps_inv t t' : store_inv t -> steps H t t' ->
  store_inv t' /\ exists suf, arena t' = arena t ++ suf.
Proof.
  intros Hinv Hs. induction Hs as [t|t t1 t2 Hs IH Hst].
  - split; [exact Hinv|exists []; rewrite app_nil_r; reflexivity].
  - destruct (IH Hinv) as [Hinv1 [suf1 E1]]. destruct (step_inv t1 t2 Hinv1 Hst) as [Hinv2 [suf2 E2]].
    split; [exact Hinv2|]. exists (suf1 ++ suf2). rewrite E2, E1, app_assoc. reflexivity.
Qed.

Lemma steps_trans t1 t2 t3 : steps H t1 t2 -> steps H t2 t3 -> steps H t1 t3.
Proof.
  intros H12 H23. induction H23 as [t|t ta tb Hs IH Hst]; [exact H12|].
  eapply steps_snoc; [apply IH; exact H12|exact Hst].
Qed.

Lemma reachable_inv c t : 1 <= c -> reachable H c t -> store_inv t.
Proof. intros Hc Hr. apply (steps_inv (new_table c) t (store_inv_new c Hc) Hr). Qed.

(* later requests change neither the validity nor the unfolding of a pointer *)
Lemma steps_stable t t' p : store_inv t -> steps H t t' -> ptr_valid (arena t) p ->
  ptr_valid (arena t') p /\ unfold (arena t') p = unfold (arena t) p.
Proof.
  intros Hinv Hs Hv. destruct (steps_inv t t' Hinv Hs) as [_ [suf E]]. rewrite E.
  split; [apply ptr_valid_app; exact Hv|].
  destruct (unfold_total _ p (proj2 Hinv) Hv) as [tr U]. rewrite U. apply unfold_app. exact U.
Qed.

(* pointer identity is structural identity of unfoldings *)
Lemma inv_ptr_eq_iff_tree_eq t p q : store_inv t -> ptr_valid (arena t) p -> ptr_valid (arena t) q ->
  (p = q <-> unfold (arena t) p = unfold (arena t) q).
Proof.
  intros [HTI Hwf] Hp Hq. split; [intros ->; reflexivity|]. intros E.
  destruct (unfold_total _ p Hwf Hp) as [tr U].
  assert (Hnd : NoDup (arena t)) by (destruct HTI as (_ & _ & _ & _ & _ & Hnd & _); exact Hnd).
  apply (ptr_eq_of_unfold_eq (arena t) Hwf Hnd tr p q Hp Hq U). rewrite <- E. exact U.
Qed.

End WithHash.

(* ------------------------------------------------------------------------------------- *)
(* the linking theorems, for stores reachable from the empty table                        *)

Theorem store_wf : forall (H : N -> N) (c : nat) (t : table),
  1 <= c -> reachable H c t ->
  wf_arena (arena t) /\ NoDup (arena t) /\
  forall p, ptr_valid (arena t) p -> exists tr, unfold (arena t) p = Some tr.
Proof.
  intros H c t Hc Hr. destruct (reachable_inv H c t Hc Hr) as [HTI Hwf].
  split; [exact Hwf|]. split; [destruct HTI as (_ & _ & _ & _ & _ & Hnd & _); exact Hnd|].
  intros p Hp. apply unfold_total; assumption.
Qed.

Theorem store_mk_node : forall (H : N -> N) (c : nat) (t : table) (v : var) (lo hi : sptr),
  1 <= c -> reachable H c t -> ptr_valid (arena t) lo -> ptr_valid (arena t) hi ->
  get_or_insert_s H t v lo hi <> OutOfFuel /\
  forall p t', get_or_insert_s H t v lo hi = Ok (p, t') ->
    reachable H c t' /\ ptr_valid (arena t') p /\
    exists l h, unfold (arena t) lo = Some l /\ unfold (arena t) hi = Some h /\
                unfold (arena t') p = Some (mk_node v l h).
Proof.
  intros H c t v lo hi Hc Hr Hlo Hhi.
  destruct (get_or_insert_s_spec H t v lo hi (reachable_inv H c t Hc Hr) Hlo Hhi) as [Hnf Hres].
  split; [exact Hnf|]. intros p t' E. destruct (Hres p t' E) as (_ & _ & Hv & Hex).
  split; [|split; [exact Hv|exact Hex]].
  eapply steps_snoc; [exact Hr|]. exact (step_goi H t v lo hi p t' Hlo Hhi E).
Qed.

Theorem store_ptr_eq_iff_tree_eq : forall (H : N -> N) (c : nat) (t : table) (p q : sptr),
  1 <= c -> reachable H c t -> ptr_valid (arena t) p -> ptr_valid (arena t) q ->
  (p = q <-> unfold (arena t) p = unfold (arena t) q).
Proof.
  intros H c t p q Hc Hr. apply (inv_ptr_eq_iff_tree_eq H). exact (reachable_inv H c t Hc Hr).
Qed.

Theorem store_stable : forall (H : N -> N) (c : nat) (t t' : table) (p : sptr),
  1 <= c -> reachable H c t -> steps H t t' -> ptr_valid (arena t) p ->
  ptr_valid (arena t') p /\ unfold (arena t') p = unfold (arena t) p.
Proof.
  intros H c t t' p Hc Hr. apply (steps_stable H). exact (reachable_inv H c t Hc Hr).
Qed.

(* across time: a pointer obtained in store t and one obtained in a later store t' *)
Theorem store_ptr_eq_iff_tree_eq_later : forall (H : N -> N) (c : nat) (t t' : table) (p q : sptr),
  1 <= c -> reachable H c t -> steps H t t' -> ptr_valid (arena t) p -> ptr_valid (arena t') q ->
  (p = q <-> unfold (arena t) p = unfold (arena t') q).
Proof.
  intros H c t t' p q Hc Hr Hs Hp Hq.
  destruct (store_stable H c t t' p Hc Hr Hs Hp) as [Hp' E]. rewrite <- E.
  apply (store_ptr_eq_iff_tree_eq H c t'); auto. exact (steps_trans H _ _ _ Hr Hs).
Qed.

(* ------------------------------------------------------------------------------------- *)
(* request lists: the store-level run simulates the tree-level run                        *)

Lemma resolve_valid a pool x : Forall (ptr_valid a) pool -> ptr_valid a (resolve pool x).
Proof.
  intros Hall. assert (Hn : forall k, ptr_valid a (nth k pool STrue)).
  { intros k. destruct (nth_in_or_default k pool STrue) as [Hin| ->]; [|exact I].
    exact (proj1 (Forall_forall _ _) Hall _ Hin). }
  destruct x as [| |k|k]; simpl; try exact I; [apply Hn|apply child_ok_sneg; apply Hn].
Qed.

Lemma resolve_unfold a pool trees x : map (unfold a) pool = map Some trees ->
  unfold a (resolve pool x) = Some (resolve_t trees x).
Proof.
  intros E. assert (Hn : forall k, unfold a (nth k pool STrue) = Some (nth k trees BT)).
  { intros k. rewrite <- (map_nth (unfold a)), E. rewrite (proj1 (unfold_const a)).
    rewrite (map_nth Some). reflexivity. }
  destruct x as [| |k|k]; simpl; try apply unfold_const; [apply Hn|].
  rewrite unfold_sneg, Hn. reflexivity.
Qed.

Lemma run_tree_length : forall rs trees, length (run_tree trees rs) = length trees + length rs.
Proof.
  induction rs as [|[[v lo] hi] r IH]; intros trees; simpl; [lia|].
  rewrite IH, app_length. simpl. lia.
Qed.

Lemma run_s_spec H : forall rs t pool, store_inv H t -> Forall (ptr_valid (arena t)) pool ->
  run_s H t pool rs <> OutOfFuel /\
  forall pool' t', run_s H t pool rs = Ok (pool', t') ->
    steps H t t' /\ Forall (ptr_valid (arena t')) pool' /\
    forall trees, map (unfold (arena t)) pool = map Some trees ->
      map (unfold (arena t')) pool' = map Some (run_tree trees rs).
Proof.
  induction rs as [|[[v lo] hi] r IH]; intros t pool Hinv Hall.
  - cbn [run_s]. split; [discriminate|]. intros pool' t' E. injection E as <- <-.
    split; [apply steps_refl|]. split; [exact Hall|]. intros trees Et. exact Et.
  - cbn [run_s].
    pose proof (resolve_valid _ pool lo Hall) as Hlo. pose proof (resolve_valid _ pool hi Hall) as Hhi.
    destruct (get_or_insert_s_spec H t v _ _ Hinv Hlo Hhi) as [Hnf Hres].
    destruct (get_or_insert_s H t v (resolve pool lo) (resolve pool hi)) as [[p t1]| |] eqn:Eg;
      [|split; [discriminate|intros pool' t' E; discriminate]|congruence].
    destruct (Hres p t1 eq_refl) as (Hinv1 & [suf Hsuf] & Hvp & l & h & Ul & Uh & Up).
    assert (Hst : steps H t t1).
    { eapply steps_snoc; [apply steps_refl|]. exact (step_goi H t v _ _ p t1 Hlo Hhi Eg). }
    assert (Hall1 : Forall (ptr_valid (arena t1)) (pool ++ [p])).
    { apply Forall_app. split; [|constructor; [exact Hvp|constructor]].
      eapply Forall_impl; [|exact Hall]. intros x Hx. rewrite Hsuf. apply ptr_valid_app. exact Hx. }
    destruct (IH t1 (pool ++ [p]) Hinv1 Hall1) as [Hnf2 Hres2]. split; [exact Hnf2|].
    intros pool' t' E. destruct (Hres2 pool' t' E) as (Hst2 & Hall2 & Htr).
    split; [exact (steps_trans H _ _ _ Hst Hst2)|]. split; [exact Hall2|].
    intros trees Et. cbn [run_tree]. apply Htr.
    rewrite !map_app. cbn [map]. rewrite Up. f_equal.
    + rewrite <- Et. apply map_ext_in. intros x Hx.
      apply (steps_stable H t t1 x Hinv Hst). exact (proj1 (Forall_forall _ _) Hall _ Hx).
    + rewrite (resolve_unfold _ pool trees lo Et) in Ul. rewrite (resolve_unfold _ pool trees hi Et) in Uh.
      injection Ul as <-. injection Uh as <-. reflexivity.
Qed.

(* a request list run from the empty table: the final store is reachable, every result is valid
   in it and unfolds to the result of the same request list on the tree layer *)
Theorem run_s_refines_tree : forall (H : N -> N) (c : nat) (rs : list request) (pool : list sptr) (t : table),
  1 <= c -> run_s H (new_table c) [] rs = Ok (pool, t) ->
  reachable H c t /\ length pool = length rs /\ Forall (ptr_valid (arena t)) pool /\
  map (unfold (arena t)) pool = map Some (run_tree [] rs).
Proof.
  intros H c rs pool t Hc E.
  destruct (run_s_spec H rs (new_table c) [] (store_inv_new H c Hc) (Forall_nil _)) as [_ Hres].
  destruct (Hres pool t E) as (Hst & Hall & Htr). specialize (Htr [] eq_refl).
  split; [exact Hst|]. split; [|split; [exact Hall|exact Htr]].
  apply (f_equal (@length _)) in Htr. rewrite !map_length, run_tree_length in Htr. exact Htr.
Qed.

Theorem run_s_never_out_of_fuel : forall (H : N -> N) (c : nat) (rs : list request),
  1 <= c -> run_s H (new_table c) [] rs <> OutOfFuel.
Proof.
  intros H c rs Hc.
  apply (run_s_spec H rs (new_table c) [] (store_inv_new H c Hc) (Forall_nil _)).
Qed.

(* results i and j are the same pointer iff the tree-level results are the same tree *)
Theorem run_s_ptr_eq_iff : forall (H : N -> N) (c : nat) (rs : list request) (pool : list sptr) (t : table),
  1 <= c -> run_s H (new_table c) [] rs = Ok (pool, t) ->
  forall i j, i < length rs -> j < length rs ->
    (nth i pool STrue = nth j pool STrue <-> nth i (run_tree [] rs) BT = nth j (run_tree [] rs) BT).
Proof.
  intros H c rs pool t Hc E i j Hi Hj.
  destruct (run_s_refines_tree H c rs pool t Hc E) as (Hr & Hlen & Hall & Htr).
  assert (Hn : forall k, k < length rs ->
            ptr_valid (arena t) (nth k pool STrue) /\
            unfold (arena t) (nth k pool STrue) = Some (nth k (run_tree [] rs) BT)).
  { intros k Hk. split.
    - apply (proj1 (Forall_forall _ _) Hall). apply nth_In. lia.
    - rewrite <- (map_nth (unfold (arena t))), Htr. rewrite (proj1 (unfold_const _)).
      rewrite (map_nth Some). reflexivity. }
  destruct (Hn i Hi) as [Vi Ui]. destruct (Hn j Hj) as [Vj Uj].
  rewrite (store_ptr_eq_iff_tree_eq H c t _ _ Hc Hr Vi Vj), Ui, Uj.
  split; [intros E'; injection E' as ->; reflexivity|intros ->; reflexivity].
Qed.

(* hence the identity classes of the results depend neither on the hash function nor on the
   initial capacity *)
Theorem run_s_classes_hash_independent :
  forall (H1 H2 : N -> N) (c1 c2 : nat) (rs : list request) (pool1 pool2 : list sptr) (t1 t2 : table),
  1 <= c1 -> 1 <= c2 ->
  run_s H1 (new_table c1) [] rs = Ok (pool1, t1) -> run_s H2 (new_table c2) [] rs = Ok (pool2, t2) ->
  forall i j, i < length rs -> j < length rs ->
    (nth i pool1 STrue = nth j pool1 STrue <-> nth i pool2 STrue = nth j pool2 STrue).
Proof.
  intros H1 H2 c1 c2 rs pool1 pool2 t1 t2 Hc1 Hc2 E1 E2 i j Hi Hj.
  rewrite (run_s_ptr_eq_iff H1 c1 rs pool1 t1 Hc1 E1 i j Hi Hj).
  rewrite (run_s_ptr_eq_iff H2 c2 rs pool2 t2 Hc2 E2 i j Hi Hj). tauto.
Qed.
