(* Correctness of the SDD apply: for every vtree with distinct leaves, every sound apply-cache
   oracle, both compression settings: and_m returns (never runs out of fuel [vheight + 1], never
   reaches a panic) a pointer that satisfies the builder invariant and denotes the conjunction. *)
From Coq Require Import Bool NArith List Lia Arith Permutation.
Import ListNotations.
From RsddV Require Import Base.Bdd Base.Util Model.SddVtree Model.SddOps Proofs.SddBase.
From RsddV Require Import Proofs.SddVtree Proofs.SddInv Proofs.SddLoops Proofs.SddNode.

Section And.
Variable t : vtree.
Hypothesis ND : NoDup (vleaves t).
Variable cm : bool.
Variable cache : sdd -> sdd -> option sdd.

(* what an apply cache may answer: for operands inside a sub-vtree, something inside the same
   sub-vtree that denotes the conjunction *)
Definition cache_sound : Prop :=
  forall a b x, cache a b = Some x ->
  forall u off, occurs t 0 u off -> under u off a -> under u off b -> under u off x /\ sem_and x a b.
Hypothesis CSound : cache_sound.

Lemma sem_and_comm r x y : sem_and r x y -> sem_and r y x.
Proof. intros H a. rewrite H. apply andb_comm. Qed.

Lemma nonconst_of_tests x : s_is_true x = false -> s_is_false x = false -> s_is_const x = false.
Proof. destruct x; simpl; congruence. Qed.

(* the part of and_body after the base cases and the operand swap *)
Definition dispatch (andf : sdd -> sdd -> res sdd) (a b : sdd) : res sdd :=
  match cache a b with
  | Some x => Ok x
  | None =>
    let av := vidx t a in
    let bv := vidx t b in
    let l := lca t av bv in
    if Nat.eqb av bv then and_cartesian t cm andf a b l
    else if Nat.eqb l av then and_sub_desc cm andf a b
    else if Nat.eqb l bv then and_prime_desc t cm andf b a
    else and_indep t a b l
  end.

Lemma and_body_unfold_pre andf x y :
  s_is_true x = false -> s_is_true y = false -> s_is_false x = false -> s_is_false y = false ->
  sdd_eqb x y = false -> sdd_eqb x (sneg y) = false ->
  and_body t cm cache andf x y =
  if Nat.eqb (vidx t x) (vidx t y) || is_prime_index (vidx t x) (vidx t y) then dispatch andf x y else dispatch andf y x.
Proof.
  intros H1 H2 H3 H4 H5 H6. unfold and_body. rewrite H1, H2, H3, H4, H5, H6.
  destruct (Nat.eqb (vidx t x) (vidx t y) || is_prime_index (vidx t x) (vidx t y)); reflexivity.
Qed.

Section AtNode.
Variables l r : vtree.
Variable off : nat.
Hypothesis Ho : occurs t 0 (VNode l r) off.
Variable andf : sdd -> sdd -> res sdd.
Hypothesis GP : good andf (under l off).
Hypothesis GS : good andf (under r (S (off + vsize l))).
Notation m := (off + vsize l).

Lemma idx_l x : under l off x -> s_is_const x = false -> off <= vidx t x < m.
Proof. intros H NC. apply (vidx_range t ND l off x (occurs_left _ _ _ _ _ Ho) H NC). Qed.
Lemma idx_r x : under r (S m) x -> s_is_const x = false -> S m <= vidx t x < S m + vsize r.
Proof. intros H NC. apply (vidx_range t ND r (S m) x (occurs_right _ _ _ _ _ Ho) H NC). Qed.
Lemma idx_m x : at_node l r off x -> vidx t x = m.
Proof. apply vidx_at_node. Qed.

Lemma lca_m i j : off <= i < off + vsize (VNode l r) -> off <= j < off + vsize (VNode l r) ->
  ~ (i < m /\ j < m) -> ~ (m < i /\ m < j) -> lca t i j = m.
Proof. intros. apply (lca_from_occurs t 0 l r off i j Ho); auto. Qed.

Lemma dispatch_ok a b :
  (at_node l r off a \/ (under l off a /\ s_is_const a = false)) ->
  (at_node l r off b \/ (under r (S m) b /\ s_is_const b = false)) ->
  exists x, dispatch andf a b = Ok x /\ under (VNode l r) off x /\ sem_and x a b.
Proof.
  intros Ha Hb. unfold dispatch.
  assert (Ua : under (VNode l r) off a) by (destruct Ha as [Ha|[Ha _]]; [apply at_node_under; auto | apply U_L; auto]).
  assert (Ub : under (VNode l r) off b) by (destruct Hb as [Hb|[Hb _]]; [apply at_node_under; auto | apply U_R; auto]).
  destruct (cache a b) as [x|] eqn:Ec.
  { exists x. split; [reflexivity|]. apply (CSound a b x Ec _ _ Ho Ua Ub). }
  pose proof (vsize_pos l) as Pl. pose proof (vsize_pos r) as Pr.
  destruct Ha as [Ha|[Ha NCa]]; destruct Hb as [Hb|[Hb NCb]].
  - rewrite (idx_m a Ha), (idx_m b Hb), Nat.eqb_refl.
    rewrite lca_m; simpl; try lia.
    eapply and_cartesian_spec; eauto.
  - pose proof (idx_r b Hb NCb) as Rb. rewrite (idx_m a Ha).
    destruct (Nat.eqb_spec m (vidx t b)); [lia|].
    rewrite lca_m; simpl; try lia. rewrite Nat.eqb_refl.
    eapply and_sub_desc_spec; eauto.
  - pose proof (idx_l a Ha NCa) as Ra. rewrite (idx_m b Hb).
    destruct (Nat.eqb_spec (vidx t a) m); [lia|].
    rewrite lca_m; simpl; try lia.
    destruct (Nat.eqb_spec m (vidx t a)); [lia|]. rewrite Nat.eqb_refl.
    edestruct (and_prime_desc_spec t cm l r off) as (x & Ex & Ux & Sx); [exact Ho | exact GP | exact GS | exact Hb | exact Ha |].
    exists x. repeat split; auto. apply sem_and_comm; auto.
  - pose proof (idx_l a Ha NCa) as Ra. pose proof (idx_r b Hb NCb) as Rb.
    destruct (Nat.eqb_spec (vidx t a) (vidx t b)); [lia|].
    rewrite lca_m; simpl; try lia.
    destruct (Nat.eqb_spec m (vidx t a)); [lia|].
    destruct (Nat.eqb_spec m (vidx t b)); [lia|].
    eapply and_indep_spec; eauto.
Qed.

(* which apply case the dispatch takes, from the positions of the operands *)
Definition loc_l (a : sdd) : Prop := at_node l r off a \/ (under l off a /\ s_is_const a = false).
Definition loc_r (b : sdd) : Prop := at_node l r off b \/ (under r (S m) b /\ s_is_const b = false).

Lemma dispatch_cases a b : loc_l a -> loc_r b -> cache a b = None ->
  (at_node l r off a /\ at_node l r off b /\ dispatch andf a b = and_cartesian t cm andf a b m) \/
  (at_node l r off a /\ under r (S m) b /\ s_is_const b = false /\ dispatch andf a b = and_sub_desc cm andf a b) \/
  (under l off a /\ s_is_const a = false /\ at_node l r off b /\ dispatch andf a b = and_prime_desc t cm andf b a) \/
  (under l off a /\ s_is_const a = false /\ under r (S m) b /\ s_is_const b = false /\
   dispatch andf a b = and_indep t a b m).
Proof.
  intros Ha Hb Ec. unfold dispatch. rewrite Ec.
  pose proof (vsize_pos l) as Pl. pose proof (vsize_pos r) as Pr.
  destruct Ha as [Ha|[Ha NCa]]; destruct Hb as [Hb|[Hb NCb]].
  - left. repeat split; auto. rewrite (idx_m a Ha), (idx_m b Hb), Nat.eqb_refl.
    rewrite lca_m; simpl; try lia. reflexivity.
  - right; left. repeat split; auto.
    pose proof (idx_r b Hb NCb) as Rb. rewrite (idx_m a Ha).
    destruct (Nat.eqb_spec m (vidx t b)); [lia|].
    rewrite lca_m; simpl; try lia. rewrite Nat.eqb_refl. reflexivity.
  - right; right; left. repeat split; auto.
    pose proof (idx_l a Ha NCa) as Ra. rewrite (idx_m b Hb).
    destruct (Nat.eqb_spec (vidx t a) m); [lia|].
    rewrite lca_m; simpl; try lia.
    destruct (Nat.eqb_spec m (vidx t a)); [lia|]. rewrite Nat.eqb_refl. reflexivity.
  - right; right; right. repeat split; auto.
    pose proof (idx_l a Ha NCa) as Ra. pose proof (idx_r b Hb NCb) as Rb.
    destruct (Nat.eqb_spec (vidx t a) (vidx t b)); [lia|].
    rewrite lca_m; simpl; try lia.
    destruct (Nat.eqb_spec m (vidx t a)); [lia|].
    destruct (Nat.eqb_spec m (vidx t b)); [lia|]. reflexivity.
Qed.

(* which operands reach the dispatch, and in which order *)
Lemma and_body_locate x y :
  s_is_true x = false -> s_is_true y = false -> s_is_false x = false -> s_is_false y = false ->
  sdd_eqb x y = false -> sdd_eqb x (sneg y) = false ->
  under (VNode l r) off x -> under (VNode l r) off y ->
  (under l off x /\ under l off y) \/ (under r (S m) x /\ under r (S m) y) \/
  exists a b, ((a = x /\ b = y) \/ (a = y /\ b = x)) /\
              and_body t cm cache andf x y = dispatch andf a b /\ loc_l a /\ loc_r b.
Proof.
  intros T1 T2 F1 F2 E1 E2 Ux Uy.
  rewrite (and_body_unfold_pre andf x y T1 T2 F1 F2 E1 E2).
  assert (NCx : s_is_const x = false) by (destruct x; simpl in *; congruence).
  assert (NCy : s_is_const y = false) by (destruct y; simpl in *; congruence).
  pose proof (vsize_pos l) as Pl. pose proof (vsize_pos r) as Pr.
  unfold loc_l, loc_r.
  destruct (under_node_inv _ _ _ _ Ux NCx) as [Ax|[Lx|Rx]];
  destruct (under_node_inv _ _ _ _ Uy NCy) as [Ay|[Ly|Ry]]; auto.
  - right; right. exists x, y. rewrite (idx_m x Ax), (idx_m y Ay), Nat.eqb_refl. simpl. auto 10.
  - right; right. exists y, x. pose proof (idx_l y Ly NCy) as Ry'. rewrite (idx_m x Ax).
    destruct (Nat.eqb_spec m (vidx t y)); [lia|].
    unfold is_prime_index. destruct (Nat.ltb_spec m (vidx t y)); [lia|]. simpl. auto 10.
  - right; right. exists x, y. pose proof (idx_r y Ry NCy) as Ry'. rewrite (idx_m x Ax).
    destruct (Nat.eqb_spec m (vidx t y)); [lia|].
    unfold is_prime_index. destruct (Nat.ltb_spec m (vidx t y)); [|lia]. simpl. auto 10.
  - right; right. exists x, y. pose proof (idx_l x Lx NCx) as Rx'. rewrite (idx_m y Ay).
    destruct (Nat.eqb_spec (vidx t x) m); [lia|].
    unfold is_prime_index. destruct (Nat.ltb_spec (vidx t x) m); [|lia]. simpl. auto 10.
  - right; right. exists x, y. pose proof (idx_l x Lx NCx) as Rx'. pose proof (idx_r y Ry NCy) as Ry'.
    destruct (Nat.eqb_spec (vidx t x) (vidx t y)); [lia|].
    unfold is_prime_index. destruct (Nat.ltb_spec (vidx t x) (vidx t y)); [|lia]. simpl. auto 10.
  - right; right. exists y, x. pose proof (idx_r x Rx NCx) as Rx'. rewrite (idx_m y Ay).
    destruct (Nat.eqb_spec (vidx t x) m); [lia|].
    unfold is_prime_index. destruct (Nat.ltb_spec (vidx t x) m); [lia|]. simpl. auto 10.
  - right; right. exists y, x. pose proof (idx_r x Rx NCx) as Rx'. pose proof (idx_l y Ly NCy) as Ry'.
    destruct (Nat.eqb_spec (vidx t x) (vidx t y)); [lia|].
    unfold is_prime_index. destruct (Nat.ltb_spec (vidx t x) (vidx t y)); [lia|]. simpl. auto 10.
Qed.
End AtNode.

Lemma and_body_unfold andf x y :
  s_is_true x = false -> s_is_true y = false -> s_is_false x = false -> s_is_false y = false ->
  sdd_eqb x y = false -> sdd_eqb x (sneg y) = false ->
  and_body t cm cache andf x y =
  if Nat.eqb (vidx t x) (vidx t y) || is_prime_index (vidx t x) (vidx t y) then dispatch andf x y else dispatch andf y x.
Proof.
  intros H1 H2 H3 H4 H5 H6. unfold and_body. rewrite H1, H2, H3, H4, H5, H6.
  destruct (Nat.eqb (vidx t x) (vidx t y) || is_prime_index (vidx t x) (vidx t y)); reflexivity.
Qed.

Ltac fin := repeat split; auto; try constructor;
  try (intros a; simpl; rewrite ?andb_true_r, ?andb_false_r; auto).

Theorem and_m_good : forall fuel u off, occurs t 0 u off -> vheight u < fuel ->
  good (and_m t cm cache fuel) (under u off).
Proof.
  induction fuel as [|fuel IHf]; intros u off Ho Hh; [lia|].
  cbn [and_m]. set (andf := and_m t cm cache fuel) in *.
  revert off Ho Hh. induction u as [v|l IHl r IHr]; intros off Ho Hh x y Ux Uy.
  - (* everything under a leaf is a constant or one of its two literals: base cases only *)
    unfold and_body.
    destruct (s_is_true x) eqn:T1.
    { apply s_is_true_eq in T1; subst. exists y. fin. }
    destruct (s_is_true y) eqn:T2.
    { apply s_is_true_eq in T2; subst. exists x. fin. }
    destruct (s_is_false x) eqn:F1.
    { apply s_is_false_eq in F1; subst. exists SF. fin. }
    destruct (s_is_false y) eqn:F2.
    { apply s_is_false_eq in F2; subst. exists SF. fin. }
    apply under_leaf_inv in Ux, Uy.
    destruct Ux as [->|[->|[p ->]]]; try discriminate. destruct Uy as [->|[->|[q ->]]]; try discriminate.
    destruct p, q; simpl; rewrite N.eqb_refl; simpl; eexists; (split; [reflexivity|]);
      (split; [constructor; simpl; auto|]); intros a; simpl; destruct (a v); reflexivity.
  - unfold and_body.
    destruct (s_is_true x) eqn:T1.
    { apply s_is_true_eq in T1; subst. exists y. fin. }
    destruct (s_is_true y) eqn:T2.
    { apply s_is_true_eq in T2; subst. exists x. fin. }
    destruct (s_is_false x) eqn:F1.
    { apply s_is_false_eq in F1; subst. exists SF. fin. }
    destruct (s_is_false y) eqn:F2.
    { apply s_is_false_eq in F2; subst. exists SF. fin. }
    destruct (sdd_eqb x y) eqn:E1.
    { apply sdd_eqb_eq in E1; subst. exists y. repeat split; auto. intros a. destruct (sden y a); reflexivity. }
    destruct (sdd_eqb x (sneg y)) eqn:E2.
    { apply sdd_eqb_eq in E2; subst. exists SF. repeat split; auto. constructor.
      intros a. rewrite sden_sneg. destruct (sden y a); reflexivity. }
    fold (and_body t cm cache andf x y) in *.
    pose proof (and_body_unfold andf x y T1 T2 F1 F2 E1 E2) as EB. unfold and_body in EB. rewrite T1, T2, F1, F2, E1, E2 in EB.
    rewrite EB. clear EB.
    assert (NCx := nonconst_of_tests x T1 F1). assert (NCy := nonconst_of_tests y T2 F2).
    simpl in Hh.
    assert (GP : good andf (under l off)) by (apply IHf; [eapply occurs_left; eauto | lia]).
    assert (GS : good andf (under r (S (off + vsize l)))) by (apply IHf; [eapply occurs_right; eauto | lia]).
    assert (IHl' := IHl off (occurs_left _ _ _ _ _ Ho) ltac:(lia)).
    assert (IHr' := IHr _ (occurs_right _ _ _ _ _ Ho) ltac:(lia)).
    pose proof (vsize_pos l) as Pl. pose proof (vsize_pos r) as Pr.
    destruct (under_node_inv _ _ _ _ Ux NCx) as [Ax|[Lx|Rx]];
    destruct (under_node_inv _ _ _ _ Uy NCy) as [Ay|[Ly|Ry]].
    + rewrite (idx_m l r off x Ax), (idx_m l r off y Ay), Nat.eqb_refl. simpl.
      apply (dispatch_ok l r off Ho andf GP GS); auto.
    + (* y under l: swap *)
      pose proof (idx_l l r off Ho y Ly NCy) as Ry'. rewrite (idx_m l r off x Ax).
      destruct (Nat.eqb_spec (off + vsize l) (vidx t y)); [lia|].
      unfold is_prime_index. destruct (Nat.ltb_spec (off + vsize l) (vidx t y)); [lia|]. simpl.
      destruct (dispatch_ok l r off Ho andf GP GS y x) as (z & Ez & Uz & Sz); auto.
      exists z. repeat split; auto. apply sem_and_comm; auto.
    + pose proof (idx_r l r off Ho y Ry NCy) as Ry'. rewrite (idx_m l r off x Ax).
      destruct (Nat.eqb_spec (off + vsize l) (vidx t y)); [lia|].
      unfold is_prime_index. destruct (Nat.ltb_spec (off + vsize l) (vidx t y)); [|lia]. simpl.
      apply (dispatch_ok l r off Ho andf GP GS); auto.
    + pose proof (idx_l l r off Ho x Lx NCx) as Rx'. rewrite (idx_m l r off y Ay).
      destruct (Nat.eqb_spec (vidx t x) (off + vsize l)); [lia|].
      unfold is_prime_index. destruct (Nat.ltb_spec (vidx t x) (off + vsize l)); [|lia]. simpl.
      apply (dispatch_ok l r off Ho andf GP GS); auto.
    + (* both below the left child: the induction hypothesis for l, unfolded the same way *)
      destruct (IHl' x y Lx Ly) as (z & Ez & Uz & Sz).
      rewrite (and_body_unfold andf x y T1 T2 F1 F2 E1 E2) in Ez.
      exists z. split; [exact Ez|]. split; [apply U_L; auto | auto].
    + pose proof (idx_l l r off Ho x Lx NCx) as Rx'. pose proof (idx_r l r off Ho y Ry NCy) as Ry'.
      destruct (Nat.eqb_spec (vidx t x) (vidx t y)); [lia|].
      unfold is_prime_index. destruct (Nat.ltb_spec (vidx t x) (vidx t y)); [|lia]. simpl.
      apply (dispatch_ok l r off Ho andf GP GS); auto.
    + pose proof (idx_r l r off Ho x Rx NCx) as Rx'. rewrite (idx_m l r off y Ay).
      destruct (Nat.eqb_spec (vidx t x) (off + vsize l)); [lia|].
      unfold is_prime_index. destruct (Nat.ltb_spec (vidx t x) (off + vsize l)); [lia|]. simpl.
      destruct (dispatch_ok l r off Ho andf GP GS y x) as (z & Ez & Uz & Sz); auto.
      exists z. repeat split; auto. apply sem_and_comm; auto.
    + pose proof (idx_r l r off Ho x Rx NCx) as Rx'. pose proof (idx_l l r off Ho y Ly NCy) as Ry'.
      destruct (Nat.eqb_spec (vidx t x) (vidx t y)); [lia|].
      unfold is_prime_index. destruct (Nat.ltb_spec (vidx t x) (vidx t y)); [lia|]. simpl.
      destruct (dispatch_ok l r off Ho andf GP GS y x) as (z & Ez & Uz & Sz); auto.
      exists z. repeat split; auto. apply sem_and_comm; auto.
    + destruct (IHr' x y Rx Ry) as (z & Ez & Uz & Sz).
      rewrite (and_body_unfold andf x y T1 T2 F1 F2 E1 E2) in Ez.
      exists z. split; [exact Ez|]. split; [apply U_R; auto | auto].
Qed.

End And.
