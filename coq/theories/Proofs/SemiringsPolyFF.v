(* Truncated polynomials over a GUARDED coefficient semiring, and the instance
   Polynomial<FiniteField<P>>.

   Proofs/Semirings.v proves the polynomial laws for coefficient semirings whose laws hold on
   the whole carrier ([csr_laws everything o]).  The finite-field laws hold only on canonical
   residues ([is_res P]: the operation did not panic and the value is < P), so that theorem
   does not apply to Polynomial<FiniteField<P>>.  Here the same development is redone for a
   coefficient semiring whose laws are guarded by an arbitrary predicate [okc : C -> Prop]
   closed under the operations:

     csr_laws okc o  ->  csr_laws (pwf_ok okc o) (poly_ops o)

   where [pwf_ok okc o p] = p is well formed and all its coefficients satisfy okc.  No
   decidability or proof irrelevance of okc is assumed.

   Technique: the elements satisfying okc form a semiring on the sigma type {c | okc c} for
   the equality "same underlying value" (a setoid, since okc-proofs need not be unique);
   [okring] proves an equation between coefficient expressions by collecting an okc-proof for
   each atom, lifting both sides to the sigma type and calling the setoid [ring] there.
   The structural lemmas of Proofs/Semirings.v that do not use the coefficient laws
   (lengths, nth of the loops, len bookkeeping) are re-used as they are. *)
From Coq Require Import Bool NArith List Arith Lia Ring Setoid Morphisms.
Import ListNotations.
From RsddV Require Import Base.Util Generated.Constants Model.Semirings Proofs.Semirings.

Local Open Scope nat_scope.

Create HintDb okdb.

Section PolyLawsOk.
  Context {C : Type} (okc : C -> Prop) (o : sr_ops C) (L : csr_laws okc o).
  Local Notation "0!" := (sr_zero o).
  Local Notation "1!" := (sr_one o).
  Local Infix "+!" := (sr_add o) (at level 50, left associativity).
  Local Infix "*!" := (sr_mul o) (at level 40, left associativity).

  Lemma okc_zero : okc 0!.
  Proof. exact (csr_dom_zero _ _ L). Qed.
  Lemma okc_one : okc 1!.
  Proof. exact (csr_dom_one _ _ L). Qed.
  Lemma okc_add a b : okc a -> okc b -> okc (a +! b).
  Proof. exact (csr_dom_add _ _ L a b). Qed.
  Lemma okc_mul a b : okc a -> okc b -> okc (a *! b).
  Proof. exact (csr_dom_mul _ _ L a b). Qed.

  (* ----------------------------------------------------------------------------------- *)
  (* the sub-semiring of the elements satisfying okc, as a setoid semiring *)
  Definition subc : Type := {c : C | okc c}.
  Definition sc_val (d : subc) : C := proj1_sig d.
  Definition sc_add (x y : subc) : subc :=
    exist okc (sc_val x +! sc_val y) (okc_add _ _ (proj2_sig x) (proj2_sig y)).
  Definition sc_mul (x y : subc) : subc :=
    exist okc (sc_val x *! sc_val y) (okc_mul _ _ (proj2_sig x) (proj2_sig y)).
  Definition sc_mk (c : C) (H : okc c) : subc := exist okc c H.
  Definition sc_zero : subc := exist okc 0! okc_zero.
  Definition sc_one : subc := exist okc 1! okc_one.
  Definition sc_eq (x y : subc) : Prop := sc_val x = sc_val y.

  Lemma sc_sth : Setoid_Theory subc sc_eq.
  Proof.
    constructor; unfold sc_eq.
    - intros x. reflexivity.
    - intros x y H. symmetry. exact H.
    - intros x y z H1 H2. rewrite H1. exact H2.
  Qed.

  Lemma sc_ext : sring_eq_ext sc_add sc_mul sc_eq.
  Proof.
    constructor; intros x x' Hx y y' Hy; unfold sc_eq, sc_add, sc_mul, sc_val in *;
      cbn [proj1_sig]; rewrite Hx, Hy; reflexivity.
  Qed.

  Lemma sc_srt : semi_ring_theory sc_zero sc_one sc_add sc_mul sc_eq.
  Proof.
    constructor; unfold sc_eq, sc_add, sc_mul, sc_zero, sc_one, sc_val.
    - intros [n Hn]. cbn [proj1_sig]. apply (csr_add_zero _ _ L n Hn).
    - intros [n Hn] [m Hm]. cbn [proj1_sig]. apply (csr_add_comm _ _ L); assumption.
    - intros [n Hn] [m Hm] [p Hp]. cbn [proj1_sig]. symmetry. apply (csr_add_assoc _ _ L); assumption.
    - intros [n Hn]. cbn [proj1_sig]. apply (csr_mul_one _ _ L n Hn).
    - intros [n Hn]. cbn [proj1_sig]. apply (csr_mul_zero _ _ L n Hn).
    - intros [n Hn] [m Hm]. cbn [proj1_sig]. apply (csr_mul_comm _ _ L); assumption.
    - intros [n Hn] [m Hm] [p Hp]. cbn [proj1_sig]. symmetry. apply (csr_mul_assoc _ _ L); assumption.
    - intros [n Hn] [m Hm] [p Hp]. cbn [proj1_sig]. apply (csr_distr _ _ L p n m); assumption.
  Qed.
  Add Ring sc_ring : sc_srt (setoid sc_sth sc_ext).

  (* side conditions "this coefficient expression satisfies okc" *)
  Ltac okc_solve := solve [eauto 12 with okdb].
  Ltac oksc := first [lia | okc_solve].

  (* one okc-hypothesis per atom of a coefficient expression *)
  Ltac sc_ensure e :=
    lazymatch e with
    | sr_add o ?a ?b => sc_ensure a; sc_ensure b
    | sr_mul o ?a ?b => sc_ensure a; sc_ensure b
    | sr_zero o => idtac
    | sr_one o => idtac
    | _ => lazymatch goal with
           | H : okc e |- _ => idtac
           | _ => let H := fresh "Hok" in assert (H : okc e) by okc_solve
           end
    end.

  (* the expression over the sigma type whose value is e *)
  Ltac sc_lift e :=
    lazymatch e with
    | sr_add o ?a ?b => let a' := sc_lift a in let b' := sc_lift b in constr:(sc_add a' b')
    | sr_mul o ?a ?b => let a' := sc_lift a in let b' := sc_lift b in constr:(sc_mul a' b')
    | sr_zero o => constr:(sc_zero)
    | sr_one o => constr:(sc_one)
    | _ => lazymatch goal with
           | H : okc e |- _ => constr:(sc_mk e H)
           end
    end.

  Ltac okring :=
    lazymatch goal with
    | |- ?l = ?r =>
      sc_ensure l; sc_ensure r;
      (let l' := sc_lift l in let r' := sc_lift r in change (sc_eq l' r'); ring)
    end.

  Hint Resolve okc_zero okc_one okc_add okc_mul : okdb.

  (* ----------------------------------------------------------------------------------- *)
  (* finite sums of guarded coefficients *)
  Lemma sumn_ok n f : (forall i, okc (f i)) -> okc (sumn o n f).
  Proof. intros Hf. induction n as [|n IH]; cbn [sumn]; auto with okdb. Qed.
  Hint Resolve sumn_ok : okdb.

  Lemma sumn_zero_ok n f : (forall i, i < n -> f i = 0!) -> sumn o n f = 0!.
  Proof.
    induction n as [|n IH]; intros H; cbn [sumn]; [reflexivity|].
    rewrite IH by (intros; apply H; lia). rewrite H by lia. okring.
  Qed.

  Lemma sumn_add_ok n f g : (forall i, okc (f i)) -> (forall i, okc (g i)) ->
    sumn o n (fun i => f i +! g i) = sumn o n f +! sumn o n g.
  Proof.
    intros Hf Hg. induction n as [|n IH]; cbn [sumn]; [okring | rewrite IH; okring].
  Qed.

  Lemma sumn_mul_r_ok n f x : (forall i, okc (f i)) -> okc x ->
    sumn o n f *! x = sumn o n (fun i => f i *! x).
  Proof.
    intros Hf Hx. induction n as [|n IH]; cbn [sumn]; [okring | rewrite <- IH; okring].
  Qed.

  Lemma sumn_mul_l_ok n f x : (forall i, okc (f i)) -> okc x ->
    x *! sumn o n f = sumn o n (fun i => x *! f i).
  Proof.
    intros Hf Hx. induction n as [|n IH]; cbn [sumn]; [okring | rewrite <- IH; okring].
  Qed.

  (* a sum whose terms vanish from n on *)
  Lemma sumn_more_ok n m f : (forall i, okc (f i)) -> n <= m ->
    (forall i, n <= i -> i < m -> f i = 0!) -> sumn o m f = sumn o n f.
  Proof.
    intros Hf Hle. induction m as [|m IH]; intros H.
    - replace n with 0 by lia. reflexivity.
    - destruct (Nat.eq_dec n (S m)) as [E|E]; [subst; reflexivity|].
      cbn [sumn]. rewrite IH by (try lia; intros; apply H; lia). rewrite H by lia. okring.
  Qed.

  Lemma sumn_delta_ok n t g : (forall i, okc (g i)) ->
    sumn o n (fun j => if Nat.eqb j t then g j else 0!) = if Nat.ltb t n then g t else 0!.
  Proof.
    intros Hg. induction n as [|n IH]; cbn [sumn]; [reflexivity|]. rewrite IH.
    destruct (Nat.eqb_spec n t) as [E|E].
    - subst. rewrite Nat.ltb_irrefl.
      replace (Nat.ltb t (S t)) with true by (symmetry; apply Nat.ltb_lt; lia).
      cbv iota. okring.
    - destruct (Nat.ltb_spec t n) as [A|A].
      + replace (Nat.ltb t (S n)) with true by (symmetry; apply Nat.ltb_lt; lia).
        cbv iota. okring.
      + replace (Nat.ltb t (S n)) with false by (symmetry; apply Nat.ltb_ge; lia).
        cbv iota. okring.
  Qed.

  Lemma sumn_shift_ok m g : (forall i, okc (g i)) ->
    sumn o (S m) g = g 0 +! sumn o m (fun i => g (S i)).
  Proof.
    intros Hg. induction m as [|m IHm]; cbn [sumn]; [okring|].
    change (sumn o m g +! g m) with (sumn o (S m) g). rewrite IHm. okring.
  Qed.

  Lemma sumn_rev_ok n f : (forall i, okc (f i)) -> sumn o n f = sumn o n (fun i => f (n - 1 - i)).
  Proof.
    revert f. induction n as [|n IH]; intros f Hf; [reflexivity|].
    rewrite (sumn_shift_ok n (fun i => f (S n - 1 - i))) by (intros i; apply Hf).
    cbn [sumn]. rewrite (IH f Hf).
    replace (S n - 1 - 0) with n by lia.
    rewrite (sumn_ext o n (fun i => f (S n - 1 - S i)) (fun i => f (n - 1 - i)))
      by (intros; f_equal; lia).
    okring.
  Qed.

  (* exchange of a triangular double sum *)
  Lemma sumn_triangle_ok n (F : nat -> nat -> C) : (forall i j, okc (F i j)) ->
    sumn o n (fun i => sumn o (S i) (F i)) =
    sumn o n (fun j => sumn o (n - j) (fun l => F (j + l) j)).
  Proof.
    intros HF. induction n as [|n IH]; [reflexivity|]. rewrite !(sumn_S o n). rewrite IH.
    replace (S n - n) with 1 by lia. rewrite (sumn_S o 0). cbn [sumn]. replace (n + 0) with n by lia.
    rewrite (sumn_ext o n (fun j => sumn o (S n - j) (fun l => F (j + l) j))
                          (fun j => sumn o (n - j) (fun l => F (j + l) j) +! F n j)).
    - rewrite sumn_add_ok by okc_solve. okring.
    - intros j Hj. replace (S n - j) with (S (n - j)) by lia. rewrite sumn_S.
      replace (j + (n - j)) with n by lia. reflexivity.
  Qed.

  (* ----------------------------------------------------------------------------------- *)
  (* well-formed values all of whose coefficients satisfy okc *)
  Definition pwf_ok (p : poly C) : Prop := pwf o p /\ Forall okc (coeffs p).

  Lemma pwf_ok_pwf p : pwf_ok p -> pwf o p.
  Proof. intros [H _]. exact H. Qed.

  Lemma Forall_set_nth_ok (l : list C) i x : Forall okc l -> okc x -> Forall okc (set_nth l i x).
  Proof.
    intros Hl Hx. revert i. induction Hl as [|y t Hy Ht IH]; intros [|i]; cbn [set_nth]; auto.
  Qed.

  Lemma nth_ok (l : list C) k : Forall okc l -> okc (nth k l 0!).
  Proof.
    intros Hl. revert k. induction Hl as [|y t Hy Ht IH]; intros [|k]; cbn [nth]; auto with okdb.
  Qed.

  Lemma zeros_ok : Forall okc (zeros o).
  Proof.
    apply Forall_forall. intros x Hx. apply repeat_spec in Hx. subst. apply okc_zero.
  Qed.

  Lemma cf_ok p i : pwf_ok p -> okc (cf o p i).
  Proof. intros [_ H]. unfold cf. apply nth_ok. exact H. Qed.
  Hint Resolve cf_ok nth_ok zeros_ok Forall_set_nth_ok : okdb.

  (* [pwf_ok] in terms of the coefficient function *)
  Lemma pwf_ok_cf p : pwf_ok p <-> pwf o p /\ forall i, okc (cf o p i).
  Proof.
    split.
    - intros W. split; [apply pwf_ok_pwf; exact W | intros i; apply cf_ok; exact W].
    - intros [W H]. split; [exact W|]. apply Forall_forall. intros x Hx.
      destruct (In_nth _ _ 0! Hx) as [n [_ E]]. rewrite <- E. apply (H n).
  Qed.

  (* --- addition --- *)
  Lemma fold_set_ok (g : nat -> C) n l : Forall okc l -> (forall i, okc (g i)) ->
    Forall okc (fold_left (fun acc i => set_nth acc i (g i)) (seq 0 n) l).
  Proof.
    intros Hl Hg. induction n as [|n IH]; [exact Hl|].
    rewrite seq_S, fold_left_app. cbn [fold_left]. apply Forall_set_nth_ok; auto.
  Qed.

  Lemma padd_wf_ok a b : pwf_ok a -> pwf_ok b -> pwf_ok (padd o a b).
  Proof.
    intros Wa Wb. split; [apply padd_wf|]. unfold padd. cbn [coeffs].
    apply fold_set_ok; [apply zeros_ok | intros i; okc_solve].
  Qed.
  Hint Resolve padd_wf_ok : okdb.

  Lemma padd_plen_ok a b : pwf_ok a -> pwf_ok b -> plen (padd o a b) = Nat.max (plen a) (plen b).
  Proof. intros [Wa _] [Wb _]. apply padd_plen; assumption. Qed.

  Lemma padd_cf_ok a b k : pwf_ok a -> pwf_ok b -> cf o (padd o a b) k = cf o a k +! cf o b k.
  Proof.
    intros Wa Wb. rewrite padd_cf_raw.
    destruct (Nat.ltb_spec k (Nat.min (Nat.max (plen a) (plen b)) MAXC)) as [H|H]; [reflexivity|].
    destruct Wa as [[_ [A Za]] _], Wb as [[_ [B Zb]] _].
    rewrite Za, Zb by lia. okring.
  Qed.

  (* --- multiplication --- *)
  Lemma tm_ok a b i j k : pwf_ok a -> pwf_ok b -> okc (tm o a b i j k).
  Proof. intros Wa Wb. unfold tm. destruct (Nat.eqb (i + j) k); okc_solve. Qed.
  Hint Resolve tm_ok : okdb.

  Lemma inner_ok a b i m acc : pwf_ok a -> pwf_ok b -> Forall okc acc ->
    Forall okc (fold_left (pmul_step o a b i) (seq 0 m) acc).
  Proof.
    intros Wa Wb Hacc. induction m as [|m IH]; [exact Hacc|].
    rewrite seq_S, fold_left_app. cbn [fold_left]. unfold pmul_step at 1.
    destruct (Nat.ltb (i + (0 + m)) MAXC); [|exact IH].
    apply Forall_set_nth_ok; [exact IH | okc_solve].
  Qed.

  Lemma inner_nth_ok a b i m acc k : pwf_ok a -> pwf_ok b -> Forall okc acc ->
    length acc = MAXC -> k < MAXC ->
    nth k (fold_left (pmul_step o a b i) (seq 0 m) acc) 0! =
    nth k acc 0! +! sumn o m (fun j => tm o a b i j k).
  Proof.
    intros Wa Wb Hacc Hl Hk. induction m as [|m IH]; [cbn [seq fold_left sumn]; okring|].
    rewrite seq_S, fold_left_app. cbn [fold_left]. rewrite Nat.add_0_l, sumn_S.
    unfold pmul_step at 1. unfold tm at 2.
    destruct (Nat.ltb_spec (i + m) MAXC) as [A|A].
    - destruct (Nat.eqb_spec (i + m) k) as [E|E].
      + subst k. rewrite nth_set_nth_eq by (rewrite inner_length; lia). rewrite IH. okring.
      + rewrite nth_set_nth_neq by auto. rewrite IH. okring.
    - destruct (Nat.eqb_spec (i + m) k) as [E|E]; [lia|]. rewrite IH. okring.
  Qed.

  Lemma outer_ok a b m n acc : pwf_ok a -> pwf_ok b -> Forall okc acc ->
    Forall okc (outer o a b m n acc).
  Proof.
    intros Wa Wb Hacc. induction n as [|n IH]; [exact Hacc|].
    rewrite outer_S. apply inner_ok; assumption.
  Qed.

  Lemma outer_nth_ok a b m n acc k : pwf_ok a -> pwf_ok b -> Forall okc acc ->
    length acc = MAXC -> k < MAXC ->
    nth k (outer o a b m n acc) 0! =
    nth k acc 0! +! sumn o n (fun i => sumn o m (fun j => tm o a b i j k)).
  Proof.
    intros Wa Wb Hacc Hl Hk. induction n as [|n IH]; [cbn [outer seq fold_left sumn]; okring|].
    rewrite outer_S, sumn_S.
    rewrite inner_nth_ok
      by first [assumption | apply outer_ok; assumption | rewrite outer_length; exact Hl].
    rewrite IH. okring.
  Qed.

  Lemma conv_ok a b k : pwf_ok a -> pwf_ok b -> okc (conv o a b k).
  Proof. intros Wa Wb. unfold conv. okc_solve. Qed.
  Hint Resolve conv_ok : okdb.

  Lemma conv_zero_ok a b k : pwf_ok a -> pwf_ok b ->
    (forall j, j <= k -> plen a <= j \/ plen b <= k - j) -> conv o a b k = 0!.
  Proof.
    intros Wa Wb H. unfold conv. apply sumn_zero_ok. intros j Hj.
    destruct (H j ltac:(lia)) as [A|A].
    - destruct Wa as [[_ [_ Za]] _]. rewrite Za by exact A. okring.
    - destruct Wb as [[_ [_ Zb]] _]. rewrite Zb by exact A. okring.
  Qed.

  Lemma conv2_conv_ok a b k : pwf_ok a -> pwf_ok b ->
    sumn o (plen a) (fun i => sumn o (plen b) (fun j => tm o a b i j k)) = conv o a b k.
  Proof.
    intros Wa Wb.
    assert (Za : forall i, plen a <= i -> cf o a i = 0!) by (destruct Wa as [[_ [_ Z]] _]; exact Z).
    assert (Zb : forall i, plen b <= i -> cf o b i = 0!) by (destruct Wb as [[_ [_ Z]] _]; exact Z).
    set (h := fun i => cf o a i *! cf o b (k - i)).
    assert (Hh : forall i, okc (h i)) by (intros i; unfold h; okc_solve).
    rewrite (sumn_ext o (plen a) _ (fun i => if Nat.leb i k then h i else 0!)).
    2:{ intros i _. destruct (Nat.leb_spec i k) as [A|A].
        - rewrite (sumn_ext o (plen b) _ (fun j => if Nat.eqb j (k - i) then cf o a i *! cf o b j else 0!)).
          + rewrite (sumn_delta_ok (plen b) (k - i) (fun j => cf o a i *! cf o b j)) by (intros j; okc_solve).
            unfold h. cbv beta.
            destruct (Nat.ltb_spec (k - i) (plen b)) as [B|B]; [reflexivity|].
            rewrite (Zb (k - i)) by lia. okring.
          + intros j _. unfold tm.
            destruct (Nat.eqb_spec (i + j) k), (Nat.eqb_spec j (k - i)); try reflexivity; lia.
        - apply sumn_zero_ok. intros j _. unfold tm.
          destruct (Nat.eqb_spec (i + j) k); [lia | reflexivity]. }
    set (F := fun i => if Nat.leb i k then h i else 0!).
    assert (HF : forall i, okc (F i)) by (intros i; unfold F; destruct (Nat.leb i k); okc_solve).
    set (N := Nat.max (plen a) (S k)).
    rewrite <- (sumn_more_ok (plen a) N F HF).
    2:{ unfold N; lia. }
    2:{ intros i A _. unfold F, h. rewrite Za by lia. destruct (Nat.leb i k); okring. }
    rewrite (sumn_more_ok (S k) N F HF).
    2:{ unfold N; lia. }
    2:{ intros i A _. unfold F.
        replace (Nat.leb i k) with false by (symmetry; apply Nat.leb_gt; lia). reflexivity. }
    unfold conv. apply sumn_ext. intros i Hi. unfold F.
    replace (Nat.leb i k) with true by (symmetry; apply Nat.leb_le; lia). reflexivity.
  Qed.

  (* the nested loops compute the convolution, truncated at MAX_COEFFS *)
  Lemma pmul_cf_ok a b k : pwf_ok a -> pwf_ok b -> k < MAXC -> cf o (pmul o a b) k = conv o a b k.
  Proof.
    intros Wa Wb Hk. unfold pmul.
    destruct (Nat.eqb (plen a) 0 || Nat.eqb (plen b) 0) eqn:E.
    - unfold cf at 1. cbn [coeffs pzero]. rewrite zeros_nth. symmetry.
      apply conv_zero_ok; auto. intros j Hj. apply orb_true_iff in E.
      destruct E as [E|E]; apply Nat.eqb_eq in E; lia.
    - unfold cf at 1. cbn [coeffs].
      etransitivity;
        [apply (outer_nth_ok a b (plen b) (plen a) (zeros o) k); auto using zeros_length, zeros_ok|].
      rewrite zeros_nth, conv2_conv_ok by auto. okring.
  Qed.

  Lemma pmul_wf_ok a b : pwf_ok a -> pwf_ok b -> pwf_ok (pmul o a b).
  Proof.
    intros Wa Wb. split.
    - split; [apply pmul_length | split].
      + rewrite pmul_plen. unfold mlen. destruct (_ || _); lia.
      + intros i Hi. destruct (Nat.lt_ge_cases i MAXC) as [A|A].
        * rewrite pmul_cf_ok by auto. apply conv_zero_ok; auto. intros j Hj.
          rewrite pmul_plen in Hi. unfold mlen in Hi.
          destruct (Nat.eqb_spec (plen a) 0); [lia|]. destruct (Nat.eqb_spec (plen b) 0); [lia|].
          cbn [orb] in Hi. lia.
        * apply cf_overflow. rewrite pmul_length. exact A.
    - unfold pmul. destruct (Nat.eqb (plen a) 0 || Nat.eqb (plen b) 0); cbn [coeffs pzero].
      + apply zeros_ok.
      + apply (outer_ok a b (plen b) (plen a) (zeros o)); auto using zeros_ok.
  Qed.
  Hint Resolve pmul_wf_ok : okdb.

  Lemma pzero_wf_ok : pwf_ok (pzero o).
  Proof. split; [apply pzero_wf | apply zeros_ok]. Qed.

  Lemma pone_wf_ok : pwf_ok (pone o).
  Proof.
    split; [apply pone_wf|]. cbn [coeffs pone]. apply Forall_set_nth_ok; [apply zeros_ok | apply okc_one].
  Qed.
  Hint Resolve pzero_wf_ok pone_wf_ok : okdb.

  Lemma poly_ext_ok p q : pwf_ok p -> pwf_ok q -> plen p = plen q ->
    (forall k, k < MAXC -> cf o p k = cf o q k) -> p = q.
  Proof. intros [Wp _] [Wq _]. apply poly_ext; assumption. Qed.

  (* --- the laws --- *)
  Lemma padd_assoc_ok a b c : pwf_ok a -> pwf_ok b -> pwf_ok c ->
    padd o (padd o a b) c = padd o a (padd o b c).
  Proof.
    intros Wa Wb Wc. apply poly_ext_ok; [okc_solve | okc_solve | |].
    - rewrite !padd_plen_ok by okc_solve. lia.
    - intros k _. rewrite !padd_cf_ok by okc_solve. okring.
  Qed.

  Lemma padd_comm_ok a b : pwf_ok a -> pwf_ok b -> padd o a b = padd o b a.
  Proof.
    intros Wa Wb. apply poly_ext_ok; [okc_solve | okc_solve | |].
    - rewrite !padd_plen_ok by okc_solve. lia.
    - intros k _. rewrite !padd_cf_ok by okc_solve. okring.
  Qed.

  Lemma padd_zero_ok a : pwf_ok a -> padd o (pzero o) a = a /\ padd o a (pzero o) = a.
  Proof.
    intros Wa. pose proof pzero_wf_ok as Wz.
    assert (padd o (pzero o) a = a) as E.
    { apply poly_ext_ok; [okc_solve | okc_solve | |].
      - rewrite padd_plen_ok by okc_solve. cbn [plen pzero]. lia.
      - intros k _. rewrite padd_cf_ok by okc_solve. rewrite pzero_cf. okring. }
    split; [exact E | rewrite padd_comm_ok by okc_solve; exact E].
  Qed.

  Lemma conv_comm_ok a b k : pwf_ok a -> pwf_ok b -> conv o a b k = conv o b a k.
  Proof.
    intros Wa Wb. unfold conv.
    rewrite (sumn_rev_ok (S k) (fun i => cf o a i *! cf o b (k - i))) by (intros i; okc_solve).
    apply sumn_ext. intros i Hi.
    replace (S k - 1 - i) with (k - i) by lia. replace (k - (k - i)) with i by lia. okring.
  Qed.

  Lemma pmul_comm_ok a b : pwf_ok a -> pwf_ok b -> pmul o a b = pmul o b a.
  Proof.
    intros Wa Wb. apply poly_ext_ok; [okc_solve | okc_solve | |].
    - rewrite !pmul_plen. apply mlen_comm.
    - intros k Hk. rewrite !pmul_cf_ok by oksc. apply conv_comm_ok; assumption.
  Qed.

  Lemma pmul_assoc_ok a b c : pwf_ok a -> pwf_ok b -> pwf_ok c ->
    pmul o (pmul o a b) c = pmul o a (pmul o b c).
  Proof.
    intros Wa Wb Wc. apply poly_ext_ok; [okc_solve | okc_solve | |].
    - rewrite !pmul_plen. apply mlen_assoc.
    - intros k Hk. rewrite !pmul_cf_ok by oksc. unfold conv.
      (* left: sum_i (sum_{j<=i} a_j b_{i-j}) c_{k-i} *)
      rewrite (sumn_ext o (S k) _
                 (fun i => sumn o (S i) (fun j => cf o a j *! cf o b (i - j) *! cf o c (k - i)))).
      2:{ intros i Hi. rewrite pmul_cf_ok by oksc. unfold conv.
          apply sumn_mul_r_ok; [intros j; okc_solve | okc_solve]. }
      rewrite (sumn_triangle_ok (S k) (fun i j => cf o a j *! cf o b (i - j) *! cf o c (k - i)))
        by (intros i j; okc_solve).
      apply sumn_ext. intros j Hj. rewrite pmul_cf_ok by oksc. unfold conv.
      rewrite sumn_mul_l_ok by (try (intros i); okc_solve).
      replace (S k - j) with (S (k - j)) by lia.
      apply sumn_ext. intros l Hl.
      replace (j + l - j) with l by lia. replace (k - (j + l)) with (k - j - l) by lia. okring.
  Qed.

  Lemma pmul_one_ok a : pwf_ok a -> pmul o (pone o) a = a /\ pmul o a (pone o) = a.
  Proof.
    intros Wa. pose proof pone_wf_ok as W1.
    assert (pmul o (pone o) a = a) as E.
    { apply poly_ext_ok; [okc_solve | okc_solve | |].
      - rewrite pmul_plen. cbn [plen pone]. destruct Wa as [[_ [A _]] _]. unfold mlen.
        cbn [Nat.eqb orb]. destruct (Nat.eqb_spec (plen a) 0); lia.
      - intros k Hk. rewrite pmul_cf_ok by oksc. unfold conv.
        rewrite (sumn_ext o (S k) _ (fun i => if Nat.eqb i 0 then 1! *! cf o a (k - i) else 0!)).
        + rewrite (sumn_delta_ok (S k) 0 (fun i => 1! *! cf o a (k - i))) by (intros i; okc_solve).
          cbn [Nat.ltb Nat.leb]. cbv beta. replace (k - 0) with k by lia. okring.
        + intros i _. rewrite pone_cf. destruct (Nat.eqb i 0); okring. }
    split; [exact E | rewrite pmul_comm_ok by okc_solve; exact E].
  Qed.

  Lemma pmul_distr_l_ok a b c : pwf_ok a -> pwf_ok b -> pwf_ok c ->
    pmul o a (padd o b c) = padd o (pmul o a b) (pmul o a c).
  Proof.
    intros Wa Wb Wc. apply poly_ext_ok; [okc_solve | okc_solve | |].
    - rewrite pmul_plen, !padd_plen_ok, !pmul_plen by okc_solve.
      destruct Wb as [[_ [B _]] _], Wc as [[_ [Cc _]] _]. apply mlen_distr; auto.
    - intros k Hk. rewrite padd_cf_ok, !pmul_cf_ok by oksc. unfold conv.
      rewrite <- sumn_add_ok by (intros i; okc_solve).
      apply sumn_ext. intros i Hi. rewrite padd_cf_ok by okc_solve. okring.
  Qed.

  (* closure and all commutative-semiring laws on the guarded well-formed polynomials *)
  Theorem poly_laws_ok : csr_laws pwf_ok (poly_ops o).
  Proof.
    constructor; cbn [poly_ops sr_add sr_mul sr_zero sr_one].
    - apply padd_wf_ok.
    - apply pmul_wf_ok.
    - apply pzero_wf_ok.
    - apply pone_wf_ok.
    - apply padd_assoc_ok.
    - apply padd_comm_ok.
    - apply padd_zero_ok.
    - apply pmul_assoc_ok.
    - apply pmul_comm_ok.
    - apply pmul_one_ok.
    - intros a _. apply pmul_zero.
    - intros a b c Wa Wb Wc. split; [apply pmul_distr_l_ok; auto|].
      rewrite (pmul_comm_ok (padd o b c) a), (pmul_comm_ok b a), (pmul_comm_ok c a) by okc_solve.
      apply pmul_distr_l_ok; auto.
  Qed.

  (* the product of guarded polynomials is the truncated convolution, with the coded len *)
  Theorem pmul_spec_ok a b k : pwf_ok a -> pwf_ok b -> k < MAXC ->
    cf o (pmul o a b) k = sumn o (S k) (fun i => cf o a i *! cf o b (k - i)) /\
    plen (pmul o a b) =
      (if Nat.eqb (plen a) 0 || Nat.eqb (plen b) 0 then 0 else Nat.min (plen a + plen b - 1) MAXC) /\
    length (coeffs (pmul o a b)) = MAXC.
  Proof.
    intros Wa Wb Hk.
    split; [exact (pmul_cf_ok a b k Wa Wb Hk) | split; [exact (pmul_plen o a b) | exact (pmul_length o a b)]].
  Qed.
End PolyLawsOk.

(* the unguarded case is the instance okc = everything *)
Lemma pwf_ok_everything {C : Type} (o : sr_ops C) (p : poly C) : pwf_ok everything o p <-> pwf o p.
Proof.
  unfold pwf_ok. split; [intros [H _]; exact H | intros H; split; [exact H|]].
  apply Forall_forall. intros x _. exact I.
Qed.

(* ===================================================================================== *)
(* Polynomial<FiniteField<P>>                                                              *)

(* the Semiring instance of FiniteField<P> as coded: operations that may panic ([None]) *)
Definition ff_ops (m : mode) (P : N) : sr_ops ffe :=
  {| sr_add := fadd m P; sr_mul := fmul m P; sr_zero := ff_zero P; sr_one := ff_one P |}.

Lemma ff_laws (m : mode) (P : N) : ff_ok P -> csr_laws (is_res P) (ff_ops m P).
Proof.
  intros OK. constructor; cbn [ff_ops sr_add sr_mul sr_zero sr_one].
  - intros a b Ha Hb. apply (ff_closed m P OK a b Ha Hb).
  - intros a b Ha Hb. apply (ff_closed m P OK a b Ha Hb).
  - apply (ff_closed m P OK _ _ (is_res_some P 0 ltac:(destruct OK; lia)) (is_res_some P 0 ltac:(destruct OK; lia))).
  - apply (ff_closed m P OK _ _ (is_res_some P 0 ltac:(destruct OK; lia)) (is_res_some P 0 ltac:(destruct OK; lia))).
  - intros a b c. apply ff_add_assoc; exact OK.
  - intros a b. apply ff_add_comm; exact OK.
  - intros a. apply ff_add_zero; exact OK.
  - intros a b c. apply ff_mul_assoc; exact OK.
  - intros a b. apply ff_mul_comm; exact OK.
  - intros a. apply ff_mul_one; exact OK.
  - intros a. apply ff_mul_zero; exact OK.
  - intros a b c. apply ff_distr; exact OK.
Qed.

(* polynomials whose coefficients are residues: closure (no coefficient operation of + or *
   ever panics, every resulting coefficient is again a residue) and all semiring laws *)
Theorem poly_ff_laws (m : mode) (P : N) : ff_ok P ->
  csr_laws (pwf_ok (is_res P) (ff_ops m P)) (poly_ops (ff_ops m P)).
Proof. intros OK. apply poly_laws_ok. apply ff_laws. exact OK. Qed.

(* the specification side used by the correspondence driver: residues as plain naturals *)
Theorem poly_zp_laws (P : N) : (1 < P)%N ->
  csr_laws (pwf_ok (fun a => (a < P)%N) (zp_ops P)) (poly_ops (zp_ops P)).
Proof. intros HP. apply poly_laws_ok. apply zp_laws. exact HP. Qed.

(* ===================================================================================== *)
(* Homomorphisms of guarded coefficient semirings lift to the polynomial operations.
   Used to tie the as-coded Polynomial<FiniteField<P>> (coefficients [option N], operations
   that may panic) to the polynomial over plain residues (zp_ops P) which the correspondence
   driver runs against the Rust type. *)
Section PolyMap.
  Context {A B : Type} (okA : A -> Prop) (oA : sr_ops A) (oB : sr_ops B) (phi : A -> B).
  Hypothesis LA : csr_laws okA oA.
  Hypothesis phi_zero : phi (sr_zero oA) = sr_zero oB.
  Hypothesis phi_one : phi (sr_one oA) = sr_one oB.
  Hypothesis phi_add : forall x y, okA x -> okA y -> phi (sr_add oA x y) = sr_add oB (phi x) (phi y).
  Hypothesis phi_mul : forall x y, okA x -> okA y -> phi (sr_mul oA x y) = sr_mul oB (phi x) (phi y).

  Definition pmap (p : poly A) : poly B := {| coeffs := map phi (coeffs p); plen := plen p |}.

  Lemma map_set_nth (l : list A) i x : map phi (set_nth l i x) = set_nth (map phi l) i (phi x).
  Proof.
    revert i. induction l as [|y t IH]; intros [|i]; cbn [set_nth map]; try reflexivity.
    rewrite IH. reflexivity.
  Qed.

  Lemma nth_map_phi (l : list A) k : nth k (map phi l) (sr_zero oB) = phi (nth k l (sr_zero oA)).
  Proof. rewrite <- phi_zero. apply map_nth. Qed.

  Lemma cf_pmap p k : cf oB (pmap p) k = phi (cf oA p k).
  Proof. unfold cf, pmap. cbn [coeffs]. apply nth_map_phi. Qed.

  Lemma map_zeros : map phi (zeros oA) = zeros oB.
  Proof.
    unfold zeros. rewrite <- phi_zero. induction MAXC as [|n IH]; cbn [repeat map]; [reflexivity|].
    rewrite IH. reflexivity.
  Qed.

  Lemma pmap_pzero : pmap (pzero oA) = pzero oB.
  Proof. unfold pmap, pzero. cbn [coeffs plen]. rewrite map_zeros. reflexivity. Qed.

  Lemma pmap_pone : pmap (pone oA) = pone oB.
  Proof.
    unfold pmap, pone. cbn [coeffs plen]. rewrite map_set_nth, map_zeros, phi_one. reflexivity.
  Qed.

  Lemma fold_set_map (g : nat -> A) (g' : nat -> B) n l : (forall i, phi (g i) = g' i) ->
    map phi (fold_left (fun acc i => set_nth acc i (g i)) (seq 0 n) l) =
    fold_left (fun acc i => set_nth acc i (g' i)) (seq 0 n) (map phi l).
  Proof.
    intros Hg. induction n as [|n IH]; [reflexivity|].
    rewrite !seq_S, !fold_left_app. cbn [fold_left]. rewrite map_set_nth, IH, Hg. reflexivity.
  Qed.

  Lemma pmap_padd a b : pwf_ok okA oA a -> pwf_ok okA oA b ->
    pmap (padd oA a b) = padd oB (pmap a) (pmap b).
  Proof.
    intros Wa Wb. unfold pmap at 1. unfold padd. cbn [coeffs plen]. f_equal.
    rewrite <- map_zeros. apply fold_set_map. intros i. rewrite !cf_pmap.
    apply phi_add; apply (cf_ok okA oA LA); assumption.
  Qed.

  Lemma inner_map a b i m acc : pwf_ok okA oA a -> pwf_ok okA oA b -> Forall okA acc ->
    map phi (fold_left (pmul_step oA a b i) (seq 0 m) acc) =
    fold_left (pmul_step oB (pmap a) (pmap b) i) (seq 0 m) (map phi acc).
  Proof.
    intros Wa Wb Hacc. induction m as [|m IH]; [reflexivity|].
    rewrite !seq_S, !fold_left_app. cbn [fold_left]. rewrite <- IH.
    unfold pmul_step at 1 3. destruct (Nat.ltb (i + (0 + m)) MAXC); [|reflexivity].
    rewrite map_set_nth, nth_map_phi, !cf_pmap. f_equal.
    assert (Hin : Forall okA (fold_left (pmul_step oA a b i) (seq 0 m) acc))
      by (apply (inner_ok okA oA LA); assumption).
    rewrite phi_add.
    - rewrite phi_mul by (apply (cf_ok okA oA LA); assumption). reflexivity.
    - apply (nth_ok okA oA LA). exact Hin.
    - apply (okc_mul okA oA LA); apply (cf_ok okA oA LA); assumption.
  Qed.

  Lemma outer_map a b m n acc : pwf_ok okA oA a -> pwf_ok okA oA b -> Forall okA acc ->
    map phi (outer oA a b m n acc) = outer oB (pmap a) (pmap b) m n (map phi acc).
  Proof.
    intros Wa Wb Hacc. induction n as [|n IH]; [reflexivity|].
    rewrite !outer_S, <- IH. apply inner_map; try assumption.
    apply (outer_ok okA oA LA); assumption.
  Qed.

  Lemma pmap_pmul a b : pwf_ok okA oA a -> pwf_ok okA oA b ->
    pmap (pmul oA a b) = pmul oB (pmap a) (pmap b).
  Proof.
    intros Wa Wb. unfold pmul. cbn [pmap plen].
    destruct (Nat.eqb (plen a) 0 || Nat.eqb (plen b) 0); [apply pmap_pzero|].
    unfold pmap at 1. cbn [coeffs plen]. f_equal. rewrite <- map_zeros.
    apply (outer_map a b (plen b) (plen a) (zeros oA)); try assumption.
    apply (zeros_ok okA oA LA).
  Qed.

  (* images of guarded well-formed polynomials are guarded well-formed polynomials *)
  Lemma pmap_wf_ok (okB : B -> Prop) a : (forall x, okA x -> okB (phi x)) ->
    pwf_ok okA oA a -> pwf_ok okB oB (pmap a).
  Proof.
    intros Hok [[Hl [Hp Hz]] Hf]. split; [split; [|split]|].
    - unfold pmap. cbn [coeffs]. rewrite map_length. exact Hl.
    - exact Hp.
    - intros i Hi. rewrite cf_pmap. cbn [pmap plen] in Hi. rewrite Hz by exact Hi. exact phi_zero.
    - unfold pmap. cbn [coeffs]. apply Forall_forall. intros y Hy. apply in_map_iff in Hy.
      destruct Hy as [x [E Hx]]. subst y. apply Hok. rewrite Forall_forall in Hf. apply Hf. exact Hx.
  Qed.
End PolyMap.

(* the as-coded polynomial operations over FiniteField<P> are, on residue polynomials, the
   polynomial operations over integer arithmetic modulo P, none of the coefficient operations
   panicking ([Some] everywhere) *)
Theorem poly_ff_is_zp (m : mode) (P : N) : ff_ok P ->
  forall a b, pwf_ok (fun x => (x < P)%N) (zp_ops P) a -> pwf_ok (fun x => (x < P)%N) (zp_ops P) b ->
  padd (ff_ops m P) (pmap Some a) (pmap Some b) = pmap Some (padd (zp_ops P) a b) /\
  pmul (ff_ops m P) (pmap Some a) (pmap Some b) = pmap Some (pmul (zp_ops P) a b) /\
  pzero (ff_ops m P) = pmap Some (pzero (zp_ops P)) /\
  pone (ff_ops m P) = pmap Some (pone (zp_ops P)) /\
  pwf_ok (is_res P) (ff_ops m P) (pmap Some a).
Proof.
  intros OK a b Wa Wb. destruct OK as [H1 H2].
  assert (LA : csr_laws (fun x => (x < P)%N) (zp_ops P)) by (apply zp_laws; exact H1).
  assert (E0 : Some (sr_zero (zp_ops P)) = sr_zero (ff_ops m P))
    by (cbn [zp_ops ff_ops sr_zero]; symmetry; apply ff_zero_ok; lia).
  assert (E1 : Some (sr_one (zp_ops P)) = sr_one (ff_ops m P))
    by (cbn [zp_ops ff_ops sr_one]; symmetry; apply ff_one_ok; lia).
  assert (EA : forall x y, (x < P)%N -> (y < P)%N ->
             Some (sr_add (zp_ops P) x y) = sr_add (ff_ops m P) (Some x) (Some y)).
  { intros x y Hx Hy. cbn [zp_ops ff_ops sr_add]. unfold fadd, olift2. cbn [bind].
    symmetry. apply ff_add_exact_gen; auto; lia. }
  assert (EM : forall x y, (x < P)%N -> (y < P)%N ->
             Some (sr_mul (zp_ops P) x y) = sr_mul (ff_ops m P) (Some x) (Some y)).
  { intros x y Hx Hy. cbn [zp_ops ff_ops sr_mul]. unfold fmul, olift2. cbn [bind].
    symmetry. apply ff_mul_exact_gen; auto; lia. }
  split; [symmetry; apply pmap_padd with (okA := fun x => (x < P)%N); assumption|].
  split; [symmetry; apply pmap_pmul with (okA := fun x => (x < P)%N); assumption|].
  split; [symmetry; exact (pmap_pzero (zp_ops P) (ff_ops m P) Some E0)|].
  split; [symmetry; exact (pmap_pone (zp_ops P) (ff_ops m P) Some E0 E1)|].
  apply pmap_wf_ok with (okA := fun x => (x < P)%N) (oA := zp_ops P); [assumption| |assumption].
  intros x Hx. apply is_res_some. exact Hx.
Qed.

(* conversely every residue polynomial is the image of a polynomial over plain residues, so
   the two instances describe the same values *)
Lemma residues_are_images (P : N) (l : list ffe) : Forall (is_res P) l ->
  exists l', l = map Some l' /\ Forall (fun x => (x < P)%N) l'.
Proof.
  intros H. induction H as [|x t [r [E Hr]] Ht [t' [Et Ht']]].
  - exists []. split; [reflexivity | constructor].
  - exists (r :: t'). subst. split; [reflexivity | constructor; assumption].
Qed.

Theorem poly_ff_from_zp (m : mode) (P : N) : ff_ok P ->
  forall p, pwf_ok (is_res P) (ff_ops m P) p ->
  exists q, p = pmap Some q /\ pwf_ok (fun x => (x < P)%N) (zp_ops P) q.
Proof.
  intros [H1 H2] [cs n] [[Hl [Hn Hz]] Hf]. cbn [coeffs plen] in *.
  destruct (residues_are_images P cs Hf) as [l' [E Hl']]. subst cs.
  exists {| coeffs := l'; plen := n |}. split; [reflexivity|].
  split; [split; [|split]|]; cbn [coeffs plen].
  - rewrite map_length in Hl. exact Hl.
  - exact Hn.
  - intros i Hi. specialize (Hz i Hi). unfold cf in *. cbn [coeffs ff_ops zp_ops sr_zero] in *.
    rewrite ff_zero_ok in Hz by lia.
    unfold ffe in Hz. rewrite (map_nth Some l' 0%N i) in Hz. injection Hz as Hz. exact Hz.
  - exact Hl'.
Qed.

(* a decision procedure for "p is a well-formed residue polynomial", for concrete examples *)
Definition ff_poly_okb (P : N) (p : poly ffe) : bool :=
  Nat.eqb (length (coeffs p)) MAXC && Nat.leb (plen p) MAXC &&
  forallb (fun x => match x with Some r => N.eqb r 0 | None => false end) (skipn (plen p) (coeffs p)) &&
  forallb (fun x => match x with Some r => N.ltb r P | None => false end) (coeffs p).

Lemma nth_skipn_add {A} (n : nat) (l : list A) (i : nat) (d : A) :
  nth i (skipn n l) d = nth (n + i) l d.
Proof.
  revert l. induction n as [|n IH]; intros [|x t]; cbn [skipn nth Nat.add]; try reflexivity.
  - destruct i; reflexivity.
  - apply IH.
Qed.

Lemma ff_poly_okb_ok (m : mode) (P : N) (p : poly ffe) : (0 < P)%N ->
  ff_poly_okb P p = true -> pwf_ok (is_res P) (ff_ops m P) p.
Proof.
  intros HP H. unfold ff_poly_okb in H.
  apply andb_true_iff in H. destruct H as [H H4].
  apply andb_true_iff in H. destruct H as [H H3].
  apply andb_true_iff in H. destruct H as [H1 H2].
  apply Nat.eqb_eq in H1. apply Nat.leb_le in H2.
  rewrite forallb_forall in H3, H4.
  split; [split; [exact H1 | split; [exact H2|]]|].
  - intros i Hi. unfold cf. cbn [ff_ops sr_zero]. rewrite ff_zero_ok by exact HP.
    replace i with (plen p + (i - plen p)) by lia. rewrite <- nth_skipn_add.
    destruct (nth_in_or_default (i - plen p) (skipn (plen p) (coeffs p)) (Some 0%N)) as [Hin|E];
      [|exact E].
    specialize (H3 _ Hin). destruct (nth (i - plen p) (skipn (plen p) (coeffs p)) (Some 0%N)) as [r|];
      [|discriminate H3].
    apply N.eqb_eq in H3. subst r. reflexivity.
  - apply Forall_forall. intros x Hx. specialize (H4 x Hx). destruct x as [r|]; [|discriminate H4].
    apply N.ltb_lt in H4. apply is_res_some. exact H4.
Qed.
