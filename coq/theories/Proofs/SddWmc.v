(* C07S: weighted model counting and Boolean evaluation on SDD pointers (the plain recursion of
   Model/SddWmc.v) equal the semiring sum over models / the denotation, for every SDD satisfying
   the builder invariant [under] of Proofs/SddInv.v (what every builder operation maintains in both
   compression modes, C03).  The memo / scratch part is Proofs/SddScratch.v. *)
From Coq Require Import Bool NArith List Lia Arith Permutation.
Import ListNotations.
From RsddV Require Import Base.Bdd Base.Util Model.SddVtree Model.SddOps Model.Wmc Model.SddWmc.
From RsddV Require Import Proofs.SddBase Proofs.SddVtree Proofs.SddInv Proofs.SddWf Proofs.Wmc Proofs.SemHashSdd.

(* ---- the model's flag is the pending negation of the Rust recursion ---- *)
Section FoldEq.
Variable T : Type.
Variable fTrue fFalse : T.
Variable fLit : var -> bool -> T.
Variable fAnd fOr : T -> T -> T.
Notation fold_c := (sdd_fold_c T fTrue fFalse fLit fAnd fOr).
Notation fold := (sdd_fold T fTrue fFalse fLit fAnd fOr).

Lemma sdd_fold_c_sneg fl p : fold_c fl (sneg p) = fold_c (negb fl) p.
Proof.
  destruct p as [| |v b|c l i lo hi|c i els]; cbn [sneg sdd_fold_c].
  - destruct fl; reflexivity.
  - destruct fl; reflexivity.
  - f_equal. destruct fl, b; reflexivity.
  - replace (xorb fl (negb c)) with (xorb (negb fl) c) by (destruct fl, c; reflexivity). reflexivity.
  - replace (xorb fl (negb c)) with (xorb (negb fl) c) by (destruct fl, c; reflexivity). reflexivity.
Qed.

Lemma sdd_fold_c_adj c p : fold_c c p = fold (adj c p).
Proof. unfold sdd_fold. destruct c; cbn [adj]; [rewrite sdd_fold_c_sneg|]; reflexivity. Qed.

(* the loop of bottomup_helper over a list of (prime, sub): the prime is folded as it is, the sub
   negated when the pointer is complemented *)
Definition node_loop (ng : bool) (els : list elem) (init : T) : T :=
  fold_left (fun or_v e => fOr or_v (fAnd (fold (fst e)) (fold (adj ng (snd e))))) els init.

Lemma or_loop_eq_c ng els : forall init,
  (fix loop (l : list elem) (or_v : T) : T :=
     match l with
     | [] => or_v
     | (pr, sb) :: r => loop r (fOr or_v (fAnd (fold_c false pr) (fold_c ng sb)))
     end) els init =
  fold_left (fun or_v e => fOr or_v (fAnd (fold_c false (fst e)) (fold_c ng (snd e)))) els init.
Proof.
  induction els as [|[pr sb] r IH]; intros init; cbn [fold_left fst snd]; [reflexivity|]. apply IH.
Qed.

Lemma or_loop_eq ng els init :
  fold_left (fun or_v e => fOr or_v (fAnd (fold_c false (fst e)) (fold_c ng (snd e)))) els init =
  node_loop ng els init.
Proof.
  unfold node_loop. revert init. induction els as [|[pr sb] r IH]; intros init; cbn [fold_left fst snd]; [reflexivity|].
  rewrite IH, (sdd_fold_c_adj ng sb). reflexivity.
Qed.

(* THE UNFOLDING EQUATION, literally the code: for a node pointer, fold(ptr) is the loop over
   ptr.node_iter() with  s = if ptr.is_neg() { and.sub().neg() } else { and.sub() } *)
Theorem sdd_fold_node_eq p els : elems p = Some els ->
  fold p = node_loop (s_is_neg p) els fFalse.
Proof.
  destruct p as [| |v b|c l i lo hi|c i els']; cbn [elems]; try discriminate; intros [= <-].
  - unfold node_loop. cbn [fold_left fst snd s_is_neg]. rewrite <- !(sdd_fold_c_adj (if c then true else false)).
    unfold sdd_fold. cbn [sdd_fold_c]. destruct c; reflexivity.
  - unfold sdd_fold at 1. cbn [sdd_fold_c]. rewrite or_loop_eq_c, or_loop_eq. destruct c; reflexivity.
Qed.
Lemma sdd_fold_const_eq : fold ST = fTrue /\ fold SF = fFalse /\ forall v b, fold (SVar v b) = fLit v b.
Proof. split; [reflexivity|split; [reflexivity|intros v b; unfold sdd_fold; cbn [sdd_fold_c xorb]; destruct b; reflexivity]]. Qed.
End FoldEq.

(* ---- small facts about the invariant ---- *)
Lemma sden_ext p a a' : (forall v, a v = a' v) -> sden p a = sden p a'.
Proof.
  intros E. induction p as [| |v b|c lb i lo hi IHlo IHhi|c i els IH] using sdd_ind'; auto.
  - cbn [sden]. rewrite E. reflexivity.
  - cbn [sden]. rewrite E, IHlo, IHhi. reflexivity.
  - rewrite !sden_or. f_equal. apply den_els_agree. exact IH.
Qed.

Lemma cnt_zero_in els a : cnt els a = 0 -> forall q s, In (q, s) els -> sden q a = false.
Proof.
  induction els as [|[p' s'] r IH]; intros Hc q s Hin; [destruct Hin|].
  rewrite cnt_cons in Hc. destruct Hin as [[= -> ->]|Hin].
  - destruct (sden q a); [lia | reflexivity].
  - apply (IH ltac:(destruct (sden p' a); lia) q s Hin).
Qed.

(* pairwise exclusive primes in the form SemHashSdd.excl_primes wants, for any decoration of the
   primes / subs that keeps the prime's value *)
Lemma excl_to_excl_primes (F : sdd -> asg -> bool) (G : sdd -> asg -> bool) els :
  (forall q a, F q a = sden q a) -> excl els ->
  excl_primes (map (fun e => (F (fst e), G (snd e))) els).
Proof.
  intros HF. induction els as [|[p s] r IH]; intros Hx; cbn [map excl_primes fst snd]; [exact I|].
  split.
  - intros q s' Hin a. apply in_map_iff in Hin. destruct Hin as ([q0 s0] & [= <- <-] & Hin0).
    cbn [fst snd]. rewrite !HF. destruct (sden p a) eqn:E; [|reflexivity]. cbn [andb].
    specialize (Hx a). rewrite cnt_cons, E in Hx.
    apply (cnt_zero_in r a ltac:(lia) q0 s0 Hin0).
  - apply IH. intros a. specialize (Hx a). rewrite cnt_cons in Hx. destruct (sden p a); lia.
Qed.

Section S.
Variable S : Type.
Variable add mul : S -> S -> S.
Variable zero one : S.
(* commutative-semiring laws (instances are proved in C13) *)
Hypothesis add_comm : forall a b, add a b = add b a.
Hypothesis add_assoc : forall a b c, add (add a b) c = add a (add b c).
Hypothesis mul_assoc : forall a b c, mul (mul a b) c = mul a (mul b c).
Hypothesis mul_comm : forall a b, mul a b = mul b a.
Hypothesis mul_one_r : forall a, mul a one = a.
Hypothesis mul_zero_r : forall a, mul a zero = zero.
Hypothesis add_zero_r : forall a, add a zero = a.
Hypothesis distr_l : forall a b c, mul a (add b c) = add (mul a b) (mul a c).
Variable wlo whi : var -> S.
Hypothesis w_norm : forall v, add (wlo v) (whi v) = one.

Notation H := (wmc_spec S add mul zero one wlo whi).
Notation W := (sdd_wmc_c S add mul zero one wlo whi).
Notation wl := (wlit S wlo whi).

(* a literal: the variable is summed, everything else contributes lo + hi = one *)
Lemma spec_literal vars v b x : NoDup vars -> In v vars ->
  H vars (fun a => Bool.eqb (a v) b) x = wl v b.
Proof.
  intros ND Hv. destruct (in_split _ _ Hv) as (l1 & l2 & ->).
  assert (P : Permutation (l1 ++ v :: l2) (v :: l1 ++ l2)) by (symmetry; apply Permutation_middle).
  assert (ND' : NoDup (v :: l1 ++ l2)) by (eapply Permutation_NoDup; eauto).
  inversion ND' as [|? ? Hnv _]; subst.
  rewrite (wmc_spec_perm S add mul zero one add_comm add_assoc mul_assoc mul_comm distr_l wlo whi _ _ P)
    by (intros a a' E; rewrite E; reflexivity).
  cbn [Wmc.wmc_spec].
  rewrite (wmc_spec_local S add mul zero one wlo whi (l1 ++ l2) _ (fun _ => Bool.eqb false b) (upd x v false))
    by (intros a Ha; rewrite (Ha v Hnv), upd_same; reflexivity).
  rewrite (wmc_spec_local S add mul zero one wlo whi (l1 ++ l2) _ (fun _ => Bool.eqb true b) (upd x v true))
    by (intros a Ha; rewrite (Ha v Hnv), upd_same; reflexivity).
  rewrite !(wmc_spec_const S add mul zero one mul_comm mul_one_r distr_l wlo whi w_norm).
  unfold wlit. destruct b; cbn [Bool.eqb].
  - rewrite mul_zero_r, mul_one_r, add_comm. apply add_zero_r.
  - rewrite mul_zero_r, mul_one_r. apply add_zero_r.
Qed.

(* left-nested sum of the loop = the right-nested sum of SemHashSdd.sum_pairs *)
Lemma loop_sum (term : elem -> S) els : forall init,
  fold_left (fun acc e => add acc (term e)) els init =
  add init (fold_right (fun e acc => add (term e) acc) zero els).
Proof.
  induction els as [|e r IH]; intros init; cbn [fold_left fold_right].
  - symmetry. apply add_zero_r.
  - rewrite IH. apply add_assoc.
Qed.

Section Vars.
Variable vars : list var.
Hypothesis NDV : NoDup vars.

(* THE KEY STEP: a decision node with elements (p_i, s_i) whose primes form a partition, primes
   over the variables of l, subs over the variables of r, l and r disjoint: the loop of the fold
   -- sum over the elements of count(p_i) * count(s_i, negated if the pointer is complemented) --
   is the sum over the models of the node (complemented or not). *)
Lemma node_sum l r offl offr els ng x :
  (forall v, In v (vleaves l) -> In v (vleaves r) -> False) ->
  okl (under l offl) (under r offr) els -> part els ->
  Forall (fun e => W false (fst e) = H vars (fun a => xorb false (sden (fst e) a)) x /\
                   W ng (snd e) = H vars (fun a => xorb ng (sden (snd e) a)) x) els ->
  fold_left (fun acc e => add acc (mul (W false (fst e)) (W ng (snd e)))) els zero =
  H vars (fun a => xorb ng (den_els els a)) x.
Proof.
  intros Hdis Hok Hpart HIH.
  set (F := fun (q : sdd) (a : asg) => xorb false (sden q a)).
  set (G := fun (q : sdd) (a : asg) => xorb ng (sden q a)).
  set (els' := map (fun e => (F (fst e), G (snd e))) els).
  rewrite (loop_sum (fun e => mul (W false (fst e)) (W ng (snd e)))). cbv beta. rewrite add_comm, add_zero_r.
  (* the right-nested sum is sum_pairs of the decorated list *)
  assert (E1 : fold_right (fun e acc => add (mul (W false (fst e)) (W ng (snd e))) acc) zero els =
               sum_pairs S add mul zero one wlo whi vars els' x).
  { unfold els'. clear Hok Hpart. induction HIH as [|[p s] rest [Hp Hs] _ IH]; cbn [fold_right map sum_pairs fst snd]; [reflexivity|].
    cbn [fst snd] in Hp, Hs. rewrite IH, Hp, Hs. reflexivity. }
  refine (eq_trans E1 _).
  rewrite <- (sdd_node_hash S add mul zero one add_comm add_assoc mul_assoc mul_comm mul_one_r mul_zero_r
                add_zero_r distr_l wlo whi w_norm vars els' NDV).
  - apply (wmc_spec_local S add mul zero one wlo whi). intros a _.
    rewrite <- (den_adjsubs ng els a (Hpart a)).
    unfold den_pairs, els', den_els, adjsubs. clear. induction els as [|[p s] rest IHr]; cbn [map existsb fst snd]; [reflexivity|].
    rewrite IHr. unfold F, G. rewrite sden_adj. destruct (sden p a); reflexivity.
  - apply excl_to_excl_primes; [intros q a; unfold F; destruct (sden q a); reflexivity | apply part_excl; exact Hpart].
  - intros p s Hin. unfold els' in Hin. apply in_map_iff in Hin. destruct Hin as ([p0 s0] & [= <- <-] & Hin0).
    cbn [fst snd]. unfold okl in Hok. rewrite Forall_forall in Hok. destruct (Hok _ Hin0) as [Up Us]. cbn [fst snd] in Up, Us.
    split; [|split].
    + intros a a' E. unfold F. rewrite (sden_ext p0 a a' E). reflexivity.
    + intros a a' E. unfold G. rewrite (sden_ext s0 a a' E). reflexivity.
    + intros v _. destruct (in_dec N.eq_dec v (vleaves l)) as [Il|Nl].
      * right. intros a b. unfold G. f_equal. apply (under_agree s0 r offr _ _ Us).
        intros u Hu. unfold upd. destruct (N.eqb_spec u v) as [->|]; [exfalso; eauto | reflexivity].
      * left. intros a b. unfold F. f_equal. apply (under_agree p0 l offl _ _ Up).
        intros u Hu. unfold upd. destruct (N.eqb_spec u v) as [->|]; [contradiction | reflexivity].
Qed.

Variable t : vtree.
Hypothesis ND : NoDup (vleaves t).
Hypothesis INC : incl (vleaves t) vars.

(* THE THEOREM, local form (the induction that is proved): any pointer below any sub-vtree *)
Theorem sdd_wmc_correct_local : forall p fl u off x, occurs t 0 u off -> under u off p ->
  W fl p = H vars (fun a => xorb fl (sden p a)) x.
Proof.
  induction p as [| |v b|c lb i lo hi IHlo IHhi|c i els IH] using sdd_ind'; intros fl u off x Ho Hu.
  - unfold sdd_wmc_c. cbn [sdd_fold_c sden].
    rewrite (wmc_spec_const S add mul zero one mul_comm mul_one_r distr_l wlo whi w_norm). destruct fl; reflexivity.
  - unfold sdd_wmc_c. cbn [sdd_fold_c sden].
    rewrite (wmc_spec_const S add mul zero one mul_comm mul_one_r distr_l wlo whi w_norm). destruct fl; reflexivity.
  - unfold sdd_wmc_c. cbn [sdd_fold_c sden].
    assert (Hv : In v vars) by (apply INC; eapply occurs_leaves; eauto; eapply under_var_in; eauto).
    rewrite <- (spec_literal vars v (xorb fl b) x NDV Hv).
    apply (wmc_spec_local S add mul zero one wlo whi). intros a _. destruct fl, (a v), b; reflexivity.
  - destruct (under_locate u off _ Hu eq_refl) as (l & r & off' & Ho' & Hn); [discriminate|].
    assert (Hot : occurs t 0 (VNode l r) off') by (eapply occurs_trans; eauto).
    destruct Hn as [(c0 & lbl0 & lo0 & hi0 & [= <- <- -> <- <-] & H1 & H2 & H3)|(c0 & els0 & [=] & _)].
    set (ng := xorb fl c).
    set (els := [(SVar lb true, hi); (SVar lb false, lo)]).
    assert (EW : W fl (SBdd c lb (off' + vsize l) lo hi) =
                 fold_left (fun acc e => add acc (mul (W false (fst e)) (W ng (snd e)))) els zero) by reflexivity.
    rewrite EW.
    rewrite (node_sum l r off' (Datatypes.S (off' + vsize l)) els ng x).
    + apply (wmc_spec_local S add mul zero one wlo whi). intros a _. unfold els, den_els, ng. cbn [existsb fst snd sden].
      destruct fl, c, (a lb), (sden hi a), (sden lo a); reflexivity.
    + eapply leaves_disjoint; eauto.
    + unfold els. repeat constructor; cbn [fst snd]; auto.
    + intros a. apply cnt_bdd_elems.
    + assert (Hvl : In lb vars) by (apply INC; eapply occurs_leaves; [exact Hot|]; cbn [vleaves]; apply in_or_app; auto).
      assert (LIT : forall b, W false (SVar lb b) = H vars (fun a => xorb false (sden (SVar lb b) a)) x).
      { intros b. unfold sdd_wmc_c. cbn [sdd_fold_c sden].
        rewrite <- (spec_literal vars lb (xorb false b) x NDV Hvl).
        apply (wmc_spec_local S add mul zero one wlo whi). intros a _. destruct (a lb), b; reflexivity. }
      unfold els. repeat constructor; cbn [fst snd]; auto.
      * apply (IHhi ng r _ x (occurs_right _ _ _ _ _ Hot) H3).
      * apply (IHlo ng r _ x (occurs_right _ _ _ _ _ Hot) H2).
  - destruct (under_locate u off _ Hu eq_refl) as (l & r & off' & Ho' & Hn); [discriminate|].
    assert (Hot : occurs t 0 (VNode l r) off') by (eapply occurs_trans; eauto).
    destruct Hn as [(c0 & lbl0 & lo0 & hi0 & [=] & _)|(c0 & els0 & [= <- -> <-] & H1 & H2 & H3)].
    set (ng := xorb fl c).
    assert (EW : W fl (SOr c (off' + vsize l) els) =
                 fold_left (fun acc e => add acc (mul (W false (fst e)) (W ng (snd e)))) els zero).
    { unfold sdd_wmc_c. cbn [sdd_fold_c]. apply or_loop_eq_c. }
    rewrite EW.
    rewrite (node_sum l r off' (Datatypes.S (off' + vsize l)) els ng x).
    + apply (wmc_spec_local S add mul zero one wlo whi). intros a _. rewrite sden_or. unfold ng.
      destruct fl, c, (den_els els a); reflexivity.
    + eapply leaves_disjoint; eauto.
    + exact H2.
    + exact H3.
    + unfold okl in H2. rewrite Forall_forall in *. intros e He.
      destruct (IH e He) as [I1 I2]. destruct (H2 e He) as [U1 U2]. split.
      * apply (I1 false l off' x (occurs_left _ _ _ _ _ Hot) U1).
      * apply (I2 ng r _ x (occurs_right _ _ _ _ _ Hot) U2).
Qed.
End Vars.

(* THE THEOREM (C07, SDD half): for every vtree with distinct leaves, every SDD satisfying the
   builder invariant, regular or complemented ([fl] = count the negation), every duplicate-free
   variable list covering the vtree's variables and weights with lo + hi = one: the fold equals
   the sum over all assignments of the listed variables of the product of the chosen literal
   weights, restricted to the models -- the same specification sum as for BDDs. *)
Theorem sdd_wmc_correct t p fl vars x :
  NoDup (vleaves t) -> under t 0 p -> NoDup vars -> incl (vleaves t) vars ->
  W fl p = H vars (fun a => xorb fl (sden p a)) x.
Proof.
  intros ND Hu NDV INC. apply (sdd_wmc_correct_local vars NDV t ND INC p fl t 0 x (occurs_refl t 0) Hu).
Qed.

(* a complemented pointer: the public entry point on p.neg() *)
Corollary sdd_wmc_neg_correct t p vars x :
  NoDup (vleaves t) -> under t 0 p -> NoDup vars -> incl (vleaves t) vars ->
  sdd_wmc_m S add mul zero one wlo whi (sneg p) = H vars (fun a => negb (sden p a)) x.
Proof.
  intros ND Hu NDV INC. unfold sdd_wmc_m.
  rewrite (sdd_wmc_correct t (sneg p) false vars x ND (under_sneg _ _ _ Hu) NDV INC).
  apply (wmc_spec_local S add mul zero one wlo whi). intros a _. rewrite sden_sneg. destruct (sden p a); reflexivity.
Qed.

(* an SDD and a free BDD (any order, top-down results, smoothed diagrams) of the same function
   have the same count *)
Corollary sdd_bdd_wmc_agree t p q :
  NoDup (vleaves t) -> under t 0 p -> free_bdd q -> (forall a, sden p a = den q a) ->
  sdd_wmc_m S add mul zero one wlo whi p = wmc_m S add mul zero one wlo whi q.
Proof.
  intros ND Hu Fq E. unfold sdd_wmc_m, wmc_m.
  set (vars := nodup N.eq_dec (vleaves t ++ support q)).
  assert (NDV : NoDup vars) by apply NoDup_nodup.
  assert (I1 : incl (vleaves t) vars) by (intros u Hin; apply nodup_In; apply in_or_app; auto).
  assert (I2 : incl (support q) vars) by (intros u Hin; apply nodup_In; apply in_or_app; auto).
  rewrite (sdd_wmc_correct t p false vars (fun _ => false) ND Hu NDV I1).
  rewrite (wmc_free_correct S add mul zero one add_comm add_assoc mul_assoc mul_comm mul_one_r distr_l wlo whi w_norm
             q false vars (fun _ => false) Fq NDV I2).
  apply (wmc_spec_local S add mul zero one wlo whi). intros a _. rewrite E. reflexivity.
Qed.

(* independence of the representation among SDDs: two SDDs of one function -- different vtrees,
   compression on or off, complement edges, sharing -- have the same count *)
Corollary sdd_wmc_structure_independent t1 t2 p1 p2 :
  NoDup (vleaves t1) -> NoDup (vleaves t2) -> under t1 0 p1 -> under t2 0 p2 ->
  (forall a, sden p1 a = sden p2 a) ->
  sdd_wmc_m S add mul zero one wlo whi p1 = sdd_wmc_m S add mul zero one wlo whi p2.
Proof.
  intros ND1 ND2 U1 U2 E. unfold sdd_wmc_m.
  set (vars := nodup N.eq_dec (vleaves t1 ++ vleaves t2)).
  assert (NDV : NoDup vars) by apply NoDup_nodup.
  assert (I1 : incl (vleaves t1) vars) by (intros u Hin; apply nodup_In; apply in_or_app; auto).
  assert (I2 : incl (vleaves t2) vars) by (intros u Hin; apply nodup_In; apply in_or_app; auto).
  rewrite (sdd_wmc_correct t1 p1 false vars (fun _ => false) ND1 U1 NDV I1).
  rewrite (sdd_wmc_correct t2 p2 false vars (fun _ => false) ND2 U2 NDV I2).
  apply (wmc_spec_local S add mul zero one wlo whi). intros a _. rewrite E. reflexivity.
Qed.
End S.

(* ---- Boolean evaluation ---- *)
(* What evaluate needs is only the partition of the primes at every reachable general node (a
   complemented node is evaluated as the node with negated subs); BinarySDD nodes have the
   partition {x, not x} by construction.  No vtree condition. *)
Inductive parts : sdd -> Prop :=
| P_T : parts ST
| P_F : parts SF
| P_V v b : parts (SVar v b)
| P_B c l i lo hi : parts lo -> parts hi -> parts (SBdd c l i lo hi)
| P_O c i els : part els -> Forall (fun e => parts (fst e) /\ parts (snd e)) els -> parts (SOr c i els).

Lemma under_parts : forall p u off, under u off p -> parts p.
Proof.
  induction p as [| |v b|c lb i lo hi IHlo IHhi|c i els IH] using sdd_ind'; intros u off Hu; try constructor.
  - destruct (under_locate u off _ Hu eq_refl) as (l & r & off' & _ & Hn); [discriminate|].
    destruct Hn as [(c0 & lbl0 & lo0 & hi0 & [= <- <- -> <- <-] & H1 & H2 & H3)|(c0 & els0 & [=] & _)]. eauto.
  - destruct (under_locate u off _ Hu eq_refl) as (l & r & off' & _ & Hn); [discriminate|].
    destruct Hn as [(c0 & lbl0 & lo0 & hi0 & [= <- <- -> <- <-] & H1 & H2 & H3)|(c0 & els0 & [=] & _)]. eauto.
  - destruct (under_locate u off _ Hu eq_refl) as (l & r & off' & _ & Hn); [discriminate|].
    destruct Hn as [(c0 & lbl0 & lo0 & hi0 & [=] & _)|(c0 & els0 & [= <- -> <-] & H1 & H2 & H3)]. exact H3.
  - destruct (under_locate u off _ Hu eq_refl) as (l & r & off' & _ & Hn); [discriminate|].
    destruct Hn as [(c0 & lbl0 & lo0 & hi0 & [=] & _)|(c0 & els0 & [= <- -> <-] & H1 & H2 & H3)].
    unfold okl in H2. rewrite Forall_forall in *. intros e He.
    destruct (IH e He) as [I1 I2]. destruct (H2 e He) as [U1 U2]. split; eauto.
Qed.

Lemma orb_loop (term : elem -> bool) els : forall init,
  fold_left (fun acc e => acc || term e) els init = init || existsb term els.
Proof.
  induction els as [|e r IH]; intros init; cbn [fold_left existsb]; [destruct init; reflexivity|].
  rewrite IH. destruct init, (term e); reflexivity.
Qed.

Theorem sdd_evaluate_correct_c p a : forall fl, parts p ->
  sdd_wmc_c bool orb andb false true (fun v => negb (a v)) (fun v => a v) fl p = xorb fl (sden p a).
Proof.
  induction p as [| |v b|c lb i lo hi IHlo IHhi|c i els IH] using sdd_ind'; intros fl Hp; unfold sdd_wmc_c in *.
  - destruct fl; reflexivity.
  - destruct fl; reflexivity.
  - cbn [sdd_fold_c sden]. unfold wlit. destruct fl, b, (a v); reflexivity.
  - inversion Hp as [| | |? ? ? ? ? Plo Phi|]; subst. cbn [sdd_fold_c sden].
    rewrite (IHlo _ Plo), (IHhi _ Phi). unfold wlit.
    destruct fl, c, (a lb), (sden lo a), (sden hi a); reflexivity.
  - inversion Hp as [| | | |? ? ? Hpart Hall]; subst. cbn [sdd_fold_c]. rewrite or_loop_eq_c.
    rewrite (orb_loop (fun e => sdd_fold_c bool true false (wlit bool (fun v => negb (a v)) (fun v => a v)) andb orb false (fst e) &&
                                sdd_fold_c bool true false (wlit bool (fun v => negb (a v)) (fun v => a v)) andb orb (xorb fl c) (snd e))).
    cbn [orb]. rewrite sden_or, <- xorb_assoc_reverse, <- (den_adjsubs (xorb fl c) els a (Hpart a)).
    unfold den_els, adjsubs. clear Hpart Hp. induction els as [|[pr sb] rest IHr]; cbn [existsb map fst snd]; [reflexivity|].
    inversion IH as [|? ? [Ipr Isb] IHrest]; subst. inversion Hall as [|? ? [Ppr Psb] Prest]; subst. cbn [fst snd] in *.
    rewrite (IHr IHrest Prest), (Ipr false Ppr), (Isb (xorb fl c) Psb), sden_adj.
    destruct (sden pr a); reflexivity.
Qed.

(* Boolean evaluation of an assignment agrees with the denoted function for every SDD whose
   general nodes have partitioned primes -- in particular every builder result *)
Theorem sdd_evaluate_correct p a : parts p -> sdd_evaluate_m p a = sden p a.
Proof.
  intros Hp. unfold sdd_evaluate_m, sdd_wmc_m. rewrite (sdd_evaluate_correct_c p a false Hp).
  destruct (sden p a); reflexivity.
Qed.
Corollary sdd_evaluate_correct_under t p a : under t 0 p -> sdd_evaluate_m p a = sden p a.
Proof. intros Hu. apply sdd_evaluate_correct. eapply under_parts; eauto. Qed.

(* ... and NOT for every unfolding: a complemented general node whose primes are not exhaustive
   is evaluated as "some prime holds and its sub fails", which differs from the negation of the
   node.  (Such a node is never built: C03.)  This is why the statement carries [parts]. *)
Theorem sdd_evaluate_all_unfoldings_refuted :
  exists p a, sdd_evaluate_m p a <> sden p a.
Proof. exists (SOr true 0 [(SVar 0%N true, ST)]), (fun _ => false). vm_compute. discriminate. Qed.
