(* C16, store layer: the lossy cache refines "map with permitted forgetting". *)
From Coq Require Import Bool NArith List Lia Arith.
Import ListNotations.
From RsddV Require Import Base.Util Generated.Constants Model.Lru.

(* the abstract map: the value of the most recent insert under a key *)
Fixpoint last_val (hist : list (N * N)) (k : N) : option N :=
  match hist with
  | [] => None
  | (k', v) :: r => if N.eqb k' k then Some v else last_val r k
  end.

Section WithHash.
Variable H : N -> N.   (* any hash function: all collision patterns *)

Definition good (hist : list (N * N)) (c : nat) (i : nat) (e : elt) : Prop :=
  ehash e = H (ekey e) /\ pos c (ehash e) = i /\ last_val hist (ekey e) = Some (eval e).

Definition Inv (hist : list (N * N)) (t : lru) : Prop :=
  length (tbl t) = 2 ^ cap t /\
  forall i e, nth i (tbl t) None = Some e -> good hist (cap t) i e.

Lemma pos_lt c h : pos c h < 2 ^ c.
Proof.
  unfold pos.
  assert (Hp : (2 ^ N.of_nat c <> 0)%N) by (apply N.pow_nonzero; discriminate).
  pose proof (N.mod_upper_bound h _ Hp) as Hlt.
  assert (E : 2 ^ c = N.to_nat (2 ^ N.of_nat c)).
  { clear. induction c as [|c IH]; [reflexivity|].
    rewrite Nat.pow_succ_r', Nat2N.inj_succ, N.pow_succ_r', N2Nat.inj_mul, <- IH. reflexivity. }
  rewrite E. lia.
Qed.

Lemma Inv_new c : Inv [] (lru_new c).
Proof.
  split; simpl; [apply repeat_length|].
  intros i e. rewrite nth_repeat_lt. destruct (Nat.ltb _ _); discriminate.
Qed.

Lemma nth_Some_lt {A} (l : list (option A)) i e : nth i l None = Some e -> i < length l.
Proof.
  intros Hn. destruct (le_lt_dec (length l) i) as [Hge|]; auto.
  rewrite nth_overflow in Hn by assumption. discriminate.
Qed.

(* inserting (k, v, H k) while extending the history *)
Lemma insert_raw_Inv hist t k v :
  Inv hist t -> Inv ((k, v) :: hist) (insert_raw t k v (H k)).
Proof.
  intros [Hlen Hsl]. split; simpl.
  - rewrite length_set_nth. exact Hlen.
  - intros i e Hn.
    destruct (Nat.eq_dec (pos (cap t) (H k)) i) as [<-|Hne].
    + rewrite nth_set_nth_eq in Hn by (rewrite Hlen; apply pos_lt).
      injection Hn as <-. unfold good; simpl. rewrite N.eqb_refl. auto.
    + rewrite nth_set_nth_neq in Hn by assumption.
      destruct (Hsl i e Hn) as (Hh & Hp & Hv). unfold good. repeat split; auto.
      simpl. destruct (N.eqb_spec k (ekey e)) as [->|]; auto.
      exfalso. apply Hne. rewrite <- Hh. exact Hp.
Qed.

(* re-inserting a stored element (growth): the history is unchanged *)
Lemma reinsert_Inv hist t e :
  ehash e = H (ekey e) -> last_val hist (ekey e) = Some (eval e) ->
  Inv hist t -> Inv hist (insert_raw t (ekey e) (eval e) (ehash e)).
Proof.
  intros Hh Hv [Hlen Hsl]. split; simpl.
  - rewrite length_set_nth. exact Hlen.
  - intros i e' Hn.
    destruct (Nat.eq_dec (pos (cap t) (ehash e)) i) as [<-|Hne].
    + rewrite nth_set_nth_eq in Hn by (rewrite Hlen; apply pos_lt).
      injection Hn as <-. unfold good; simpl. auto.
    + rewrite nth_set_nth_neq in Hn by assumption. auto.
Qed.

Lemma grow_fold_Inv hist (l : list (option elt)) t :
  (forall e, In (Some e) l -> ehash e = H (ekey e) /\ last_val hist (ekey e) = Some (eval e)) ->
  Inv hist t ->
  Inv hist (fold_left (fun acc o => match o with
                                    | Some e => insert_raw acc (ekey e) (eval e) (ehash e)
                                    | None => acc end) l t).
Proof.
  revert t; induction l as [|o l IH]; intros t Hall HI; simpl; auto.
  apply IH; [intros e He; apply Hall; right; exact He|].
  destruct o as [e|]; auto.
  destruct (Hall e (or_introl eq_refl)) as [Hh Hv]. apply reinsert_Inv; auto.
Qed.

Lemma fold_cap (l : list (option elt)) t :
  cap (fold_left (fun acc o => match o with
                               | Some e => insert_raw acc (ekey e) (eval e) (ehash e)
                               | None => acc end) l t) = cap t.
Proof. revert t; induction l as [|[e|] l IH]; intros t; simpl; auto. rewrite IH. reflexivity. Qed.

Lemma grow_Inv hist t : Inv hist t -> Inv hist (grow t).
Proof.
  intros [Hlen Hsl]. unfold grow.
  set (f := fun acc o => _).
  assert (HI : Inv hist (fold_left f (tbl t) (lru_new (S (cap t))))).
  { apply grow_fold_Inv.
    - intros e He. apply In_nth with (d := None) in He. destruct He as (i & _ & Hn).
      destruct (Hsl i e Hn) as (Hh & _ & Hv). auto.
    - destruct (Inv_new (S (cap t))) as [L S0]. split; auto.
      intros i e Hn. exfalso. simpl in Hn. rewrite nth_repeat_lt in Hn.
      destruct (Nat.ltb _ _); discriminate. }
  destruct HI as [L1 S1]. split; simpl; auto.
Qed.

Lemma insert_Inv hist t k v : Inv hist t -> Inv ((k, v) :: hist) (insert t k v (H k)).
Proof.
  intros HI. unfold insert. apply insert_raw_Inv.
  destruct (needs_grow t); auto using grow_Inv.
Qed.

Lemma get_latest hist t k v : Inv hist t -> get t k (H k) = Some v -> last_val hist k = Some v.
Proof.
  intros [_ Hsl]. unfold get.
  destruct (nth (pos (cap t) (H k)) (tbl t) None) as [e|] eqn:Hn; [|discriminate].
  destruct (N.eqb_spec (ekey e) k) as [<-|]; [|discriminate].
  intros [= <-]. destruct (Hsl _ _ Hn) as (_ & _ & Hv). exact Hv.
Qed.

(* --- the refinement over operation sequences --- *)
Definition consistent_op (o : op) : Prop :=
  match o with Ins k _ h => h = H k | Get k h => h = H k end.

(* spec run: every get may answer None or the latest value *)
Fixpoint spec_ok (hist : list (N * N)) (ops : list op) (outs : list (option N)) : Prop :=
  match ops, outs with
  | [], [] => True
  | Ins k v _ :: r, _ => spec_ok ((k, v) :: hist) r outs
  | Get k _ :: r, o :: outs' => (o = None \/ o = last_val hist k) /\ spec_ok hist r outs'
  | _, _ => False
  end.

Theorem lru_refines hist t ops :
  Inv hist t -> Forall consistent_op ops -> spec_ok hist ops (run t ops).
Proof.
  revert hist t; induction ops as [|o ops IH]; intros hist t HI Hc; simpl; auto.
  inversion Hc as [|? ? Ho Hr]; subst.
  destruct o as [k v h|k h]; simpl in *; subst h.
  - apply IH; auto. apply insert_Inv; exact HI.
  - split; [|apply IH; auto].
    destruct (get t k (H k)) as [v|] eqn:G; auto. right. symmetry. eapply get_latest; eauto.
Qed.

(* a value is never returned for a different key: immediate from [get]'s key test, stated
   separately because it needs no hypothesis on the hashes at all *)
Lemma get_key_exact t k h v : get t k h = Some v ->
  exists e, nth (pos (cap t) h) (tbl t) None = Some e /\ ekey e = k /\ eval e = v.
Proof.
  unfold get. destruct (nth _ _ _) as [e|]; [|discriminate].
  destruct (N.eqb_spec (ekey e) k); [|discriminate]. intros [= <-]. eauto.
Qed.
End WithHash.

Theorem lru_spec (H : N -> N) c ops :
  Forall (consistent_op H) ops -> spec_ok [] ops (run (lru_new c) ops).
Proof. intros. apply (lru_refines H); auto. apply Inv_new. Qed.

(* --- growth re-insertion never triggers a nested growth (justifies insert_raw in grow) --- *)
Lemma fold_num_filled_le (l : list (option elt)) t :
  num_filled (fold_left (fun acc o => match o with
                                      | Some e => insert_raw acc (ekey e) (eval e) (ehash e)
                                      | None => acc end) l t) <= num_filled t + length l.
Proof.
  revert t; induction l as [|[e|] l IH]; intros t; simpl; try lia.
  - etransitivity; [apply IH|]. simpl. destruct (nth _ _ _); lia.
  - etransitivity; [apply IH|]. lia.
Qed.

Theorem regrow_never t (pre : list (option elt)) suf :
  grow_num * 2 >= grow_den ->
  length (tbl t) = 2 ^ cap t -> tbl t = pre ++ suf ->
  needs_grow (fold_left (fun acc o => match o with
                                      | Some e => insert_raw acc (ekey e) (eval e) (ehash e)
                                      | None => acc end) pre (lru_new (S (cap t)))) = false.
Proof.
  intros Hr Hlen Hsplit. unfold needs_grow. rewrite fold_cap. simpl cap.
  apply Nat.ltb_ge.
  pose proof (fold_num_filled_le pre (lru_new (S (cap t)))) as Hle. simpl num_filled in Hle.
  assert (length pre <= 2 ^ cap t).
  { rewrite <- Hlen, Hsplit, app_length. lia. }
  rewrite Nat.pow_succ_r'. nia.
Qed.

(* --- usefulness half: the cache is not the trivial "always forget" refinement --- *)
Lemma fold_len (l : list (option elt)) t :
  length (tbl (fold_left (fun acc o => match o with
                                       | Some e => insert_raw acc (ekey e) (eval e) (ehash e)
                                       | None => acc end) l t)) = length (tbl t).
Proof.
  revert t; induction l as [|[e|] l IH]; intros t; simpl; auto.
  rewrite IH. simpl. apply length_set_nth.
Qed.

Lemma grow_len t : length (tbl (grow t)) = 2 ^ cap (grow t).
Proof. unfold grow; simpl. rewrite fold_len, fold_cap. simpl. apply repeat_length. Qed.

Lemma insert_raw_len t k v h :
  length (tbl t) = 2 ^ cap t -> length (tbl (insert_raw t k v h)) = 2 ^ cap (insert_raw t k v h).
Proof. intros Hl. simpl. rewrite length_set_nth. exact Hl. Qed.

Lemma insert_len t k v h :
  length (tbl t) = 2 ^ cap t -> length (tbl (insert t k v h)) = 2 ^ cap (insert t k v h).
Proof.
  intros Hl. unfold insert. apply insert_raw_len. destruct (needs_grow t); auto using grow_len.
Qed.

Lemma insert_raw_get t k v h : length (tbl t) = 2 ^ cap t -> get (insert_raw t k v h) k h = Some v.
Proof.
  intros Hl. unfold get. simpl.
  rewrite nth_set_nth_eq by (rewrite Hl; apply pos_lt). simpl. rewrite N.eqb_refl. reflexivity.
Qed.

(* a value just inserted is found by the next lookup under the same key and hash, in every
   well-shaped table (grown or not) *)
Theorem get_after_insert t k v h : length (tbl t) = 2 ^ cap t -> get (insert t k v h) k h = Some v.
Proof.
  intros Hl. unfold insert. apply insert_raw_get. destruct (needs_grow t); auto using grow_len.
Qed.

(* an insert that does not grow the table leaves every other slot's answer alone *)
Theorem get_other_slot t k v h k' h' :
  needs_grow t = false -> pos (cap t) h' <> pos (cap t) h -> get (insert t k v h) k' h' = get t k' h'.
Proof.
  intros Hg Hne. unfold insert. rewrite Hg. unfold get. simpl.
  rewrite nth_set_nth_neq by auto. reflexivity.
Qed.

(* every reachable table is well shaped, so the two theorems above apply to it *)
Theorem final_len c ops : length (tbl (final (lru_new c) ops)) = 2 ^ cap (final (lru_new c) ops).
Proof.
  assert (G : forall t, length (tbl t) = 2 ^ cap t -> length (tbl (final t ops)) = 2 ^ cap (final t ops)).
  { induction ops as [|o r IH]; intros t Hl; simpl; auto.
    apply IH. destruct o as [k v h|k h]; cbn [step fst]; [apply insert_len; exact Hl|exact Hl]. }
  apply G. simpl. apply repeat_length.
Qed.

(* --- the fill counter never under-counts the occupied slots (so growth is never late) --- *)
Definition isS (o : option elt) : bool := match o with Some _ => true | None => false end.
Notation gfold := (fold_left (fun acc o => match o with
                                            | Some e => insert_raw acc (ekey e) (eval e) (ehash e)
                                            | None => acc end)).

Lemma insert_raw_occ t k v h : length (tbl t) = 2 ^ cap t ->
  occupied_count (insert_raw t k v h) + num_filled t = occupied_count t + num_filled (insert_raw t k v h).
Proof.
  intros Hl. unfold occupied_count. fold isS. simpl.
  assert (Hlt : pos (cap t) h < length (tbl t)) by (rewrite Hl; apply pos_lt).
  pose proof (count_set_nth isS (tbl t) (pos (cap t) h)
                (Some {| ekey := k; eval := v; ehash := h |}) None Hlt) as Hc.
  destruct (nth (pos (cap t) h) (tbl t) None); simpl in Hc; lia.
Qed.

Lemma fold_occ (l : list (option elt)) t : length (tbl t) = 2 ^ cap t ->
  occupied_count (gfold l t) + num_filled t = occupied_count t + num_filled (gfold l t).
Proof.
  revert t; induction l as [|[e|] l IH]; intros t Hl; simpl; auto.
  pose proof (IH _ (insert_raw_len t (ekey e) (eval e) (ehash e) Hl)) as H1.
  pose proof (insert_raw_occ t (ekey e) (eval e) (ehash e) Hl) as H2. lia.
Qed.

Lemma fold_nf_le (l : list (option elt)) t : num_filled (gfold l t) <= num_filled t + count isS l.
Proof.
  revert t; induction l as [|[e|] l IH]; intros t; simpl; try lia.
  - etransitivity; [apply IH|]. simpl. destruct (nth _ _ _); lia.
  - apply IH.
Qed.

Lemma grow_occ t : occupied_count (grow t) <= occupied_count t.
Proof.
  unfold grow, occupied_count at 1. simpl tbl. fold isS.
  assert (Hn : length (tbl (lru_new (S (cap t)))) = 2 ^ cap (lru_new (S (cap t)))) by (simpl; apply repeat_length).
  pose proof (fold_occ (tbl t) _ Hn) as H1.
  pose proof (fold_nf_le (tbl t) (lru_new (S (cap t)))) as H2.
  unfold occupied_count in H1 at 2. simpl tbl in H1. fold isS in H1.
  rewrite count_repeat_false in H1 by reflexivity. simpl num_filled in H1, H2.
  unfold occupied_count in H1 at 1. fold isS in H1. unfold occupied_count. fold isS. lia.
Qed.

Definition OccInv (t : lru) : Prop := length (tbl t) = 2 ^ cap t /\ occupied_count t <= num_filled t.

Lemma insert_OccInv t k v h : OccInv t -> OccInv (insert t k v h).
Proof.
  intros [Hl Ho]. split; [apply insert_len; exact Hl|].
  unfold insert. destruct (needs_grow t).
  - pose proof (insert_raw_occ (grow t) k v h (grow_len t)) as H1.
    pose proof (grow_occ t) as H2. assert (num_filled (grow t) = num_filled t) by reflexivity. lia.
  - pose proof (insert_raw_occ t k v h Hl) as H1. lia.
Qed.

Theorem final_OccInv c ops : OccInv (final (lru_new c) ops).
Proof.
  assert (G : forall t, OccInv t -> OccInv (final t ops)).
  { induction ops as [|o r IH]; intros t Hi; simpl; auto.
    apply IH. destruct o as [k v h|k h]; cbn [step fst]; [apply insert_OccInv; exact Hi|exact Hi]. }
  apply G. split; [simpl; apply repeat_length|].
  unfold occupied_count. simpl. rewrite count_repeat_false by reflexivity. lia.
Qed.

(* --- load bound: the counter exceeds GROW_RATIO * slots by at most one entry --- *)
Definition LoadInv (t : lru) : Prop := grow_den * num_filled t <= grow_num * 2 ^ cap t + grow_den.

Lemma insert_raw_nf_le t k v h : num_filled (insert_raw t k v h) <= S (num_filled t).
Proof. simpl. destruct (nth _ _ _); lia. Qed.

Lemma insert_LoadInv t k v h :
  grow_num < grow_den -> grow_den <= 2 * grow_num -> LoadInv t -> LoadInv (insert t k v h).
Proof.
  unfold LoadInv. intros H1 H2 Hi. unfold insert.
  destruct (needs_grow t) eqn:Hg; unfold needs_grow in Hg.
  - pose proof (insert_raw_nf_le (grow t) k v h) as Hn.
    assert (Hc : cap (insert_raw (grow t) k v h) = S (cap t)).
    { simpl. unfold grow. simpl. rewrite fold_cap. reflexivity. }
    assert (Hf : num_filled (grow t) = num_filled t) by reflexivity.
    rewrite Hc, Nat.pow_succ_r'. rewrite Hf in Hn.
    set (x := 2 ^ cap t) in *. set (nf := num_filled t) in *.
    set (nf' := num_filled (insert_raw (grow t) k v h)) in *.
    assert (Hx : 1 <= x) by (unfold x; clear; induction (cap t); simpl; lia).
    assert (Hkey : grow_den * nf <= 2 * grow_num * x).
    { destruct (Nat.eq_dec x 1) as [E|E].
      - rewrite E in *. assert (nf <= 1) by nia. nia.
      - assert (2 <= x) by lia. nia. }
    nia.
  - apply Nat.ltb_ge in Hg. pose proof (insert_raw_nf_le t k v h) as Hn.
    assert (Hc : cap (insert_raw t k v h) = cap t) by reflexivity. rewrite Hc. nia.
Qed.

Theorem final_LoadInv c ops :
  grow_num < grow_den -> grow_den <= 2 * grow_num -> LoadInv (final (lru_new c) ops).
Proof.
  intros H1 H2.
  assert (G : forall t, LoadInv t -> LoadInv (final t ops)).
  { induction ops as [|o r IH]; intros t Hi; simpl; auto.
    apply IH. destruct o as [k v h|k h]; cbn [step fst]; [apply insert_LoadInv; assumption|exact Hi]. }
  apply G. unfold LoadInv. simpl. lia.
Qed.
