(* C04: the local normal form of compressed and trimmed SDDs ([nf], hereditary), variable
   confinement as a semantic fact ([under_agree]), and its first consequence: a well-formed
   pointer that is not the constant pointer does not denote a constant ([nf_sat]). *)
From Coq Require Import Bool NArith List Lia Arith Permutation.
Import ListNotations.
From RsddV Require Import Base.Bdd Base.Util Model.SddVtree Model.SddOps Proofs.SddBase.
From RsddV Require Import Proofs.SddCmp Proofs.SddVtree Proofs.SddInv Proofs.SddLoops Proofs.SddNode.

(* complement normalisation of unique_bdd / unique_or: the distinguished child is regular *)
Definition norm_first (s : sdd) : bool := negb (s_is_neg s || s_is_false s || s_is_neg_var s).
Definition is_lit (p : sdd) : Prop := exists v b, p = SVar v b.

(* what is_compressed / is_trimmed are meant to say, for every reachable node:
   - binary node: children differ, the high child is regular, the node is not a literal in disguise;
   - general node: at least two elements, no prime is the false pointer, subs pairwise distinct
     (compressed), not {(p,T),(q,F)} (trimmed), not two literal primes (those are binary nodes);
     the elements are in the order of sort_by_key(prime) under the derived Ord of SddPtr and the
     sub of the first element is regular (the complement convention of unique_or). *)
Fixpoint nf (p : sdd) : Prop :=
  match p with
  | ST | SF | SVar _ _ => True
  | SBdd _ _ _ lo hi => nf lo /\ nf hi /\ lo <> hi /\ norm_first hi = true /\ ~ (hi = ST /\ lo = SF)
  | SOr _ _ els =>
    (fix go (l : list elem) : Prop := match l with [] => True | (p, s) :: r => nf p /\ nf s /\ go r end) els /\
    2 <= length els /\ NoDup (map snd els) /\ Forall (fun e => fst e <> SF) els /\
    ~ (length els = 2 /\ In ST (map snd els) /\ In SF (map snd els)) /\
    ~ (length els = 2 /\ Forall (fun e => is_lit (fst e)) els) /\
    sorted_els els /\ norm_first (snd (hd (ST, ST) els)) = true
  end.
Definition nfl (els : list elem) : Prop := Forall (fun e => nf (fst e) /\ nf (snd e)) els.

Lemma nf_or c i els : nf (SOr c i els) <->
  nfl els /\ 2 <= length els /\ NoDup (map snd els) /\ Forall (fun e => fst e <> SF) els /\
  ~ (length els = 2 /\ In ST (map snd els) /\ In SF (map snd els)) /\
  ~ (length els = 2 /\ Forall (fun e => is_lit (fst e)) els) /\
  sorted_els els /\ norm_first (snd (hd (ST, ST) els)) = true.
Proof.
  cbn [nf].
  assert (E : (fix go (l : list elem) : Prop := match l with [] => True | (p, s) :: r => nf p /\ nf s /\ go r end) els <-> nfl els).
  { unfold nfl. induction els as [|[p s] r IH]; split; intros H; auto.
    - destruct H as (H1 & H2 & H3). constructor; [auto | apply IH; exact H3].
    - inversion H as [|? ? [H1 H2] H3]; subst. simpl in *. repeat split; auto. apply IH; exact H3. }
  rewrite E. reflexivity.
Qed.

Lemma nf_sneg p : nf p -> nf (sneg p).
Proof. destruct p; simpl; auto. Qed.
Lemma nf_adj c p : nf p -> nf (adj c p).
Proof. destruct c; simpl; auto using nf_sneg. Qed.
Lemma nf_const p : s_is_const p = true -> nf p.
Proof. destruct p; simpl; try discriminate; auto. Qed.

(* ---- confinement, semantically: the value only depends on the variables of the sub-vtree ---- *)
Definition agree (vs : list var) (a a' : asg) : Prop := forall v, In v vs -> a v = a' v.

Lemma den_els_agree els a a' :
  Forall (fun e => sden (fst e) a = sden (fst e) a' /\ sden (snd e) a = sden (snd e) a') els ->
  den_els els a = den_els els a'.
Proof. induction 1 as [|[p s] r [H1 H2] _ IH]; auto. rewrite !den_els_cons. simpl in *. rewrite H1, H2, IH. reflexivity. Qed.

Lemma under_agree : forall p u off a a', under u off p -> agree (vleaves u) a a' -> sden p a = sden p a'.
Proof.
  induction p as [| |v b|c lb i lo hi IHlo IHhi|c i els IH] using sdd_ind'; intros u off a a' Hu Ha; auto.
  - apply under_var_in in Hu. simpl. rewrite (Ha v Hu). reflexivity.
  - destruct (under_locate u off _ Hu eq_refl) as (l & r & off' & Ho & Hn); [discriminate|].
    pose proof (occurs_leaves _ _ _ _ Ho) as Hinc. simpl in Hinc.
    destruct Hn as [(c0 & lbl0 & lo0 & hi0 & [= <- <- -> <- <-] & H1 & H2 & H3)|(c0 & els0 & [=] & _)].
    assert (Hr : agree (vleaves r) a a') by (intros v Hv; apply Ha, Hinc, in_or_app; auto).
    simpl. rewrite (Ha lb) by (apply Hinc, in_or_app; auto).
    rewrite (IHlo r _ a a' H2 Hr), (IHhi r _ a a' H3 Hr). reflexivity.
  - destruct (under_locate u off _ Hu eq_refl) as (l & r & off' & Ho & Hn); [discriminate|].
    pose proof (occurs_leaves _ _ _ _ Ho) as Hinc. simpl in Hinc.
    destruct Hn as [(c0 & lbl0 & lo0 & hi0 & [=] & _)|(c0 & els0 & [= <- -> <-] & H1 & H2 & H3)].
    assert (Hl : agree (vleaves l) a a') by (intros v Hv; apply Ha, Hinc, in_or_app; auto).
    assert (Hr : agree (vleaves r) a a') by (intros v Hv; apply Ha, Hinc, in_or_app; auto).
    rewrite !sden_or. f_equal. apply den_els_agree.
    unfold okl in H2. rewrite Forall_forall in *. intros e He.
    destruct (IH e He) as [I1 I2]. destruct (H2 e He) as [U1 U2]. split; eauto.
Qed.

(* gluing an assignment for the left variables to one for the right variables *)
Definition glue (vs : list var) (al ar : asg) : asg :=
  fun v => if existsb (N.eqb v) vs then al v else ar v.
Lemma glue_l vs al ar : agree vs (glue vs al ar) al.
Proof.
  intros v Hv. unfold glue. replace (existsb (N.eqb v) vs) with true; auto.
  symmetry. apply existsb_exists. exists v. split; auto. apply N.eqb_refl.
Qed.
Lemma glue_r vs ws al ar : (forall v, In v vs -> In v ws -> False) -> agree ws (glue vs al ar) ar.
Proof.
  intros Hd v Hv. unfold glue. destruct (existsb (N.eqb v) vs) eqn:E; auto.
  apply existsb_exists in E. destruct E as (x & Hx & Ex). apply N.eqb_eq in Ex. subst x. exfalso; eauto.
Qed.

Section Sat.
Variable t : vtree.
Hypothesis ND : NoDup (vleaves t).

Lemma leaves_disjoint l r off : occurs t 0 (VNode l r) off -> forall v, In v (vleaves l) -> In v (vleaves r) -> False.
Proof.
  intros Ho. pose proof (occurs_leaves _ _ _ _ Ho) as Hinc.
  assert (NDu : NoDup (vleaves (VNode l r))) by (eapply occurs_nodup; eauto).
  simpl in NDu. destruct (NoDup_app_split _ _ NDu) as (_ & _ & H). exact H.
Qed.

Definition nonconst_sem (p : sdd) : Prop :=
  (p <> SF -> exists a, sden p a = true) /\ (p <> ST -> exists a, sden p a = false).

(* a well-formed pointer other than the constant pointers denotes a non-constant function *)
Theorem nf_sat : forall p u off, occurs t 0 u off -> under u off p -> nf p -> nonconst_sem p.
Proof.
  induction p as [| |v b|c lb i lo hi IHlo IHhi|c i els IH] using sdd_ind'; intros u off Hou Hu Hn.
  - split; [intros _; exists asg0; reflexivity | congruence].
  - split; [congruence | intros _; exists asg0; reflexivity].
  - split; intros _.
    + exists (upd asg0 v b). simpl. unfold upd. rewrite N.eqb_refl. apply eqb_reflx.
    + exists (upd asg0 v (negb b)). simpl. unfold upd. rewrite N.eqb_refl. destruct b; reflexivity.
  - destruct (under_locate u off _ Hu eq_refl) as (l & r & off' & Ho & Ha); [discriminate|].
    assert (Hot : occurs t 0 (VNode l r) off') by (eapply occurs_trans; eauto).
    destruct Ha as [(c0 & lbl0 & lo0 & hi0 & [= <- <- -> <- <-] & H1 & H2 & H3)|(c0 & els0 & [=] & _)].
    destruct Hn as (Nlo & Nhi & Hne & _ & _).
    destruct (IHlo r _ (occurs_right _ _ _ _ _ Hot) H2 Nlo) as [Slo Flo].
    destruct (IHhi r _ (occurs_right _ _ _ _ _ Hot) H3 Nhi) as [Shi Fhi].
    assert (Hlb : ~ In lb (vleaves r)) by (intros Hr; eapply leaves_disjoint; eauto).
    assert (Hup : forall a bv q, under r (S (off' + vsize l)) q -> sden q (upd a lb bv) = sden q a).
    { intros a bv q Hq. apply (under_agree q r _ _ _ Hq). intros v Hv. unfold upd.
      destruct (N.eqb_spec v lb); [subst; contradiction | reflexivity]. }
    (* a child that can be made true, a child that can be made false *)
    assert (St : exists (a : asg) (bv : bool), (if bv then sden hi a else sden lo a) = true).
    { destruct (sdd_eqb hi SF) eqn:E.
      - apply sdd_eqb_eq in E. subst hi. destruct Slo as [a Ea]; [congruence|]. exists a, false. exact Ea.
      - apply sdd_eqb_neq in E. destruct (Shi E) as [a Ea]. exists a, true. exact Ea. }
    assert (Sf : exists (a : asg) (bv : bool), (if bv then sden hi a else sden lo a) = false).
    { destruct (sdd_eqb hi ST) eqn:E.
      - apply sdd_eqb_eq in E. subst hi. destruct Flo as [a Ea]; [congruence|]. exists a, false. exact Ea.
      - apply sdd_eqb_neq in E. destruct (Fhi E) as [a Ea]. exists a, true. exact Ea. }
    destruct St as (a1 & b1 & E1). destruct Sf as (a2 & b2 & E2).
    assert (V1 : (if upd a1 lb b1 lb then sden hi (upd a1 lb b1) else sden lo (upd a1 lb b1)) = true).
    { unfold upd at 1. rewrite N.eqb_refl. rewrite !Hup by auto. destruct b1; exact E1. }
    assert (V2 : (if upd a2 lb b2 lb then sden hi (upd a2 lb b2) else sden lo (upd a2 lb b2)) = false).
    { unfold upd at 1. rewrite N.eqb_refl. rewrite !Hup by auto. destruct b2; exact E2. }
    split; intros _; destruct c.
    + exists (upd a2 lb b2). cbn [sden]. rewrite V2. reflexivity.
    + exists (upd a1 lb b1). cbn [sden]. rewrite V1. reflexivity.
    + exists (upd a1 lb b1). cbn [sden]. rewrite V1. reflexivity.
    + exists (upd a2 lb b2). cbn [sden]. rewrite V2. reflexivity.
  - destruct (under_locate u off _ Hu eq_refl) as (l & r & off' & Ho & Ha); [discriminate|].
    assert (Hot : occurs t 0 (VNode l r) off') by (eapply occurs_trans; eauto).
    destruct Ha as [(c0 & lbl0 & lo0 & hi0 & [=] & _)|(c0 & els0 & [= <- -> <-] & H1 & H2 & H3)].
    apply nf_or in Hn. destruct Hn as (Nl & Hlen & Hnd & HnF & _ & _).
    (* every element can be selected: its prime is satisfiable on the left variables *)
    assert (Sel : forall p s bv, In (p, s) els -> (exists ar, sden s ar = bv) -> exists a, den_els els a = bv).
    { intros p s bv Hin [ar Ear].
      unfold okl in H2. rewrite Forall_forall in H2, IH, HnF. unfold nfl in Nl. rewrite Forall_forall in Nl.
      destruct (H2 _ Hin) as [Up Us]. destruct (IH _ Hin) as [Ip _]. destruct (Nl _ Hin) as [Np _]. simpl in *.
      destruct (Ip l off' (occurs_left _ _ _ _ _ Hot) Up Np) as [Sp _].
      destruct (Sp (HnF _ Hin)) as [al Eal].
      exists (glue (vleaves l) al ar).
      assert (E1 : sden p (glue (vleaves l) al ar) = true).
      { rewrite (under_agree p l off' _ al Up (glue_l _ _ _)). exact Eal. }
      assert (E2 : sden s (glue (vleaves l) al ar) = bv).
      { rewrite (under_agree s r _ _ ar Us); [exact Ear|]. apply glue_r. eapply leaves_disjoint; eauto. }
      rewrite (excl_den els p s _ ltac:(rewrite H3; lia) Hin E1). exact E2. }
    (* some sub is not the false pointer, some sub is not the true pointer *)
    assert (Two : forall k : sdd, exists p s, In (p, s) els /\ s <> k).
    { intros k. destruct els as [|[p0 s0] [|[p1 s1] rest]]; simpl in Hlen; try lia.
      simpl in Hnd. inversion Hnd as [|? ? Hn0 _]; subst.
      destruct (sdd_eqb s0 k) eqn:E.
      - apply sdd_eqb_eq in E. subst k. exists p1, s1. split; [simpl; auto|]. intros ->. apply Hn0. simpl; auto.
      - apply sdd_eqb_neq in E. exists p0, s0. split; [simpl; auto | exact E]. }
    assert (SubNC : forall p s, In (p, s) els -> nonconst_sem s).
    { intros p s Hin. unfold okl in H2. rewrite Forall_forall in H2, IH. unfold nfl in Nl. rewrite Forall_forall in Nl.
      destruct (H2 _ Hin) as [_ Us]. destruct (IH _ Hin) as [_ Is]. destruct (Nl _ Hin) as [_ Ns].
      apply (Is r _ (occurs_right _ _ _ _ _ Hot) Us Ns). }
    destruct (Two SF) as (p1 & s1 & In1 & Ne1). destruct (Two ST) as (p2 & s2 & In2 & Ne2).
    destruct (SubNC _ _ In1) as [S1 _]. destruct (SubNC _ _ In2) as [_ F2].
    destruct (Sel p1 s1 true In1 (S1 Ne1)) as [a1 V1]. destruct (Sel p2 s2 false In2 (F2 Ne2)) as [a2 V2].
    split; intros _; destruct c.
    + exists a2. rewrite sden_or, V2. reflexivity.
    + exists a1. rewrite sden_or, V1. reflexivity.
    + exists a1. rewrite sden_or, V1. reflexivity.
    + exists a2. rewrite sden_or, V2. reflexivity.
Qed.

End Sat.
