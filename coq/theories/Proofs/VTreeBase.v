(* List lemmas used by the VTree proofs: index_of / first_occ / slices / list_min / map_opt. *)
From Coq Require Import Bool List Lia Arith Permutation.
Import ListNotations.
From RsddV Require Import Base.Util Model.VTree.

Lemma path_eqb_true a b : path_eqb a b = true <-> a = b.
Proof. unfold path_eqb. destruct (list_eq_dec bool_dec a b); split; auto; discriminate. Qed.
Lemma path_eqb_refl a : path_eqb a a = true.
Proof. apply path_eqb_true; auto. Qed.
Lemma path_eqb_false a b : path_eqb a b = false <-> a <> b.
Proof. unfold path_eqb. destruct (list_eq_dec bool_dec a b); split; auto; try discriminate. tauto. Qed.

(* ---------- index_of ---------- *)
Lemma index_of_Some p l i : index_of p l = Some i -> nth_error l i = Some p /\ i < length l.
Proof.
  revert i; induction l as [|x t IH]; intros i H; simpl in *; [discriminate|].
  destruct (path_eqb p x) eqn:E.
  - inversion H; subst. apply path_eqb_true in E; subst. simpl. split; auto; lia.
  - destruct (index_of p t) as [j|]; simpl in H; [|discriminate]. inversion H; subst.
    destruct (IH j eq_refl). simpl. split; auto; lia.
Qed.

Lemma index_of_In p l : In p l -> exists i, index_of p l = Some i.
Proof.
  induction l as [|x t IH]; intros H; simpl in *; [tauto|].
  destruct (path_eqb p x) eqn:E; [eauto|].
  destruct H as [->|H]; [rewrite path_eqb_refl in E; discriminate|].
  destruct (IH H) as (i & ->). simpl; eauto.
Qed.

Lemma index_of_None p l : ~ In p l -> index_of p l = None.
Proof.
  induction l as [|x t IH]; intros H; simpl in *; auto.
  destruct (path_eqb p x) eqn:E; [apply path_eqb_true in E; subst; tauto|].
  rewrite IH; auto.
Qed.

Lemma index_of_nth p l i : NoDup l -> nth_error l i = Some p -> index_of p l = Some i.
Proof.
  revert i; induction l as [|x t IH]; intros [|i] ND H; simpl in *; try discriminate.
  - inversion H; subst. rewrite path_eqb_refl; auto.
  - inversion ND as [|? ? Hn ND']; subst. destruct (path_eqb p x) eqn:E.
    + apply path_eqb_true in E; subst. exfalso. apply Hn. eapply nth_error_In; eauto.
    + rewrite (IH i ND' H). reflexivity.
Qed.

Lemma index_of_app_in p l1 l2 : In p l1 -> index_of p (l1 ++ l2) = index_of p l1.
Proof.
  induction l1 as [|x t IH]; intros H; simpl in *; [tauto|].
  destruct (path_eqb p x) eqn:E; auto.
  destruct H as [->|H]; [rewrite path_eqb_refl in E; discriminate|]. rewrite IH; auto.
Qed.

Lemma index_of_app_notin p l1 l2 : ~ In p l1 ->
  index_of p (l1 ++ l2) = option_map (fun i => length l1 + i) (index_of p l2).
Proof.
  induction l1 as [|x t IH]; intros H; simpl in *.
  - destruct (index_of p l2); reflexivity.
  - destruct (path_eqb p x) eqn:E; [apply path_eqb_true in E; subst; tauto|].
    rewrite IH by tauto. destruct (index_of p l2); reflexivity.
Qed.

Lemma index_of_map_cons b p l : index_of (b :: p) (map (cons b) l) = index_of p l.
Proof.
  induction l as [|x t IH]; simpl; auto.
  replace (path_eqb (b :: p) (b :: x)) with (path_eqb p x).
  - rewrite IH; reflexivity.
  - destruct (path_eqb p x) eqn:E.
    + apply path_eqb_true in E; subst. symmetry; apply path_eqb_refl.
    + symmetry. apply path_eqb_false. apply path_eqb_false in E. congruence.
Qed.

Lemma index_of_map_app (pre : path) p l : index_of (pre ++ p) (map (app pre) l) = index_of p l.
Proof.
  induction pre as [|b pre IH]; simpl.
  - rewrite map_id. reflexivity.
  - rewrite <- IH. rewrite <- (index_of_map_cons b (pre ++ p) (map (app pre) l)). rewrite map_map. reflexivity.
Qed.

(* ---------- first_occ under an injective map ---------- *)
Lemma first_occ_map (G : path -> nat) p l :
  (forall x, In x l -> G x = G p -> x = p) ->
  first_occ (G p) (map G l) = index_of p l.
Proof.
  induction l as [|x t IH]; intros Hinj; simpl; auto.
  destruct (G p =? G x) eqn:E.
  - apply Nat.eqb_eq in E. rewrite (Hinj x (or_introl eq_refl) (eq_sym E)). rewrite path_eqb_refl. reflexivity.
  - destruct (path_eqb p x) eqn:E2.
    + apply path_eqb_true in E2; subst. rewrite Nat.eqb_refl in E. discriminate.
    + rewrite IH; auto. intros y Hy. apply Hinj. right; auto.
Qed.

(* ---------- slices ---------- *)
Definition slice {A} (l : list A) (i j : nat) : list A := firstn (j - i) (skipn i l).

Lemma slice_cons {A} (x : A) l i j : slice (x :: l) (S i) (S j) = slice l i j.
Proof. reflexivity. Qed.

Lemma slice_app_l {A} (l1 l2 : list A) i j : j <= length l1 -> slice (l1 ++ l2) i j = slice l1 i j.
Proof.
  intros H. unfold slice. destruct (le_lt_dec i (length l1)) as [Hi|Hi].
  - rewrite skipn_app. replace (i - length l1) with 0 by lia. simpl.
    rewrite firstn_app. rewrite skipn_length. replace (j - i - (length l1 - i)) with 0 by lia.
    simpl. apply app_nil_r.
  - replace (j - i) with 0 by lia. reflexivity.
Qed.

Lemma slice_app_r {A} (l1 l2 : list A) i j : length l1 <= i ->
  slice (l1 ++ l2) i j = slice l2 (i - length l1) (j - length l1).
Proof.
  intros H. unfold slice. rewrite skipn_app. rewrite skipn_all2 by lia. simpl.
  replace (j - length l1 - (i - length l1)) with (j - i) by lia. reflexivity.
Qed.

Lemma slice_app_r2 {A} (l1 l2 : list A) n i j : length l1 = n ->
  slice (l1 ++ l2) (n + i) (n + j) = slice l2 i j.
Proof. intros H. rewrite slice_app_r by lia. f_equal; lia. Qed.

Lemma slice_map {A B} (f : A -> B) l i j : slice (map f l) i j = map f (slice l i j).
Proof. unfold slice. rewrite skipn_map, firstn_map. reflexivity. Qed.

Lemma In_firstn {A} (l : list A) n x : In x (firstn n l) -> In x l.
Proof. revert n; induction l as [|y t IH]; intros [|n] H; simpl in *; try tauto. destruct H; eauto. Qed.
Lemma In_skipn {A} (l : list A) n x : In x (skipn n l) -> In x l.
Proof. revert n; induction l as [|y t IH]; intros [|n] H; simpl in *; try tauto. eauto. Qed.
Lemma slice_In {A} (l : list A) i j x : In x (slice l i j) -> In x l.
Proof. unfold slice. intros H. eapply In_skipn, In_firstn, H. Qed.

Lemma slice_nth {A} (l : list A) i j k x : nth_error l k = Some x -> i <= k < j -> In x (slice l i j).
Proof.
  unfold slice. revert i j k. induction l as [|y t IH]; intros i j k H Hk.
  - destruct k; discriminate.
  - destruct i as [|i].
    + simpl. destruct j as [|j]; [lia|]. simpl. destruct k as [|k]; simpl in H.
      * inversion H; auto.
      * right. specialize (IH 0 j k H ltac:(lia)). simpl in IH. rewrite Nat.sub_0_r in IH. exact IH.
    + destruct k as [|k]; [lia|]. destruct j as [|j]; [lia|]. simpl in *.
      apply (IH i j k H). lia.
Qed.

(* ---------- list_min ---------- *)
Lemma list_min_spec l m : In m l -> (forall x, In x l -> m <= x) -> list_min l = Some m.
Proof.
  induction l as [|y t IH]; intros Hin Hle; simpl in *; [tauto|].
  destruct t as [|z t'].
  - simpl. destruct Hin as [->|[]]. reflexivity.
  - destruct Hin as [->|Hin].
    + destruct (list_min (z :: t')) as [m'|] eqn:E; auto.
      assert (In m' (z :: t')).
      { clear -E. revert m' E. induction (z :: t') as [|a u IHu]; intros m' E; simpl in *; [discriminate|].
        destruct (list_min u) as [w|] eqn:Eu.
        - inversion E; subst. destruct (Nat.min_spec a w) as [[_ ->]|[_ ->]]; auto.
        - inversion E; auto. }
      f_equal. specialize (Hle m' (or_intror H)). lia.
    + rewrite (IH Hin) by (intros x Hx; apply Hle; right; auto).
      f_equal. specialize (Hle y (or_introl eq_refl)). lia.
Qed.

(* ---------- map_opt ---------- *)
Lemma map_opt_Some {A B} (f : A -> option B) (g : A -> B) l :
  (forall x, In x l -> f x = Some (g x)) -> map_opt f l = Some (map g l).
Proof.
  induction l as [|x t IH]; intros H; simpl; auto.
  rewrite (H x (or_introl eq_refl)), IH; auto. intros y Hy; apply H; right; auto.
Qed.
