(* C04, canonicity, the step of Darwiche's theorem that is proved here: two compressed partitions
   of the same function at one vtree node have the same elements, GIVEN that semantic equality
   implies pointer equality for the primes (below the left child) and for the subs (below the
   right child). *)
From Coq Require Import Bool NArith List Lia Arith Permutation.
Import ListNotations.
From RsddV Require Import Base.Bdd Base.Util Model.SddVtree Model.SddOps Proofs.SddBase.
From RsddV Require Import Proofs.SddVtree Proofs.SddInv Proofs.SddLoops Proofs.SddNode Proofs.SddWf.

Section Canon.
Variable t : vtree.
Hypothesis ND : NoDup (vleaves t).
Variables l r : vtree.
Variable off : nat.
Hypothesis Ho : occurs t 0 (VNode l r) off.
Notation m := (off + vsize l).
Notation okl := (okl (under l off) (under r (S m))).

(* canonicity of the children, as hypotheses *)
Hypothesis CanP : forall p q, under l off p -> under l off q -> (forall a, sden p a = sden q a) -> p = q.
Hypothesis CanS : forall p q, under r (S m) p -> under r (S m) q -> (forall a, sden p a = sden q a) -> p = q.

Lemma cnt_pos_in els a : 1 <= cnt els a -> exists p s, In (p, s) els /\ sden p a = true.
Proof.
  induction els as [|[p s] rest IH]; [simpl; unfold cnt; simpl; lia|].
  rewrite cnt_cons. destruct (sden p a) eqn:E.
  - intros _. exists p, s. split; [left; reflexivity | exact E].
  - intros H. destruct IH as (p' & s' & Hin & Hp); [simpl in H; lia|]. exists p', s'. split; [right; exact Hin | exact Hp].
Qed.

Lemma nodup_snd_inj (els : list elem) p q s : NoDup (map snd els) -> In (p, s) els -> In (q, s) els -> p = q.
Proof.
  induction els as [|[p0 s0] rest IH]; intros Hn H1 H2; [destruct H1|].
  simpl in Hn. apply NoDup_cons_iff in Hn. destruct Hn as [Hni Hn'].
  destruct H1 as [E1|H1]; destruct H2 as [E2|H2].
  - congruence.
  - exfalso. apply Hni. injection E1 as _ ->. apply (in_map snd _ _ H2).
  - exfalso. apply Hni. injection E2 as _ ->. apply (in_map snd _ _ H1).
  - auto.
Qed.

Section OneWay.
Variables X Y : list elem.
Hypothesis HX : okl X.
Hypothesis HY : okl Y.
Hypothesis PX : part X.
Hypothesis PY : part Y.
Hypothesis DY : NoDup (map snd Y).
Hypothesis DX : NoDup (map snd X).
Hypothesis Heq : forall a, den_els X a = den_els Y a.

(* elements whose primes overlap have the same sub *)
Lemma overlap_same_sub p s q u a0 : In (p, s) X -> In (q, u) Y -> sden p a0 = true -> sden q a0 = true -> s = u.
Proof.
  intros Hx Hy Ep Eq.
  destruct (okl_in _ _ X p s HX Hx) as [Up Us]. destruct (okl_in _ _ Y q u HY Hy) as [Uq Uu].
  apply CanS; auto. intros a.
  set (g := glue (vleaves l) a0 a).
  assert (Ag : agree (vleaves r) g a) by (apply glue_r; eapply leaves_disjoint; eauto).
  assert (Al : agree (vleaves l) g a0) by apply glue_l.
  assert (E1 : sden p g = true) by (rewrite (under_agree p l off g a0 Up Al); exact Ep).
  assert (E2 : sden q g = true) by (rewrite (under_agree q l off g a0 Uq Al); exact Eq).
  rewrite <- (under_agree s r _ g a Us Ag), <- (under_agree u r _ g a Uu Ag).
  rewrite <- (excl_den X p s g ltac:(rewrite PX; lia) Hx E1).
  rewrite <- (excl_den Y q u g ltac:(rewrite PY; lia) Hy E2). apply Heq.
Qed.

Lemma element_transfer p s : In (p, s) X -> (exists a, sden p a = true) -> In (p, s) Y.
Proof.
  intros Hx [a0 E0].
  destruct (cnt_pos_in Y a0 ltac:(rewrite PY; lia)) as (q & u & Hy & Eq).
  assert (Esu : s = u) by (apply (overlap_same_sub p s q u a0 Hx Hy E0 Eq)). subst u.
  destruct (okl_in _ _ X p s HX Hx) as [Up Us]. destruct (okl_in _ _ Y q s HY Hy) as [Uq _].
  assert (Epq : p = q).
  { apply CanP; auto. intros a. destruct (sden p a) eqn:Ea; destruct (sden q a) eqn:Eb; auto.
    - (* p holds, q does not: the element of Y that holds has the same sub, hence is (q, s) *)
      destruct (cnt_pos_in Y a ltac:(rewrite PY; lia)) as (q' & u' & Hy' & Eq').
      assert (s = u') by (apply (overlap_same_sub p s q' u' a Hx Hy' Ea Eq')). subst u'.
      assert (q' = q) by (apply (nodup_snd_inj Y q' q s DY Hy' Hy)). subst q'. congruence.
    - destruct (cnt_pos_in X a ltac:(rewrite PX; lia)) as (p' & s' & Hx' & Ep').
      assert (s' = s) by (apply (overlap_same_sub p' s' q s a Hx' Hy Ep' Eb)). subst s'.
      assert (p' = p) by (apply (nodup_snd_inj X p' p s DX Hx' Hx)). subst p'. congruence. }
  subst q. exact Hy.
Qed.
End OneWay.

(* uniqueness of compressed partitions, given canonical children *)
Theorem partition_unique X Y : okl X -> okl Y -> part X -> part Y ->
  NoDup (map snd X) -> NoDup (map snd Y) -> satl X -> satl Y ->
  (forall a, den_els X a = den_els Y a) ->
  forall e, In e X <-> In e Y.
Proof.
  intros HX HY PX PY DX DY SX SY Heq [p s]. unfold satl in *. rewrite Forall_forall in SX, SY. split; intros H.
  - apply (element_transfer X Y HX HY PX PY DY DX Heq p s H). apply (SX _ H).
  - apply (element_transfer Y X HY HX PY PX DX DY (fun a => eq_sym (Heq a)) p s H). apply (SY _ H).
Qed.

End Canon.
