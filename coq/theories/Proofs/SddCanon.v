(* C04, canonicity.  Part 1 (this file): at one vtree node (VNode l r), GIVEN canonicity below l
   and below r: uniqueness of compressed partitions, and the four ways two well-formed pointers
   below the node can be related (same node; node vs. left; node vs. right; left vs. right). *)
From Coq Require Import Bool NArith List Lia Arith Permutation.
Import ListNotations.
From RsddV Require Import Base.Bdd Base.Util Model.SddVtree Model.SddOps Proofs.SddBase Proofs.SddCmp.
From RsddV Require Import Proofs.SddVtree Proofs.SddInv Proofs.SddLoops Proofs.SddNode Proofs.SddWf Proofs.SddWfOps.

(* semantic equality implies pointer equality, for well-formed pointers below u *)
Definition canon_at (u : vtree) (off : nat) : Prop :=
  forall p q, under u off p -> under u off q -> nf p -> nf q -> (forall a, sden p a = sden q a) -> p = q.

Lemma adj_invol c s : adj c (adj c s) = s.
Proof. destruct c; simpl; auto using sneg_invol. Qed.
Lemma adj_xorb c d s : adj c (adj d s) = adj (xorb c d) s.
Proof. destruct c, d; simpl; auto using sneg_invol. Qed.

Lemma cnt_pos_in els a : 1 <= cnt els a -> exists p s, In (p, s) els /\ sden p a = true.
Proof.
  induction els as [|[p s] rest IH]; [unfold cnt; simpl; lia|].
  rewrite cnt_cons. destruct (sden p a) eqn:E.
  - intros _. exists p, s. split; [left; reflexivity | exact E].
  - intros H. destruct IH as (p' & s' & Hin & Hp); [simpl in H; lia|]. exists p', s'. split; [right; exact Hin | exact Hp].
Qed.

Lemma nodup_snd_inj (els : list elem) p q s : NoDup (map snd els) -> In (p, s) els -> In (q, s) els -> p = q.
Proof.
  induction els as [|[p0 s0] rest IH]; intros Hn H1 H2; [destruct H1|].
  simpl in Hn. apply NoDup_cons_iff in Hn. destruct Hn as [Hni Hn'].
  destruct H1 as [E1|H1]; destruct H2 as [E2|H2].
  - congruence.
  - exfalso. apply Hni. injection E1 as _ ->. apply (in_map snd _ _ H2).
  - exfalso. apply Hni. injection E2 as _ ->. apply (in_map snd _ _ H1).
  - auto.
Qed.

(* exclusive satisfiable primes are pairwise distinct pointers *)
Lemma excl_sat_nodup_primes (els : list elem) : excl els -> satl els -> NoDup (map fst els).
Proof.
  induction els as [|[p s] rest IH]; intros Hex Hs; simpl; [constructor|].
  inversion Hs as [|? ? [a Ha] Hs']; subst. simpl in Ha.
  assert (Hex' : excl rest) by (intros b; specialize (Hex b); rewrite cnt_cons in Hex; lia).
  constructor; auto. intros Hin. apply in_map_iff in Hin. destruct Hin as ([p' s'] & Ep & Hin). simpl in Ep. subst p'.
  specialize (Hex a). rewrite cnt_cons, Ha in Hex.
  assert (1 <= cnt rest a); [|lia].
  clear -Hin Ha. induction rest as [|[q u] r IH]; [destruct Hin|]. rewrite cnt_cons.
  destruct Hin as [[= -> ->]|Hin]; [rewrite Ha; lia | specialize (IH Hin); lia].
Qed.

Section Canon.
Variable t : vtree.
Hypothesis ND : NoDup (vleaves t).

(* a well-formed pointer that denotes a constant is the constant pointer *)
Lemma sem_const u off p : occurs t 0 u off -> under u off p -> nf p ->
  (forall a a', sden p a = sden p a') -> s_is_const p = true.
Proof.
  intros Ho Hu Hn Hc. destruct (nf_sat t ND p u off Ho Hu Hn) as [S F].
  destruct p; try reflexivity; exfalso.
  all: destruct S as [a1 E1]; [discriminate|]; destruct F as [a2 E2]; [discriminate|]; rewrite (Hc a1 a2) in E1; congruence.
Qed.

Section Node.
Variables l r : vtree.
Variable off : nat.
Hypothesis Ho : occurs t 0 (VNode l r) off.
Notation m := (off + vsize l).
Notation okl := (okl (under l off) (under r (S m))).
Hypothesis CanP : canon_at l off.
Hypothesis CanS : canon_at r (S m).

Lemma Hdis : forall v, In v (vleaves l) -> In v (vleaves r) -> False.
Proof. eapply leaves_disjoint; eauto. Qed.

(* ---- uniqueness of compressed partitions ---- *)
Section OneWay.
Variables X Y : list elem.
Hypothesis HX : okl X.
Hypothesis HY : okl Y.
Hypothesis NX : nfl X.
Hypothesis NY : nfl Y.
Hypothesis PX : part X.
Hypothesis PY : part Y.
Hypothesis DY : NoDup (map snd Y).
Hypothesis DX : NoDup (map snd X).
Hypothesis Heq : forall a, den_els X a = den_els Y a.

Lemma nfl_in (Z : list elem) p s : nfl Z -> In (p, s) Z -> nf p /\ nf s.
Proof. unfold nfl. rewrite Forall_forall. intros H Hin. apply (H (p, s) Hin). Qed.

Lemma overlap_same_sub p s q u a0 : In (p, s) X -> In (q, u) Y -> sden p a0 = true -> sden q a0 = true -> s = u.
Proof.
  intros Hx Hy Ep Eq.
  destruct (okl_in _ _ X p s HX Hx) as [Up Us]. destruct (okl_in _ _ Y q u HY Hy) as [Uq Uu].
  destruct (nfl_in X p s NX Hx) as [_ Ns]. destruct (nfl_in Y q u NY Hy) as [_ Nu].
  apply CanS; auto. intros a.
  set (g := glue (vleaves l) a0 a).
  assert (Ag : agree (vleaves r) g a) by (apply glue_r; exact Hdis).
  assert (Al : agree (vleaves l) g a0) by apply glue_l.
  assert (E1 : sden p g = true) by (rewrite (under_agree p l off g a0 Up Al); exact Ep).
  assert (E2 : sden q g = true) by (rewrite (under_agree q l off g a0 Uq Al); exact Eq).
  rewrite <- (under_agree s r _ g a Us Ag), <- (under_agree u r _ g a Uu Ag).
  rewrite <- (excl_den X p s g ltac:(rewrite PX; lia) Hx E1).
  rewrite <- (excl_den Y q u g ltac:(rewrite PY; lia) Hy E2). apply Heq.
Qed.

Lemma element_transfer p s : In (p, s) X -> (exists a, sden p a = true) -> In (p, s) Y.
Proof.
  intros Hx [a0 E0].
  destruct (cnt_pos_in Y a0 ltac:(rewrite PY; lia)) as (q & u & Hy & Eq).
  assert (Esu : s = u) by (apply (overlap_same_sub p s q u a0 Hx Hy E0 Eq)). subst u.
  destruct (okl_in _ _ X p s HX Hx) as [Up Us]. destruct (okl_in _ _ Y q s HY Hy) as [Uq _].
  destruct (nfl_in X p s NX Hx) as [Np _]. destruct (nfl_in Y q s NY Hy) as [Nq _].
  assert (Epq : p = q).
  { apply CanP; auto. intros a. destruct (sden p a) eqn:Ea; destruct (sden q a) eqn:Eb; auto.
    - destruct (cnt_pos_in Y a ltac:(rewrite PY; lia)) as (q' & u' & Hy' & Eq').
      assert (s = u') by (apply (overlap_same_sub p s q' u' a Hx Hy' Ea Eq')). subst u'.
      assert (q' = q) by (apply (nodup_snd_inj Y q' q s DY Hy' Hy)). subst q'. congruence.
    - destruct (cnt_pos_in X a ltac:(rewrite PX; lia)) as (p' & s' & Hx' & Ep').
      assert (s' = s) by (apply (overlap_same_sub p' s' q s a Hx' Hy Ep' Eb)). subst s'.
      assert (p' = p) by (apply (nodup_snd_inj X p' p s DX Hx' Hx)). subst p'. congruence. }
  subst q. exact Hy.
Qed.
End OneWay.

Theorem partition_unique X Y : okl X -> okl Y -> nfl X -> nfl Y -> part X -> part Y ->
  NoDup (map snd X) -> NoDup (map snd Y) -> satl X -> satl Y ->
  (forall a, den_els X a = den_els Y a) ->
  forall e, In e X <-> In e Y.
Proof.
  intros HX HY NX NY PX PY DX DY SX SY Heq [p s]. unfold satl in *. rewrite Forall_forall in SX, SY. split; intros H.
  - apply (element_transfer X Y HX HY NX NY PX PY DY DX Heq p s H). apply (SX _ H).
  - apply (element_transfer Y X HY HX NY NX PY PX DX DY (fun a => eq_sym (Heq a)) p s H). apply (SY _ H).
Qed.

(* ---- the element view of a well-formed node, with everything canonicity needs ---- *)
Definition not_tf (E : list elem) : Prop := ~ (length E = 2 /\ In ST (map snd E) /\ In SF (map snd E)).

Lemma view_full p : at_node l r off p -> nf p ->
  exists E, adj_elems p = Some E /\ okl E /\ nfl E /\ part E /\ satl E /\ NoDup (map snd E) /\
            2 <= length E /\ not_tf E /\ forall a, sden p a = den_els E a.
Proof.
  intros Ha Hn. destruct (at_node_view l r off p Ha) as (E & EE & Hok & Hp & Hd).
  exists E. split; [exact EE|]. split; [exact Hok|].
  destruct Ha as [(c & lbl & lo & hi & -> & H1 & H2 & H3)|(c & els & -> & H1 & H2 & H3)].
  - destruct Hn as (Nlo & Nhi & Hne & Hnorm & Hlit).
    assert (EE' : E = [(SVar lbl true, adj c hi); (SVar lbl false, adj c lo)]).
    { destruct c; simpl in EE; injection EE as <-; reflexivity. }
    subst E. repeat split; auto.
    + repeat constructor; simpl; auto using nf_adj.
    + repeat constructor; simpl.
      * exists (upd asg0 lbl true). unfold upd. rewrite N.eqb_refl. reflexivity.
      * exists asg0. reflexivity.
    + simpl. constructor; [|constructor; [intros []|constructor]]. intros [H|[]].
      apply Hne. destruct c; simpl in H; [apply sneg_inj|]; congruence.
    + intros (_ & A & B). simpl in A, B.
      destruct A as [A|[A|[]]]; destruct B as [B|[B|[]]]; destruct c; simpl in A, B;
        try (rewrite A in B; discriminate).
      all: destruct hi; try discriminate; destruct lo; try discriminate; try (apply Hlit; split; reflexivity); try (simpl in Hnorm; discriminate).
  - apply nf_or in Hn. destruct Hn as (Nl & Hlen & Hnd & HnF & Htf & _).
    assert (EE' : E = adjsubs c els) by (destruct c; simpl in EE; injection EE as <-; reflexivity).
    subst E. repeat split; auto.
    + unfold nfl, adjsubs. rewrite Forall_map. eapply Forall_impl; [|exact Nl]. intros [p s] [A B]. simpl. auto using nf_adj.
    + apply (okn_nonF_satl t ND l r off Ho).
      * apply okn_split. split; [exact Hok|].
        unfold nfl, adjsubs. rewrite Forall_map. eapply Forall_impl; [|exact Nl]. intros [p s] [A B]. simpl. auto using nf_adj.
      * unfold nonF, adjsubs. rewrite Forall_map. exact HnF.
    + unfold adjsubs. rewrite map_map. simpl. destruct c.
      * change (map (fun x : sdd * sdd => adj true (snd x)) els) with (map (fun x : sdd * sdd => sneg (snd x)) els).
        rewrite <- (map_map snd sneg). apply NoDup_map_sneg. exact Hnd.
      * unfold adj. exact Hnd.
    + unfold adjsubs. rewrite map_length. exact Hlen.
    + unfold not_tf, adjsubs. rewrite map_length, map_map. simpl. intros (L & A & B). apply Htf. split; auto.
      apply in_map_iff in A. destruct A as (e1 & A1 & A2). apply in_map_iff in B. destruct B as (e2 & B1 & B2).
      destruct c; simpl in A1, B1.
      * split; apply in_map_iff; [exists e2 | exists e1]; split; auto;
          [destruct (snd e2) | destruct (snd e1)]; try discriminate; reflexivity.
      * split; apply in_map_iff; [exists e1 | exists e2]; auto.
Qed.

(* all subs constant pointers: impossible for a trimmed compressed node *)
Lemma subs_not_all_const E : NoDup (map snd E) -> 2 <= length E -> not_tf E ->
  Forall (fun e => s_is_const (snd e) = true) E -> False.
Proof.
  intros Hnd Hlen Htf Hc. destruct E as [|[p0 s0] [|[p1 s1] rest]]; simpl in Hlen; try lia.
  inversion Hc as [|? ? C0 Hc']; subst. inversion Hc' as [|? ? C1 Hc'']; subst. simpl in C0, C1.
  simpl in Hnd. apply NoDup_cons_iff in Hnd. destruct Hnd as [N0 Hnd]. apply NoDup_cons_iff in Hnd. destruct Hnd as [N1 _].
  destruct rest as [|[p2 s2] rest'].
  - apply Htf. simpl. split; auto. simpl in N0.
    destruct s0, s1; try discriminate; simpl; auto; exfalso; apply N0; auto.
  - inversion Hc'' as [|? ? C2 _]; subst. simpl in C2, N0, N1.
    destruct s0, s1, s2; try discriminate; simpl in *; intuition.
Qed.

(* ---- a node against something below its left child ---- *)
Lemma node_vs_left X Y : at_node l r off X -> nf X -> under l off Y ->
  (forall a, sden X a = sden Y a) -> False.
Proof.
  intros Ha Hn Uy Heq. destruct (view_full X Ha Hn) as (E & _ & Hok & Nl & Hp & Hs & Hnd & Hlen & Htf & Hd).
  apply (subs_not_all_const E Hnd Hlen Htf).
  apply Forall_forall. intros [p s] Hin. simpl.
  destruct (okl_in _ _ E p s Hok Hin) as [Up Us]. destruct (nfl_in E p s Nl Hin) as [_ Ns].
  unfold satl in Hs. rewrite Forall_forall in Hs. destruct (Hs _ Hin) as [al Eal]. simpl in Eal.
  apply (sem_const r (S m) s (occurs_right _ _ _ _ _ Ho) Us Ns).
  assert (K : forall a, sden s a = sden Y al).
  { intros a. set (g := glue (vleaves l) al a).
    assert (Ag : agree (vleaves r) g a) by (apply glue_r; exact Hdis).
    assert (Al : agree (vleaves l) g al) by apply glue_l.
    assert (E1 : sden p g = true) by (rewrite (under_agree p l off g al Up Al); exact Eal).
    rewrite <- (under_agree s r _ g a Us Ag).
    rewrite <- (excl_den E p s g ltac:(rewrite Hp; lia) Hin E1), <- Hd, Heq.
    apply (under_agree Y l off g al Uy Al). }
  intros a a'. rewrite !K. reflexivity.
Qed.

(* ---- a node against something below its right child ---- *)
Lemma node_vs_right X Y : at_node l r off X -> nf X -> under r (S m) Y ->
  (forall a, sden X a = sden Y a) -> False.
Proof.
  intros Ha Hn Uy Heq. destruct (view_full X Ha Hn) as (E & _ & Hok & Nl & Hp & Hs & Hnd & Hlen & Htf & Hd).
  assert (K : forall p s, In (p, s) E -> forall a, sden s a = sden Y a).
  { intros p s Hin a.
    destruct (okl_in _ _ E p s Hok Hin) as [Up Us].
    unfold satl in Hs. rewrite Forall_forall in Hs. destruct (Hs _ Hin) as [al Eal]. simpl in Eal.
    set (g := glue (vleaves l) al a).
    assert (Ag : agree (vleaves r) g a) by (apply glue_r; exact Hdis).
    assert (Al : agree (vleaves l) g al) by apply glue_l.
    assert (E1 : sden p g = true) by (rewrite (under_agree p l off g al Up Al); exact Eal).
    rewrite <- (under_agree s r _ g a Us Ag).
    rewrite <- (excl_den E p s g ltac:(rewrite Hp; lia) Hin E1), <- Hd, Heq.
    apply (under_agree Y r _ g a Uy Ag). }
  destruct E as [|[p0 s0] [|[p1 s1] rest]]; simpl in Hlen; try lia.
  assert (s0 = s1).
  { destruct (okl_in _ _ _ p0 s0 Hok (or_introl eq_refl)) as [_ U0].
    destruct (okl_in _ _ _ p1 s1 Hok (or_intror (or_introl eq_refl))) as [_ U1].
    destruct (nfl_in _ p0 s0 Nl (or_introl eq_refl)) as [_ N0].
    destruct (nfl_in _ p1 s1 Nl (or_intror (or_introl eq_refl))) as [_ N1].
    apply CanS; auto. intros a. rewrite (K p0 s0), (K p1 s1); simpl; auto. }
  subst s1. simpl in Hnd. apply NoDup_cons_iff in Hnd. destruct Hnd as [N0 _]. apply N0. simpl. auto.
Qed.

(* ---- something below the left child against something below the right child ---- *)
Lemma left_vs_right X Y : under l off X -> nf X -> s_is_const X = false -> under r (S m) Y ->
  (forall a, sden X a = sden Y a) -> False.
Proof.
  intros Ux Nx NC Uy Heq.
  assert (C : s_is_const X = true); [|congruence].
  apply (sem_const l off X (occurs_left _ _ _ _ _ Ho) Ux Nx).
  intros a a'. set (g := glue (vleaves l) a' a).
  assert (Ag : agree (vleaves r) g a) by (apply glue_r; exact Hdis).
  assert (Al : agree (vleaves l) g a') by apply glue_l.
  rewrite (Heq a), <- (under_agree Y r _ g a Uy Ag), <- Heq. apply (under_agree X l off g a' Ux Al).
Qed.

End Node.
End Canon.
