(* C07: weighted model counts equal the semiring sum over models. *)
From Coq Require Import Bool NArith List Lia Arith Permutation.
Import ListNotations.
From RsddV Require Import Base.Bdd Model.Wmc.

(* variables tested in a diagram; free = no path tests a variable twice *)
Fixpoint support (p : bdd) : list var :=
  match p with BT | BF => [] | BN _ v lo hi => v :: support lo ++ support hi end.
Fixpoint free_bdd (p : bdd) : Prop :=
  match p with
  | BT | BF => True
  | BN _ v lo hi => ~ In v (support lo) /\ ~ In v (support hi) /\ free_bdd lo /\ free_bdd hi
  end.

Lemma den_agree p a a' : (forall v, In v (support p) -> a v = a' v) -> den p a = den p a'.
Proof.
  induction p as [| |c v lo IHlo hi IHhi]; simpl; intros H; auto.
  rewrite (H v (or_introl eq_refl)), IHlo, IHhi; auto; intros u Hu; apply H; right; apply in_or_app; auto.
Qed.

Lemma upd_comm x u v a b : u <> v -> forall w, upd (upd x u a) v b w = upd (upd x v b) u a w.
Proof. intros Hne w. unfold upd. destruct (N.eqb_spec w v), (N.eqb_spec w u); subst; congruence. Qed.

Section S.
Variable S : Type.
Variable add mul : S -> S -> S.
Variable zero one : S.
(* commutative-semiring laws actually used (instances are proved in C13) *)
Hypothesis add_comm : forall a b, add a b = add b a.
Hypothesis add_assoc : forall a b c, add (add a b) c = add a (add b c).
Hypothesis mul_assoc : forall a b c, mul (mul a b) c = mul a (mul b c).
Hypothesis mul_comm : forall a b, mul a b = mul b a.
Hypothesis mul_one_r : forall a, mul a one = a.
Hypothesis mul_zero_r : forall a, mul a zero = zero.
Hypothesis add_zero_r : forall a, add a zero = a.
Hypothesis distr_l : forall a b c, mul a (add b c) = add (mul a b) (mul a c).
Variable wlo whi : var -> S.

Notation wmc_c := (wmc_c S add mul zero one wlo whi).
Notation wmc_spec := (wmc_spec S add mul zero one wlo whi).

Lemma mul_one_l a : mul one a = a. Proof. rewrite mul_comm. apply mul_one_r. Qed.
Lemma add_zero_l a : add zero a = a. Proof. rewrite add_comm. apply add_zero_r. Qed.
Lemma mul_zero_l a : mul zero a = zero. Proof. rewrite mul_comm. apply mul_zero_r. Qed.
Lemma distr_r a b c : mul (add a b) c = add (mul a c) (mul b c).
Proof. rewrite mul_comm, distr_l, (mul_comm c a), (mul_comm c b). reflexivity. Qed.

(* the specification does not look at x on the summed variables, and respects pointwise
   equality of functions *)
Lemma wmc_spec_ext vars : forall f g x y,
  (forall a, f a = g a) -> (forall v, ~ In v vars -> x v = y v) ->
  (forall a a', (forall v, a v = a' v) -> f a = f a') ->
  wmc_spec vars f x = wmc_spec vars g y.
Proof.
  induction vars as [|v vs IH]; intros f g x y E A C; simpl.
  - rewrite <- E. rewrite (C x y); auto. 
  - rewrite (IH f g (upd x v false) (upd y v false)), (IH f g (upd x v true) (upd y v true)); auto;
      intros u Hu; unfold upd; destruct (N.eqb_spec u v); auto; apply A; simpl; intuition.
Qed.

Definition ext_fun (f : asg -> bool) : Prop := forall a a', (forall v, a v = a' v) -> f a = f a'.
Lemma den_ext_fun p : ext_fun (den p).
Proof. intros a a' H. apply den_agree. auto. Qed.

(* swapping two adjacent summation variables *)
Lemma wmc_spec_swap u v vs f x : ext_fun f ->
  wmc_spec (u :: v :: vs) f x = wmc_spec (v :: u :: vs) f x.
Proof.
  intros C. destruct (N.eq_dec u v) as [->|Hne]; [reflexivity|].
  cbn [Wmc.wmc_spec].
  rewrite !distr_l, <- !mul_assoc.
  rewrite (wmc_spec_ext vs f f (upd (upd x v false) u false) (upd (upd x u false) v false)); auto; [|intros; apply upd_comm; congruence].
  rewrite (wmc_spec_ext vs f f (upd (upd x v false) u true) (upd (upd x u true) v false)); auto; [|intros; apply upd_comm; congruence].
  rewrite (wmc_spec_ext vs f f (upd (upd x v true) u false) (upd (upd x u false) v true)); auto; [|intros; apply upd_comm; congruence].
  rewrite (wmc_spec_ext vs f f (upd (upd x v true) u true) (upd (upd x u true) v true)); auto; [|intros; apply upd_comm; congruence].
  rewrite (mul_comm (wlo v) (wlo u)), (mul_comm (wlo v) (whi u)), (mul_comm (whi v) (wlo u)), (mul_comm (whi v) (whi u)).
  rewrite !add_assoc. f_equal. rewrite <- !add_assoc. f_equal. apply add_comm.
Qed.

Lemma wmc_spec_perm vars vars' : Permutation vars vars' ->
  forall f x, ext_fun f -> wmc_spec vars f x = wmc_spec vars' f x.
Proof.
  induction 1 as [|v l l' P IH|u v l|l l' l'' P1 IH1 P2 IH2]; intros f x C; auto.
  - simpl. rewrite !IH; auto.
  - apply wmc_spec_swap; auto.
  - rewrite IH1, IH2; auto.
Qed.

(* a function that ignores v: the two branches coincide, the weights add up *)
Section Normalised.
Hypothesis w_norm : forall v, add (wlo v) (whi v) = one.

Lemma wmc_spec_const vars b x : wmc_spec vars (fun _ => b) x = if b then one else zero.
Proof.
  revert x; induction vars as [|v vs IH]; intros x; simpl; auto.
  rewrite !IH, <- distr_r, w_norm, mul_one_l. reflexivity.
Qed.

(* only the assignments that agree with x outside [vars] are ever evaluated *)
Lemma wmc_spec_local vars : forall f g x,
  (forall a, (forall u, ~ In u vars -> a u = x u) -> f a = g a) -> wmc_spec vars f x = wmc_spec vars g x.
Proof.
  induction vars as [|v vs IH]; intros f g x H; simpl.
  - rewrite (H x); auto.
  - rewrite (IH f g (upd x v false)), (IH f g (upd x v true)); auto;
      intros a Ha; apply H; intros u Hu; rewrite Ha by (simpl in Hu; intuition);
      unfold upd; destruct (N.eqb_spec u v); auto; subst; simpl in Hu; intuition.
Qed.

(* THE THEOREM (C07, normalised weights): for every diagram in which no path tests a variable
   twice -- ordered BDDs, top-down decision diagrams and smoothed diagrams alike --, regular
   or complemented, and every duplicate-free variable list covering its support, the fold
   equals the semiring sum over all assignments of the listed variables. *)
Theorem wmc_free_correct : forall p c vars x,
  free_bdd p -> NoDup vars -> incl (support p) vars ->
  wmc_c c p = wmc_spec vars (fun a => xorb c (den p a)) x.
Proof.
  induction p as [| |c' v lo IHlo hi IHhi]; intros c vars x F ND INC.
  - simpl. rewrite (wmc_spec_local vars _ (fun _ => xorb c true) x) by reflexivity.
    rewrite wmc_spec_const. destruct c; reflexivity.
  - simpl. rewrite (wmc_spec_local vars _ (fun _ => xorb c false) x) by reflexivity.
    rewrite wmc_spec_const. destruct c; reflexivity.
  - simpl in F. destruct F as (Nlo & Nhi & Flo & Fhi).
    assert (Hv : In v vars) by (apply INC; simpl; auto).
    destruct (in_split _ _ Hv) as (l1 & l2 & ->).
    assert (P : Permutation (l1 ++ v :: l2) (v :: l1 ++ l2)) by (symmetry; apply Permutation_middle).
    assert (ND' : NoDup (v :: l1 ++ l2)) by (eapply Permutation_NoDup; eauto).
    inversion ND' as [|? ? Hnv ND'']; subst.
    assert (INClo : incl (support lo) (l1 ++ l2)).
    { intros u Hu. assert (Hu' : In u (l1 ++ v :: l2)) by (apply INC; simpl; right; apply in_or_app; auto).
      apply (Permutation_in _ P) in Hu'. destruct Hu' as [<-|]; [contradiction|auto]. }
    assert (INChi : incl (support hi) (l1 ++ l2)).
    { intros u Hu. assert (Hu' : In u (l1 ++ v :: l2)) by (apply INC; simpl; right; apply in_or_app; auto).
      apply (Permutation_in _ P) in Hu'. destruct Hu' as [<-|]; [contradiction|auto]. }
    rewrite (wmc_spec_perm _ _ P) by (intros a a' H; rewrite (den_ext_fun _ a a' H); reflexivity).
    cbn [Wmc.wmc_c Wmc.wmc_spec].
    rewrite (IHlo (xorb c c') (l1 ++ l2) (upd x v false) Flo ND'' INClo).
    rewrite (IHhi (xorb c c') (l1 ++ l2) (upd x v true) Fhi ND'' INChi).
    f_equal; f_equal; apply wmc_spec_local; intros a Ha; cbn [den];
      rewrite (Ha v Hnv), upd_same; rewrite ?xorb_assoc; reflexivity.
Qed.
End Normalised.

(* ---- arbitrary weights: complete (smoothed) diagrams ---- *)
(* [complete vars p]: every path tests exactly the variables of [vars], in that order *)
Fixpoint complete (vars : list var) (p : bdd) : Prop :=
  match vars, p with
  | [], BT | [], BF => True
  | v :: vs, BN _ u lo hi => u = v /\ complete vs lo /\ complete vs hi
  | _, _ => False
  end.

Theorem wmc_complete_correct : forall vars p c x,
  NoDup vars -> complete vars p ->
  wmc_c c p = wmc_spec vars (fun a => xorb c (den p a)) x.
Proof.
  induction vars as [|v vs IH]; intros p c x ND C.
  - destruct p; simpl in C; try contradiction; simpl; destruct c; reflexivity.
  - destruct p as [| |c' u lo hi]; simpl in C; try contradiction. destruct C as (-> & Clo & Chi).
    inversion ND as [|? ? Hnv ND']; subst.
    cbn [Wmc.wmc_c Wmc.wmc_spec].
    rewrite (IH lo (xorb c c') (upd x v false) ND' Clo), (IH hi (xorb c c') (upd x v true) ND' Chi).
    f_equal; f_equal; apply wmc_spec_local; intros a Ha; cbn [den];
      rewrite (Ha v Hnv), upd_same; rewrite ?xorb_assoc; reflexivity.
Qed.
End S.

(* ---- Boolean evaluation agrees with the denoted function, for every diagram ---- *)
Theorem evaluate_correct p a : evaluate_m p a = den p a.
Proof.
  unfold evaluate_m, wmc_m.
  assert (G : forall c, Wmc.wmc_c bool orb andb false true (fun v => negb (a v)) (fun v => a v) c p = xorb c (den p a)).
  { induction p as [| |c' v lo IHlo hi IHhi]; intros c; simpl.
    - destruct c; reflexivity.
    - destruct c; reflexivity.
    - rewrite IHlo, IHhi. destruct (a v), c, c', (den lo a), (den hi a); reflexivity. }
  rewrite G. destruct (den p a); reflexivity.
Qed.
