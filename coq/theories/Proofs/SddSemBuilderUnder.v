(* C11 -- the semantic invariant [swf] of the SemanticSddBuilder theorems contains the structural
   builder invariant [under t 0] of C03: every result of the CompressionSddBuilder (both
   compression modes) is a well-formed pointer in the sense of Proofs/SddSemBuilderBase.v. *)
From Coq Require Import Bool NArith List Lia Arith.
Import ListNotations.
From RsddV Require Import Base.Bdd Base.Util Model.SddVtree Model.SddOps Model.SemHash Model.SddSemHash.
From RsddV Require Import Proofs.SddBase Proofs.SddVtree Proofs.SddInv Proofs.SddSemHash
  Proofs.SddSemBuilderBase Proofs.SddSemBuilderCheck.

Lemma dep_of_vars V p : incl (sdd_vars p) V -> dep V p.
Proof.
  intros I v Hv a b. apply sden_agree. intros u Hu. unfold upd.
  destruct (N.eqb_spec u v) as [->|]; [exfalso; apply Hv; apply I; exact Hu | reflexivity].
Qed.

Lemma under_dep u off p : under u off p -> dep (vleaves u) p.
Proof. intros H. apply dep_of_vars. eapply under_vars; eauto. Qed.

Theorem under_swf t : forall u off p, occurs t 0 u off -> under u off p -> swf t p.
Proof.
  induction u as [v|l IHl r IHr]; intros off p Ho Hu.
  - apply under_leaf_inv in Hu. destruct Hu as [->|[->|[pol ->]]]; constructor.
    eapply occurs_leaves; [exact Ho|]. simpl. auto.
  - destruct (s_is_const p) eqn:NC; [apply swf_const; exact NC|].
    destruct (under_node_inv _ _ _ _ Hu NC) as [Ha|[Hl|Hr]].
    + destruct Ha as [(c & lbl & lo & hi & -> & H1 & H2 & H3)|(c & els & -> & H1 & H2 & H3)].
      * apply (W_Bdd t l r off); auto.
        -- eapply IHr; [eapply occurs_right; exact Ho | exact H2].
        -- eapply IHr; [eapply occurs_right; exact Ho | exact H3].
        -- eapply under_dep; exact H2.
        -- eapply under_dep; exact H3.
      * apply (W_Or t l r off); auto. unfold SddInv.okl in H2. eapply Forall_impl; [|exact H2].
        intros [p s] [A B]. cbn [fst snd] in *. repeat split.
        -- eapply IHl; [eapply occurs_left; exact Ho | exact A].
        -- eapply IHr; [eapply occurs_right; exact Ho | exact B].
        -- eapply under_dep; exact A.
        -- eapply under_dep; exact B.
    + eapply IHl; [eapply occurs_left; exact Ho | exact Hl].
    + eapply IHr; [eapply occurs_right; exact Ho | exact Hr].
Qed.
