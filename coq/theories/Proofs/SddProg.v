(* Standard triples over SDD pointers (the instance of Proofs/IteStd.v for SddPtr), ite and the
   derived operations, and operation programs over a pool. *)
From Coq Require Import Bool NArith List Lia Arith Permutation.
Import ListNotations.
From RsddV Require Import Base.Bdd Base.Util Model.SddVtree Model.SddOps Proofs.SddBase.
From RsddV Require Import Proofs.SddVtree Proofs.SddInv Proofs.SddLoops Proofs.SddNode Proofs.SddAnd Proofs.SddCond.
From RsddV Require Model.Compile.

Definition ite_ (x y z : bool) := if x then y else z.
Definition sden_ite (t : site_t) (a : asg) : bool :=
  match t with
  | SIteChoice f g h => ite_ (sden f a) (sden g a) (sden h a)
  | SIteComplChoice f g h => negb (ite_ (sden f a) (sden g a) (sden h a))
  | SIteConst r => sden r a
  end.

Section IteStd.
Variable order : sdd -> sdd -> bool.
Ltac eqs :=
  repeat match goal with
  | H : sdd_eqb _ _ = true |- _ => apply sdd_eqb_eq in H; subst
  | H : _ && _ = true |- _ => apply andb_true_iff in H; destruct H
  | H : s_is_true ?x = true |- _ => apply s_is_true_eq in H; subst
  | H : s_is_false ?x = true |- _ => apply s_is_false_eq in H; subst
  end.

Lemma s_intro_consts_sound f g h a :
  let '(f', g', h') := s_intro_consts f g h in
  ite_ (sden f' a) (sden g' a) (sden h' a) = ite_ (sden f a) (sden g a) (sden h a).
Proof.
  unfold s_intro_consts.
  destruct (sdd_eqb f h) eqn:E1; [eqs; simpl; destruct (sden h a), (sden g a); reflexivity|].
  destruct (sdd_eqb f (sneg h)) eqn:E2; [eqs; simpl; rewrite sden_sneg; destruct (sden h a), (sden g a); reflexivity|].
  destruct (sdd_eqb f (sneg g)) eqn:E3; [eqs; simpl; rewrite sden_sneg; destruct (sden h a), (sden g a); reflexivity|].
  reflexivity.
Qed.

Lemma s_terminal_sound f g h r a :
  s_terminal f g h = Some r -> sden r a = ite_ (sden f a) (sden g a) (sden h a).
Proof.
  unfold s_terminal.
  destruct (s_is_true f) eqn:E1; [intros [= <-]; eqs; reflexivity|].
  destruct (s_is_false f) eqn:E2; [intros [= <-]; eqs; reflexivity|].
  destruct (s_is_true g && s_is_false h) eqn:E3; [intros [= <-]; eqs; simpl; destruct (sden f a); reflexivity|].
  destruct (s_is_false g && s_is_true h) eqn:E4; [intros [= <-]; eqs; simpl; rewrite sden_sneg; destruct (sden f a); reflexivity|].
  destruct (sdd_eqb h g) eqn:E5; [intros [= <-]; eqs; destruct (sden f a); reflexivity|].
  discriminate.
Qed.

Lemma s_reorder_sound f g h a :
  let '(f', g', h') := s_reorder order f g h in
  ite_ (sden f' a) (sden g' a) (sden h' a) = ite_ (sden f a) (sden g a) (sden h a).
Proof.
  unfold s_reorder.
  destruct (s_is_true g && order h f) eqn:E1; [eqs; simpl; destruct (sden f a), (sden h a); reflexivity|].
  destruct (s_is_false h && order g f) eqn:E2; [eqs; simpl; destruct (sden f a), (sden g a); reflexivity|].
  destruct (s_is_true h && order g f) eqn:E3; [eqs; simpl; rewrite !sden_sneg; destruct (sden f a), (sden g a); reflexivity|].
  destruct (s_is_false g && order h f) eqn:E4; [eqs; simpl; rewrite !sden_sneg; destruct (sden f a), (sden h a); reflexivity|].
  destruct (sdd_eqb g (sneg h) && order g f) eqn:E5; [eqs; simpl; rewrite !sden_sneg; destruct (sden f a), (sden h a); reflexivity|].
  reflexivity.
Qed.

Lemma s_std_neg_sound f g h a :
  sden_ite (s_std_neg f g h) a = ite_ (sden f a) (sden g a) (sden h a).
Proof.
  unfold s_std_neg.
  destruct (s_is_neg f && negb (s_is_neg h)); [simpl; rewrite sden_sneg; destruct (sden f a), (sden g a), (sden h a); reflexivity|].
  destruct (negb (s_is_neg f) && s_is_neg g); [simpl; rewrite !sden_sneg; destruct (sden f a), (sden g a), (sden h a); reflexivity|].
  destruct (s_is_neg f && s_is_neg h); [simpl; rewrite !sden_sneg; destruct (sden f a), (sden g a), (sden h a); reflexivity|].
  reflexivity.
Qed.

(* for EVERY relation passed as [order] *)
Theorem s_ite_std_sound f g h a :
  sden_ite (s_ite_new order f g h) a = ite_ (sden f a) (sden g a) (sden h a).
Proof.
  unfold s_ite_new.
  pose proof (s_intro_consts_sound f g h a) as H1.
  destruct (s_intro_consts f g h) as [[f1 g1] h1].
  destruct (s_terminal f1 g1 h1) eqn:T.
  - simpl. rewrite (s_terminal_sound _ _ _ _ a T). exact H1.
  - pose proof (s_reorder_sound f1 g1 h1 a) as H2.
    destruct (s_reorder order f1 g1 h1) as [[f2 g2] h2].
    rewrite s_std_neg_sound. congruence.
Qed.

(* a constant answer is one of the operands, possibly negated *)
Lemma s_ite_const_under (U : sdd -> Prop) f g h r :
  U f -> U g -> U h -> (forall p, U p -> U (sneg p)) -> U ST -> U SF ->
  s_ite_new order f g h = SIteConst r -> U r.
Proof.
  intros Uf Ug Uh Un UT UF. unfold s_ite_new.
  assert (H1 : let '(f', g', h') := s_intro_consts f g h in U f' /\ U g' /\ U h').
  { unfold s_intro_consts. destruct (sdd_eqb f h); auto. destruct (sdd_eqb f (sneg h)); auto.
    destruct (sdd_eqb f (sneg g)); auto. }
  destruct (s_intro_consts f g h) as [[f1 g1] h1]. destruct H1 as (U1 & U2 & U3).
  destruct (s_terminal f1 g1 h1) eqn:T.
  - intros [= <-]. unfold s_terminal in T.
    destruct (s_is_true f1); [injection T as <-; auto|].
    destruct (s_is_false f1); [injection T as <-; auto|].
    destruct (s_is_true g1 && s_is_false h1); [injection T as <-; auto|].
    destruct (s_is_false g1 && s_is_true h1); [injection T as <-; auto|].
    destruct (sdd_eqb h1 g1); [injection T as <-; auto|]. discriminate.
  - destruct (s_reorder order f1 g1 h1) as [[f2 g2] h2]. unfold s_std_neg.
    destruct (s_is_neg f2 && negb (s_is_neg h2)); [discriminate|].
    destruct (negb (s_is_neg f2) && s_is_neg g2); [discriminate|].
    destruct (s_is_neg f2 && s_is_neg h2); discriminate.
Qed.
End IteStd.

(* VTreeManager::is_prime panics on constant pointers (a.vtree()); Ite::new never asks the order
   closure about a constant: whatever two closures answer on constants, the standard triple is
   the same, so the model's total [is_prime_ptr] loses nothing *)
Lemma s_ite_new_order_irrelevant_on_consts (o1 o2 : sdd -> sdd -> bool) f g h :
  (forall a b, s_is_const a = false -> s_is_const b = false -> o1 a b = o2 a b) ->
  s_ite_new o1 f g h = s_ite_new o2 f g h.
Proof.
  intros Ho. unfold s_ite_new. destruct (s_intro_consts f g h) as [[f1 g1] h1].
  destruct (s_terminal f1 g1 h1) eqn:T; [reflexivity|].
  assert (R : s_reorder o1 f1 g1 h1 = s_reorder o2 f1 g1 h1); [|rewrite R; reflexivity].
  assert (A : forall x y, (x = h1 /\ y = f1 /\ (s_is_true g1 = true \/ s_is_false g1 = true)) \/
                          (x = g1 /\ y = f1 /\ (s_is_true h1 = true \/ s_is_false h1 = true \/ sdd_eqb g1 (sneg h1) = true)) ->
                          o1 x y = o2 x y).
  { intros x y Hxy. apply Ho.
    - destruct Hxy as [(-> & _ & Hg)|(-> & _ & Hh)].
      + destruct f1, g1, h1; simpl in *; try reflexivity; try discriminate; destruct Hg; discriminate.
      + destruct f1, g1, h1; simpl in *; try reflexivity; try discriminate; destruct Hh as [Hh|[Hh|Hh]]; discriminate.
    - assert (y = f1) by (destruct Hxy as [(_ & -> & _)|(_ & -> & _)]; reflexivity). subst y.
      unfold s_terminal in T. destruct f1; simpl in *; try reflexivity; discriminate. }
  unfold s_reorder.
  destruct (s_is_true g1) eqn:E1; simpl.
  { rewrite (A h1 f1) by auto 10. destruct (o2 h1 f1); [reflexivity|].
    destruct (s_is_false h1) eqn:E2; simpl.
    { rewrite (A g1 f1) by auto 10. destruct (o2 g1 f1); [reflexivity|].
      destruct (s_is_true h1) eqn:E3; simpl; [destruct h1; discriminate|].
      destruct (s_is_false g1) eqn:E4; simpl; [destruct g1; discriminate|].
      destruct (sdd_eqb g1 (sneg h1)) eqn:E5; simpl; reflexivity. }
    destruct (s_is_true h1) eqn:E3; simpl.
    { rewrite (A g1 f1) by auto 10. destruct (o2 g1 f1); [reflexivity|].
      destruct (s_is_false g1) eqn:E4; simpl; [destruct g1; discriminate|].
      destruct (sdd_eqb g1 (sneg h1)) eqn:E5; simpl; reflexivity. }
    destruct (s_is_false g1) eqn:E4; simpl; [destruct g1; discriminate|].
    destruct (sdd_eqb g1 (sneg h1)) eqn:E5; simpl; [rewrite (A g1 f1) by auto 10|]; reflexivity. }
  destruct (s_is_false h1) eqn:E2; simpl.
  { rewrite (A g1 f1) by auto 10. destruct (o2 g1 f1); [reflexivity|].
    destruct (s_is_true h1) eqn:E3; simpl; [destruct h1; discriminate|].
    destruct (s_is_false g1) eqn:E4; simpl.
    { rewrite (A h1 f1) by auto 10. destruct (o2 h1 f1); [reflexivity|].
      destruct (sdd_eqb g1 (sneg h1)) eqn:E5; simpl; reflexivity. }
    destruct (sdd_eqb g1 (sneg h1)) eqn:E5; simpl; reflexivity. }
  destruct (s_is_true h1) eqn:E3; simpl.
  { rewrite (A g1 f1) by auto 10. destruct (o2 g1 f1); [reflexivity|].
    destruct (s_is_false g1) eqn:E4; simpl.
    { rewrite (A h1 f1) by auto 10. destruct (o2 h1 f1); [reflexivity|].
      destruct (sdd_eqb g1 (sneg h1)) eqn:E5; simpl; reflexivity. }
    destruct (sdd_eqb g1 (sneg h1)) eqn:E5; simpl; reflexivity. }
  destruct (s_is_false g1) eqn:E4; simpl.
  { rewrite (A h1 f1) by auto 10. destruct (o2 h1 f1); [reflexivity|].
    destruct (sdd_eqb g1 (sneg h1)) eqn:E5; simpl; [rewrite (A g1 f1) by auto 10|]; reflexivity. }
  destruct (sdd_eqb g1 (sneg h1)) eqn:E5; simpl; [rewrite (A g1 f1) by auto 10|]; reflexivity.
Qed.

(* ---- specification of an operation program: Boolean functions ---- *)
Definition bfun := asg -> bool.
Definition fget (fs : list bfun) (i : nat) : bfun := nth i fs (fun _ => false).
Definition spec_op (fs : list bfun) (o : sop) : bfun :=
  match o with
  | OTrue => fun _ => true
  | OFalse => fun _ => false
  | OVar v pol => fun a => Bool.eqb (a v) pol
  | ONeg i => fun a => negb (fget fs i a)
  | OAnd i j => fun a => fget fs i a && fget fs j a
  | OOr i j => fun a => fget fs i a || fget fs j a
  | OXor i j => fun a => xorb (fget fs i a) (fget fs j a)
  | OIff i j => fun a => Bool.eqb (fget fs i a) (fget fs j a)
  | OIte i j k => fun a => if fget fs i a then fget fs j a else fget fs k a
  | OCond i v b => fun a => fget fs i (upd a v b)
  | OExists i v => fun a => fget fs i (upd a v true) || fget fs i (upd a v false)
  | OCompose i v j =>
    (* the documented definition (builder/mod.rs): exists v. (v <=> g) /\ f *)
    fun a => let body := fun a' => Bool.eqb (a' v) (fget fs j a') && fget fs i a' in
             body (upd a v true) || body (upd a v false)
  | OCnf f _ => Compile.cnf_eval f          (* the CNF's own semantics, whatever the sorted order *)
  end.
Definition spec_run (fs : list bfun) (ops : list sop) : list bfun :=
  fold_left (fun fs o => fs ++ [spec_op fs o]) ops fs.

(* the only side condition on a program: literals name leaves of the vtree *)
Definition op_wf (t : vtree) (o : sop) : Prop :=
  match o with
  | OVar v _ | OCompose _ v _ => In v (vleaves t)
  | OCnf f sorted => Permutation sorted f /\ Forall (Forall (fun l : lit => In (fst l) (vleaves t))) f
  | _ => True
  end.

Lemma div2_bounds n : 2 <= n -> 1 <= Nat.div2 n /\ Nat.div2 n < n.
Proof.
  intros H. destruct n as [|[|n]]; try lia. simpl. pose proof (Nat.div2_decr n n (Nat.le_succ_diag_r n)). lia.
Qed.
Lemma forallb_perm {A} (f : A -> bool) l1 l2 : Permutation l1 l2 -> forallb f l1 = forallb f l2.
Proof. induction 1; simpl; auto; try congruence. destruct (f x), (f y); reflexivity. Qed.

Section Prog.
(* Generic in the class W of pointers the program manipulates: W is closed under negation, contains
   the constants and the literals of the vtree, and and/condition are correct on it.  Instances:
   the builder invariant [under t 0] in both configurations (C03), and "invariant + local normal
   form" with compression on (C04). *)
Variable t : vtree.
Variable cm : bool.
Variable cache : sdd -> sdd -> option sdd.
Variable fuel : nat.
Variable U : sdd -> Prop.
Hypothesis U_sneg : forall p, U p -> U (sneg p).
Hypothesis U_T : U ST.
Hypothesis U_F : U SF.
Hypothesis U_var : forall v b, In v (vleaves t) -> U (SVar v b).
Hypothesis and_ok : forall x y, U x -> U y ->
  exists r, and_m t cm cache fuel x y = Ok r /\ U r /\ forall a, sden r a = sden x a && sden y a.
Hypothesis condition_ok : forall x v b, U x ->
  exists r, condition_m t cm cache fuel x v b = Ok r /\ U r /\ forall a, sden r a = sden x (upd a v b).

Definition denotes (p : sdd) (f : bfun) : Prop := U p /\ forall a, sden p a = f a.

Lemma or_ok x y : U x -> U y ->
  exists r, or_m t cm cache fuel x y = Ok r /\ U r /\ forall a, sden r a = sden x a || sden y a.
Proof.
  intros Hx Hy. destruct (and_ok (sneg x) (sneg y)) as (r & E & Ur & S); auto using U_sneg.
  exists (sneg r). unfold or_m, or_f. rewrite E. cbn [bind]. repeat split; auto using U_sneg.
  intros a. rewrite sden_sneg, S, !sden_sneg. destruct (sden x a), (sden y a); reflexivity.
Qed.

(* the ite cache: every stored triple maps to a pointer denoting that ite *)
Definition ic_sound (ic : itecache) : Prop :=
  Forall (fun e => U (snd e) /\
     forall a, sden (snd e) a = ite_ (sden (fst (fst (fst e))) a) (sden (snd (fst (fst e))) a) (sden (snd (fst e)) a)) ic.

Lemma ite_get_sound ic a b c v : ic_sound ic -> ite_get ic (a, b, c) = Some v ->
  U v /\ forall s, sden v s = ite_ (sden a s) (sden b s) (sden c s).
Proof.
  unfold ite_get, ic_sound. intros Hs H.
  destruct (find (fun e : itekey * sdd => itekey_eqb (fst e) (a, b, c)) ic) as [[k r]|] eqn:Ef; [|discriminate].
  injection H as <-. apply find_some in Ef. destruct Ef as [Hin Hk].
  rewrite Forall_forall in Hs. specialize (Hs _ Hin). simpl in *.
  destruct k as [[a' b'] c']. simpl in Hk. apply andb_true_iff in Hk. destruct Hk as [Hk H3].
  apply andb_true_iff in Hk. destruct Hk as [H1 H2].
  apply sdd_eqb_eq in H1, H2, H3. subst. exact Hs.
Qed.

Lemma ite_ok ic f g h : ic_sound ic -> U f -> U g -> U h ->
  exists r ic', ite_m t cm cache fuel ic f g h = Ok (r, ic') /\ ic_sound ic' /\ U r /\
    forall a, sden r a = ite_ (sden f a) (sden g a) (sden h a).
Proof.
  intros Hic Uf Ug Uh. unfold ite_m.
  pose proof (s_ite_std_sound (is_prime_ptr t) f g h) as Hstd.
  destruct (s_ite_new (is_prime_ptr t) f g h) as [a b c|a b c|r] eqn:En.
  - destruct (ite_get ic (a, b, c)) as [v|] eqn:Eg.
    + destruct (ite_get_sound _ _ _ _ _ Hic Eg) as [Uv Dv].
      exists v, ic. repeat split; auto. intros s. rewrite Dv. apply (Hstd s).
    + destruct (and_ok f g Uf Ug) as (fg & E1 & U1 & S1).
      destruct (and_ok (sneg f) h (U_sneg _ Uf) Uh) as (nfh & E2 & U2 & S2).
      destruct (or_ok fg nfh U1 U2) as (r & E3 & U3 & S3).
      rewrite E1. cbn [bind]. rewrite E2. cbn [bind]. rewrite E3. cbn [bind].
      assert (Dr : forall s, sden r s = ite_ (sden f s) (sden g s) (sden h s)).
      { intros s. rewrite S3, S1, S2, sden_sneg. destruct (sden f s), (sden g s), (sden h s); reflexivity. }
      exists r, (((a, b, c), r) :: ic). repeat split; auto.
      constructor; auto. simpl. split; auto. intros s. rewrite Dr. symmetry. apply (Hstd s).
  - destruct (ite_get ic (a, b, c)) as [v|] eqn:Eg.
    + destruct (ite_get_sound _ _ _ _ _ Hic Eg) as [Uv Dv].
      exists (sneg v), ic. repeat split; auto using U_sneg. intros s. rewrite sden_sneg, Dv. apply (Hstd s).
    + destruct (and_ok f g Uf Ug) as (fg & E1 & U1 & S1).
      destruct (and_ok (sneg f) h (U_sneg _ Uf) Uh) as (nfh & E2 & U2 & S2).
      destruct (or_ok fg nfh U1 U2) as (r & E3 & U3 & S3).
      rewrite E1. cbn [bind]. rewrite E2. cbn [bind]. rewrite E3. cbn [bind].
      assert (Dr : forall s, sden r s = ite_ (sden f s) (sden g s) (sden h s)).
      { intros s. rewrite S3, S1, S2, sden_sneg. destruct (sden f s), (sden g s), (sden h s); reflexivity. }
      exists r, (((a, b, c), sneg r) :: ic). repeat split; auto.
      constructor; auto. simpl. split; auto using U_sneg. intros s. rewrite sden_sneg, Dr.
      specialize (Hstd s). simpl in Hstd. rewrite <- Hstd. apply negb_involutive.
  - exists r, ic. repeat split; auto; try (intros s; apply (Hstd s)).
    apply (s_ite_const_under (is_prime_ptr t) U f g h r); auto using U_sneg.
Qed.

Lemma exists_ok x v : U x ->
  exists r, exists_m t cm cache fuel x v = Ok r /\ U r /\
    forall a, sden r a = sden x (upd a v true) || sden x (upd a v false).
Proof.
  intros Hx. unfold exists_m.
  destruct (condition_ok x v true Hx) as (r1 & E1 & U1 & D1).
  destruct (condition_ok x v false Hx) as (r2 & E2 & U2 & D2).
  destruct (or_ok r1 r2 U1 U2) as (r & E & Ur & D).
  rewrite E1. cbn [bind]. rewrite E2. cbn [bind]. exists r. repeat split; auto.
  intros a. rewrite D, D1, D2. reflexivity.
Qed.

Lemma compose_ok ic f v g : ic_sound ic -> In v (vleaves t) -> U f -> U g ->
  exists r ic', compose_m t cm cache fuel ic f v g = Ok (r, ic') /\ ic_sound ic' /\ U r /\
    forall a, sden r a =
      (Bool.eqb (upd a v true v) (sden g (upd a v true)) && sden f (upd a v true)) ||
      (Bool.eqb (upd a v false v) (sden g (upd a v false)) && sden f (upd a v false)).
Proof.
  intros Hic Hv Uf Ug. unfold compose_m, iff_m.
  destruct (ite_ok ic (SVar v true) g (sneg g) Hic) as (i & ic' & E1 & Hic' & Ui & Di);
    auto using U_sneg.
  destruct (and_ok i f Ui Uf) as (x & E2 & Ux & Dx).
  destruct (exists_ok x v Ux) as (r & E3 & Ur & Dr).
  rewrite E1. cbn [bind fst snd]. rewrite E2. cbn [bind]. rewrite E3. cbn [bind].
  exists r, ic'. repeat split; auto.
  intros a. rewrite Dr, !Dx, !Di, !sden_sneg. simpl.
  destruct (upd a v true v), (upd a v false v), (sden g (upd a v true)), (sden g (upd a v false)); reflexivity.
Qed.

(* ---- compile_cnf ---- *)
Lemma clause_fold_ok (c : list lit) : Forall (fun l : lit => In (fst l) (vleaves t)) c ->
  forall acc x, acc = Ok x -> U x ->
  exists r, fold_left (fun acc l => bind acc (fun b => or_m t cm cache fuel b (SVar (fst l) (snd l)))) c acc = Ok r /\ U r /\
            forall a, sden r a = sden x a || Compile.clause_eval a c.
Proof.
  induction 1 as [|l c Hl _ IH]; intros acc x -> Ux.
  - exists x. simpl. repeat split; auto. intros a. rewrite orb_false_r. reflexivity.
  - cbn [fold_left bind].
    destruct (or_ok x (SVar (fst l) (snd l)) Ux (U_var _ _ Hl)) as (y & Ey & Uy & Dy).
    destruct (IH _ y Ey Uy) as (r & Er & Ur & Dr). exists r. repeat split; auto.
    intros a. rewrite Dr, Dy. unfold Compile.clause_eval. simpl. unfold Compile.lit_eval at 1.
    rewrite orb_assoc. reflexivity.
Qed.

Lemma clause_ok (c : list lit) : c <> [] -> Forall (fun l : lit => In (fst l) (vleaves t)) c ->
  exists r, clause_m t cm cache fuel c = Ok r /\ U r /\ forall a, sden r a = Compile.clause_eval a c.
Proof.
  intros Hne Hc. destruct c as [|[v p] rest]; [congruence|]. unfold clause_m.
  assert (Hv : In v (vleaves t)) by (inversion Hc; auto).
  destruct (clause_fold_ok _ Hc (Ok (SVar v p)) _ eq_refl (U_var v p Hv)) as (r & Er & Ur & Dr).
  exists r. repeat split; auto. intros a. rewrite Dr. unfold Compile.clause_eval. cbn [existsb].
  unfold Compile.lit_eval. cbn [sden fst snd]. destruct (Bool.eqb (a v) p); reflexivity.
Qed.

Lemma clauses_ok (cs : list (list lit)) : Forall (fun c => c <> []) cs ->
  Forall (Forall (fun l : lit => In (fst l) (vleaves t))) cs ->
  exists v, clauses_m t cm cache fuel cs = Ok v /\ Forall U v /\ length v = length cs /\
            forall a, forallb (fun p => sden p a) v = Compile.cnf_eval cs a.
Proof.
  induction cs as [|c r IH]; intros Hne Hv.
  - exists []. repeat split; auto.
  - inversion Hne; subst. inversion Hv; subst.
    destruct (clause_ok c) as (x & Ex & Ux & Dx); auto. destruct IH as (v & Ev & Uv & Lv & Dv); auto.
    exists (x :: v). cbn [clauses_m]. rewrite Ex. cbn [bind]. rewrite Ev. cbn [bind]. repeat split; auto.
    + simpl. congruence.
    + intros a. simpl. rewrite Dx, Dv. reflexivity.
Qed.

Lemma cnf_helper_ok : forall hf vec, length vec < hf -> Forall U vec ->
  exists o, cnf_helper t cm cache fuel hf vec = Ok o /\
    match o with
    | None => vec = []
    | Some x => vec <> [] /\ U x /\ forall a, sden x a = forallb (fun p => sden p a) vec
    end.
Proof.
  induction hf as [|hf IH]; intros vec Hl Hu; [lia|].
  cbn [cnf_helper]. destruct vec as [|x [|y rest]].
  - exists None. auto.
  - exists (Some x). split; auto. inversion Hu; subst. repeat split; auto; try discriminate.
    intros a. simpl. rewrite andb_true_r. reflexivity.
  - set (vec := x :: y :: rest) in *. set (k := Nat.div2 (length vec)).
    assert (Hk : 1 <= k /\ k < length vec) by (apply div2_bounds; simpl; lia).
    assert (H1 : length (firstn k vec) = k) by (apply firstn_length_le; lia).
    assert (H2 : length (skipn k vec) = length vec - k) by apply skipn_length.
    assert (Hsplit : firstn k vec ++ skipn k vec = vec) by apply firstn_skipn.
    assert (Hu' : Forall U (firstn k vec) /\ Forall U (skipn k vec)) by (apply Forall_app; rewrite Hsplit; exact Hu).
    destruct Hu' as [Ul Ur].
    destruct (IH (firstn k vec)) as (ol & El & Hol); [lia | auto |].
    destruct (IH (skipn k vec)) as (or_ & Er & Hor); [lia | auto |].
    rewrite El. cbn [bind]. rewrite Er. cbn [bind].
    destruct ol as [xl|]; [|exfalso; rewrite Hol in H1; change (length (@nil sdd)) with 0 in H1; lia].
    destruct or_ as [xr|]; [|exfalso; rewrite Hor in H2; change (length (@nil sdd)) with 0 in H2; lia].
    destruct Hol as (_ & Uxl & Dl). destruct Hor as (_ & Uxr & Dr).
    destruct (and_ok xl xr Uxl Uxr) as (z & Ez & Uz & Dz). rewrite Ez. cbn [bind].
    exists (Some z). split; auto. repeat split; auto; try discriminate.
    intros a. rewrite Dz, Dl, Dr, <- forallb_app, Hsplit. reflexivity.
Qed.

Lemma compile_cnf_ok (f sorted : list (list lit)) : Permutation sorted f ->
  Forall (Forall (fun l : lit => In (fst l) (vleaves t))) f ->
  exists r, compile_cnf_m t cm cache fuel f sorted = Ok r /\ U r /\ forall a, sden r a = Compile.cnf_eval f a.
Proof.
  intros P Hv. unfold compile_cnf_m.
  destruct (Nat.eqb_spec (length f) 0) as [E0|E0].
  { destruct f; [|discriminate]. exists ST. repeat split; auto. }
  destruct (existsb (fun c : list lit => Nat.eqb (length c) 0) f) eqn:Ee.
  { exists SF. repeat split; auto. intros a. simpl. symmetry. unfold Compile.cnf_eval.
    apply existsb_exists in Ee. destruct Ee as (c & Hin & Hc). destruct c; [|discriminate].
    apply not_true_is_false. intros Ht. rewrite forallb_forall in Ht. specialize (Ht [] Hin). discriminate. }
  assert (Hne : Forall (fun c : list lit => c <> []) sorted).
  { apply Forall_forall. intros c Hc Ec. subst c.
    assert (Hin : In [] f) by (eapply Permutation_in; eauto).
    assert (existsb (fun c : list lit => Nat.eqb (length c) 0) f = true) by (apply existsb_exists; exists []; auto).
    congruence. }
  assert (Hv' : Forall (Forall (fun l : lit => In (fst l) (vleaves t))) sorted) by (rewrite P; exact Hv).
  destruct (clauses_ok sorted Hne Hv') as (v & Ev & Uv & Lv & Dv). rewrite Ev. cbn [bind].
  destruct (cnf_helper_ok (S (length v)) v ltac:(lia) Uv) as (o & Eo & Ho). rewrite Eo. cbn [bind].
  destruct o as [x|].
  - destruct Ho as (_ & Ux & Dx). exists x. repeat split; auto. intros a. rewrite Dx, Dv.
    unfold Compile.cnf_eval. apply forallb_perm. exact P.
  - exfalso. subst v. simpl in Lv. apply E0. rewrite <- (Permutation_length P). auto.
Qed.

(* ---- programs ---- *)
Definition pool_ok (pool : list sdd) (fs : list bfun) : Prop := Forall2 denotes pool fs.

Lemma pget_ok pool fs i : pool_ok pool fs -> denotes (pget pool i) (fget fs i).
Proof.
  intros H. unfold pget, fget. revert i. induction H; intros [|i]; simpl; auto; split; auto; reflexivity.
Qed.

Lemma pool_ok_snoc pool fs p f : pool_ok pool fs -> denotes p f -> pool_ok (pool ++ [p]) (fs ++ [f]).
Proof. intros H1 H2. apply Forall2_app; auto. Qed.

Lemma step_ok pool fs ic o : pool_ok pool fs -> ic_sound ic -> op_wf t o ->
  exists pool' ic', step_m t cm cache fuel (pool, ic) o = Ok (pool', ic') /\
    pool_ok pool' (fs ++ [spec_op fs o]) /\ ic_sound ic'.
Proof.
  intros Hp Hic Hw. unfold step_m.
  assert (G := fun i => pget_ok pool fs i Hp).
  destruct o as [| |v pol|i|i j|i j|i j|i j|i j k|i v b|i v|i v j|f sorted]; cbn [bind spec_op].
  - eexists _, _. split; [reflexivity|]. split; auto. apply pool_ok_snoc; auto. split; [auto|reflexivity].
  - eexists _, _. split; [reflexivity|]. split; auto. apply pool_ok_snoc; auto. split; [auto|reflexivity].
  - eexists _, _. split; [reflexivity|]. split; auto. apply pool_ok_snoc; auto. split; [apply U_var; exact Hw|reflexivity].
  - destruct (G i) as [Ui Di].
    eexists _, _. split; [reflexivity|]. split; auto. apply pool_ok_snoc; auto.
    split; [apply U_sneg; auto|]. intros a. rewrite sden_sneg, Di. reflexivity.
  - destruct (G i) as [Ui Di]. destruct (G j) as [Uj Dj].
    destruct (and_ok _ _ Ui Uj) as (r & E & Ur & D). rewrite E. cbn [bind].
    eexists _, _. split; [reflexivity|]. split; auto. apply pool_ok_snoc; auto.
    split; auto. intros a. rewrite D, Di, Dj. reflexivity.
  - destruct (G i) as [Ui Di]. destruct (G j) as [Uj Dj].
    destruct (or_ok _ _ Ui Uj) as (r & E & Ur & D). rewrite E. cbn [bind].
    eexists _, _. split; [reflexivity|]. split; auto. apply pool_ok_snoc; auto.
    split; auto. intros a. rewrite D, Di, Dj. reflexivity.
  - destruct (G i) as [Ui Di]. destruct (G j) as [Uj Dj]. unfold xor_m.
    destruct (ite_ok ic _ _ _ Hic Ui (U_sneg _ Uj) Uj) as (r & ic' & E & Hic' & Ur & D). rewrite E. cbn [bind fst snd].
    eexists _, _. split; [reflexivity|]. split; auto. apply pool_ok_snoc; auto.
    split; auto. intros a. rewrite D, sden_sneg, Di, Dj. destruct (fget fs i a), (fget fs j a); reflexivity.
  - destruct (G i) as [Ui Di]. destruct (G j) as [Uj Dj]. unfold iff_m.
    destruct (ite_ok ic _ _ _ Hic Ui Uj (U_sneg _ Uj)) as (r & ic' & E & Hic' & Ur & D). rewrite E. cbn [bind fst snd].
    eexists _, _. split; [reflexivity|]. split; auto. apply pool_ok_snoc; auto.
    split; auto. intros a. rewrite D, sden_sneg, Di, Dj. destruct (fget fs i a), (fget fs j a); reflexivity.
  - destruct (G i) as [Ui Di]. destruct (G j) as [Uj Dj]. destruct (G k) as [Uk Dk].
    destruct (ite_ok ic _ _ _ Hic Ui Uj Uk) as (r & ic' & E & Hic' & Ur & D). rewrite E. cbn [bind fst snd].
    eexists _, _. split; [reflexivity|]. split; auto. apply pool_ok_snoc; auto.
    split; auto. intros a. rewrite D, Di, Dj, Dk. reflexivity.
  - destruct (G i) as [Ui Di].
    destruct (condition_ok _ v b Ui) as (r & E & Ur & D). rewrite E. cbn [bind].
    eexists _, _. split; [reflexivity|]. split; auto. apply pool_ok_snoc; auto.
    split; auto. intros a. rewrite D, Di. reflexivity.
  - destruct (G i) as [Ui Di].
    destruct (exists_ok _ v Ui) as (r & E & Ur & D). rewrite E. cbn [bind].
    eexists _, _. split; [reflexivity|]. split; auto. apply pool_ok_snoc; auto.
    split; auto. intros a. rewrite D, !Di. reflexivity.
  - destruct (G i) as [Ui Di]. destruct (G j) as [Uj Dj].
    destruct (compose_ok ic _ v _ Hic Hw Ui Uj) as (r & ic' & E & Hic' & Ur & D). rewrite E. cbn [bind fst snd].
    eexists _, _. split; [reflexivity|]. split; auto. apply pool_ok_snoc; auto.
    split; auto. intros a. rewrite D, !Di, !Dj. reflexivity.
  - destruct Hw as [P Hv]. destruct (compile_cnf_ok f sorted P Hv) as (r & E & Ur & D). rewrite E. cbn [bind].
    eexists _, _. split; [reflexivity|]. split; auto. apply pool_ok_snoc; auto. split; auto.
Qed.

Theorem run_ok : forall ops pool fs ic, pool_ok pool fs -> ic_sound ic -> Forall (op_wf t) ops ->
  exists pool' ic', run_m t cm cache fuel (pool, ic) ops = Ok (pool', ic') /\
    pool_ok pool' (spec_run fs ops) /\ ic_sound ic'.
Proof.
  induction ops as [|o ops IH]; intros pool fs ic Hp Hic Hw.
  - exists pool, ic. repeat split; auto.
  - inversion Hw as [|? ? Hw1 Hw2]; subst.
    destruct (step_ok pool fs ic o Hp Hic Hw1) as (pool1 & ic1 & E1 & Hp1 & Hic1).
    destruct (IH pool1 _ ic1 Hp1 Hic1 Hw2) as (pool' & ic' & E2 & Hp' & Hic').
    exists pool', ic'. cbn [run_m]. rewrite E1. cbn [bind]. split; [exact E2|]. split; auto.
Qed.

End Prog.

(* ---- instance 1: the builder invariant, both configurations ---- *)
Section ProgUnder.
Variable t : vtree.
Hypothesis ND : NoDup (vleaves t).
Variable cm : bool.
Variable cache : sdd -> sdd -> option sdd.
Hypothesis CSound : cache_sound t cache.
Variable fuel : nat.
Hypothesis Hfuel : vheight t < fuel.
Notation U := (under t 0).

Lemma and_ok_u x y : U x -> U y ->
  exists r, and_m t cm cache fuel x y = Ok r /\ U r /\ forall a, sden r a = sden x a && sden y a.
Proof. intros Hx Hy. apply (and_m_good t ND cm cache CSound fuel t 0 (occurs_refl t 0) Hfuel x y Hx Hy). Qed.

Lemma condition_ok_u x v b : U x ->
  exists r, condition_m t cm cache fuel x v b = Ok r /\ U r /\ forall a, sden r a = sden x (upd a v b).
Proof.
  intros Hx. destruct (cond_m_ok t ND cm cache CSound fuel Hfuel v b x t 0 false (occurs_refl t 0) Hx) as (r & E & Ur & D).
  exists r. repeat split; auto. intros a. rewrite D. apply xorb_false_l.
Qed.

Lemma U_var_u v b : In v (vleaves t) -> U (SVar v b).
Proof. intros H. constructor. exact H. Qed.

Definition or_ok_u := or_ok t cm cache fuel U (under_sneg t 0) and_ok_u.
Definition ite_ok_u := ite_ok t cm cache fuel U (under_sneg t 0) (U_T t 0) (U_F t 0) and_ok_u.
Definition exists_ok_u := exists_ok t cm cache fuel U (under_sneg t 0) and_ok_u condition_ok_u.
Definition compose_ok_u := compose_ok t cm cache fuel U (under_sneg t 0) (U_T t 0) (U_F t 0) U_var_u and_ok_u condition_ok_u.
Definition run_ok_u := run_ok t cm cache fuel U (under_sneg t 0) (U_T t 0) (U_F t 0) U_var_u and_ok_u condition_ok_u.
Lemma compile_cnf_ok_u (f sorted : list (list lit)) : Permutation sorted f ->
  Forall (Forall (fun l : lit => In (fst l) (vleaves t))) f ->
  exists r, compile_cnf_m t cm cache fuel f sorted = Ok r /\ U r /\ forall a, sden r a = Compile.cnf_eval f a.
Proof.
  apply (compile_cnf_ok t cm cache fuel U); auto using under_sneg, U_var_u, and_ok_u; constructor.
Qed.
End ProgUnder.
