(* C10, count_nodes: the top-down marking visits every reachable node exactly once and the public
   call leaves the scratch state all-empty. *)
From Coq Require Import Bool NArith List Lia Arith.
Import ListNotations.
From RsddV Require Import Base.Bdd Model.Scratch Proofs.Scratch.

Lemma NoDup_app_local {A} (l1 l2 : list A) : NoDup l1 -> NoDup l2 -> (forall x, In x l1 -> In x l2 -> False) -> NoDup (l1 ++ l2).
Proof.
  induction l1 as [|a l1 IH]; simpl; intros N1 N2 D; auto. inversion N1; subst. constructor.
  - intros H. apply in_app_or in H. destruct H; [contradiction|]. eapply D; eauto.
  - apply IH; auto. intros x H1' H2'. eapply D; eauto.
Qed.

Section C.
Variable S : Type.
Notation scratch := (scratch S).
Notation set_s := (set_s S).
Notation read_count := (read_count S).
Notation count_h := (count_h S).

(* only count marks are present *)
Definition cstate (s : scratch) : Prop := forall n, s n = None \/ s n = Some PCount.

Lemma read_count_set_same s n : read_count (set_s s n (Some PCount)) n = true.
Proof. unfold Scratch.read_count. rewrite set_s_same. reflexivity. Qed.
Lemma read_count_set_other s n m : m <> n -> read_count (set_s s n (Some PCount)) m = read_count s m.
Proof. intros H. unfold Scratch.read_count. rewrite set_s_other by assumption. reflexivity. Qed.

(* nodes reachable through unmarked nodes only *)
Fixpoint reach (s : scratch) (p : bdd) : list node :=
  match p with
  | BN _ v lo hi => if read_count s (v, lo, hi) then [] else (v, lo, hi) :: reach s lo ++ reach s hi
  | _ => []
  end.

Lemma reach_nodes s p : incl (reach s p) (nodes p).
Proof.
  induction p as [| |c v lo IHlo hi IHhi]; simpl; try (intros x H; exact H).
  destruct (read_count s (v, lo, hi)); [intros x H; contradiction|].
  intros x [<-|H]; [left; reflexivity|]. right. apply in_or_app. apply in_app_or in H. destruct H; [left; apply IHlo|right; apply IHhi]; assumption.
Qed.

Lemma reach_unmarked s p m : In m (reach s p) -> read_count s m = false.
Proof.
  induction p as [| |c v lo IHlo hi IHhi]; simpl; try contradiction.
  destruct (read_count s (v, lo, hi)) eqn:E; [contradiction|].
  intros [<-|H]; auto. apply in_app_or in H. destruct H; auto.
Qed.

Lemma reach_closed s p : forall v l h, In (v, l, h) (reach s p) -> incl (reach s l ++ reach s h) (reach s p).
Proof.
  induction p as [| |c u lo IHlo hi IHhi]; simpl; intros v l h H; try contradiction.
  destruct (read_count s (u, lo, hi)) eqn:E; [contradiction|].
  destruct H as [Eq|H].
  - injection Eq as -> -> ->. intros x Hx. right. exact Hx.
  - intros x Hx. right. apply in_or_app. apply in_app_or in H. destruct H as [H|H]; [left; eapply IHlo|right; eapply IHhi]; eauto.
Qed.

Lemma reach_set_other s n q : ~ In n (nodes q) -> reach (set_s s n (Some PCount)) q = reach s q.
Proof.
  induction q as [| |c v lo IHlo hi IHhi]; simpl; intros H; auto.
  assert (NE : (v, lo, hi) <> n) by (intros E; apply H; left; exact E).
  rewrite read_count_set_other by assumption.
  rewrite IHlo, IHhi; auto; intros Hin; apply H; right; apply in_or_app; auto.
Qed.

(* more marks, fewer reachable nodes *)
Lemma reach_mono s s1 q : (forall n, read_count s n = true -> read_count s1 n = true) -> incl (reach s1 q) (reach s q).
Proof.
  intros M. induction q as [| |c v lo IHlo hi IHhi]; simpl; try (intros x H; exact H).
  destruct (read_count s (v, lo, hi)) eqn:E.
  - rewrite (M _ E). intros x H. exact H.
  - destruct (read_count s1 (v, lo, hi)); [intros x H; contradiction|].
    intros x [<-|H]; [left; reflexivity|]. right. apply in_or_app. apply in_app_or in H. destruct H; [left; apply IHlo|right; apply IHhi]; assumption.
Qed.

(* if the extra marks A are closed under unmarked-reachability inside q, nothing else is lost *)
Lemma reach_extra s s1 (A : list node) : forall q,
  (forall n, read_count s1 n = read_count s n || existsb (node_eqb n) A) ->
  (forall v l h, In (v, l, h) A -> In (v, l, h) (nodes q) -> incl (reach s l ++ reach s h) A) ->
  forall m, In m (reach s q) -> In m A \/ In m (reach s1 q).
Proof.
  induction q as [| |c v lo IHlo hi IHhi]; intros M CL m Hm; simpl in *; try contradiction.
  destruct (read_count s (v, lo, hi)) eqn:E; [contradiction|].
  rewrite M, E. simpl.
  destruct (existsb (node_eqb (v, lo, hi)) A) eqn:EA.
  - left. apply existsb_exists in EA. destruct EA as (w & Hw & Ew). apply node_eqb_eq in Ew. subst w.
    destruct Hm as [<-|Hm]; auto. eapply CL; eauto.
  - destruct Hm as [<-|Hm]; [right; left; reflexivity|].
    apply in_app_or in Hm. destruct Hm as [Hm|Hm].
    + destruct (IHlo M (fun v' l h Ha Hn => CL v' l h Ha (or_intror (in_or_app _ _ _ (or_introl Hn)))) m Hm) as [|H]; auto.
      right. right. apply in_or_app. auto.
    + destruct (IHhi M (fun v' l h Ha Hn => CL v' l h Ha (or_intror (in_or_app _ _ _ (or_intror Hn)))) m Hm) as [|H]; auto.
      right. right. apply in_or_app. auto.
Qed.

Lemma existsb_node_in n A : existsb (node_eqb n) A = true <-> In n A.
Proof.
  rewrite existsb_exists. split.
  - intros (w & Hw & E). apply node_eqb_eq in E. subst. exact Hw.
  - intros H. exists n. split; auto. apply node_eqb_refl.
Qed.

Theorem count_h_spec : forall p s k, cstate s ->
  let '(s', k') := count_h p (s, k) in
  cstate s' /\
  (forall n, read_count s' n = read_count s n || existsb (node_eqb n) (reach s p)) /\
  (forall n, ~ In n (nodes p) -> s' n = s n) /\
  exists L, NoDup L /\ (forall n, In n L <-> In n (reach s p)) /\ k' = k + length L.
Proof.
  induction p as [| |c v lo IHlo hi IHhi]; intros s k CS.
  - simpl. split; [exact CS|]. split; [intros m; rewrite orb_false_r; reflexivity|]. split; [auto|]. exists []. split; [constructor|]. split; [intros m; simpl; tauto|simpl; lia].
  - simpl. split; [exact CS|]. split; [intros m; rewrite orb_false_r; reflexivity|]. split; [auto|]. exists []. split; [constructor|]. split; [intros m; simpl; tauto|simpl; lia].
  - cbn [Scratch.count_h reach]. set (n := (v, lo, hi)).
    destruct (read_count s n) eqn:E.
    + split; [exact CS|]. split; [intros m; rewrite orb_false_r; reflexivity|]. split; [auto|]. exists []. split; [constructor|]. split; [intros m; simpl; tauto|simpl; lia].
    + set (s0 := set_s s n (Some PCount)).
      assert (NN : ~ In n (nodes lo ++ nodes hi)) by apply node_not_in_children.
      assert (Nlo : ~ In n (nodes lo)) by (intros H; apply NN; apply in_or_app; auto).
      assert (Nhi : ~ In n (nodes hi)) by (intros H; apply NN; apply in_or_app; auto).
      assert (CS0 : cstate s0).
      { intros m. unfold s0. destruct (node_eqb m n) eqn:Em; [apply node_eqb_eq in Em; subst m; rewrite set_s_same; auto|].
        rewrite set_s_other by (neq Em). apply CS. }
      specialize (IHlo s0 (Datatypes.S k) CS0). destruct (count_h lo (s0, Datatypes.S k)) as [s1 k1].
      destruct IHlo as (CS1 & M1 & F1 & L1 & ND1 & IN1 & K1).
      specialize (IHhi s1 k1 CS1). destruct (count_h hi (s1, k1)) as [s2 k2].
      destruct IHhi as (CS2 & M2 & F2 & L2 & ND2 & IN2 & K2).
      assert (R0 : reach s0 lo = reach s lo) by (apply reach_set_other; exact Nlo).
      rewrite R0 in *.
      (* marks of s1 = marks of s + A, A = n :: reach s lo *)
      set (A := n :: reach s lo).
      assert (MA : forall m, read_count s1 m = read_count s m || existsb (node_eqb m) A).
      { intros m. rewrite M1. unfold A. cbn [existsb]. unfold s0.
        destruct (node_eqb m n) eqn:Em.
        - apply node_eqb_eq in Em. subst m. rewrite read_count_set_same. rewrite orb_true_r. reflexivity.
        - rewrite read_count_set_other by (neq Em). simpl. reflexivity. }
      assert (CLA : forall v' l h, In (v', l, h) A -> In (v', l, h) (nodes hi) -> incl (reach s l ++ reach s h) A).
      { intros v' l h HA Hn. destruct HA as [Eq|HA]; [exfalso; apply Nhi; rewrite Eq; exact Hn|].
        intros x Hx. right. eapply reach_closed; eauto. }
      assert (SUB : incl (reach s1 hi) (reach s hi)).
      { apply reach_mono. intros m Hm. rewrite MA, Hm. reflexivity. }
      split; [exact CS2|]. split; [|split].
      * intros m. rewrite M2, MA. unfold A. cbn [existsb].
        destruct (read_count s m) eqn:Rm; simpl; auto.
        destruct (node_eqb m n) eqn:Em; simpl; auto.
        rewrite existsb_app.
        destruct (existsb (node_eqb m) (reach s lo)) eqn:E1; simpl; auto.
        destruct (existsb (node_eqb m) (reach s1 hi)) eqn:E2.
        -- symmetry. apply existsb_node_in. apply SUB. apply existsb_node_in. exact E2.
        -- destruct (existsb (node_eqb m) (reach s hi)) eqn:E3; auto. exfalso.
           apply existsb_node_in in E3.
           destruct (reach_extra s s1 A hi MA CLA m E3) as [HA|H1].
           ++ destruct HA as [<-|HA]; [rewrite node_eqb_refl in Em; discriminate|].
              apply existsb_node_in in HA. congruence.
           ++ apply existsb_node_in in H1. congruence.
      * intros m Hm. simpl in Hm.
        assert (m <> n) by (intros ->; apply Hm; left; reflexivity).
        rewrite F2, F1 by (intros Hin; apply Hm; right; apply in_or_app; auto).
        unfold s0. apply set_s_other. assumption.
      * exists (n :: L1 ++ L2). split; [|split].
        -- constructor.
           ++ intros Hin. apply in_app_or in Hin. destruct Hin as [H|H].
              ** apply IN1 in H. apply reach_nodes in H. contradiction.
              ** apply IN2 in H. apply reach_nodes in H. contradiction.
           ++ apply NoDup_app_local; auto. intros x H1 H2. apply IN1 in H1. apply IN2 in H2.
              apply reach_unmarked in H2. rewrite MA in H2. apply orb_false_iff in H2. destruct H2 as [_ H2].
              assert (In x A) by (right; exact H1). apply existsb_node_in in H. congruence.
        -- intros m. split.
           ++ intros [<-|H]; [left; reflexivity|]. right. apply in_or_app. apply in_app_or in H.
              destruct H as [H|H]; [left; apply IN1; exact H|right; apply SUB; apply IN2; exact H].
           ++ intros [<-|H]; [left; reflexivity|]. apply in_app_or in H. destruct H as [H|H].
              ** right. apply in_or_app. left. apply IN1. exact H.
              ** destruct (reach_extra s s1 A hi MA CLA m H) as [HA|H1].
                 --- destruct HA as [<-|HA]; [left; reflexivity|]. right. apply in_or_app. left. apply IN1. exact HA.
                 --- right. apply in_or_app. right. apply IN2. exact H1.
        -- simpl. rewrite app_length. lia.
Qed.
End C.

Section Pub.
Variable S : Type.

Lemma reach_all_unmarked (s : scratch S) p : (forall n, s n = None) -> reach S s p = nodes p.
Proof.
  intros E. induction p as [| |c v lo IHlo hi IHhi]; simpl; auto.
  unfold Scratch.read_count. rewrite E, IHlo, IHhi. reflexivity.
Qed.

(* THE THEOREM (C10, count_nodes): from an all-empty scratch state the public call returns the
   number of distinct reachable nodes and leaves the scratch state all-empty *)
Theorem count_public_pure p (s : scratch S) : all_empty S s ->
  all_empty S (snd (count_public S p s)) /\
  exists L, NoDup L /\ (forall n, In n L <-> In n (nodes p)) /\ fst (count_public S p s) = length L.
Proof.
  intros E. unfold count_public.
  assert (CS : cstate S s) by (intros n; left; apply E).
  pose proof (count_h_spec S p s 0 CS) as H. destruct (count_h S p (s, 0)) as [s1 k].
  destruct H as (CS1 & M & F & L & ND & IN & K). simpl.
  rewrite (reach_all_unmarked s p E) in *.
  split.
  - assert (MARK : forall n, In n (nodes p) -> s1 n <> None).
    { intros n Hn Hs. specialize (M n). unfold Scratch.read_count in M at 1. rewrite Hs in M.
      unfold Scratch.read_count in M. rewrite E in M. simpl in M.
      symmetry in M. rewrite (proj2 (existsb_node_in n (nodes p)) Hn) in M. discriminate. }
    assert (HC : forall v lo hi, In (v, lo, hi) (nodes p) -> s1 (v, lo, hi) = None -> forall m, In m (nodes lo ++ nodes hi) -> s1 m = None).
    { intros v lo hi Hin Hs. exfalso. apply (MARK _ Hin). exact Hs. }
    destruct (clear_spec S p s1 HC) as (C & FC & KC).
    intros n. destruct (existsb (node_eqb n) (nodes p)) eqn:EX.
    + apply C. apply existsb_node_in. exact EX.
    + assert (Hn : ~ In n (nodes p)) by (intros H; apply existsb_node_in in H; congruence).
      rewrite FC, F by assumption. apply E.
  - exists L. repeat split; auto; try apply IN.
Qed.
End Pub.
