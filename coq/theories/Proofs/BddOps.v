(* C01: conditioning, the derived operations and canonicity-based corollaries, on top of
   ite_m_correct. *)
From Coq Require Import Bool NArith List Lia Arith.
Import ListNotations.
From RsddV Require Import Base.Bdd Model.IteStd Proofs.IteStd Proofs.BddCanon Model.BddOps Proofs.BddIte.

Lemma neg_neg p : neg (neg p) = p.
Proof. destruct p as [| |[] v l h]; reflexivity. Qed.

Section O.
Variable level : var -> nat.
Hypothesis level_inj : forall u v, level u = level v -> u = v.
Variable L : nat.

Notation WF := (WF level L).
Notation cond_m := (cond_m level).
Notation condition_m := (condition_m level).
Notation csound := (csound level L).

Definition restrict (f : asg -> bool) (v : var) (b : bool) : asg -> bool := fun x => f (upd x v b).

Lemma WF_const k (b : bool) : WF k (if b then BT else BF).
Proof. destruct b; split; simpl; auto. Qed.
Lemma WF_BT k : WF k BT. Proof. split; simpl; auto. Qed.
Lemma WF_BF k : WF k BF. Proof. split; simpl; auto. Qed.

(* ---------------- conditioning ---------------- *)
Section Cond.
Variable lbl : var.
Variable value : bool.

Definition good (p r : bdd) : Prop :=
  forall k, WF k p -> WF k r /\ forall x, den r x = den p (upd x lbl value).
Definition decode (q r : bdd) : bdd := if is_neg q then neg r else r.
Definition msound (m : memo) : Prop := Forall (fun e => good (fst e) (decode (fst e) (snd e))) m.

Lemma memo_get_sound m p r : msound m -> memo_get m p = Some r -> good p (decode p r).
Proof.
  unfold memo_get, msound. intros MS G.
  destruct (find _ m) as [[q r']|] eqn:F; [|discriminate]. injection G as <-.
  apply find_some in F. destruct F as [Hin Hk]. simpl in Hk. apply bdd_eqb_eq in Hk. subst q.
  rewrite Forall_forall in MS. apply (MS _ Hin).
Qed.

Lemma good_neg p r : good p r -> good (neg p) (neg r).
Proof.
  intros G k W. assert (W' : WF k p) by (rewrite <- (neg_neg p); apply WF_neg; exact W).
  destruct (G k W') as [Wr Dr]. split; [apply WF_neg; exact Wr|].
  intros x. rewrite !den_neg, Dr. reflexivity.
Qed.

Lemma WF_node_inv k c v lo hi : WF k (BN c v lo hi) ->
  k <= level v /\ level v < L /\ WF (S (level v)) lo /\ WF (S (level v)) hi /\ lo <> hi /\ is_neg hi = false /\ hi <> BF.
Proof. intros [W B]. simpl in W, B. destruct W as (? & ? & ? & ? & ? & ?), B as (? & ? & ?). repeat split; auto. Qed.

Lemma WF_reg k c v lo hi : WF k (BN c v lo hi) -> WF k (BN false v lo hi).
Proof. intros [W B]. split; simpl in *; auto. Qed.

Lemma cond_m_spec : forall p m r m',
  msound m -> cond_m p lbl value m = (r, m') -> msound m' /\ good p r.
Proof.
  induction p as [| |c v lo IHlo hi IHhi]; intros m r m' MS E.
  - simpl in E. injection E as <- <-. split; auto. intros k W. split; auto.
  - simpl in E. injection E as <- <-. split; auto. intros k W. split; auto.
  - cbn [BddOps.cond_m] in E.
    destruct (Nat.ltb_spec (level lbl) (level v)) as [Hlt|Hge].
    { injection E as <- <-. split; auto. intros k W. split; auto.
      intros x. symmetry. destruct (WF_node_inv _ _ _ _ _ W) as (Hk & HL & Wlo & Whi & Hne & Hreg & HnF).
      assert (W2 : wfb level (level v) (BN c v lo hi)).
      { destruct W as [W _]. simpl in *. intuition. }
      apply (den_upd_low level _ _ _ _ _ W2 Hlt). }
    destruct (N.eqb_spec v lbl) as [->|Hne].
    { injection E as <- <-. split; auto. intros k W.
      destruct (WF_node_inv _ _ _ _ _ W) as (Hk & HL & Wlo & Whi & Hnlh & Hreg & HnF).
      assert (Hl : forall x, den lo (upd x lbl value) = den lo x)
        by (intros; eapply den_upd_low; [apply Wlo|lia]).
      assert (Hh : forall x, den hi (upd x lbl value) = den hi x)
        by (intros; eapply den_upd_low; [apply Whi|lia]).
      split.
      - destruct value, c; try apply WF_neg; (eapply WF_weaken; [|eassumption]; lia).
      - intros x. cbn [den]. rewrite upd_same, Hl, Hh.
        destruct value, c; rewrite ?den_neg; simpl; try reflexivity;
          try (destruct (den hi x); reflexivity); try (destruct (den lo x); reflexivity). }
    assert (Hlv : level v < level lbl).
    { destruct (Nat.eq_dec (level v) (level lbl)) as [E'|E']; [apply level_inj in E'; congruence|lia]. }
    destruct (memo_get m (BN c v lo hi)) as [r0|] eqn:G.
    { injection E as <- <-. split; auto.
      pose proof (memo_get_sound _ _ _ MS G) as Gd. unfold decode in Gd. simpl in Gd. destruct c; exact Gd. }
    destruct (cond_m lo lbl value m) as [l m1] eqn:E1.
    destruct (cond_m hi lbl value m1) as [h m2] eqn:E2.
    destruct (IHlo _ _ _ MS E1) as [MS1 Gl].
    destruct (IHhi _ _ _ MS1 E2) as [MS2 Gh].
    (* facts valid under well-formedness of the node *)
    assert (SEM : forall k, WF k (BN c v lo hi) ->
              WF (S (level v)) l /\ WF (S (level v)) h /\ level v < L /\ k <= level v /\
              forall x, den (BN c v lo hi) (upd x lbl value) = xorb c (if x v then den h x else den l x)).
    { intros k W. destruct (WF_node_inv _ _ _ _ _ W) as (Hk & HL & Wlo & Whi & Hnlh & Hreg & HnF).
      destruct (Gl _ Wlo) as [Wl Dl]. destruct (Gh _ Whi) as [Wh Dh].
      split; [exact Wl|]. split; [exact Wh|]. split; [exact HL|]. split; [exact Hk|].
      intros x. cbn [den]. unfold upd at 1. destruct (N.eqb_spec v lbl); [congruence|].
      rewrite Dl, Dh. reflexivity. }
    destruct (bdd_eqb l h) eqn:EQ.
    { apply bdd_eqb_eq in EQ. subst h. injection E as <- <-. split; auto.
      intros k W. destruct (SEM k W) as (Wl & _ & HL & Hk & D). split.
      - destruct c; try apply WF_neg; (eapply WF_weaken; [|exact Wl]; lia).
      - intros x. rewrite D. destruct c; rewrite ?den_neg; destruct (x v); destruct (den l x); reflexivity. }
    assert (NE : l <> h) by (intros ->; rewrite (proj2 (bdd_eqb_eq h h) eq_refl) in EQ; discriminate).
    set (res := if negb (bdd_eqb l lo) || negb (bdd_eqb h hi)
                then (let r := mk_node v l h in if c then neg r else r) else BN c v lo hi) in *.
    injection E as <- <-.
    assert (GR : good (BN c v lo hi) res).
    { intros k W. destruct (SEM k W) as (Wl & Wh & HL & Hk & D).
      unfold res. destruct (negb (bdd_eqb l lo) || negb (bdd_eqb h hi)) eqn:CH.
      - destruct (mk_node_spec level L v l h Wl Wh NE HL) as [Wn Dn]. split.
        + destruct c; try apply WF_neg; (eapply WF_weaken; [|exact Wn]; lia).
        + intros x. rewrite D. destruct c; rewrite ?den_neg, Dn; destruct (x v); simpl;
            try reflexivity; try (destruct (den h x); reflexivity); try (destruct (den l x); reflexivity).
      - apply orb_false_iff in CH. destruct CH as [C1 C2].
        apply negb_false_iff in C1, C2. apply bdd_eqb_eq in C1, C2. subst l h. split; auto.
        intros x. rewrite D. reflexivity. }
    split; auto. constructor; auto. simpl. unfold decode. simpl.
    destruct c; simpl; rewrite ?neg_neg; exact GR.
Qed.

Theorem condition_m_correct k p :
  WF k p -> WF k (condition_m p lbl value) /\ forall x, den (condition_m p lbl value) x = den p (upd x lbl value).
Proof.
  intros W. unfold BddOps.condition_m.
  destruct (cond_m p lbl value []) as [r m'] eqn:E.
  destruct (cond_m_spec p [] r m' (Forall_nil _) E) as [_ G]. simpl. apply G. exact W.
Qed.
End Cond.

(* ---------------- derived operations ---------------- *)
Variable remember : nat -> bool.
Notation ite_m := (ite_m level remember).
Notation and_m := (and_m level remember).
Notation or_m := (or_m level remember).
Notation iff_m := (iff_m level remember).
Notation xor_m := (xor_m level remember).
Definition ok_result k (o : option (bdd * cst)) (f : asg -> bool) : Prop :=
  exists r s', o = Some (r, s') /\ WF k r /\ (forall x, den r x = f x) /\ csound s'.

Lemma ok_result_ext' k o f f' : (forall x, f x = f' x) -> ok_result k o f -> ok_result k o f'.
Proof.
  intros E (r & s & H1 & H2 & H3 & H4). exists r, s.
  split; [exact H1|]. split; [exact H2|]. split; [|exact H4]. intros x. rewrite H3. apply E.
Qed.

Ltac ok_split := split; [first [eassumption|reflexivity]|split; [first [eassumption|apply WF_neg; eassumption]|split; [|eassumption]]].

Lemma ite_ok fuel k s f g h :
  WF k f -> WF k g -> WF k h -> csound s -> L - k < fuel ->
  ok_result k (ite_m fuel s f g h) (fun x => ite_ (den f x) (den g x) (den h x)).
Proof. intros. apply (ite_m_correct level level_inj L remember); auto. Qed.

Lemma and_ok fuel k s f g :
  WF k f -> WF k g -> csound s -> L - k < fuel ->
  ok_result k (and_m fuel s f g) (fun x => den f x && den g x).
Proof.
  intros Wf Wg CS Hf. destruct (ite_ok fuel k s f g BF Wf Wg (WF_BF k) CS Hf) as (r & s' & E & Wr & D & CS').
  exists r, s'. ok_split. intros x. rewrite D. simpl. destruct (den f x), (den g x); reflexivity.
Qed.

Lemma or_ok fuel k s f g :
  WF k f -> WF k g -> csound s -> L - k < fuel ->
  ok_result k (or_m fuel s f g) (fun x => den f x || den g x).
Proof.
  intros Wf Wg CS Hf. unfold BddOps.or_m.
  destruct (and_ok fuel k s (neg f) (neg g) (WF_neg _ _ _ _ Wf) (WF_neg _ _ _ _ Wg) CS Hf) as (r & s' & E & Wr & D & CS').
  rewrite E. exists (neg r), s'. ok_split.
  intros x. rewrite den_neg, D, !den_neg. destruct (den f x), (den g x); reflexivity.
Qed.

Lemma iff_ok fuel k s f g :
  WF k f -> WF k g -> csound s -> L - k < fuel ->
  ok_result k (iff_m fuel s f g) (fun x => Bool.eqb (den f x) (den g x)).
Proof.
  intros Wf Wg CS Hf.
  destruct (ite_ok fuel k s f g (neg g) Wf Wg (WF_neg _ _ _ _ Wg) CS Hf) as (r & s' & E & Wr & D & CS').
  exists r, s'. ok_split. intros x. rewrite D, den_neg. destruct (den f x), (den g x); reflexivity.
Qed.

Lemma xor_ok fuel k s f g :
  WF k f -> WF k g -> csound s -> L - k < fuel ->
  ok_result k (xor_m fuel s f g) (fun x => xorb (den f x) (den g x)).
Proof.
  intros Wf Wg CS Hf.
  destruct (ite_ok fuel k s f (neg g) g Wf (WF_neg _ _ _ _ Wg) Wg CS Hf) as (r & s' & E & Wr & D & CS').
  exists r, s'. ok_split. intros x. rewrite D, den_neg. destruct (den f x), (den g x); reflexivity.
Qed.

Lemma exists_ok fuel k s p lbl :
  WF k p -> csound s -> L - k < fuel ->
  ok_result k (exists_m level remember fuel s p lbl)
            (fun x => den p (upd x lbl true) || den p (upd x lbl false)).
Proof.
  intros W CS Hf. unfold BddOps.exists_m.
  destruct (condition_m_correct lbl true k p W) as [W1 D1].
  destruct (condition_m_correct lbl false k p W) as [W0 D0].
  destruct (or_ok fuel k s _ _ W1 W0 CS Hf) as (r & s' & E & Wr & D & CS').
  exists r, s'. ok_split. intros x. rewrite D, D1, D0. reflexivity.
Qed.

Lemma var_m_spec v pol : level v < L ->
  WF 0 (var_m v pol) /\ forall x, den (var_m v pol) x = Bool.eqb (x v) pol.
Proof.
  intros Hv. unfold var_m, mk_node. simpl.
  assert (W : WF 0 (BN false v BF BT)).
  { split; simpl; repeat split; auto; try lia; discriminate. }
  destruct pol.
  - split; [exact W|]. intros x. simpl. destruct (x v); reflexivity.
  - split; [exact (WF_neg level L 0 _ W)|]. intros x. simpl. destruct (x v); reflexivity.
Qed.

(* BottomUpBuilder::compose: exists lbl. (lbl <=> g) /\ f *)
Definition compose_ (f : asg -> bool) (v : var) (g : asg -> bool) : asg -> bool :=
  fun x => (Bool.eqb (upd x v true v) (g (upd x v true)) && f (upd x v true))
        || (Bool.eqb (upd x v false v) (g (upd x v false)) && f (upd x v false)).

Lemma compose_ok fuel s f lbl g :
  WF 0 f -> WF 0 g -> level lbl < L -> csound s -> L < fuel ->
  ok_result 0 (compose_m level remember fuel s f lbl g) (compose_ (den f) lbl (den g)).
Proof.
  intros Wf Wg Hl CS Hf. unfold BddOps.compose_m.
  destruct (var_m_spec lbl true Hl) as [Wv Dv].
  destruct (iff_ok fuel 0 s _ _ Wv Wg CS ltac:(lia)) as (i & s1 & E1 & Wi & Di & CS1). rewrite E1.
  destruct (and_ok fuel 0 s1 _ _ Wi Wf CS1 ltac:(lia)) as (a & s2 & E2 & Wa & Da & CS2). rewrite E2.
  destruct (exists_ok fuel 0 s2 a lbl Wa CS2 ltac:(lia)) as (r & s3 & E3 & Wr & Dr & CS3).
  exists r, s3. ok_split. intros x. rewrite Dr, !Da, !Di, !Dv. unfold compose_.
  rewrite !upd_same. simpl. reflexivity.
Qed.

Lemma and_lst_ok fuel s l : forall acc,
  WF 0 acc -> Forall (WF 0) l -> csound s -> L < fuel ->
  ok_result 0 (and_lst_m level remember fuel s acc l)
            (fun x => den acc x && forallb (fun p => den p x) l).
Proof.
  revert s; induction l as [|p l IH]; intros s acc Wa Wl CS Hf; simpl.
  - exists acc, s. ok_split. intros x. rewrite andb_true_r. reflexivity.
  - inversion Wl as [|? ? Wp Wl']; subst.
    destruct (and_ok fuel 0 s acc p Wa Wp CS ltac:(lia)) as (a & s1 & E1 & W1 & D1 & CS1). rewrite E1.
    destruct (IH s1 a W1 Wl' CS1 Hf) as (r & s2 & E2 & W2 & D2 & CS2).
    exists r, s2. ok_split. intros x. rewrite D2, D1, andb_assoc. reflexivity.
Qed.

Lemma or_lst_ok fuel s l : forall acc,
  WF 0 acc -> Forall (WF 0) l -> csound s -> L < fuel ->
  ok_result 0 (or_lst_m level remember fuel s acc l)
            (fun x => den acc x || existsb (fun p => den p x) l).
Proof.
  revert s; induction l as [|p l IH]; intros s acc Wa Wl CS Hf; simpl.
  - exists acc, s. ok_split. intros x. rewrite orb_false_r. reflexivity.
  - inversion Wl as [|? ? Wp Wl']; subst.
    destruct (or_ok fuel 0 s acc p Wa Wp CS ltac:(lia)) as (a & s1 & E1 & W1 & D1 & CS1). rewrite E1.
    destruct (IH s1 a W1 Wl' CS1 Hf) as (r & s2 & E2 & W2 & D2 & CS2).
    exists r, s2. ok_split. intros x. rewrite D2, D1, orb_assoc. reflexivity.
Qed.

Lemma condition_model_ok lits : forall p,
  WF 0 p ->
  WF 0 (condition_model_m level p lits) /\
  forall x, den (condition_model_m level p lits) x = den p (fold_right (fun l a => upd a (fst l) (snd l)) x lits).
Proof.
  unfold condition_model_m. induction lits as [|[v b] lits IH]; intros p W; simpl; [split; auto|].
  destruct (condition_m_correct v b 0 p W) as [W1 D1].
  destruct (IH _ W1) as [W2 D2]. split; auto.
  intros x. rewrite D2, D1. reflexivity.
Qed.

(* ---------------- canonicity corollaries (C02 / C16) ---------------- *)
Lemma WF_canonical k p q : WF k p -> WF k q -> (forall a, den p a = den q a) -> p = q.
Proof. intros [Wp _] [Wq _]. apply (bdd_canonical level level_inj p q k Wp Wq). Qed.

End O.

(* the result of ite does not depend on the cache contents nor on what the cache forgets *)
Theorem ite_cache_transparent level (level_inj : forall u v, level u = level v -> u = v) L
        (rem1 rem2 : nat -> bool) fuel1 fuel2 s1 s2 f g h :
  WF level L 0 f -> WF level L 0 g -> WF level L 0 h ->
  csound level L s1 -> csound level L s2 -> L < fuel1 -> L < fuel2 ->
  exists r s1' s2', ite_m level rem1 fuel1 s1 f g h = Some (r, s1') /\
                    ite_m level rem2 fuel2 s2 f g h = Some (r, s2').
Proof.
  intros Wf Wg Wh C1 C2 F1 F2.
  destruct (ite_m_correct level level_inj L rem1 fuel1 0 s1 f g h Wf Wg Wh C1 ltac:(lia)) as (r1 & s1' & E1 & W1 & D1 & _).
  destruct (ite_m_correct level level_inj L rem2 fuel2 0 s2 f g h Wf Wg Wh C2 ltac:(lia)) as (r2 & s2' & E2 & W2 & D2 & _).
  assert (r1 = r2) by (apply (WF_canonical level level_inj L 0); auto; intros a; rewrite D1, D2; reflexivity).
  subst. eauto.
Qed.
