(* C10B: bdd_fold is pure.  The memoised bdd_fold_h returns what the plain recursion returns from
   every scratch state whose entries of this result type are sound and whose marks are closed under
   descendants (entries of other types are garbage that the fold overwrites), marks every reachable
   node, and clear_scratch empties them again; the DDNNF fold and count_nodes over the common
   scratch are simulated by Model/Scratch.v's; decision-DNNF conditioning only reads; hence any
   interleaving of the four kinds of public query answers like the pure functions. *)
From Coq Require Import Bool NArith List Lia Arith.
Import ListNotations.
From RsddV Require Import Base.Bdd Model.Wmc Model.Scratch Proofs.Scratch Proofs.ScratchCount
  Model.TopDown Model.Optim Model.ScratchFold.

Lemma in_nodes_dec (n : node) (l : list node) : {In n l} + {~ In n l}.
Proof.
  apply in_dec. intros a b. destruct (node_eqb a b) eqn:E.
  - left. apply node_eqb_eq. exact E.
  - right. intros H. apply node_eqb_eq in H. congruence.
Defined.

Section C.
Variable T : Type.
Notation cscratch := (cscratch T).
Notation cset := (cset T).
Notation cclear := (cclear T).

Definition call_empty (s : cscratch) : Prop := forall n, s n = None.

Lemma cset_same s n v : cset s n v n = v.
Proof. unfold ScratchFold.cset. rewrite node_eqb_refl. reflexivity. Qed.
Lemma cset_other s n v m : m <> n -> cset s n v m = s m.
Proof. intros H. unfold ScratchFold.cset. rewrite node_eqb_neq; auto. Qed.

(* ------------------------------------------------------------------------------------- *)
(* clear_scratch on the common scratch *)
Theorem cclear_spec : forall p s,
  (forall v lo hi, In (v, lo, hi) (nodes p) -> s (v, lo, hi) = None -> forall m, In m (nodes lo ++ nodes hi) -> s m = None) ->
  (forall n, In n (nodes p) -> cclear p s n = None) /\
  (forall n, ~ In n (nodes p) -> cclear p s n = s n) /\
  (forall n, s n = None -> cclear p s n = None).
Proof.
  induction p as [| |c v lo IHlo hi IHhi]; intros s H.
  - simpl. repeat split; auto; contradiction.
  - simpl. repeat split; auto; contradiction.
  - cbn [ScratchFold.cclear]. set (n := (v, lo, hi)) in *.
    assert (NN : ~ In n (nodes lo ++ nodes hi)) by apply node_not_in_children.
    destruct (s n) as [e|] eqn:Sn.
    + set (s1 := cset s n None).
      assert (H1 : forall v' lo' hi', In (v', lo', hi') (nodes lo) -> s1 (v', lo', hi') = None ->
                   forall m, In m (nodes lo' ++ nodes hi') -> s1 m = None).
      { intros v' lo' hi' Hin Hs m Hm.
        assert (NE : (v', lo', hi') <> n) by (intros E; apply NN; rewrite <- E; apply in_or_app; auto).
        unfold s1 in Hs. rewrite cset_other in Hs by assumption.
        unfold s1. destruct (node_eqb m n) eqn:E; [apply node_eqb_eq in E; subst m; apply cset_same|].
        rewrite cset_other by (neq E).
        eapply (H v' lo' hi'); eauto. simpl. right. apply in_or_app. auto. }
      destruct (IHlo s1 H1) as (C1 & F1 & K1). set (s2 := cclear lo s1) in *.
      assert (H2 : forall v' lo' hi', In (v', lo', hi') (nodes hi) -> s2 (v', lo', hi') = None ->
                   forall m, In m (nodes lo' ++ nodes hi') -> s2 m = None).
      { intros v' lo' hi' Hin Hs m Hm.
        destruct (in_nodes_dec (v', lo', hi') (nodes lo)) as [Il|Nl].
        - apply C1. eapply nodes_trans; eauto.
        - rewrite F1 in Hs by assumption.
          assert (NE : (v', lo', hi') <> n) by (intros E; apply NN; rewrite <- E; apply in_or_app; auto).
          unfold s1 in Hs. rewrite cset_other in Hs by assumption.
          apply K1. unfold s1. destruct (node_eqb m n) eqn:E; [apply node_eqb_eq in E; subst m; apply cset_same|].
          rewrite cset_other by (neq E).
          eapply (H v' lo' hi'); eauto. simpl. right. apply in_or_app. auto. }
      destruct (IHhi s2 H2) as (C2 & F2 & K2).
      split; [|split].
      * intros m Hm. simpl in Hm. destruct Hm as [<-|Hm].
        -- apply K2, K1. unfold s1. apply cset_same.
        -- apply in_app_or in Hm. destruct Hm as [Hm|Hm]; [apply K2, C1; exact Hm|apply C2; exact Hm].
      * intros m Hm. simpl in Hm.
        assert (m <> n) by (intros ->; apply Hm; left; reflexivity).
        rewrite F2, F1 by (intros Hin; apply Hm; right; apply in_or_app; auto).
        unfold s1. apply cset_other. assumption.
      * intros m Hm. apply K2, K1. unfold s1.
        destruct (node_eqb m n) eqn:E; [apply node_eqb_eq in E; subst m; apply cset_same|].
        rewrite cset_other by (neq E). exact Hm.
    + split; [|split]; auto.
      intros m Hm. simpl in Hm. destruct Hm as [<-|Hm]; auto. eapply (H v lo hi); eauto. simpl. left. reflexivity.
Qed.

(* after a traversal that marked every reachable node, clear_scratch restores whatever was there
   outside the diagram and empties the diagram *)
Lemma cclear_after_marking p (s0 s1 : cscratch) :
  call_empty s0 ->
  (forall n, ~ In n (nodes p) -> s1 n = s0 n) ->
  (forall n, In n (nodes p) -> s1 n <> None) ->
  call_empty (cclear p s1).
Proof.
  intros E F M.
  assert (HC : forall v lo hi, In (v, lo, hi) (nodes p) -> s1 (v, lo, hi) = None -> forall m, In m (nodes lo ++ nodes hi) -> s1 m = None).
  { intros v lo hi Hin Hs. exfalso. apply (M _ Hin). exact Hs. }
  destruct (cclear_spec p s1 HC) as (C & FC & K).
  intros n. destruct (in_nodes_dec n (nodes p)) as [Hin|Hn].
  - apply C. exact Hin.
  - rewrite FC, F by assumption. apply E.
Qed.

Lemma cclear_empty p (s : cscratch) : call_empty s -> call_empty (cclear p s).
Proof.
  intros E. assert (HC : forall v lo hi, In (v, lo, hi) (nodes p) -> s (v, lo, hi) = None -> forall m, In m (nodes lo ++ nodes hi) -> s m = None) by (intros; apply E).
  destruct (cclear_spec p s HC) as (_ & _ & K). intros n. apply K, E.
Qed.

(* ------------------------------------------------------------------------------------- *)
(* bdd_fold_h *)
Section BFold.
Variable ty : tyid.
Variable f : var -> T -> T -> T.
Variable low_v high_v : T.
Notation plain := (bdd_fold_plain T f low_v high_v).
Notation bdd_fold_h := (bdd_fold_h T ty f low_v high_v).

(* the plain recursion stated in Model/ScratchFold.v is Model/Optim.v's (the one C12 is about) *)
Lemma bdd_fold_plain_eq_optim c0 p : plain c0 p = bdd_fold_c f low_v high_v c0 p.
Proof. revert c0. induction p as [| |c v lo IHlo hi IHhi]; intros c0; simpl; try reflexivity; rewrite IHlo, IHhi; reflexivity. Qed.

(* invariant during a bdd_fold: entries of THIS result type hold plain values; every other kind of
   entry is arbitrary (it reads as empty and is overwritten); marks are closed under descendants *)
Definition bentry_ok (n : node) (e : option (cpayload T)) : Prop :=
  match e with
  | Some (CPair ty' a b) =>
      ty' = ty ->
      (forall x, a = Some x -> x = plain true (node_ptr n)) /\
      (forall y, b = Some y -> y = plain false (node_ptr n))
  | _ => True
  end.
Definition binv (s : cscratch) : Prop :=
  (forall n, bentry_ok n (s n)) /\
  (forall v lo hi, s (v, lo, hi) <> None -> forall m, In m (nodes lo ++ nodes hi) -> s m <> None).

Lemma binv_empty s : call_empty s -> binv s.
Proof. intros E. split; [intros n; rewrite E; exact I|intros v lo hi H; rewrite E in H; contradiction]. Qed.

Theorem bdd_fold_h_spec : forall p c0 s, binv s ->
  let '(r, s') := bdd_fold_h c0 p s in
  r = plain c0 p /\ binv s' /\
  (forall n, ~ In n (nodes p) -> s' n = s n) /\
  (forall n, In n (nodes p) -> s' n <> None) /\
  (forall n, s n <> None -> s' n <> None).
Proof.
  induction p as [| |c v lo IHlo hi IHhi]; intros c0 s I.
  - simpl. repeat split; auto; try apply I; contradiction.
  - simpl. repeat split; auto; try apply I; contradiction.
  - cbn [ScratchFold.bdd_fold_h].
    set (ng := xorb c0 c). set (n := (v, lo, hi)).
    (* the miss path *)
    assert (HELPER : forall pl ph,
              (forall x, (if ng then ph else pl) = Some x -> x = plain (negb ng) (node_ptr n)) ->
              let '(r, s') :=
                (let '(l, s1) := bdd_fold_h ng lo s in
                 let '(h, s2) := bdd_fold_h ng hi s1 in
                 let res := f v l h in
                 (res, cset s2 n (Some (if ng then CPair ty (Some res) ph else CPair ty pl (Some res))))) in
              r = plain c0 (BN c v lo hi) /\ binv s' /\
              (forall m, ~ In m (nodes (BN c v lo hi)) -> s' m = s m) /\
              (forall m, In m (nodes (BN c v lo hi)) -> s' m <> None) /\
              (forall m, s m <> None -> s' m <> None)).
    { intros pl ph Hc.
      specialize (IHlo ng s I). destruct (bdd_fold_h ng lo s) as [lv s1]. destruct IHlo as (Elv & I1 & F1 & M1 & K1).
      specialize (IHhi ng s1 I1). destruct (bdd_fold_h ng hi s1) as [hv s2]. destruct IHhi as (Ehv & I2 & F2 & M2 & K2).
      assert (ER : f v lv hv = plain c0 (BN c v lo hi)) by (subst lv hv; reflexivity).
      assert (NN : ~ In n (nodes lo ++ nodes hi)) by apply node_not_in_children.
      split; [exact ER|]. split; [|split; [|split]].
      - destruct I2 as [EO DC]. split.
        + intros m. destruct (node_eqb m n) eqn:E.
          * apply node_eqb_eq in E. subst m. rewrite cset_same.
            assert (PN : forall b, plain b (node_ptr n) = f v (plain b lo) (plain b hi)).
            { intros b. simpl. rewrite xorb_false_r. reflexivity. }
            assert (RV : f v lv hv = plain ng (node_ptr n)) by (rewrite PN; subst lv hv; reflexivity).
            destruct ng; simpl; intros _; split; intros z Hz; try (injection Hz as <-; exact RV); apply Hc; exact Hz.
          * rewrite cset_other by (neq E). apply EO.
        + intros v' lo' hi' Hm m Hin. destruct (node_eqb (v', lo', hi') n) eqn:E.
          * apply node_eqb_eq in E. injection E as -> -> ->.
            assert (m <> n) by (intros ->; contradiction).
            rewrite cset_other by assumption.
            apply in_app_or in Hin. destruct Hin as [Hin|Hin]; [apply K2, M1; exact Hin|apply M2; exact Hin].
          * assert (NE : (v', lo', hi') <> n) by (neq E).
            rewrite cset_other in Hm by assumption.
            destruct (node_eqb m n) eqn:E2; [apply node_eqb_eq in E2; subst m; rewrite cset_same; destruct ng; discriminate|].
            rewrite cset_other by (neq E2).
            eapply DC; eauto.
      - intros m Hm. simpl in Hm.
        assert (m <> n) by (intros ->; apply Hm; left; reflexivity).
        rewrite cset_other by assumption.
        rewrite F2, F1; auto; intros Hin; apply Hm; right; apply in_or_app; auto.
      - intros m Hm. simpl in Hm. destruct Hm as [<-|Hm]; [rewrite cset_same; destruct ng; discriminate|].
        assert (m <> n) by (intros ->; contradiction).
        rewrite cset_other by assumption.
        apply in_app_or in Hm. destruct Hm as [Hm|Hm]; [apply K2, M1; exact Hm|apply M2; exact Hm].
      - intros m Hm. destruct (node_eqb m n) eqn:E; [apply node_eqb_eq in E; subst m; rewrite cset_same; destruct ng; discriminate|].
        rewrite cset_other by (neq E). apply K2, K1, Hm. }
    (* a hit: nothing changes, and the marks below are already there *)
    assert (HIT : forall r, r = plain c0 (BN c v lo hi) -> s n <> None ->
              r = plain c0 (BN c v lo hi) /\ binv s /\
              (forall m, ~ In m (nodes (BN c v lo hi)) -> s m = s m) /\
              (forall m, In m (nodes (BN c v lo hi)) -> s m <> None) /\
              (forall m, s m <> None -> s m <> None)).
    { intros r Er Hn. repeat split; auto; try apply I.
      intros m Hm. simpl in Hm. destruct Hm as [<-|Hm]; auto. destruct I as [_ DC]. eapply DC; eauto. }
    assert (PC : forall b, plain b (node_ptr n) = plain (xorb b c) (BN c v lo hi)).
    { intros b. simpl. rewrite xorb_false_r. destruct b, c; reflexivity. }
    assert (C0 : c0 = xorb ng c) by (unfold ng; destruct c0, c; reflexivity).
    unfold ScratchFold.read_pair. fold n.
    pose proof (proj1 I n) as EO. destruct (s n) as [[ty' a b| | |]|] eqn:Sn; unfold bentry_ok in EO;
      try (apply (HELPER None None); destruct ng; intros z Hz; discriminate).
    destruct (N.eqb ty' ty) eqn:Ety; [|apply (HELPER None None); destruct ng; intros z Hz; discriminate].
    apply N.eqb_eq in Ety. destruct (EO Ety) as [Ea Eb].
    destruct a as [x|], b as [y|].
    + destruct ng eqn:NG.
      * apply HIT; [|discriminate]. rewrite (Ea _ eq_refl), PC, C0. reflexivity.
      * apply HIT; [|discriminate]. rewrite (Eb _ eq_refl), PC, C0. reflexivity.
    + destruct ng eqn:NG.
      * apply HIT; [|discriminate]. rewrite (Ea _ eq_refl), PC, C0. reflexivity.
      * apply (HELPER (Some x) None). intros z [= <-]. apply Ea. reflexivity.
    + destruct ng eqn:NG.
      * apply (HELPER None (Some y)). intros z [= <-]. apply Eb. reflexivity.
      * apply HIT; [|discriminate]. rewrite (Eb _ eq_refl), PC, C0. reflexivity.
    + apply (HELPER None None). destruct ng; intros z Hz; discriminate.
Qed.

(* THE THEOREM for bdd_fold: from an all-empty scratch state the public fold returns the plain
   recursion's value and leaves the scratch state all-empty *)
Theorem bdd_fold_public_pure p s : call_empty s ->
  fst (bdd_fold_public T ty f low_v high_v p s) = plain false p /\
  call_empty (snd (bdd_fold_public T ty f low_v high_v p s)).
Proof.
  intros E. unfold bdd_fold_public.
  pose proof (bdd_fold_h_spec p false s (binv_empty s E)) as H.
  destruct (bdd_fold_h false p s) as [r s1]. destruct H as (Er & I1 & F1 & M1 & K1). simpl.
  split; [exact Er|]. eapply cclear_after_marking; eauto.
Qed.

(* stronger: the public fold answers right from ANY state satisfying the invariant -- e.g. one
   littered with descendant-closed entries of other types -- and empties the diagram *)
Theorem bdd_fold_public_from_inv p s : binv s ->
  fst (bdd_fold_public T ty f low_v high_v p s) = plain false p /\
  (forall n, In n (nodes p) -> snd (bdd_fold_public T ty f low_v high_v p s) n = None) /\
  (forall n, s n = None -> snd (bdd_fold_public T ty f low_v high_v p s) n = None).
Proof.
  intros I. unfold bdd_fold_public.
  pose proof (bdd_fold_h_spec p false s I) as H.
  destruct (bdd_fold_h false p s) as [r s1]. destruct H as (Er & I1 & F1 & M1 & K1). simpl.
  split; [exact Er|].
  assert (HC : forall v lo hi, In (v, lo, hi) (nodes p) -> s1 (v, lo, hi) = None -> forall m, In m (nodes lo ++ nodes hi) -> s1 m = None).
  { intros v lo hi Hin Hs. exfalso. apply (M1 _ Hin). exact Hs. }
  destruct (cclear_spec p s1 HC) as (C & FC & K). split; [exact C|].
  intros n Hn. destruct (in_nodes_dec n (nodes p)) as [Hin|Hnin]; [apply C; exact Hin|].
  rewrite FC, F1 by assumption. exact Hn.
Qed.
End BFold.

(* ------------------------------------------------------------------------------------- *)
(* sequences of bdd_fold queries of one result type: different node functions, base values,
   diagrams sharing nodes *)
Definition bquery := ((var -> T -> T -> T) * T * T * bdd)%type.
Fixpoint run_bqueries (ty : tyid) (qs : list bquery) (s : cscratch) : list T * cscratch :=
  match qs with
  | [] => ([], s)
  | (f, lo, hi, p) :: r =>
    let '(a, s1) := bdd_fold_public T ty f lo hi p s in
    let '(rest, s2) := run_bqueries ty r s1 in (a :: rest, s2)
  end.

Theorem bdd_fold_queries_commute ty qs : forall s, call_empty s ->
  fst (run_bqueries ty qs s) = map (fun q => let '(f, lo, hi, p) := q in bdd_fold_plain T f lo hi false p) qs /\
  call_empty (snd (run_bqueries ty qs s)).
Proof.
  induction qs as [|[[[f lo] hi] p] r IH]; intros s E; simpl; [split; auto|].
  destruct (bdd_fold_public_pure ty f lo hi p s E) as [Ea Es].
  destruct (bdd_fold_public T ty f lo hi p s) as [a s1]. simpl in Ea, Es.
  destruct (IH s1 Es) as [Er Es2]. destruct (run_bqueries ty r s1) as [rest s2]. simpl in *.
  split; [rewrite Ea, Er; reflexivity|exact Es2].
Qed.

(* ------------------------------------------------------------------------------------- *)
(* simulation: the DDNNF fold / count_nodes / clear over the common scratch behave as
   Model/Scratch.v's on every state that is the image of a Model/Scratch.v state *)
Definition emb (ty : tyid) (x : payload T) : cpayload T :=
  match x with PFold a b => CPair ty a b | PCount => CCount end.
Definition sim (ty : tyid) (cs : cscratch) (s : scratch T) : Prop :=
  forall n, cs n = option_map (emb ty) (s n).

Lemma sim_set ty cs s n v : sim ty cs s -> sim ty (cset cs n (option_map (emb ty) v)) (set_s T s n v).
Proof.
  intros H m. unfold ScratchFold.cset, Scratch.set_s. destruct (node_eqb m n); [reflexivity|apply H].
Qed.

Lemma sim_empty ty cs : call_empty cs -> sim ty cs (empty_scratch T).
Proof. intros E n. rewrite E. reflexivity. Qed.

Lemma sim_all_empty ty cs s : sim ty cs s -> all_empty T s -> call_empty cs.
Proof. intros H E n. rewrite H, E. reflexivity. Qed.

Lemma sim_clear ty : forall p cs s, sim ty cs s -> sim ty (cclear p cs) (clear T p s).
Proof.
  induction p as [| |c v lo IHlo hi IHhi]; intros cs s H; simpl; auto.
  rewrite (H (v, lo, hi)). destruct (s (v, lo, hi)) as [e|]; simpl; auto.
  apply IHhi, IHlo. apply (sim_set ty cs s (v, lo, hi) None H).
Qed.

Section CFold.
Variable ty : tyid.
Variable add mul : T -> T -> T.
Variable zero one : T.
Variable wlo whi : var -> T.

Lemma sim_read_pair cs s n : sim ty cs s -> read_pair T ty cs n = read_fold T s n.
Proof.
  intros H. unfold read_pair, read_fold. rewrite (H n).
  destruct (s n) as [[a b|]|]; simpl; auto. rewrite N.eqb_refl. reflexivity.
Qed.

Lemma cfold_sim : forall p c0 cs s, sim ty cs s ->
  fst (cfold_memo T ty add mul zero one wlo whi c0 p cs) = fst (fold_memo T add mul zero one wlo whi c0 p s) /\
  sim ty (snd (cfold_memo T ty add mul zero one wlo whi c0 p cs)) (snd (fold_memo T add mul zero one wlo whi c0 p s)).
Proof.
  induction p as [| |c v lo IHlo hi IHhi]; intros c0 cs s H.
  - simpl. auto.
  - simpl. auto.
  - cbn [cfold_memo fold_memo].
    set (ng := xorb c0 c). set (n := (v, lo, hi)).
    assert (HELPER : forall cached,
      fst (let '(lv, s1) := cfold_memo T ty add mul zero one wlo whi ng lo cs in
           let '(hv, s2) := cfold_memo T ty add mul zero one wlo whi ng hi s1 in
           let r := add (mul (wlo v) lv) (mul (whi v) hv) in
           (r, cset s2 n (Some (if ng then CPair ty (Some r) cached else CPair ty cached (Some r))))) =
      fst (let '(lv, s1) := fold_memo T add mul zero one wlo whi ng lo s in
           let '(hv, s2) := fold_memo T add mul zero one wlo whi ng hi s1 in
           let r := add (mul (wlo v) lv) (mul (whi v) hv) in
           (r, set_s T s2 n (Some (if ng then PFold (Some r) cached else PFold cached (Some r))))) /\
      sim ty
       (snd (let '(lv, s1) := cfold_memo T ty add mul zero one wlo whi ng lo cs in
           let '(hv, s2) := cfold_memo T ty add mul zero one wlo whi ng hi s1 in
           let r := add (mul (wlo v) lv) (mul (whi v) hv) in
           (r, cset s2 n (Some (if ng then CPair ty (Some r) cached else CPair ty cached (Some r))))))
       (snd (let '(lv, s1) := fold_memo T add mul zero one wlo whi ng lo s in
           let '(hv, s2) := fold_memo T add mul zero one wlo whi ng hi s1 in
           let r := add (mul (wlo v) lv) (mul (whi v) hv) in
           (r, set_s T s2 n (Some (if ng then PFold (Some r) cached else PFold cached (Some r))))))).
    { intros cached.
      destruct (IHlo ng cs s H) as [E1 S1].
      destruct (cfold_memo T ty add mul zero one wlo whi ng lo cs) as [lv cs1].
      destruct (fold_memo T add mul zero one wlo whi ng lo s) as [lv' s1]. simpl in E1, S1. subst lv'.
      destruct (IHhi ng cs1 s1 S1) as [E2 S2].
      destruct (cfold_memo T ty add mul zero one wlo whi ng hi cs1) as [hv cs2].
      destruct (fold_memo T add mul zero one wlo whi ng hi s1) as [hv' s2]. simpl in E2, S2. subst hv'.
      simpl. split; [reflexivity|].
      set (r := add (mul (wlo v) lv) (mul (whi v) hv)).
      pose proof (sim_set ty cs2 s2 n (Some (if ng then PFold (Some r) cached else PFold cached (Some r))) S2) as SS.
      destruct ng; exact SS. }
    rewrite (sim_read_pair cs s n H). fold n.
    destruct (read_fold T s n) as [[[l|] [h|]]|]; try apply HELPER; try (simpl; auto; fail);
      destruct ng; try apply HELPER; simpl; auto.
Qed.

(* the public DDNNF fold over the common scratch is pure *)
Theorem cfold_public_pure p cs : call_empty cs ->
  fst (cfold_public T ty add mul zero one wlo whi p cs) = wmc_c T add mul zero one wlo whi false p /\
  call_empty (snd (cfold_public T ty add mul zero one wlo whi p cs)).
Proof.
  intros E.
  pose proof (fold_public_pure T add mul zero one wlo whi p (empty_scratch T) (fun _ => eq_refl)) as [Ea Es].
  unfold cfold_public, fold_public in *.
  destruct (cfold_sim p false cs (empty_scratch T) (sim_empty ty cs E)) as [E1 S1].
  destruct (cfold_memo T ty add mul zero one wlo whi false p cs) as [r cs1].
  destruct (fold_memo T add mul zero one wlo whi false p (empty_scratch T)) as [r' s1].
  simpl in *. split; [rewrite E1; exact Ea|].
  eapply sim_all_empty; [apply sim_clear; exact S1|exact Es].
Qed.
End CFold.

Lemma sim_read_cnt ty cs s n : sim ty cs s -> read_cnt T cs n = read_count T s n.
Proof.
  intros H. unfold read_cnt, read_count. rewrite (H n). destruct (s n) as [[a b|]|]; reflexivity.
Qed.

Lemma ccount_sim ty : forall p cs s k, sim ty cs s ->
  snd (ccount_h T p (cs, k)) = snd (count_h T p (s, k)) /\
  sim ty (fst (ccount_h T p (cs, k))) (fst (count_h T p (s, k))).
Proof.
  induction p as [| |c v lo IHlo hi IHhi]; intros cs s k H.
  - simpl. auto.
  - simpl. auto.
  - cbn [ccount_h count_h]. rewrite (sim_read_cnt ty cs s _ H).
    destruct (read_count T s (v, lo, hi)); [simpl; auto|].
    pose proof (sim_set ty cs s (v, lo, hi) (Some PCount) H) as H0. simpl in H0.
    destruct (IHlo _ _ (S k) H0) as [E1 S1].
    destruct (ccount_h T lo (cset cs (v, lo, hi) (Some CCount), S k)) as [cs1 k1].
    destruct (count_h T lo (set_s T s (v, lo, hi) (Some PCount), S k)) as [s1 k1'].
    simpl in E1, S1. subst k1'. apply IHhi. exact S1.
Qed.

Lemma dedup_in l n : In n (dedup l) <-> In n l.
Proof.
  induction l as [|x r IH]; simpl; [tauto|].
  destruct (existsb (node_eqb x) r) eqn:E.
  - rewrite IH. split; auto. intros [<-|H]; auto. apply existsb_node_in. exact E.
  - simpl. rewrite IH. tauto.
Qed.
Lemma dedup_nodup l : NoDup (dedup l).
Proof.
  induction l as [|x r IH]; simpl; [constructor|].
  destruct (existsb (node_eqb x) r) eqn:E; auto. constructor; auto.
  rewrite dedup_in. intros H. apply existsb_node_in in H. congruence.
Qed.

(* count_nodes over the common scratch is pure: the number of distinct reachable nodes *)
Theorem ccount_public_pure p cs : call_empty cs ->
  fst (ccount_public T p cs) = count_pure p /\ call_empty (snd (ccount_public T p cs)).
Proof.
  intros E.
  destruct (count_public_pure T p (empty_scratch T) (fun _ => eq_refl)) as (Es & L & ND & IN & EL).
  unfold ccount_public, count_public in *.
  destruct (ccount_sim 0%N p cs (empty_scratch T) 0 (sim_empty 0%N cs E)) as [E1 S1].
  destruct (ccount_h T p (cs, 0)) as [cs1 k]. destruct (count_h T p (empty_scratch T, 0)) as [s1 k'].
  simpl in *. split.
  - rewrite E1, EL. unfold count_pure. apply Nat.le_antisymm; apply NoDup_incl_length; auto using dedup_nodup.
    + intros x Hx. apply dedup_in, IN. exact Hx.
    + intros x Hx. apply IN, dedup_in. exact Hx.
  - eapply sim_all_empty; [apply sim_clear; exact S1|exact Es].
Qed.

(* ------------------------------------------------------------------------------------- *)
(* decision-DNNF conditioning: the lookup misses whenever no reachable node holds a BddPtr
   payload; the state is never written, only cleared *)
Lemma cond_helper_s_pure lbl value s : forall p,
  (forall n, In n (nodes p) -> read_ptr T s n = None) ->
  cond_helper_s T p lbl value s = cond_helper p lbl value.
Proof.
  induction p as [| |c v lo IHlo hi IHhi]; intros H; simpl; auto.
  destruct (N.eqb v lbl); auto.
  rewrite (H (v, lo, hi)) by (simpl; auto).
  rewrite IHlo, IHhi; auto; intros n Hn; apply H; simpl; right; apply in_or_app; auto.
Qed.

Theorem dnnf_condition_scratch_pure p lbl value s : call_empty s ->
  fst (dnnf_condition_s T p lbl value s) = cond_helper p lbl value /\
  call_empty (snd (dnnf_condition_s T p lbl value s)).
Proof.
  intros E. unfold dnnf_condition_s. simpl. split.
  - apply cond_helper_s_pure. intros n _. unfold read_ptr. rewrite E. reflexivity.
  - apply cclear_empty. exact E.
Qed.

(* the result depends on the scratch state only through the BddPtr-typed entries of reachable nodes *)
Theorem dnnf_condition_reads_only_ptr p lbl value s :
  (forall n, In n (nodes p) -> read_ptr T s n = None) ->
  fst (dnnf_condition_s T p lbl value s) = cond_helper p lbl value.
Proof. intros H. unfold dnnf_condition_s. simpl. apply cond_helper_s_pure. exact H. Qed.

(* ------------------------------------------------------------------------------------- *)
(* mixed sequences *)
Definition pure_answer (q : mquery T) : manswer T :=
  match q with
  | MFold _ add mul zero one wlo whi p => AVal (wmc_m T add mul zero one wlo whi p)
  | MCount p => ANat (count_pure p)
  | MBFold _ f low_v high_v p => AVal (bdd_fold_plain T f low_v high_v false p)
  | MCond p lbl value => APtr (cond_helper p lbl value)
  end.

(* every public query maps all-empty to all-empty and returns its pure value *)
Theorem mquery_pure q s : call_empty s ->
  fst (run_mquery T q s) = pure_answer q /\ call_empty (snd (run_mquery T q s)).
Proof.
  intros E. destruct q as [ty add mul zero one wlo whi p|p|ty f lo hi p|p lbl value]; simpl.
  - destruct (cfold_public_pure ty add mul zero one wlo whi p s E) as [Ea Es].
    destruct (cfold_public T ty add mul zero one wlo whi p s) as [r s']. simpl in *. split; [rewrite Ea; reflexivity|exact Es].
  - destruct (ccount_public_pure p s E) as [Ea Es].
    destruct (ccount_public T p s) as [k s']. simpl in *. split; [rewrite Ea; reflexivity|exact Es].
  - destruct (bdd_fold_public_pure ty f lo hi p s E) as [Ea Es].
    destruct (bdd_fold_public T ty f lo hi p s) as [r s']. simpl in *. split; [rewrite Ea; reflexivity|exact Es].
  - destruct (dnnf_condition_scratch_pure p lbl value s E) as [Ea Es].
    unfold dnnf_condition_s in *. simpl in *. split; [rewrite Ea; reflexivity|exact Es].
Qed.

Theorem mixed_queries_commute qs : forall s, call_empty s ->
  fst (run_mixed T qs s) = map pure_answer qs /\ call_empty (snd (run_mixed T qs s)).
Proof.
  induction qs as [|q r IH]; intros s E; simpl; [split; auto|].
  destruct (mquery_pure q s E) as [Ea Es].
  destruct (run_mquery T q s) as [a s1]. simpl in Ea, Es.
  destruct (IH s1 Es) as [Er Es2]. destruct (run_mixed T r s1) as [rest s2]. simpl in *.
  split; [rewrite Ea, Er; reflexivity|exact Es2].
Qed.
End C.

(* ------------------------------------------------------------------------------------- *)
(* concrete instances used by Properties/C10B.v to show the hypotheses are satisfiable *)
Definition ex_shared := BN false 2%N BF BT.
Definition ex_p := BN true 0%N ex_shared (BN false 1%N (BN true 2%N BF BT) BT).
Definition ex_q := BN false 1%N BT ex_shared.
Definition ex_f1 := fun (v l h : N) => ((2 * l + 3 * h + v) mod 7)%N.
Definition ex_f2 := fun (v l h : N) => ((l + 5 * h + v) mod 11)%N.
Definition ex_w := fun v : var => (v + 2)%N.
Definition ex_qs : list (mquery N) :=
  [MBFold 0%N ex_f1 0%N 1%N ex_p; MFold 0%N N.add N.mul 0%N 1%N ex_w ex_w ex_q; MBFold 0%N ex_f2 2%N 3%N ex_q;
   MCount ex_p; MBFold 1%N ex_f1 2%N 3%N (neg ex_p); MCond ex_p 1%N true; MBFold 0%N ex_f2 0%N 1%N ex_p].

(* non-vacuity: diagrams sharing the node (2, F, T), which ex_p reaches in both polarities (so its
   (compl, reg) pair is filled on both sides and then hit); three different node functions and two
   pairs of base values; a weighted count with the SAME TypeId as the bdd_folds around it and a
   bdd_fold with another one; a count and a conditioning in between *)
Lemma ex_nonvacuous :
  fst (run_mixed N ex_qs (cempty N)) = map (pure_answer N) ex_qs
  /\ map (pure_answer N) ex_qs =
       [AVal 6%N; AVal 15%N; AVal 0%N; ANat 3; AVal 4%N; APtr (BN true 0%N (BN false 2%N BF BT) BT); AVal 10%N]
  /\ map (snd (bdd_fold_h N 0%N ex_f1 0%N 1%N false ex_p (cempty N))) (nodes ex_p) =
       [Some (CPair 0%N (Some 6%N) None); Some (CPair 0%N (Some 4%N) (Some 5%N));
        Some (CPair 0%N (Some 4%N) None); Some (CPair 0%N (Some 4%N) (Some 5%N))].
Proof. vm_compute. repeat split; reflexivity. Qed.

(* the invariant of C10B_bdd_fold_memo_eq holds in a non-empty state (the one above, mid-query) and
   in a state littered with another query's garbage: a count mark left on the shared node
   (2, F, T), from which a bdd_fold on ex_p still answers 6 and empties its diagram *)
Lemma ex_nonvacuous_inv :
  binv N 0%N ex_f1 0%N 1%N (snd (bdd_fold_h N 0%N ex_f1 0%N 1%N false ex_p (cempty N))).
Proof.
  pose proof (bdd_fold_h_spec N 0%N ex_f1 0%N 1%N ex_p false (cempty N) (binv_empty N 0%N ex_f1 0%N 1%N _ (fun _ => eq_refl))) as H.
  destruct (bdd_fold_h N 0%N ex_f1 0%N 1%N false ex_p (cempty N)) as [r s']. apply H.
Qed.
Lemma ex_nonvacuous_garbage :
  let n2 : node := (2%N, BF, BT) in
  let s := cset N (cempty N) n2 (Some CCount) in
  binv N 0%N ex_f1 0%N 1%N s /\
  fst (bdd_fold_public N 0%N ex_f1 0%N 1%N ex_p s) = 6%N /\
  map (snd (bdd_fold_public N 0%N ex_f1 0%N 1%N ex_p s)) (nodes ex_p) = [None; None; None; None].
Proof.
  intros n2 s. split; [|vm_compute; repeat split; reflexivity].
  split.
  - intros n. unfold s. destruct (node_eqb n n2) eqn:E.
    + apply node_eqb_eq in E. subst n. rewrite cset_same. exact I.
    + rewrite cset_other by (neq E). exact I.
  - intros v lo hi H m Hm. unfold s in *. destruct (node_eqb (v, lo, hi) n2) eqn:E.
    + apply node_eqb_eq in E. injection E as -> -> ->. simpl in Hm. contradiction.
    + rewrite cset_other in H by (neq E). exfalso. apply H. reflexivity.
Qed.
