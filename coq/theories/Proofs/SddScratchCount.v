(* C07S / C10, count_nodes on SDD pointers: the top-down marking visits every reachable node exactly
   once -- the result is 2 per distinct reachable BinarySDD plus the number of elements per
   distinct reachable SddOr -- and the public call leaves the scratch state all-empty. *)
From Coq Require Import Bool NArith List Lia Arith.
Import ListNotations.
From RsddV Require Import Base.Bdd Model.SddVtree Model.SddOps Model.SddWmc Proofs.SddBase Proofs.SddScratch.

(* what one visited node contributes *)
Definition node_weight (n : sdd) : nat :=
  match n with SBdd _ _ _ _ _ => 2 | SOr _ _ els => length els | _ => 0 end.

(* ---- sizes: a node is not among its own descendants ---- *)
Fixpoint ssize (p : sdd) : nat :=
  match p with
  | SBdd _ _ _ lo hi => 1 + ssize lo + ssize hi
  | SOr _ _ els =>
    1 + (fix go (l : list elem) : nat :=
           match l with [] => 0 | (pr, sb) :: r => ssize pr + ssize sb + go r end) els
  | _ => 1
  end.
Definition size_els : list elem -> nat :=
  fix go (l : list elem) : nat := match l with [] => 0 | (pr, sb) :: r => ssize pr + ssize sb + go r end.
Lemma ssize_or c i els : ssize (SOr c i els) = 1 + size_els els.
Proof. reflexivity. Qed.

Lemma nodes_els_size els m :
  Forall (fun e => (forall m, In m (sdd_nodes (fst e)) -> ssize m <= ssize (fst e)) /\
                   (forall m, In m (sdd_nodes (snd e)) -> ssize m <= ssize (snd e))) els ->
  In m (nodes_els els) -> ssize m <= size_els els.
Proof.
  induction 1 as [|[pr sb] r [Hp Hs] _ IH]; intros Hm; [destruct Hm|].
  rewrite nodes_els_cons in Hm. cbn [size_els fst snd] in *.
  apply in_app_or in Hm. destruct Hm as [Hm|Hm]; [specialize (Hp m Hm); lia|].
  apply in_app_or in Hm. destruct Hm as [Hm|Hm]; [specialize (Hs m Hm); lia | specialize (IH Hm); lia].
Qed.

Lemma nodes_size : forall p m, In m (sdd_nodes p) -> ssize m <= ssize p.
Proof.
  induction p as [| |v b|c l i lo hi IHlo IHhi|c i els IH] using sdd_ind'; intros m Hm; try (destruct Hm; fail).
  - cbn [sdd_nodes] in Hm. destruct Hm as [<-|Hm]; [cbn [ssize]; lia|].
    cbn [ssize]. apply in_app_or in Hm. destruct Hm as [Hm|Hm]; [specialize (IHlo m Hm)|specialize (IHhi m Hm)]; lia.
  - rewrite sdd_nodes_or in Hm. destruct Hm as [<-|Hm]; [rewrite !ssize_or; lia|].
    rewrite ssize_or. pose proof (nodes_els_size els m IH Hm). lia.
Qed.

Lemma bdd_not_in_children l i lo hi : ~ In (SBdd false l i lo hi) (sdd_nodes lo ++ sdd_nodes hi).
Proof.
  intros H. apply in_app_or in H. destruct H as [H|H]; apply nodes_size in H; cbn [ssize] in H; lia.
Qed.
Lemma or_not_in_children i els : ~ In (SOr false i els) (nodes_els els).
Proof.
  intros H. assert (ssize (SOr false i els) <= size_els els); [|rewrite ssize_or in *; lia].
  apply nodes_els_size; [|exact H].
  apply Forall_forall. intros e _. split; intros m; apply nodes_size.
Qed.

(* descendants of a reachable node are reachable *)
Lemma nodes_els_trans els m :
  Forall (fun e => (forall m, In m (sdd_nodes (fst e)) -> incl (sdd_nodes m) (sdd_nodes (fst e))) /\
                   (forall m, In m (sdd_nodes (snd e)) -> incl (sdd_nodes m) (sdd_nodes (snd e)))) els ->
  In m (nodes_els els) -> incl (sdd_nodes m) (nodes_els els).
Proof.
  induction 1 as [|[pr sb] r [Hp Hs] _ IH]; intros Hm; [destruct Hm|].
  rewrite nodes_els_cons in *. cbn [fst snd] in *. intros d Hd.
  apply in_app_or in Hm. destruct Hm as [Hm|Hm]; [apply in_or_app; left; eapply Hp; eauto|].
  apply in_app_or in Hm. apply in_or_app. right. apply in_or_app.
  destruct Hm as [Hm|Hm]; [left; eapply Hs; eauto | right; apply IH; auto].
Qed.

Lemma nodes_trans : forall p m, In m (sdd_nodes p) -> incl (sdd_nodes m) (sdd_nodes p).
Proof.
  induction p as [| |v b|c l i lo hi IHlo IHhi|c i els IH] using sdd_ind'; intros m Hm; try (destruct Hm; fail).
  - cbn [sdd_nodes] in Hm. destruct Hm as [<-|Hm]; [apply incl_refl|].
    intros d Hd. cbn [sdd_nodes]. right. apply in_or_app. apply in_app_or in Hm.
    destruct Hm as [Hm|Hm]; [left; eapply IHlo; eauto | right; eapply IHhi; eauto].
  - rewrite sdd_nodes_or in Hm. destruct Hm as [<-|Hm]; [rewrite !sdd_nodes_or; apply incl_refl|].
    intros d Hd. rewrite sdd_nodes_or. right. eapply nodes_els_trans; eauto.
Qed.

Section C.
Variable T : Type.
Notation sscratch := (sscratch T).
Notation sset := (sset T).
Notation count_h := (sdd_count_h T).
Notation clear := (sdd_clear T).

Definition marked (s : sscratch) (n : sdd) : Prop := sread_count T s n = true.

Lemma marked_set_same s n : marked (sset s n (Some SPCount)) n.
Proof. unfold marked, sread_count. rewrite sset_same. reflexivity. Qed.
Lemma marked_set_other s n m : m <> n -> (marked (sset s n (Some SPCount)) m <-> marked s m).
Proof. intros H. unfold marked, sread_count. rewrite sset_other by exact H. tauto. Qed.
Lemma marked_frame s s' n : s' n = s n -> (marked s' n <-> marked s n).
Proof. intros E. unfold marked, sread_count. rewrite E. tauto. Qed.
Lemma marked_dec s n : {marked s n} + {~ marked s n}.
Proof. unfold marked. destruct (sread_count T s n); [left; reflexivity | right; discriminate]. Qed.

(* a list of pointers traversed one after the other *)
Fixpoint count_list (qs : list sdd) (s : sscratch) : nat * sscratch :=
  match qs with
  | [] => (0, s)
  | q :: r => let '(c, s1) := count_h q s in let '(c', s2) := count_list r s1 in (c + c', s2)
  end.
Definition nodes_list (qs : list sdd) : list sdd := concat (map sdd_nodes qs).

(* marks are closed under descendants on the part of the diagram about to be traversed *)
Definition closed_on (s : sscratch) (dom : sdd -> Prop) : Prop :=
  forall m, dom m -> marked s m -> forall d, In d (sdd_nodes m) -> marked s d.

(* what is proved of one traversal over the nodes [dom]: frame, monotone, everything marked, and
   the count is the weight of a duplicate-free list of exactly the nodes that were not marked *)
Definition trav_ok (dom : sdd -> Prop) (s : sscratch) (r : nat * sscratch) : Prop :=
  (forall n, ~ dom n -> snd r n = s n) /\
  (forall n, marked s n -> marked (snd r) n) /\
  (forall n, dom n -> marked (snd r) n) /\
  exists L, NoDup L /\ (forall n, In n L <-> dom n /\ ~ marked s n) /\ fst r = list_sum (map node_weight L).

Definition count_ok (p : sdd) : Prop :=
  forall s, closed_on s (fun m => In m (sdd_nodes p)) -> trav_ok (fun m => In m (sdd_nodes p)) s (count_h p s).

Lemma trav_ok_ext (d1 d2 : sdd -> Prop) s r : (forall m, d1 m <-> d2 m) -> trav_ok d1 s r -> trav_ok d2 s r.
Proof.
  intros E (F & M & A & L & ND & IN & K). split; [|split; [|split]].
  - intros n Hn. apply F. rewrite E. exact Hn.
  - exact M.
  - intros n Hn. apply A. rewrite E. exact Hn.
  - exists L. split; [exact ND|]. split; [|exact K]. intros n. rewrite IN, E. tauto.
Qed.

Lemma NoDup_app_disj {A} (l1 l2 : list A) : NoDup l1 -> NoDup l2 -> (forall x, In x l1 -> In x l2 -> False) -> NoDup (l1 ++ l2).
Proof.
  induction l1 as [|a l1 IH]; cbn [app]; intros N1 N2 D; auto. inversion N1; subst. constructor.
  - intros H. apply in_app_or in H. destruct H; [contradiction|]. eapply D; [left; reflexivity|eauto].
  - apply IH; auto. intros x H1' H2'. eapply D; [right|]; eauto.
Qed.

Lemma lsum_app l1 l2 : list_sum (l1 ++ l2) = list_sum l1 + list_sum l2.
Proof. induction l1; simpl; lia. Qed.

(* sequencing: the one argument shared by both node kinds *)
Lemma count_list_ok qs : Forall count_ok qs ->
  forall s, closed_on s (fun m => In m (nodes_list qs)) -> trav_ok (fun m => In m (nodes_list qs)) s (count_list qs s).
Proof.
  induction 1 as [|q r Hq _ IH]; intros s CL; cbn [count_list].
  - split; [auto|]. split; [auto|]. split; [intros n []|].
    exists []. split; [constructor|]. split; [intros n; cbn; tauto | reflexivity].
  - unfold nodes_list in *. cbn [map concat] in *.
    assert (CLq : closed_on s (fun m => In m (sdd_nodes q))) by (intros m Hm; apply CL; apply in_or_app; auto).
    destruct (Hq s CLq) as (F1 & M1 & A1 & L1 & ND1 & IN1 & K1).
    destruct (count_h q s) as [c s1]. cbn [fst snd] in *.
    assert (CLr : closed_on s1 (fun m => In m (concat (map sdd_nodes r)))).
    { intros m Hm Mm d Hd. destruct (sdd_in_dec m (sdd_nodes q)) as [Iq|Nq].
      - apply A1. eapply nodes_trans; eauto.
      - apply M1. apply (marked_frame s s1 m (F1 m Nq)) in Mm.
        apply (CL m (in_or_app _ _ _ (or_intror Hm)) Mm d Hd). }
    destruct (IH s1 CLr) as (F2 & M2 & A2 & L2 & ND2 & IN2 & K2).
    destruct (count_list r s1) as [c' s2]. cbn [fst snd] in *.
    split; [|split; [|split]].
    + intros n Hn. rewrite F2, F1; auto; intros Hin; apply Hn; apply in_or_app; auto.
    + intros n Hn. apply M2, M1, Hn.
    + intros n Hn. apply in_app_or in Hn. destruct Hn as [Hn|Hn]; [apply M2, A1, Hn | apply A2, Hn].
    + exists (L1 ++ L2). split; [|split].
      * apply NoDup_app_disj; auto. intros x H1 H2. apply IN1 in H1. apply IN2 in H2.
        destruct H1 as [Hx _]. destruct H2 as [_ Hn]. apply Hn, A1, Hx.
      * intros n. rewrite in_app_iff, IN1, IN2, in_app_iff. split.
        -- intros [[Hd Hm]|[Hd Hm]]; (split; [auto|]). exact Hm. intros Hs. apply Hm, M1, Hs.
        -- intros [[Hd|Hd] Hm]; [left; auto|].
           destruct (marked_dec s1 n) as [M|NM]; [|right; auto].
           left. split; [|exact Hm]. destruct (sdd_in_dec n (sdd_nodes q)) as [Iq|Nq]; [exact Iq|].
           exfalso. apply Hm. apply (marked_frame s s1 n (F1 n Nq)). exact M.
      * rewrite map_app, lsum_app. cbn [fst]. lia.
Qed.

(* a node that is not yet marked: mark it, traverse the children *)
Lemma node_ok (n : sdd) (children : list sdd) (dom : sdd -> Prop) s :
  (forall m, dom m <-> m = n \/ In m (nodes_list children)) ->
  ~ In n (nodes_list children) ->
  Forall count_ok children ->
  closed_on s dom -> ~ marked s n ->
  trav_ok dom s (node_weight n + fst (count_list children (sset s n (Some SPCount))),
                 snd (count_list children (sset s n (Some SPCount)))).
Proof.
  intros DOM NN HC CL NM. set (s0 := sset s n (Some SPCount)).
  assert (CL0 : closed_on s0 (fun m => In m (nodes_list children))).
  { intros m Hm Mm d Hd.
    assert (m <> n) by (intros ->; contradiction).
    apply (marked_set_other s n m H) in Mm.
    assert (Md : marked s d) by (apply (CL m); [apply DOM; auto | exact Mm | exact Hd]).
    destruct (sdd_eqb d n) eqn:E.
    - apply sdd_eqb_eq in E. subst d. apply marked_set_same.
    - apply sdd_eqb_neq in E. apply marked_set_other; auto. }
  destruct (count_list_ok children HC s0 CL0) as (F & M & A & L & ND & IN & K).
  unfold trav_ok. cbn [fst snd]. split; [|split; [|split]].
  - intros m Hm. rewrite F by (intros Hin; apply Hm, DOM; auto).
    unfold s0. apply sset_other. intros ->. apply Hm, DOM. auto.
  - intros m Hm. apply M. destruct (sdd_eqb m n) eqn:E.
    + apply sdd_eqb_eq in E. subst m. apply marked_set_same.
    + apply sdd_eqb_neq in E. apply marked_set_other; auto.
  - intros m Hm. apply DOM in Hm. destruct Hm as [->|Hm]; [apply M, marked_set_same | apply A, Hm].
  - exists (n :: L). split; [|split].
    + constructor; auto. intros Hin. apply IN in Hin. destruct Hin as [Hin _]. contradiction.
    + intros m. cbn [In]. rewrite IN, DOM. split.
      * intros [<-|[Hd Hm]]; [auto|]. split; [auto|]. intros Ms. apply Hm.
        destruct (sdd_eqb m n) eqn:E.
        -- apply sdd_eqb_eq in E. subst m. apply marked_set_same.
        -- apply sdd_eqb_neq in E. apply marked_set_other; auto.
      * intros [[->|Hd] Hm]; [auto|]. right. split; [auto|].
        intros Ms. apply Hm. assert (m <> n) by (intros ->; contradiction).
        apply (marked_set_other s n m H). exact Ms.
    + cbn [map list_sum]. rewrite K. reflexivity.
Qed.

(* an already marked node: nothing happens, and by closure everything below is marked already *)
Lemma marked_ok (n : sdd) (dom : sdd -> Prop) s :
  (forall m, dom m <-> In m (sdd_nodes n)) -> dom n -> closed_on s dom -> marked s n -> trav_ok dom s (0, s).
Proof.
  intros DOM Hn CL Mn. unfold trav_ok. cbn [fst snd]. split; [auto|]. split; [auto|]. split.
  - intros m Hm. apply (CL n Hn Mn). apply DOM. exact Hm.
  - exists []. split; [constructor|]. split; [|reflexivity].
    intros m. cbn [In]. split; [tauto|]. intros [Hd Hm]. apply Hm. apply (CL n Hn Mn). apply DOM. exact Hd.
Qed.

(* the loop over the elements of an SddOr is the traversal of sub_1, prime_1, sub_2, prime_2, ... *)
Definition flat_els (els : list elem) : list sdd := concat (map (fun e => [snd e; fst e]) els).
Definition kloop : list elem -> nat -> sscratch -> nat * sscratch :=
  fix loop (l : list elem) (c : nat) (s0 : sscratch) : nat * sscratch :=
    match l with
    | [] => (c, s0)
    | (pr, sb) :: r =>
      let '(cs, s1) := count_h sb s0 in
      let '(cp, s2) := count_h pr s1 in
      loop r (c + cs + cp + 1) s2
    end.
Lemma kloop_eq els : forall c s,
  kloop els c s = (c + length els + fst (count_list (flat_els els) s), snd (count_list (flat_els els) s)).
Proof.
  induction els as [|[pr sb] r IH]; intros c s; cbn [kloop flat_els map concat app count_list length fst snd].
  - f_equal. lia.
  - destruct (count_h sb s) as [cs s1]. destruct (count_h pr s1) as [cp s2].
    rewrite IH. fold (flat_els r). destruct (count_list (flat_els r) s2) as [c' s3]. cbn [fst snd]. f_equal. lia.
Qed.
Lemma count_or c i els s :
  count_h (SOr c i els) s =
  if sread_count T s (SOr false i els) then (0, s) else kloop els 0 (sset s (SOr false i els) (Some SPCount)).
Proof. reflexivity. Qed.

Lemma nodes_flat_els els m : In m (nodes_list (flat_els els)) <-> In m (nodes_els els).
Proof.
  unfold nodes_list, flat_els. induction els as [|[pr sb] r IH]; [cbn; tauto|].
  rewrite nodes_els_cons. cbn [map concat app fst snd]. rewrite !in_app_iff, IH. tauto.
Qed.

Theorem sdd_count_ok : forall p, count_ok p.
Proof.
  induction p as [| |v b|c l i lo hi IHlo IHhi|c i els IH] using sdd_ind'; intros s CL.
  - cbn. split; [auto|]. split; [auto|]. split; [intros n []|]. exists []. split; [constructor|]. split; [cbn; tauto|reflexivity].
  - cbn. split; [auto|]. split; [auto|]. split; [intros n []|]. exists []. split; [constructor|]. split; [cbn; tauto|reflexivity].
  - cbn. split; [auto|]. split; [auto|]. split; [intros n []|]. exists []. split; [constructor|]. split; [cbn; tauto|reflexivity].
  - cbn [SddWmc.sdd_count_h]. set (n := SBdd false l i lo hi).
    assert (SN : forall m, In m (sdd_nodes (SBdd c l i lo hi)) <-> In m (sdd_nodes n)) by (intros m; reflexivity).
    destruct (sread_count T s n) eqn:E.
    + apply (marked_ok n); auto. cbn [sdd_nodes]. left. reflexivity.
    + pose proof (node_ok n [lo; hi] (fun m => In m (sdd_nodes (SBdd c l i lo hi))) s) as H.
      cbn [count_list] in H.
      destruct (count_h lo (sset s n (Some SPCount))) as [cl s1]. destruct (count_h hi s1) as [ch s2].
      cbn [fst snd node_weight n] in H. replace (1 + cl + 1 + ch) with (2 + (cl + (ch + 0))) by lia.
      apply H; auto.
      * intros m. cbn [sdd_nodes]. unfold nodes_list. cbn [map concat]. rewrite app_nil_r. cbn [In]. intuition.
      * unfold nodes_list. cbn [map concat]. rewrite app_nil_r. apply bdd_not_in_children.
      * unfold marked. rewrite E. discriminate.
  - rewrite count_or. set (n := SOr false i els).
    assert (SN : forall m, In m (sdd_nodes (SOr c i els)) <-> In m (sdd_nodes n)) by (intros m; reflexivity).
    destruct (sread_count T s n) eqn:E.
    + apply (marked_ok n); auto. rewrite sdd_nodes_or. left. reflexivity.
    + rewrite kloop_eq.
      pose proof (node_ok n (flat_els els) (fun m => In m (sdd_nodes (SOr c i els))) s) as H.
      cbn [node_weight n] in H. cbn [Nat.add]. apply H; auto.
      * intros m. rewrite sdd_nodes_or, nodes_flat_els. cbn [In]. intuition.
      * rewrite nodes_flat_els. apply or_not_in_children.
      * unfold flat_els. clear -IH. induction IH as [|[pr sb] r [Hp Hs] _ IHr]; cbn [map concat app fst snd]; auto.
      * unfold marked. rewrite E. discriminate.
Qed.

(* THE THEOREM (C10 for count_nodes on SDDs): from an all-empty scratch state count_nodes returns
   the total weight of the distinct reachable nodes and leaves every slot empty again *)
Theorem sdd_count_public_pure p s : sall_empty T s ->
  sall_empty T (snd (sdd_count_public T p s)) /\
  exists L, NoDup L /\ (forall n, In n L <-> In n (sdd_nodes p)) /\
            fst (sdd_count_public T p s) = list_sum (map node_weight L).
Proof.
  intros E. unfold sdd_count_public.
  assert (CL : closed_on s (fun m => In m (sdd_nodes p))).
  { intros m _ Mm. unfold marked, sread_count in Mm. rewrite E in Mm. discriminate. }
  destruct (sdd_count_ok p s CL) as (F & M & A & L & ND & IN & K).
  destruct (count_h p s) as [k s1]. cbn [fst snd] in *. split.
  - destruct (sdd_clear_ok T p s1) as (C & Fc & _).
    intros n. destruct (sdd_in_dec n (sdd_nodes p)) as [Hin|Hn]; [apply C, Hin|].
    rewrite Fc, F by assumption. apply E.
  - exists L. split; [exact ND|]. split; [|exact K].
    intros n. rewrite IN. split; [tauto|]. intros Hn. split; [exact Hn|].
    unfold marked, sread_count. rewrite E. discriminate.
Qed.
End C.
