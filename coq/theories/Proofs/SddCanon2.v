(* C04, canonicity.  Part 2: two well-formed nodes at the same vtree node, the induction over the
   vtree, and the corollaries for programs of the compressing builder. *)
From Coq Require Import Bool NArith List Lia Arith Permutation.
Import ListNotations.
From RsddV Require Import Base.Bdd Base.Util Model.SddVtree Model.SddOps Proofs.SddBase Proofs.SddCmp.
From RsddV Require Import Proofs.SddVtree Proofs.SddInv Proofs.SddLoops Proofs.SddNode Proofs.SddWf Proofs.SddWfOps Proofs.SddCanon.

Lemma adj_elems_bdd c l i lo hi :
  adj_elems (SBdd c l i lo hi) = Some [(SVar l true, adj c hi); (SVar l false, adj c lo)].
Proof. destruct c; reflexivity. Qed.
Lemma adj_elems_or c i els : adj_elems (SOr c i els) = Some (adjsubs c els).
Proof. destruct c; reflexivity. Qed.
Lemma adj_inj c x y : adj c x = adj c y -> x = y.
Proof. intros H. rewrite <- (adj_invol c x), <- (adj_invol c y), H. reflexivity. Qed.
Lemma map_fst_adjsubs c els : map fst (adjsubs c els) = map fst els.
Proof. unfold adjsubs. rewrite map_map. reflexivity. Qed.
Lemma in_adjsubs c els p s : In (p, s) (adjsubs c els) <-> In (p, adj c s) els.
Proof.
  unfold adjsubs. rewrite in_map_iff. split.
  - intros ([p' s'] & E & Hin). simpl in E. injection E as -> <-. rewrite adj_invol. exact Hin.
  - intros Hin. exists (p, adj c s). simpl. rewrite adj_invol. auto.
Qed.

Section Canon2.
Variable t : vtree.
Hypothesis ND : NoDup (vleaves t).

Section Node.
Variables l r : vtree.
Variable off : nat.
Hypothesis Ho : occurs t 0 (VNode l r) off.
Notation m := (off + vsize l).
Hypothesis CanP : canon_at l off.
Hypothesis CanS : canon_at r (S m).

(* same elements, as sets *)
Lemma same_elems X Y : at_node l r off X -> at_node l r off Y -> nf X -> nf Y ->
  (forall a, sden X a = sden Y a) ->
  exists EX EY, adj_elems X = Some EX /\ adj_elems Y = Some EY /\ (forall e, In e EX <-> In e EY) /\
                NoDup (map fst EX) /\ NoDup (map fst EY).
Proof.
  intros Ax Ay Nx Ny Heq.
  destruct (view_full t ND l r off Ho X Ax Nx) as (EX & E1 & Hok1 & Nl1 & Hp1 & Hs1 & Hnd1 & _ & _ & Hd1).
  destruct (view_full t ND l r off Ho Y Ay Ny) as (EY & E2 & Hok2 & Nl2 & Hp2 & Hs2 & Hnd2 & _ & _ & Hd2).
  exists EX, EY. repeat split; auto.
  - apply (partition_unique t ND l r off Ho CanP CanS EX EY); auto. intros a. rewrite <- Hd1, <- Hd2. apply Heq.
  - apply (partition_unique t ND l r off Ho CanP CanS EX EY); auto. intros a. rewrite <- Hd1, <- Hd2. apply Heq.
  - apply excl_sat_nodup_primes; auto using part_excl.
  - apply excl_sat_nodup_primes; auto using part_excl.
Qed.

Lemma bdd_vs_or c lbl lo hi c' els' :
  (forall e, In e [(SVar lbl true, adj c hi); (SVar lbl false, adj c lo)] <-> In e (adjsubs c' els')) ->
  NoDup (map fst els') -> nf (SOr c' m els') -> False.
Proof.
  intros HE Hnd Hn. apply nf_or in Hn. destruct Hn as (_ & Hlen & _ & _ & _ & Hlit & _).
  apply Hlit.
  assert (Hl : forall e, In e els' -> fst e = SVar lbl true \/ fst e = SVar lbl false).
  { intros [p s] Hin. assert (Hin' : In (p, adj c' s) (adjsubs c' els')) by (apply in_adjsubs; rewrite adj_invol; exact Hin).
    apply HE in Hin'. simpl in Hin'. destruct Hin' as [[= <- _]|[[= <- _]|[]]]; simpl; auto. }
  split.
  - assert (length (map fst els') <= length [SVar lbl true; SVar lbl false]).
    { apply NoDup_incl_length; auto. intros p Hp. apply in_map_iff in Hp. destruct Hp as (e & <- & He).
      destruct (Hl e He) as [->| ->]; simpl; auto. }
    rewrite map_length in H. simpl in H. unfold elem in *. lia.
  - apply Forall_forall. intros e He. destruct (Hl e He) as [E|E]; rewrite E; unfold is_lit; eauto.
Qed.

Lemma node_vs_node X Y : at_node l r off X -> at_node l r off Y -> nf X -> nf Y ->
  (forall a, sden X a = sden Y a) -> X = Y.
Proof.
  intros Ax Ay Nx Ny Heq.
  destruct (same_elems X Y Ax Ay Nx Ny Heq) as (EX & EY & E1 & E2 & HE & ND1 & ND2).
  destruct Ax as [(c & lbl & lo & hi & -> & _)|(c & els & -> & _)];
  destruct Ay as [(c' & lbl' & lo' & hi' & -> & _)|(c' & els' & -> & _)];
  rewrite ?adj_elems_bdd, ?adj_elems_or in E1, E2; injection E1 as <-; injection E2 as <-;
  assert (Hb : forall b : bool, (if b then true else false) = b) by (intros [|]; reflexivity);
  rewrite ?Hb in *; try (fold (adjsubs c els) in * ); try (fold (adjsubs c' els') in * ).
  - (* binary / binary *)
    assert (H1 : In (SVar lbl true, adj c hi) [(SVar lbl' true, adj c' hi'); (SVar lbl' false, adj c' lo')]) by (apply HE; simpl; auto).
    assert (H2 : In (SVar lbl false, adj c lo) [(SVar lbl' true, adj c' hi'); (SVar lbl' false, adj c' lo')]) by (apply HE; simpl; auto).
    simpl in H1, H2. destruct H1 as [H1|[H1|[]]]; [|discriminate]. destruct H2 as [H2|[H2|[]]]; [discriminate|].
    injection H1 as -> H1. injection H2 as H2.
    destruct Nx as (_ & _ & _ & Nh & _). destruct Ny as (_ & _ & _ & Nh' & _).
    assert (c = c').
    { destruct c, c'; auto; simpl in H1; exfalso.
      - subst hi'. apply (norm_first_not_both hi); auto.
      - subst hi. apply (norm_first_not_both hi'); auto. }
    subst c'. apply adj_inj in H1, H2. congruence.
  - (* binary / general *)
    exfalso. rewrite map_fst_adjsubs in ND2. apply (bdd_vs_or c lbl lo hi c' els' HE ND2 Ny).
  - exfalso. rewrite map_fst_adjsubs in ND1.
    apply (bdd_vs_or c' lbl' lo' hi' c els (fun e => iff_sym (HE e)) ND1 Nx).
  - (* general / general *)
    rewrite map_fst_adjsubs in ND1, ND2.
    apply nf_or in Nx, Ny.
    destruct Nx as (_ & Hlen & _ & _ & _ & _ & Hsort & Hnorm). destruct Ny as (_ & Hlen' & _ & _ & _ & _ & Hsort' & Hnorm').
    set (d := xorb c c').
    assert (P : Permutation els (adjsubs d els')).
    { apply NoDup_Permutation.
      - eapply NoDup_map_inv; eauto.
      - apply (NoDup_map_inv fst). rewrite map_fst_adjsubs. exact ND2.
      - intros [p s]. rewrite in_adjsubs. split; intros H.
        + assert (H' : In (p, adj c s) (adjsubs c els)) by (apply in_adjsubs; rewrite adj_invol; exact H).
          apply HE in H'. apply (proj1 (in_adjsubs c' els' p (adj c s))) in H'. rewrite adj_xorb in H'.
          unfold d. rewrite xorb_comm. exact H'.
        + assert (H' : In (p, adj c' (adj d s)) (adjsubs c' els')) by (apply in_adjsubs; rewrite adj_invol; exact H).
          apply HE in H'. apply (proj1 (in_adjsubs c els p _)) in H'. rewrite !adj_xorb in H'. unfold d in H'.
          match type of H' with context [adj ?b s] => replace b with false in H' by (destruct c, c'; reflexivity) end.
          exact H'. }
    assert (EQ : els = adjsubs d els').
    { apply sorted_unique; auto. unfold adjsubs. apply sorted_map_snd. exact Hsort'. }
    destruct d eqn:Ed.
    + exfalso. destruct els' as [|[p0 s0] rest']; [simpl in Hlen'; lia|]. rewrite EQ in Hnorm. simpl in Hnorm, Hnorm'.
      apply (norm_first_not_both s0); auto.
    + rewrite adjsubs_false in EQ. subst els'. unfold d in Ed. destruct c, c'; try discriminate; reflexivity.
Qed.

End Node.

(* ---- the induction over the vtree ---- *)
Theorem canon_all : forall u off, occurs t 0 u off -> canon_at u off.
Proof.
  induction u as [v|l IHl r IHr]; intros off Ho p q Up Uq Np Nq Heq.
  - apply under_leaf_inv in Up, Uq.
    destruct Up as [->|[->|[b ->]]]; destruct Uq as [->|[->|[b' ->]]]; try reflexivity.
    all: try (specialize (Heq asg0); simpl in Heq; discriminate).
    all: pose proof (Heq (upd asg0 v true)) as H1; pose proof (Heq (upd asg0 v false)) as H2;
         simpl in H1, H2; unfold upd in H1, H2; rewrite N.eqb_refl in H1, H2.
    all: repeat match goal with x : bool |- _ => destruct x end; simpl in *; try congruence; try discriminate.
  - assert (CP : canon_at l off) by (apply IHl; eapply occurs_left; eauto).
    assert (CS : canon_at r (S (off + vsize l))) by (apply IHr; eapply occurs_right; eauto).
    (* constants first *)
    destruct (s_is_const p) eqn:Cp.
    { assert (Cq : s_is_const q = true).
      { apply (sem_const t ND _ off q Ho Uq Nq). intros a a'. rewrite <- !Heq. destruct p; try discriminate; reflexivity. }
      destruct p; try discriminate; destruct q; try discriminate; auto; specialize (Heq asg0); discriminate. }
    destruct (s_is_const q) eqn:Cq.
    { assert (Cp' : s_is_const p = true); [|congruence].
      apply (sem_const t ND _ off p Ho Up Np). intros a a'. rewrite !Heq. destruct q; try discriminate; reflexivity. }
    destruct (under_node_inv _ _ _ _ Up Cp) as [Ap|[Lp|Rp]];
    destruct (under_node_inv _ _ _ _ Uq Cq) as [Aq|[Lq|Rq]].
    + apply (node_vs_node l r off Ho CP CS p q); auto.
    + exfalso. apply (node_vs_left t ND l r off Ho p q); auto.
    + exfalso. apply (node_vs_right t ND l r off Ho CS p q); auto.
    + exfalso. apply (node_vs_left t ND l r off Ho q p); auto.
    + apply CP; auto.
    + exfalso. apply (left_vs_right t ND l r off Ho p q); auto.
    + exfalso. apply (node_vs_right t ND l r off Ho CS q p); auto.
    + exfalso. apply (left_vs_right t ND l r off Ho q p); auto.
    + apply CS; auto.
Qed.

End Canon2.

Lemma Forall2_nth {A B} (R : A -> B -> Prop) l1 l2 d1 d2 i :
  Forall2 R l1 l2 -> i < length l1 -> R (nth i l1 d1) (nth i l2 d2).
Proof. intros H. revert i. induction H; intros [|i] Hi; simpl in *; try lia; auto. apply IHForall2. lia. Qed.

