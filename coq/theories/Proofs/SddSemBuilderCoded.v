(* C11 -- the hash value [shash] that the SemanticSddBuilder model computes in Z/P is what
   SddPtr::cached_semantic_hash AS CODED returns (Model/SddSemHash.v: sdd_cached_hash, with the
   per-node cache fields, FiniteField operations in checked u128 arithmetic, the raw u128 sum in
   SddOr::semantic_hash, negate() on complemented pointers): for EVERY pointer -- no invariant --
   whose labels are in the map and whose widest SddOr keeps the raw sum below 2^128, from every
   cache state that is sound for (P, map); the cache stays sound and loses nothing. *)
From Coq Require Import Bool NArith List Lia Arith.
Import ListNotations.
From RsddV Require Import Base.Bdd Base.Util Model.SddVtree Model.SddOps Model.Semirings Model.SemHash
  Model.SddSemHash Model.SddSemBuilder.
From RsddV Require Import Proofs.Semirings Proofs.SemHash Proofs.SddBase Proofs.SddSemHash Proofs.SddSemBuilderBase
  Proofs.SddSemBuilderHash.

Section Coded.
Variable m : mode.
Variable P : N.
Hypothesis OK : ff_ok P.
Variable w : wmap.
Hypothesis WR : wrange P w.

Local Open Scope N_scope.
Let HP : 1 < P. Proof. destruct OK; assumption. Qed.
Let HP2 : 2 * P <= u128. Proof. destruct OK; assumption. Qed.
Notation H := (shash P w).
Let Hlt : forall p, H p < P. Proof. intros p. apply (shash_lt P OK w WR). Qed.

Definition hcache_sound (s : shcache) : Prop := forall k h, shc_get k s = Some h -> h = H k.

Lemma hcache_sound_nil : hcache_sound [].
Proof. intros k h E. discriminate. Qed.

Lemma hcache_set_sound k s : hcache_sound s -> hcache_sound (shc_set k (H k) s).
Proof.
  intros CS k' h E. unfold shc_set in E. cbn [shc_get] in E.
  destruct (sdd_eqb k' k) eqn:B.
  - apply sdd_eqb_eq in B. subst k'. congruence.
  - apply CS. exact E.
Qed.

Definition coded_ok (p : sdd) : Prop :=
  sdd_vars_in p w -> sdd_width_ok P p -> forall s, hcache_sound s ->
  exists s', sdd_cached_hash m P w p s = Some (H p, s') /\ hcache_sound s' /\ scache_le s s'.

Lemma compl_wrap_neg c key s' :
  compl_wrap m P c (Some (H key, s')) = Some (H (adj c key), s').
Proof.
  destruct c; cbn [compl_wrap adj]; [|reflexivity].
  cbn [Semirings.bind fst snd]. rewrite ff_negate_exact_gen by (try apply Hlt; assumption).
  cbn [option_map]. rewrite (shash_sneg P OK w WR). reflexivity.
Qed.

Theorem sdd_cached_hash_coded : forall p, coded_ok p.
Proof.
  induction p as [| |v b|c lb i lo hi IHlo IHhi|c i els IH] using sdd_ind'; intros V W s CS.
  - exists s. cbn [sdd_cached_hash SddSemBuilder.shash]. rewrite ff_new_ok by lia.
    split; [reflexivity|]. split; [assumption | apply scache_le_refl].
  - exists s. cbn [sdd_cached_hash SddSemBuilder.shash]. rewrite ff_new_ok by lia.
    split; [reflexivity|]. split; [assumption | apply scache_le_refl].
  - exists s. assert (Vv : (N.to_nat v < length w)%nat) by (apply V; simpl; auto).
    cbn [sdd_cached_hash SddSemBuilder.shash].
    split; [|split; [assumption | apply scache_le_refl]].
    destruct b; [rewrite (w_hi_in _ _ Vv) | rewrite (w_lo_in _ _ Vv)]; reflexivity.
  - destruct (sdd_vars_in_bdd _ _ _ _ _ _ V) as (Vv & Vlo & Vhi).
    destruct (sdd_width_ok_bdd _ _ _ _ _ _ W) as (Wlo & Whi).
    rewrite sdd_cached_hash_bdd_eq.
    replace (SBdd c lb i lo hi) with (adj c (SBdd false lb i lo hi)) by (destruct c; reflexivity).
    destruct (shc_get (SBdd false lb i lo hi) s) as [h|] eqn:G.
    + exists s. rewrite (CS _ _ G). rewrite ff_new_ok by lia.
      rewrite N.mod_small by apply Hlt. cbn [option_map].
      split; [apply compl_wrap_neg | split; [assumption | apply scache_le_refl]].
    + destruct (IHlo Vlo Wlo s CS) as (s1 & E1 & CS1 & L1).
      destruct (IHhi Vhi Whi s1 CS1) as (s2 & E2 & CS2 & L2).
      rewrite (w_lo_in _ _ Vv), (w_hi_in _ _ Vv). cbn [Semirings.bind]. rewrite E1. cbn [Semirings.bind fst snd].
      rewrite ff_mul_exact_gen by (try apply (swl_lt P OK w WR); try apply Hlt; lia). cbn [Semirings.bind].
      rewrite E2. cbn [Semirings.bind fst snd].
      rewrite ff_mul_exact_gen by (try apply (swh_lt P OK w WR); try apply Hlt; lia). cbn [Semirings.bind].
      rewrite ff_add_exact_gen by (try (apply N.mod_lt; lia); lia). cbn [Semirings.bind].
      change (((H lo * wl w lb) mod P + (H hi * wh w lb) mod P) mod P) with (H (SBdd false lb i lo hi)).
      eexists. split; [apply compl_wrap_neg|]. split.
      * apply hcache_set_sound. exact CS2.
      * apply scache_set_le; [exact G|]. intros k h E. apply L2, L1, E.
  - pose proof (sdd_vars_in_or _ _ _ _ V) as VE.
    destruct (sdd_width_ok_or _ _ _ _ W) as [WL WE].
    rewrite Forall_forall in IH.
    rewrite sdd_cached_hash_or_eq.
    replace (SOr c i els) with (adj c (SOr false i els)) by (destruct c; reflexivity).
    destruct (shc_get (SOr false i els) s) as [h|] eqn:G.
    + exists s. rewrite (CS _ _ G). rewrite ff_new_ok by lia.
      rewrite N.mod_small by apply Hlt. cbn [option_map].
      split; [apply compl_wrap_neg | split; [assumption | apply scache_le_refl]].
    + assert (LOOP : forall els', (forall e, In e els' -> In e els) -> forall acc s0, hcache_sound s0 ->
                acc + N.of_nat (length els') * P <= u128 ->
                exists s', sdd_or_loop m P w els' acc s0 = Some (acc + raw_sum P w els', s') /\
                           hcache_sound s' /\ scache_le s0 s').
      { induction els' as [|[pr sb] rest IHr]; intros Hin acc s0 CS0 B.
        - exists s0. cbn [sdd_or_loop raw_sum]. rewrite N.add_0_r.
          split; [reflexivity | split; [assumption | apply scache_le_refl]].
        - assert (He : In (pr, sb) els) by (apply Hin; left; reflexivity).
          destruct (IH _ He) as [I1 I2]. destruct (VE _ He) as [V1 V2].
          destruct (WE _ He) as [W1 W2]. cbn [fst snd] in *.
          destruct (I1 V1 W1 s0 CS0) as (s1 & E1 & CS1 & L1).
          destruct (I2 V2 W2 s1 CS1) as (s2 & E2 & CS2 & L2).
          rewrite sdd_or_loop_cons, E1. cbn [Semirings.bind fst snd]. rewrite E2. cbn [Semirings.bind fst snd].
          rewrite ff_mul_exact_gen by (try apply Hlt; lia). cbn [Semirings.bind].
          assert (X : (H pr * H sb) mod P < P) by (apply N.mod_lt; lia).
          cbn [length] in B. rewrite Nat2N.inj_succ in B.
          rewrite u_add_ok by nia. cbn [Semirings.bind].
          destruct (IHr (fun e He' => Hin e (or_intror He')) (acc + (H pr * H sb) mod P) s2 CS2 ltac:(nia))
            as (s3 & E3 & CS3 & L3).
          exists s3. rewrite E3. cbn [raw_sum]. unfold mulP.
          split; [rewrite N.add_assoc; reflexivity|]. split; [assumption|].
          intros k h E. apply L3, L2, L1, E. }
      destruct (LOOP els (fun e He => He) 0 s CS ltac:(lia)) as (s' & EL & CS' & L').
      rewrite EL. cbn [Semirings.bind fst snd]. rewrite ff_new_ok by lia. cbn [Semirings.bind]. rewrite N.add_0_l.
      change (raw_sum P w els mod P) with (H (SOr false i els)).
      eexists. split; [apply compl_wrap_neg|]. split.
      * apply hcache_set_sound. exact CS'.
      * apply scache_set_le; [exact G | exact L'].
Qed.
End Coded.

(* the labels of a well-formed pointer are leaves of the vtree: with a map that covers the vtree
   (SemanticSddBuilder::new: create_semantic_hash_map(vtree.num_vars())) no weight is ever missing,
   i.e. the total [swl]/[swh] of the model never fall back to their default *)
Lemma swf_sdd_vars t p : swf t p -> incl (sdd_vars p) (vleaves t).
Proof.
  induction p as [| |v b|c lb i lo hi IHlo IHhi|c i els IH] using sdd_ind'; intros Wp u Hu.
  - destruct Hu.
  - destruct Hu.
  - inversion Wp; subst. simpl in Hu. destruct Hu as [<-|[]]. assumption.
  - inversion Wp as [| | |l r off c0 lbl0 lo0 hi0 Ho Hl Wlo Whi Dlo Dhi|]; subst.
    simpl in Hu. destruct Hu as [<-|Hu].
    + eapply SddVtree.occurs_leaves; [exact Ho|]. simpl. apply in_or_app. auto.
    + apply in_app_or in Hu. destruct Hu; [apply IHlo | apply IHhi]; assumption.
  - inversion Wp as [| | | |l r off c0 els0 Ho Hok Hp]; subst.
    destruct (proj1 (sdd_vars_or c (off + SddVtree.vsize l) els u) Hu) as (e & He & Hv).
    unfold sokl in Hok. rewrite Forall_forall in Hok, IH.
    destruct (Hok e He) as (W1 & W2 & _). destruct (IH e He) as [I1 I2].
    destruct Hv; [apply I1 | apply I2]; assumption.
Qed.

Lemma swf_vars_in t p w : swf t p -> (forall v, In v (vleaves t) -> (N.to_nat v < length w)%nat) -> sdd_vars_in p w.
Proof. intros Wp Hw v Hv. apply Hw. eapply swf_sdd_vars; eauto. Qed.
