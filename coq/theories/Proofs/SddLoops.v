(* The loops of the SDD apply (prod_inner, cartesian_loop, prime_desc_loop, sub_desc_loop,
   compress) relative to an abstract recursive call [andf] that is already known to be correct
   on the two classes of pointers the loops combine: primes (class Up) and subs (class Us). *)
From Coq Require Import Bool NArith List Lia Arith Permutation.
Import ListNotations.
From RsddV Require Import Base.Bdd Base.Util Model.SddVtree Model.SddOps Proofs.SddBase.
From RsddV Require Import Proofs.SddVtree Proofs.SddInv.

Definition sem_and (r x y : sdd) : Prop := forall a, sden r a = sden x a && sden y a.
Definition sem_or (r x y : sdd) : Prop := forall a, sden r a = sden x a || sden y a.

(* [f] computes conjunctions on the class U and stays inside it *)
Definition good (f : sdd -> sdd -> res sdd) (U : sdd -> Prop) : Prop :=
  forall x y, U x -> U y -> exists r, f x y = Ok r /\ U r /\ sem_and r x y.

(* pointwise reasoning: instantiate every universally quantified assignment, move the facts about
   this assignment into the goal, and case-split every Boolean value *)
Ltac pw a := unfold sem_and, sem_or, excl, part in *;
  repeat match goal with H : forall _ : asg, _ |- _ => specialize (H a) end.
Ltac bgo a :=
  rewrite ?cnt_cons, ?den_els_cons in *;
  repeat match goal with
         | H : context [sden _ a] |- _ => revert H
         | H : context [den_els _ a] |- _ => revert H
         | H : context [cnt _ a] |- _ => revert H
         end;
  repeat match goal with |- context [sden ?x a] => destruct (sden x a) end;
  repeat match goal with |- context [den_els ?x a] => destruct (den_els x a) end;
  simpl; intros; try lia; try congruence; auto.

Section Loops.
Variable andf : sdd -> sdd -> res sdd.
Variables Up Us : sdd -> Prop.
Hypothesis GP : good andf Up.
Hypothesis GS : good andf Us.
Hypothesis NP : forall p, Up p -> Up (sneg p).
Hypothesis NS : forall p, Us p -> Us (sneg p).
Hypothesis CS : forall p, s_is_const p = true -> Us p.

Notation okl := (okl Up Us).
Definition nonF (els : list elem) : Prop := Forall (fun e => fst e <> SF) els.

Lemma or_f_good x y : Up x -> Up y -> exists r, or_f andf x y = Ok r /\ Up r /\ sem_or r x y.
Proof.
  intros Hx Hy. destruct (GP (sneg x) (sneg y) (NP _ Hx) (NP _ Hy)) as (r & E & Ur & S).
  exists (sneg r). unfold or_f. rewrite E. simpl. repeat split; auto.
  intros a. rewrite sden_sneg, S, !sden_sneg. destruct (sden x a), (sden y a); reflexivity.
Qed.

Lemma okl_cons p s r : okl ((p, s) :: r) <-> Up p /\ Us s /\ okl r.
Proof.
  unfold SddInv.okl. split.
  - intros H. inversion H as [|? ? [? ?] ?]; subst. auto.
  - intros (? & ? & ?). constructor; auto.
Qed.

(* ---- prod_inner ---- *)
Lemma prod_inner_spec brk p1 s1 : Up p1 -> Us s1 -> forall bels, okl bels -> excl bels ->
  exists o, prod_inner andf brk p1 s1 bels = Ok o /\
    match o with
    | None => forall a, sden p1 a = true /\ sden s1 a = true /\ den_els bels a = true
    | Some v => okl v /\ nonF v /\
                (forall a, cnt v a = if sden p1 a then cnt bels a else 0) /\
                (forall a, den_els v a = sden p1 a && sden s1 a && den_els bels a)
    end.
Proof.
  intros Hp1 Hs1. induction bels as [|[p2 s2] rest IH]; intros Hok Hex.
  - exists (Some []). simpl. repeat split; try constructor.
    + intros a. destruct (sden p1 a); reflexivity.
    + intros a. rewrite andb_false_r. reflexivity.
  - apply okl_cons in Hok. destruct Hok as (Hp2 & Hs2 & Hok).
    assert (Hex' : excl rest).
    { intros a. specialize (Hex a). rewrite cnt_cons in Hex. lia. }
    specialize (IH Hok Hex'). destruct IH as (o & Eo & Ho).
    destruct (GP p1 p2 Hp1 Hp2) as (p & Ep & Upp & Sp).
    cbn [prod_inner]. rewrite Ep. cbn [bind].
    destruct (s_is_false p) eqn:Fp.
    { apply s_is_false_eq in Fp. subst p. exists o. split; [exact Eo|].
      destruct o as [v|].
      - destruct Ho as (H1 & H2 & H3 & H4). repeat split; auto.
        + intros a. rewrite cnt_cons. pw a. simpl in Sp. bgo a.
        + intros a. rewrite den_els_cons. pw a. simpl in Sp. bgo a.
      - intros a. rewrite den_els_cons. pw a. simpl in Sp. bgo a. }
    destruct (GS s1 s2 Hs1 Hs2) as (s & Es & Uss & Ss).
    rewrite Es. cbn [bind].
    destruct (s_is_true p && s_is_true s) eqn:TT.
    { apply andb_true_iff in TT. destruct TT as [Tp Ts]. apply s_is_true_eq in Tp, Ts. subst p s.
      exists None. split; [reflexivity|]. intros a. rewrite den_els_cons. pw a. simpl in Sp, Ss. bgo a. }
    apply s_is_false_neq in Fp.
    destruct (brk && sdd_eqb p1 p) eqn:BK.
    { apply andb_true_iff in BK. destruct BK as [_ BK]. apply sdd_eqb_eq in BK. subst p.
      exists (Some [(p1, s)]). split; [reflexivity|]. repeat split.
      - apply okl_cons. repeat split; auto. constructor.
      - repeat constructor. exact Fp.
      - intros a. rewrite !cnt_cons. pw a. unfold cnt at 1. simpl. bgo a.
      - intros a. pw a. unfold den_els at 1. simpl. rewrite orb_false_r.
        destruct (cnt rest a) eqn:Ec; [rewrite (cnt_zero_den _ _ Ec)|]; bgo a. }
    rewrite Eo. cbn [bind]. destruct o as [v|].
    + exists (Some ((p, s) :: v)). split; [reflexivity|].
      destruct Ho as (H1 & H2 & H3 & H4). repeat split.
      * apply okl_cons. auto.
      * constructor; auto.
      * intros a. rewrite !cnt_cons. pw a. bgo a.
      * intros a. rewrite !den_els_cons. pw a. bgo a.
    + exists None. split; [reflexivity|]. intros a. rewrite den_els_cons. pw a. bgo a.
Qed.

Lemma okl_app l1 l2 : okl (l1 ++ l2) <-> okl l1 /\ okl l2.
Proof. apply Forall_app. Qed.
Lemma okl_in els p s : okl els -> In (p, s) els -> Up p /\ Us s.
Proof. intros H Hin. unfold SddInv.okl in H. rewrite Forall_forall in H. apply (H (p, s) Hin). Qed.
Lemma okl_perm l1 l2 : Permutation l1 l2 -> okl l1 -> okl l2.
Proof. intros P H. unfold SddInv.okl. rewrite <- P. exact H. Qed.

(* ---- cartesian_loop ---- *)
Lemma cartesian_loop_spec bels : okl bels -> part bels -> forall aels, okl aels ->
  exists o, cartesian_loop andf aels bels = Ok o /\
    match o with
    | None => forall a, den_els aels a = true /\ den_els bels a = true
    | Some v => okl v /\ (forall a, cnt v a = cnt aels a) /\
                (forall a, den_els v a = den_els aels a && den_els bels a) /\
                (nonF aels -> nonF v)
    end.
Proof.
  intros Hb Pb. induction aels as [|[p1 s1] rest IH]; intros Ha.
  - exists (Some []). simpl. repeat split; try constructor.
  - apply okl_cons in Ha. destruct Ha as (Hp1 & Hs1 & Ha). specialize (IH Ha).
    destruct IH as (o & Eo & Ho). cbn [cartesian_loop].
    destruct (find (fun e : sdd * sdd => sdd_eqb (fst e) p1) bels) as [[p2 s2]|] eqn:Ef.
    + apply find_some in Ef. destruct Ef as [Hin Heq]. simpl in Heq. apply sdd_eqb_eq in Heq. subst p2.
      destruct (okl_in _ _ _ Hb Hin) as [_ Hs2].
      destruct (GS s1 s2 Hs1 Hs2) as (s & Es & Uss & Ss). cbn beta iota. rewrite Es. cbn [bind]. rewrite Eo. cbn [bind].
      assert (Hd : forall a, sden p1 a = true -> den_els bels a = sden s2 a).
      { intros a. apply (excl_den bels p1 s2 a); auto. rewrite Pb. lia. }
      destruct o as [v|].
      * exists (Some ((p1, s) :: v)). split; [reflexivity|]. destruct Ho as (H1 & H2 & H3 & H4).
        repeat split.
        -- apply okl_cons. auto.
        -- intros a. pw a. bgo a.
        -- intros a. pw a. destruct (sden p1 a) eqn:E1; [rewrite Hd in * by reflexivity|]; bgo a.
        -- intros Hn. inversion Hn as [|? ? Hn1 Hn2]; subst. constructor; [exact Hn1 | apply H4; exact Hn2].
      * exists None. split; [reflexivity|]. intros a. pw a. bgo a.
    + destruct (prod_inner_spec true p1 s1 Hp1 Hs1 bels Hb (part_excl _ Pb)) as (o1 & E1 & H1).
      rewrite E1. cbn [bind]. destruct o1 as [v1|].
      * rewrite Eo. cbn [bind]. destruct H1 as (K1 & K2 & K3 & K4). destruct o as [v2|].
        -- exists (Some (v1 ++ v2)). split; [reflexivity|]. destruct Ho as (J1 & J2 & J3 & J4). repeat split.
           ++ apply okl_app. auto.
           ++ intros a. rewrite cnt_app. pw a. rewrite Pb in K3. bgo a.
           ++ intros a. rewrite den_els_app. pw a. bgo a.
           ++ intros Hn. inversion Hn as [|? ? Hn1 Hn2]; subst. apply Forall_app. split; [exact K2 | apply J4; exact Hn2].
        -- exists None. split; [reflexivity|]. intros a. pw a. bgo a.
      * exists None. split; [reflexivity|]. intros a. pw a. destruct H1 as (? & ? & ?). bgo a.
Qed.

(* ---- prime_desc_loop ---- *)
Lemma prime_desc_loop_spec d : Up d -> forall rels, okl rels ->
  exists o, prime_desc_loop andf d rels = Ok o /\
    match o with
    | None => forall a, sden d a = true /\ den_els rels a = true
    | Some v => okl v /\ nonF v /\ (forall a, cnt v a = cnt rels a) /\
                (forall a, den_els v a = den_els rels a && sden d a)
    end.
Proof.
  intros Hd.
  assert (HB : okl [(d, ST); (sneg d, SF)]).
  { apply okl_cons. repeat split; auto. apply okl_cons. repeat split; auto. constructor. }
  assert (PB : part [(d, ST); (sneg d, SF)]).
  { intros a. unfold cnt. simpl. rewrite sden_sneg. destruct (sden d a); reflexivity. }
  assert (DB : forall a, den_els [(d, ST); (sneg d, SF)] a = sden d a).
  { intros a. unfold den_els. simpl. rewrite sden_sneg. destruct (sden d a); reflexivity. }
  induction rels as [|[p1 s1] rest IH]; intros Hr.
  - exists (Some []). simpl. repeat split; try constructor.
  - apply okl_cons in Hr. destruct Hr as (Hp1 & Hs1 & Hr). specialize (IH Hr).
    destruct IH as (o & Eo & Ho). cbn [prime_desc_loop].
    destruct (prod_inner_spec false p1 s1 Hp1 Hs1 _ HB (part_excl _ PB)) as (o1 & E1 & H1).
    rewrite E1. cbn [bind]. destruct o1 as [v1|].
    + rewrite Eo. cbn [bind]. destruct H1 as (K1 & K2 & K3 & K4). destruct o as [v2|].
      * exists (Some (v1 ++ v2)). split; [reflexivity|]. destruct Ho as (J1 & J2 & J3 & J4). repeat split.
        -- apply okl_app. auto.
        -- apply Forall_app. auto.
        -- intros a. rewrite cnt_app. pw a. rewrite PB in K3. bgo a.
        -- intros a. rewrite den_els_app. pw a. rewrite DB in K4. bgo a.
      * exists None. split; [reflexivity|]. intros a. pw a. bgo a.
    + exists None. split; [reflexivity|]. intros a. pw a. rewrite DB in H1. destruct H1 as (? & ? & ?). bgo a.
Qed.

(* ---- sub_desc_loop ---- *)
Lemma sub_desc_loop_spec d : Us d -> forall els, okl els ->
  exists v, sub_desc_loop andf d els = Ok v /\ okl v /\ map fst v = map fst els /\
    (forall a, cnt v a = cnt els a) /\ (forall a, den_els v a = den_els els a && sden d a).
Proof.
  intros Hd. induction els as [|[p s] rest IH]; intros He.
  - exists []. simpl. repeat split; constructor.
  - apply okl_cons in He. destruct He as (Hp & Hs & He). destruct (IH He) as (v & Ev & H1 & H2 & H3 & H4).
    destruct (GS s d Hs Hd) as (s' & Es & Uss & Ss).
    cbn [sub_desc_loop]. rewrite Es. cbn [bind]. rewrite Ev. cbn [bind].
    exists ((p, s') :: v). split; [reflexivity|]. repeat split.
    + apply okl_cons. auto.
    + simpl. f_equal. exact H2.
    + intros a. pw a. bgo a.
    + intros a. pw a. bgo a.
Qed.

(* ---- compress ---- *)
Definition satl (els : list elem) : Prop := Forall (fun e => exists a, sden (fst e) a = true) els.

Lemma compress_while_spec : forall fuel cur rest k,
  length rest - k < fuel -> okl (cur :: rest) -> excl (cur :: rest) ->
  exists cur' rest', compress_while andf fuel cur rest k = Ok (cur', rest') /\
    okl (cur' :: rest') /\
    (forall a, cnt (cur' :: rest') a = cnt (cur :: rest) a) /\
    (forall a, den_els (cur' :: rest') a = den_els (cur :: rest) a) /\
    (satl (cur :: rest) -> satl (cur' :: rest')).
Proof.
  induction fuel as [|fuel IH]; intros [pc sc] rest k Hf Hok Hex; [lia|].
  cbn [compress_while]. destruct (nth_error rest k) as [[pj sj]|] eqn:En.
  - assert (Hlen := swap_remove_length rest k _ En).
    assert (Hperm := swap_remove_perm rest k _ En).
    assert (Hk : k < length rest) by (apply nth_error_Some; congruence).
    cbn [fst snd]. destruct (sdd_eqb sc sj) eqn:Es.
    + apply sdd_eqb_eq in Es. subst sj.
      apply okl_cons in Hok. destruct Hok as (Hpc & Hsc & Hrest).
      assert (Hrest' : okl ((pj, sc) :: swap_remove rest k)) by (eapply okl_perm; [symmetry; exact Hperm | exact Hrest]).
      apply okl_cons in Hrest'. destruct Hrest' as (Hpj & _ & Hsr).
      destruct (or_f_good pc pj Hpc Hpj) as (p & Ep & Upp & Sp). rewrite Ep. cbn [bind].
      assert (Hc : forall a, cnt rest a = (if sden pj a then 1 else 0) + cnt (swap_remove rest k) a).
      { intros a. rewrite <- (cnt_perm _ _ a Hperm). rewrite cnt_cons. reflexivity. }
      assert (Hd : forall a, den_els rest a = sden pj a && sden sc a || den_els (swap_remove rest k) a).
      { intros a. rewrite <- (den_els_perm _ _ a Hperm). rewrite den_els_cons. reflexivity. }
      destruct (IH (p, sc) (swap_remove rest k) k) as (cur' & rest' & E & K1 & K2 & K3 & K4).
      * lia.
      * apply okl_cons. auto.
      * intros a. pw a. rewrite cnt_cons in *. rewrite Hc in Hex. bgo a.
      * exists cur', rest'. split; [exact E|]. repeat split; auto.
        -- intros a. rewrite K2. pw a. rewrite !cnt_cons in *. rewrite Hc in *. bgo a.
        -- intros a. rewrite K3. pw a. rewrite !den_els_cons. rewrite Hd. bgo a.
        -- intros Hs. apply K4. unfold satl in *. inversion Hs as [|? ? [a Ha] Hs']; subst.
           constructor.
           ++ exists a. simpl in *. rewrite Sp, Ha. reflexivity.
           ++ assert (Hs2 : Forall (fun e : elem => exists a, sden (fst e) a = true) ((pj, sc) :: swap_remove rest k))
                by (rewrite Hperm; exact Hs').
              inversion Hs2; auto.
    + apply (IH (pc, sc) rest (S k)); auto. lia.
  - exists (pc, sc), rest. repeat split; auto.
Qed.

Lemma compress_for_spec : forall n done todo,
  okl (done ++ todo) -> excl (done ++ todo) ->
  exists v, compress_for andf n done todo = Ok v /\ okl v /\
    (forall a, cnt v a = cnt (done ++ todo) a) /\
    (forall a, den_els v a = den_els (done ++ todo) a) /\
    (satl (done ++ todo) -> satl v).
Proof.
  induction n as [|n IH]; intros done todo Hok Hex.
  - exists (done ++ todo). simpl. repeat split; auto.
  - cbn [compress_for]. destruct todo as [|cur rest].
    + exists done. rewrite app_nil_r in *. repeat split; auto.
    + apply okl_app in Hok. destruct Hok as [Hd Ht].
      destruct (compress_while_spec (S (length rest)) cur rest 0) as (cur' & rest' & E & K1 & K2 & K3 & K4).
      * lia.
      * exact Ht.
      * intros a. specialize (Hex a). rewrite cnt_app in Hex. lia.
      * rewrite E. cbn [bind fst snd].
        destruct (IH (done ++ [cur']) rest') as (v & Ev & J1 & J2 & J3 & J4).
        -- rewrite <- app_assoc. simpl. apply okl_app. auto.
        -- intros a. rewrite <- app_assoc. simpl. rewrite cnt_app, K2. specialize (Hex a). rewrite cnt_app in Hex. exact Hex.
        -- exists v. split; [exact Ev|]. repeat split; auto.
           ++ intros a. rewrite J2, <- app_assoc. simpl. rewrite !cnt_app, K2. reflexivity.
           ++ intros a. rewrite J3, <- app_assoc. simpl. rewrite !den_els_app, K3. reflexivity.
           ++ intros Hs. apply J4. rewrite <- app_assoc. simpl. unfold satl in *.
              apply Forall_app in Hs. destruct Hs as [S1 S2]. apply Forall_app. split; [exact S1 | apply K4; exact S2].
Qed.

Lemma compress_spec node : okl node -> excl node ->
  exists v, compress andf node = Ok v /\ okl v /\
    (forall a, cnt v a = cnt node a) /\ (forall a, den_els v a = den_els node a) /\ (satl node -> satl v).
Proof. intros H1 H2. apply (compress_for_spec (length node) [] node); auto. Qed.

End Loops.
