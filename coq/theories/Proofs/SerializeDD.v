(* Proofs about the diagram / vtree serialisers of Model/Serialize.v (property C17). *)
From Coq Require Import Bool NArith List Arith Lia.
Import ListNotations.
From RsddV Require Import Base.Bdd Model.Serialize.
From RsddV Require Model.VTree.

(* ==================================================================================== *)
(* BDDSerializer *)

Definition is_reg (t : bdd) : Prop := exists v l h, t = BN false v l h.

Fixpoint bsize (p : bdd) : nat :=
  match p with BN _ _ l h => S (bsize l + bsize h) | _ => 0 end.

Lemma bdd_eqb_refl p : bdd_eqb p p = true.
Proof. apply bdd_eqb_eq. reflexivity. Qed.

Lemma blookup_cons k k' i t :
  blookup k ((k', i) :: t) = if bdd_eqb k k' then Some i else blookup k t.
Proof. reflexivity. Qed.

(* ---- the tree reader ---- *)
Lemma ptr_tree_app trees ext p t : ptr_tree trees p = Some t -> ptr_tree (trees ++ ext) p = Some t.
Proof.
  destruct p as [i c| |]; cbn [ptr_tree]; try (intros H; exact H).
  destruct (nth_error trees i) as [x|] eqn:E; [|discriminate].
  intros H. rewrite nth_error_app1 by (apply nth_error_Some; congruence). rewrite E. exact H.
Qed.

Lemma ptr_tree_below trees p t : ptr_tree trees p = Some t -> ptr_below (length trees) p = true.
Proof.
  destruct p as [i c| |]; cbn [ptr_tree ptr_below]; try reflexivity.
  destruct (nth_error trees i) as [x|] eqn:E; [|discriminate].
  intros _. apply Nat.ltb_lt. apply nth_error_Some. congruence.
Qed.

Lemma unfold_rows_app r1 r2 acc :
  unfold_rows (r1 ++ r2) acc =
  match unfold_rows r1 acc with Some t => unfold_rows r2 t | None => None end.
Proof.
  revert acc. induction r1 as [|[[v l] h] r IH]; intros acc; [reflexivity|].
  cbn [app unfold_rows]. destruct (ptr_tree acc l), (ptr_tree acc h); try reflexivity. apply IH.
Qed.

(* what a successful read produces: one regular node per row, children read from the final
   list at smaller positions *)
Lemma unfold_rows_spec rows : forall acc trees,
  unfold_rows rows acc = Some trees ->
  exists new, trees = acc ++ new /\ length new = length rows /\
  forall i v l h, nth_error rows i = Some (v, l, h) ->
    exists tl th, ptr_tree trees l = Some tl /\ ptr_tree trees h = Some th /\
      nth_error trees (length acc + i) = Some (BN false v tl th) /\
      ptr_below (length acc + i) l = true /\ ptr_below (length acc + i) h = true.
Proof.
  induction rows as [|[[v l] h] r IH]; intros acc trees H.
  - cbn in H. inversion H; subst. exists []. rewrite app_nil_r. split; [reflexivity|]. split; [reflexivity|].
    intros i v l h Hn. destruct i; discriminate.
  - cbn [unfold_rows] in H.
    destruct (ptr_tree acc l) as [tl|] eqn:El; [|discriminate].
    destruct (ptr_tree acc h) as [th|] eqn:Eh; [|discriminate].
    destruct (IH _ _ H) as (new & Ht & Hl & Hrows).
    exists (BN false v tl th :: new). split; [rewrite Ht, <- app_assoc; reflexivity|].
    split; [cbn; lia|].
    intros i v' l' h' Hn. destruct i as [|i].
    + cbn in Hn. inversion Hn; subst v' l' h'. exists tl, th.
      rewrite Ht, <- app_assoc. split; [apply ptr_tree_app, El|]. split; [apply ptr_tree_app, Eh|].
      rewrite Nat.add_0_r. split.
      * rewrite nth_error_app2 by lia. rewrite Nat.sub_diag. reflexivity.
      * split; eapply ptr_tree_below; eassumption.
    + cbn in Hn. destruct (Hrows i v' l' h' Hn) as (tl' & th' & H1 & H2 & H3 & H4 & H5).
      rewrite app_length in H3, H4, H5. cbn [length] in H3, H4, H5.
      replace (length acc + 1 + i) with (length acc + S i) in H3, H4, H5 by lia.
      exists tl', th'. repeat split; assumption.
Qed.

Lemma unfold_rows_length rows trees : unfold_rows rows [] = Some trees -> length trees = length rows.
Proof. intros H. destruct (unfold_rows_spec _ _ _ H) as (new & -> & Hl & _). exact Hl. Qed.

Lemma unfold_rows_reg rows : forall acc trees,
  unfold_rows rows acc = Some trees -> Forall is_reg acc -> Forall is_reg trees.
Proof.
  induction rows as [|[[v l] h] r IH]; intros acc trees H Hacc.
  - cbn in H. inversion H; subst. exact Hacc.
  - cbn [unfold_rows] in H. destruct (ptr_tree acc l) as [tl|]; [|discriminate].
    destruct (ptr_tree acc h) as [th|]; [|discriminate].
    apply (IH _ _ H). apply Forall_app. split; [exact Hacc|]. constructor; [|constructor].
    exists v, tl, th. reflexivity.
Qed.

Lemma unfold_rows_ordered rows : forall acc trees,
  unfold_rows rows acc = Some trees -> rows_ordered_from (length acc) rows = true.
Proof.
  induction rows as [|[[v l] h] r IH]; intros acc trees H; [reflexivity|].
  cbn [unfold_rows] in H. destruct (ptr_tree acc l) as [tl|] eqn:El; [|discriminate].
  destruct (ptr_tree acc h) as [th|] eqn:Eh; [|discriminate].
  cbn [rows_ordered_from]. rewrite (ptr_tree_below _ _ _ El), (ptr_tree_below _ _ _ Eh). cbn [andb].
  specialize (IH _ _ H). rewrite app_length in IH. cbn [length] in IH.
  replace (length acc + 1) with (S (length acc)) in IH by lia. exact IH.
Qed.

(* ---- the evaluating reader computes the denotation of the unfolded trees ---- *)
Lemma den_with_compl c t a : is_reg t -> den (with_compl c t) a = xorb c (den t a).
Proof. intros (v & l & h & ->). cbn. destruct (if a v then den h a else den l a); reflexivity. Qed.

Lemma ptr_val_tree trees p a :
  Forall is_reg trees ->
  ptr_val (map (fun t => den t a) trees) p = option_map (fun t => den t a) (ptr_tree trees p).
Proof.
  intros Hreg. destruct p as [i c| |]; cbn [ptr_val ptr_tree option_map]; try reflexivity.
  rewrite nth_error_map. destruct (nth_error trees i) as [t|] eqn:E; cbn [option_map]; [|reflexivity].
  rewrite den_with_compl; [reflexivity|]. rewrite Forall_forall in Hreg. apply Hreg. eapply nth_error_In, E.
Qed.

Lemma eval_rows_unfold a rows : forall trees,
  Forall is_reg trees ->
  eval_rows rows (map (fun t => den t a) trees) a =
  option_map (map (fun t => den t a)) (unfold_rows rows trees).
Proof.
  induction rows as [|[[v l] h] r IH]; intros trees Hreg; [reflexivity|].
  cbn [eval_rows unfold_rows]. rewrite !ptr_val_tree by exact Hreg.
  destruct (ptr_tree trees l) as [tl|]; cbn [option_map]; [|reflexivity].
  destruct (ptr_tree trees h) as [th|]; cbn [option_map]; [|reflexivity].
  rewrite <- IH.
  - rewrite map_app. cbn [map den]. rewrite xorb_false_l. reflexivity.
  - apply Forall_app. split; [exact Hreg|]. constructor; [|constructor]. exists v, tl, th. reflexivity.
Qed.

Theorem eval_table_unfold rows root a :
  eval_table rows root a = option_map (fun t => den t a) (unfold_table rows root).
Proof.
  unfold eval_table, unfold_table.
  pose proof (eval_rows_unfold a rows [] (Forall_nil _)) as H. cbn [map] in H. rewrite H.
  destruct (unfold_rows rows []) as [trees|] eqn:E; cbn [option_map]; [|reflexivity].
  apply ptr_val_tree. eapply unfold_rows_reg; [exact E|constructor].
Qed.

(* ---- the serialiser ---- *)
(* the table and the list of unfolded rows are inverse to each other *)
Record binv (tbl : list (bdd * nat)) (trees : list bdd) : Prop := {
  bi_fwd : forall k i, blookup k tbl = Some i -> nth_error trees i = Some k;
  bi_bwd : forall k i, nth_error trees i = Some k -> blookup k tbl = Some i
}.

(* the (regular) nodes below a pointer, with repetitions *)
Fixpoint subnodes (p : bdd) : list bdd :=
  match p with BN _ v l h => BN false v l h :: subnodes l ++ subnodes h | _ => [] end.
Definition closed (trees : list bdd) : Prop :=
  forall k, In k trees -> forall k', In k' (subnodes k) -> In k' trees.

Lemma ser_bdd_inv p : forall st trees,
  unfold_rows (snd st) [] = Some trees -> binv (fst st) trees -> closed trees ->
  exists trees' ext more,
    unfold_rows (snd (snd (ser_bdd p st))) [] = Some trees' /\
    binv (fst (snd (ser_bdd p st))) trees' /\
    trees' = trees ++ ext /\
    snd (snd (ser_bdd p st)) = snd st ++ more /\
    ptr_tree trees' (fst (ser_bdd p st)) = Some p /\
    (forall k, blookup k (fst st) = None -> blookup k (fst (snd (ser_bdd p st))) <> None -> bsize k <= bsize p) /\
    closed trees' /\
    (forall k, In k (subnodes p) -> In k trees') /\
    (forall k, In k ext -> In k (subnodes p)).
Proof.
  induction p as [| |c v lo IHlo hi IHhi]; intros st trees Hu Hinv Hcl.
  - exists trees, [], []. cbn. rewrite !app_nil_r. repeat split; try assumption; try apply Hinv; try contradiction.
  - exists trees, [], []. cbn. rewrite !app_nil_r. repeat split; try assumption; try apply Hinv; try contradiction.
  - cbn [ser_bdd]. destruct (blookup (BN false v lo hi) (fst st)) as [i|] eqn:Elk.
    + exists trees, [], []. cbn [fst snd]. rewrite !app_nil_r.
      assert (Hin : In (BN false v lo hi) trees) by (eapply nth_error_In, (bi_fwd _ _ Hinv _ _ Elk)).
      split; [exact Hu|]. split; [exact Hinv|]. split; [reflexivity|]. split; [reflexivity|].
      split; [cbn [ptr_tree]; rewrite (bi_fwd _ _ Hinv _ _ Elk); reflexivity|].
      split; [intros k H1 H2; congruence|]. split; [exact Hcl|].
      split; [intros k Hk; exact (Hcl _ Hin k Hk)|intros k []].
    + destruct (IHlo st trees Hu Hinv Hcl) as (t1 & e1 & m1 & Hu1 & Hinv1 & Ht1 & Hr1 & Hp1 & Hs1 & Hc1 & Hn1 & Hx1).
      destruct (ser_bdd lo st) as [l st1] eqn:E1. cbn [fst snd] in Hu1, Hinv1, Hr1, Hp1, Hs1.
      destruct (IHhi st1 t1 Hu1 Hinv1 Hc1) as (t2 & e2 & m2 & Hu2 & Hinv2 & Ht2 & Hr2 & Hp2 & Hs2 & Hc2 & Hn2 & Hx2).
      destruct (ser_bdd hi st1) as [h st2] eqn:E2. cbn [fst snd] in Hu2, Hinv2, Hr2, Hp2, Hs2.
      cbn [fst snd].
      assert (Hlen : length (snd st2) = length t2) by (symmetry; apply unfold_rows_length, Hu2).
      assert (Hpl : ptr_tree t2 l = Some lo) by (rewrite Ht2; apply ptr_tree_app, Hp1).
      (* the node itself is still absent: everything added is no larger than lo / hi *)
      assert (Hnone : blookup (BN false v lo hi) (fst st2) = None).
      { destruct (blookup (BN false v lo hi) (fst st2)) eqn:E; [|reflexivity]. exfalso.
        destruct (blookup (BN false v lo hi) (fst st1)) eqn:E'.
        - assert (B : bsize (BN false v lo hi) <= bsize lo) by (apply Hs1; [exact Elk|congruence]).
          cbn in B. lia.
        - assert (B : bsize (BN false v lo hi) <= bsize hi) by (apply Hs2; [exact E'|congruence]).
          cbn in B. lia. }
      exists (t2 ++ [BN false v lo hi]), (e1 ++ e2 ++ [BN false v lo hi]), (m1 ++ m2 ++ [(v, l, h)]).
      assert (Hsub : forall k, In k (subnodes (BN c v lo hi)) -> In k (t2 ++ [BN false v lo hi])).
      { intros k Hk. cbn [subnodes] in Hk. apply in_app_iff. destruct Hk as [<-|Hk]; [right; left; reflexivity|].
        left. apply in_app_iff in Hk. destruct Hk as [Hk|Hk]; [|apply Hn2, Hk].
        rewrite Ht2. apply in_app_iff. left. apply Hn1, Hk. }
      split; [|split; [|split; [|split; [|split; [|split; [|split; [|split]]]]]]].
      * rewrite unfold_rows_app, Hu2. cbn [unfold_rows]. rewrite Hpl, Hp2. reflexivity.
      * constructor.
        -- intros k i. rewrite blookup_cons. destruct (bdd_eqb k (BN false v lo hi)) eqn:Ek.
           ++ intros Hi. inversion Hi; subst i. apply bdd_eqb_eq in Ek. subst k.
              rewrite Hlen, nth_error_app2 by lia. rewrite Nat.sub_diag. reflexivity.
           ++ intros Hi. pose proof (bi_fwd _ _ Hinv2 _ _ Hi) as Hn.
              rewrite nth_error_app1 by (apply nth_error_Some; congruence). exact Hn.
        -- intros k i Hn. rewrite blookup_cons.
           destruct (Nat.lt_ge_cases i (length t2)) as [Hlt|Hge].
           ++ rewrite nth_error_app1 in Hn by exact Hlt.
              pose proof (bi_bwd _ _ Hinv2 _ _ Hn) as Hb.
              destruct (bdd_eqb k (BN false v lo hi)) eqn:Ek; [|exact Hb].
              apply bdd_eqb_eq in Ek. subst k. congruence.
           ++ rewrite nth_error_app2 in Hn by exact Hge.
              destruct (i - length t2) as [|d] eqn:Ed; [|destruct d; discriminate].
              cbn in Hn. inversion Hn; subst k. rewrite bdd_eqb_refl. f_equal. lia.
      * rewrite Ht2, Ht1, <- !app_assoc. reflexivity.
      * rewrite Hr2, Hr1, <- !app_assoc. reflexivity.
      * cbn [ptr_tree]. rewrite Hlen, nth_error_app2 by lia. rewrite Nat.sub_diag. reflexivity.
      * intros k Hk0 Hk. rewrite blookup_cons in Hk.
        destruct (bdd_eqb k (BN false v lo hi)) eqn:Ek.
        -- apply bdd_eqb_eq in Ek. subst k. cbn. lia.
        -- destruct (blookup k (fst st1)) eqn:E'.
           ++ assert (B : bsize k <= bsize lo) by (apply Hs1; [exact Hk0|congruence]). cbn. lia.
           ++ assert (B : bsize k <= bsize hi) by (apply Hs2; [exact E'|exact Hk]). cbn. lia.
      * intros k Hk k' Hk'. apply in_app_iff in Hk. destruct Hk as [Hk|[<-|[]]].
        -- apply in_app_iff. left. exact (Hc2 _ Hk _ Hk').
        -- apply Hsub. exact Hk'.
      * exact Hsub.
      * intros k Hk. cbn [subnodes]. apply in_app_iff in Hk. destruct Hk as [Hk|Hk].
        -- right. apply in_app_iff. left. apply Hx1, Hk.
        -- apply in_app_iff in Hk. destruct Hk as [Hk|[<-|[]]]; [|left; reflexivity].
           right. apply in_app_iff. right. apply Hx2, Hk.
Qed.

Lemma closed_nil : closed [].
Proof. intros k []. Qed.

Lemma binv_nil : binv [] [].
Proof. constructor; intros k i H; [discriminate|destruct i; discriminate]. Qed.

(* deserialising the table gives back the same diagram (unfolding) *)
Theorem ser_bdd_iso p :
  unfold_table (fst (bdd_serialize p)) (snd (bdd_serialize p)) = Some p.
Proof.
  unfold bdd_serialize, unfold_table.
  destruct (ser_bdd_inv p ([], []) [] eq_refl binv_nil closed_nil) as (t & e & m & Hu & _ & _ & _ & Hp & _).
  destruct (ser_bdd p ([], [])) as [r st]. cbn [fst snd] in *. rewrite Hu. exact Hp.
Qed.

(* the independent evaluator computes the diagram's function, for every diagram *)
Theorem ser_bdd_sem p a :
  eval_table (fst (bdd_serialize p)) (snd (bdd_serialize p)) a = Some (den p a).
Proof. rewrite eval_table_unfold, ser_bdd_iso. reflexivity. Qed.

(* children are written before their parents *)
Theorem ser_bdd_ordered p : rows_ordered (fst (bdd_serialize p)) = true.
Proof.
  unfold bdd_serialize, rows_ordered.
  destruct (ser_bdd_inv p ([], []) [] eq_refl binv_nil closed_nil) as (t & e & m & Hu & _).
  destruct (ser_bdd p ([], [])) as [r st]. cbn [fst snd] in *.
  exact (unfold_rows_ordered _ _ _ Hu).
Qed.

(* every node appears once: no two rows of the table are equal *)
Lemma NoDup_nth_error_inj {A} (l : list A) :
  (forall i j x, nth_error l i = Some x -> nth_error l j = Some x -> i = j) -> NoDup l.
Proof.
  intros H. apply NoDup_nth_error. intros i j Hi E.
  destruct (nth_error l i) as [x|] eqn:Ei; [|apply nth_error_Some in Hi; congruence].
  eapply H; [exact Ei|congruence].
Qed.

Theorem ser_bdd_nodup p : NoDup (fst (bdd_serialize p)).
Proof.
  unfold bdd_serialize.
  destruct (ser_bdd_inv p ([], []) [] eq_refl binv_nil closed_nil) as (t & e & m & Hu & Hinv & _).
  destruct (ser_bdd p ([], [])) as [r st]. cbn [fst snd] in *.
  destruct (unfold_rows_spec _ _ _ Hu) as (new & Hnew & _ & Hrows). cbn [app length] in Hnew, Hrows. subst new.
  apply NoDup_nth_error_inj. intros i j [[v l] h] Hi Hj.
  destruct (Hrows i v l h Hi) as (tl & th & H1 & H2 & H3 & _).
  destruct (Hrows j v l h Hj) as (tl' & th' & H1' & H2' & H3' & _).
  cbn [plus] in H3, H3'. rewrite H1 in H1'. rewrite H2 in H2'. inversion H1'; inversion H2'; subst tl' th'.
  pose proof (bi_bwd _ _ Hinv _ _ H3) as B1. pose proof (bi_bwd _ _ Hinv _ _ H3') as B2. congruence.
Qed.


(* the table holds exactly the nodes below p -- nothing else, none missing: its rows, read
   back as trees, are the regular sub-nodes of p, each once *)
Theorem ser_bdd_nodes p :
  exists trees, unfold_rows (fst (bdd_serialize p)) [] = Some trees /\
    length trees = length (fst (bdd_serialize p)) /\ NoDup trees /\
    forall k, In k trees <-> In k (subnodes p).
Proof.
  unfold bdd_serialize.
  destruct (ser_bdd_inv p ([], []) [] eq_refl binv_nil closed_nil)
    as (t & e & m & Hu & Hinv & Ht & _ & _ & _ & _ & Hn & Hx).
  destruct (ser_bdd p ([], [])) as [r st]. cbn [fst snd app] in *. subst e.
  exists t. split; [exact Hu|]. split; [apply unfold_rows_length, Hu|]. split.
  - apply NoDup_nth_error_inj. intros i j k Hi Hj.
    pose proof (bi_bwd _ _ Hinv _ _ Hi). pose proof (bi_bwd _ _ Hinv _ _ Hj). congruence.
  - intros k. split; [apply Hx|apply Hn].
Qed.

(* ==================================================================================== *)
(* VTreeSerializer *)
Theorem ser_vtree_iso t : vtree_deserialize (vtree_serialize t) = t.
Proof. induction t as [v|l IHl r IHr]; cbn; [reflexivity|rewrite IHl, IHr; reflexivity]. Qed.

Theorem ser_vtree_iso' s : vtree_serialize (vtree_deserialize s) = s.
Proof. induction s as [v|l IHl r IHr]; cbn; [reflexivity|rewrite IHl, IHr; reflexivity]. Qed.

Theorem ser_vtree_leaves t :
  (fix leaves (s : ser_vtree) : list nat :=
     match s with SVLeaf v => [v] | SVNode l r => leaves l ++ leaves r end) (vtree_serialize t)
  = (fix lv (t : VTree.vtree) : list nat :=
       match t with VTree.VLeaf v => [v] | VTree.VNode l r => lv l ++ lv r end) t.
Proof. induction t as [v|l IHl r IHr]; cbn; [reflexivity|rewrite IHl, IHr; reflexivity]. Qed.

(* ==================================================================================== *)
(* SDDSerializer *)
From RsddV Require Import Model.SddOps Proofs.SddBase.

Definition is_node (k : sdd) : Prop :=
  match k with SBdd false _ _ _ _ | SOr false _ _ => True | _ => False end.

Lemma sden_reg p a : is_node (s_reg p) -> sden p a = xorb (s_compl p) (sden (s_reg p) a).
Proof.
  destruct p as [| |v b|c l i lo hi|c i els]; cbn [s_reg is_node]; try contradiction.
  - destruct c; intros _; cbn [s_compl s_reg sden]; rewrite !xorb_false_l; reflexivity.
  - destruct c; intros _; cbn [s_compl s_reg]; rewrite !sden_or, !xorb_false_l; reflexivity.
Qed.

Lemma slookup_cons k k' i t :
  slookup k ((k', i) :: t) = if sdd_eqb k k' then Some i else slookup k t.
Proof. reflexivity. Qed.

Section SddSer.
Variable a : asg.

Definition sinv (tbl : list (sdd * nat)) (vals : list bool) : Prop :=
  forall k i, slookup k tbl = Some i -> is_node k /\ nth_error vals i = Some (sden k a).

Lemma xptr_val_app vals ext p b : xptr_val vals a p = Some b -> xptr_val (vals ++ ext) a p = Some b.
Proof.
  destruct p as [i c| | |l pol]; cbn [xptr_val]; try (intros H; exact H).
  destruct (nth_error vals i) as [x|] eqn:E; [|discriminate].
  intros H. rewrite nth_error_app1 by (apply nth_error_Some; congruence). rewrite E. exact H.
Qed.

Lemma xptr_val_below vals p b : xptr_val vals a p = Some b -> xptr_below (length vals) p = true.
Proof.
  destruct p as [i c| | |l pol]; cbn [xptr_val xptr_below]; try reflexivity.
  destruct (nth_error vals i) as [x|] eqn:E; [|discriminate].
  intros _. apply Nat.ltb_lt, nth_error_Some. congruence.
Qed.

Lemma eval_xrows_app r1 r2 acc :
  eval_xrows (r1 ++ r2) acc a = match eval_xrows r1 acc a with Some v => eval_xrows r2 v a | None => None end.
Proof.
  revert acc. induction r1 as [|r t IH]; intros acc; [reflexivity|].
  cbn [app eval_xrows]. destruct (xrow_val acc a r); [apply IH|reflexivity].
Qed.

Lemma eval_xrows_length rows : forall acc vals,
  eval_xrows rows acc a = Some vals -> length vals = length acc + length rows.
Proof.
  induction rows as [|r t IH]; intros acc vals H; cbn [eval_xrows] in H.
  - inversion H; subst. cbn. lia.
  - destruct (xrow_val acc a r); [|discriminate]. rewrite (IH _ _ H), app_length. cbn. lia.
Qed.

Lemma xrow_val_below vals r b :
  xrow_val vals a r = Some b ->
  forallb (fun e => xptr_below (length vals) (fst e) && xptr_below (length vals) (snd e)) r = true.
Proof.
  revert b. induction r as [|[p s] t IH]; intros b H; [reflexivity|]. cbn [xrow_val] in H.
  destruct (xptr_val vals a p) as [bp|] eqn:Ep; [|discriminate].
  destruct (xptr_val vals a s) as [bs|] eqn:Es; [|discriminate].
  destruct (xrow_val vals a t) as [bt|] eqn:Et; [|discriminate].
  cbn [forallb fst snd]. rewrite (xptr_val_below _ _ _ Ep), (xptr_val_below _ _ _ Es), (IH _ eq_refl). reflexivity.
Qed.

Lemma eval_xrows_ordered rows : forall acc vals,
  eval_xrows rows acc a = Some vals -> xrows_ordered_from (length acc) rows = true.
Proof.
  induction rows as [|r t IH]; intros acc vals H; [reflexivity|]. cbn [eval_xrows] in H.
  destruct (xrow_val acc a r) as [b|] eqn:E; [|discriminate].
  cbn [xrows_ordered_from]. rewrite (xrow_val_below _ _ _ E). cbn [andb].
  specialize (IH _ _ H). rewrite app_length in IH. cbn [length] in IH.
  replace (length acc + 1) with (S (length acc)) in IH by lia. exact IH.
Qed.

(* what serialising p from a sound state yields *)
Definition ser_ok (p : sdd) : Prop :=
  forall (st : sstate) vals, eval_xrows (snd st) [] a = Some vals -> sinv (fst st) vals ->
  exists vals',
    eval_xrows (snd (snd (ser_sdd p st))) [] a = Some vals' /\
    sinv (fst (snd (ser_sdd p st))) vals' /\
    (exists ext, vals' = vals ++ ext) /\
    xptr_val vals' a (fst (ser_sdd p st)) = Some (sden p a).

Lemma ser_hit p (st : sstate) vals i :
  slookup (s_reg p) (fst st) = Some i -> sinv (fst st) vals ->
  xptr_val vals a (XPtr i (s_compl p)) = Some (sden p a).
Proof.
  intros Hl Hinv. destruct (Hinv _ _ Hl) as (Hn & Hv). cbn [xptr_val]. rewrite Hv.
  rewrite (sden_reg p a Hn). reflexivity.
Qed.

Lemma sinv_push tbl vals key b :
  sinv tbl vals -> is_node key -> b = sden key a ->
  sinv ((key, length vals) :: tbl) (vals ++ [b]).
Proof.
  intros Hinv Hn -> k i. rewrite slookup_cons. destruct (sdd_eqb k key) eqn:E.
  - intros H; inversion H; subst i. apply sdd_eqb_eq in E. subst k. split; [exact Hn|].
    rewrite nth_error_app2 by lia. rewrite Nat.sub_diag. reflexivity.
  - intros H. destruct (Hinv _ _ H) as (Hk & Hv). split; [exact Hk|].
    rewrite nth_error_app1 by (apply nth_error_Some; congruence). exact Hv.
Qed.

Lemma ser_els_ok els :
  Forall (fun e => ser_ok (fst e) /\ ser_ok (snd e)) els ->
  forall (st : sstate) vals, eval_xrows (snd st) [] a = Some vals -> sinv (fst st) vals ->
  exists vals',
    eval_xrows (snd (snd (ser_els els st))) [] a = Some vals' /\
    sinv (fst (snd (ser_els els st))) vals' /\
    (exists ext, vals' = vals ++ ext) /\
    xrow_val vals' a (fst (ser_els els st)) = Some (den_els els a).
Proof.
  induction 1 as [|[pr sb] r (Hp & Hs) _ IH]; intros st vals Hu Hinv.
  - exists vals. cbn. split; [exact Hu|]. split; [exact Hinv|]. split; [exists []; rewrite app_nil_r; reflexivity|reflexivity].
  - cbn [ser_els fst snd] in *.
    destruct (Hp st vals Hu Hinv) as (v1 & Hu1 & Hi1 & (e1 & He1) & Hv1).
    destruct (ser_sdd pr st) as [pp s1]. cbn [fst snd] in *.
    destruct (Hs s1 v1 Hu1 Hi1) as (v2 & Hu2 & Hi2 & (e2 & He2) & Hv2).
    destruct (ser_sdd sb s1) as [ss s2]. cbn [fst snd] in *.
    destruct (IH s2 v2 Hu2 Hi2) as (v3 & Hu3 & Hi3 & (e3 & He3) & Hv3).
    destruct (ser_els r s2) as [rest s3]. cbn [fst snd] in *.
    exists v3. split; [exact Hu3|]. split; [exact Hi3|]. split.
    + exists (e1 ++ e2 ++ e3). rewrite He3, He2, He1, <- !app_assoc. reflexivity.
    + cbn [xrow_val]. rewrite Hv3.
      assert (P1 : xptr_val v3 a pp = Some (sden pr a)).
      { rewrite He3, He2, <- app_assoc. apply xptr_val_app, Hv1. }
      assert (P2 : xptr_val v3 a ss = Some (sden sb a)) by (rewrite He3; apply xptr_val_app, Hv2).
      rewrite P1, P2. reflexivity.
Qed.

Lemma ser_sdd_or c idx els st :
  ser_sdd (SOr c idx els) st =
  match slookup (SOr false idx els) (fst st) with
  | Some i => (XPtr i c, st)
  | None =>
    let '(o, st1) := ser_els els st in
    (XPtr (length (snd st1)) c, ((SOr false idx els, length (snd st1)) :: fst st1, snd st1 ++ [o]))
  end.
Proof.
  assert (E : forall l s,
    (fix go (l : list elem) (st : sstate) : xrow * sstate :=
       match l with
       | [] => ([], st)
       | (pr, sb) :: r =>
         let '(pp, s1) := ser_sdd pr st in
         let '(ss, s2) := ser_sdd sb s1 in
         let '(rest, s3) := go r s2 in
         ((pp, ss) :: rest, s3)
       end) l s = ser_els l s).
  { induction l as [|[pr sb] r IH]; intros s; [reflexivity|].
    cbn [ser_els]. destruct (ser_sdd pr s) as [pp s1]. destruct (ser_sdd sb s1) as [ss s2].
    rewrite IH. reflexivity. }
  destruct c; cbn [ser_sdd s_reg s_compl]; destruct (slookup (SOr false idx els) (fst st)); try reflexivity;
    rewrite E; reflexivity.
Qed.

Lemma ser_sdd_ok p : ser_ok p.
Proof.
  induction p as [| |v b|c lbl idx lo hi IHlo IHhi|c idx els IH] using sdd_ind'; intros st vals Hu Hinv.
  - cbn [ser_sdd s_reg]. destruct (slookup ST (fst st)) as [i|] eqn:El.
    + exists vals. cbn [fst snd]. split; [exact Hu|]. split; [exact Hinv|]. split; [exists []; rewrite app_nil_r; reflexivity|].
      exact (ser_hit ST st vals i El Hinv).
    + exists vals. cbn [fst snd]. split; [exact Hu|]. split; [exact Hinv|]. split; [exists []; rewrite app_nil_r; reflexivity|reflexivity].
  - cbn [ser_sdd s_reg]. destruct (slookup SF (fst st)) as [i|] eqn:El.
    + exists vals. cbn [fst snd]. split; [exact Hu|]. split; [exact Hinv|]. split; [exists []; rewrite app_nil_r; reflexivity|].
      exact (ser_hit SF st vals i El Hinv).
    + exists vals. cbn [fst snd]. split; [exact Hu|]. split; [exact Hinv|]. split; [exists []; rewrite app_nil_r; reflexivity|reflexivity].
  - cbn [ser_sdd s_reg]. destruct (slookup (SVar v b) (fst st)) as [i|] eqn:El.
    + exists vals. cbn [fst snd]. split; [exact Hu|]. split; [exact Hinv|]. split; [exists []; rewrite app_nil_r; reflexivity|].
      exact (ser_hit (SVar v b) st vals i El Hinv).
    + exists vals. cbn [fst snd]. split; [exact Hu|]. split; [exact Hinv|]. split; [exists []; rewrite app_nil_r; reflexivity|reflexivity].
  - assert (Hreg : s_reg (SBdd c lbl idx lo hi) = SBdd false lbl idx lo hi) by (destruct c; reflexivity).
    cbn [ser_sdd]. rewrite Hreg. destruct (slookup (SBdd false lbl idx lo hi) (fst st)) as [i|] eqn:El.
    + exists vals. cbn [fst snd]. split; [exact Hu|]. split; [exact Hinv|]. split; [exists []; rewrite app_nil_r; reflexivity|].
      apply (ser_hit (SBdd c lbl idx lo hi) st vals i); [rewrite Hreg; exact El|exact Hinv].
    + destruct (IHlo st vals Hu Hinv) as (v1 & Hu1 & Hi1 & (e1 & He1) & Hv1).
      destruct (ser_sdd lo st) as [l s1]. cbn [fst snd] in *.
      destruct (IHhi s1 v1 Hu1 Hi1) as (v2 & Hu2 & Hi2 & (e2 & He2) & Hv2).
      destruct (ser_sdd hi s1) as [h s2]. cbn [fst snd] in *.
      assert (Hlen : length (snd s2) = length v2).
      { rewrite (eval_xrows_length _ _ _ Hu2). reflexivity. }
      assert (Pl : xptr_val v2 a l = Some (sden lo a)) by (rewrite He2; apply xptr_val_app, Hv1).
      exists (v2 ++ [sden (SBdd false lbl idx lo hi) a]).
      split; [|split; [|split]].
      * rewrite eval_xrows_app, Hu2. cbn [eval_xrows xrow_val xptr_val]. rewrite Hv2, Pl.
        cbn [sden]. rewrite xorb_false_l. destruct (a lbl), (sden hi a), (sden lo a); reflexivity.
      * rewrite Hlen. apply sinv_push; [exact Hi2|exact I|reflexivity].
      * exists (e1 ++ e2 ++ [sden (SBdd false lbl idx lo hi) a]). rewrite He2, He1, <- !app_assoc. reflexivity.
      * cbn [xptr_val]. rewrite Hlen, nth_error_app2 by lia. rewrite Nat.sub_diag. cbn [nth_error].
        f_equal. destruct c; cbn [s_compl sden]; rewrite ?xorb_false_l; reflexivity.
  - rewrite ser_sdd_or. destruct (slookup (SOr false idx els) (fst st)) as [i|] eqn:El.
    + exists vals. cbn [fst snd]. split; [exact Hu|]. split; [exact Hinv|]. split; [exists []; rewrite app_nil_r; reflexivity|].
      assert (Hreg : s_reg (SOr c idx els) = SOr false idx els) by (destruct c; reflexivity).
      replace c with (s_compl (SOr c idx els)) at 1 by (destruct c; reflexivity).
      apply (ser_hit (SOr c idx els) st vals i); [rewrite Hreg; exact El|exact Hinv].
    + destruct (ser_els_ok els IH st vals Hu Hinv) as (v1 & Hu1 & Hi1 & (e1 & He1) & Hv1).
      destruct (ser_els els st) as [o s1]. cbn [fst snd] in *.
      assert (Hlen : length (snd s1) = length v1).
      { rewrite (eval_xrows_length _ _ _ Hu1). reflexivity. }
      exists (v1 ++ [sden (SOr false idx els) a]).
      split; [|split; [|split]].
      * rewrite eval_xrows_app, Hu1. cbn [eval_xrows]. rewrite Hv1. rewrite sden_or, xorb_false_l. reflexivity.
      * rewrite Hlen. apply sinv_push; [exact Hi1|exact I|reflexivity].
      * exists (e1 ++ [sden (SOr false idx els) a]). rewrite He1, <- app_assoc. reflexivity.
      * cbn [xptr_val]. rewrite Hlen, nth_error_app2 by lia. rewrite Nat.sub_diag. cbn [nth_error].
        f_equal. rewrite !sden_or, xorb_false_l. reflexivity.
Qed.
End SddSer.

(* the independent evaluator of the SDD node table computes the SDD's function, for every
   unfolding (no well-formedness needed) *)
Theorem ser_sdd_sem p a :
  eval_xtable (fst (sdd_serialize p)) (snd (sdd_serialize p)) a = Some (sden p a).
Proof.
  unfold sdd_serialize, eval_xtable.
  destruct (ser_sdd_ok a p ([], []) [] eq_refl) as (v & Hu & _ & _ & Hv).
  { intros k i H. discriminate. }
  destruct (ser_sdd p ([], [])) as [r st]. cbn [fst snd] in *. rewrite Hu. exact Hv.
Qed.

Theorem ser_sdd_ordered p : xrows_ordered (fst (sdd_serialize p)) = true.
Proof.
  unfold sdd_serialize, xrows_ordered.
  destruct (ser_sdd_ok (fun _ => false) p ([], []) [] eq_refl) as (v & Hu & _).
  { intros k i H. discriminate. }
  destruct (ser_sdd p ([], [])) as [r st]. cbn [fst snd] in *.
  exact (eval_xrows_ordered _ _ _ _ Hu).
Qed.
