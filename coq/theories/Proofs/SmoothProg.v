(* C08 instantiated for the builder's concrete order, plus the model-count reading of unit weights. *)
From Coq Require Import Bool NArith List Lia Arith Permutation.
Import ListNotations.
From RsddV Require Import Base.Bdd Model.IteStd Model.BddOps Model.BddProg Model.Wmc Proofs.BddCanon
  Proofs.BddIte Proofs.BddOps Proofs.BddProg Proofs.Wmc Proofs.Smooth.

Lemma index_of_nth i o d : In i o -> nth (index_of i o) o d = i /\ index_of i o < length o.
Proof.
  induction o as [|y t IH]; simpl; [contradiction|]. intros H.
  destruct (Nat.eqb_spec i y) as [->|Hne]; [split; auto; lia|].
  destruct H as [->|H]; [congruence|]. destruct (IH H). split; auto; lia.
Qed.

Lemma wf_order_complete o i : wf_order o -> i < length o -> In i o.
Proof.
  intros [ND Hb] Hi.
  assert (INC : incl (seq 0 (length o)) o).
  { apply NoDup_length_incl; auto; [rewrite seq_length; lia|].
    intros x Hx. apply in_seq. specialize (Hb _ Hx). lia. }
  apply INC. apply in_seq. lia.
Qed.

Lemma level_var_at_of o : wf_order o -> forall i, i < length o -> level_of o (var_at o i) = i.
Proof.
  intros WO i Hi. unfold level_of, var_at. rewrite Nat2N.id.
  apply (index_of_nth i o _ (wf_order_complete o i WO Hi)).
Qed.

(* all assignments of the listed variables over a base assignment *)
Fixpoint all_asgs (vars : list var) (x : asg) : list asg :=
  match vars with
  | [] => [x]
  | v :: vs => all_asgs vs (upd x v false) ++ all_asgs vs (upd x v true)
  end.

(* with unit weights over the naturals the specification IS the number of models *)
Lemma wmc_spec_unit_count vars f x :
  wmc_spec N N.add N.mul 0%N 1%N (fun _ => 1%N) (fun _ => 1%N) vars f x
  = N.of_nat (length (filter f (all_asgs vars x))).
Proof.
  revert x; induction vars as [|v vs IH]; intros x; cbn [wmc_spec all_asgs].
  - simpl. destruct (f x); reflexivity.
  - rewrite !IH, filter_app, app_length, Nat2N.inj_add, !N.mul_1_l. reflexivity.
Qed.
