(* C08: smoothing keeps the function and makes every path test levels 0..n-1 exactly once, in
   order; C07 link: ordered diagrams are free. *)
From Coq Require Import Bool NArith List Lia Arith Permutation.
Import ListNotations.
From RsddV Require Import Base.Bdd Model.IteStd Proofs.IteStd Proofs.BddCanon Model.BddOps Proofs.BddIte
  Proofs.BddOps Model.Wmc Proofs.Wmc.

Section Sm.
Variable level : var -> nat.
Hypothesis level_inj : forall u v, level u = level v -> u = v.
Variable L : nat.
Variable var_at_level : nat -> var.
(* the two maps of the order are mutually inverse on the levels in use *)
Hypothesis level_var_at : forall i, i < L -> level (var_at_level i) = i.

Notation WF := (WF level L).
Notation smooth_h := (smooth_h var_at_level).

Lemma var_at_level_of v : level v < L -> var_at_level (level v) = v.
Proof. intros H. apply level_inj. apply level_var_at. exact H. Qed.

Lemma wfb_support_ge k p : wfb level k p -> forall u, In u (support p) -> k <= level u.
Proof.
  revert k; induction p as [| |c v lo IHlo hi IHhi]; simpl; intros k W u Hu; try contradiction.
  destruct W as (Hk & Wl & Wh & _). destruct Hu as [<-|Hu]; auto.
  apply in_app_or in Hu. destruct Hu as [Hu|Hu]; [specialize (IHlo _ Wl u Hu)|specialize (IHhi _ Wh u Hu)]; lia.
Qed.

(* ordered diagrams are free: no path tests a variable twice (C07 applies to every ROBDD) *)
Lemma wfb_free k p : wfb level k p -> free_bdd p.
Proof.
  revert k; induction p as [| |c v lo IHlo hi IHhi]; simpl; intros k W; auto.
  destruct W as (Hk & Wl & Wh & _). repeat split; eauto.
  - intros Hin. pose proof (wfb_support_ge _ _ Wl v Hin). lia.
  - intros Hin. pose proof (wfb_support_ge _ _ Wh v Hin). lia.
Qed.

(* paths of a smoothed diagram: levels cur, cur+1, ..., n-1 each tested exactly once, in order,
   and below them only an ordered diagram on levels >= n *)
Fixpoint smoothed (n cur : nat) (p : bdd) : Prop :=
  match n with
  | O => wfb level cur p /\ bounded level L p
  | S n' => match p with
            | BN _ v lo hi => v = var_at_level cur /\ smoothed n' (S cur) lo /\ smoothed n' (S cur) hi
            | _ => False
            end
  end.

Lemma den_mk_node v lo hi x : den (mk_node v lo hi) x = if x v then den hi x else den lo x.
Proof.
  unfold mk_node. destruct (is_neg hi || is_false hi); simpl; rewrite ?den_neg;
    destruct (x v), (den hi x), (den lo x); reflexivity.
Qed.

Lemma smoothed_mk_node n cur v lo hi :
  v = var_at_level cur -> smoothed n (S cur) lo -> smoothed n (S cur) hi -> smoothed (S n) cur (mk_node v lo hi).
Proof.
  assert (SN : forall m c q, smoothed m c q -> smoothed m c (neg q)).
  { induction m as [|m IHm]; intros c q; simpl.
    - intros [W B]. split; [apply wfb_neg|apply bounded_neg]; auto.
    - destruct q as [| |cc u l h]; simpl; auto. }
  intros -> Sl Sh. unfold mk_node. destruct (is_neg hi || is_false hi); simpl; auto.
Qed.

Lemma smoothed_neg n cur p : smoothed n cur p -> smoothed n cur (neg p).
Proof.
  revert cur p; induction n as [|n IH]; intros cur p; simpl.
  - intros [W B]. split; [apply wfb_neg|apply bounded_neg]; auto.
  - destruct p as [| |c u l h]; simpl; auto.
Qed.

(* THE THEOREM (C08): for a well-formed ROBDD whose nodes are all at level >= cur, smoothing the
   next n levels keeps the function and yields a diagram whose every path tests the variables at
   levels cur .. cur+n-1 exactly once each, in order, before anything at a level >= cur+n. *)
Theorem smooth_h_correct : forall n p cur,
  WF cur p -> cur + n <= L ->
  smoothed n cur (smooth_h n p cur) /\ forall x, den (smooth_h n p cur) x = den p x.
Proof.
  induction n as [|n IH]; intros p cur W Hb.
  - simpl. destruct W as [W B]. repeat split; auto.
  - cbn [BddOps.smooth_h].
    assert (Hcur : cur < L) by lia.
    destruct p as [| |c v lo hi].
    + destruct (IH BT (S cur) (WF_BT level L _) ltac:(lia)) as [S1 D1].
      split; [apply smoothed_mk_node; auto|]. intros x. rewrite den_mk_node, D1. destruct (x _); reflexivity.
    + destruct (IH BF (S cur) (WF_BF level L _) ltac:(lia)) as [S1 D1].
      split; [apply smoothed_mk_node; auto|]. intros x. rewrite den_mk_node, D1. destruct (x _); reflexivity.
    + destruct (WF_node_inv level L _ _ _ _ _ W) as (Hk & HL & Wlo & Whi & Hne & Hreg & HnF).
      destruct (N.eqb_spec v (var_at_level cur)) as [E|NE].
      * assert (Hlv : level v = cur) by (rewrite E; apply level_var_at; exact Hcur).
        rewrite Hlv in Wlo, Whi.
        destruct (IH lo (S cur) Wlo ltac:(lia)) as [Sl Dl]. destruct (IH hi (S cur) Whi ltac:(lia)) as [Sh Dh].
        assert (SM : smoothed (S n) cur (mk_node v (smooth_h n lo (S cur)) (smooth_h n hi (S cur))))
          by (apply smoothed_mk_node; auto).
        split.
        -- destruct c; [apply smoothed_neg|]; exact SM.
        -- intros x. destruct c; rewrite ?den_neg, den_mk_node, Dl, Dh; simpl; destruct (x v), (den hi x), (den lo x); reflexivity.
      * assert (Hlv : S cur <= level v).
        { destruct (Nat.eq_dec (level v) cur) as [E|E]; [|lia]. exfalso. apply NE.
          rewrite <- E. symmetry. apply var_at_level_of. exact HL. }
        assert (Wr : WF (S cur) (BN false v lo hi)).
        { destruct W as [W B]. split; simpl in *; intuition. }
        destruct (IH (BN false v lo hi) (S cur) Wr ltac:(lia)) as [S1 D1].
        assert (SM : smoothed (S n) cur (mk_node (var_at_level cur) (smooth_h n (BN false v lo hi) (S cur)) (smooth_h n (BN false v lo hi) (S cur))))
          by (apply smoothed_mk_node; auto).
        split.
        -- destruct c; [apply smoothed_neg|]; exact SM.
        -- intros x. destruct c; rewrite ?den_neg, den_mk_node, D1; simpl; destruct (x (var_at_level cur)), (x v), (den hi x), (den lo x); reflexivity.
Qed.

(* the variables at levels cur .. cur+n-1 *)
Fixpoint level_vars (n cur : nat) : list var :=
  match n with O => [] | S n' => var_at_level cur :: level_vars n' (S cur) end.

Lemma wfb_beyond q k : wfb level k q -> bounded level L q -> k >= L -> q = BT \/ q = BF.
Proof. destruct q; simpl; auto. intros (Hk & _) (Hb & _) Hge. lia. Qed.

Lemma smoothed_complete n : forall cur p, smoothed n cur p -> cur + n >= L -> complete (level_vars n cur) p.
Proof.
  induction n as [|n IH]; intros cur p Sm Hn; simpl in *.
  - destruct Sm as [W B]. destruct (wfb_beyond p cur W B ltac:(lia)) as [-> | ->]; exact I.
  - destruct p as [| |c v lo hi]; try contradiction. destruct Sm as (-> & Sl & Sh).
    split; auto. split; apply IH; auto; lia.
Qed.

Lemma level_vars_NoDup n : forall cur, cur + n <= L -> NoDup (level_vars n cur).
Proof.
  induction n as [|n IH]; intros cur Hb; simpl; constructor; [|apply IH; lia].
  assert (G : forall m c, c + m <= L -> forall u, In u (level_vars m c) -> c <= level u).
  { induction m as [|m IHm]; intros c Hc u Hu; simpl in Hu; [contradiction|].
    destruct Hu as [<-|Hu]; [rewrite level_var_at; lia|]. specialize (IHm (S c) ltac:(lia) u Hu). lia. }
  intros Hin. specialize (G n (S cur) ltac:(lia) _ Hin). rewrite level_var_at in G; lia.
Qed.

(* smoothing over ALL levels gives a complete diagram: counting is then exact for ARBITRARY
   (non-normalised) weights *)
Theorem smooth_all_complete p : WF 0 p -> complete (level_vars L 0) (smooth_m var_at_level p L).
Proof.
  intros W. destruct (smooth_h_correct L p 0 W ltac:(lia)) as [Sm _].
  apply (smoothed_complete L 0 _ Sm). lia.
Qed.
End Sm.

Section Count.
Variable level : var -> nat.
Hypothesis level_inj : forall u v, level u = level v -> u = v.
Variable L : nat.
Variable var_at_level : nat -> var.
Hypothesis level_var_at : forall i, i < L -> level (var_at_level i) = i.
Variable S : Type.
Variable add mul : S -> S -> S.
Variable zero one : S.
Variable wlo whi : var -> S.

(* C08: the weighted count of the smoothed diagram is the brute-force weighted sum over the
   models of the ORIGINAL diagram, for arbitrary weights (no semiring law is even needed) *)
Theorem smooth_wmc_exact p x : WF level L 0 p ->
  wmc_m S add mul zero one wlo whi (smooth_m var_at_level p L) =
  wmc_spec S add mul zero one wlo whi (level_vars var_at_level L 0) (den p) x.
Proof.
  intros W. unfold wmc_m.
  rewrite (wmc_complete_correct S add mul zero one wlo whi (level_vars var_at_level L 0) _ false x).
  - apply wmc_spec_local. intros a _. simpl.
    destruct (smooth_h_correct level level_inj L var_at_level level_var_at L p 0 W ltac:(lia)) as [_ D].
    unfold smooth_m. rewrite D. destruct (den p a); reflexivity.
  - apply (level_vars_NoDup level L var_at_level level_var_at). lia.
  - apply (smooth_all_complete level level_inj L var_at_level level_var_at). exact W.
Qed.
End Count.
