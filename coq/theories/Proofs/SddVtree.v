(* Facts about the vtree model: sub-vtree occurrences with their in-order offset, index ranges,
   var_index, node_at, lca. *)
From Coq Require Import Bool NArith List Lia Arith.
Import ListNotations.
From RsddV Require Import Base.Bdd Model.SddVtree.

(* [occurs t toff u off]: u is a sub-vtree of t; toff / off are the in-order indices of the first
   nodes of t / u *)
Fixpoint occurs (t : vtree) (toff : nat) (u : vtree) (off : nat) : Prop :=
  (t = u /\ toff = off) \/
  match t with
  | VLeaf _ => False
  | VNode l r => occurs l toff u off \/ occurs r (S (toff + vsize l)) u off
  end.

Lemma occurs_refl t off : occurs t off t off.
Proof. destruct t; simpl; auto. Qed.

Lemma vsize_pos t : 1 <= vsize t.
Proof. destruct t; simpl; lia. Qed.

Lemma occurs_range t : forall toff u off, occurs t toff u off -> toff <= off /\ off + vsize u <= toff + vsize t.
Proof.
  induction t as [v|l IHl r IHr]; intros toff u off H; simpl in H.
  - destruct H as [[<- <-]|[]]. lia.
  - destruct H as [[<- <-]|[H|H]]; [lia| |].
    + apply IHl in H. simpl. lia.
    + apply IHr in H. simpl. lia.
Qed.

Lemma occurs_trans t : forall toff u off w woff, occurs t toff u off -> occurs u off w woff -> occurs t toff w woff.
Proof.
  induction t as [v|l IHl r IHr]; intros toff u off w woff H1 H2; simpl in H1.
  - destruct H1 as [[<- <-]|[]]. exact H2.
  - destruct H1 as [[<- <-]|[H|H]]; [exact H2| |]; simpl; right.
    + left. eapply IHl; eauto.
    + right. eapply IHr; eauto.
Qed.

Lemma occurs_left t toff l r off : occurs t toff (VNode l r) off -> occurs t toff l off.
Proof. intros H. eapply occurs_trans; [exact H|]. simpl. right. left. apply occurs_refl. Qed.
Lemma occurs_right t toff l r off : occurs t toff (VNode l r) off -> occurs t toff r (S (off + vsize l)).
Proof. intros H. eapply occurs_trans; [exact H|]. simpl. right. right. apply occurs_refl. Qed.

Lemma occurs_height t : forall toff u off, occurs t toff u off -> vheight u <= vheight t.
Proof.
  induction t as [v|l IHl r IHr]; intros toff u off H; simpl in H.
  - destruct H as [[<- <-]|[]]. lia.
  - destruct H as [[<- <-]|[H|H]]; [lia| |].
    + apply IHl in H. simpl. lia.
    + apply IHr in H. simpl. lia.
Qed.

Lemma occurs_leaves t : forall toff u off, occurs t toff u off -> incl (vleaves u) (vleaves t).
Proof.
  induction t as [v|l IHl r IHr]; intros toff u off H; simpl in H.
  - destruct H as [[<- <-]|[]]. apply incl_refl.
  - destruct H as [[<- <-]|[H|H]]; [apply incl_refl| |]; simpl.
    + apply incl_appl. eapply IHl; eauto.
    + apply incl_appr. eapply IHr; eauto.
Qed.

Lemma NoDup_app_split {A} (l1 l2 : list A) :
  NoDup (l1 ++ l2) -> NoDup l1 /\ NoDup l2 /\ (forall x, In x l1 -> In x l2 -> False).
Proof.
  induction l1 as [|y ys IH]; simpl; intros H.
  - repeat split; auto. constructor.
  - inversion H as [|? ? Hn ND]; subst. destruct (IH ND) as (H1 & H2 & H3). repeat split; auto.
    + constructor; auto. intros Hy. apply Hn. apply in_or_app. auto.
    + intros x [->|Hx] Hx2; [apply Hn; apply in_or_app; auto | eauto].
Qed.

(* ---- var_index ---- *)
Lemma var_index_from_range t : forall off v i, var_index_from t off v = Some i -> off <= i < off + vsize t.
Proof.
  induction t as [x|l IHl r IHr]; intros off v i H; simpl in *.
  - destruct (N.eqb x v); [injection H as <-; lia | discriminate].
  - destruct (var_index_from l off v) eqn:E.
    + injection H as <-. apply IHl in E. lia.
    + apply IHr in H. lia.
Qed.

Lemma var_index_from_in t : forall off v, In v (vleaves t) <-> exists i, var_index_from t off v = Some i.
Proof.
  induction t as [x|l IHl r IHr]; intros off v; simpl.
  - destruct (N.eqb x v) eqn:E.
    + apply N.eqb_eq in E. split; eauto.
    + apply N.eqb_neq in E. split; [intros [H|[]]; contradiction | intros [i H]; discriminate].
  - rewrite in_app_iff. split.
    + intros [H|H].
      * apply (IHl off) in H. destruct H as [i H]. rewrite H. eauto.
      * destruct (var_index_from l off v); eauto. apply (IHr (off + vsize l + 1)) in H. exact H.
    + destruct (var_index_from l off v) eqn:E.
      * intros _. left. apply (IHl off). eauto.
      * intros H. right. apply (IHr (off + vsize l + 1)). exact H.
Qed.

Lemma var_index_from_occurs t : forall toff u off v,
  NoDup (vleaves t) -> occurs t toff u off -> In v (vleaves u) ->
  var_index_from t toff v = var_index_from u off v.
Proof.
  induction t as [x|l IHl r IHr]; intros toff u off v ND H Hin; simpl in H.
  - destruct H as [[<- <-]|[]]. reflexivity.
  - destruct H as [[<- <-]|[H|H]]; [reflexivity| |]; simpl in ND; simpl.
    + destruct (NoDup_app_split _ _ ND) as (NDl & NDr & Hd).
      rewrite (IHl toff u off v NDl H Hin).
      apply (var_index_from_in u off v) in Hin. destruct Hin as [i ->]. reflexivity.
    + destruct (NoDup_app_split _ _ ND) as (NDl & NDr & Hd).
      assert (Hr : In v (vleaves r)) by (eapply occurs_leaves; eauto).
      destruct (var_index_from l toff v) eqn:E.
      * exfalso. apply (Hd v); auto. apply (var_index_from_in l toff v). eauto.
      * replace (toff + vsize l + 1) with (S (toff + vsize l)) by lia.
        apply IHr; auto.
Qed.

Lemma var_index_under t u off v :
  NoDup (vleaves t) -> occurs t 0 u off -> In v (vleaves u) -> off <= var_index t v < off + vsize u.
Proof.
  intros ND H Hin. unfold var_index. rewrite (var_index_from_occurs t 0 u off v ND H Hin).
  destruct (proj1 (var_index_from_in u off v) Hin) as [i E]. rewrite E.
  apply (var_index_from_range u off v i E).
Qed.

(* ---- node_at ---- *)
Lemma node_at_from_occurs t : forall toff l r off,
  occurs t toff (VNode l r) off -> node_at_from t toff (off + vsize l) = Some (VNode l r).
Proof.
  induction t as [x|tl IHl tr IHr]; intros toff l r off H; simpl in H.
  - destruct H as [[[=] _]|[]].
  - destruct H as [[[= <- <-] <-]|[H|H]]; simpl.
    + rewrite Nat.eqb_refl. reflexivity.
    + pose proof (occurs_range _ _ _ _ H) as R. simpl in R.
      pose proof (vsize_pos r).
      destruct (Nat.eqb_spec (off + vsize l) (toff + vsize tl)); [lia|].
      destruct (Nat.ltb_spec (off + vsize l) (toff + vsize tl)); [|lia].
      apply IHl; auto.
    + pose proof (occurs_range _ _ _ _ H) as R. simpl in R.
      destruct (Nat.eqb_spec (off + vsize l) (toff + vsize tl)); [lia|].
      destruct (Nat.ltb_spec (off + vsize l) (toff + vsize tl)); [lia|].
      apply IHr; auto.
Qed.

(* ---- lca ---- *)
Lemma lca_from_occurs t : forall toff l r off i j,
  occurs t toff (VNode l r) off ->
  off <= i < off + vsize (VNode l r) -> off <= j < off + vsize (VNode l r) ->
  ~ (i < off + vsize l /\ j < off + vsize l) -> ~ (off + vsize l < i /\ off + vsize l < j) ->
  lca_from t toff i j = off + vsize l.
Proof.
  induction t as [x|tl IHl tr IHr]; intros toff l r off i j H Hi Hj N1 N2; simpl in H;
  assert (Hi' := Hi); assert (Hj' := Hj); simpl in Hi', Hj'.
  - destruct H as [[[=] _]|[]].
  - destruct H as [[[= <- <-] <-]|[H|H]]; simpl.
    + destruct (Nat.ltb_spec i (toff + vsize tl)), (Nat.ltb_spec j (toff + vsize tl)); simpl; try lia;
      destruct (Nat.ltb_spec (toff + vsize tl) i), (Nat.ltb_spec (toff + vsize tl) j); simpl; lia.
    + pose proof (occurs_range _ _ _ _ H) as R; simpl in R.
      destruct (Nat.ltb_spec i (toff + vsize tl)); [|lia].
      destruct (Nat.ltb_spec j (toff + vsize tl)); [|lia]. simpl.
      apply (IHl toff l r off i j); auto.
    + pose proof (occurs_range _ _ _ _ H) as R; simpl in R.
      destruct (Nat.ltb_spec i (toff + vsize tl)); [lia|].
      destruct (Nat.ltb_spec j (toff + vsize tl)); [lia|]. simpl.
      destruct (Nat.ltb_spec (toff + vsize tl) i); [|lia].
      destruct (Nat.ltb_spec (toff + vsize tl) j); [|lia]. simpl.
      apply (IHr _ l r off i j); auto.
Qed.

Lemma occurs_nodup t : forall toff u off, NoDup (vleaves t) -> occurs t toff u off -> NoDup (vleaves u).
Proof.
  induction t as [x|tl IHl tr IHr]; intros toff u off ND Ho; simpl in Ho.
  - destruct Ho as [[<- _]|[]]. exact ND.
  - destruct Ho as [[<- _]|[Ho|Ho]]; auto; simpl in ND; destruct (NoDup_app_split _ _ ND) as (A & B & _); eauto.
Qed.
