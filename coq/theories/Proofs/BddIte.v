(* C01/C02/C16: correctness of the ROBDD builder's if-then-else on the tree layer, for every
   order (injective level map), every cache state and every forgetting stream. *)
From Coq Require Import Bool NArith List Lia Arith.
Import ListNotations.
From RsddV Require Import Base.Bdd Model.IteStd Proofs.IteStd Proofs.BddCanon Model.BddOps.

Section I.
Variable level : var -> nat.
Hypothesis level_inj : forall u v, level u = level v -> u = v.
Variable L : nat.  (* number of levels *)
Variable remember : nat -> bool.

Notation ord := (ord level).
Notation first := (first level).
Notation first_essential := (first_essential level).
Notation ite_m := (ite_m level remember).
Notation cget := (cget remember).

(* all variables of the diagram are in the order *)
Fixpoint bounded (p : bdd) : Prop :=
  match p with BT | BF => True | BN _ v l h => level v < L /\ bounded l /\ bounded h end.
Definition WF k p := wfb level k p /\ bounded p.

(* ---------- semantics of the pieces ---------- *)
Definition sound_entry (e : key * bdd) : Prop :=
  let '((a, b, c), r) := e in
  WF 0 r /\ forall x, den r x = ite_ (den a x) (den b x) (den c x).
Definition csound (s : cst) : Prop := Forall sound_entry (entries s).

Lemma WF_weaken k k' p : k' <= k -> WF k p -> WF k' p.
Proof. intros H [W B]; split; auto. eapply wfb_weaken; eauto. Qed.
Lemma bounded_neg p : bounded p -> bounded (neg p).
Proof. destruct p; simpl; auto. Qed.
Lemma WF_neg k p : WF k p -> WF k (neg p).
Proof. intros [W B]; split; [apply wfb_neg|apply bounded_neg]; auto. Qed.

Lemma key_eqb_eq x y : key_eqb x y = true -> x = y.
Proof.
  destruct x as [[a b] c], y as [[a' b'] c']; simpl. rewrite !andb_true_iff.
  intros [[H1 H2] H3]. apply bdd_eqb_eq in H1, H2, H3. congruence.
Qed.

Lemma cget_sound s k o s' : csound s -> cget s k = (o, s') ->
  csound s' /\ match o with Some r => sound_entry (k, r) | None => True end.
Proof.
  unfold cget, csound. intros CS G.
  destruct (remember (tick s)).
  - destruct (find _ (entries s)) as [[k' r]|] eqn:F; injection G as <- <-; simpl; split; auto.
    apply find_some in F. destruct F as [Hin Hk]. simpl in Hk. apply key_eqb_eq in Hk. subst k'.
    rewrite Forall_forall in CS. apply (CS _ Hin).
  - injection G as <- <-. simpl. auto.
Qed.

(* cofactor lemma: lbl at level m, f wf at level m *)
Lemma cond_ess_spec f lbl b :
  WF (level lbl) f ->
  WF (S (level lbl)) (cond_ess f lbl b) /\ forall x, den (cond_ess f lbl b) x = den f (upd x lbl b).
Proof.
  intros [W B]. destruct f as [| |c v l h]; simpl.
  - split; [split; simpl; auto|reflexivity].
  - split; [split; simpl; auto|reflexivity].
  - simpl in W, B. destruct W as (Hk & Wl & Wh & Hne & Hreg & HnF). destruct B as (Bv & Bl & Bh).
    destruct (N.eqb_spec v lbl) as [->|Hne'].
    + assert (Hl : forall x, den l (upd x lbl b) = den l x) by (intros; eapply den_upd_low; eauto).
      assert (Hh : forall x, den h (upd x lbl b) = den h x) by (intros; eapply den_upd_low; eauto).
      split.
      * destruct b, c; try apply WF_neg; split; auto.
      * intros x. rewrite upd_same. destruct b, c; rewrite ?den_neg, ?Hl, ?Hh; simpl; try reflexivity.
        all: try (destruct (den h x); reflexivity); try (destruct (den l x); reflexivity).
    + assert (level lbl < level v).
      { destruct (Nat.eq_dec (level lbl) (level v)) as [E|E]; [apply level_inj in E; congruence | lia]. }
      split.
      * split; simpl; auto. repeat split; auto; lia.
      * intros x. unfold upd at 1. destruct (N.eqb_spec v lbl); [congruence|].
        assert (Wl' : wfb level (S (level lbl)) l) by (eapply wfb_weaken; [|exact Wl]; lia).
        assert (Wh' : wfb level (S (level lbl)) h) by (eapply wfb_weaken; [|exact Wh]; lia).
        rewrite (den_upd_low level _ _ _ _ _ Wl'), (den_upd_low level _ _ _ _ _ Wh'); auto.
Qed.

Lemma mk_node_spec v lo hi :
  WF (S (level v)) lo -> WF (S (level v)) hi -> lo <> hi -> level v < L ->
  WF (level v) (mk_node v lo hi) /\ forall x, den (mk_node v lo hi) x = if x v then den hi x else den lo x.
Proof.
  intros [Wl Bl] [Wh Bh] Hne Hv. unfold mk_node.
  destruct (is_neg hi || is_false hi) eqn:E.
  - split.
    + split; simpl; auto using bounded_neg.
      repeat split; auto using wfb_neg.
      * intros H. apply Hne. destruct lo as [| |[] ? ? ?], hi as [| |[] ? ? ?]; simpl in H; congruence.
      * destruct hi as [| |[] ? ? ?]; simpl in *; auto; discriminate.
      * destruct hi as [| |[] ? ? ?]; simpl in *; try discriminate; congruence.
    + intros x. simpl. rewrite !den_neg. destruct (x v), (den hi x), (den lo x); reflexivity.
  - apply orb_false_iff in E. destruct E as [E1 E2]. split.
    + split; simpl; auto. repeat split; auto. destruct hi; simpl in *; congruence.
    + intros x. simpl. destruct (if x v then den hi x else den lo x); reflexivity.
Qed.

(* ---------- auxiliary facts ---------- *)
Lemma den_ext p a a' : (forall u, a u = a' u) -> den p a = den p a'.
Proof.
  intros E. induction p as [| |c v l IHl h IHh]; simpl; auto. rewrite E, IHl, IHh. reflexivity.
Qed.
Lemma den_upd_id p x v : den p (upd x v (x v)) = den p x.
Proof. apply den_ext. intros u. unfold upd. destruct (N.eqb_spec u v); subst; reflexivity. Qed.

Lemma WF_raise k m p : WF k p -> (forall v, top p = Some v -> m <= level v) -> WF m p.
Proof.
  intros [W B] H. split; auto. destruct p as [| |c v l h]; simpl in *; auto.
  destruct W as (Hk & W'). split; auto.
Qed.

(* a wf node's function depends on its top variable *)
Lemma node_depends c v l h k :
  wfb level k (BN c v l h) ->
  ~ (forall a, den (BN c v l h) (upd a v true) = den (BN c v l h) (upd a v false)).
Proof.
  intros W Hc. pose proof W as W'. simpl in W'. destruct W' as (_ & Wl & Wh & Hne & _).
  apply Hne. apply (bdd_canonical level level_inj l h (S (level v))); auto. intros a.
  destruct (node_cofactors level c v l h k a W) as [H1 H0]. specialize (Hc a). rewrite H1, H0 in Hc.
  destruct c, (den l a), (den h a); simpl in Hc; congruence.
Qed.

Lemma WF_support k r :
  WF 0 r -> (forall x v b, level v < k -> den r (upd x v b) = den r x) -> WF k r.
Proof.
  intros [W B] Hind. split; auto. destruct r as [| |c v l h]; simpl; auto.
  pose proof W as W'. simpl in W'. destruct W' as (_ & Wl & Wh & Hne & Hreg & HnF).
  repeat split; auto.
  destruct (le_lt_dec k (level v)) as [|Hlt]; auto. exfalso.
  apply (node_depends c v l h 0 W). intros a. rewrite !Hind; auto.
Qed.

Lemma WF_indep k p x v b : WF k p -> level v < k -> den p (upd x v b) = den p x.
Proof. intros [W _] H. eapply den_upd_low; eauto. Qed.

Lemma ite_new_nonconst_top f g h :
  (forall r, ite_new ord f g h <> IteConst r) -> exists v, top f = Some v.
Proof.
  intros H. destruct f as [| |c v l hh]; [| |simpl; eauto]; exfalso.
  - unfold ite_new, intro_consts in H.
    destruct (bdd_eqb BT h); [eapply H; reflexivity|].
    destruct (bdd_eqb BT (neg h)); [eapply H; reflexivity|].
    destruct (bdd_eqb BT (neg g)); eapply H; reflexivity.
  - unfold ite_new, intro_consts in H.
    destruct (bdd_eqb BF h); [eapply H; reflexivity|].
    destruct (bdd_eqb BF (neg h)); [eapply H; reflexivity|].
    destruct (bdd_eqb BF (neg g)); eapply H; reflexivity.
Qed.

Lemma first_cases a b : first a b = a \/ first a b = b.
Proof. unfold first. destruct (top a), (top b); auto. destruct (Nat.ltb _ _); auto. Qed.
Lemma first_min a b v : top (first a b) = Some v ->
  (forall u, top a = Some u -> level v <= level u) /\ (forall u, top b = Some u -> level v <= level u).
Proof.
  unfold first. destruct (top a) as [va|] eqn:Ta, (top b) as [vb|] eqn:Tb.
  - destruct (Nat.ltb_spec (level va) (level vb)) as [Hlt|Hge]; intros H; rewrite ?Ta, ?Tb in H; injection H as <-;
      split; intros u [= <-]; lia.
  - intros H; rewrite ?Ta, ?Tb in H. injection H as <-. split; intros u E; [injection E as <-; lia|discriminate].
  - intros H; rewrite ?Ta, ?Tb in H. injection H as <-. split; intros u E; [discriminate|injection E as <-; lia].
  - intros H; rewrite ?Ta, ?Tb in H. discriminate.
Qed.
Lemma first_top_some a b v : top a = Some v -> exists w, top (first a b) = Some w.
Proof.
  unfold first. intros Ea. rewrite Ea. destruct (top b) as [vb|] eqn:Eb.
  - destruct (Nat.ltb _ _); rewrite ?Ea, ?Eb; eauto.
  - rewrite Ea; eauto.
Qed.
Lemma first_top_some_r a b v : top b = Some v -> exists w, top (first a b) = Some w.
Proof.
  unfold first. intros Eb. rewrite Eb. destruct (top a) as [va|] eqn:Ea.
  - destruct (Nat.ltb _ _); rewrite ?Ea, ?Eb; eauto.
  - rewrite Eb; eauto.
Qed.

Lemma first_essential_min f g h lbl : first_essential f g h = Some lbl ->
  forall p u, (p = f \/ p = g \/ p = h) -> top p = Some u -> level lbl <= level u.
Proof.
  unfold first_essential. intros H p u Hp Tp.
  destruct (first_min _ _ _ H) as [H1 H2].
  destruct Hp as [->|[->| ->]]; [| |apply H2; auto].
  - destruct (first_top_some f g u Tp) as [w Tw]. specialize (H1 w Tw).
    destruct (first_min _ _ _ Tw) as [H3 _]. specialize (H3 u Tp). lia.
  - destruct (first_top_some_r f g u Tp) as [w Tw]. specialize (H1 w Tw).
    destruct (first_min _ _ _ Tw) as [_ H3]. specialize (H3 u Tp). lia.
Qed.
Lemma first_essential_in f g h lbl : first_essential f g h = Some lbl ->
  exists p, (p = f \/ p = g \/ p = h) /\ top p = Some lbl.
Proof.
  unfold first_essential. intros H.
  destruct (first_cases (first f g) h) as [E|E]; rewrite E in H.
  - destruct (first_cases f g) as [E'|E']; rewrite E' in H; eauto.
  - eauto.
Qed.

Lemma top_WF_level k p v : WF k p -> top p = Some v -> k <= level v /\ level v < L.
Proof. intros [W B]. destruct p; simpl; try discriminate. intros [= <-]. simpl in W, B. intuition. Qed.

Lemma ite_new_const_cases f g h r : ite_new ord f g h = IteConst r ->
  r = f \/ r = g \/ r = h \/ r = neg f \/ r = BT \/ r = BF.
Proof.
  unfold ite_new, intro_consts, terminal, reorder, std_neg. intros T.
  repeat (cbv beta iota zeta in T;
          match type of T with context [if ?c then _ else _] => destruct c end).
  all: cbv beta iota zeta in T; try discriminate; injection T as <-; auto 10.
Qed.

(* ---------- main theorem ---------- *)
Theorem ite_m_correct : forall fuel k s f g h,
  WF k f -> WF k g -> WF k h -> csound s -> L - k < fuel ->
  exists r s', ite_m fuel s f g h = Some (r, s') /\ WF k r /\
    (forall x, den r x = ite_ (den f x) (den g x) (den h x)) /\ csound s'.
Proof.
  induction fuel as [|fuel IH]; intros k s f g h Wf Wg Wh CS Hf; [lia|].
  assert (INDEP : forall x v b, level v < k ->
            ite_ (den f (upd x v b)) (den g (upd x v b)) (den h (upd x v b)) = ite_ (den f x) (den g x) (den h x)).
  { intros. rewrite !(WF_indep k); auto. }
  pose proof (ite_std_sound ord f g h) as STD.
  simpl. destruct (ite_new ord f g h) as [a b c|a b c|r] eqn:T.
  3:{ (* IteConst *)
    exists r, s. split; [reflexivity|]. split; [|split; [intros x; apply (STD x)|assumption]].
    (* r is wf at k: r is one of f,g,h, neg f, BT, BF; use the semantic argument *)
    assert (W0 : WF 0 r).
    { assert (Wnf := WF_neg _ _ Wf).
      assert (WT : WF k BT) by (split; simpl; auto). assert (WFF : WF k BF) by (split; simpl; auto).
      apply (WF_weaken k 0); [lia|].
      destruct (ite_new_const_cases _ _ _ _ T) as [->|[->|[->|[->|[->| ->]]]]]; auto. }
    simpl in STD. apply WF_support; auto. intros x v bb Hv. rewrite !STD. apply INDEP; auto. }
  all: destruct (cget s (a, b, c)) as [o s1] eqn:G;
       destruct (cget_sound _ _ _ _ CS G) as [CS1 Ho].
  all: assert (NC : forall r, ite_new ord f g h <> IteConst r) by (intros r; rewrite T; discriminate).
  all: destruct (ite_new_nonconst_top f g h NC) as [vf Tf].
  all: destruct (first_top_some f g vf Tf) as [w1 Tw1];
       destruct (first_top_some (first f g) h w1 Tw1) as [lbl Tl]; fold (first_essential f g h) in Tl.
  all: pose proof (first_essential_min _ _ _ _ Tl) as MIN.
  all: destruct (first_essential_in _ _ _ _ Tl) as (p0 & Hp0 & Tp0).
  all: assert (LV : k <= level lbl /\ level lbl < L)
         by (destruct Hp0 as [->|[->| ->]]; (eapply top_WF_level; [|exact Tp0]; assumption)).
  all: assert (Wf' : WF (level lbl) f) by (eapply WF_raise; eauto).
  all: assert (Wg' : WF (level lbl) g) by (eapply WF_raise; eauto).
  all: assert (Wh' : WF (level lbl) h) by (eapply WF_raise; eauto).
  all: destruct (cond_ess_spec f lbl true Wf') as [Wft Dft], (cond_ess_spec f lbl false Wf') as [Wfe Dfe],
                (cond_ess_spec g lbl true Wg') as [Wgt Dgt], (cond_ess_spec g lbl false Wg') as [Wge Dge],
                (cond_ess_spec h lbl true Wh') as [Wht Dht], (cond_ess_spec h lbl false Wh') as [Whe Dhe].
  all: destruct o as [r|].
  (* cache hits *)
  1,3: destruct Ho as [W0 Dr].
  1:{ match type of W0 with WF 0 ?r => exists r, s1 end. split; [reflexivity|]. split; [|split; auto].
      - apply WF_support; auto. intros x v bb Hv. rewrite !Dr. specialize (STD (upd x v bb)) as S1. specialize (STD x) as S2.
        simpl in S1, S2. rewrite S1, S2. apply INDEP; auto.
      - intros x. rewrite Dr. apply (STD x). }
  1:{ match type of W0 with WF 0 ?r => exists (neg r), s1 end. split; [reflexivity|]. split; [|split; auto].
      - apply WF_support; [apply WF_neg; auto|]. intros x v bb Hv. rewrite !den_neg, !Dr.
        specialize (STD (upd x v bb)) as S1. specialize (STD x) as S2. simpl in S1, S2. rewrite S1, S2. apply INDEP; auto.
      - intros x. rewrite den_neg, Dr. apply (STD x). }
  (* misses *)
  all: rewrite Tl.
  all: assert (FU : L - S (level lbl) < fuel) by lia.
  all: destruct (IH (S (level lbl)) s1 (cond_ess f lbl true) (cond_ess g lbl true) (cond_ess h lbl true) Wft Wgt Wht CS1 FU) as (r1 & s2 & E2 & Wrt & Drt & CS2); rewrite E2.
  all: destruct (IH (S (level lbl)) s2 (cond_ess f lbl false) (cond_ess g lbl false) (cond_ess h lbl false) Wfe Wge Whe CS2 FU) as (r0 & s3 & E3 & Wre & Dre & CS3); rewrite E3.
  all: assert (SH : forall x : asg, (if x lbl then den r1 x else den r0 x) = ite_ (den f x) (den g x) (den h x)).
  1,3: intros x; rewrite Drt, Dre, Dft, Dgt, Dht, Dfe, Dge, Dhe;
       destruct (x lbl) eqn:Ex; rewrite <- Ex, !den_upd_id; reflexivity.
  all: destruct (bdd_eqb r1 r0) eqn:EQ.
  1,3: apply bdd_eqb_eq in EQ; subst r0; exists r1, s3; split; [reflexivity|]; split;
       [eapply WF_weaken; [|exact Wrt]; lia | split; auto; intros x; rewrite <- SH; destruct (x lbl); reflexivity].
  all: assert (NE : r0 <> r1) by (intros ->; rewrite (proj2 (bdd_eqb_eq r1 r1) eq_refl) in EQ; discriminate).
  all: destruct (mk_node_spec lbl r0 r1 Wre Wrt NE (proj2 LV)) as [Wn Dn].
  all: eexists; eexists; split; [reflexivity|]; split; [eapply WF_weaken; [|exact Wn]; lia|]; split;
       [intros x; rewrite Dn; apply SH|].
  all: constructor; auto; simpl; split; [try apply WF_neg; eapply WF_weaken; [|exact Wn]; lia|].
  - intros x. rewrite Dn, SH. specialize (STD x). simpl in STD. congruence.
  - intros x. rewrite den_neg, Dn, SH. specialize (STD x). simpl in STD. rewrite <- STD. destruct (ite_ _ _ _); reflexivity.
Qed.
End I.
