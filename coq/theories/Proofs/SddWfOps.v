(* C04: the compressing builder only produces pointers in local normal form [nf]:
   unique_bdd, unique_or, compress (distinct subs), canonicalize. *)
From Coq Require Import Bool NArith List Lia Arith Permutation.
Import ListNotations.
From RsddV Require Import Base.Bdd Base.Util Model.SddVtree Model.SddOps Proofs.SddBase.
From RsddV Require Import Proofs.SddCmp Proofs.SddVtree Proofs.SddInv Proofs.SddLoops Proofs.SddNode Proofs.SddWf.

Lemma sneg_inj p q : sneg p = sneg q -> p = q.
Proof. intros H. rewrite <- (sneg_invol p), <- (sneg_invol q), H. reflexivity. Qed.

Lemma NoDup_map_sneg l : NoDup l -> NoDup (map sneg l).
Proof.
  induction 1 as [|x l Hn _ IH]; simpl; constructor; auto.
  intros Hin. apply in_map_iff in Hin. destruct Hin as (y & Ey & Hy). apply sneg_inj in Ey. subst. contradiction.
Qed.

Lemma NoDup_snoc {A} (l : list A) x : NoDup l -> ~ In x l -> NoDup (l ++ [x]).
Proof.
  induction 1 as [|y ys Hy _ IH]; simpl; intros Hn.
  - constructor; [intros []|constructor].
  - constructor.
    + rewrite in_app_iff. simpl. intros [H|[H|[]]]; [contradiction|]. apply Hn. auto.
    + apply IH. intros H. apply Hn. auto.
Qed.

Lemma norm_first_sneg s : s_is_neg s || s_is_false s || s_is_neg_var s = true -> norm_first (sneg s) = true.
Proof. intros E. destruct s as [| |v [|]|[|] l j a b|[|] j els]; simpl in E; try discriminate; reflexivity. Qed.
Lemma norm_first_not_both s : norm_first s = true -> norm_first (sneg s) = true -> False.
Proof. destruct s as [| |v [|]|[|] l j a b|[|] j els]; simpl; discriminate. Qed.

(* ---- unique_bdd ---- *)
Lemma unique_bdd_nf lbl lo hi i : nf lo -> nf hi -> nf (unique_bdd lbl lo hi i).
Proof.
  intros Nlo Nhi. unfold unique_bdd.
  destruct (sdd_eqb hi lo) eqn:E1; auto.
  destruct (s_is_false hi && s_is_true lo) eqn:E2; [exact I|].
  destruct (s_is_true hi && s_is_false lo) eqn:E3; [exact I|].
  apply sdd_eqb_neq in E1.
  destruct (s_is_neg hi || s_is_false hi || s_is_neg_var hi) eqn:E4.
  - cbn [nf]. repeat split; auto using nf_sneg.
    + intros H. apply sneg_inj in H. congruence.
    + apply norm_first_sneg. exact E4.
    + intros [A B]. destruct hi; try discriminate; destruct lo; discriminate.
  - cbn [nf]. repeat split; auto.
    + unfold norm_first. rewrite E4. reflexivity.
    + intros [-> ->]. simpl in E3. discriminate.
Qed.

(* ---- unique_or ---- *)
Lemma unique_or_nf node i z : unique_or node i = Ok z ->
  nfl node -> 2 <= length node -> NoDup (map snd node) -> nonF node ->
  ~ (length node = 2 /\ In ST (map snd node) /\ In SF (map snd node)) -> nf z.
Proof.
  intros E Hn Hlen Hnd HnF Htf. rewrite unique_or_unfold in E.
  destruct (bdd_shape node) as [[[[pol s0] label] s1]|] eqn:Es.
  - injection E as <-.
    assert (N01 : nf s0 /\ nf s1).
    { destruct node as [|[p0 t0] [|[p1 t1] [|e2 rest]]]; try discriminate;
        destruct p0; try discriminate; destruct p1; try discriminate.
      simpl in Es. injection Es as <- <- <- <-. inversion Hn as [|? ? [_ A] Hn']; subst. inversion Hn' as [|? ? [_ B] _]; subst. auto. }
    destruct N01. apply unique_bdd_nf; destruct pol; auto.
  - pose proof (sort_els_perm node) as P.
    assert (K : forall c, (norm_first (snd (hd (ST, ST) (sort_els node))) = true -> nf (SOr c i (sort_els node))) /\
                          (norm_first (snd (hd (ST, ST) (negsubs (sort_els node)))) = true -> nf (SOr c i (negsubs (sort_els node))))).
    { intros c.
      assert (Hn' : nfl (sort_els node)) by (unfold nfl; rewrite P; exact Hn).
      assert (Hlen' : length (sort_els node) = length node) by (apply Permutation_length; exact P).
      assert (Hnd' : NoDup (map snd (sort_els node))).
      { eapply Permutation_NoDup; [|exact Hnd]. apply Permutation_map. symmetry. exact P. }
      assert (HnF' : nonF (sort_els node)) by (unfold nonF; rewrite P; exact HnF).
      assert (Hin : forall k, In k (map snd (sort_els node)) <-> In k (map snd node)).
      { intros k. split; apply Permutation_in; apply Permutation_map; [exact P | symmetry; exact P]. }
      assert (Hlit : ~ (length (sort_els node) = 2 /\ Forall (fun e : elem => is_lit (fst e)) (sort_els node))).
      { intros [L F]. rewrite P in F. rewrite Hlen' in L.
        destruct node as [|[p0 t0] [|[p1 t1] [|e2 rest]]]; try discriminate.
        inversion F as [|? ? (v0 & b0 & A) F']; subst. inversion F' as [|? ? (v1 & b1 & B) _]; subst.
        simpl in A, B. subst. discriminate. }
      unfold elem in *. split; intros Hnorm; apply nf_or.
      - repeat split; auto using sort_els_sorted; try (rewrite Hlen'; lia). rewrite Hlen'. intros (A & B & C). apply Htf. rewrite <- !Hin. auto.
      - assert (Ms : map snd (negsubs (sort_els node)) = map sneg (map snd (sort_els node))).
        { unfold negsubs. rewrite !map_map. reflexivity. }
        assert (Ml : length (negsubs (sort_els node)) = length (sort_els node)) by (unfold negsubs; apply map_length).
        repeat split.
        + unfold nfl, negsubs. rewrite Forall_map. eapply Forall_impl; [|exact Hn']. intros [p s] [A B]. simpl. auto using nf_sneg.
        + unfold negsubs. rewrite map_length. lia.
        + rewrite Ms. apply NoDup_map_sneg. exact Hnd'.
        + unfold negsubs. rewrite Forall_map. exact HnF'.
        + rewrite Ms. unfold negsubs at 1. rewrite map_length, Hlen'. intros (A & B & C). apply Htf. rewrite <- !Hin. repeat split; auto.
          * apply in_map_iff in C. destruct C as (y & Ey & Hy). destruct y; try discriminate. exact Hy.
          * apply in_map_iff in B. destruct B as (y & Ey & Hy). destruct y; try discriminate. exact Hy.
        + unfold negsubs at 1. rewrite map_length. intros [L F]. apply Hlit. split; auto. unfold negsubs in F. rewrite Forall_map in F. exact F.
        + unfold negsubs. apply sorted_map_snd. apply sort_els_sorted.
        + exact Hnorm. }
    destruct (sort_els node) as [|[p0 s0] rest] eqn:Esort; [discriminate|].
    destruct (s_is_neg s0 || s_is_false s0 || s_is_neg_var s0) eqn:En; injection E as <-.
    + apply (K true). simpl. apply norm_first_sneg. exact En.
    + apply (K false). simpl. unfold norm_first. rewrite En. reflexivity.
Qed.

(* ---- compress: afterwards the subs are pairwise distinct ---- *)
Lemma nth_error_set_nth_lt {A} (l : list A) k j x : j < k -> nth_error (set_nth l k x) j = nth_error l j.
Proof. revert k j. induction l as [|y r IH]; intros [|k] [|j] H; simpl; auto; try lia. apply IH. lia. Qed.
Lemma nth_error_removelast {A} (l : list A) j : S j < length l -> nth_error (removelast l) j = nth_error l j.
Proof.
  revert j. induction l as [|y r IH]; intros j H; simpl in *; [lia|].
  destruct r as [|z r']; simpl in *; [lia|]. destruct j; auto. apply IH. simpl. lia.
Qed.
Lemma swap_remove_nth_lt {A} (l : list A) k j x : nth_error l k = Some x -> j < k ->
  nth_error (swap_remove l k) j = nth_error l j.
Proof.
  intros Hk Hj. assert (Hlen : k < length l) by (apply nth_error_Some; congruence).
  unfold swap_remove. destruct (rev l) as [|last rl] eqn:E.
  - apply (f_equal (@length A)) in E. rewrite rev_length in E. simpl in E. lia.
  - destruct (Nat.eqb_spec k (length l - 1)).
    + apply nth_error_removelast. lia.
    + rewrite nth_error_set_nth_lt by lia. apply nth_error_removelast. lia.
Qed.

Section Compress.
Variable andf : sdd -> sdd -> res sdd.

Lemma compress_while_subs : forall fuel cur rest k cur' rest',
  compress_while andf fuel cur rest k = Ok (cur', rest') ->
  (forall j e, j < k -> nth_error rest j = Some e -> snd e <> snd cur) ->
  snd cur' = snd cur /\ incl (map snd rest') (map snd rest) /\ length rest' <= length rest /\
  (forall e, In e rest' -> snd e <> snd cur).
Proof.
  induction fuel as [|fuel IH]; intros cur rest k cur' rest' E Hinv; [discriminate|].
  cbn [compress_while] in E. destruct (nth_error rest k) as [ej|] eqn:En.
  - destruct (sdd_eqb (snd cur) (snd ej)) eqn:Es.
    + destruct (or_f andf (fst cur) (fst ej)) as [p| |] eqn:Eo; try discriminate. cbn [bind] in E.
      apply IH in E.
      * destruct E as (A & B & C & D). cbn [snd] in *. repeat split; auto.
        -- intros x Hx. apply B in Hx. pose proof (swap_remove_perm rest k ej En) as P.
           apply (Permutation_in x (Permutation_map snd P)). simpl. auto.
        -- pose proof (swap_remove_length rest k ej En). lia.
      * intros j e Hj Hn. cbn [snd]. rewrite (swap_remove_nth_lt rest k j ej En Hj) in Hn. eapply Hinv; eauto.
    + apply IH in E; auto. intros j e Hj Hn. destruct (Nat.eq_dec j k) as [->|Hne].
      * rewrite En in Hn. injection Hn as <-. apply sdd_eqb_neq in Es. congruence.
      * apply (Hinv j e); auto. lia.
  - injection E as <- <-. repeat split; auto using incl_refl.
    intros e He. apply In_nth_error in He. destruct He as [j Hj].
    apply (Hinv j e); auto. apply nth_error_None in En.
    assert (j < length rest) by (apply nth_error_Some; congruence). lia.
Qed.

Lemma compress_for_subs : forall n done todo v,
  compress_for andf n done todo = Ok v -> length todo <= n ->
  NoDup (map snd done) -> (forall d s, In d done -> In s (map snd todo) -> snd d <> s) ->
  NoDup (map snd v).
Proof.
  induction n as [|n IH]; intros done todo v E Hlen Hnd Hdis.
  - destruct todo; simpl in Hlen; [|lia]. simpl in E. injection E as <-. rewrite app_nil_r. exact Hnd.
  - cbn [compress_for] in E. destruct todo as [|cur rest].
    + injection E as <-. exact Hnd.
    + destruct (compress_while andf (S (length rest)) cur rest 0) as [[cur' rest']| |] eqn:Ew; try discriminate.
      cbn [bind fst snd] in E.
      destruct (compress_while_subs _ _ _ _ _ _ Ew) as (A & B & C & D); [intros j e Hj; lia|].
      apply IH in E; auto.
      * simpl in Hlen. lia.
      * rewrite map_app. simpl. rewrite A.
        assert (Hn : ~ In (snd cur) (map snd done)).
        { intros Hin. apply in_map_iff in Hin. destruct Hin as (d & Ed & Hd). apply (Hdis d (snd cur)); simpl; auto. }
        apply NoDup_snoc; auto.
      * intros d s Hd Hs. apply in_app_or in Hd. destruct Hd as [Hd|[<-|[]]].
        -- apply (Hdis d s); auto. simpl. right. apply B. exact Hs.
        -- rewrite A. apply in_map_iff in Hs. destruct Hs as (e & Ee & He). subst s. intros H. apply (D e He). congruence.
Qed.
End Compress.

(* ---- canonicalize with compression on ---- *)
Lemma base_case_nf node x : canonicalize_base_case node = Some x -> nfl node -> nf x.
Proof.
  intros E Hn. destruct node as [|[p0 s0] [|[p1 s1] [|e2 rest]]]; simpl in E; try discriminate.
  - injection E as <-. exact I.
  - inversion Hn as [|? ? [A B] _]; subst. simpl in *.
    destruct (s_is_true p0); [injection E as <-; auto|]. destruct (s_is_false s0); [injection E as <-; exact I|discriminate].
  - inversion Hn as [|? ? [A B] Hn']; subst. inversion Hn' as [|? ? [C D] _]; subst. simpl in *.
    destruct (s_is_true s0 && s_is_false s1); [injection E as <-; auto|].
    destruct (s_is_false s0 && s_is_true s1); [injection E as <-; auto|discriminate].
Qed.

Lemma rl_node l r : is_right_linear (Some (VNode l r)) = is_leaf l.
Proof. destruct l; reflexivity. Qed.

Section NodeNf.
Variable t : vtree.
Hypothesis ND : NoDup (vleaves t).
Variables l r : vtree.
Variable off : nat.
Hypothesis Ho : occurs t 0 (VNode l r) off.
Variable andf : sdd -> sdd -> res sdd.
Notation m := (off + vsize l).
Definition Upn (p : sdd) : Prop := under l off p /\ nf p.
Definition Usn (p : sdd) : Prop := under r (S m) p /\ nf p.
Hypothesis GP : good andf Upn.
Hypothesis GS : good andf Usn.
Notation okn := (okl Upn Usn).

Lemma NPn p : Upn p -> Upn (sneg p). Proof. intros [A B]. split; auto using under_sneg, nf_sneg. Qed.
Lemma NSn p : Usn p -> Usn (sneg p). Proof. intros [A B]. split; auto using under_sneg, nf_sneg. Qed.
Lemma CSn p : s_is_const p = true -> Usn p. Proof. intros H. split; auto using under_const, nf_const. Qed.

Lemma okn_split els : okn els <-> okl (under l off) (under r (S m)) els /\ nfl els.
Proof.
  unfold okl, nfl, Upn, Usn. rewrite !Forall_forall. split.
  - intros H. split; intros e He; destruct (H e He); tauto.
  - intros [H1 H2] e He. destruct (H1 e He), (H2 e He). tauto.
Qed.

Lemma okn_nonF_satl els : okn els -> nonF els -> satl els.
Proof.
  unfold okl, nonF, satl. rewrite !Forall_forall. intros H1 H2 e He.
  destruct (H1 e He) as [[U N] _]. 
  destruct (nf_sat t ND (fst e) l off (occurs_left _ _ _ _ _ Ho) U N) as [S _]. apply S. apply H2; auto.
Qed.

Lemma satl_nonF els : satl els -> nonF els.
Proof.
  unfold satl, nonF. apply Forall_impl. intros e [a Ha] E. rewrite E in Ha. discriminate.
Qed.

Lemma len_ge_2 v : okn v -> part v -> canonicalize_base_case v = None -> 2 <= length v.
Proof.
  intros Hok Hp Hb. destruct v as [|[p s] [|e2 rest]]; simpl; try lia.
  - specialize (Hp asg0). discriminate.
  - exfalso. apply okl_cons in Hok. destruct Hok as ([U N] & _ & _).
    simpl in Hb. destruct (s_is_true p) eqn:T; [discriminate|]. apply s_is_true_neq in T.
    destruct (nf_sat t ND p l off (occurs_left _ _ _ _ _ Ho) U N) as [_ F]. destruct (F T) as [a Ha].
    specialize (Hp a). unfold cnt in Hp. simpl in Hp. rewrite Ha in Hp. discriminate.
Qed.

Lemma not_tf v : canonicalize_base_case v = None ->
  ~ (length v = 2 /\ In ST (map snd v) /\ In SF (map snd v)).
Proof.
  intros Hb (L & A & B). destruct v as [|[p0 s0] [|[p1 s1] [|e2 rest]]]; try discriminate.
  simpl in *. destruct A as [A|[A|[]]]; destruct B as [B|[B|[]]]; subst; try discriminate.
Qed.

Lemma canonicalize_nf node z : okn node -> part node -> satl node ->
  canonicalize true andf node m = Ok z -> nf z.
Proof.
  intros Hok Hp Hs E. unfold canonicalize in E.
  destruct (canonicalize_base_case node) as [x|] eqn:Eb.
  { injection E as <-. apply (base_case_nf node x Eb). apply okn_split in Hok. tauto. }
  destruct (compress_spec andf Upn Usn GP NPn node Hok (part_excl _ Hp)) as (v & Ev & K1 & K2 & K3 & K4).
  rewrite Ev in E. cbn [bind] in E.
  assert (Hpv : part v) by (intros a; rewrite K2; apply Hp).
  assert (Nv : nfl v) by (apply okn_split in K1; tauto).
  destruct (canonicalize_base_case v) as [x|] eqn:Ebv.
  { injection E as <-. apply (base_case_nf v x Ebv Nv). }
  apply (unique_or_nf v m z E Nv).
  - apply len_ge_2; auto.
  - unfold compress in Ev. apply (compress_for_subs andf _ _ _ _ Ev); auto; try (simpl; constructor); try (intros d s []).
  - apply satl_nonF. auto.
  - apply not_tf; auto.
Qed.

(* the element view of a node in normal form *)
Lemma at_node_view_nf p : at_node l r off p -> nf p ->
  exists els, adj_elems p = Some els /\ okn els /\ part els /\ nonF els.
Proof.
  intros [(c & lbl & lo & hi & -> & H1 & H2 & H3)|(c & els & -> & H1 & H2 & H3)] Hn.
  - destruct Hn as (Nlo & Nhi & _). eexists. split; [reflexivity|]. simpl. split; [|split].
    + repeat constructor; simpl; auto using under_adj, nf_adj.
    + intros a. apply cnt_bdd_elems.
    + repeat constructor; simpl; discriminate.
  - apply nf_or in Hn. destruct Hn as (Nl & _ & _ & HnF & _).
    exists (adjsubs (s_is_neg (SOr c m els)) els). split; [reflexivity|]. split; [|split].
    + apply okn_split. split.
      * unfold okl, adjsubs. rewrite Forall_map. eapply Forall_impl; [|exact H2]. intros [p s] [A B]. simpl. auto using under_adj.
      * unfold nfl, adjsubs. rewrite Forall_map. eapply Forall_impl; [|exact Nl]. intros [p s] [A B]. simpl. auto using nf_adj.
    + intros a. rewrite cnt_adjsubs. apply H3.
    + unfold nonF, adjsubs. rewrite Forall_map. exact HnF.
Qed.

Lemma and_cartesian_nf x y z : at_node l r off x -> at_node l r off y -> nf x -> nf y ->
  and_cartesian t true andf x y m = Ok z -> nf z.
Proof.
  intros Hx Hy Nx Ny E. unfold and_cartesian in E. rewrite (node_at_m t l r off Ho), rl_node in E.
  assert (General : match adj_elems x, adj_elems y with
                    | Some aels, Some bels => bind (cartesian_loop andf aels bels) (fun o =>
                        match o with None => Ok ST | Some r => canonicalize true andf r m end)
                    | _, _ => Panic end = Ok z -> nf z).
  { clear E. intros E.
    destruct (at_node_view_nf x Hx Nx) as (aels & Ea & Hoka & Hpa & HnFa).
    destruct (at_node_view_nf y Hy Ny) as (bels & Eb & Hokb & Hpb & _).
    rewrite Ea, Eb in E.
    destruct (cartesian_loop_spec andf Upn Usn GP GS bels Hokb Hpb aels Hoka) as (o & Eo & HO).
    rewrite Eo in E. cbn [bind] in E. destruct o as [v|]; [|injection E as <-; exact I].
    destruct HO as (K1 & K2 & K3 & K4).
    apply (canonicalize_nf v z K1); auto.
    - intros a. rewrite K2. apply Hpa.
    - apply okn_nonF_satl; auto. }
  destruct (is_leaf l) eqn:El.
  - destruct Hx as [(c & lbl & lo & hi & -> & H1 & H2 & H3)|(c & els & -> & H1 & _)]; [|congruence].
    destruct Hy as [(c' & lbl' & lo' & hi' & -> & H1' & H2' & H3')|(c' & els' & -> & H1' & _)]; [|congruence].
    destruct Nx as (Nlo & Nhi & _). destruct Ny as (Nlo' & Nhi' & _).
    cbn [slow shigh] in E.
    destruct (GS (adj c lo) (adj c' lo')) as (l' & El' & [_ Nl'] & _); [split; auto using under_adj, nf_adj..|].
    destruct (GS (adj c hi) (adj c' hi')) as (h' & Eh' & [_ Nh'] & _); [split; auto using under_adj, nf_adj..|].
    unfold adj in El', Eh'. rewrite El' in E. cbn [bind] in E. rewrite Eh' in E. cbn [bind] in E.
    injection E as <-. apply unique_bdd_nf; auto.
  - apply General. destruct x; exact E.
Qed.

Lemma and_sub_desc_nf x d z : at_node l r off x -> nf x -> Usn d ->
  and_sub_desc true andf x d = Ok z -> nf z.
Proof.
  intros [(c & lbl & lo & hi & -> & H1 & H2 & H3)|(c & els & -> & H1 & H2 & H3)] Nx Hd E.
  - destruct Nx as (Nlo & Nhi & _). cbn [and_sub_desc] in E.
    destruct (GS (adj c lo) d) as (l' & El' & [_ Nl'] & _); [split; auto using under_adj, nf_adj | auto |].
    destruct (GS (adj c hi) d) as (h' & Eh' & [_ Nh'] & _); [split; auto using under_adj, nf_adj | auto |].
    rewrite El' in E. cbn [bind] in E. rewrite Eh' in E. cbn [bind] in E. injection E as <-. apply unique_bdd_nf; auto.
  - cbn [and_sub_desc] in E. change (map (fun e : sdd * sdd => (fst e, adj c (snd e))) els) with (adjsubs c els) in E.
    destruct (at_node_view_nf (SOr c m els)) as (aels & Ea & Hoka & Hpa & HnFa); auto.
    { right. exists c, els. auto. }
    unfold adj_elems in Ea. cbn [elems] in Ea.
    replace (s_is_neg (SOr c (off + vsize l) els)) with c in Ea by (destruct c; reflexivity).
    injection Ea as <-. fold (adjsubs c els) in *.
    destruct (sub_desc_loop_spec andf Upn Usn GS d Hd _ Hoka) as (v & Ev & K1 & K2 & K3 & K4).
    rewrite Ev in E. cbn [bind] in E.
    apply (canonicalize_nf v z K1); auto.
    + intros a. rewrite K3. apply Hpa.
    + apply okn_nonF_satl; auto. unfold nonF in *. rewrite Forall_forall in *. intros e He.
      assert (Hf : In (fst e) (map fst v)) by (apply in_map; auto). rewrite K2 in Hf.
      apply in_map_iff in Hf. destruct Hf as (e' & Ee & He'). rewrite <- Ee. apply HnFa; auto.
Qed.

Lemma and_prime_desc_nf x d z : at_node l r off x -> nf x -> Upn d ->
  and_prime_desc t true andf x d = Ok z -> nf z.
Proof.
  intros Hx Nx Hd E. destruct (at_node_view_nf x Hx Nx) as (els & Ee & Hok & Hp & _).
  unfold and_prime_desc in E. rewrite Ee in E.
  destruct (prime_desc_loop_spec andf Upn Usn GP GS NPn CSn d Hd els Hok) as (o & Eo & HO).
  rewrite Eo in E. cbn [bind] in E. destruct o as [v|]; [|injection E as <-; exact I].
  destruct HO as (K1 & K2 & K3 & K4). rewrite (vidx_at_node t l r off x Hx) in E.
  apply (canonicalize_nf v z K1); auto.
  - intros a. rewrite K3. apply Hp.
  - apply okn_nonF_satl; auto.
Qed.

Lemma and_indep_nf a b z : Upn a -> Usn b -> s_is_const a = false -> s_is_const b = false ->
  and_indep t a b m = Ok z -> nf z.
Proof.
  intros [Ua Na] [Ub Nb] NCa NCb E. unfold and_indep in E. rewrite (node_at_m t l r off Ho), rl_node in E.
  destruct (is_leaf l) eqn:El.
  - destruct (is_leaf_inv _ El) as [v Ev]. rewrite Ev in Ua. apply under_leaf_inv in Ua.
    destruct Ua as [->|[->|[pol ->]]]; try discriminate.
    destruct pol; injection E as <-; apply unique_bdd_nf; simpl; auto.
  - apply (unique_or_nf _ _ _ E).
    + repeat constructor; simpl; auto using nf_sneg.
    + simpl. lia.
    + simpl. constructor; [|constructor; [intros []|constructor]]. intros [H|[]]. subst b. discriminate.
    + repeat constructor; simpl; intros H; [subst a | destruct a]; discriminate.
    + intros (_ & A & _). simpl in A. destruct A as [A|[A|[]]]; [subst b|]; discriminate.
Qed.

End NodeNf.
