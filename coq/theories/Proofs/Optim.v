(* C12: marginal MAP, MEU and the generic branch and bound return true optima.

   Structure of the development:
   1. an abstract ordered semiring (operations as section variables, laws as hypotheses):
      commutative semiring + a bounding order [cle] compatible with + and * on non-negative
      elements + join as an upper bound + the total preorder induced by [choose];
   2. the bound folds ([gub]) dominate the value of every completion ([vfold]), and coincide with
      it when every query variable is assigned;
   3. the two search schemes (marginal_map_h / meu_h, and bb_h) are correct for every bound
      function that is exact on leaves and an upper bound inside: induction on the list of query
      variables with the invariant "the incumbent is attained, and every completion of a closed
      subtree is dominated by it";
   4. the value of a completion is the semantic weighted count: the sum over the non-query
      variables for normalised weights ([vfold_spec]), the dependency-restricted sum
      ([wmc_dep], = unsmoothed count of the ROBDD of the restricted function) for expected
      utilities ([vfold_dep]);
   5. instances: exact rationals (RealSemiring) and pairs of them (ExpectedUtility). *)
From Coq Require Import Bool NArith ZArith QArith Qcanon List Lia Arith Permutation.
Import ListNotations.
From RsddV Require Import Base.Bdd Model.Semirings Proofs.Semirings Model.Wmc Proofs.Wmc
  Proofs.BddCanon Proofs.Smooth Model.Optim.
Local Open Scope nat_scope.

(* ------------------------------------------------------------------------------------- *)
(* partial models                                                                          *)
Lemma mem_var_In x l : mem_var x l = true <-> In x l.
Proof.
  unfold mem_var. rewrite existsb_exists. split.
  - intros (y & Hy & E). apply N.eqb_eq in E. subst; auto.
  - intros H; exists x; split; auto. apply N.eqb_refl.
Qed.
Lemma mem_var_nIn x l : mem_var x l = false <-> ~ In x l.
Proof. rewrite <- mem_var_In. destruct (mem_var x l); split; congruence. Qed.

(* a total assignment that extends a partial model *)
Definition agrees (m : pm) (a : asg) : Prop := forall x b, m x = Some b -> a x = b.
Definition asg_of (m : pm) : asg := fun x => match m x with Some b => b | None => false end.
Lemma agrees_asg_of m : agrees m (asg_of m).
Proof. intros x b H. unfold asg_of. rewrite H. reflexivity. Qed.

(* state of the search: [m] assigns a part of the query variables Q, [rest] are the others *)
Record Inv (Q : list var) (m : pm) (rest : list var) : Prop := {
  inv_nodup : NoDup rest;
  inv_rest : forall x, In x rest -> m x = None;
  inv_Q : forall x, In x Q <-> (m x <> None \/ In x rest) }.

Lemma Inv_init Q : NoDup Q -> Inv Q pm_empty Q.
Proof.
  intros ND. constructor; auto. intros x. unfold pm_empty. split; [auto|]. intros [H|H]; [congruence|auto].
Qed.

Lemma Inv_step Q m x e b : Inv Q m (x :: e) -> Inv Q (pm_set m x b) e.
Proof.
  intros [ND R HQ]. inversion ND as [|? ? Hx ND']; subst. constructor; auto.
  - intros y Hy. unfold pm_set. destruct (N.eqb_spec y x); [subst; contradiction|]. apply R; simpl; auto.
  - intros y. rewrite HQ. unfold pm_set. destruct (N.eqb_spec y x) as [->|Hne]; simpl.
    + split; intros _; [left; congruence|auto].
    + split; intros [H|H]; auto. destruct H; [congruence|auto].
Qed.

Lemma agrees_set m x b a : m x = None -> agrees m a -> a x = b -> agrees (pm_set m x b) a.
Proof.
  intros Hn Ha Hx y c. unfold pm_set. destruct (N.eqb_spec y x); [subst; congruence|apply Ha].
Qed.
Lemma agrees_unset m x b a : m x = None -> agrees (pm_set m x b) a -> agrees m a.
Proof.
  intros Hn Ha y c Hy. apply Ha. unfold pm_set. destruct (N.eqb_spec y x); [subst; congruence|exact Hy].
Qed.

(* from_litvec of the all-true literals *)
Definition all_true (Q : list var) : pm := fun x => if mem_var x Q then Some true else None.

Lemma from_litvec_ok n : forall Q m0,
  (forall q, In q Q -> N.to_nat q < n) ->
  exists m, fold_left (fun acc l =>
               match acc with
               | None => None
               | Some m => if Nat.ltb (N.to_nat (fst l)) n
                           then Some (pm_set m (fst l) (snd l)) else None
               end) (map (fun x => (x, true)) Q) (Some m0) = Some m /\
            forall x, m x = if mem_var x Q then Some true else m0 x.
Proof.
  induction Q as [|q Q IH]; intros m0 Hn; simpl.
  - exists m0; auto.
  - assert (Hq : N.to_nat q < n) by (apply Hn; simpl; auto).
    apply Nat.ltb_lt in Hq. rewrite Hq.
    destruct (IH (pm_set m0 q true)) as (m & E & Hm); [intros; apply Hn; simpl; auto|].
    exists m. split; auto. intros x. rewrite Hm. unfold pm_set.
    rewrite (N.eqb_sym x q). destruct (N.eqb q x); simpl; auto. destruct (mem_var x Q); auto.
Qed.

Lemma from_litvec_all_true n Q : (forall q, In q Q -> N.to_nat q < n) ->
  exists m, pm_from_litvec (map (fun x => (x, true)) Q) n = Some m /\ forall x, m x = all_true Q x.
Proof.
  intros Hn. destruct (from_litvec_ok n Q pm_empty Hn) as (m & E & Hm). exists m. split; [exact E|].
  intros x. rewrite Hm. unfold all_true, pm_empty. reflexivity.
Qed.

Lemma Inv_all_true Q m : (forall x, m x = all_true Q x) -> Inv Q m [].
Proof.
  intros Hm. constructor; [constructor|intros x []|].
  intros x. rewrite Hm. unfold all_true. destruct (mem_var x Q) eqn:E.
  - apply mem_var_In in E. split; auto. intros _. left; congruence.
  - apply mem_var_nIn in E. split; [contradiction|]. intros [H|[]]. congruence.
Qed.

Lemma fold_left_ext {A B} (f g : A -> B -> A) l : (forall a b, f a b = g a b) ->
  forall i, fold_left f l i = fold_left g l i.
Proof. intros E. induction l as [|x l IH]; intros i; simpl; auto. rewrite E. apply IH. Qed.

Lemma var_range_In n x : In x (var_range n) <-> N.to_nat x < n.
Proof.
  unfold var_range. rewrite in_map_iff. split.
  - intros (k & <- & Hk). apply in_seq in Hk. rewrite Nat2N.id. lia.
  - intros H. exists (N.to_nat x). rewrite N2Nat.id. split; auto. apply in_seq. lia.
Qed.
Lemma var_range_NoDup n : NoDup (var_range n).
Proof.
  unfold var_range. apply FinFun.Injective_map_NoDup; [|apply seq_NoDup].
  intros a b H. apply Nat2N.inj. exact H.
Qed.

(* ===================================================================================== *)
(* 1-3. abstract ordered semiring, bounds, search                                          *)
Section Abs.
Context {T : Type}.
Variables (add mul : T -> T -> T) (zero one : T).
Variables (join choose : T -> T -> T) (leb eqb gtb : T -> T -> bool).
(* commutative semiring *)
Hypothesis add_comm : forall a b, add a b = add b a.
Hypothesis add_assoc : forall a b c, add (add a b) c = add a (add b c).
Hypothesis mul_assoc : forall a b c, mul (mul a b) c = mul a (mul b c).
Hypothesis mul_comm : forall a b, mul a b = mul b a.
Hypothesis mul_one_r : forall a, mul a one = a.
Hypothesis mul_zero_r : forall a, mul a zero = zero.
Hypothesis add_zero_r : forall a, add a zero = a.
Hypothesis distr_l : forall a b c, mul a (add b c) = add (mul a b) (mul a c).
(* the bounding order and the non-negative elements *)
Variable cle : T -> T -> Prop.
Variable nn : T -> Prop.
Hypothesis cle_refl : forall a, cle a a.
Hypothesis cle_trans : forall a b c, cle a b -> cle b c -> cle a c.
Hypothesis add_mono : forall a a' b b', cle a a' -> cle b b' -> cle (add a b) (add a' b').
Hypothesis mul_mono : forall w x y, nn w -> cle x y -> cle (mul w x) (mul w y).
Hypothesis join_ub_l : forall a b, cle a (join a b).
Hypothesis join_ub_r : forall a b, cle b (join a b).
Hypothesis nn_one : nn one.
Hypothesis nn_mul : forall a b, nn a -> nn b -> nn (mul a b).
Hypothesis unit_mul : forall a b, nn a -> nn b -> cle a one -> cle b one -> cle (mul a b) one.
(* the preorder of [choose]: b is at least as good as a *)
Definition pre (a b : T) : Prop := choose a b = b.
Hypothesis pre_total : forall a b, pre a b \/ pre b a.
Hypothesis pre_trans : forall a b c, pre a b -> pre b c -> pre a c.
Hypothesis choose_cases : forall a b, choose a b = a \/ choose a b = b.
Hypothesis eqb_eq : forall a b, eqb a b = true <-> a = b.
Hypothesis leb_pre : forall a b, leb a b = true -> pre a b.
Hypothesis gtb_false_pre : forall a b, gtb a b = false -> pre a b.
Hypothesis gtb_true_pre : forall a b, gtb a b = true -> pre b a.
Hypothesis cle_pre : forall a b, cle a b -> pre a b.

Lemma pre_refl a : pre a a.
Proof. destruct (pre_total a a); auto. Qed.
Lemma mul_one_l' a : mul one a = a.
Proof. rewrite mul_comm. apply mul_one_r. Qed.
Lemma mul_zero_l' a : mul zero a = zero.
Proof. rewrite mul_comm. apply mul_zero_r. Qed.
Lemma add_zero_l' a : add zero a = a.
Proof. rewrite add_comm. apply add_zero_r. Qed.

Variable wlo whi : var -> T.
Definition wsel (v : var) (b : bool) : T := if b then whi v else wlo v.

(* --- products of literal weights --- *)
Definition prodS (a : asg) (S : list var) : T :=
  fold_right (fun q acc => mul (wsel q (a q)) acc) one S.
Definition prodG (g : var -> T) (dom : list var) : T :=
  fold_right (fun x acc => mul (g x) acc) one dom.
Definition gm (m : pm) (x : var) : T := match m x with Some b => wsel x b | None => one end.

Lemma prodG_ext g h dom : (forall x, In x dom -> g x = h x) -> prodG g dom = prodG h dom.
Proof.
  induction dom as [|x dom IH]; simpl; intros E; auto. rewrite E, IH; auto.
Qed.
Lemma prodG_mul g h dom : prodG (fun x => mul (g x) (h x)) dom = mul (prodG g dom) (prodG h dom).
Proof.
  induction dom as [|x dom IH]; simpl.
  - rewrite mul_one_r. reflexivity.
  - rewrite IH. rewrite !mul_assoc. f_equal. rewrite <- !mul_assoc. f_equal. apply mul_comm.
Qed.
Lemma prodG_one dom : prodG (fun _ => one) dom = one.
Proof. induction dom as [|x dom IH]; simpl; auto. rewrite IH. apply mul_one_r. Qed.

Lemma prodS_filter a v S : NoDup S -> In v S ->
  prodS a S = mul (wsel v (a v)) (prodS a (filter (fun u => negb (N.eqb u v)) S)).
Proof.
  induction S as [|u S IH]; intros ND Hin; [contradiction|].
  inversion ND as [|? ? Hu ND']; subst. simpl.
  destruct (N.eqb_spec u v) as [->|Hne]; simpl.
  - f_equal. f_equal. symmetry. clear IH ND Hin ND'. induction S as [|w S IH]; simpl; auto.
    destruct (N.eqb_spec w v) as [->|]; simpl.
    + exfalso. apply Hu. simpl; auto.
    + f_equal. apply IH. intros H. apply Hu. simpl; auto.
  - destruct Hin as [->|Hin]; [congruence|]. rewrite (IH ND' Hin).
    rewrite <- !mul_assoc. f_equal. apply mul_comm.
Qed.

(* a product over a duplicate-free list, spread over a duplicate-free domain that contains it *)
Lemma prodS_dom a : forall dom S, NoDup dom -> NoDup S -> incl S dom ->
  prodS a S = prodG (fun x => if mem_var x S then wsel x (a x) else one) dom.
Proof.
  induction dom as [|x dom IH]; intros S NDd NDs INC.
  - destruct S as [|s S]; [reflexivity|]. exfalso. apply (INC s). simpl; auto.
  - inversion NDd as [|? ? Hx NDd']; subst. cbn [prodG fold_right].
    destruct (mem_var x S) eqn:E.
    + apply mem_var_In in E. rewrite (prodS_filter a x S NDs E). f_equal.
      rewrite (IH (filter (fun u => negb (N.eqb u x)) S)); auto using NoDup_filter.
      * apply prodG_ext. intros y Hy.
        assert (Hne : y <> x) by (intros ->; contradiction).
        destruct (mem_var y S) eqn:Ey.
        -- apply mem_var_In in Ey.
           assert (Ey' : mem_var y (filter (fun u => negb (N.eqb u x)) S) = true).
           { apply mem_var_In. apply filter_In. split; auto. destruct (N.eqb_spec y x); [contradiction|reflexivity]. }
           rewrite Ey'. reflexivity.
        -- apply mem_var_nIn in Ey.
           assert (Ey' : mem_var y (filter (fun u => negb (N.eqb u x)) S) = false).
           { apply mem_var_nIn. intros H. apply filter_In in H. tauto. }
           rewrite Ey'. reflexivity.
      * intros y Hy. apply filter_In in Hy. destruct Hy as [Hy Hn].
        destruct (INC y Hy) as [<-|]; auto. rewrite N.eqb_refl in Hn. discriminate.
    + apply mem_var_nIn in E. rewrite mul_one_l'. apply IH; auto.
      intros y Hy. destruct (INC y Hy) as [<-|]; auto. contradiction.
Qed.

(* the literals of a partial model in assignment_iter order, multiplied into an accumulator *)
Definition litprod (m : pm) (n : nat) (init : T) : T :=
  fold_left (fun acc (l : var * bool) => mul acc (wsel (fst l) (snd l))) (assignment_iter m n) init.

Lemma litprod_part m b0 dom : forall i,
  fold_left (fun acc (l : var * bool) => mul acc (wsel (fst l) (snd l)))
            (map (fun x => (x, b0)) (filter (fun x => is_some_b b0 (m x)) dom)) i =
  mul i (prodG (fun x => if is_some_b b0 (m x) then wsel x b0 else one) dom).
Proof.
  induction dom as [|x dom IH]; intros i; simpl.
  - rewrite mul_one_r. reflexivity.
  - destruct (is_some_b b0 (m x)); simpl.
    + rewrite IH. rewrite mul_assoc. reflexivity.
    + rewrite IH, mul_one_l'. reflexivity.
Qed.

Lemma litprod_eq m n i : litprod m n i = mul i (prodG (gm m) (var_range n)).
Proof.
  unfold litprod, assignment_iter. rewrite fold_left_app, !litprod_part.
  rewrite mul_assoc. f_equal. rewrite <- prodG_mul. apply prodG_ext. intros x _.
  unfold gm. destruct (m x) as [[|]|]; simpl; rewrite ?mul_one_r, ?mul_one_l'; reflexivity.
Qed.

(* Q = assigned part + rest: the product over Q splits accordingly *)
Lemma prod_split Q m rest a n : NoDup Q -> (forall q, In q Q -> N.to_nat q < n) ->
  Inv Q m rest -> agrees m a ->
  prodS a Q = mul (prodG (gm m) (var_range n)) (prodS a rest).
Proof.
  intros NDQ Hn [NDr R HQ] Ha.
  assert (INCQ : incl Q (var_range n)) by (intros q Hq; apply var_range_In; auto).
  assert (INCr : incl rest (var_range n)).
  { intros q Hq. apply INCQ. apply HQ. auto. }
  rewrite (prodS_dom a (var_range n) Q (var_range_NoDup n) NDQ INCQ).
  rewrite (prodS_dom a (var_range n) rest (var_range_NoDup n) NDr INCr).
  rewrite <- prodG_mul. apply prodG_ext. intros x Hx. unfold gm.
  destruct (mem_var x rest) eqn:Er.
  - apply mem_var_In in Er. rewrite (R x Er).
    assert (Eq : mem_var x Q = true) by (apply mem_var_In; apply HQ; auto).
    rewrite Eq, mul_one_l'. reflexivity.
  - apply mem_var_nIn in Er. destruct (m x) as [b|] eqn:Em.
    + assert (Eq : mem_var x Q = true) by (apply mem_var_In; apply HQ; left; congruence).
      rewrite Eq, mul_one_r, (Ha x b Em). reflexivity.
    + assert (Eq : mem_var x Q = false).
      { apply mem_var_nIn. intros H. apply HQ in H. destruct H; [congruence|contradiction]. }
      rewrite Eq, mul_one_r. reflexivity.
Qed.

Lemma nn_prodG g dom : (forall x, In x dom -> nn (g x)) -> nn (prodG g dom).
Proof.
  induction dom as [|x dom IH]; simpl; intros H; [exact nn_one|].
  apply nn_mul; [apply H; auto|apply IH; intros; apply H; auto].
Qed.
Lemma prodS_le_one a S : (forall q, In q S -> nn (wsel q (a q)) /\ cle (wsel q (a q)) one) ->
  nn (prodS a S) /\ cle (prodS a S) one.
Proof.
  induction S as [|q S IH]; simpl; intros H; [split; [exact nn_one|apply cle_refl]|].
  destruct IH as [IH1 IH2]; [intros; apply H; auto|]. destruct (H q) as [H1 H2]; [auto|].
  split; [apply nn_mul; assumption|apply unit_mul; assumption].
Qed.

(* --- the folds --- *)
(* the bound fold: assigned variables select a child, unassigned query variables join, the
   others sum *)
Definition gstep (J : var -> T -> T -> T) (m : pm) (rest : list var) (v : var) (lo hi : T) : T :=
  match m v with
  | None => if mem_var v rest then J v lo hi else add (mul (wlo v) lo) (mul (whi v) hi)
  | Some true => hi
  | Some false => lo
  end.
Definition gub J m rest c p : T := bdd_fold_c (gstep J m rest) zero one c p.
Definition Jw (v : var) (lo hi : T) : T := join (mul (wlo v) lo) (mul (whi v) hi).
Definition Jplain (v : var) (lo hi : T) : T := join lo hi.

(* the value fold of a total assignment of the query variables *)
Definition vstep (Q : list var) (a : asg) (v : var) (lo hi : T) : T :=
  if mem_var v Q then (if a v then hi else lo) else add (mul (wlo v) lo) (mul (whi v) hi).
Definition vfold Q a c p : T := bdd_fold_c (vstep Q a) zero one c p.

(* leaves: all query variables assigned => the bound fold is the value fold *)
Lemma gub_leaf J Q m a : Inv Q m [] -> agrees m a -> forall p c, gub J m [] c p = vfold Q a c p.
Proof.
  intros [_ _ HQ] Ha. induction p as [| |c' v lo IHlo hi IHhi]; intros c; try reflexivity.
  unfold gub, vfold in *. cbn [bdd_fold_c]. rewrite IHlo, IHhi. unfold gstep, vstep.
  destruct (m v) as [b|] eqn:Em.
  - assert (Eq : mem_var v Q = true) by (apply mem_var_In; apply HQ; left; congruence).
    rewrite Eq, (Ha v b Em). destruct b; reflexivity.
  - assert (Eq : mem_var v Q = false).
    { apply mem_var_nIn. intros H. apply HQ in H. destruct H as [H|[]]. congruence. }
    rewrite Eq. reflexivity.
Qed.

(* the unweighted join (eu_ub) dominates every completion *)
Lemma gub_plain_ub Q m rest a : Inv Q m rest -> agrees m a ->
  forall p c, (forall v, In v (support p) -> ~ In v Q -> nn (wlo v) /\ nn (whi v)) ->
  cle (vfold Q a c p) (gub Jplain m rest c p).
Proof.
  intros [_ R HQ] Ha. induction p as [| |c' v lo IHlo hi IHhi]; intros c NN; try apply cle_refl.
  unfold gub, vfold in *. cbn [bdd_fold_c].
  assert (NNlo : forall u, In u (support lo) -> ~ In u Q -> nn (wlo u) /\ nn (whi u)).
  { intros u Hu. apply NN. simpl. right. apply in_or_app; auto. }
  assert (NNhi : forall u, In u (support hi) -> ~ In u Q -> nn (wlo u) /\ nn (whi u)).
  { intros u Hu. apply NN. simpl. right. apply in_or_app; auto. }
  specialize (IHlo (xorb c c') NNlo). specialize (IHhi (xorb c c') NNhi).
  unfold gstep, vstep. destruct (m v) as [b|] eqn:Em.
  - assert (Eq : mem_var v Q = true) by (apply mem_var_In; apply HQ; left; congruence).
    rewrite Eq, (Ha v b Em). destruct b; auto.
  - destruct (mem_var v rest) eqn:Er.
    + apply mem_var_In in Er.
      assert (Eq : mem_var v Q = true) by (apply mem_var_In; apply HQ; auto).
      rewrite Eq. unfold Jplain. destruct (a v); eauto.
    + apply mem_var_nIn in Er.
      assert (Eq : mem_var v Q = false).
      { apply mem_var_nIn. intros H. apply HQ in H. destruct H; [congruence|contradiction]. }
      rewrite Eq. apply mem_var_nIn in Eq. destruct (NN v) as [N1 N2]; simpl; auto.
Qed.

(* the weighted join (marginal_map_eval, bb_ub) dominates the value of every completion times
   the weights of the literals it still has to choose *)
Lemma gub_weighted_ub Q m rest a : Inv Q m rest -> agrees m a ->
  forall p c S, free_bdd p -> NoDup S ->
  (forall u, In u (support p) -> In u rest -> In u S) ->
  (forall q, In q S -> nn (wsel q (a q)) /\ cle (wsel q (a q)) one) ->
  (forall v, In v (support p) -> ~ In v Q -> nn (wlo v) /\ nn (whi v)) ->
  cle (mul (prodS a S) (vfold Q a c p)) (gub Jw m rest c p).
Proof.
  intros [_ R HQ] Ha. induction p as [| |c' v lo IHlo hi IHhi]; intros c S F ND SUP UNIT NN.
  - unfold gub, vfold. simpl. destruct (prodS_le_one a S UNIT) as [_ H1].
    destruct c; rewrite ?mul_one_r, ?mul_zero_r; auto.
  - unfold gub, vfold. simpl. destruct (prodS_le_one a S UNIT) as [_ H1].
    destruct c; rewrite ?mul_one_r, ?mul_zero_r; auto.
  - simpl in F. destruct F as (Nlo & Nhi & Flo & Fhi).
    assert (SUBlo : forall u, In u (support lo) -> In u (support (BN c' v lo hi))).
    { intros u Hu. simpl. right. apply in_or_app; auto. }
    assert (SUBhi : forall u, In u (support hi) -> In u (support (BN c' v lo hi))).
    { intros u Hu. simpl. right. apply in_or_app; auto. }
    unfold gub, vfold in *. cbn [bdd_fold_c]. unfold gstep at 1. unfold vstep at 1.
    destruct (m v) as [b|] eqn:Em.
    + assert (Eq : mem_var v Q = true) by (apply mem_var_In; apply HQ; left; congruence).
      rewrite Eq, (Ha v b Em). destruct b; [apply IHhi|apply IHlo]; auto.
    + destruct (mem_var v rest) eqn:Er.
      * apply mem_var_In in Er.
        assert (Eq : mem_var v Q = true) by (apply mem_var_In; apply HQ; auto).
        rewrite Eq.
        assert (HvS : In v S) by (apply SUP; simpl; auto).
        rewrite (prodS_filter a v S ND HvS), mul_assoc.
        set (S' := filter (fun u => negb (N.eqb u v)) S).
        assert (ND' : NoDup S') by (apply NoDup_filter; exact ND).
        assert (UNIT' : forall q, In q S' -> nn (wsel q (a q)) /\ cle (wsel q (a q)) one).
        { intros q Hq. apply UNIT. apply filter_In in Hq. tauto. }
        destruct (UNIT v HvS) as [NNv _]. unfold Jw.
        destruct (a v) eqn:Eav; cbn [wsel] in *.
        -- eapply cle_trans; [|apply join_ub_r]. apply mul_mono; auto.
           apply IHhi; auto. intros u Hu Hr. apply filter_In. split; [apply SUP; auto|].
           destruct (N.eqb_spec u v); [subst; contradiction|reflexivity].
        -- eapply cle_trans; [|apply join_ub_l]. apply mul_mono; auto.
           apply IHlo; auto. intros u Hu Hr. apply filter_In. split; [apply SUP; auto|].
           destruct (N.eqb_spec u v); [subst; contradiction|reflexivity].
      * apply mem_var_nIn in Er.
        assert (Eq : mem_var v Q = false).
        { apply mem_var_nIn. intros H. apply HQ in H. destruct H; [congruence|contradiction]. }
        rewrite Eq. apply mem_var_nIn in Eq. destruct (NN v) as [N1 N2]; simpl; auto.
        rewrite distr_l.
        rewrite <- !mul_assoc, (mul_comm (prodS a S) (wlo v)), (mul_comm (prodS a S) (whi v)), !mul_assoc.
        apply add_mono; apply mul_mono; auto.
Qed.

(* --- the search schemes --- *)
Section Search.
Variable Q : list var.
Variable V : asg -> T.                     (* value of a total assignment of the query variables *)
Variable ub : pm -> list var -> T.         (* bound of a partial assignment *)
Hypothesis ub_leaf : forall m a, Inv Q m [] -> agrees m a -> ub m [] = V a.
Hypothesis ub_upper : forall m rest a, Inv Q m rest -> agrees m a -> cle (V a) (ub m rest).

(* the incumbent is attained by a model that sets exactly the query variables *)
Definition good (lb : T) (best : pm) : Prop :=
  lb = V (asg_of best) /\ forall x, best x <> None <-> In x Q.

Lemma good_leaf m : Inv Q m [] -> good (ub m []) m.
Proof.
  intros I. split; [apply ub_leaf; auto using agrees_asg_of|].
  intros x. destruct I as [_ _ HQ]. rewrite HQ. tauto.
Qed.

(* what a call of the search on the subtree of [cur] guarantees *)
Definition post (cur : pm) (cur_lb : T) (r : T * pm) : Prop :=
  good (fst r) (snd r) /\ pre cur_lb (fst r) /\ forall a, agrees cur a -> pre (V a) (fst r).

(* a loop over the two children that keeps the incumbent good, never makes it worse and closes
   each child *)
Lemma two_children (step : T * pm -> T * pm -> T * pm) cur x e cur_lb cur_best :
  Inv Q cur (x :: e) -> good cur_lb cur_best ->
  (forall best um, good (fst best) (snd best) -> pre cur_lb (fst best) ->
     (exists b, snd um = pm_set cur x b /\ fst um = ub (snd um) e) ->
     post (snd um) (fst best) (step best um)) ->
  forall um1 um2,
  (snd um1 = pm_set cur x true /\ snd um2 = pm_set cur x false \/
   snd um1 = pm_set cur x false /\ snd um2 = pm_set cur x true) ->
  fst um1 = ub (snd um1) e -> fst um2 = ub (snd um2) e ->
  post cur cur_lb (fold_left step [um1; um2] (cur_lb, cur_best)).
Proof.
  intros I G ST um1 um2 ORD U1 U2. simpl.
  assert (Hx : cur x = None) by (apply (inv_rest _ _ _ I); simpl; auto).
  assert (B1 : exists b, snd um1 = pm_set cur x b /\ fst um1 = ub (snd um1) e).
  { destruct ORD as [[E _]|[E _]]; eauto. }
  assert (B2 : exists b, snd um2 = pm_set cur x b /\ fst um2 = ub (snd um2) e).
  { destruct ORD as [[_ E]|[_ E]]; eauto. }
  destruct (ST (cur_lb, cur_best) um1 G (pre_refl _) B1) as (G1 & P1 & C1). cbn [fst snd] in *.
  set (r1 := step (cur_lb, cur_best) um1) in *.
  destruct (ST r1 um2 G1 P1 B2) as (G2 & P2 & C2).
  set (r2 := step r1 um2) in *.
  split; [exact G2|]. split; [eapply pre_trans; eauto|].
  intros a Ha.
  assert (Hcase : agrees (snd um1) a \/ agrees (snd um2) a).
  { destruct ORD as [[E1 E2]|[E1 E2]]; rewrite E1, E2; destruct (a x) eqn:Eax;
      [left|right|right|left]; apply agrees_set; auto. }
  destruct Hcase as [H|H]; [eapply pre_trans; [apply C1; exact H|exact P2]|apply C2; exact H].
Qed.

(* scheme A: marginal_map_h and meu_h *)
Fixpoint searchA (cur_lb : T) (cur_best : pm) (vars : list var) (cur : pm) : T * pm :=
  match vars with
  | [] =>
    let possible_best := ub cur [] in
    if gtb possible_best cur_lb then (possible_best, cur) else (cur_lb, cur_best)
  | x :: end_ =>
    let true_model := pm_set cur x true in
    let false_model := pm_set cur x false in
    let true_ub := ub true_model end_ in
    let false_ub := ub false_model end_ in
    let order := if gtb true_ub false_ub
                 then [(true_ub, true_model); (false_ub, false_model)]
                 else [(false_ub, false_model); (true_ub, true_model)] in
    fold_left (fun (best : T * pm) (um : T * pm) =>
                 if gtb (fst um) (fst best)
                 then searchA (fst best) (snd best) end_ (snd um)
                 else best) order (cur_lb, cur_best)
  end.

Theorem searchA_ok : forall vars cur cur_lb cur_best,
  Inv Q cur vars -> good cur_lb cur_best -> post cur cur_lb (searchA cur_lb cur_best vars cur).
Proof.
  induction vars as [|x e IH]; intros cur cur_lb cur_best I G.
  - cbn [searchA]. destruct (gtb (ub cur []) cur_lb) eqn:E.
    + split; [apply good_leaf; auto|]. cbn [fst snd]. split; [apply gtb_true_pre; auto|].
      intros a Ha. rewrite (ub_leaf cur a I Ha). apply pre_refl.
    + split; [exact G|]. cbn [fst snd]. split; [apply pre_refl|].
      intros a Ha. rewrite <- (ub_leaf cur a I Ha). apply gtb_false_pre; auto.
  - cbn [searchA].
    set (step := fun (best um : T * pm) =>
                   if gtb (fst um) (fst best) then searchA (fst best) (snd best) e (snd um) else best).
    assert (ST : forall best um, good (fst best) (snd best) -> pre cur_lb (fst best) ->
              (exists b, snd um = pm_set cur x b /\ fst um = ub (snd um) e) ->
              post (snd um) (fst best) (step best um)).
    { intros best um Gb Pb (b & Em & Eu). unfold step.
      assert (I' : Inv Q (snd um) e) by (rewrite Em; apply Inv_step; auto).
      destruct (gtb (fst um) (fst best)) eqn:Eg.
      - apply IH; auto.
      - split; [exact Gb|]. split; [apply pre_refl|]. intros a Ha.
        eapply pre_trans; [apply cle_pre; apply (ub_upper (snd um) e a I' Ha)|].
        rewrite <- Eu. apply gtb_false_pre; auto. }
    destruct (gtb (ub (pm_set cur x true) e) (ub (pm_set cur x false) e));
      apply (two_children step cur x e cur_lb cur_best I G ST); cbn [fst snd]; auto.
Qed.

(* scheme B: bb_h (pruning test against cur_lb, reset branch) *)
Fixpoint searchB (cur_lb : T) (cur_best : pm) (vars : list var) (cur : pm) : T * pm :=
  match vars with
  | [] =>
    let possible_best := ub cur [] in
    let best := choose cur_lb possible_best in
    if eqb cur_lb best then (cur_lb, cur_best) else (possible_best, cur)
  | x :: end_ =>
    let true_model := pm_set cur x true in
    let false_model := pm_set cur x false in
    let true_ub := ub true_model end_ in
    let false_ub := ub false_model end_ in
    let order := if eqb true_ub (choose true_ub false_ub)
                 then [(true_ub, true_model); (false_ub, false_model)]
                 else [(false_ub, false_model); (true_ub, true_model)] in
    fold_left (fun (best : T * pm) (um : T * pm) =>
                 if negb (leb (fst um) cur_lb)
                 then
                   let r := searchB (fst best) (snd best) end_ (snd um) in
                   let new_lb := choose cur_lb (fst r) in
                   if eqb new_lb (fst r) then (fst r, snd r) else (cur_lb, cur_best)
                 else best) order (cur_lb, cur_best)
  end.

Theorem searchB_ok : forall vars cur cur_lb cur_best,
  Inv Q cur vars -> good cur_lb cur_best -> post cur cur_lb (searchB cur_lb cur_best vars cur).
Proof.
  induction vars as [|x e IH]; intros cur cur_lb cur_best I G.
  - cbn [searchB]. destruct (eqb cur_lb (choose cur_lb (ub cur []))) eqn:E.
    + apply eqb_eq in E. split; [exact G|]. cbn [fst snd]. split; [apply pre_refl|].
      intros a Ha. rewrite <- (ub_leaf cur a I Ha).
      destruct (pre_total (ub cur []) cur_lb) as [H|H]; auto.
      unfold pre in H. rewrite H in E. rewrite E. apply pre_refl.
    + assert (N : choose cur_lb (ub cur []) <> cur_lb).
      { intros H. rewrite H in E. assert (eqb cur_lb cur_lb = true) by (apply eqb_eq; auto). congruence. }
      assert (P : pre cur_lb (ub cur [])).
      { unfold pre. destruct (choose_cases cur_lb (ub cur [])); congruence. }
      split; [apply good_leaf; auto|]. cbn [fst snd]. split; [exact P|].
      intros a Ha. rewrite (ub_leaf cur a I Ha). apply pre_refl.
  - cbn [searchB].
    set (step := fun (best um : T * pm) =>
                   if negb (leb (fst um) cur_lb)
                   then
                     let r := searchB (fst best) (snd best) e (snd um) in
                     let new_lb := choose cur_lb (fst r) in
                     if eqb new_lb (fst r) then (fst r, snd r) else (cur_lb, cur_best)
                   else best).
    assert (ST : forall best um, good (fst best) (snd best) -> pre cur_lb (fst best) ->
              (exists b, snd um = pm_set cur x b /\ fst um = ub (snd um) e) ->
              post (snd um) (fst best) (step best um)).
    { intros best um Gb Pb (b & Em & Eu). unfold step.
      assert (I' : Inv Q (snd um) e) by (rewrite Em; apply Inv_step; auto).
      destruct (leb (fst um) cur_lb) eqn:El; cbn [negb].
      - split; [exact Gb|]. split; [apply pre_refl|]. intros a Ha.
        eapply pre_trans; [apply cle_pre; apply (ub_upper (snd um) e a I' Ha)|].
        rewrite <- Eu. eapply pre_trans; [apply leb_pre; exact El|exact Pb].
      - destruct (IH (snd um) (fst best) (snd best) I' Gb) as (Gr & Pr & Cr).
        set (r := searchB (fst best) (snd best) e (snd um)) in *. cbv zeta.
        assert (P : pre cur_lb (fst r)) by (eapply pre_trans; eauto).
        assert (E : eqb (choose cur_lb (fst r)) (fst r) = true) by (apply eqb_eq; exact P).
        rewrite E. split; [exact Gr|]. split; [exact Pr|exact Cr]. }
    destruct (eqb (ub (pm_set cur x true) e) (choose (ub (pm_set cur x true) e) (ub (pm_set cur x false) e)));
      apply (two_children step cur x e cur_lb cur_best I G ST); cbn [fst snd]; auto.
Qed.

(* the top-level calls: incumbent = all query variables true, search from the empty model *)
Theorem search_top (search : T -> pm -> list var -> pm -> T * pm) m0 :
  (forall vars cur cur_lb cur_best, Inv Q cur vars -> good cur_lb cur_best ->
     post cur cur_lb (search cur_lb cur_best vars cur)) ->
  NoDup Q -> (forall x, m0 x = all_true Q x) ->
  let r := search (ub m0 []) m0 Q pm_empty in
  fst r = V (asg_of (snd r)) /\ (forall x, snd r x <> None <-> In x Q) /\
  forall a, pre (V a) (fst r).
Proof.
  intros OK ND Hm0 r.
  assert (I0 : Inv Q m0 []) by (apply Inv_all_true; auto).
  destruct (OK Q pm_empty (ub m0 []) m0 (Inv_init Q ND) (good_leaf m0 I0)) as ((G1 & G2) & _ & C).
  fold r in G1, G2, C. repeat split; auto; try apply G2.
  intros a. apply C. intros x b H. discriminate H.
Qed.
End Search.

(* --- the bound functions of the code, in closed form --- *)
Section Weighted.
(* marginal_map_eval / bb_ub: weighted join, literal weights multiplied in *)
Variable Q : list var.
Variable n : nat.
Variable p : bdd.
Hypothesis HF : free_bdd p.
Hypothesis NDQ : NoDup Q.
Hypothesis HQn : forall q, In q Q -> N.to_nat q < n.
(* weights of the query variables in the unit interval, the others non-negative *)
Hypothesis unitQ : forall q b, In q Q -> nn (wsel q b) /\ cle (wsel q b) one.
Hypothesis nnO : forall v, In v (support p) -> ~ In v Q -> nn (wlo v) /\ nn (whi v).

Definition Vw (a : asg) : T := mul (prodS a Q) (vfold Q a false p).
Definition ubw (m : pm) (rest : list var) : T :=
  mul (gub Jw m rest false p) (prodG (gm m) (var_range n)).

Lemma ubw_leaf m a : Inv Q m [] -> agrees m a -> ubw m [] = Vw a.
Proof.
  intros I Ha. unfold ubw, Vw. rewrite (gub_leaf Jw Q m a I Ha).
  rewrite (prod_split Q m [] a n NDQ HQn I Ha). cbn [prodS fold_right].
  rewrite mul_one_r. apply mul_comm.
Qed.

Lemma ubw_upper m rest a : Inv Q m rest -> agrees m a -> cle (Vw a) (ubw m rest).
Proof.
  intros I Ha. unfold ubw, Vw.
  rewrite (prod_split Q m rest a n NDQ HQn I Ha), mul_assoc.
  rewrite (mul_comm (gub Jw m rest false p)). apply mul_mono.
  - apply nn_prodG. intros x _. unfold gm. destruct (m x) as [b|] eqn:Em; [|exact nn_one].
    apply unitQ. apply (inv_Q _ _ _ I). left. congruence.
  - apply (gub_weighted_ub Q m rest a I Ha p false rest HF (inv_nodup _ _ _ I)); auto.
    intros q Hq. apply unitQ. apply (inv_Q _ _ _ I). auto.
Qed.

(* marginal_map_eval: fold first, then the literals; bb_ub: literals first, then the fold *)
Lemma ubw_post m rest : litprod m n (gub Jw m rest false p) = ubw m rest.
Proof. apply litprod_eq. Qed.
Lemma ubw_pre m rest : mul (litprod m n one) (gub Jw m rest false p) = ubw m rest.
Proof. rewrite litprod_eq, mul_one_l'. apply mul_comm. Qed.

(* any bound function that computes ubw (the two shapes above) *)
Variable ub : pm -> list var -> T.
Hypothesis ub_eq : forall m rest, ub m rest = ubw m rest.

Lemma ub_leaf_w m a : Inv Q m [] -> agrees m a -> ub m [] = Vw a.
Proof. rewrite ub_eq. apply ubw_leaf. Qed.
Lemma ub_upper_w m rest a : Inv Q m rest -> agrees m a -> cle (Vw a) (ub m rest).
Proof. rewrite ub_eq. apply ubw_upper. Qed.

Theorem searchA_weighted m0 : (forall x, m0 x = all_true Q x) ->
  let r := searchA ub (ub m0 []) m0 Q pm_empty in
  fst r = Vw (asg_of (snd r)) /\ (forall x, snd r x <> None <-> In x Q) /\
  forall a, pre (Vw a) (fst r).
Proof.
  intros Hm. apply (search_top Q Vw ub ub_leaf_w (searchA ub) m0); auto.
  apply searchA_ok; auto using ub_leaf_w, ub_upper_w.
Qed.

Theorem searchB_weighted m0 : (forall x, m0 x = all_true Q x) ->
  let r := searchB ub (ub m0 []) m0 Q pm_empty in
  fst r = Vw (asg_of (snd r)) /\ (forall x, snd r x <> None <-> In x Q) /\
  forall a, pre (Vw a) (fst r).
Proof.
  intros Hm. apply (search_top Q Vw ub ub_leaf_w (searchB ub) m0); auto.
  apply searchB_ok; auto using ub_leaf_w, ub_upper_w.
Qed.
End Weighted.

Section Plain.
(* eu_ub: unweighted join, no literal weights *)
Variable Q : list var.
Variable p : bdd.
Hypothesis NDQ : NoDup Q.
Hypothesis nnO : forall v, In v (support p) -> ~ In v Q -> nn (wlo v) /\ nn (whi v).

Definition Vp (a : asg) : T := vfold Q a false p.
Definition ubp (m : pm) (rest : list var) : T := gub Jplain m rest false p.

Lemma ubp_leaf m a : Inv Q m [] -> agrees m a -> ubp m [] = Vp a.
Proof. intros I Ha. apply gub_leaf; auto. Qed.
Lemma ubp_upper m rest a : Inv Q m rest -> agrees m a -> cle (Vp a) (ubp m rest).
Proof. intros I Ha. apply gub_plain_ub; auto. Qed.

Theorem searchA_plain m0 : (forall x, m0 x = all_true Q x) ->
  let r := searchA ubp (ubp m0 []) m0 Q pm_empty in
  fst r = Vp (asg_of (snd r)) /\ (forall x, snd r x <> None <-> In x Q) /\
  forall a, pre (Vp a) (fst r).
Proof.
  intros Hm. apply (search_top Q Vp ubp ubp_leaf (searchA ubp) m0); auto.
  apply searchA_ok; auto using ubp_leaf, ubp_upper.
Qed.
End Plain.
End Abs.

(* ===================================================================================== *)
(* 4. the value of a completion is a semantic weighted count                               *)
Section Sem.
Context {T : Type}.
Variables (add mul : T -> T -> T) (zero one : T).
Hypothesis add_comm : forall a b, add a b = add b a.
Hypothesis add_assoc : forall a b c, add (add a b) c = add a (add b c).
Hypothesis mul_assoc : forall a b c, mul (mul a b) c = mul a (mul b c).
Hypothesis mul_comm : forall a b, mul a b = mul b a.
Hypothesis mul_one_r : forall a, mul a one = a.
Hypothesis distr_l : forall a b c, mul a (add b c) = add (mul a b) (mul a c).
Variable wlo whi : var -> T.
Variable Q : list var.

Notation vfoldQ := (vfold add mul zero one wlo whi Q).
Notation wspec := (wmc_spec T add mul zero one wlo whi).

Lemma distr_r' a b c : mul (add a b) c = add (mul a c) (mul b c).
Proof. rewrite mul_comm, distr_l, (mul_comm c a), (mul_comm c b). reflexivity. Qed.

(* a constant function: normalisation is only needed on the listed variables *)
Lemma wmc_spec_const_on vars b : (forall v, In v vars -> add (wlo v) (whi v) = one) ->
  forall x, wspec vars (fun _ => b) x = if b then one else zero.
Proof.
  induction vars as [|v vs IH]; intros Hn x; simpl; auto.
  rewrite !IH by (intros; apply Hn; simpl; auto).
  rewrite <- distr_r', Hn by (simpl; auto). rewrite mul_comm. apply mul_one_r.
Qed.

(* (a) normalised weights on the non-query variables: the value fold of a free diagram is the sum
   over all assignments of the non-query variables (the query variables keep the values of a)
   of the product of their literal weights, restricted to the models *)
Theorem vfold_spec : forall p c others a,
  free_bdd p -> NoDup others -> (forall x, In x Q -> ~ In x others) ->
  (forall u, In u (support p) -> In u Q \/ In u others) ->
  (forall v, In v others -> add (wlo v) (whi v) = one) ->
  vfoldQ a c p = wspec others (fun y => xorb c (den p y)) a.
Proof.
  induction p as [| |c' v lo IHlo hi IHhi]; intros c others a F ND DISJ SUP NORM.
  - unfold vfold. simpl. rewrite (wmc_spec_const_on others (xorb c true) NORM). destruct c; reflexivity.
  - unfold vfold. simpl. rewrite (wmc_spec_const_on others (xorb c false) NORM). destruct c; reflexivity.
  - simpl in F. destruct F as (Nlo & Nhi & Flo & Fhi).
    assert (SUPlo : forall u, In u (support lo) -> In u Q \/ In u others).
    { intros u Hu. apply SUP. simpl. right. apply in_or_app; auto. }
    assert (SUPhi : forall u, In u (support hi) -> In u Q \/ In u others).
    { intros u Hu. apply SUP. simpl. right. apply in_or_app; auto. }
    unfold vfold in *. cbn [bdd_fold_c]. unfold vstep at 1.
    destruct (mem_var v Q) eqn:Eq.
    + apply mem_var_In in Eq. pose proof (DISJ v Eq) as Hnv.
      destruct (a v) eqn:Eav.
      * rewrite (IHhi (xorb c c') others a Fhi ND DISJ SUPhi NORM).
        apply wmc_spec_local. intros y Hy. cbn [den]. rewrite (Hy v Hnv), Eav, xorb_assoc. reflexivity.
      * rewrite (IHlo (xorb c c') others a Flo ND DISJ SUPlo NORM).
        apply wmc_spec_local. intros y Hy. cbn [den]. rewrite (Hy v Hnv), Eav, xorb_assoc. reflexivity.
    + apply mem_var_nIn in Eq.
      assert (Hv : In v others) by (destruct (SUP v); simpl; auto; contradiction).
      destruct (in_split _ _ Hv) as (l1 & l2 & ->).
      assert (P : Permutation (l1 ++ v :: l2) (v :: l1 ++ l2)) by (symmetry; apply Permutation_middle).
      assert (ND' : NoDup (v :: l1 ++ l2)) by (eapply Permutation_NoDup; eauto).
      inversion ND' as [|? ? Hnv ND'']; subst.
      assert (IN' : forall u, In u (l1 ++ l2) -> In u (l1 ++ v :: l2)).
      { intros u Hu. apply (Permutation_in _ (Permutation_sym P)). simpl; auto. }
      assert (DISJ' : forall x, In x Q -> ~ In x (l1 ++ l2)) by (intros x Hx H; apply (DISJ x Hx); auto).
      assert (NORM' : forall u, In u (l1 ++ l2) -> add (wlo u) (whi u) = one) by (intros; apply NORM; auto).
      assert (SUPlo' : forall u, In u (support lo) -> In u Q \/ In u (l1 ++ l2)).
      { intros u Hu. destruct (SUPlo u Hu) as [|H]; auto. right.
        apply (Permutation_in _ P) in H. destruct H as [<-|]; [contradiction|auto]. }
      assert (SUPhi' : forall u, In u (support hi) -> In u Q \/ In u (l1 ++ l2)).
      { intros u Hu. destruct (SUPhi u Hu) as [|H]; auto. right.
        apply (Permutation_in _ P) in H. destruct H as [<-|]; [contradiction|auto]. }
      rewrite (wmc_spec_perm T add mul zero one add_comm add_assoc mul_assoc mul_comm distr_l wlo whi _ _ P)
        by (intros y y' H; rewrite (den_ext_fun _ y y' H); reflexivity).
      cbn [Wmc.wmc_spec].
      (* the value fold only reads a on the query variables *)
      assert (VF : forall q b cc,
                 bdd_fold_c (vstep add mul wlo whi Q (upd a v b)) zero one cc q =
                 bdd_fold_c (vstep add mul wlo whi Q a) zero one cc q).
      { clear - Eq. induction q as [| |c2 u l IHl h IHh]; intros b cc; try reflexivity.
        cbn [bdd_fold_c]. rewrite IHl, IHh. unfold vstep.
        destruct (mem_var u Q) eqn:Eu; auto. apply mem_var_In in Eu.
        unfold upd. destruct (N.eqb_spec u v); [subst; contradiction|reflexivity]. }
      rewrite <- (VF lo false (xorb c c')), <- (VF hi true (xorb c c')).
      rewrite (IHlo (xorb c c') (l1 ++ l2) (upd a v false) Flo ND'' DISJ' SUPlo' NORM').
      rewrite (IHhi (xorb c c') (l1 ++ l2) (upd a v true) Fhi ND'' DISJ' SUPhi' NORM').
      f_equal; f_equal; apply wmc_spec_local; intros y Hy; cbn [den];
        rewrite (Hy v Hnv), upd_same; rewrite ?xorb_assoc; reflexivity.
Qed.
End Sem.
