(* C12: marginal MAP, MEU and the generic branch and bound return true optima.

   Structure of the development:
   1. an abstract ordered semiring (operations as section variables, laws as hypotheses):
      commutative semiring + a bounding order [cle] compatible with + and * on non-negative
      elements + join as an upper bound + the total preorder induced by [choose];
   2. the bound folds ([gub]) dominate the value of every completion ([vfold]), and coincide with
      it when every query variable is assigned;
   3. the two search schemes (marginal_map_h / meu_h, and bb_h) are correct for every bound
      function that is exact on leaves and an upper bound inside: induction on the list of query
      variables with the invariant "the incumbent is attained, and every completion of a closed
      subtree is dominated by it";
   4. the value of a completion is the semantic weighted count: the sum over the non-query
      variables for normalised weights ([vfold_spec]), the dependency-restricted sum
      ([wmc_dep], = unsmoothed count of the ROBDD of the restricted function) for expected
      utilities ([vfold_dep]);
   5. instances: exact rationals (RealSemiring) and pairs of them (ExpectedUtility). *)
From Coq Require Import Bool NArith ZArith QArith Qcanon List Lia Arith Permutation.
Import ListNotations.
From RsddV Require Import Base.Bdd Model.Semirings Proofs.Semirings Model.Wmc Proofs.Wmc
  Proofs.BddCanon Proofs.Smooth Model.Optim.
Local Open Scope nat_scope.

(* ------------------------------------------------------------------------------------- *)
(* partial models                                                                          *)
Lemma mem_var_In x l : mem_var x l = true <-> In x l.
Proof.
  unfold mem_var. rewrite existsb_exists. split.
  - intros (y & Hy & E). apply N.eqb_eq in E. subst; auto.
  - intros H; exists x; split; auto. apply N.eqb_refl.
Qed.
Lemma mem_var_nIn x l : mem_var x l = false <-> ~ In x l.
Proof. rewrite <- mem_var_In. destruct (mem_var x l); split; congruence. Qed.

(* a total assignment that extends a partial model *)
Definition agrees (m : pm) (a : asg) : Prop := forall x b, m x = Some b -> a x = b.
Definition asg_of (m : pm) : asg := fun x => match m x with Some b => b | None => false end.
Lemma agrees_asg_of m : agrees m (asg_of m).
Proof. intros x b H. unfold asg_of. rewrite H. reflexivity. Qed.

(* state of the search: [m] assigns a part of the query variables Q, [rest] are the others *)
Record Inv (Q : list var) (m : pm) (rest : list var) : Prop := {
  inv_nodup : NoDup rest;
  inv_rest : forall x, In x rest -> m x = None;
  inv_Q : forall x, In x Q <-> (m x <> None \/ In x rest) }.

Lemma Inv_init Q : NoDup Q -> Inv Q pm_empty Q.
Proof.
  intros ND. constructor; auto. intros x. unfold pm_empty. split; [auto|]. intros [H|H]; [congruence|auto].
Qed.

Lemma Inv_step Q m x e b : Inv Q m (x :: e) -> Inv Q (pm_set m x b) e.
Proof.
  intros [ND R HQ]. inversion ND as [|? ? Hx ND']; subst. constructor; auto.
  - intros y Hy. unfold pm_set. destruct (N.eqb_spec y x); [subst; contradiction|]. apply R; simpl; auto.
  - intros y. rewrite HQ. unfold pm_set. destruct (N.eqb_spec y x) as [->|Hne]; simpl.
    + split; intros _; [left; congruence|auto].
    + split; intros [H|H]; auto. destruct H; [congruence|auto].
Qed.

Lemma agrees_set m x b a : m x = None -> agrees m a -> a x = b -> agrees (pm_set m x b) a.
Proof.
  intros Hn Ha Hx y c. unfold pm_set. destruct (N.eqb_spec y x); [subst; congruence|apply Ha].
Qed.
Lemma agrees_unset m x b a : m x = None -> agrees (pm_set m x b) a -> agrees m a.
Proof.
  intros Hn Ha y c Hy. apply Ha. unfold pm_set. destruct (N.eqb_spec y x); [subst; congruence|exact Hy].
Qed.

(* from_litvec of the all-true literals *)
Definition all_true (Q : list var) : pm := fun x => if mem_var x Q then Some true else None.

Lemma from_litvec_ok n : forall (Q : list var) m0,
  (forall q, In q Q -> N.to_nat q < n) ->
  exists m, fold_left (fun acc l =>
               match acc with
               | None => None
               | Some m => if Nat.ltb (N.to_nat (fst l)) n
                           then Some (pm_set m (fst l) (snd l)) else None
               end) (map (fun x : var => (x, true)) Q) (Some m0) = Some m /\
            forall x, m x = if mem_var x Q then Some true else m0 x.
Proof.
  induction Q as [|q Q IH]; intros m0 Hn; simpl.
  - exists m0; auto.
  - assert (Hq : N.to_nat q < n) by (apply Hn; simpl; auto).
    apply Nat.ltb_lt in Hq. rewrite Hq.
    destruct (IH (pm_set m0 q true)) as (m & E & Hm); [intros; apply Hn; simpl; auto|].
    exists m. split; auto. intros x. rewrite Hm. unfold pm_set.
    rewrite (N.eqb_sym x q). destruct (N.eqb q x); simpl; auto. destruct (mem_var x Q); auto.
Qed.

Lemma from_litvec_all_true n (Q : list var) : (forall q, In q Q -> N.to_nat q < n) ->
  exists m, pm_from_litvec (map (fun x : var => (x, true)) Q) n = Some m /\ forall x, m x = all_true Q x.
Proof.
  intros Hn. destruct (from_litvec_ok n Q pm_empty Hn) as (m & E & Hm). exists m. split; [exact E|].
  intros x. rewrite Hm. unfold all_true, pm_empty. reflexivity.
Qed.

Lemma Inv_all_true Q m : (forall x, m x = all_true Q x) -> Inv Q m [].
Proof.
  intros Hm. constructor; [constructor|intros x []|].
  intros x. rewrite Hm. unfold all_true. destruct (mem_var x Q) eqn:E.
  - apply mem_var_In in E. split; auto. intros _. left; congruence.
  - apply mem_var_nIn in E. split; [contradiction|]. intros [H|[]]. congruence.
Qed.

Lemma fold_left_ext {A B} (f g : A -> B -> A) l : (forall a b, f a b = g a b) ->
  forall i, fold_left f l i = fold_left g l i.
Proof. intros E. induction l as [|x l IH]; intros i; simpl; auto. rewrite E. apply IH. Qed.

Lemma var_range_In n x : In x (var_range n) <-> N.to_nat x < n.
Proof.
  unfold var_range. rewrite in_map_iff. split.
  - intros (k & <- & Hk). apply in_seq in Hk. rewrite Nat2N.id. lia.
  - intros H. exists (N.to_nat x). rewrite N2Nat.id. split; auto. apply in_seq. lia.
Qed.
Lemma var_range_NoDup n : NoDup (var_range n).
Proof.
  unfold var_range. apply FinFun.Injective_map_NoDup; [|apply seq_NoDup].
  intros a b H. apply Nat2N.inj. exact H.
Qed.

(* ===================================================================================== *)
(* 1-3. abstract ordered semiring, bounds, search                                          *)
Section Abs.
Context {T : Type}.
Variables (add mul : T -> T -> T) (zero one : T).
Variables (join choose : T -> T -> T) (leb eqb gtb : T -> T -> bool).
(* commutative semiring *)
Hypothesis add_comm : forall a b, add a b = add b a.
Hypothesis add_assoc : forall a b c, add (add a b) c = add a (add b c).
Hypothesis mul_assoc : forall a b c, mul (mul a b) c = mul a (mul b c).
Hypothesis mul_comm : forall a b, mul a b = mul b a.
Hypothesis mul_one_r : forall a, mul a one = a.
Hypothesis mul_zero_r : forall a, mul a zero = zero.
Hypothesis add_zero_r : forall a, add a zero = a.
Hypothesis distr_l : forall a b c, mul a (add b c) = add (mul a b) (mul a c).
(* the bounding order and the non-negative elements *)
Variable cle : T -> T -> Prop.
Variable nn : T -> Prop.
Hypothesis cle_refl : forall a, cle a a.
Hypothesis cle_trans : forall a b c, cle a b -> cle b c -> cle a c.
Hypothesis add_mono : forall a a' b b', cle a a' -> cle b b' -> cle (add a b) (add a' b').
Hypothesis mul_mono : forall w x y, nn w -> cle x y -> cle (mul w x) (mul w y).
Hypothesis join_ub_l : forall a b, cle a (join a b).
Hypothesis join_ub_r : forall a b, cle b (join a b).
Hypothesis nn_one : nn one.
Hypothesis nn_mul : forall a b, nn a -> nn b -> nn (mul a b).
Hypothesis unit_mul : forall a b, nn a -> nn b -> cle a one -> cle b one -> cle (mul a b) one.
(* the preorder of [choose]: b is at least as good as a *)
Definition pre (a b : T) : Prop := choose a b = b.
Hypothesis pre_total : forall a b, pre a b \/ pre b a.
Hypothesis pre_trans : forall a b c, pre a b -> pre b c -> pre a c.
Hypothesis choose_cases : forall a b, choose a b = a \/ choose a b = b.
Hypothesis eqb_eq : forall a b, eqb a b = true <-> a = b.
Hypothesis leb_pre : forall a b, leb a b = true -> pre a b.
Hypothesis gtb_false_pre : forall a b, gtb a b = false -> pre a b.
Hypothesis gtb_true_pre : forall a b, gtb a b = true -> pre b a.
Hypothesis cle_pre : forall a b, cle a b -> pre a b.

Lemma pre_refl a : pre a a.
Proof. destruct (pre_total a a); auto. Qed.
Lemma mul_one_l' a : mul one a = a.
Proof. rewrite mul_comm. apply mul_one_r. Qed.
Lemma mul_zero_l' a : mul zero a = zero.
Proof. rewrite mul_comm. apply mul_zero_r. Qed.
Lemma add_zero_l' a : add zero a = a.
Proof. rewrite add_comm. apply add_zero_r. Qed.

Variable wlo whi : var -> T.
Definition wsel (v : var) (b : bool) : T := if b then whi v else wlo v.

(* --- products of literal weights --- *)
Definition prodS (a : asg) (S : list var) : T :=
  fold_right (fun q acc => mul (wsel q (a q)) acc) one S.
Definition prodG (g : var -> T) (dom : list var) : T :=
  fold_right (fun x acc => mul (g x) acc) one dom.
Definition gm (m : pm) (x : var) : T := match m x with Some b => wsel x b | None => one end.

Lemma prodG_ext g h dom : (forall x, In x dom -> g x = h x) -> prodG g dom = prodG h dom.
Proof.
  induction dom as [|x dom IH]; simpl; intros E; auto. rewrite E, IH; auto.
Qed.
Lemma prodG_mul g h dom : prodG (fun x => mul (g x) (h x)) dom = mul (prodG g dom) (prodG h dom).
Proof.
  induction dom as [|x dom IH]; simpl.
  - rewrite mul_one_r. reflexivity.
  - rewrite IH. rewrite !mul_assoc. f_equal. rewrite <- !mul_assoc. f_equal. apply mul_comm.
Qed.
Lemma prodG_one dom : prodG (fun _ => one) dom = one.
Proof. induction dom as [|x dom IH]; simpl; auto. rewrite IH. apply mul_one_r. Qed.

Lemma prodS_filter a v S : NoDup S -> In v S ->
  prodS a S = mul (wsel v (a v)) (prodS a (filter (fun u => negb (N.eqb u v)) S)).
Proof.
  induction S as [|u S IH]; intros ND Hin; [contradiction|].
  inversion ND as [|? ? Hu ND']; subst. simpl.
  destruct (N.eqb_spec u v) as [->|Hne]; simpl.
  - f_equal. f_equal. symmetry. clear IH ND Hin ND'. induction S as [|w S IH]; simpl; auto.
    destruct (N.eqb_spec w v) as [->|]; simpl.
    + exfalso. apply Hu. simpl; auto.
    + f_equal. apply IH. intros H. apply Hu. simpl; auto.
  - destruct Hin as [->|Hin]; [congruence|]. rewrite (IH ND' Hin).
    rewrite <- !mul_assoc. f_equal. apply mul_comm.
Qed.

(* a product over a duplicate-free list, spread over a duplicate-free domain that contains it *)
Lemma prodS_dom a : forall dom S, NoDup dom -> NoDup S -> incl S dom ->
  prodS a S = prodG (fun x => if mem_var x S then wsel x (a x) else one) dom.
Proof.
  induction dom as [|x dom IH]; intros S NDd NDs INC.
  - destruct S as [|s S]; [reflexivity|]. exfalso. apply (INC s). simpl; auto.
  - inversion NDd as [|? ? Hx NDd']; subst. cbn [prodG fold_right].
    destruct (mem_var x S) eqn:E.
    + apply mem_var_In in E. rewrite (prodS_filter a x S NDs E). f_equal.
      rewrite (IH (filter (fun u => negb (N.eqb u x)) S)); auto using NoDup_filter.
      * apply prodG_ext. intros y Hy.
        assert (Hne : y <> x) by (intros ->; contradiction).
        destruct (mem_var y S) eqn:Ey.
        -- apply mem_var_In in Ey.
           assert (Ey' : mem_var y (filter (fun u => negb (N.eqb u x)) S) = true).
           { apply mem_var_In. apply filter_In. split; auto. destruct (N.eqb_spec y x); [contradiction|reflexivity]. }
           rewrite Ey'. reflexivity.
        -- apply mem_var_nIn in Ey.
           assert (Ey' : mem_var y (filter (fun u => negb (N.eqb u x)) S) = false).
           { apply mem_var_nIn. intros H. apply filter_In in H. tauto. }
           rewrite Ey'. reflexivity.
      * intros y Hy. apply filter_In in Hy. destruct Hy as [Hy Hn].
        destruct (INC y Hy) as [<-|]; auto. rewrite N.eqb_refl in Hn. discriminate.
    + apply mem_var_nIn in E. rewrite mul_one_l'. apply IH; auto.
      intros y Hy. destruct (INC y Hy) as [<-|]; auto. contradiction.
Qed.

(* the literals of a partial model in assignment_iter order, multiplied into an accumulator *)
Definition litprod (m : pm) (n : nat) (init : T) : T :=
  fold_left (fun acc (l : var * bool) => mul acc (wsel (fst l) (snd l))) (assignment_iter m n) init.

Lemma litprod_part m b0 dom : forall i,
  fold_left (fun acc (l : var * bool) => mul acc (wsel (fst l) (snd l)))
            (map (fun x => (x, b0)) (filter (fun x => is_some_b b0 (m x)) dom)) i =
  mul i (prodG (fun x => if is_some_b b0 (m x) then wsel x b0 else one) dom).
Proof.
  induction dom as [|x dom IH]; intros i; simpl.
  - rewrite mul_one_r. reflexivity.
  - destruct (is_some_b b0 (m x)); simpl.
    + rewrite IH. rewrite mul_assoc. reflexivity.
    + rewrite IH, mul_one_l'. reflexivity.
Qed.

Lemma litprod_eq m n i : litprod m n i = mul i (prodG (gm m) (var_range n)).
Proof.
  unfold litprod, assignment_iter. rewrite fold_left_app, !litprod_part.
  rewrite mul_assoc. f_equal. rewrite <- prodG_mul. apply prodG_ext. intros x _.
  unfold gm. destruct (m x) as [[|]|]; simpl; rewrite ?mul_one_r, ?mul_one_l'; reflexivity.
Qed.

(* Q = assigned part + rest: the product over Q splits accordingly *)
Lemma prod_split Q m rest a n : NoDup Q -> (forall q, In q Q -> N.to_nat q < n) ->
  Inv Q m rest -> agrees m a ->
  prodS a Q = mul (prodG (gm m) (var_range n)) (prodS a rest).
Proof.
  intros NDQ Hn [NDr R HQ] Ha.
  assert (INCQ : incl Q (var_range n)) by (intros q Hq; apply var_range_In; auto).
  assert (INCr : incl rest (var_range n)).
  { intros q Hq. apply INCQ. apply HQ. auto. }
  rewrite (prodS_dom a (var_range n) Q (var_range_NoDup n) NDQ INCQ).
  rewrite (prodS_dom a (var_range n) rest (var_range_NoDup n) NDr INCr).
  rewrite <- prodG_mul. apply prodG_ext. intros x Hx. unfold gm.
  destruct (mem_var x rest) eqn:Er.
  - apply mem_var_In in Er. rewrite (R x Er).
    assert (Eq : mem_var x Q = true) by (apply mem_var_In; apply HQ; auto).
    rewrite Eq, mul_one_l'. reflexivity.
  - apply mem_var_nIn in Er. destruct (m x) as [b|] eqn:Em.
    + assert (Eq : mem_var x Q = true) by (apply mem_var_In; apply HQ; left; congruence).
      rewrite Eq, mul_one_r, (Ha x b Em). reflexivity.
    + assert (Eq : mem_var x Q = false).
      { apply mem_var_nIn. intros H. apply HQ in H. destruct H; [congruence|contradiction]. }
      rewrite Eq, mul_one_r. reflexivity.
Qed.

Lemma nn_prodG g dom : (forall x, In x dom -> nn (g x)) -> nn (prodG g dom).
Proof.
  induction dom as [|x dom IH]; simpl; intros H; [exact nn_one|].
  apply nn_mul; [apply H; auto|apply IH; intros; apply H; auto].
Qed.
Lemma prodS_le_one a S : (forall q, In q S -> nn (wsel q (a q)) /\ cle (wsel q (a q)) one) ->
  nn (prodS a S) /\ cle (prodS a S) one.
Proof.
  induction S as [|q S IH]; simpl; intros H; [split; [exact nn_one|apply cle_refl]|].
  destruct IH as [IH1 IH2]; [intros; apply H; auto|]. destruct (H q) as [H1 H2]; [auto|].
  split; [apply nn_mul; assumption|apply unit_mul; assumption].
Qed.

(* --- the folds --- *)
(* the bound fold: assigned variables select a child, unassigned query variables join, the
   others sum *)
Definition gstep (J : var -> T -> T -> T) (m : pm) (rest : list var) (v : var) (lo hi : T) : T :=
  match m v with
  | None => if mem_var v rest then J v lo hi else add (mul (wlo v) lo) (mul (whi v) hi)
  | Some true => hi
  | Some false => lo
  end.
Definition gub J m rest c p : T := bdd_fold_c (gstep J m rest) zero one c p.
Definition Jw (v : var) (lo hi : T) : T := join (mul (wlo v) lo) (mul (whi v) hi).
Definition Jplain (v : var) (lo hi : T) : T := join lo hi.

(* the value fold of a total assignment of the query variables *)
Definition vstep (Q : list var) (a : asg) (v : var) (lo hi : T) : T :=
  if mem_var v Q then (if a v then hi else lo) else add (mul (wlo v) lo) (mul (whi v) hi).
Definition vfold Q a c p : T := bdd_fold_c (vstep Q a) zero one c p.

(* leaves: all query variables assigned => the bound fold is the value fold *)
Lemma gub_leaf J Q m a : Inv Q m [] -> agrees m a -> forall p c, gub J m [] c p = vfold Q a c p.
Proof.
  intros [_ _ HQ] Ha. induction p as [| |c' v lo IHlo hi IHhi]; intros c; try reflexivity.
  unfold gub, vfold in *. cbn [bdd_fold_c]. rewrite IHlo, IHhi. unfold gstep, vstep.
  destruct (m v) as [b|] eqn:Em.
  - assert (Eq : mem_var v Q = true) by (apply mem_var_In; apply HQ; left; congruence).
    rewrite Eq, (Ha v b Em). destruct b; reflexivity.
  - assert (Eq : mem_var v Q = false).
    { apply mem_var_nIn. intros H. apply HQ in H. destruct H as [H|[]]. congruence. }
    rewrite Eq. reflexivity.
Qed.

(* the unweighted join (eu_ub) dominates every completion *)
Lemma gub_plain_ub Q m rest a : Inv Q m rest -> agrees m a ->
  forall p c, (forall v, In v (support p) -> ~ In v Q -> nn (wlo v) /\ nn (whi v)) ->
  cle (vfold Q a c p) (gub Jplain m rest c p).
Proof.
  intros [_ R HQ] Ha. induction p as [| |c' v lo IHlo hi IHhi]; intros c NN; try apply cle_refl.
  unfold gub, vfold in *. cbn [bdd_fold_c].
  assert (NNlo : forall u, In u (support lo) -> ~ In u Q -> nn (wlo u) /\ nn (whi u)).
  { intros u Hu. apply NN. simpl. right. apply in_or_app; auto. }
  assert (NNhi : forall u, In u (support hi) -> ~ In u Q -> nn (wlo u) /\ nn (whi u)).
  { intros u Hu. apply NN. simpl. right. apply in_or_app; auto. }
  specialize (IHlo (xorb c c') NNlo). specialize (IHhi (xorb c c') NNhi).
  unfold gstep, vstep. destruct (m v) as [b|] eqn:Em.
  - assert (Eq : mem_var v Q = true) by (apply mem_var_In; apply HQ; left; congruence).
    rewrite Eq, (Ha v b Em). destruct b; auto.
  - destruct (mem_var v rest) eqn:Er.
    + apply mem_var_In in Er.
      assert (Eq : mem_var v Q = true) by (apply mem_var_In; apply HQ; auto).
      rewrite Eq. unfold Jplain. destruct (a v); eauto.
    + apply mem_var_nIn in Er.
      assert (Eq : mem_var v Q = false).
      { apply mem_var_nIn. intros H. apply HQ in H. destruct H; [congruence|contradiction]. }
      rewrite Eq. apply mem_var_nIn in Eq. destruct (NN v) as [N1 N2]; simpl; auto.
Qed.

(* the weighted join (marginal_map_eval, bb_ub) dominates the value of every completion times
   the weights of the literals it still has to choose *)
Lemma gub_weighted_ub Q m rest a : Inv Q m rest -> agrees m a ->
  forall p c S, free_bdd p -> NoDup S ->
  (forall u, In u (support p) -> In u rest -> In u S) ->
  (forall q, In q S -> nn (wsel q (a q)) /\ cle (wsel q (a q)) one) ->
  (forall v, In v (support p) -> ~ In v Q -> nn (wlo v) /\ nn (whi v)) ->
  cle (mul (prodS a S) (vfold Q a c p)) (gub Jw m rest c p).
Proof.
  intros [_ R HQ] Ha. induction p as [| |c' v lo IHlo hi IHhi]; intros c S F ND SUP UNIT NN.
  - unfold gub, vfold. simpl. destruct (prodS_le_one a S UNIT) as [_ H1].
    destruct c; rewrite ?mul_one_r, ?mul_zero_r; auto.
  - unfold gub, vfold. simpl. destruct (prodS_le_one a S UNIT) as [_ H1].
    destruct c; rewrite ?mul_one_r, ?mul_zero_r; auto.
  - simpl in F. destruct F as (Nlo & Nhi & Flo & Fhi).
    assert (SUBlo : forall u, In u (support lo) -> In u (support (BN c' v lo hi))).
    { intros u Hu. simpl. right. apply in_or_app; auto. }
    assert (SUBhi : forall u, In u (support hi) -> In u (support (BN c' v lo hi))).
    { intros u Hu. simpl. right. apply in_or_app; auto. }
    unfold gub, vfold in *. cbn [bdd_fold_c]. unfold gstep at 1. unfold vstep at 1.
    destruct (m v) as [b|] eqn:Em.
    + assert (Eq : mem_var v Q = true) by (apply mem_var_In; apply HQ; left; congruence).
      rewrite Eq, (Ha v b Em). destruct b; [apply IHhi|apply IHlo]; auto.
    + destruct (mem_var v rest) eqn:Er.
      * apply mem_var_In in Er.
        assert (Eq : mem_var v Q = true) by (apply mem_var_In; apply HQ; auto).
        rewrite Eq.
        assert (HvS : In v S) by (apply SUP; simpl; auto).
        rewrite (prodS_filter a v S ND HvS), mul_assoc.
        set (S' := filter (fun u => negb (N.eqb u v)) S).
        assert (ND' : NoDup S') by (apply NoDup_filter; exact ND).
        assert (UNIT' : forall q, In q S' -> nn (wsel q (a q)) /\ cle (wsel q (a q)) one).
        { intros q Hq. apply UNIT. apply filter_In in Hq. tauto. }
        destruct (UNIT v HvS) as [NNv _]. unfold Jw.
        destruct (a v) eqn:Eav; cbn [wsel] in *.
        -- eapply cle_trans; [|apply join_ub_r]. apply mul_mono; auto.
           apply IHhi; auto. intros u Hu Hr. apply filter_In. split; [apply SUP; auto|].
           destruct (N.eqb_spec u v); [subst; contradiction|reflexivity].
        -- eapply cle_trans; [|apply join_ub_l]. apply mul_mono; auto.
           apply IHlo; auto. intros u Hu Hr. apply filter_In. split; [apply SUP; auto|].
           destruct (N.eqb_spec u v); [subst; contradiction|reflexivity].
      * apply mem_var_nIn in Er.
        assert (Eq : mem_var v Q = false).
        { apply mem_var_nIn. intros H. apply HQ in H. destruct H; [congruence|contradiction]. }
        rewrite Eq. apply mem_var_nIn in Eq. destruct (NN v) as [N1 N2]; simpl; auto.
        rewrite distr_l.
        rewrite <- !mul_assoc, (mul_comm (prodS a S) (wlo v)), (mul_comm (prodS a S) (whi v)), !mul_assoc.
        apply add_mono; apply mul_mono; auto.
Qed.

(* --- the search schemes --- *)
Section Search.
Variable Q : list var.
Variable V : asg -> T.                     (* value of a total assignment of the query variables *)
Variable ub : pm -> list var -> T.         (* bound of a partial assignment *)
Hypothesis ub_leaf : forall m a, Inv Q m [] -> agrees m a -> ub m [] = V a.
Hypothesis ub_upper : forall m rest a, Inv Q m rest -> agrees m a -> cle (V a) (ub m rest).

(* the incumbent is attained by a model that sets exactly the query variables *)
Definition good (lb : T) (best : pm) : Prop :=
  lb = V (asg_of best) /\ forall x, best x <> None <-> In x Q.

Lemma good_leaf m : Inv Q m [] -> good (ub m []) m.
Proof.
  intros I. split; [apply ub_leaf; auto using agrees_asg_of|].
  intros x. destruct I as [_ _ HQ]. rewrite HQ. tauto.
Qed.

(* what a call of the search on the subtree of [cur] guarantees *)
Definition post (cur : pm) (cur_lb : T) (r : T * pm) : Prop :=
  good (fst r) (snd r) /\ pre cur_lb (fst r) /\ forall a, agrees cur a -> pre (V a) (fst r).

(* a loop over the two children that keeps the incumbent good, never makes it worse and closes
   each child *)
Lemma two_children (step : T * pm -> T * pm -> T * pm) cur x e cur_lb cur_best :
  Inv Q cur (x :: e) -> good cur_lb cur_best ->
  (forall best um, good (fst best) (snd best) -> pre cur_lb (fst best) ->
     (exists b, snd um = pm_set cur x b /\ fst um = ub (snd um) e) ->
     post (snd um) (fst best) (step best um)) ->
  forall um1 um2,
  (snd um1 = pm_set cur x true /\ snd um2 = pm_set cur x false \/
   snd um1 = pm_set cur x false /\ snd um2 = pm_set cur x true) ->
  fst um1 = ub (snd um1) e -> fst um2 = ub (snd um2) e ->
  post cur cur_lb (fold_left step [um1; um2] (cur_lb, cur_best)).
Proof.
  intros I G ST um1 um2 ORD U1 U2. simpl.
  assert (Hx : cur x = None) by (apply (inv_rest _ _ _ I); simpl; auto).
  assert (B1 : exists b, snd um1 = pm_set cur x b /\ fst um1 = ub (snd um1) e).
  { destruct ORD as [[E _]|[E _]]; eauto. }
  assert (B2 : exists b, snd um2 = pm_set cur x b /\ fst um2 = ub (snd um2) e).
  { destruct ORD as [[_ E]|[_ E]]; eauto. }
  destruct (ST (cur_lb, cur_best) um1 G (pre_refl _) B1) as (G1 & P1 & C1). cbn [fst snd] in *.
  set (r1 := step (cur_lb, cur_best) um1) in *.
  destruct (ST r1 um2 G1 P1 B2) as (G2 & P2 & C2).
  set (r2 := step r1 um2) in *.
  split; [exact G2|]. split; [eapply pre_trans; eauto|].
  intros a Ha.
  assert (Hcase : agrees (snd um1) a \/ agrees (snd um2) a).
  { destruct ORD as [[E1 E2]|[E1 E2]]; rewrite E1, E2; destruct (a x) eqn:Eax;
      [left|right|right|left]; apply agrees_set; auto. }
  destruct Hcase as [H|H]; [eapply pre_trans; [apply C1; exact H|exact P2]|apply C2; exact H].
Qed.

(* scheme A: marginal_map_h and meu_h *)
Fixpoint searchA (cur_lb : T) (cur_best : pm) (vars : list var) (cur : pm) : T * pm :=
  match vars with
  | [] =>
    let possible_best := ub cur [] in
    if gtb possible_best cur_lb then (possible_best, cur) else (cur_lb, cur_best)
  | x :: end_ =>
    let true_model := pm_set cur x true in
    let false_model := pm_set cur x false in
    let true_ub := ub true_model end_ in
    let false_ub := ub false_model end_ in
    let order := if gtb true_ub false_ub
                 then [(true_ub, true_model); (false_ub, false_model)]
                 else [(false_ub, false_model); (true_ub, true_model)] in
    fold_left (fun (best : T * pm) (um : T * pm) =>
                 if gtb (fst um) (fst best)
                 then searchA (fst best) (snd best) end_ (snd um)
                 else best) order (cur_lb, cur_best)
  end.

Theorem searchA_ok : forall vars cur cur_lb cur_best,
  Inv Q cur vars -> good cur_lb cur_best -> post cur cur_lb (searchA cur_lb cur_best vars cur).
Proof.
  induction vars as [|x e IH]; intros cur cur_lb cur_best I G.
  - cbn [searchA]. destruct (gtb (ub cur []) cur_lb) eqn:E.
    + split; [apply good_leaf; auto|]. cbn [fst snd]. split; [apply gtb_true_pre; auto|].
      intros a Ha. rewrite (ub_leaf cur a I Ha). apply pre_refl.
    + split; [exact G|]. cbn [fst snd]. split; [apply pre_refl|].
      intros a Ha. rewrite <- (ub_leaf cur a I Ha). apply gtb_false_pre; auto.
  - cbn [searchA].
    set (step := fun (best um : T * pm) =>
                   if gtb (fst um) (fst best) then searchA (fst best) (snd best) e (snd um) else best).
    assert (ST : forall best um, good (fst best) (snd best) -> pre cur_lb (fst best) ->
              (exists b, snd um = pm_set cur x b /\ fst um = ub (snd um) e) ->
              post (snd um) (fst best) (step best um)).
    { intros best um Gb Pb (b & Em & Eu). unfold step.
      assert (I' : Inv Q (snd um) e) by (rewrite Em; apply Inv_step; auto).
      destruct (gtb (fst um) (fst best)) eqn:Eg.
      - apply IH; auto.
      - split; [exact Gb|]. split; [apply pre_refl|]. intros a Ha.
        eapply pre_trans; [apply cle_pre; apply (ub_upper (snd um) e a I' Ha)|].
        rewrite <- Eu. apply gtb_false_pre; auto. }
    destruct (gtb (ub (pm_set cur x true) e) (ub (pm_set cur x false) e));
      apply (two_children step cur x e cur_lb cur_best I G ST); cbn [fst snd]; auto.
Qed.

(* scheme B: bb_h (pruning test against cur_lb, reset branch) *)
Fixpoint searchB (cur_lb : T) (cur_best : pm) (vars : list var) (cur : pm) : T * pm :=
  match vars with
  | [] =>
    let possible_best := ub cur [] in
    let best := choose cur_lb possible_best in
    if eqb cur_lb best then (cur_lb, cur_best) else (possible_best, cur)
  | x :: end_ =>
    let true_model := pm_set cur x true in
    let false_model := pm_set cur x false in
    let true_ub := ub true_model end_ in
    let false_ub := ub false_model end_ in
    let order := if eqb true_ub (choose true_ub false_ub)
                 then [(true_ub, true_model); (false_ub, false_model)]
                 else [(false_ub, false_model); (true_ub, true_model)] in
    fold_left (fun (best : T * pm) (um : T * pm) =>
                 if negb (leb (fst um) cur_lb)
                 then
                   let r := searchB (fst best) (snd best) end_ (snd um) in
                   let new_lb := choose cur_lb (fst r) in
                   if eqb new_lb (fst r) then (fst r, snd r) else (cur_lb, cur_best)
                 else best) order (cur_lb, cur_best)
  end.

Theorem searchB_ok : forall vars cur cur_lb cur_best,
  Inv Q cur vars -> good cur_lb cur_best -> post cur cur_lb (searchB cur_lb cur_best vars cur).
Proof.
  induction vars as [|x e IH]; intros cur cur_lb cur_best I G.
  - cbn [searchB]. destruct (eqb cur_lb (choose cur_lb (ub cur []))) eqn:E.
    + apply eqb_eq in E. split; [exact G|]. cbn [fst snd]. split; [apply pre_refl|].
      intros a Ha. rewrite <- (ub_leaf cur a I Ha).
      destruct (pre_total (ub cur []) cur_lb) as [H|H]; auto.
      unfold pre in H. rewrite H in E. rewrite E. apply pre_refl.
    + assert (N : choose cur_lb (ub cur []) <> cur_lb).
      { intros H. rewrite H in E. assert (eqb cur_lb cur_lb = true) by (apply eqb_eq; auto). congruence. }
      assert (P : pre cur_lb (ub cur [])).
      { unfold pre. destruct (choose_cases cur_lb (ub cur [])); congruence. }
      split; [apply good_leaf; auto|]. cbn [fst snd]. split; [exact P|].
      intros a Ha. rewrite (ub_leaf cur a I Ha). apply pre_refl.
  - cbn [searchB].
    set (step := fun (best um : T * pm) =>
                   if negb (leb (fst um) cur_lb)
                   then
                     let r := searchB (fst best) (snd best) e (snd um) in
                     let new_lb := choose cur_lb (fst r) in
                     if eqb new_lb (fst r) then (fst r, snd r) else (cur_lb, cur_best)
                   else best).
    assert (ST : forall best um, good (fst best) (snd best) -> pre cur_lb (fst best) ->
              (exists b, snd um = pm_set cur x b /\ fst um = ub (snd um) e) ->
              post (snd um) (fst best) (step best um)).
    { intros best um Gb Pb (b & Em & Eu). unfold step.
      assert (I' : Inv Q (snd um) e) by (rewrite Em; apply Inv_step; auto).
      destruct (leb (fst um) cur_lb) eqn:El; cbn [negb].
      - split; [exact Gb|]. split; [apply pre_refl|]. intros a Ha.
        eapply pre_trans; [apply cle_pre; apply (ub_upper (snd um) e a I' Ha)|].
        rewrite <- Eu. eapply pre_trans; [apply leb_pre; exact El|exact Pb].
      - destruct (IH (snd um) (fst best) (snd best) I' Gb) as (Gr & Pr & Cr).
        set (r := searchB (fst best) (snd best) e (snd um)) in *. cbv zeta.
        assert (P : pre cur_lb (fst r)) by (eapply pre_trans; eauto).
        assert (E : eqb (choose cur_lb (fst r)) (fst r) = true) by (apply eqb_eq; exact P).
        rewrite E. split; [exact Gr|]. split; [exact Pr|exact Cr]. }
    destruct (eqb (ub (pm_set cur x true) e) (choose (ub (pm_set cur x true) e) (ub (pm_set cur x false) e)));
      apply (two_children step cur x e cur_lb cur_best I G ST); cbn [fst snd]; auto.
Qed.

(* the top-level calls: incumbent = all query variables true, search from the empty model *)
Theorem search_top (search : T -> pm -> list var -> pm -> T * pm) m0 :
  (forall vars cur cur_lb cur_best, Inv Q cur vars -> good cur_lb cur_best ->
     post cur cur_lb (search cur_lb cur_best vars cur)) ->
  NoDup Q -> (forall x, m0 x = all_true Q x) ->
  let r := search (ub m0 []) m0 Q pm_empty in
  fst r = V (asg_of (snd r)) /\ (forall x, snd r x <> None <-> In x Q) /\
  forall a, pre (V a) (fst r).
Proof.
  intros OK ND Hm0 r.
  assert (I0 : Inv Q m0 []) by (apply Inv_all_true; auto).
  destruct (OK Q pm_empty (ub m0 []) m0 (Inv_init Q ND) (good_leaf m0 I0)) as ((G1 & G2) & _ & C).
  fold r in G1, G2, C. repeat split; auto; try apply G2.
  intros a. apply C. intros x b H. discriminate H.
Qed.
End Search.

(* --- the bound functions of the code, in closed form --- *)
Section Weighted.
(* marginal_map_eval / bb_ub: weighted join, literal weights multiplied in *)
Variable Q : list var.
Variable n : nat.
Variable p : bdd.
Hypothesis HF : free_bdd p.
Hypothesis NDQ : NoDup Q.
Hypothesis HQn : forall q, In q Q -> N.to_nat q < n.
(* weights of the query variables in the unit interval, the others non-negative *)
Hypothesis unitQ : forall q b, In q Q -> nn (wsel q b) /\ cle (wsel q b) one.
Hypothesis nnO : forall v, In v (support p) -> ~ In v Q -> nn (wlo v) /\ nn (whi v).

Definition Vw (a : asg) : T := mul (prodS a Q) (vfold Q a false p).
Definition ubw (m : pm) (rest : list var) : T :=
  mul (gub Jw m rest false p) (prodG (gm m) (var_range n)).

Lemma ubw_leaf m a : Inv Q m [] -> agrees m a -> ubw m [] = Vw a.
Proof.
  intros I Ha. unfold ubw, Vw. rewrite (gub_leaf Jw Q m a I Ha).
  rewrite (prod_split Q m [] a n NDQ HQn I Ha). cbn [prodS fold_right].
  rewrite mul_one_r. apply mul_comm.
Qed.

Lemma ubw_upper m rest a : Inv Q m rest -> agrees m a -> cle (Vw a) (ubw m rest).
Proof.
  intros I Ha. unfold ubw, Vw.
  rewrite (prod_split Q m rest a n NDQ HQn I Ha), mul_assoc.
  rewrite (mul_comm (gub Jw m rest false p)). apply mul_mono.
  - apply nn_prodG. intros x _. unfold gm. destruct (m x) as [b|] eqn:Em; [|exact nn_one].
    apply unitQ. apply (inv_Q _ _ _ I). left. congruence.
  - apply (gub_weighted_ub Q m rest a I Ha p false rest HF (inv_nodup _ _ _ I)); auto.
    intros q Hq. apply unitQ. apply (inv_Q _ _ _ I). auto.
Qed.

(* marginal_map_eval: fold first, then the literals; bb_ub: literals first, then the fold *)
Lemma ubw_post m rest : litprod m n (gub Jw m rest false p) = ubw m rest.
Proof. apply litprod_eq. Qed.
Lemma ubw_pre m rest : mul (litprod m n one) (gub Jw m rest false p) = ubw m rest.
Proof. rewrite litprod_eq, mul_one_l'. apply mul_comm. Qed.

(* any bound function that computes ubw (the two shapes above) *)
Variable ub : pm -> list var -> T.
Hypothesis ub_eq : forall m rest, ub m rest = ubw m rest.

Lemma ub_leaf_w m a : Inv Q m [] -> agrees m a -> ub m [] = Vw a.
Proof. rewrite ub_eq. apply ubw_leaf. Qed.
Lemma ub_upper_w m rest a : Inv Q m rest -> agrees m a -> cle (Vw a) (ub m rest).
Proof. rewrite ub_eq. apply ubw_upper. Qed.

Theorem searchA_weighted m0 : (forall x, m0 x = all_true Q x) ->
  let r := searchA ub (ub m0 []) m0 Q pm_empty in
  fst r = Vw (asg_of (snd r)) /\ (forall x, snd r x <> None <-> In x Q) /\
  forall a, pre (Vw a) (fst r).
Proof.
  intros Hm. apply (search_top Q Vw ub ub_leaf_w (searchA ub) m0); auto.
  apply searchA_ok; auto using ub_leaf_w, ub_upper_w.
Qed.

Theorem searchB_weighted m0 : (forall x, m0 x = all_true Q x) ->
  let r := searchB ub (ub m0 []) m0 Q pm_empty in
  fst r = Vw (asg_of (snd r)) /\ (forall x, snd r x <> None <-> In x Q) /\
  forall a, pre (Vw a) (fst r).
Proof.
  intros Hm. apply (search_top Q Vw ub ub_leaf_w (searchB ub) m0); auto.
  apply searchB_ok; auto using ub_leaf_w, ub_upper_w.
Qed.
End Weighted.

Section Plain.
(* eu_ub: unweighted join, no literal weights *)
Variable Q : list var.
Variable p : bdd.
Hypothesis NDQ : NoDup Q.
Hypothesis nnO : forall v, In v (support p) -> ~ In v Q -> nn (wlo v) /\ nn (whi v).

Definition Vp (a : asg) : T := vfold Q a false p.
Definition ubp (m : pm) (rest : list var) : T := gub Jplain m rest false p.

Lemma ubp_leaf m a : Inv Q m [] -> agrees m a -> ubp m [] = Vp a.
Proof. intros I Ha. apply gub_leaf; auto. Qed.
Lemma ubp_upper m rest a : Inv Q m rest -> agrees m a -> cle (Vp a) (ubp m rest).
Proof. intros I Ha. apply gub_plain_ub; auto. Qed.

Theorem searchA_plain m0 : (forall x, m0 x = all_true Q x) ->
  let r := searchA ubp (ubp m0 []) m0 Q pm_empty in
  fst r = Vp (asg_of (snd r)) /\ (forall x, snd r x <> None <-> In x Q) /\
  forall a, pre (Vp a) (fst r).
Proof.
  intros Hm. apply (search_top Q Vp ubp ubp_leaf (searchA ubp) m0); auto.
  apply searchA_ok; auto using ubp_leaf, ubp_upper.
Qed.
End Plain.
End Abs.

(* ===================================================================================== *)
(* 4. the value of a completion is a semantic weighted count                               *)
Section Sem.
Context {T : Type}.
Variables (add mul : T -> T -> T) (zero one : T).
Hypothesis add_comm : forall a b, add a b = add b a.
Hypothesis add_assoc : forall a b c, add (add a b) c = add a (add b c).
Hypothesis mul_assoc : forall a b c, mul (mul a b) c = mul a (mul b c).
Hypothesis mul_comm : forall a b, mul a b = mul b a.
Hypothesis mul_one_r : forall a, mul a one = a.
Hypothesis distr_l : forall a b c, mul a (add b c) = add (mul a b) (mul a c).
Variable wlo whi : var -> T.
Variable Q : list var.

Notation vfoldQ := (vfold add mul zero one wlo whi Q).
Notation wspec := (wmc_spec T add mul zero one wlo whi).

Lemma distr_r' a b c : mul (add a b) c = add (mul a c) (mul b c).
Proof. rewrite mul_comm, distr_l, (mul_comm c a), (mul_comm c b). reflexivity. Qed.

(* a constant function: normalisation is only needed on the listed variables *)
Lemma wmc_spec_const_on vars b : (forall v, In v vars -> add (wlo v) (whi v) = one) ->
  forall x, wspec vars (fun _ => b) x = if b then one else zero.
Proof.
  induction vars as [|v vs IH]; intros Hn x; simpl; auto.
  rewrite !IH by (intros; apply Hn; simpl; auto).
  rewrite <- distr_r', Hn by (simpl; auto). rewrite mul_comm. apply mul_one_r.
Qed.

(* (a) normalised weights on the non-query variables: the value fold of a free diagram is the sum
   over all assignments of the non-query variables (the query variables keep the values of a)
   of the product of their literal weights, restricted to the models *)
Theorem vfold_spec : forall p c others a,
  free_bdd p -> NoDup others -> (forall x, In x Q -> ~ In x others) ->
  (forall u, In u (support p) -> In u Q \/ In u others) ->
  (forall v, In v others -> add (wlo v) (whi v) = one) ->
  vfoldQ a c p = wspec others (fun y => xorb c (den p y)) a.
Proof.
  induction p as [| |c' v lo IHlo hi IHhi]; intros c others a F ND DISJ SUP NORM.
  - unfold vfold. simpl. rewrite (wmc_spec_const_on others (xorb c true) NORM). destruct c; reflexivity.
  - unfold vfold. simpl. rewrite (wmc_spec_const_on others (xorb c false) NORM). destruct c; reflexivity.
  - simpl in F. destruct F as (Nlo & Nhi & Flo & Fhi).
    assert (SUPlo : forall u, In u (support lo) -> In u Q \/ In u others).
    { intros u Hu. apply SUP. simpl. right. apply in_or_app; auto. }
    assert (SUPhi : forall u, In u (support hi) -> In u Q \/ In u others).
    { intros u Hu. apply SUP. simpl. right. apply in_or_app; auto. }
    unfold vfold in *. cbn [bdd_fold_c]. unfold vstep at 1.
    destruct (mem_var v Q) eqn:Eq.
    + apply mem_var_In in Eq. pose proof (DISJ v Eq) as Hnv.
      destruct (a v) eqn:Eav.
      * rewrite (IHhi (xorb c c') others a Fhi ND DISJ SUPhi NORM).
        apply wmc_spec_local. intros y Hy. cbn [den]. rewrite (Hy v Hnv), Eav, xorb_assoc. reflexivity.
      * rewrite (IHlo (xorb c c') others a Flo ND DISJ SUPlo NORM).
        apply wmc_spec_local. intros y Hy. cbn [den]. rewrite (Hy v Hnv), Eav, xorb_assoc. reflexivity.
    + apply mem_var_nIn in Eq.
      assert (Hv : In v others) by (destruct (SUP v); simpl; auto; contradiction).
      destruct (in_split _ _ Hv) as (l1 & l2 & ->).
      assert (P : Permutation (l1 ++ v :: l2) (v :: l1 ++ l2)) by (symmetry; apply Permutation_middle).
      assert (ND' : NoDup (v :: l1 ++ l2)) by (eapply Permutation_NoDup; eauto).
      inversion ND' as [|? ? Hnv ND'']; subst.
      assert (IN' : forall u, In u (l1 ++ l2) -> In u (l1 ++ v :: l2)).
      { intros u Hu. apply (Permutation_in _ (Permutation_sym P)). simpl; auto. }
      assert (DISJ' : forall x, In x Q -> ~ In x (l1 ++ l2)) by (intros x Hx H; apply (DISJ x Hx); auto).
      assert (NORM' : forall u, In u (l1 ++ l2) -> add (wlo u) (whi u) = one) by (intros; apply NORM; auto).
      assert (SUPlo' : forall u, In u (support lo) -> In u Q \/ In u (l1 ++ l2)).
      { intros u Hu. destruct (SUPlo u Hu) as [|H]; auto. right.
        apply (Permutation_in _ P) in H. destruct H as [<-|]; [contradiction|auto]. }
      assert (SUPhi' : forall u, In u (support hi) -> In u Q \/ In u (l1 ++ l2)).
      { intros u Hu. destruct (SUPhi u Hu) as [|H]; auto. right.
        apply (Permutation_in _ P) in H. destruct H as [<-|]; [contradiction|auto]. }
      rewrite (wmc_spec_perm T add mul zero one add_comm add_assoc mul_assoc mul_comm distr_l wlo whi _ _ P)
        by (intros y y' H; rewrite (den_ext_fun _ y y' H); reflexivity).
      cbn [Wmc.wmc_spec].
      (* the value fold only reads a on the query variables *)
      assert (VF : forall q b cc,
                 bdd_fold_c (vstep add mul wlo whi Q (upd a v b)) zero one cc q =
                 bdd_fold_c (vstep add mul wlo whi Q a) zero one cc q).
      { clear - Eq. induction q as [| |c2 u l IHl h IHh]; intros b cc; try reflexivity.
        cbn [bdd_fold_c]. rewrite IHl, IHh. unfold vstep.
        destruct (mem_var u Q) eqn:Eu; auto. apply mem_var_In in Eu.
        unfold upd. destruct (N.eqb_spec u v); [subst; contradiction|reflexivity]. }
      rewrite <- (VF lo false (xorb c c')), <- (VF hi true (xorb c c')).
      rewrite (IHlo (xorb c c') (l1 ++ l2) (upd a v false) Flo ND'' DISJ' SUPlo' NORM').
      rewrite (IHhi (xorb c c') (l1 ++ l2) (upd a v true) Fhi ND'' DISJ' SUPhi' NORM').
      f_equal; f_equal; apply wmc_spec_local; intros y Hy; cbn [den];
        rewrite (Hy v Hnv), upd_same; rewrite ?xorb_assoc; reflexivity.
Qed.
End Sem.

(* ===================================================================================== *)
(* 5. instances                                                                            *)
Local Open Scope Qc_scope.

Lemma qgt_true a b : qgt a b = true <-> b < a.
Proof.
  unfold qgt. destruct (qcmp_spec a b) as [E|L|G]; split; intros H; try discriminate; auto.
  - subst. exfalso. exact (qclt_irrefl _ H).
  - exfalso. exact (qclt_irrefl _ (Qclt_trans _ _ _ L H)).
Qed.
Lemma qgt_false a b : qgt a b = false <-> a <= b.
Proof.
  unfold qgt. destruct (qcmp_spec a b) as [E|L|G]; split; intros H; try discriminate; auto.
  - subst. apply Qcle_refl.
  - apply Qclt_le_weak; auto.
  - exfalso. exact (Qcle_not_lt _ _ H G).
Qed.
Lemma qmax_le a b : qmax a b = b <-> a <= b.
Proof.
  unfold qmax. destruct (qcmp_spec a b) as [E|L|G]; split; intros H; auto.
  - subst. apply Qcle_refl.
  - apply Qclt_le_weak; auto.
  - subst. exfalso. exact (qclt_irrefl _ G).
  - exfalso. exact (Qcle_not_lt _ _ H G).
Qed.
Lemma qmax_ge_l a b : a <= qmax a b.
Proof.
  unfold qmax. destruct (qcmp_spec a b) as [E|L|G]; try apply Qcle_refl. apply Qclt_le_weak; auto.
Qed.
Lemma qmax_ge_r a b : b <= qmax a b.
Proof.
  unfold qmax. destruct (qcmp_spec a b) as [E|L|G]; try apply Qcle_refl.
  - subst. apply Qcle_refl.
  - apply Qclt_le_weak; auto.
Qed.
Lemma qmax_cases a b : qmax a b = a \/ qmax a b = b.
Proof. unfold qmax. destruct (a ?= b); auto. Qed.
Lemma qeq_true a b : qeq a b = true <-> a = b.
Proof.
  unfold qeq. destruct (qcmp_spec a b) as [E|L|G]; split; intros H; try discriminate; auto.
  - subst. exfalso. exact (qclt_irrefl _ L).
  - subst. exfalso. exact (qclt_irrefl _ G).
Qed.
Lemma qc_0_le_1 : 0 <= 1.
Proof. unfold Qcle, Qle. simpl. lia. Qed.
Lemma qc_mul_mono w x y : 0 <= w -> x <= y -> w * x <= w * y.
Proof. intros Hw H. rewrite (Qcmult_comm w x), (Qcmult_comm w y). apply Qcmult_le_compat_r; auto. Qed.
Lemma qc_nn_mul a b : 0 <= a -> 0 <= b -> 0 <= a * b.
Proof. intros Ha Hb. replace 0 with (0 * b) by ring. apply Qcmult_le_compat_r; auto. Qed.
Lemma qc_unit_mul a b : 0 <= a -> 0 <= b -> a <= 1 -> b <= 1 -> a * b <= 1.
Proof.
  intros Ha Hb Ha1 Hb1. apply Qcle_trans with (1 * b).
  - apply Qcmult_le_compat_r; auto.
  - replace (1 * b) with b by ring. auto.
Qed.
Lemma qc_le_total a b : a <= b \/ b <= a.
Proof. destruct (Qclt_le_dec a b) as [H|H]; auto. left. apply Qclt_le_weak; auto. Qed.

(* --- RealSemiring: the order is <=, non-negative = 0 <= x, choose = join = max --- *)
Definition rnn (x : Qc) : Prop := 0 <= x.
Lemma real_pre_iff a b : pre real_choose a b <-> a <= b.
Proof. unfold pre, real_choose, real_join. apply qmax_le. Qed.

Ltac real_laws :=
  first
    [ exact Qcplus_comm | exact (fun a b c => eq_sym (Qcplus_assoc a b c))
    | exact (fun a b c => eq_sym (Qcmult_assoc a b c)) | exact Qcmult_comm
    | exact Qcmult_1_r | exact (fun a : Qc => Qcmult_0_r a) | exact (fun a : Qc => Qcplus_0_r a)
    | exact Qcmult_plus_distr_r
    | exact Qcle_refl | exact Qcle_trans | exact Qcplus_le_compat | exact qc_mul_mono
    | exact qmax_ge_l | exact qmax_ge_r | exact qc_0_le_1 | exact qc_nn_mul | exact qc_unit_mul
    | solve [ intros a b; rewrite !real_pre_iff; apply qc_le_total ]
    | solve [ intros a b c; rewrite !real_pre_iff; apply Qcle_trans ]
    | exact qmax_cases
    | exact qeq_true
    | solve [ intros a b H; apply real_le_join in H; tauto ]
    | solve [ intros a b H; apply real_pre_iff; apply qgt_false; exact H ]
    | solve [ intros a b H; apply real_pre_iff; apply Qclt_le_weak; apply qgt_true; exact H ]
    | solve [ intros a b H; apply real_pre_iff; exact H ] ].

(* the model's functions are the generic ones *)
Lemma marginal_map_h_searchA n wlo whi p : forall vars lb best cur,
  marginal_map_h_m n wlo whi p lb best vars cur =
  searchA qgt (marginal_map_eval_m n wlo whi p) lb best vars cur.
Proof. reflexivity. Qed.

Lemma marginal_map_eval_ubw n wlo whi p m rest :
  marginal_map_eval_m n wlo whi p m rest = ubw Qcplus Qcmult 0 1 qmax wlo whi n p m rest.
Proof.
  unfold marginal_map_eval_m.
  rewrite <- (ubw_post Qcplus Qcmult 0 1 qmax).
  all: try real_laws.
  unfold litprod. apply fold_left_ext. intros v [x []]; reflexivity.
Qed.

Lemma bb_h_searchB {T} (o : bb_ops T) n wlo whi p : forall vars lb best cur,
  bb_h_m o n wlo whi p lb best vars cur =
  searchB (bb_choose o) (bb_le o) (bb_eq o) (bb_ub_m o n wlo whi p) lb best vars cur.
Proof. reflexivity. Qed.

Lemma bb_ub_ubw {T} (o : bb_ops T) n wlo whi p m rest :
  (forall a b c, sr_mul (bb_sr o) (sr_mul (bb_sr o) a b) c = sr_mul (bb_sr o) a (sr_mul (bb_sr o) b c)) ->
  (forall a b, sr_mul (bb_sr o) a b = sr_mul (bb_sr o) b a) ->
  (forall a, sr_mul (bb_sr o) a (sr_one (bb_sr o)) = a) ->
  bb_ub_m o n wlo whi p m rest =
  ubw (sr_add (bb_sr o)) (sr_mul (bb_sr o)) (sr_zero (bb_sr o)) (sr_one (bb_sr o)) (bb_join o) wlo whi n p m rest.
Proof.
  intros MA MC M1. unfold bb_ub_m.
  rewrite <- (ubw_pre (sr_add (bb_sr o)) (sr_mul (bb_sr o)) (sr_zero (bb_sr o)) (sr_one (bb_sr o)) (bb_join o) MA MC M1).
  f_equal. unfold litprod. apply fold_left_ext. intros v [x []]; reflexivity.
Qed.

(* the objective of marginal MAP and of bb over the real semiring: the weights of the chosen
   literals of the query variables times the sum, over all assignments of the other variables, of
   the products of their literal weights, restricted to the models of the function *)
Definition mm_value (wlo whi : var -> Qc) (p : bdd) (Q others : list var) (a : asg) : Qc :=
  prodS Qcmult 1 wlo whi a Q * wmc_spec Qc Qcplus Qcmult 0 1 wlo whi others (den p) a.

Section RealOpt.
Variable n : nat.
Variables wlo whi : var -> Qc.
Variable p : bdd.
Variables Q others : list var.
Hypothesis HF : free_bdd p.
Hypothesis NDQ : NoDup Q.
Hypothesis NDO : NoDup others.
Hypothesis DISJ : forall x, In x Q -> ~ In x others.
Hypothesis SUP : forall u, In u (support p) -> In u Q \/ In u others.
Hypothesis HQn : forall q, In q Q -> (N.to_nat q < n)%nat.
(* probability weights: every weight in [0,1]; low + high = 1 on the non-query variables *)
Hypothesis WQ : forall q, In q Q -> 0 <= wlo q <= 1 /\ 0 <= whi q <= 1.
Hypothesis WO : forall v, In v others -> wlo v + whi v = 1 /\ 0 <= wlo v /\ 0 <= whi v.

Lemma real_unitQ : forall q b, In q Q -> rnn (wsel wlo whi q b) /\ wsel wlo whi q b <= 1.
Proof. intros q b Hq. destruct (WQ q Hq) as [[? ?] [? ?]]. destruct b; simpl; split; assumption. Qed.
Lemma real_nnO : forall v, In v (support p) -> ~ In v Q -> rnn (wlo v) /\ rnn (whi v).
Proof. intros v Hv Hn. destruct (SUP v Hv) as [|H]; [contradiction|]. destruct (WO v H) as (_ & ? & ?). split; assumption. Qed.

Lemma Vw_mm_value a : Vw Qcplus Qcmult 0 1 wlo whi Q p a = mm_value wlo whi p Q others a.
Proof.
  unfold Vw, mm_value. f_equal.
  rewrite (vfold_spec Qcplus Qcmult 0 1) with (others := others);
    [apply wmc_spec_local; intros y _; apply xorb_false_l|..]; auto; try real_laws.
  intros v Hv. apply WO; auto.
Qed.

(* leaf_value_exact: with every query variable assigned, marginal_map_eval is the objective *)
Theorem mm_leaf_value_exact m a : Inv Q m [] -> agrees m a ->
  marginal_map_eval_m n wlo whi p m [] = mm_value wlo whi p Q others a.
Proof.
  intros I Ha. rewrite marginal_map_eval_ubw, <- Vw_mm_value.
  apply (ubw_leaf Qcplus Qcmult 0 1 qmax); auto; real_laws.
Qed.

(* ub_is_upper_bound: the bound of a partial assignment dominates every completion *)
Theorem mm_ub_is_upper_bound m rest a : Inv Q m rest -> agrees m a ->
  mm_value wlo whi p Q others a <= marginal_map_eval_m n wlo whi p m rest.
Proof.
  intros I Ha. rewrite marginal_map_eval_ubw, <- Vw_mm_value.
  apply (ubw_upper Qcplus Qcmult 0 1 qmax) with (cle := Qcle) (nn := rnn); auto;
    try real_laws; auto using real_unitQ, real_nnO.
Qed.

Theorem bb_real_leaf_value_exact m a : Inv Q m [] -> agrees m a ->
  bb_ub_m real_bb n wlo whi p m [] = mm_value wlo whi p Q others a.
Proof.
  intros I Ha. rewrite bb_ub_ubw by real_laws. rewrite <- Vw_mm_value.
  apply (ubw_leaf Qcplus Qcmult 0 1 qmax); auto; real_laws.
Qed.
Theorem bb_real_ub_is_upper_bound m rest a : Inv Q m rest -> agrees m a ->
  mm_value wlo whi p Q others a <= bb_ub_m real_bb n wlo whi p m rest.
Proof.
  intros I Ha. rewrite bb_ub_ubw by real_laws. rewrite <- Vw_mm_value.
  apply (ubw_upper Qcplus Qcmult 0 1 qmax) with (cle := Qcle) (nn := rnn); auto;
    try real_laws; auto using real_unitQ, real_nnO.
Qed.

(* bnb_optimal, marginal MAP *)
Theorem marginal_map_optimal :
  exists v pi, marginal_map_m n wlo whi p Q = Some (v, pi) /\
    (forall x, pi x <> None <-> In x Q) /\
    v = mm_value wlo whi p Q others (asg_of pi) /\
    forall a, mm_value wlo whi p Q others a <= v.
Proof.
  destruct (from_litvec_all_true n Q HQn) as (m0 & E0 & Hm0).
  unfold marginal_map_m. rewrite E0.
  set (r := marginal_map_h_m n wlo whi p (marginal_map_eval_m n wlo whi p m0 []) m0 Q pm_empty).
  exists (fst r), (snd r). split; [destruct r; reflexivity|].
  assert (R := searchA_weighted Qcplus Qcmult 0 1 qmax real_choose qgt).
  specialize R with (cle := Qcle) (nn := rnn) (wlo := wlo) (whi := whi) (Q := Q) (n := n) (p := p)
                    (ub := marginal_map_eval_m n wlo whi p) (m0 := m0).
  destruct R as (R1 & R2 & R3); auto; try real_laws; auto using real_unitQ, real_nnO.
  { intros m rest. apply marginal_map_eval_ubw. }
  change (searchA qgt (marginal_map_eval_m n wlo whi p) (marginal_map_eval_m n wlo whi p m0 []) m0 Q pm_empty)
    with r in R1, R2, R3. split; [exact R2|]. split.
  - rewrite <- Vw_mm_value. exact R1.
  - intros a. rewrite <- Vw_mm_value. apply real_pre_iff. apply R3.
Qed.

(* bnb_optimal, generic branch and bound over the real semiring *)
Theorem bb_real_optimal :
  exists v pi, bb_real_m n wlo whi p Q = Some (v, pi) /\
    (forall x, pi x <> None <-> In x Q) /\
    v = mm_value wlo whi p Q others (asg_of pi) /\
    forall a, mm_value wlo whi p Q others a <= v.
Proof.
  destruct (from_litvec_all_true n Q HQn) as (m0 & E0 & Hm0).
  unfold bb_real_m, bb_m. rewrite E0.
  set (r := bb_h_m real_bb n wlo whi p (bb_ub_m real_bb n wlo whi p m0 []) m0 Q pm_empty).
  exists (fst r), (snd r). split; [destruct r; reflexivity|].
  assert (R := searchB_weighted Qcplus Qcmult 0 1 qmax real_choose real_le qeq).
  specialize R with (cle := Qcle) (nn := rnn) (wlo := wlo) (whi := whi) (Q := Q) (n := n) (p := p)
                    (ub := bb_ub_m real_bb n wlo whi p) (m0 := m0).
  destruct R as (R1 & R2 & R3); auto; try real_laws; auto using real_unitQ, real_nnO.
  { intros m rest. apply (bb_ub_ubw real_bb); real_laws. }
  change (searchB real_choose real_le qeq (bb_ub_m real_bb n wlo whi p) (bb_ub_m real_bb n wlo whi p m0 []) m0 Q pm_empty)
    with r in R1, R2, R3. split; [exact R2|]. split.
  - rewrite <- Vw_mm_value. exact R1.
  - intros a. rewrite <- Vw_mm_value. apply real_pre_iff. apply R3.
Qed.
End RealOpt.

(* ===================================================================================== *)
(* 4 (b). arbitrary weights: the dependency-restricted sum                                 *)
Local Close Scope Qc_scope.
Local Open Scope nat_scope.

(* all assignments of the listed variables over a base assignment *)
Fixpoint all_asg (vs : list var) (x : asg) : list asg :=
  match vs with
  | [] => [x]
  | v :: t => all_asg t (upd x v false) ++ all_asg t (upd x v true)
  end.
(* does f, with the variables outside v :: vs fixed by x, depend on v? *)
Definition depends_b (vs : list var) (f : asg -> bool) (x : asg) (v : var) : bool :=
  existsb (fun y => xorb (f (upd y v false)) (f (upd y v true))) (all_asg vs x).
(* the query variables take the values of a, the others those of y *)
Definition mix (Q : list var) (a y : asg) : asg := fun u => if mem_var u Q then a u else y u.

Lemma all_asg_out vs : forall x y, In y (all_asg vs x) -> forall u, ~ In u vs -> y u = x u.
Proof.
  induction vs as [|v t IH]; intros x y Hy u Hu; simpl in Hy.
  - destruct Hy as [<-|[]]. reflexivity.
  - apply in_app_or in Hy. destruct Hy as [Hy|Hy]; rewrite (IH _ _ Hy u) by (simpl in Hu; tauto);
      unfold upd; destruct (N.eqb_spec u v); auto; subst; simpl in Hu; tauto.
Qed.
Lemma all_asg_complete vs : forall x y, (forall u, ~ In u vs -> y u = x u) ->
  exists y', In y' (all_asg vs x) /\ forall u, y' u = y u.
Proof.
  induction vs as [|v t IH]; intros x y Hy; simpl.
  - exists x. split; auto. intros u. symmetry. apply Hy. intros [].
  - destruct (IH (upd x v (y v)) y) as (y' & Hin & Heq).
    { intros u Hu. unfold upd. destruct (N.eqb_spec u v) as [->|Hne]; auto.
      apply Hy. simpl. intros [H|H]; [congruence|contradiction]. }
    exists y'. split; auto. apply in_or_app. destruct (y v); auto.
Qed.
Lemma existsb_ext_in {A} (f g : A -> bool) l : (forall x, In x l -> f x = g x) -> existsb f l = existsb g l.
Proof. induction l as [|x l IH]; simpl; intros H; auto. rewrite H, IH; auto. Qed.
Lemma existsb_false_in {A} (f : A -> bool) l x : existsb f l = false -> In x l -> f x = false.
Proof.
  intros E Hin. destruct (f x) eqn:F; auto. assert (existsb f l = true) by (apply existsb_exists; eauto). congruence.
Qed.

Lemma depends_false vs f x v : ext_fun f -> depends_b vs f x v = false ->
  forall y, (forall u, ~ In u vs -> u <> v -> y u = x u) -> f (upd y v false) = f (upd y v true).
Proof.
  intros E D y Hy.
  destruct (all_asg_complete vs x (upd y v (x v))) as (y' & Hin & Heq).
  { intros u Hu. unfold upd. destruct (N.eqb_spec u v) as [->|Hne]; auto. }
  pose proof (existsb_false_in _ _ _ D Hin) as X. cbv beta in X. apply xorb_eq in X.
  assert (U : forall b u, upd y v b u = upd y' v b u).
  { intros b u. unfold upd. destruct (N.eqb_spec u v) as [->|Hne]; auto.
    rewrite Heq. unfold upd. destruct (N.eqb_spec u v); congruence. }
  rewrite (E _ _ (U false)), (E _ _ (U true)). exact X.
Qed.
Lemma depends_indep vs f x v : (forall y, f (upd y v false) = f (upd y v true)) -> depends_b vs f x v = false.
Proof.
  intros H. unfold depends_b. induction (all_asg vs x) as [|y l IH]; simpl; auto.
  rewrite H, xorb_nilpotent. exact IH.
Qed.
Lemma depends_local vs f g x v : (forall y, (forall u, ~ In u (v :: vs) -> y u = x u) -> f y = g y) ->
  depends_b vs f x v = depends_b vs g x v.
Proof.
  intros H. unfold depends_b. apply existsb_ext_in. intros y Hy.
  assert (A : forall b u, ~ In u (v :: vs) -> upd y v b u = x u).
  { intros b u Hu. unfold upd. destruct (N.eqb_spec u v) as [->|Hne]; [simpl in Hu; tauto|].
    apply (all_asg_out vs x y Hy). simpl in Hu; tauto. }
  rewrite (H _ (A false)), (H _ (A true)). reflexivity.
Qed.

Section Dep.
Context {T : Type}.
Variables (add mul : T -> T -> T) (zero one : T).
Hypothesis mul_comm : forall a b, mul a b = mul b a.
Hypothesis mul_one_r : forall a, mul a one = a.
Hypothesis distr_l : forall a b c, mul a (add b c) = add (mul a b) (mul a c).
Variable wlo whi : var -> T.

(* recursion over the variables in order, branching only on those the sub-function depends on:
   the unsmoothed count of the ROBDD of f under that order *)
Fixpoint wmc_dep (vs : list var) (f : asg -> bool) (x : asg) : T :=
  match vs with
  | [] => if f x then one else zero
  | v :: t =>
    if depends_b t f x v
    then add (mul (wlo v) (wmc_dep t f (upd x v false))) (mul (whi v) (wmc_dep t f (upd x v true)))
    else wmc_dep t f (upd x v false)
  end.

Lemma wmc_dep_local : forall vs f g x,
  (forall y, (forall u, ~ In u vs -> y u = x u) -> f y = g y) -> wmc_dep vs f x = wmc_dep vs g x.
Proof.
  induction vs as [|v t IH]; intros f g x H; simpl.
  - rewrite (H x); auto.
  - rewrite (depends_local t f g x v H).
    assert (A : forall b y, (forall u, ~ In u t -> y u = upd x v b u) -> f y = g y).
    { intros b y Hy. apply H. intros u Hu. rewrite Hy by (simpl in Hu; tauto).
      unfold upd. destruct (N.eqb_spec u v); auto. subst; simpl in Hu; tauto. }
    rewrite (IH f g (upd x v false) (A false)), (IH f g (upd x v true) (A true)). reflexivity.
Qed.

Variable level : var -> nat.
Hypothesis level_inj : forall u v, level u = level v -> u = v.
Variable Q : list var.
Variable a : asg.

Fixpoint lsorted (vs : list var) : Prop :=
  match vs with [] => True | v :: t => (forall u, In u t -> level v < level u) /\ lsorted t end.

Notation vf := (vfold add mul zero one wlo whi Q a).
Definition Fr (c : bool) (p : bdd) : asg -> bool := fun y => xorb c (den p (mix Q a y)).

Lemma Fr_ext c p : ext_fun (Fr c p).
Proof.
  intros y y' H. unfold Fr. f_equal. apply den_agree. intros u _. unfold mix. destruct (mem_var u Q); auto.
Qed.

Lemma Fr_skip c p v y b b' : ~ In v (support p) -> Fr c p (upd y v b) = Fr c p (upd y v b').
Proof.
  intros Hv. unfold Fr. f_equal. apply den_agree. intros u Hu. unfold mix, upd.
  destruct (mem_var u Q); auto. destruct (N.eqb_spec u v); [subst; contradiction|reflexivity].
Qed.

(* THE THEOREM (leaf value, arbitrary weights): for an ordered reduced diagram, if every
   non-query variable whose weights do not add up to one is ordered after all query variables,
   the value fold of a total assignment a of the query variables is the dependency-restricted
   sum of the function restricted by a. *)
Theorem vfold_dep : forall vs, lsorted vs -> forall p c k x,
  wfb level k p -> (forall u, In u (support p) -> In u vs) ->
  (forall v, In v vs -> ~ In v Q ->
     add (wlo v) (whi v) = one \/ forall q, In q Q -> level q < level v) ->
  vf c p = wmc_dep vs (Fr c p) x.
Proof.
  unfold vfold.
  induction vs as [|v t IH]; intros LS p c k x W SUP NORM.
  - destruct p as [| |c' v' lo hi].
    + simpl. unfold Fr. simpl. destruct c; reflexivity.
    + simpl. unfold Fr. simpl. destruct c; reflexivity.
    + exfalso. apply (SUP v'). simpl; auto.
  - destruct LS as [LT LS'].
    assert (Hvt : ~ In v t) by (intros H; specialize (LT v H); lia).
    assert (NORM' : forall u, In u t -> ~ In u Q ->
                add (wlo u) (whi u) = one \/ forall q, In q Q -> level q < level u).
    { intros u Hu. apply NORM. simpl; auto. }
    assert (KEY : forall q cc kk x', wfb level kk q -> (forall u, In u (support q) -> In u t) ->
              bdd_fold_c (vstep add mul wlo whi Q a) zero one cc q = wmc_dep t (Fr cc q) x').
    { intros q cc kk x' Wq Sq. apply (IH LS' q cc kk x' Wq Sq NORM'). }
    assert (SKIP : forall q cc kk, wfb level kk q -> (forall u, In u (support q) -> In u (v :: t)) ->
              ~ In v (support q) ->
              bdd_fold_c (vstep add mul wlo whi Q a) zero one cc q = wmc_dep (v :: t) (Fr cc q) x).
    { intros q cc kk Wq Sq Hv. cbn [wmc_dep].
      rewrite depends_indep by (intros y; apply Fr_skip; exact Hv).
      apply (KEY q cc kk _ Wq). intros u Hu. destruct (Sq u Hu) as [<-|]; [contradiction|assumption]. }
    destruct p as [| |c' v' lo hi].
    + apply (SKIP BT c k); simpl; auto.
    + apply (SKIP BF c k); simpl; auto.
    + destruct (N.eq_dec v' v) as [->|NE].
      * (* the node tests v *)
        pose proof W as W'. simpl in W'. destruct W' as (Hk & Wlo & Whi & Hne & _).
        assert (Slo : forall u, In u (support lo) -> In u t).
        { intros u Hu. destruct (SUP u) as [<-|]; auto. { simpl. right. apply in_or_app; auto. }
          pose proof (wfb_support_ge level _ _ Wlo _ Hu). lia. }
        assert (Shi : forall u, In u (support hi) -> In u t).
        { intros u Hu. destruct (SUP u) as [<-|]; auto. { simpl. right. apply in_or_app; auto. }
          pose proof (wfb_support_ge level _ _ Whi _ Hu). lia. }
        assert (Nlo : ~ In v (support lo)) by (intros H; apply Hvt; auto).
        assert (Nhi : ~ In v (support hi)) by (intros H; apply Hvt; auto).
        cbn [bdd_fold_c]. unfold vstep at 1.
        destruct (mem_var v Q) eqn:Eq.
        -- (* a query variable: the restricted function does not depend on it *)
           assert (Hm : forall y, mix Q a y v = a v) by (intros y; unfold mix; rewrite Eq; reflexivity).
           cbn [wmc_dep]. rewrite depends_indep.
           2:{ intros y. unfold Fr. f_equal. apply den_agree. intros u _. unfold mix, upd.
               destruct (mem_var u Q) eqn:Eu; auto. destruct (N.eqb_spec u v); auto. subst. congruence. }
           destruct (a v) eqn:Eav.
           ++ rewrite (KEY hi (xorb c c') _ (upd x v false) Whi Shi). apply wmc_dep_local. intros y _.
              unfold Fr. cbn [den]. rewrite Hm, xorb_assoc. reflexivity.
           ++ rewrite (KEY lo (xorb c c') _ (upd x v false) Wlo Slo). apply wmc_dep_local. intros y _.
              unfold Fr. cbn [den]. rewrite Hm, xorb_assoc. reflexivity.
        -- (* a summed variable *)
           assert (Hm : forall y, mix Q a y v = y v) by (intros y; unfold mix; rewrite Eq; reflexivity).
           apply mem_var_nIn in Eq.
           assert (Blo : forall y, (forall u, ~ In u t -> y u = upd x v false u) ->
                     Fr c (BN c' v lo hi) y = Fr (xorb c c') lo y).
           { intros y Hy. unfold Fr. cbn [den]. rewrite Hm, (Hy v Hvt), upd_same, xorb_assoc. reflexivity. }
           assert (Bhi : forall y, (forall u, ~ In u t -> y u = upd x v true u) ->
                     Fr c (BN c' v lo hi) y = Fr (xorb c c') hi y).
           { intros y Hy. unfold Fr. cbn [den]. rewrite Hm, (Hy v Hvt), upd_same, xorb_assoc. reflexivity. }
           cbn [wmc_dep]. destruct (depends_b t (Fr c (BN c' v lo hi)) x v) eqn:D.
           ++ rewrite (KEY lo (xorb c c') _ (upd x v false) Wlo Slo), (KEY hi (xorb c c') _ (upd x v true) Whi Shi).
              rewrite (wmc_dep_local t _ _ (upd x v false) Blo), (wmc_dep_local t _ _ (upd x v true) Bhi).
              reflexivity.
           ++ (* the restricted function does not depend on v although the node tests it *)
              assert (EQ : forall y, (forall u, ~ In u (v :: t) -> y u = x u) ->
                        Fr (xorb c c') lo y = Fr (xorb c c') hi y).
              { intros y Hy.
                assert (Hy' : forall u, ~ In u t -> u <> v -> y u = x u).
                { intros u H1 H2. apply Hy. simpl. intros [H|H]; [congruence|contradiction]. }
                pose proof (depends_false t _ x v (Fr_ext _ _) D y Hy') as X.
                unfold Fr in X. cbn [den] in X. rewrite !Hm, !upd_same in X.
                rewrite <- !xorb_assoc in X.
                fold (Fr (xorb c c') lo (upd y v false)) in X. fold (Fr (xorb c c') hi (upd y v true)) in X.
                assert (Ey : forall u, y u = upd y v (y v) u).
                { intros u. unfold upd. destruct (N.eqb_spec u v); congruence. }
                rewrite (Fr_ext _ lo _ _ Ey), (Fr_ext _ hi _ _ Ey).
                rewrite (Fr_skip _ lo v y (y v) false Nlo), (Fr_skip _ hi v y (y v) true Nhi). exact X. }
              destruct (NORM v (or_introl eq_refl) Eq) as [Nv|After].
              ** rewrite (KEY lo (xorb c c') _ (upd x v false) Wlo Slo), (KEY hi (xorb c c') _ (upd x v false) Whi Shi).
                 assert (E2 : wmc_dep t (Fr (xorb c c') hi) (upd x v false) = wmc_dep t (Fr (xorb c c') lo) (upd x v false)).
                 { apply wmc_dep_local. intros y Hy. symmetry. apply EQ. intros u Hu.
                   rewrite Hy by (simpl in Hu; tauto). unfold upd. destruct (N.eqb_spec u v); auto.
                   subst; simpl in Hu; tauto. }
                 rewrite E2.
                 rewrite (mul_comm (wlo v)), (mul_comm (whi v)), <- distr_l, Nv, mul_one_r.
                 symmetry. apply wmc_dep_local. exact Blo.
              ** (* v is ordered after every query variable: lo and hi denote the same function *)
                 exfalso. apply Hne.
                 assert (NQ : forall q u, wfb level (S (level v)) q -> In u (support q) -> mem_var u Q = false).
                 { intros q u Wq Hu. apply mem_var_nIn. intros HQ.
                   pose proof (wfb_support_ge level _ _ Wq _ Hu). specialize (After u HQ). lia. }
                 apply (bdd_canonical level level_inj lo hi (S (level v)) Wlo Whi). intros y.
                 set (y' := fun u => if mem_var u t then y u else x u).
                 assert (Hy' : forall u, ~ In u (v :: t) -> y' u = x u).
                 { intros u Hu. unfold y'. destruct (mem_var u t) eqn:E; auto. apply mem_var_In in E. simpl in Hu; tauto. }
                 pose proof (EQ y' Hy') as X. unfold Fr in X.
                 assert (Dlo : den lo (mix Q a y') = den lo y).
                 { apply den_agree. intros u Hu. unfold mix. rewrite (NQ lo u Wlo Hu). unfold y'.
                   rewrite (proj2 (mem_var_In u t) (Slo u Hu)). reflexivity. }
                 assert (Dhi : den hi (mix Q a y') = den hi y).
                 { apply den_agree. intros u Hu. unfold mix. rewrite (NQ hi u Whi Hu). unfold y'.
                   rewrite (proj2 (mem_var_In u t) (Shi u Hu)). reflexivity. }
                 rewrite Dlo, Dhi in X. destruct (xorb c c'), (den lo y), (den hi y); simpl in X; congruence.
      * (* the node tests a later variable *)
        apply (SKIP _ c k W SUP). intros Hv.
        pose proof W as W'. simpl in W'. destruct W' as (Hk & Wlo & Whi & Hrest).
        assert (W2 : wfb level (level v') (BN c' v' lo hi)) by (simpl; auto).
        pose proof (wfb_support_ge level _ _ W2 _ Hv) as G.
        destruct (SUP v') as [E|Hin]; [simpl; auto|congruence|]. specialize (LT v' Hin). lia.
Qed.
End Dep.

(* with no query variables the value fold is the plain weighted count (Model/Wmc.v), so the
   dependency-restricted sum is the unsmoothed count of every ordered reduced diagram, for
   arbitrary weights *)
Theorem wmc_dep_unsmoothed {T : Type} (add mul : T -> T -> T) (zero one : T) :
  (forall a b, mul a b = mul b a) -> (forall a, mul a one = a) ->
  (forall a b c, mul a (add b c) = add (mul a b) (mul a c)) ->
  forall (wlo whi : var -> T) (level : var -> nat), (forall u v, level u = level v -> u = v) ->
  forall vars p c k x, lsorted level vars -> wfb level k p -> (forall u, In u (support p) -> In u vars) ->
  wmc_c T add mul zero one wlo whi c p =
  wmc_dep add mul zero one wlo whi vars (fun y => xorb c (den p y)) x.
Proof.
  intros MC M1 D wlo whi level LI vars p c k x LS W SUP.
  assert (E : forall q cc, vfold add mul zero one wlo whi [] (fun _ => false) cc q =
                           wmc_c T add mul zero one wlo whi cc q).
  { unfold vfold. induction q as [| |c' v lo IHlo hi IHhi]; intros cc; simpl; [reflexivity|reflexivity|].
    rewrite <- IHlo, <- IHhi. reflexivity. }
  rewrite <- E.
  rewrite (vfold_dep add mul zero one MC M1 D wlo whi level LI [] (fun _ => false) vars LS p c k x W SUP).
  - apply wmc_dep_local. intros y _. reflexivity.
  - intros v _ _. right. intros q [].
Qed.

(* ===================================================================================== *)
(* ExpectedUtility: bounding order = componentwise <=, non-negative = both components >= 0,  *)
(* preorder of choose = order of the utility component                                      *)
Local Open Scope Qc_scope.
Definition ecle (a b : eu) : Prop := fst a <= fst b /\ snd a <= snd b.
Definition enn (a : eu) : Prop := 0 <= fst a /\ 0 <= snd a.
Definition eu_gtb (a b : eu) : bool := qgt (snd a) (snd b).        (* meu_h compares .1 *)
Definition eu0 : eu := (0, 0).
Definition eu1 : eu := (1, 0).

Lemma eu_pre_iff a b : pre eu_choose a b <-> snd a <= snd b.
Proof.
  unfold pre, eu_choose. destruct (qgt (snd a) (snd b)) eqn:G.
  - apply qgt_true in G. split; intros H.
    + subst. exfalso. exact (qclt_irrefl _ G).
    + exfalso. exact (Qcle_not_lt _ _ H G).
  - apply qgt_false in G. tauto.
Qed.

Lemma eu_eqb_true a b : eu_eqb a b = true <-> a = b.
Proof.
  destruct a as [a1 a2], b as [b1 b2]. unfold eu_eqb. cbn [fst snd].
  rewrite andb_true_iff, !qeq_true. split; [intros [-> ->]; reflexivity|intros H; inversion H; auto].
Qed.

Ltac eu_ring := intros; repeat match goal with x : eu |- _ => destruct x end;
  unfold eu_add, eu_mul, eu0, eu1; cbn [fst snd]; f_equal; ring.

Lemma eu_add_comm a b : eu_add a b = eu_add b a. Proof. eu_ring. Qed.
Lemma eu_add_assoc a b c : eu_add (eu_add a b) c = eu_add a (eu_add b c). Proof. eu_ring. Qed.
Lemma eu_mul_assoc a b c : eu_mul (eu_mul a b) c = eu_mul a (eu_mul b c). Proof. eu_ring. Qed.
Lemma eu_mul_comm a b : eu_mul a b = eu_mul b a. Proof. eu_ring. Qed.
Lemma eu_mul_one_r a : eu_mul a eu1 = a. Proof. eu_ring. Qed.
Lemma eu_mul_zero_r a : eu_mul a eu0 = eu0. Proof. eu_ring. Qed.
Lemma eu_add_zero_r a : eu_add a eu0 = a. Proof. eu_ring. Qed.
Lemma eu_distr_l a b c : eu_mul a (eu_add b c) = eu_add (eu_mul a b) (eu_mul a c). Proof. eu_ring. Qed.

Lemma ecle_refl a : ecle a a.
Proof. split; apply Qcle_refl. Qed.
Lemma ecle_trans a b c : ecle a b -> ecle b c -> ecle a c.
Proof. intros [H1 H2] [H3 H4]. split; eapply Qcle_trans; eauto. Qed.
Lemma eu_add_mono a a' b b' : ecle a a' -> ecle b b' -> ecle (eu_add a b) (eu_add a' b').
Proof. intros [H1 H2] [H3 H4]. split; cbn [eu_add fst snd]; apply Qcplus_le_compat; auto. Qed.
Lemma eu_mul_mono w x y : enn w -> ecle x y -> ecle (eu_mul w x) (eu_mul w y).
Proof.
  intros [W1 W2] [H1 H2]. split; cbn [eu_mul fst snd].
  - apply qc_mul_mono; auto.
  - apply Qcplus_le_compat; apply qc_mul_mono; auto.
Qed.
Lemma eu_join_ub_l a b : ecle a (eu_join a b).
Proof. split; cbn [eu_join fst snd]; apply qmax_ge_l. Qed.
Lemma eu_join_ub_r a b : ecle b (eu_join a b).
Proof. split; cbn [eu_join fst snd]; apply qmax_ge_r. Qed.
Lemma enn_one : enn eu1.
Proof. split; cbn [eu1 fst snd]; [apply qc_0_le_1|apply Qcle_refl]. Qed.
Lemma qc_nn_add a b : 0 <= a -> 0 <= b -> 0 <= a + b.
Proof. intros. replace 0 with (0 + 0) by ring. apply Qcplus_le_compat; auto. Qed.
Lemma enn_mul a b : enn a -> enn b -> enn (eu_mul a b).
Proof.
  intros [A1 A2] [B1 B2]. split; cbn [eu_mul fst snd].
  - apply qc_nn_mul; auto.
  - apply qc_nn_add; apply qc_nn_mul; auto.
Qed.
Lemma eu_unit_mul a b : enn a -> enn b -> ecle a eu1 -> ecle b eu1 -> ecle (eu_mul a b) eu1.
Proof.
  destruct a as [a1 a2], b as [b1 b2]. unfold enn, ecle, eu1. cbn [fst snd eu_mul].
  intros [A1 A2] [B1 B2] [A3 A4] [B3 B4].
  assert (a2 = 0) by (apply Qcle_antisym; auto). assert (b2 = 0) by (apply Qcle_antisym; auto). subst.
  split; [apply qc_unit_mul; auto|]. replace (a1 * 0 + 0 * b1) with 0 by ring. apply Qcle_refl.
Qed.

Ltac eu_laws_t :=
  first
    [ exact eu_add_comm | exact eu_add_assoc | exact eu_mul_assoc | exact eu_mul_comm
    | exact eu_mul_one_r | exact eu_mul_zero_r | exact eu_add_zero_r | exact eu_distr_l
    | exact ecle_refl | exact ecle_trans | exact eu_add_mono | exact eu_mul_mono
    | exact eu_join_ub_l | exact eu_join_ub_r | exact enn_one | exact enn_mul | exact eu_unit_mul
    | solve [ intros a b; rewrite !eu_pre_iff; apply qc_le_total ]
    | solve [ intros a b c; rewrite !eu_pre_iff; apply Qcle_trans ]
    | solve [ intros a b; unfold eu_choose; destruct (qgt (snd a) (snd b)); auto ]
    | exact eu_eqb_true
    | solve [ intros a b H; apply eu_le_join in H; tauto ]
    | solve [ intros a b H; apply eu_pre_iff; apply qgt_false; exact H ]
    | solve [ intros a b H; apply eu_pre_iff; apply Qclt_le_weak; apply qgt_true; exact H ]
    | solve [ intros a b H; apply eu_pre_iff; apply H ] ].

Lemma meu_h_searchA wlo whi p : forall vars lb best cur,
  meu_h_m wlo whi p lb best vars cur = searchA eu_gtb (eu_ub_m wlo whi p) lb best vars cur.
Proof. reflexivity. Qed.
Lemma eu_ub_ubp wlo whi p m rest :
  eu_ub_m wlo whi p m rest = ubp eu_add eu_mul eu0 eu1 eu_join wlo whi p m rest.
Proof. reflexivity. Qed.

(* the objective of MEU: the dependency-restricted sum of the function restricted to the decision
   assignment a (the unsmoothed count of its ROBDD under the order listed in vars) *)
Definition meu_value (wlo whi : var -> eu) (p : bdd) (Q vars : list var) (a : asg) : eu :=
  wmc_dep eu_add eu_mul eu0 eu1 wlo whi vars (fun y => den p (mix Q a y)) a.
(* the objective of bb over ExpectedUtility: the same, times the weights of the chosen literals *)
Definition bbe_value (wlo whi : var -> eu) (p : bdd) (Q vars : list var) (a : asg) : eu :=
  eu_mul (prodS eu_mul eu1 wlo whi a Q) (meu_value wlo whi p Q vars a).

Section EuOpt.
Variable n : nat.
Variables wlo whi : var -> eu.
Variable p : bdd.
Variables Q vars : list var.
Variable level : var -> nat.
Hypothesis level_inj : forall u v, level u = level v -> u = v.
Hypothesis WF : wfb level 0 p.
Hypothesis SORTED : lsorted level vars.          (* vars lists the variables by increasing level *)
Hypothesis SUP : forall u, In u (support p) -> In u vars.
Hypothesis NDQ : NoDup Q.
Hypothesis HQn : forall q, In q Q -> (N.to_nat q < n)%nat.
(* probabilities and utilities of the chance / reward variables are non-negative *)
Hypothesis WNN : forall v, In v vars -> ~ In v Q -> enn (wlo v) /\ enn (whi v).
(* every variable whose two weights do not add up to the unit (1,0) -- in particular every
   utility-bearing variable -- is ordered after all decision variables *)
Hypothesis AFTER : forall v, In v vars -> ~ In v Q ->
  eu_add (wlo v) (whi v) = eu1 \/ forall q, In q Q -> (level q < level v)%nat.

Lemma eu_nnO : forall v, In v (support p) -> ~ In v Q -> enn (wlo v) /\ enn (whi v).
Proof. intros v Hv. apply WNN. auto. Qed.

Lemma Vp_meu_value a : Vp eu_add eu_mul eu0 eu1 wlo whi Q p a = meu_value wlo whi p Q vars a.
Proof.
  unfold Vp, meu_value.
  rewrite (vfold_dep eu_add eu_mul eu0 eu1 eu_mul_comm eu_mul_one_r eu_distr_l wlo whi level level_inj Q a
             vars SORTED p false 0%nat a WF SUP AFTER).
  apply wmc_dep_local. intros y _. unfold Fr. apply xorb_false_l.
Qed.

Theorem meu_leaf_value_exact m a : Inv Q m [] -> agrees m a ->
  eu_ub_m wlo whi p m [] = meu_value wlo whi p Q vars a.
Proof.
  intros I Ha. rewrite eu_ub_ubp, <- Vp_meu_value. apply ubp_leaf; auto.
Qed.

Theorem meu_ub_is_upper_bound m rest a : Inv Q m rest -> agrees m a ->
  ecle (meu_value wlo whi p Q vars a) (eu_ub_m wlo whi p m rest).
Proof.
  intros I Ha. rewrite eu_ub_ubp, <- Vp_meu_value.
  apply (ubp_upper eu_add eu_mul eu0 eu1 eu_join) with (nn := enn); auto; try eu_laws_t; try exact eu_nnO.
Qed.

(* bnb_optimal, MEU: optimal in the utility component *)
Theorem meu_optimal :
  exists v pi, meu_m n wlo whi p Q = Some (v, pi) /\
    (forall x, pi x <> None <-> In x Q) /\
    v = meu_value wlo whi p Q vars (asg_of pi) /\
    forall a, snd (meu_value wlo whi p Q vars a) <= snd v.
Proof.
  destruct (from_litvec_all_true n Q HQn) as (m0 & E0 & Hm0).
  unfold meu_m. rewrite E0.
  set (r := meu_h_m wlo whi p (eu_ub_m wlo whi p m0 []) m0 Q pm_empty).
  exists (fst r), (snd r). split; [destruct r; reflexivity|].
  assert (R := searchA_plain eu_add eu_mul eu0 eu1 eu_join eu_choose eu_gtb).
  specialize R with (cle := ecle) (nn := enn) (wlo := wlo) (whi := whi) (Q := Q) (p := p) (m0 := m0).
  destruct R as (R1 & R2 & R3); auto; try eu_laws_t; try exact eu_nnO.
  change (searchA eu_gtb (ubp eu_add eu_mul eu0 eu1 eu_join wlo whi p)
            (ubp eu_add eu_mul eu0 eu1 eu_join wlo whi p m0 []) m0 Q pm_empty) with r in R1, R2, R3.
  split; [exact R2|]. split.
  - rewrite <- Vp_meu_value. exact R1.
  - intros a. rewrite <- Vp_meu_value. apply eu_pre_iff. apply R3.
Qed.

(* --- bb over ExpectedUtility: the decision weights are multiplied in, so they must lie in the
   unit interval of the semiring: probability in [0,1], utility 0 (the tests use (1,0)) --- *)
Hypothesis HF_unit : forall q b, In q Q -> enn (wsel wlo whi q b) /\ ecle (wsel wlo whi q b) eu1.

Lemma Vw_bbe_value a : Vw eu_add eu_mul eu0 eu1 wlo whi Q p a = bbe_value wlo whi p Q vars a.
Proof. unfold Vw, bbe_value. f_equal. apply Vp_meu_value. Qed.

Theorem bb_eu_leaf_value_exact m a : Inv Q m [] -> agrees m a ->
  bb_ub_m eu_bb n wlo whi p m [] = bbe_value wlo whi p Q vars a.
Proof.
  intros I Ha. rewrite bb_ub_ubw by eu_laws_t. rewrite <- Vw_bbe_value.
  apply (ubw_leaf eu_add eu_mul eu0 eu1 eu_join); auto; eu_laws_t.
Qed.

Theorem bb_eu_ub_is_upper_bound m rest a : Inv Q m rest -> agrees m a ->
  ecle (bbe_value wlo whi p Q vars a) (bb_ub_m eu_bb n wlo whi p m rest).
Proof.
  intros I Ha. rewrite bb_ub_ubw by eu_laws_t. rewrite <- Vw_bbe_value.
  apply (ubw_upper eu_add eu_mul eu0 eu1 eu_join) with (cle := ecle) (nn := enn); auto;
    try eu_laws_t; try exact eu_nnO. exact (wfb_free level 0 p WF).
Qed.

Theorem bb_eu_optimal :
  exists v pi, bb_eu_m n wlo whi p Q = Some (v, pi) /\
    (forall x, pi x <> None <-> In x Q) /\
    v = bbe_value wlo whi p Q vars (asg_of pi) /\
    forall a, snd (bbe_value wlo whi p Q vars a) <= snd v.
Proof.
  destruct (from_litvec_all_true n Q HQn) as (m0 & E0 & Hm0).
  unfold bb_eu_m, bb_m. rewrite E0.
  set (r := bb_h_m eu_bb n wlo whi p (bb_ub_m eu_bb n wlo whi p m0 []) m0 Q pm_empty).
  exists (fst r), (snd r). split; [destruct r; reflexivity|].
  assert (R := searchB_weighted eu_add eu_mul eu0 eu1 eu_join eu_choose eu_le eu_eqb).
  specialize R with (cle := ecle) (nn := enn) (wlo := wlo) (whi := whi) (Q := Q) (n := n) (p := p)
                    (ub := bb_ub_m eu_bb n wlo whi p) (m0 := m0).
  destruct R as (R1 & R2 & R3); auto; try eu_laws_t; try exact eu_nnO.
  { exact (wfb_free level 0 p WF). }
  { intros m rest. apply (bb_ub_ubw eu_bb); eu_laws_t. }
  change (searchB eu_choose eu_le eu_eqb (bb_ub_m eu_bb n wlo whi p) (bb_ub_m eu_bb n wlo whi p m0 []) m0 Q pm_empty)
    with r in R1, R2, R3.
  split; [exact R2|]. split.
  - rewrite <- Vw_bbe_value. exact R1.
  - intros a. rewrite <- Vw_bbe_value. apply eu_pre_iff. apply R3.
Qed.
End EuOpt.
