(* Proofs about Model/Semirings.v: exactness of the finite-field operations (no overflow, no
   panic, result = integer arithmetic mod P) for every modulus satisfying [ff_ok], discharge
   of [ff_ok] for every exported prime, and the commutative-semiring / ring / lattice laws of
   every shipped weight type. *)
From Coq Require Import Bool NArith ZArith QArith Qcanon List Arith Lia Ring.
Import ListNotations.
From RsddV Require Import Base.Util Generated.Constants Model.Semirings.

(* ===================================================================================== *)
(* The laws of a commutative semiring on the elements satisfying [dom]                     *)
Record csr_laws {A : Type} (dom : A -> Prop) (o : sr_ops A) : Prop := {
  csr_dom_add  : forall a b, dom a -> dom b -> dom (sr_add o a b);
  csr_dom_mul  : forall a b, dom a -> dom b -> dom (sr_mul o a b);
  csr_dom_zero : dom (sr_zero o);
  csr_dom_one  : dom (sr_one o);
  csr_add_assoc : forall a b c, dom a -> dom b -> dom c ->
                  sr_add o (sr_add o a b) c = sr_add o a (sr_add o b c);
  csr_add_comm  : forall a b, dom a -> dom b -> sr_add o a b = sr_add o b a;
  csr_add_zero  : forall a, dom a -> sr_add o (sr_zero o) a = a /\ sr_add o a (sr_zero o) = a;
  csr_mul_assoc : forall a b c, dom a -> dom b -> dom c ->
                  sr_mul o (sr_mul o a b) c = sr_mul o a (sr_mul o b c);
  csr_mul_comm  : forall a b, dom a -> dom b -> sr_mul o a b = sr_mul o b a;
  csr_mul_one   : forall a, dom a -> sr_mul o (sr_one o) a = a /\ sr_mul o a (sr_one o) = a;
  csr_mul_zero  : forall a, dom a ->
                  sr_mul o (sr_zero o) a = sr_zero o /\ sr_mul o a (sr_zero o) = sr_zero o;
  csr_distr     : forall a b c, dom a -> dom b -> dom c ->
                  sr_mul o a (sr_add o b c) = sr_add o (sr_mul o a b) (sr_mul o a c) /\
                  sr_mul o (sr_add o b c) a = sr_add o (sr_mul o b a) (sr_mul o c a)
}.

Definition everything {A : Type} (_ : A) : Prop := True.

(* ===================================================================================== *)
(* FiniteField                                                                             *)
Local Open Scope N_scope.

Definition ff_ok (P : N) : Prop := 1 < P /\ 2 * P <= u128.

Lemma ff_okb_ok P : ff_okb P = true -> ff_ok P.
Proof.
  unfold ff_okb, ff_ok. intros H. apply andb_true_iff in H. destruct H as [H1 H2].
  apply N.ltb_lt in H1. apply N.leb_le in H2. auto.
Qed.

(* every exported prime (re-read from src/constants.rs into Generated/Constants.v) satisfies
   the side conditions: a constant >= 2^127 (or < 2) breaks this proof *)
Lemma exported_primes_okb : forallb ff_okb exported_primes = true.
Proof. vm_compute. reflexivity. Qed.

Lemma exported_primes_ok P : In P exported_primes -> ff_ok P.
Proof.
  intros H. apply ff_okb_ok. pose proof exported_primes_okb as A.
  rewrite forallb_forall in A. auto.
Qed.

Lemma u_add_ok m x y : x + y < u128 -> u_add m x y = Some (x + y).
Proof. intros H. unfold u_add. apply N.ltb_lt in H. rewrite H. reflexivity. Qed.

Lemma u_sub_ok m x y : y <= x -> u_sub m x y = Some (x - y).
Proof. intros H. unfold u_sub. apply N.leb_le in H. rewrite H. reflexivity. Qed.

Lemma u_rem_ok x p : 0 < p -> u_rem x p = Some (x mod p).
Proof.
  intros H. unfold u_rem. destruct (N.eqb_spec p 0) as [E|E]; [lia|reflexivity].
Qed.

Lemma ff_new_ok P v : 0 < P -> ff_new P v = Some (v mod P).
Proof. apply u_rem_ok. Qed.

(* the guard of [u_rem] is real: a zero modulus panics *)
Lemma ff_new_zero_modulus v : ff_new 0 v = None.
Proof. reflexivity. Qed.

Lemma ff_one_ok P : 1 < P -> ff_one P = Some 1.
Proof. intros H. unfold ff_one. rewrite ff_new_ok by lia. rewrite N.mod_small by lia. reflexivity. Qed.

Lemma ff_zero_ok P : 0 < P -> ff_zero P = Some 0.
Proof. intros H. unfold ff_zero. rewrite ff_new_ok by lia. rewrite N.mod_small by lia. reflexivity. Qed.

(* --- exactness --- *)
Lemma ff_add_exact_gen m P a b : 0 < P -> 2 * P <= u128 -> a < P -> b < P ->
  ff_add m P a b = Some ((a + b) mod P).
Proof.
  intros HP H2 Ha Hb. unfold ff_add. rewrite u_add_ok by lia. cbn [bind].
  rewrite u_rem_ok by lia. cbn [bind]. rewrite ff_new_ok by lia.
  rewrite N.mod_mod by lia. reflexivity.
Qed.

Lemma add_mod_ok m P x y : 0 < P -> P <= u128 -> x < P -> y < P ->
  add_mod m P x y = Some ((x + y) mod P).
Proof.
  intros HP H2 Hx Hy. unfold add_mod. rewrite u_sub_ok by lia. cbn [bind].
  destruct (N.leb_spec (P - y) x) as [L|L].
  - rewrite u_sub_ok by lia. f_equal. apply N.mod_unique with (q := 1); lia.
  - rewrite u_add_ok by lia. f_equal. symmetry. apply N.mod_small. lia.
Qed.

Lemma ff_mul_loop_ok m P : 0 < P -> P <= u128 -> forall b a acc, a < P -> acc < P ->
  ff_mul_loop m P b a acc = Some ((acc + a * Npos b) mod P).
Proof.
  intros HP H2. assert (P <> 0) as HP0 by lia.
  induction b as [b IH|b IH|]; intros a acc Ha Hacc; cbn [ff_mul_loop].
  - rewrite (add_mod_ok m P acc a) by lia. cbn [bind].
    rewrite (add_mod_ok m P a a) by lia. cbn [bind].
    rewrite IH by (apply N.mod_lt; lia). f_equal.
    rewrite N.add_mod_idemp_l by lia.
    rewrite <- N.add_mod_idemp_r by lia. rewrite N.mul_mod_idemp_l by lia.
    rewrite N.add_mod_idemp_r by lia. f_equal. replace (N.pos b~1) with (2 * N.pos b + 1) by reflexivity. ring.
  - rewrite (add_mod_ok m P a a) by lia. cbn [bind].
    rewrite IH by (try apply N.mod_lt; lia). f_equal.
    rewrite <- N.add_mod_idemp_r by lia. rewrite N.mul_mod_idemp_l by lia.
    rewrite N.add_mod_idemp_r by lia. f_equal. replace (N.pos b~0) with (2 * N.pos b) by reflexivity. ring.
  - rewrite (add_mod_ok m P acc a) by lia. cbn [bind].
    rewrite (add_mod_ok m P a a) by lia. cbn [bind]. f_equal. f_equal. ring.
Qed.

Lemma ff_mul_exact_gen m P a b : 0 < P -> P <= u128 -> a < P -> b < P ->
  ff_mul m P a b = Some ((a * b) mod P).
Proof.
  intros HP H2 Ha Hb. unfold ff_mul, checked_mul.
  destruct (N.ltb_spec (a * b) u128) as [L|L].
  - rewrite u_rem_ok by lia. cbn [bind]. rewrite ff_new_ok by lia.
    rewrite N.mod_mod by lia. reflexivity.
  - destruct b as [|p].
    + rewrite ff_new_ok by lia. rewrite N.mul_0_r. reflexivity.
    + rewrite ff_mul_loop_ok by lia. cbn [bind]. rewrite ff_new_ok by lia.
      rewrite N.mod_mod by lia. reflexivity.
Qed.

(* the double-and-add branch is really taken for the large primes (non-vacuity of the above) *)
Lemma ff_mul_slow_path_reached :
  checked_mul (prime_U128_LARGE_4 - 1) (prime_U128_LARGE_4 - 1) = None.
Proof. vm_compute. reflexivity. Qed.

Definition zp_sub (P a b : N) : N := (a + P - b) mod P.

Lemma ff_sub_exact_gen m P a b : 0 < P -> a < P -> b < P ->
  ff_sub m P a b = Some (zp_sub P a b).
Proof.
  intros HP Ha Hb. unfold ff_sub, zp_sub.
  destruct (N.leb_spec b a) as [L|L].
  - rewrite u_sub_ok by lia. cbn [bind]. rewrite ff_new_ok by lia. f_equal.
    replace (a + P - b) with (a - b + 1 * P) by lia. rewrite N.mod_add by lia. reflexivity.
  - rewrite u_sub_ok by lia. cbn [bind]. rewrite u_sub_ok by lia. cbn [bind].
    rewrite ff_new_ok by lia. f_equal. f_equal. lia.
Qed.

Lemma zp_sub_Z P a b : 0 < P -> a < P -> b < P ->
  Z.of_N (zp_sub P a b) = ((Z.of_N a - Z.of_N b) mod Z.of_N P)%Z.
Proof.
  intros HP Ha Hb. unfold zp_sub. rewrite N2Z.inj_mod by lia.
  rewrite N2Z.inj_sub by lia. rewrite N2Z.inj_add.
  replace (Z.of_N a + Z.of_N P - Z.of_N b)%Z with (Z.of_N a - Z.of_N b + 1 * Z.of_N P)%Z by ring.
  apply Z_mod_plus_full.
Qed.

Lemma ff_negate_exact_gen m P x : 1 < P -> 2 * P <= u128 -> x < P ->
  ff_negate m P x = Some (zp_sub P 1 x).
Proof.
  intros HP H2 Hx. unfold ff_negate, zp_sub. rewrite u_sub_ok by lia. cbn [bind].
  rewrite u_add_ok by lia. cbn [bind]. rewrite ff_new_ok by lia. f_equal. f_equal. lia.
Qed.

(* --- the ring Z/P on residues, by integer arithmetic --- *)
Section Zp.
  Variable P : N.
  Hypothesis HP : 1 < P.
  Let P0 : P <> 0. Proof. lia. Qed.

  Lemma zp_laws : csr_laws (fun a => a < P) (zp_ops P).
  Proof.
    constructor; cbn [zp_ops sr_add sr_mul sr_zero sr_one].
    - intros; apply N.mod_lt; lia.
    - intros; apply N.mod_lt; lia.
    - lia.
    - lia.
    - intros a b c _ _ _. rewrite N.add_mod_idemp_l, N.add_mod_idemp_r by lia.
      f_equal. lia.
    - intros a b _ _. f_equal. lia.
    - intros a Ha. split; [rewrite N.add_0_l | rewrite N.add_0_r]; apply N.mod_small; lia.
    - intros a b c _ _ _. rewrite N.mul_mod_idemp_l, N.mul_mod_idemp_r by lia.
      f_equal. lia.
    - intros a b _ _. f_equal. lia.
    - intros a Ha. split; [rewrite N.mul_1_l | rewrite N.mul_1_r]; apply N.mod_small; lia.
    - intros a Ha. split; [rewrite N.mul_0_l | rewrite N.mul_0_r]; apply N.mod_small; lia.
    - intros a b c _ _ _. split.
      + rewrite N.mul_mod_idemp_r by lia. rewrite <- N.add_mod by lia. f_equal. lia.
      + rewrite N.mul_mod_idemp_l by lia. rewrite <- N.add_mod by lia. f_equal. lia.
  Qed.

  Lemma zp_sub_lt a b : zp_sub P a b < P.
  Proof. apply N.mod_lt; lia. Qed.

  (* (a + b) - b = a *)
  Lemma zp_add_sub a b : a < P -> b < P -> zp_sub P ((a + b) mod P) b = a.
  Proof.
    intros Ha Hb. unfold zp_sub.
    rewrite <- N.add_sub_assoc by lia.
    rewrite N.add_mod_idemp_l by lia.
    replace (a + b + (P - b)) with (a + 1 * P) by lia.
    rewrite N.mod_add by lia. apply N.mod_small; lia.
  Qed.

  (* (a - b) + b = a *)
  Lemma zp_sub_add a b : a < P -> b < P -> (zp_sub P a b + b) mod P = a.
  Proof.
    intros Ha Hb. unfold zp_sub. rewrite N.add_mod_idemp_l by lia.
    replace (a + P - b + b) with (a + 1 * P) by lia.
    rewrite N.mod_add by lia. apply N.mod_small; lia.
  Qed.

  (* a - a = 0 and a - b is the solution of x + b = a *)
  Lemma zp_sub_diag a : a < P -> zp_sub P a a = 0.
  Proof.
    intros Ha. unfold zp_sub. replace (a + P - a) with (0 + 1 * P) by lia.
    rewrite N.mod_add by lia. apply N.mod_small; lia.
  Qed.
End Zp.

(* --- the laws for the operations as coded (option = "or panics"), in both build modes --- *)
Definition ffe := option N.
Definition olift2 (f : N -> N -> option N) (x y : ffe) : ffe :=
  bind x (fun a => bind y (fun b => f a b)).
Definition fadd m P := olift2 (ff_add m P).
Definition fmul m P := olift2 (ff_mul m P).
Definition fsub m P := olift2 (ff_sub m P).
Definition fneg m P (x : ffe) : ffe := bind x (ff_negate m P).
(* a value of the type FiniteField<P>: no panic, a residue *)
Definition is_res (P : N) (x : ffe) : Prop := exists r, x = Some r /\ r < P.

Lemma is_res_some P r : r < P -> is_res P (Some r).
Proof. intros H. exists r. auto. Qed.

Ltac ff_sc :=
  match goal with
  | |- _ mod _ < _ => apply N.mod_lt; lia
  | |- zp_sub _ _ _ < _ => apply zp_sub_lt; lia
  | _ => first [assumption | lia]
  end.
Ltac ff_step :=
  first [ rewrite ff_add_exact_gen by ff_sc | rewrite ff_mul_exact_gen by ff_sc
        | rewrite ff_sub_exact_gen by ff_sc | rewrite ff_negate_exact_gen by ff_sc
        | rewrite ff_one_ok by ff_sc | rewrite ff_zero_ok by ff_sc ];
  cbn [bind].
Ltac ff_open :=
  repeat match goal with
         | H : is_res _ _ |- _ => let r := fresh "r" in let E := fresh "E" in let L := fresh "L" in
                                  destruct H as [r [E L]]; subst
         end;
  unfold fadd, fmul, fsub, fneg, olift2; cbn [bind]; repeat ff_step.

Section FFLaws.
  Variable m : mode.
  Variable P : N.
  Hypothesis OK : ff_ok P.
  Let HP : 1 < P. Proof. destruct OK; auto. Qed.
  Let HP2 : 2 * P <= u128. Proof. destruct OK; auto. Qed.
  Let L := zp_laws P HP.

  Lemma ff_closed x y : is_res P x -> is_res P y ->
    is_res P (fadd m P x y) /\ is_res P (fmul m P x y) /\ is_res P (fsub m P x y) /\
    is_res P (fneg m P x) /\ is_res P (ff_one P) /\ is_res P (ff_zero P).
  Proof.
    intros Hx Hy. pose proof HP. pose proof HP2. ff_open.
    repeat split; apply is_res_some; ff_sc.
  Qed.

  Lemma ff_add_assoc x y z : is_res P x -> is_res P y -> is_res P z ->
    fadd m P (fadd m P x y) z = fadd m P x (fadd m P y z).
  Proof. intros Hx Hy Hz. pose proof HP. pose proof HP2. ff_open. f_equal. apply (csr_add_assoc _ _ L); auto. Qed.

  Lemma ff_add_comm x y : is_res P x -> is_res P y -> fadd m P x y = fadd m P y x.
  Proof. intros Hx Hy. pose proof HP. pose proof HP2. ff_open. f_equal. apply (csr_add_comm _ _ L); auto. Qed.

  Lemma ff_add_zero x : is_res P x -> fadd m P (ff_zero P) x = x /\ fadd m P x (ff_zero P) = x.
  Proof.
    intros Hx. pose proof HP. pose proof HP2. ff_open.
    destruct (csr_add_zero _ _ L r L0) as [A B]. cbn [zp_ops sr_add sr_mul sr_zero sr_one] in A, B. rewrite A, B. auto.
  Qed.

  Lemma ff_mul_assoc x y z : is_res P x -> is_res P y -> is_res P z ->
    fmul m P (fmul m P x y) z = fmul m P x (fmul m P y z).
  Proof. intros Hx Hy Hz. pose proof HP. pose proof HP2. ff_open. f_equal. apply (csr_mul_assoc _ _ L); auto. Qed.

  Lemma ff_mul_comm x y : is_res P x -> is_res P y -> fmul m P x y = fmul m P y x.
  Proof. intros Hx Hy. pose proof HP. pose proof HP2. ff_open. f_equal. apply (csr_mul_comm _ _ L); auto. Qed.

  Lemma ff_mul_one x : is_res P x -> fmul m P (ff_one P) x = x /\ fmul m P x (ff_one P) = x.
  Proof.
    intros Hx. pose proof HP. pose proof HP2. ff_open.
    destruct (csr_mul_one _ _ L r L0) as [A B]. cbn [zp_ops sr_add sr_mul sr_zero sr_one] in A, B. rewrite A, B. auto.
  Qed.

  Lemma ff_mul_zero x : is_res P x ->
    fmul m P (ff_zero P) x = ff_zero P /\ fmul m P x (ff_zero P) = ff_zero P.
  Proof.
    intros Hx. pose proof HP. pose proof HP2. ff_open.
    destruct (csr_mul_zero _ _ L r L0) as [A B]. cbn [zp_ops sr_add sr_mul sr_zero sr_one] in A, B. rewrite A, B. auto.
  Qed.

  Lemma ff_distr x y z : is_res P x -> is_res P y -> is_res P z ->
    fmul m P x (fadd m P y z) = fadd m P (fmul m P x y) (fmul m P x z) /\
    fmul m P (fadd m P y z) x = fadd m P (fmul m P y x) (fmul m P z x).
  Proof.
    intros Hx Hy Hz. pose proof HP. pose proof HP2. ff_open.
    destruct (csr_distr _ _ L r1 r0 r) as [A B]; auto. cbn [zp_ops sr_add sr_mul sr_zero sr_one] in A, B. rewrite A, B. auto.
  Qed.

  (* ring subtraction inverts addition, both ways round *)
  Lemma ff_add_sub x y : is_res P x -> is_res P y ->
    fsub m P (fadd m P x y) y = x /\ fadd m P (fsub m P x y) y = x /\ fsub m P x x = ff_zero P.
  Proof.
    intros Hx Hy. pose proof HP. pose proof HP2. ff_open.
    rewrite zp_add_sub, zp_sub_add, zp_sub_diag by lia. auto.
  Qed.

  (* negate x = 1 - x  (the doc comment says "additive inverse"; the code computes 1 - x) *)
  Lemma ff_negate_is_one_minus x : is_res P x -> fneg m P x = fsub m P (ff_one P) x.
  Proof. intros Hx. pose proof HP. pose proof HP2. ff_open. reflexivity. Qed.
End FFLaws.

Local Close Scope N_scope.

(* ===================================================================================== *)
(* Boolean                                                                                 *)
Lemma bool_laws : csr_laws everything bool_ops.
Proof.
  constructor; cbn; unfold everything; auto;
    try (intros a b c _ _ _; destruct a, b, c; auto);
    try (intros a b _ _; destruct a, b; auto);
    try (intros a _; destruct a; auto).
Qed.

(* ===================================================================================== *)
(* exact rationals (stand-in for f64 on exactly representable values) and pairs of them    *)
Local Open Scope Qc_scope.

Lemma qc_laws : csr_laws everything real_ops.
Proof.
  constructor; cbn [real_ops sr_add sr_mul sr_zero sr_one]; unfold everything, real; intros;
    try exact I; try split; ring.
Qed.

Lemma rational_laws : csr_laws everything rational_ops.
Proof. exact qc_laws. Qed.

Lemma real_sub_add (a b : real) : real_sub (sr_add real_ops a b) b = a /\ sr_add real_ops (real_sub a b) b = a.
Proof. cbn [real_ops sr_add]; unfold real_sub, real in *; split; ring. Qed.

Ltac pair_ring :=
  repeat match goal with x : (Qc * Qc)%type |- _ => destruct x end;
  cbn [fst snd]; try split; f_equal; ring.

Lemma cx_laws : csr_laws everything cx_ops.
Proof.
  constructor; cbn [cx_ops sr_add sr_mul sr_zero sr_one]; unfold everything, cx_add, cx_mul, cx; intros;
    try exact I; pair_ring.
Qed.

Lemma cx_sub_add (a b : cx) : cx_sub (cx_add a b) b = a /\ cx_add (cx_sub a b) b = a.
Proof. unfold cx_sub, cx_add, cx in *. pair_ring. Qed.

Lemma eu_laws : csr_laws everything eu_ops.
Proof.
  constructor; cbn [eu_ops sr_add sr_mul sr_zero sr_one]; unfold everything, eu_add, eu_mul, eu; intros;
    try exact I; pair_ring.
Qed.

Lemma eu_sub_add (a b : eu) : eu_sub (eu_add a b) b = a /\ eu_add (eu_sub a b) b = a.
Proof. unfold eu_sub, eu_add, eu in *. pair_ring. Qed.

(* --- order, max, min --- *)
Lemma qcmp_spec (a b : Qc) : CompareSpec (a = b) (a < b) (b < a) (a ?= b).
Proof.
  destruct (a ?= b) eqn:E; constructor.
  - apply Qceq_alt; exact E.
  - apply Qclt_alt; exact E.
  - apply Qcgt_alt; exact E.
Qed.

Lemma qclt_irrefl (a : Qc) : ~ a < a.
Proof. intros H. exact (Qclt_not_eq _ _ H eq_refl). Qed.

(* contradictions among strict inequalities over at most three points *)
Ltac qc_absurd :=
  exfalso;
  match goal with
  | H : ?x < ?x |- _ => exact (qclt_irrefl _ H)
  | H1 : ?x < ?y, H2 : ?y < ?x |- _ => exact (qclt_irrefl _ (Qclt_trans _ _ _ H1 H2))
  | H1 : ?x < ?y, H2 : ?y < ?z, H3 : ?z < ?x |- _ =>
    exact (qclt_irrefl _ (Qclt_trans _ _ _ H1 (Qclt_trans _ _ _ H2 H3)))
  end.

Ltac qc_cases :=
  repeat match goal with
         | H : context [?a ?= ?b] |- _ => revert H
         end;
  repeat match goal with
         | |- context [?a ?= ?b] => is_var a; is_var b; destruct (qcmp_spec a b); subst; cbn beta iota
         end;
  intros.

Ltac qc_order := qc_cases; cbn in *; try reflexivity; try discriminate; try congruence; subst; try qc_absurd.

Lemma qmax_idem a : qmax a a = a.
Proof. unfold qmax. qc_order. Qed.
Lemma qmax_comm a b : qmax a b = qmax b a.
Proof. unfold qmax. qc_order. Qed.
Lemma qmax_assoc a b c : qmax (qmax a b) c = qmax a (qmax b c).
Proof. unfold qmax. qc_order. Qed.
Lemma qmin_idem a : qmin a a = a.
Proof. unfold qmin. qc_order. Qed.
Lemma qmin_comm a b : qmin a b = qmin b a.
Proof. unfold qmin. qc_order. Qed.
Lemma qmin_assoc a b c : qmin (qmin a b) c = qmin a (qmin b c).
Proof. unfold qmin. qc_order. Qed.
Lemma qmax_qmin_absorb a b : qmax a (qmin a b) = a /\ qmin a (qmax a b) = a.
Proof. unfold qmax, qmin. split; qc_order. Qed.

(* Real *)
Lemma real_lattice a b c :
  real_join a a = a /\ real_join a b = real_join b a /\
  real_join (real_join a b) c = real_join a (real_join b c) /\
  real_meet a a = a /\ real_meet a b = real_meet b a /\
  real_meet (real_meet a b) c = real_meet a (real_meet b c) /\
  real_join a (real_meet a b) = a /\ real_meet a (real_join a b) = a.
Proof.
  unfold real_join, real_meet.
  repeat split; auto using qmax_idem, qmax_comm, qmax_assoc, qmin_idem, qmin_comm, qmin_assoc;
    apply qmax_qmin_absorb.
Qed.

Lemma real_le_join a b : real_le a b = true ->
  real_join a b = b /\ real_choose a b = b /\ real_meet a b = a.
Proof.
  unfold real_le, real_partial_cmp, le_of, real_choose, real_join, real_meet, qmax, qmin.
  intros H. repeat split; qc_order.
Qed.

(* for the real order the converse holds too: the declared order is the lattice order *)
Lemma real_join_le a b : real_join a b = b -> real_le a b = true.
Proof.
  unfold real_le, real_partial_cmp, le_of, real_join, qmax. intros H. qc_order.
Qed.

(* ExpectedUtility *)
Lemma eu_lattice a b c :
  eu_join a a = a /\ eu_join a b = eu_join b a /\
  eu_join (eu_join a b) c = eu_join a (eu_join b c) /\
  eu_meet a a = a /\ eu_meet a b = eu_meet b a /\
  eu_meet (eu_meet a b) c = eu_meet a (eu_meet b c) /\
  eu_join a (eu_meet a b) = a /\ eu_meet a (eu_join a b) = a.
Proof.
  destruct a as [a0 a1], b as [b0 b1], c as [c0 c1]. unfold eu_join, eu_meet. cbn [fst snd].
  repeat split; f_equal;
    auto using qmax_idem, qmax_comm, qmax_assoc, qmin_idem, qmin_comm, qmin_assoc;
    apply qmax_qmin_absorb.
Qed.

Lemma eu_le_join a b : eu_le a b = true ->
  eu_join a b = b /\ eu_choose a b = b /\ eu_meet a b = a.
Proof.
  destruct a as [a0 a1], b as [b0 b1].
  unfold eu_le, eu_partial_cmp, le_of, eu_join, eu_choose, eu_meet, qlt, qgt, qeq, qmax, qmin.
  cbn [fst snd]. intros H. repeat split; qc_order.
Qed.

(* The declared order of ExpectedUtility is NOT the order of its own lattice: join a b = b
   does not imply a <= b (it is the strict product order plus equality).  Recorded because a
   generic algorithm that prunes with [partial_cmp] and bounds with [join] sees fewer
   comparable pairs than the lattice has. *)
Definition eu_join_characterises_le : Prop :=
  forall a b, eu_join a b = b -> eu_le a b = true.
Lemma eu_join_characterises_le_refuted : ~ eu_join_characterises_le.
Proof.
  intros H. specialize (H (1, Q2Qc 2) (1, Q2Qc 3)).
  assert (eu_join (1, Q2Qc 2) (1, Q2Qc 3) = (1, Q2Qc 3)) as E.
  { unfold eu_join. cbn [fst snd]. f_equal; apply Qc_is_canon; vm_compute; reflexivity. }
  specialize (H E). vm_compute in H. discriminate H.
Qed.

(* choose is not commutative on ties of the utility component *)
Lemma eu_choose_not_comm : exists a b, eu_choose a b <> eu_choose b a.
Proof.
  exists (1, Q2Qc 2), (Q2Qc 3, Q2Qc 2). unfold eu_choose. cbn [fst snd].
  replace (qgt (Q2Qc 2) (Q2Qc 2)) with false by (vm_compute; reflexivity).
  intros H. injection H as H. discriminate H.
Qed.

Local Close Scope Qc_scope.

(* ===================================================================================== *)
(* Truncated polynomials over any commutative semiring whose laws hold unconditionally     *)
Local Open Scope nat_scope.
Section PolyLaws.
  Context {C : Type} (o : sr_ops C) (L : csr_laws everything o).
  Local Notation "0!" := (sr_zero o).
  Local Notation "1!" := (sr_one o).
  Local Infix "+!" := (sr_add o) (at level 50, left associativity).
  Local Infix "*!" := (sr_mul o) (at level 40, left associativity).

  Let T : forall a : C, everything a := fun _ => I.

  Lemma c_srt : semi_ring_theory 0! 1! (sr_add o) (sr_mul o) eq.
  Proof.
    constructor.
    - intros n. apply (csr_add_zero _ _ L n (T n)).
    - intros n m. apply (csr_add_comm _ _ L); apply T.
    - intros n m p. symmetry. apply (csr_add_assoc _ _ L); apply T.
    - intros n. apply (csr_mul_one _ _ L n (T n)).
    - intros n. apply (csr_mul_zero _ _ L n (T n)).
    - intros n m. apply (csr_mul_comm _ _ L); apply T.
    - intros n m p. symmetry. apply (csr_mul_assoc _ _ L); apply T.
    - intros n m p. apply (csr_distr _ _ L p n m); apply T.
  Qed.
  Add Ring c_ring : c_srt.

  (* sumn n f = f 0 + ... + f (n-1) *)
  Fixpoint sumn (n : nat) (f : nat -> C) : C :=
    match n with O => 0! | S k => sumn k f +! f k end.

  Lemma sumn_S n f : sumn (S n) f = sumn n f +! f n.
  Proof. reflexivity. Qed.

  Lemma sumn_ext n f g : (forall i, i < n -> f i = g i) -> sumn n f = sumn n g.
  Proof.
    induction n as [|n IH]; intros H; cbn [sumn]; [reflexivity|].
    rewrite IH by (intros; apply H; lia). rewrite H by lia. reflexivity.
  Qed.

  Lemma sumn_zero n f : (forall i, i < n -> f i = 0!) -> sumn n f = 0!.
  Proof.
    induction n as [|n IH]; intros H; cbn [sumn]; [reflexivity|].
    rewrite IH by (intros; apply H; lia). rewrite H by lia. ring.
  Qed.

  Lemma sumn_add n f g : sumn n (fun i => f i +! g i) = sumn n f +! sumn n g.
  Proof. induction n as [|n IH]; cbn [sumn]; [ring | rewrite IH; ring]. Qed.

  Lemma sumn_mul_r n f x : sumn n f *! x = sumn n (fun i => f i *! x).
  Proof. induction n as [|n IH]; cbn [sumn]; [ring | rewrite <- IH; ring]. Qed.

  Lemma sumn_mul_l n f x : x *! sumn n f = sumn n (fun i => x *! f i).
  Proof. induction n as [|n IH]; cbn [sumn]; [ring | rewrite <- IH; ring]. Qed.

  (* a sum whose terms vanish from n on *)
  Lemma sumn_more n m f : n <= m -> (forall i, n <= i -> i < m -> f i = 0!) -> sumn m f = sumn n f.
  Proof.
    intros Hle. induction m as [|m IH]; intros H.
    - replace n with 0 by lia. reflexivity.
    - destruct (Nat.eq_dec n (S m)) as [E|E]; [subst; reflexivity|].
      cbn [sumn]. rewrite IH by (try lia; intros; apply H; lia). rewrite H by lia. ring.
  Qed.

  Lemma sumn_delta n t g :
    sumn n (fun j => if Nat.eqb j t then g j else 0!) = if Nat.ltb t n then g t else 0!.
  Proof.
    induction n as [|n IH]; cbn [sumn]; [reflexivity|]. rewrite IH.
    destruct (Nat.eqb_spec n t) as [E|E].
    - subst. replace (Nat.ltb t t) with false by (symmetry; apply Nat.ltb_irrefl).
      replace (Nat.ltb t (S t)) with true by (symmetry; apply Nat.ltb_lt; lia). ring.
    - destruct (Nat.ltb_spec t n) as [A|A].
      + replace (Nat.ltb t (S n)) with true by (symmetry; apply Nat.ltb_lt; lia). ring.
      + replace (Nat.ltb t (S n)) with false by (symmetry; apply Nat.ltb_ge; lia). ring.
  Qed.

  Lemma sumn_rev n f : sumn n f = sumn n (fun i => f (n - 1 - i)).
  Proof.
    revert f. induction n as [|n IH]; intros f; [reflexivity|].
    (* peel the first term of the right-hand side *)
    assert (forall m g, sumn (S m) g = g 0 +! sumn m (fun i => g (S i))) as shift.
    { induction m as [|m IHm]; intros g; cbn [sumn]; [ring|].
      change (sumn m g +! g m) with (sumn (S m) g). rewrite IHm. ring. }
    rewrite (shift n (fun i => f (S n - 1 - i))). cbn [sumn]. rewrite (IH f).
    replace (S n - 1 - 0) with n by lia.
    rewrite (sumn_ext n (fun i => f (S n - 1 - S i)) (fun i => f (n - 1 - i)))
      by (intros; f_equal; lia).
    ring.
  Qed.

  (* exchange of a triangular double sum *)
  Lemma sumn_triangle n (F : nat -> nat -> C) :
    sumn n (fun i => sumn (S i) (F i)) =
    sumn n (fun j => sumn (n - j) (fun l => F (j + l) j)).
  Proof.
    induction n as [|n IH]; [reflexivity|]. rewrite !(sumn_S n). rewrite IH.
    replace (S n - n) with 1 by lia. rewrite (sumn_S 0). cbn [sumn]. replace (n + 0) with n by lia.
    rewrite (sumn_ext n (fun j => sumn (S n - j) (fun l => F (j + l) j))
                        (fun j => sumn (n - j) (fun l => F (j + l) j) +! F n j)).
    - rewrite sumn_add. ring.
    - intros j Hj. replace (S n - j) with (S (n - j)) by lia. rewrite sumn_S.
      replace (j + (n - j)) with n by lia. reflexivity.
  Qed.

  (* ----------------------------------------------------------------------------------- *)
  (* well-formed values of Polynomial<C>: what zero(), one(), + and * produce *)
  Definition pwf (p : poly C) : Prop :=
    length (coeffs p) = MAXC /\ plen p <= MAXC /\ forall i, plen p <= i -> cf o p i = 0!.

  (* breaks if MAX_COEFFS is ever set to 0 in the source *)
  Lemma MAXC_pos : 1 <= MAXC.
  Proof. unfold MAXC, max_coeffs. lia. Qed.

  Lemma zeros_length : length (zeros o) = MAXC.
  Proof. apply repeat_length. Qed.

  Lemma zeros_nth k : nth k (zeros o) 0! = 0!.
  Proof. unfold zeros. rewrite nth_repeat_lt. destruct (Nat.ltb k MAXC); reflexivity. Qed.

  Lemma cf_overflow p k : length (coeffs p) <= k -> cf o p k = 0!.
  Proof. intros H. unfold cf. apply nth_overflow. exact H. Qed.

  Lemma poly_ext p q : pwf p -> pwf q -> plen p = plen q ->
    (forall k, k < MAXC -> cf o p k = cf o q k) -> p = q.
  Proof.
    intros [Lp _] [Lq _] Hl H. destruct p as [cp lp], q as [cq lq]. cbn [coeffs plen] in *. subst lq.
    f_equal. apply nth_ext with (d := 0!) (d' := 0!); [congruence|].
    intros n Hn. apply H. lia.
  Qed.

  (* --- addition --- *)
  Lemma fold_set_length (g : nat -> C) n l :
    length (fold_left (fun acc i => set_nth acc i (g i)) (seq 0 n) l) = length l.
  Proof.
    induction n as [|n IH]; [reflexivity|].
    rewrite seq_S, fold_left_app. cbn [fold_left]. rewrite length_set_nth. exact IH.
  Qed.

  Lemma fold_set_nth (g : nat -> C) n l k : n <= length l ->
    nth k (fold_left (fun acc i => set_nth acc i (g i)) (seq 0 n) l) 0! =
    if Nat.ltb k n then g k else nth k l 0!.
  Proof.
    induction n as [|n IH]; intros H; [reflexivity|].
    rewrite seq_S, fold_left_app. cbn [fold_left]. rewrite Nat.add_0_l.
    destruct (Nat.eq_dec k n) as [E|E].
    - subst k. rewrite nth_set_nth_eq by (rewrite fold_set_length; lia).
      replace (Nat.ltb n (S n)) with true by (symmetry; apply Nat.ltb_lt; lia). reflexivity.
    - rewrite nth_set_nth_neq by auto. rewrite IH by lia.
      destruct (Nat.ltb_spec k n) as [A|A].
      + replace (Nat.ltb k (S n)) with true by (symmetry; apply Nat.ltb_lt; lia). reflexivity.
      + replace (Nat.ltb k (S n)) with false by (symmetry; apply Nat.ltb_ge; lia). reflexivity.
  Qed.

  Lemma padd_cf_raw a b k :
    cf o (padd o a b) k =
    if Nat.ltb k (Nat.min (Nat.max (plen a) (plen b)) MAXC) then cf o a k +! cf o b k else 0!.
  Proof.
    unfold padd. unfold cf at 1. cbn [coeffs].
    rewrite fold_set_nth by (rewrite zeros_length; apply Nat.le_min_r).
    rewrite zeros_nth. reflexivity.
  Qed.

  Lemma padd_wf a b : pwf (padd o a b).
  Proof.
    split; [|split].
    - unfold padd. cbn [coeffs]. rewrite fold_set_length. apply zeros_length.
    - unfold padd. cbn [plen]. apply Nat.le_min_r.
    - intros i Hi. rewrite padd_cf_raw. unfold padd in Hi. cbn [plen] in Hi.
      replace (Nat.ltb i _) with false by (symmetry; apply Nat.ltb_ge; lia). reflexivity.
  Qed.

  Lemma padd_plen a b : pwf a -> pwf b -> plen (padd o a b) = Nat.max (plen a) (plen b).
  Proof. intros [_ [A _]] [_ [B _]]. unfold padd. cbn [plen]. lia. Qed.

  Lemma padd_cf a b k : pwf a -> pwf b -> cf o (padd o a b) k = cf o a k +! cf o b k.
  Proof.
    intros [_ [A Za]] [_ [B Zb]]. rewrite padd_cf_raw.
    destruct (Nat.ltb_spec k (Nat.min (Nat.max (plen a) (plen b)) MAXC)) as [H|H]; [reflexivity|].
    rewrite Za, Zb by lia. ring.
  Qed.

  (* --- multiplication --- *)
  Definition tm (a b : poly C) (i j k : nat) : C :=
    if Nat.eqb (i + j) k then cf o a i *! cf o b j else 0!.

  Lemma inner_length a b i m acc :
    length (fold_left (pmul_step o a b i) (seq 0 m) acc) = length acc.
  Proof.
    induction m as [|m IH]; [reflexivity|].
    rewrite seq_S, fold_left_app. cbn [fold_left]. unfold pmul_step at 1.
    destruct (Nat.ltb (i + (0 + m)) MAXC); [rewrite length_set_nth|]; exact IH.
  Qed.

  Lemma inner_nth a b i m acc k : length acc = MAXC -> k < MAXC ->
    nth k (fold_left (pmul_step o a b i) (seq 0 m) acc) 0! =
    nth k acc 0! +! sumn m (fun j => tm a b i j k).
  Proof.
    intros Hl Hk. induction m as [|m IH]; [cbn [seq fold_left sumn]; ring|].
    rewrite seq_S, fold_left_app. cbn [fold_left]. rewrite Nat.add_0_l, sumn_S.
    unfold pmul_step at 1. unfold tm at 2.
    destruct (Nat.ltb_spec (i + m) MAXC) as [A|A].
    - destruct (Nat.eqb_spec (i + m) k) as [E|E].
      + subst k. rewrite nth_set_nth_eq by (rewrite inner_length; lia). rewrite IH. ring.
      + rewrite nth_set_nth_neq by auto. rewrite IH. ring.
    - destruct (Nat.eqb_spec (i + m) k) as [E|E]; [lia|]. rewrite IH. ring.
  Qed.

  Definition outer (a b : poly C) (m n : nat) (acc : list C) : list C :=
    fold_left (fun acc i => fold_left (pmul_step o a b i) (seq 0 m) acc) (seq 0 n) acc.

  Lemma outer_S a b m n acc :
    outer a b m (S n) acc = fold_left (pmul_step o a b n) (seq 0 m) (outer a b m n acc).
  Proof. unfold outer. rewrite seq_S, fold_left_app. reflexivity. Qed.

  Lemma outer_length a b m n acc : length (outer a b m n acc) = length acc.
  Proof.
    induction n as [|n IH]; [reflexivity|]. rewrite outer_S, inner_length. exact IH.
  Qed.

  Lemma outer_nth a b m n acc k : length acc = MAXC -> k < MAXC ->
    nth k (outer a b m n acc) 0! =
    nth k acc 0! +! sumn n (fun i => sumn m (fun j => tm a b i j k)).
  Proof.
    intros Hl Hk. induction n as [|n IH]; [cbn [outer seq fold_left sumn]; ring|].
    rewrite outer_S, sumn_S.
    rewrite inner_nth by (try assumption; rewrite outer_length; exact Hl).
    rewrite IH. ring.
  Qed.

  (* coefficient k of the untruncated product *)
  Definition conv (a b : poly C) (k : nat) : C := sumn (S k) (fun i => cf o a i *! cf o b (k - i)).

  Lemma conv_zero a b k : pwf a -> pwf b ->
    (forall j, j <= k -> plen a <= j \/ plen b <= k - j) -> conv a b k = 0!.
  Proof.
    intros [_ [_ Za]] [_ [_ Zb]] H. unfold conv. apply sumn_zero. intros j Hj.
    destruct (H j ltac:(lia)) as [A|A]; [rewrite Za by exact A | rewrite Zb by exact A]; ring.
  Qed.

  Lemma conv2_conv a b k : pwf a -> pwf b ->
    sumn (plen a) (fun i => sumn (plen b) (fun j => tm a b i j k)) = conv a b k.
  Proof.
    intros [_ [_ Za]] [_ [_ Zb]].
    set (h := fun i => cf o a i *! cf o b (k - i)).
    rewrite (sumn_ext (plen a) _ (fun i => if Nat.leb i k then h i else 0!)).
    2:{ intros i _. destruct (Nat.leb_spec i k) as [A|A].
        - rewrite (sumn_ext (plen b) _ (fun j => if Nat.eqb j (k - i) then cf o a i *! cf o b j else 0!)).
          + rewrite sumn_delta. unfold h.
            destruct (Nat.ltb_spec (k - i) (plen b)) as [B|B]; [reflexivity|].
            rewrite (Zb (k - i)) by lia. ring.
          + intros j _. unfold tm.
            destruct (Nat.eqb_spec (i + j) k), (Nat.eqb_spec j (k - i)); try reflexivity; lia.
        - apply sumn_zero. intros j _. unfold tm.
          destruct (Nat.eqb_spec (i + j) k); [lia | reflexivity]. }
    set (F := fun i => if Nat.leb i k then h i else 0!).
    set (N := Nat.max (plen a) (S k)).
    rewrite <- (sumn_more (plen a) N F) by
      (try (unfold N; lia); intros i A _; unfold F, h; rewrite Za by lia;
       destruct (Nat.leb i k); ring).
    rewrite (sumn_more (S k) N F) by
      (try (unfold N; lia); intros i A _; unfold F;
       replace (Nat.leb i k) with false by (symmetry; apply Nat.leb_gt; lia); reflexivity).
    unfold conv. apply sumn_ext. intros i Hi. unfold F.
    replace (Nat.leb i k) with true by (symmetry; apply Nat.leb_le; lia). reflexivity.
  Qed.

  (* the len field of a product, as coded *)
  Definition mlen (la lb : nat) : nat :=
    if Nat.eqb la 0 || Nat.eqb lb 0 then 0 else Nat.min (la + lb - 1) MAXC.

  Lemma pmul_plen a b : plen (pmul o a b) = mlen (plen a) (plen b).
  Proof. unfold pmul, mlen. destruct (Nat.eqb (plen a) 0 || Nat.eqb (plen b) 0); reflexivity. Qed.

  Lemma pmul_length a b : length (coeffs (pmul o a b)) = MAXC.
  Proof.
    unfold pmul. destruct (Nat.eqb (plen a) 0 || Nat.eqb (plen b) 0); cbn [coeffs pzero].
    - apply zeros_length.
    - etransitivity; [apply (outer_length a b (plen b) (plen a) (zeros o)) | apply zeros_length].
  Qed.

  (* the nested loops compute the convolution, truncated at MAX_COEFFS *)
  Lemma pmul_cf a b k : pwf a -> pwf b -> k < MAXC -> cf o (pmul o a b) k = conv a b k.
  Proof.
    intros Wa Wb Hk. unfold pmul.
    destruct (Nat.eqb (plen a) 0 || Nat.eqb (plen b) 0) eqn:E.
    - unfold cf at 1. cbn [coeffs pzero]. rewrite zeros_nth. symmetry.
      apply conv_zero; auto. intros j Hj. apply orb_true_iff in E.
      destruct E as [E|E]; apply Nat.eqb_eq in E; lia.
    - unfold cf at 1. cbn [coeffs].
      etransitivity; [apply (outer_nth a b (plen b) (plen a) (zeros o) k); auto using zeros_length|].
      rewrite zeros_nth, conv2_conv by auto. ring.
  Qed.

  Lemma pmul_wf a b : pwf a -> pwf b -> pwf (pmul o a b).
  Proof.
    intros Wa Wb. split; [apply pmul_length | split].
    - rewrite pmul_plen. unfold mlen. destruct (_ || _); lia.
    - intros i Hi. destruct (Nat.lt_ge_cases i MAXC) as [A|A].
      + rewrite pmul_cf by auto. apply conv_zero; auto. intros j Hj.
        rewrite pmul_plen in Hi. unfold mlen in Hi.
        destruct (Nat.eqb_spec (plen a) 0); [lia|]. destruct (Nat.eqb_spec (plen b) 0); [lia|].
        cbn [orb] in Hi. lia.
      + apply cf_overflow. rewrite pmul_length. exact A.
  Qed.

  Lemma pzero_wf : pwf (pzero o).
  Proof.
    split; [apply zeros_length | split; [cbn; lia|]]. intros i _. unfold cf. cbn [coeffs pzero].
    apply zeros_nth.
  Qed.

  Lemma pzero_cf k : cf o (pzero o) k = 0!.
  Proof. unfold cf. cbn [coeffs pzero]. apply zeros_nth. Qed.

  Lemma pone_cf k : cf o (pone o) k = if Nat.eqb k 0 then 1! else 0!.
  Proof.
    unfold cf. cbn [coeffs pone]. destruct (Nat.eqb_spec k 0) as [E|E].
    - subst. apply nth_set_nth_eq. rewrite zeros_length. apply MAXC_pos.
    - rewrite nth_set_nth_neq by auto. apply zeros_nth.
  Qed.

  Lemma pone_wf : pwf (pone o).
  Proof.
    split; [|split].
    - cbn [coeffs pone]. rewrite length_set_nth. apply zeros_length.
    - cbn [plen pone]. apply MAXC_pos.
    - intros i Hi. cbn [plen pone] in Hi. rewrite pone_cf.
      destruct (Nat.eqb_spec i 0); [lia | reflexivity].
  Qed.

  (* --- the laws --- *)
  Lemma padd_assoc a b c : pwf a -> pwf b -> pwf c ->
    padd o (padd o a b) c = padd o a (padd o b c).
  Proof.
    intros Wa Wb Wc. apply poly_ext; try apply padd_wf.
    - rewrite !padd_plen by (auto using padd_wf). lia.
    - intros k _. rewrite !padd_cf by (auto using padd_wf). ring.
  Qed.

  Lemma padd_comm a b : pwf a -> pwf b -> padd o a b = padd o b a.
  Proof.
    intros Wa Wb. apply poly_ext; try apply padd_wf.
    - rewrite !padd_plen by auto. lia.
    - intros k _. rewrite !padd_cf by auto. ring.
  Qed.

  Lemma padd_zero a : pwf a -> padd o (pzero o) a = a /\ padd o a (pzero o) = a.
  Proof.
    intros Wa. pose proof pzero_wf as Wz.
    assert (padd o (pzero o) a = a) as E.
    { apply poly_ext; auto using padd_wf.
      - rewrite padd_plen by auto. cbn [plen pzero]. lia.
      - intros k _. rewrite padd_cf by auto. rewrite pzero_cf. ring. }
    split; [exact E | rewrite padd_comm by auto; exact E].
  Qed.

  Lemma mlen_comm la lb : mlen la lb = mlen lb la.
  Proof. unfold mlen. rewrite orb_comm. replace (lb + la) with (la + lb) by lia. reflexivity. Qed.

  Lemma mlen_assoc la lb lc : mlen (mlen la lb) lc = mlen la (mlen lb lc).
  Proof.
    pose proof MAXC_pos. unfold mlen.
    destruct (Nat.eqb_spec la 0), (Nat.eqb_spec lb 0), (Nat.eqb_spec lc 0); cbn [orb];
      repeat match goal with |- context [Nat.eqb ?x 0] => destruct (Nat.eqb_spec x 0); cbn [orb] end;
      lia.
  Qed.

  Lemma mlen_distr la lb lc : lb <= MAXC -> lc <= MAXC ->
    mlen la (Nat.max lb lc) = Nat.max (mlen la lb) (mlen la lc).
  Proof.
    pose proof MAXC_pos. intros Hb Hc. unfold mlen.
    destruct (Nat.eqb_spec la 0), (Nat.eqb_spec lb 0), (Nat.eqb_spec lc 0); cbn [orb];
      repeat match goal with |- context [Nat.eqb ?x 0] => destruct (Nat.eqb_spec x 0); cbn [orb] end;
      lia.
  Qed.

  Lemma conv_comm a b k : conv a b k = conv b a k.
  Proof.
    unfold conv. rewrite sumn_rev. apply sumn_ext. intros i Hi.
    replace (S k - 1 - i) with (k - i) by lia. replace (k - (k - i)) with i by lia. ring.
  Qed.

  Lemma pmul_comm a b : pwf a -> pwf b -> pmul o a b = pmul o b a.
  Proof.
    intros Wa Wb. apply poly_ext; auto using pmul_wf.
    - rewrite !pmul_plen. apply mlen_comm.
    - intros k Hk. rewrite !pmul_cf by auto. apply conv_comm.
  Qed.

  Lemma pmul_assoc a b c : pwf a -> pwf b -> pwf c ->
    pmul o (pmul o a b) c = pmul o a (pmul o b c).
  Proof.
    intros Wa Wb Wc. apply poly_ext; auto using pmul_wf.
    - rewrite !pmul_plen. apply mlen_assoc.
    - intros k Hk. rewrite !pmul_cf by (auto using pmul_wf). unfold conv.
      (* left: sum_i (sum_{j<=i} a_j b_{i-j}) c_{k-i} *)
      rewrite (sumn_ext (S k) _ (fun i => sumn (S i) (fun j => cf o a j *! cf o b (i - j) *! cf o c (k - i)))).
      2:{ intros i Hi. rewrite pmul_cf by (auto; lia). unfold conv. apply sumn_mul_r. }
      rewrite (sumn_triangle (S k) (fun i j => cf o a j *! cf o b (i - j) *! cf o c (k - i))).
      apply sumn_ext. intros j Hj. rewrite pmul_cf by (auto; lia). unfold conv.
      rewrite sumn_mul_l. replace (S k - j) with (S (k - j)) by lia.
      apply sumn_ext. intros l Hl.
      replace (j + l - j) with l by lia. replace (k - (j + l)) with (k - j - l) by lia. ring.
  Qed.

  Lemma pmul_one a : pwf a -> pmul o (pone o) a = a /\ pmul o a (pone o) = a.
  Proof.
    intros Wa. pose proof pone_wf as W1.
    assert (pmul o (pone o) a = a) as E.
    { apply poly_ext; auto using pmul_wf.
      - rewrite pmul_plen. cbn [plen pone]. destruct Wa as [_ [A _]]. unfold mlen.
        cbn [Nat.eqb orb]. destruct (Nat.eqb_spec (plen a) 0); lia.
      - intros k Hk. rewrite pmul_cf by auto. unfold conv.
        rewrite (sumn_ext (S k) _ (fun i => if Nat.eqb i 0 then 1! *! cf o a (k - i) else 0!)).
        + rewrite sumn_delta. cbn [Nat.ltb Nat.leb]. replace (k - 0) with k by lia. ring.
        + intros i _. rewrite pone_cf. destruct (Nat.eqb i 0); ring. }
    split; [exact E | rewrite pmul_comm by auto; exact E].
  Qed.

  Lemma pmul_zero a : pmul o (pzero o) a = pzero o /\ pmul o a (pzero o) = pzero o.
  Proof.
    split; unfold pmul; cbn [plen pzero Nat.eqb orb]; [reflexivity|].
    rewrite orb_true_r. reflexivity.
  Qed.

  Lemma pmul_distr_l a b c : pwf a -> pwf b -> pwf c ->
    pmul o a (padd o b c) = padd o (pmul o a b) (pmul o a c).
  Proof.
    intros Wa Wb Wc. apply poly_ext; auto using pmul_wf, padd_wf.
    - rewrite pmul_plen, !padd_plen, !pmul_plen by (auto using pmul_wf).
      destruct Wb as [_ [B _]], Wc as [_ [Cc _]]. apply mlen_distr; auto.
    - intros k Hk. rewrite padd_cf, !pmul_cf by (auto using pmul_wf, padd_wf). unfold conv.
      rewrite <- sumn_add. apply sumn_ext. intros i Hi. rewrite padd_cf by auto. ring.
  Qed.

  Theorem poly_laws : csr_laws pwf (poly_ops o).
  Proof.
    constructor; cbn [poly_ops sr_add sr_mul sr_zero sr_one].
    - intros; apply padd_wf.
    - intros; apply pmul_wf; auto.
    - apply pzero_wf.
    - apply pone_wf.
    - apply padd_assoc.
    - apply padd_comm.
    - apply padd_zero.
    - apply pmul_assoc.
    - apply pmul_comm.
    - apply pmul_one.
    - intros a _. apply pmul_zero.
    - intros a b c Wa Wb Wc. split; [apply pmul_distr_l; auto|].
      rewrite (pmul_comm (padd o b c) a), (pmul_comm b a), (pmul_comm c a) by (auto using padd_wf).
      apply pmul_distr_l; auto.
  Qed.
End PolyLaws.
