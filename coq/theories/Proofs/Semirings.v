(* Proofs about Model/Semirings.v: exactness of the finite-field operations (no overflow, no
   panic, result = integer arithmetic mod P) for every modulus satisfying [ff_ok], discharge
   of [ff_ok] for every exported prime, and the commutative-semiring / ring / lattice laws of
   every shipped weight type. *)
From Coq Require Import Bool NArith ZArith QArith Qcanon List Arith Lia.
Import ListNotations.
From RsddV Require Import Base.Util Generated.Constants Model.Semirings.

(* ===================================================================================== *)
(* The laws of a commutative semiring on the elements satisfying [dom]                     *)
Record csr_laws {A : Type} (dom : A -> Prop) (o : sr_ops A) : Prop := {
  csr_dom_add  : forall a b, dom a -> dom b -> dom (sr_add o a b);
  csr_dom_mul  : forall a b, dom a -> dom b -> dom (sr_mul o a b);
  csr_dom_zero : dom (sr_zero o);
  csr_dom_one  : dom (sr_one o);
  csr_add_assoc : forall a b c, dom a -> dom b -> dom c ->
                  sr_add o (sr_add o a b) c = sr_add o a (sr_add o b c);
  csr_add_comm  : forall a b, dom a -> dom b -> sr_add o a b = sr_add o b a;
  csr_add_zero  : forall a, dom a -> sr_add o (sr_zero o) a = a /\ sr_add o a (sr_zero o) = a;
  csr_mul_assoc : forall a b c, dom a -> dom b -> dom c ->
                  sr_mul o (sr_mul o a b) c = sr_mul o a (sr_mul o b c);
  csr_mul_comm  : forall a b, dom a -> dom b -> sr_mul o a b = sr_mul o b a;
  csr_mul_one   : forall a, dom a -> sr_mul o (sr_one o) a = a /\ sr_mul o a (sr_one o) = a;
  csr_mul_zero  : forall a, dom a ->
                  sr_mul o (sr_zero o) a = sr_zero o /\ sr_mul o a (sr_zero o) = sr_zero o;
  csr_distr     : forall a b c, dom a -> dom b -> dom c ->
                  sr_mul o a (sr_add o b c) = sr_add o (sr_mul o a b) (sr_mul o a c) /\
                  sr_mul o (sr_add o b c) a = sr_add o (sr_mul o b a) (sr_mul o c a)
}.

Definition everything {A : Type} (_ : A) : Prop := True.

(* ===================================================================================== *)
(* FiniteField                                                                             *)
Local Open Scope N_scope.

Definition ff_ok (P : N) : Prop := 1 < P /\ 2 * P <= u128.

Lemma ff_okb_ok P : ff_okb P = true -> ff_ok P.
Proof.
  unfold ff_okb, ff_ok. intros H. apply andb_true_iff in H. destruct H as [H1 H2].
  apply N.ltb_lt in H1. apply N.leb_le in H2. auto.
Qed.

(* every exported prime (re-read from src/constants.rs into Generated/Constants.v) satisfies
   the side conditions: a constant >= 2^127 (or < 2) breaks this proof *)
Lemma exported_primes_okb : forallb ff_okb exported_primes = true.
Proof. vm_compute. reflexivity. Qed.

Lemma exported_primes_ok P : In P exported_primes -> ff_ok P.
Proof.
  intros H. apply ff_okb_ok. pose proof exported_primes_okb as A.
  rewrite forallb_forall in A. auto.
Qed.

Lemma u_add_ok m x y : x + y < u128 -> u_add m x y = Some (x + y).
Proof. intros H. unfold u_add. apply N.ltb_lt in H. rewrite H. reflexivity. Qed.

Lemma u_sub_ok m x y : y <= x -> u_sub m x y = Some (x - y).
Proof. intros H. unfold u_sub. apply N.leb_le in H. rewrite H. reflexivity. Qed.

Lemma u_rem_ok x p : 0 < p -> u_rem x p = Some (x mod p).
Proof.
  intros H. unfold u_rem. destruct (N.eqb_spec p 0) as [E|E]; [lia|reflexivity].
Qed.

Lemma ff_new_ok P v : 0 < P -> ff_new P v = Some (v mod P).
Proof. apply u_rem_ok. Qed.

(* the guard of [u_rem] is real: a zero modulus panics *)
Lemma ff_new_zero_modulus v : ff_new 0 v = None.
Proof. reflexivity. Qed.

Lemma ff_one_ok P : 1 < P -> ff_one P = Some 1.
Proof. intros H. unfold ff_one. rewrite ff_new_ok by lia. rewrite N.mod_small by lia. reflexivity. Qed.

Lemma ff_zero_ok P : 0 < P -> ff_zero P = Some 0.
Proof. intros H. unfold ff_zero. rewrite ff_new_ok by lia. rewrite N.mod_small by lia. reflexivity. Qed.

(* --- exactness --- *)
Lemma ff_add_exact_gen m P a b : 0 < P -> 2 * P <= u128 -> a < P -> b < P ->
  ff_add m P a b = Some ((a + b) mod P).
Proof.
  intros HP H2 Ha Hb. unfold ff_add. rewrite u_add_ok by lia. cbn [bind].
  rewrite u_rem_ok by lia. cbn [bind]. rewrite ff_new_ok by lia.
  rewrite N.mod_mod by lia. reflexivity.
Qed.

Lemma add_mod_ok m P x y : 0 < P -> P <= u128 -> x < P -> y < P ->
  add_mod m P x y = Some ((x + y) mod P).
Proof.
  intros HP H2 Hx Hy. unfold add_mod. rewrite u_sub_ok by lia. cbn [bind].
  destruct (N.leb_spec (P - y) x) as [L|L].
  - rewrite u_sub_ok by lia. f_equal. apply N.mod_unique with (q := 1); lia.
  - rewrite u_add_ok by lia. f_equal. symmetry. apply N.mod_small. lia.
Qed.

Lemma ff_mul_loop_ok m P : 0 < P -> P <= u128 -> forall b a acc, a < P -> acc < P ->
  ff_mul_loop m P b a acc = Some ((acc + a * Npos b) mod P).
Proof.
  intros HP H2. assert (P <> 0) as HP0 by lia.
  induction b as [b IH|b IH|]; intros a acc Ha Hacc; cbn [ff_mul_loop].
  - rewrite (add_mod_ok m P acc a) by lia. cbn [bind].
    rewrite (add_mod_ok m P a a) by lia. cbn [bind].
    rewrite IH by (apply N.mod_lt; lia). f_equal.
    rewrite N.add_mod_idemp_l by lia.
    rewrite <- N.add_mod_idemp_r by lia. rewrite N.mul_mod_idemp_l by lia.
    rewrite N.add_mod_idemp_r by lia. f_equal. replace (N.pos b~1) with (2 * N.pos b + 1) by reflexivity. ring.
  - rewrite (add_mod_ok m P a a) by lia. cbn [bind].
    rewrite IH by (try apply N.mod_lt; lia). f_equal.
    rewrite <- N.add_mod_idemp_r by lia. rewrite N.mul_mod_idemp_l by lia.
    rewrite N.add_mod_idemp_r by lia. f_equal. replace (N.pos b~0) with (2 * N.pos b) by reflexivity. ring.
  - rewrite (add_mod_ok m P acc a) by lia. cbn [bind].
    rewrite (add_mod_ok m P a a) by lia. cbn [bind]. f_equal. f_equal. ring.
Qed.

Lemma ff_mul_exact_gen m P a b : 0 < P -> P <= u128 -> a < P -> b < P ->
  ff_mul m P a b = Some ((a * b) mod P).
Proof.
  intros HP H2 Ha Hb. unfold ff_mul, checked_mul.
  destruct (N.ltb_spec (a * b) u128) as [L|L].
  - rewrite u_rem_ok by lia. cbn [bind]. rewrite ff_new_ok by lia.
    rewrite N.mod_mod by lia. reflexivity.
  - destruct b as [|p].
    + rewrite ff_new_ok by lia. rewrite N.mul_0_r. reflexivity.
    + rewrite ff_mul_loop_ok by lia. cbn [bind]. rewrite ff_new_ok by lia.
      rewrite N.mod_mod by lia. reflexivity.
Qed.

(* the double-and-add branch is really taken for the large primes (non-vacuity of the above) *)
Lemma ff_mul_slow_path_reached :
  checked_mul (prime_U128_LARGE_4 - 1) (prime_U128_LARGE_4 - 1) = None.
Proof. vm_compute. reflexivity. Qed.

Definition zp_sub (P a b : N) : N := (a + P - b) mod P.

Lemma ff_sub_exact_gen m P a b : 0 < P -> a < P -> b < P ->
  ff_sub m P a b = Some (zp_sub P a b).
Proof.
  intros HP Ha Hb. unfold ff_sub, zp_sub.
  destruct (N.leb_spec b a) as [L|L].
  - rewrite u_sub_ok by lia. cbn [bind]. rewrite ff_new_ok by lia. f_equal.
    replace (a + P - b) with (a - b + 1 * P) by lia. rewrite N.mod_add by lia. reflexivity.
  - rewrite u_sub_ok by lia. cbn [bind]. rewrite u_sub_ok by lia. cbn [bind].
    rewrite ff_new_ok by lia. f_equal. f_equal. lia.
Qed.

Lemma zp_sub_Z P a b : 0 < P -> a < P -> b < P ->
  Z.of_N (zp_sub P a b) = ((Z.of_N a - Z.of_N b) mod Z.of_N P)%Z.
Proof.
  intros HP Ha Hb. unfold zp_sub. rewrite N2Z.inj_mod by lia.
  rewrite N2Z.inj_sub by lia. rewrite N2Z.inj_add.
  replace (Z.of_N a + Z.of_N P - Z.of_N b)%Z with (Z.of_N a - Z.of_N b + 1 * Z.of_N P)%Z by ring.
  apply Z_mod_plus_full.
Qed.

Lemma ff_negate_exact_gen m P x : 1 < P -> 2 * P <= u128 -> x < P ->
  ff_negate m P x = Some (zp_sub P 1 x).
Proof.
  intros HP H2 Hx. unfold ff_negate, zp_sub. rewrite u_sub_ok by lia. cbn [bind].
  rewrite u_add_ok by lia. cbn [bind]. rewrite ff_new_ok by lia. f_equal. f_equal. lia.
Qed.

(* --- the ring Z/P on residues, by integer arithmetic --- *)
Section Zp.
  Variable P : N.
  Hypothesis HP : 1 < P.
  Let P0 : P <> 0. Proof. lia. Qed.

  Lemma zp_laws : csr_laws (fun a => a < P) (zp_ops P).
  Proof.
    constructor; cbn [zp_ops sr_add sr_mul sr_zero sr_one].
    - intros; apply N.mod_lt; lia.
    - intros; apply N.mod_lt; lia.
    - lia.
    - lia.
    - intros a b c _ _ _. rewrite N.add_mod_idemp_l, N.add_mod_idemp_r by lia.
      f_equal. lia.
    - intros a b _ _. f_equal. lia.
    - intros a Ha. split; [rewrite N.add_0_l | rewrite N.add_0_r]; apply N.mod_small; lia.
    - intros a b c _ _ _. rewrite N.mul_mod_idemp_l, N.mul_mod_idemp_r by lia.
      f_equal. lia.
    - intros a b _ _. f_equal. lia.
    - intros a Ha. split; [rewrite N.mul_1_l | rewrite N.mul_1_r]; apply N.mod_small; lia.
    - intros a Ha. split; [rewrite N.mul_0_l | rewrite N.mul_0_r]; apply N.mod_small; lia.
    - intros a b c _ _ _. split.
      + rewrite N.mul_mod_idemp_r by lia. rewrite <- N.add_mod by lia. f_equal. lia.
      + rewrite N.mul_mod_idemp_l by lia. rewrite <- N.add_mod by lia. f_equal. lia.
  Qed.

  Lemma zp_sub_lt a b : zp_sub P a b < P.
  Proof. apply N.mod_lt; lia. Qed.

  (* (a + b) - b = a *)
  Lemma zp_add_sub a b : a < P -> b < P -> zp_sub P ((a + b) mod P) b = a.
  Proof.
    intros Ha Hb. unfold zp_sub.
    rewrite <- N.add_sub_assoc by lia.
    rewrite N.add_mod_idemp_l by lia.
    replace (a + b + (P - b)) with (a + 1 * P) by lia.
    rewrite N.mod_add by lia. apply N.mod_small; lia.
  Qed.

  (* (a - b) + b = a *)
  Lemma zp_sub_add a b : a < P -> b < P -> (zp_sub P a b + b) mod P = a.
  Proof.
    intros Ha Hb. unfold zp_sub. rewrite N.add_mod_idemp_l by lia.
    replace (a + P - b + b) with (a + 1 * P) by lia.
    rewrite N.mod_add by lia. apply N.mod_small; lia.
  Qed.

  (* a - a = 0 and a - b is the solution of x + b = a *)
  Lemma zp_sub_diag a : a < P -> zp_sub P a a = 0.
  Proof.
    intros Ha. unfold zp_sub. replace (a + P - a) with (0 + 1 * P) by lia.
    rewrite N.mod_add by lia. apply N.mod_small; lia.
  Qed.
End Zp.

(* --- the laws for the operations as coded (option = "or panics"), in both build modes --- *)
Definition ffe := option N.
Definition olift2 (f : N -> N -> option N) (x y : ffe) : ffe :=
  bind x (fun a => bind y (fun b => f a b)).
Definition fadd m P := olift2 (ff_add m P).
Definition fmul m P := olift2 (ff_mul m P).
Definition fsub m P := olift2 (ff_sub m P).
Definition fneg m P (x : ffe) : ffe := bind x (ff_negate m P).
(* a value of the type FiniteField<P>: no panic, a residue *)
Definition is_res (P : N) (x : ffe) : Prop := exists r, x = Some r /\ r < P.

Lemma is_res_some P r : r < P -> is_res P (Some r).
Proof. intros H. exists r. auto. Qed.

Ltac ff_sc :=
  match goal with
  | |- _ mod _ < _ => apply N.mod_lt; lia
  | |- zp_sub _ _ _ < _ => apply zp_sub_lt; lia
  | _ => first [assumption | lia]
  end.
Ltac ff_step :=
  first [ rewrite ff_add_exact_gen by ff_sc | rewrite ff_mul_exact_gen by ff_sc
        | rewrite ff_sub_exact_gen by ff_sc | rewrite ff_negate_exact_gen by ff_sc
        | rewrite ff_one_ok by ff_sc | rewrite ff_zero_ok by ff_sc ];
  cbn [bind].
Ltac ff_open :=
  repeat match goal with
         | H : is_res _ _ |- _ => let r := fresh "r" in let E := fresh "E" in let L := fresh "L" in
                                  destruct H as [r [E L]]; subst
         end;
  unfold fadd, fmul, fsub, fneg, olift2; cbn [bind]; repeat ff_step.

Section FFLaws.
  Variable m : mode.
  Variable P : N.
  Hypothesis OK : ff_ok P.
  Let HP : 1 < P. Proof. destruct OK; auto. Qed.
  Let HP2 : 2 * P <= u128. Proof. destruct OK; auto. Qed.
  Let L := zp_laws P HP.

  Lemma ff_closed x y : is_res P x -> is_res P y ->
    is_res P (fadd m P x y) /\ is_res P (fmul m P x y) /\ is_res P (fsub m P x y) /\
    is_res P (fneg m P x) /\ is_res P (ff_one P) /\ is_res P (ff_zero P).
  Proof.
    intros Hx Hy. pose proof HP. pose proof HP2. ff_open.
    repeat split; apply is_res_some; ff_sc.
  Qed.

  Lemma ff_add_assoc x y z : is_res P x -> is_res P y -> is_res P z ->
    fadd m P (fadd m P x y) z = fadd m P x (fadd m P y z).
  Proof. intros Hx Hy Hz. pose proof HP. pose proof HP2. ff_open. f_equal. apply (csr_add_assoc _ _ L); auto. Qed.

  Lemma ff_add_comm x y : is_res P x -> is_res P y -> fadd m P x y = fadd m P y x.
  Proof. intros Hx Hy. pose proof HP. pose proof HP2. ff_open. f_equal. apply (csr_add_comm _ _ L); auto. Qed.

  Lemma ff_add_zero x : is_res P x -> fadd m P (ff_zero P) x = x /\ fadd m P x (ff_zero P) = x.
  Proof.
    intros Hx. pose proof HP. pose proof HP2. ff_open.
    destruct (csr_add_zero _ _ L r L0) as [A B]. cbn [zp_ops sr_add sr_mul sr_zero sr_one] in A, B. rewrite A, B. auto.
  Qed.

  Lemma ff_mul_assoc x y z : is_res P x -> is_res P y -> is_res P z ->
    fmul m P (fmul m P x y) z = fmul m P x (fmul m P y z).
  Proof. intros Hx Hy Hz. pose proof HP. pose proof HP2. ff_open. f_equal. apply (csr_mul_assoc _ _ L); auto. Qed.

  Lemma ff_mul_comm x y : is_res P x -> is_res P y -> fmul m P x y = fmul m P y x.
  Proof. intros Hx Hy. pose proof HP. pose proof HP2. ff_open. f_equal. apply (csr_mul_comm _ _ L); auto. Qed.

  Lemma ff_mul_one x : is_res P x -> fmul m P (ff_one P) x = x /\ fmul m P x (ff_one P) = x.
  Proof.
    intros Hx. pose proof HP. pose proof HP2. ff_open.
    destruct (csr_mul_one _ _ L r L0) as [A B]. cbn [zp_ops sr_add sr_mul sr_zero sr_one] in A, B. rewrite A, B. auto.
  Qed.

  Lemma ff_mul_zero x : is_res P x ->
    fmul m P (ff_zero P) x = ff_zero P /\ fmul m P x (ff_zero P) = ff_zero P.
  Proof.
    intros Hx. pose proof HP. pose proof HP2. ff_open.
    destruct (csr_mul_zero _ _ L r L0) as [A B]. cbn [zp_ops sr_add sr_mul sr_zero sr_one] in A, B. rewrite A, B. auto.
  Qed.

  Lemma ff_distr x y z : is_res P x -> is_res P y -> is_res P z ->
    fmul m P x (fadd m P y z) = fadd m P (fmul m P x y) (fmul m P x z) /\
    fmul m P (fadd m P y z) x = fadd m P (fmul m P y x) (fmul m P z x).
  Proof.
    intros Hx Hy Hz. pose proof HP. pose proof HP2. ff_open.
    destruct (csr_distr _ _ L r1 r0 r) as [A B]; auto. cbn [zp_ops sr_add sr_mul sr_zero sr_one] in A, B. rewrite A, B. auto.
  Qed.

  (* ring subtraction inverts addition, both ways round *)
  Lemma ff_add_sub x y : is_res P x -> is_res P y ->
    fsub m P (fadd m P x y) y = x /\ fadd m P (fsub m P x y) y = x /\ fsub m P x x = ff_zero P.
  Proof.
    intros Hx Hy. pose proof HP. pose proof HP2. ff_open.
    rewrite zp_add_sub, zp_sub_add, zp_sub_diag by lia. auto.
  Qed.

  (* negate x = 1 - x  (the doc comment says "additive inverse"; the code computes 1 - x) *)
  Lemma ff_negate_is_one_minus x : is_res P x -> fneg m P x = fsub m P (ff_one P) x.
  Proof. intros Hx. pose proof HP. pose proof HP2. ff_open. reflexivity. Qed.
End FFLaws.

Local Close Scope N_scope.

(* ===================================================================================== *)
(* Boolean                                                                                 *)
Lemma bool_laws : csr_laws everything bool_ops.
Proof.
  constructor; cbn; unfold everything; auto;
    try (intros a b c _ _ _; destruct a, b, c; auto);
    try (intros a b _ _; destruct a, b; auto);
    try (intros a _; destruct a; auto).
Qed.

(* ===================================================================================== *)
(* exact rationals (stand-in for f64 on exactly representable values) and pairs of them    *)
Local Open Scope Qc_scope.

Lemma qc_laws : csr_laws everything real_ops.
Proof.
  constructor; cbn [real_ops sr_add sr_mul sr_zero sr_one]; unfold everything, real; intros;
    try exact I; try split; ring.
Qed.

Lemma rational_laws : csr_laws everything rational_ops.
Proof. exact qc_laws. Qed.

Lemma real_sub_add (a b : real) : real_sub (sr_add real_ops a b) b = a /\ sr_add real_ops (real_sub a b) b = a.
Proof. cbn [real_ops sr_add]; unfold real_sub, real in *; split; ring. Qed.

Ltac pair_ring :=
  repeat match goal with x : (Qc * Qc)%type |- _ => destruct x end;
  cbn [fst snd]; try split; f_equal; ring.

Lemma cx_laws : csr_laws everything cx_ops.
Proof.
  constructor; cbn [cx_ops sr_add sr_mul sr_zero sr_one]; unfold everything, cx_add, cx_mul, cx; intros;
    try exact I; pair_ring.
Qed.

Lemma cx_sub_add (a b : cx) : cx_sub (cx_add a b) b = a /\ cx_add (cx_sub a b) b = a.
Proof. unfold cx_sub, cx_add, cx in *. pair_ring. Qed.

Lemma eu_laws : csr_laws everything eu_ops.
Proof.
  constructor; cbn [eu_ops sr_add sr_mul sr_zero sr_one]; unfold everything, eu_add, eu_mul, eu; intros;
    try exact I; pair_ring.
Qed.

Lemma eu_sub_add (a b : eu) : eu_sub (eu_add a b) b = a /\ eu_add (eu_sub a b) b = a.
Proof. unfold eu_sub, eu_add, eu in *. pair_ring. Qed.

(* --- order, max, min --- *)
Lemma qcmp_spec (a b : Qc) : CompareSpec (a = b) (a < b) (b < a) (a ?= b).
Proof.
  destruct (a ?= b) eqn:E; constructor.
  - apply Qceq_alt; exact E.
  - apply Qclt_alt; exact E.
  - apply Qcgt_alt; exact E.
Qed.

Lemma qclt_irrefl (a : Qc) : ~ a < a.
Proof. intros H. exact (Qclt_not_eq _ _ H eq_refl). Qed.

(* contradictions among strict inequalities over at most three points *)
Ltac qc_absurd :=
  exfalso;
  match goal with
  | H : ?x < ?x |- _ => exact (qclt_irrefl _ H)
  | H1 : ?x < ?y, H2 : ?y < ?x |- _ => exact (qclt_irrefl _ (Qclt_trans _ _ _ H1 H2))
  | H1 : ?x < ?y, H2 : ?y < ?z, H3 : ?z < ?x |- _ =>
    exact (qclt_irrefl _ (Qclt_trans _ _ _ H1 (Qclt_trans _ _ _ H2 H3)))
  end.

Ltac qc_cases :=
  repeat match goal with
         | H : context [?a ?= ?b] |- _ => revert H
         end;
  repeat match goal with
         | |- context [?a ?= ?b] => is_var a; is_var b; destruct (qcmp_spec a b); subst; cbn beta iota
         end;
  intros.

Ltac qc_order := qc_cases; cbn in *; try reflexivity; try discriminate; try congruence; subst; try qc_absurd.

Lemma qmax_idem a : qmax a a = a.
Proof. unfold qmax. qc_order. Qed.
Lemma qmax_comm a b : qmax a b = qmax b a.
Proof. unfold qmax. qc_order. Qed.
Lemma qmax_assoc a b c : qmax (qmax a b) c = qmax a (qmax b c).
Proof. unfold qmax. qc_order. Qed.
Lemma qmin_idem a : qmin a a = a.
Proof. unfold qmin. qc_order. Qed.
Lemma qmin_comm a b : qmin a b = qmin b a.
Proof. unfold qmin. qc_order. Qed.
Lemma qmin_assoc a b c : qmin (qmin a b) c = qmin a (qmin b c).
Proof. unfold qmin. qc_order. Qed.
Lemma qmax_qmin_absorb a b : qmax a (qmin a b) = a /\ qmin a (qmax a b) = a.
Proof. unfold qmax, qmin. split; qc_order. Qed.

(* Real *)
Lemma real_lattice a b c :
  real_join a a = a /\ real_join a b = real_join b a /\
  real_join (real_join a b) c = real_join a (real_join b c) /\
  real_meet a a = a /\ real_meet a b = real_meet b a /\
  real_meet (real_meet a b) c = real_meet a (real_meet b c) /\
  real_join a (real_meet a b) = a /\ real_meet a (real_join a b) = a.
Proof.
  unfold real_join, real_meet.
  repeat split; auto using qmax_idem, qmax_comm, qmax_assoc, qmin_idem, qmin_comm, qmin_assoc;
    apply qmax_qmin_absorb.
Qed.

Lemma real_le_join a b : real_le a b = true ->
  real_join a b = b /\ real_choose a b = b /\ real_meet a b = a.
Proof.
  unfold real_le, real_partial_cmp, le_of, real_choose, real_join, real_meet, qmax, qmin.
  intros H. repeat split; qc_order.
Qed.

(* for the real order the converse holds too: the declared order is the lattice order *)
Lemma real_join_le a b : real_join a b = b -> real_le a b = true.
Proof.
  unfold real_le, real_partial_cmp, le_of, real_join, qmax. intros H. qc_order.
Qed.

(* ExpectedUtility *)
Lemma eu_lattice a b c :
  eu_join a a = a /\ eu_join a b = eu_join b a /\
  eu_join (eu_join a b) c = eu_join a (eu_join b c) /\
  eu_meet a a = a /\ eu_meet a b = eu_meet b a /\
  eu_meet (eu_meet a b) c = eu_meet a (eu_meet b c) /\
  eu_join a (eu_meet a b) = a /\ eu_meet a (eu_join a b) = a.
Proof.
  destruct a as [a0 a1], b as [b0 b1], c as [c0 c1]. unfold eu_join, eu_meet. cbn [fst snd].
  repeat split; f_equal;
    auto using qmax_idem, qmax_comm, qmax_assoc, qmin_idem, qmin_comm, qmin_assoc;
    apply qmax_qmin_absorb.
Qed.

Lemma eu_le_join a b : eu_le a b = true ->
  eu_join a b = b /\ eu_choose a b = b /\ eu_meet a b = a.
Proof.
  destruct a as [a0 a1], b as [b0 b1].
  unfold eu_le, eu_partial_cmp, le_of, eu_join, eu_choose, eu_meet, qlt, qgt, qeq, qmax, qmin.
  cbn [fst snd]. intros H. repeat split; qc_order.
Qed.

(* The declared order of ExpectedUtility is NOT the order of its own lattice: join a b = b
   does not imply a <= b (it is the strict product order plus equality).  Recorded because a
   generic algorithm that prunes with [partial_cmp] and bounds with [join] sees fewer
   comparable pairs than the lattice has. *)
Definition eu_join_characterises_le : Prop :=
  forall a b, eu_join a b = b -> eu_le a b = true.
Lemma eu_join_characterises_le_refuted : ~ eu_join_characterises_le.
Proof.
  intros H. specialize (H (1, Q2Qc 2) (1, Q2Qc 3)).
  assert (eu_join (1, Q2Qc 2) (1, Q2Qc 3) = (1, Q2Qc 3)) as E.
  { unfold eu_join. cbn [fst snd]. f_equal; apply Qc_is_canon; vm_compute; reflexivity. }
  specialize (H E). vm_compute in H. discriminate H.
Qed.

(* choose is not commutative on ties of the utility component *)
Lemma eu_choose_not_comm : exists a b, eu_choose a b <> eu_choose b a.
Proof.
  exists (1, Q2Qc 2), (Q2Qc 3, Q2Qc 2). unfold eu_choose. cbn [fst snd].
  replace (qgt (Q2Qc 2) (Q2Qc 2)) with false by (vm_compute; reflexivity).
  intros H. injection H as H. discriminate H.
Qed.

Local Close Scope Qc_scope.
