(* C05: bottom-up compilation of expressions, plans, CNFs (also under a partial assignment)
   with the BDD builder is exact, for every order and cache behaviour. *)
From Coq Require Import Bool NArith List Lia Arith Permutation.
Import ListNotations.
From RsddV Require Import Base.Bdd Model.IteStd Proofs.IteStd Proofs.BddCanon Model.BddOps Proofs.BddIte
  Proofs.BddOps Model.Compile.

Section C.
Variable level : var -> nat.
Hypothesis level_inj : forall u v, level u = level v -> u = v.
Variable L : nat.
Variable remember : nat -> bool.
Variable fuel : nat.
Hypothesis fuel_ok : L < fuel.

Notation WF := (WF level L).
Notation csound := (csound level L).
Notation ok := (ok_result level L 0).
Notation compile_e := (compile_e level remember fuel).

Definition vars_in (e : expr) : Prop := forall v, In v (evars e) -> level v < L.

Ltac split_vars H :=
  repeat match type of H with
  | vars_in _ => unfold vars_in in H; simpl in H
  end.

Theorem compile_e_ok : forall e s, vars_in e -> csound s -> ok (compile_e e s) (den_e e).
Proof.
  induction e as [v pol| | |a IHa|a IHa b IHb|a IHa b IHb|a IHa b IHb|a IHa b IHb|g IHg t IHt e' IHe];
    intros s V CS; cbn [Compile.compile_e den_e].
  - destruct (var_m_spec level L v pol (V v (or_introl eq_refl))) as [W D].
    exists (var_m v pol), s. repeat split; auto; apply W.
  - exists BT, s. repeat split; auto.
  - exists BF, s. repeat split; auto.
  - destruct (IHa s V CS) as (r & s1 & -> & W & D & CS1).
    exists (neg r), s1. split; [reflexivity|]. split; [apply WF_neg; exact W|]. split; auto.
    intros x. rewrite den_neg, D. reflexivity.
  - assert (Va : vars_in a) by (intros v Hv; apply V; simpl; apply in_or_app; auto).
    assert (Vb : vars_in b) by (intros v Hv; apply V; simpl; apply in_or_app; auto).
    destruct (IHa s Va CS) as (ra & s1 & -> & Wa & Da & CS1).
    destruct (IHb s1 Vb CS1) as (rb & s2 & -> & Wb & Db & CS2).
    eapply ok_result_ext'; [|apply (and_ok level level_inj L remember); eauto; lia].
    intros x. simpl. rewrite Da, Db. reflexivity.
  - assert (Va : vars_in a) by (intros v Hv; apply V; simpl; apply in_or_app; auto).
    assert (Vb : vars_in b) by (intros v Hv; apply V; simpl; apply in_or_app; auto).
    destruct (IHa s Va CS) as (ra & s1 & -> & Wa & Da & CS1).
    destruct (IHb s1 Vb CS1) as (rb & s2 & -> & Wb & Db & CS2).
    eapply ok_result_ext'; [|apply (or_ok level level_inj L remember); eauto; lia].
    intros x. simpl. rewrite Da, Db. reflexivity.
  - assert (Va : vars_in a) by (intros v Hv; apply V; simpl; apply in_or_app; auto).
    assert (Vb : vars_in b) by (intros v Hv; apply V; simpl; apply in_or_app; auto).
    destruct (IHa s Va CS) as (ra & s1 & -> & Wa & Da & CS1).
    destruct (IHb s1 Vb CS1) as (rb & s2 & -> & Wb & Db & CS2).
    eapply ok_result_ext'; [|apply (iff_ok level level_inj L remember); eauto; lia].
    intros x. simpl. rewrite Da, Db. reflexivity.
  - assert (Va : vars_in a) by (intros v Hv; apply V; simpl; apply in_or_app; auto).
    assert (Vb : vars_in b) by (intros v Hv; apply V; simpl; apply in_or_app; auto).
    destruct (IHa s Va CS) as (ra & s1 & -> & Wa & Da & CS1).
    destruct (IHb s1 Vb CS1) as (rb & s2 & -> & Wb & Db & CS2).
    eapply ok_result_ext'; [|apply (xor_ok level level_inj L remember); eauto; lia].
    intros x. simpl. rewrite Da, Db. reflexivity.
  - assert (Vg : vars_in g) by (intros v Hv; apply V; simpl; apply in_or_app; auto).
    assert (Vt : vars_in t) by (intros v Hv; apply V; simpl; apply in_or_app; right; apply in_or_app; auto).
    assert (Ve : vars_in e') by (intros v Hv; apply V; simpl; apply in_or_app; right; apply in_or_app; auto).
    destruct (IHg s Vg CS) as (rg & s1 & -> & Wg & Dg & CS1).
    destruct (IHt s1 Vt CS1) as (rt & s2 & -> & Wt & Dt & CS2).
    destruct (IHe s2 Ve CS2) as (re & s3 & -> & We & De & CS3).
    eapply ok_result_ext'; [|apply (ite_ok level level_inj L remember); eauto; lia].
    intros x. simpl. rewrite Dg, Dt, De. reflexivity.
Qed.

(* canonicity: two expressions with the same meaning compile to the same diagram, whatever
   their shape, evaluation order or the cache's behaviour *)
Theorem compile_e_canonical e1 e2 s1 s2 r1 r2 s1' s2' :
  vars_in e1 -> vars_in e2 -> csound s1 -> csound s2 ->
  (forall x, den_e e1 x = den_e e2 x) ->
  compile_e e1 s1 = Some (r1, s1') -> compile_e e2 s2 = Some (r2, s2') -> r1 = r2.
Proof.
  intros V1 V2 C1 C2 E R1 R2.
  destruct (compile_e_ok e1 s1 V1 C1) as (r1' & ? & R1' & W1 & D1 & _).
  destruct (compile_e_ok e2 s2 V2 C2) as (r2' & ? & R2' & W2 & D2 & _).
  rewrite R1 in R1'. rewrite R2 in R2'. injection R1' as <- <-. injection R2' as <- <-.
  apply (WF_canonical level level_inj L 0); auto. intros a. rewrite D1, D2. apply E.
Qed.
End C.

(* ---- meaning of the expressions the CNF compilers build ---- *)
Lemma fold_or_den (c : clause) : forall acc x,
  den_e (fold_left (fun a l => EOr a (ELit (fst l) (snd l))) c acc) x = den_e acc x || clause_eval x c.
Proof.
  induction c as [|l c IH]; intros acc x; simpl; [rewrite orb_false_r; reflexivity|].
  rewrite IH. simpl. unfold lit_eval. rewrite orb_assoc. reflexivity.
Qed.

Lemma clause_expr_den c x : den_e (clause_expr c) x = clause_eval x c.
Proof.
  destruct c as [|[v p] r]; [reflexivity|]. unfold clause_expr.
  rewrite fold_or_den. cbn [den_e clause_eval existsb]. unfold lit_eval. simpl. destruct (Bool.eqb (x v) p); reflexivity.
Qed.

Lemma div2_bounds n : 2 <= n -> 1 <= Nat.div2 n /\ Nat.div2 n < n.
Proof.
  intros H. split.
  - destruct n as [|[|n]]; simpl; lia.
  - apply Nat.lt_div2. lia.
Qed.

Lemma collapse_spec : forall fuel l, length l <= fuel ->
  (l = [] /\ collapse fuel l = None) \/
  (l <> [] /\ exists e, collapse fuel l = Some e /\ forall x, den_e e x = forallb (fun c => den_e c x) l).
Proof.
  induction fuel as [|f IH]; intros l Hl.
  - destruct l; [left; auto|simpl in Hl; lia].
  - destruct l as [|a [|b r]].
    + left; auto.
    + right. split; [discriminate|]. exists a. split; [reflexivity|]. intros x. simpl. rewrite andb_true_r. reflexivity.
    + right. split; [discriminate|].
      remember (a :: b :: r) as l eqn:El.
      assert (Hlen : 2 <= length l) by (subst l; simpl; lia).
      destruct (div2_bounds _ Hlen) as [K1 K2].
      set (k := Nat.div2 (length l)) in *.
      assert (L1 : length (firstn k l) = k) by (rewrite firstn_length; lia).
      assert (L2 : length (skipn k l) = length l - k) by apply skipn_length.
      destruct (IH (firstn k l) ltac:(lia)) as [[E1 _]|[_ (ea & Ea & Da)]]; [rewrite E1 in L1; simpl in L1; lia|].
      destruct (IH (skipn k l) ltac:(lia)) as [[E2 _]|[_ (eb & Eb & Db)]]; [rewrite E2 in L2; simpl in L2; lia|].
      exists (EAnd ea eb). split.
      * rewrite El. cbn [collapse]. rewrite <- El. fold k. rewrite Ea, Eb. reflexivity.
      * intros x. cbn [den_e]. rewrite Da, Db, <- forallb_app, firstn_skipn. reflexivity.
Qed.

Lemma forallb_map_den (f : cnf) x :
  forallb (fun c => den_e c x) (map clause_expr f) = cnf_eval f x.
Proof. unfold cnf_eval. induction f as [|c f IH]; simpl; auto. rewrite clause_expr_den, IH. reflexivity. Qed.

(* the expression compile_cnf builds means the CNF: empty formula, empty clauses, unit clauses,
   repeated and complementary literals included *)
Theorem cnf_expr_den f x : den_e (cnf_expr f) x = cnf_eval f x.
Proof.
  unfold cnf_expr. destruct (Nat.eqb_spec (length f) 0) as [E0|NE].
  - destruct f; [reflexivity|discriminate].
  - destruct (existsb (fun c0 => Nat.eqb (length c0) 0) f) eqn:EX.
    + (* an empty clause: unsatisfiable *)
      apply existsb_exists in EX. destruct EX as (c0 & Hin & Hc0). apply Nat.eqb_eq in Hc0.
      destruct c0; [|discriminate]. cbn [den_e]. symmetry. unfold cnf_eval.
      apply not_true_is_false. intros Ht. pose proof (proj1 (forallb_forall (clause_eval x) f) Ht [] Hin) as H0. discriminate.
    + destruct (collapse_spec (S (length f)) (map clause_expr f) ltac:(rewrite map_length; lia))
        as [[E _]|[_ (e & -> & D)]].
      * destruct f; [contradiction NE; reflexivity|discriminate].
      * rewrite D. apply forallb_map_den.
Qed.

(* any permutation of the clauses means the same: with compile_e_canonical, the diagram does not
   depend on the order the best-effort sort produces *)
Lemma cnf_eval_perm f f' x : Permutation f f' -> cnf_eval f x = cnf_eval f' x.
Proof.
  unfold cnf_eval. induction 1; simpl; auto.
  - rewrite IHPermutation. reflexivity.
  - rewrite !andb_assoc, (andb_comm (clause_eval x y)). reflexivity.
  - congruence.
Qed.

(* compile_cnf_with_assignments: the clause under a partial assignment *)
Definition override (m : list literal) (x : asg) : asg :=
  fun v => match asg_get m v with Some b => b | None => x v end.

Lemma clause_expr_under_den m c : forall cur x,
  den_e (clause_expr_under m c cur) x = den_e cur x || clause_eval (override m x) c.
Proof.
  induction c as [|[v p] c IH]; intros cur x; simpl; [rewrite orb_false_r; reflexivity|].
  unfold lit_eval at 1, override at 1. simpl.
  destruct (asg_get m v) as [b|] eqn:G.
  - destruct (Bool.eqb b p) eqn:E; simpl; [rewrite orb_true_r; reflexivity|]. rewrite IH. reflexivity.
  - rewrite IH. simpl. rewrite (orb_comm (Bool.eqb (x v) p)), orb_assoc. reflexivity.
Qed.

Lemma fold_and_den l : forall e x, den_e (fold_left EAnd l e) x = den_e e x && forallb (fun c => den_e c x) l.
Proof. induction l as [|a l IH]; intros e x; simpl; [rewrite andb_true_r; reflexivity|]. rewrite IH. simpl. rewrite andb_assoc. reflexivity. Qed.

Theorem cnf_expr_under_den m f x : den_e (cnf_expr_under m f) x = cnf_eval f (override m x).
Proof.
  unfold cnf_expr_under, cnf_eval. destruct f as [|c f]; [reflexivity|]. cbn [map].
  rewrite fold_and_den, clause_expr_under_den. simpl. f_equal.
  induction f as [|c' f IH]; simpl; auto. rewrite clause_expr_under_den, IH. reflexivity.
Qed.

(* from_dtree: the plan means the conjunction of the dtree's leaf clauses *)
Theorem plan_of_dtree_den t x : den_e (plan_of_dtree t) x = cnf_eval (dleaves t) x.
Proof.
  induction t as [c|l IHl r IHr]; simpl.
  - unfold cnf_eval. simpl. rewrite andb_true_r. destruct c as [|[v p] r]; [reflexivity|].
    rewrite fold_or_den. reflexivity.
  - rewrite IHl, IHr. unfold cnf_eval. rewrite forallb_app. reflexivity.
Qed.
