From Coq Require Import Bool NArith List Lia Arith Permutation.
Import ListNotations.
From RsddV Require Import Base.Bdd Model.IteStd Model.BddOps Model.BddProg Model.Wmc Model.Compile Model.Cli
  Proofs.BddCanon Proofs.BddIte Proofs.BddOps Proofs.BddProg Proofs.Wmc Proofs.Smooth Proofs.SmoothProg Proofs.Compile.

Lemma csound_empty level L : csound level L cst_empty.
Proof. constructor. Qed.

(* THE THEOREM (C19, model-count tool): for every configured order (permutation of all n
   variables), every expression over them and every weight table, the pipeline yields the number
   of models over all n variables and the weighted sum over models over all n variables *)
Theorem cli_counts_correct o e wlo whi x :
  wf_order o -> vars_in (level_of o) (length o) e ->
  exists mc w, cli_counts o e wlo whi = Some (mc, w) /\
    mc = N.of_nat (length (filter (den_e e) (all_asgs (level_vars (var_at o) (length o) 0) x))) /\
    w = wmc_spec N N.add N.mul 0%N 1%N wlo whi (level_vars (var_at o) (length o) 0) (den_e e) x.
Proof.
  intros WO V. unfold cli_counts.
  pose proof (level_of_inj o WO) as LI.
  destruct (compile_e_ok (level_of o) LI (length o) (fun _ => true) (S (length o)) ltac:(lia) e cst_empty V (csound_empty _ _))
    as (r & s' & -> & W & D & _).
  eexists; eexists; split; [reflexivity|]. unfold wmc_N. split.
  - rewrite (smooth_wmc_exact (level_of o) LI (length o) (var_at o) (level_var_at_of o WO) N N.add N.mul 0%N 1%N _ _ r x W).
    rewrite wmc_spec_unit_count. f_equal. f_equal.
    clear -D. induction (all_asgs (level_vars (var_at o) (length o) 0) x) as [|a l IH]; simpl; auto. rewrite D, IH. reflexivity.
  - rewrite (smooth_wmc_exact (level_of o) LI (length o) (var_at o) (level_var_at_of o WO) N N.add N.mul 0%N 1%N wlo whi r x W).
    apply wmc_spec_local. intros a _. apply D.
Qed.

(* the counts do not depend on how the variables are numbered / ordered: any enumeration of the
   same variables gives the same sums (the code numbers weight-only variables by HashMap iteration) *)
Theorem cli_counts_order_independent vars vars' wlo whi f x :
  Permutation vars vars' -> (forall a a', (forall v, a v = a' v) -> f a = f a') ->
  wmc_spec N N.add N.mul 0%N 1%N wlo whi vars f x = wmc_spec N N.add N.mul 0%N 1%N wlo whi vars' f x.
Proof.
  intros P C. apply (wmc_spec_perm N N.add N.mul 0%N 1%N N.add_comm); auto.
  - intros a b c. symmetry. apply N.add_assoc.
  - intros a b c. symmetry. apply N.mul_assoc.
  - apply N.mul_comm.
  - apply N.mul_add_distr_l.
Qed.

(* the converters' diagram denotes the input *)
Theorem cli_compile_correct o e : wf_order o -> vars_in (level_of o) (length o) e ->
  exists r, cli_compile o e = Some r /\ forall x, den r x = den_e e x.
Proof.
  intros WO V. unfold cli_compile.
  destruct (compile_e_ok (level_of o) (level_of_inj o WO) (length o) (fun _ => true) (S (length o)) ltac:(lia) e cst_empty V (csound_empty _ _))
    as (r & s' & -> & W & D & _).
  eauto.
Qed.
