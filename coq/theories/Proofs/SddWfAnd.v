(* C04: with compression on, the apply keeps every pointer in local normal form, so the class
   "invariant + normal form" is closed under and (and_m_good_nf). *)
From Coq Require Import Bool NArith List Lia Arith Permutation.
Import ListNotations.
From RsddV Require Import Base.Bdd Base.Util Model.SddVtree Model.SddOps Proofs.SddBase.
From RsddV Require Import Proofs.SddVtree Proofs.SddInv Proofs.SddLoops Proofs.SddNode Proofs.SddAnd.
From RsddV Require Import Proofs.SddWf Proofs.SddWfOps.

(* well-formed below u: the builder invariant and the local normal form *)
Definition wf_in (u : vtree) (off : nat) (p : sdd) : Prop := under u off p /\ nf p.

Section AndNf.
Variable t : vtree.
Hypothesis ND : NoDup (vleaves t).
Variable cache : sdd -> sdd -> option sdd.
Hypothesis CSound : cache_sound t cache.
Definition cache_nf : Prop := forall a b x, cache a b = Some x -> nf a -> nf b -> nf x.
Hypothesis CNf : cache_nf.

Theorem and_m_good_nf : forall fuel u off, occurs t 0 u off -> vheight u < fuel ->
  good (and_m t true cache fuel) (wf_in u off).
Proof.
  induction fuel as [|fuel IHf]; intros u off Ho Hh; [lia|].
  assert (NF : forall u off, occurs t 0 u off -> vheight u <= fuel -> forall x y z,
             under u off x -> under u off y -> nf x -> nf y ->
             and_body t true cache (and_m t true cache fuel) x y = Ok z -> nf z).
  { clear u off Ho Hh. set (andf := and_m t true cache fuel) in *.
    induction u as [v|l IHl r IHr]; intros off Ho Hh x y z Ux Uy Nx Ny E.
    - destruct (s_is_true x) eqn:T1; [unfold and_body in E; rewrite T1 in E; injection E as <-; auto|].
      destruct (s_is_true y) eqn:T2; [unfold and_body in E; rewrite T1, T2 in E; injection E as <-; auto|].
      destruct (s_is_false x) eqn:F1; [unfold and_body in E; rewrite T1, T2, F1 in E; injection E as <-; exact I|].
      destruct (s_is_false y) eqn:F2; [unfold and_body in E; rewrite T1, T2, F1, F2 in E; injection E as <-; exact I|].
      destruct (sdd_eqb x y) eqn:E1; [unfold and_body in E; rewrite T1, T2, F1, F2, E1 in E; injection E as <-; auto|].
      destruct (sdd_eqb x (sneg y)) eqn:E2; [unfold and_body in E; rewrite T1, T2, F1, F2, E1, E2 in E; injection E as <-; exact I|].
      exfalso. apply under_leaf_inv in Ux, Uy.
      destruct Ux as [->|[->|[p ->]]]; try discriminate. destruct Uy as [->|[->|[q ->]]]; try discriminate.
      destruct p, q; simpl in E1, E2; rewrite N.eqb_refl in *; discriminate.
    - destruct (s_is_true x) eqn:T1; [unfold and_body in E; rewrite T1 in E; injection E as <-; auto|].
      destruct (s_is_true y) eqn:T2; [unfold and_body in E; rewrite T1, T2 in E; injection E as <-; auto|].
      destruct (s_is_false x) eqn:F1; [unfold and_body in E; rewrite T1, T2, F1 in E; injection E as <-; exact I|].
      destruct (s_is_false y) eqn:F2; [unfold and_body in E; rewrite T1, T2, F1, F2 in E; injection E as <-; exact I|].
      destruct (sdd_eqb x y) eqn:E1; [unfold and_body in E; rewrite T1, T2, F1, F2, E1 in E; injection E as <-; auto|].
      destruct (sdd_eqb x (sneg y)) eqn:E2; [unfold and_body in E; rewrite T1, T2, F1, F2, E1, E2 in E; injection E as <-; exact I|].
      simpl in Hh.
      assert (GP : good andf (Upn l off)) by (apply IHf; [eapply occurs_left; eauto | lia]).
      assert (GS : good andf (Usn l r off)) by (apply IHf; [eapply occurs_right; eauto | lia]).
      destruct (and_body_locate t ND true cache l r off Ho andf x y T1 T2 F1 F2 E1 E2 Ux Uy)
        as [[Lx Ly]|[[Rx Ry]|(a & b & Hab & Ed & La & Lb)]].
      + apply (IHl off (occurs_left _ _ _ _ _ Ho) ltac:(lia) x y z); auto.
      + apply (IHr _ (occurs_right _ _ _ _ _ Ho) ltac:(lia) x y z); auto.
      + rewrite Ed in E.
        assert (Nab : nf a /\ nf b) by (destruct Hab as [[-> ->]|[-> ->]]; auto). destruct Nab as [Na Nb].
        destruct (cache a b) as [c0|] eqn:Ec.
        { unfold dispatch in E. rewrite Ec in E. injection E as <-. eapply CNf; eauto. }
        destruct (dispatch_cases t ND true cache l r off Ho andf a b La Lb Ec)
          as [(A1 & A2 & Eq)|[(A1 & A2 & A3 & Eq)|[(A1 & A2 & A3 & Eq)|(A1 & A2 & A3 & A4 & Eq)]]];
          rewrite Eq in E.
        * apply (and_cartesian_nf t ND l r off Ho andf GP GS a b z A1 A2 Na Nb E).
        * apply (and_sub_desc_nf t ND l r off Ho andf GP GS a b z A1 Na (conj A2 Nb) E).
        * apply (and_prime_desc_nf t ND l r off Ho andf GP GS b a z A3 Nb (conj A1 Na) E).
        * apply (and_indep_nf t l r off Ho a b z (conj A1 Na) (conj A3 Nb) A2 A4 E). }
  intros x y [Ux Nx] [Uy Ny].
  destruct (and_m_good t ND true cache CSound (S fuel) u off Ho Hh x y Ux Uy) as (z & E & Uz & Sz).
  exists z. split; [exact E|]. split; [|exact Sz]. split; [exact Uz|].
  cbn [and_m] in E. apply (NF u off Ho ltac:(lia) x y z); auto.
Qed.

End AndNf.
