(* C09 — the full fix-point theorem: Cnf::new's guarantees, UnitPropagate::new establishes the
   two-watched-literal invariant, and the invariant is carried along the state stack. *)
From Coq Require Import Bool NArith List Arith Lia Permutation.
Import ListNotations.
From RsddV Require Import Base.Util Model.UnitProp.
From RsddV Require Import Proofs.UnitProp.

(* ---------- what Cnf::new guarantees for every input ---------- *)
Fixpoint ssorted (c : clause) : Prop :=
  match c with
  | [] => True
  | x :: t => (forall y, In y t -> lvar x <= lvar y) /\ ssorted t
  end.
Fixpoint adjdist (c : clause) : Prop :=
  match c with
  | x :: ((y :: _) as t) => x <> y /\ adjdist t
  | _ => True
  end.

Lemma ssorted_insert x l : ssorted l -> ssorted (insert_by label_le x l).
Proof.
  induction l as [|z t IH]; intros Hs; simpl.
  - split; [intros y []|exact I].
  - destruct Hs as [Hz Ht]. unfold label_le at 1. destruct (Nat.leb (lvar x) (lvar z)) eqn:E.
    + apply Nat.leb_le in E. split; [|split; assumption].
      intros y [<-|Hy]; [exact E|]. specialize (Hz y Hy). lia.
    + apply Nat.leb_gt in E. split; [|apply IH; exact Ht].
      intros y Hy. apply in_insert_by in Hy. destruct Hy as [->|Hy]; [lia|apply Hz; exact Hy].
Qed.

Lemma ssorted_sort c : ssorted (sort_by label_le c).
Proof. unfold sort_by. induction c as [|x t IH]; simpl; [exact I|apply ssorted_insert; exact IH]. Qed.

Lemma dedup_cons x t : dedup (x :: t) =
  match t with [] => [x] | z :: _ => if lit_eqb x z then dedup t else x :: dedup t end.
Proof. reflexivity. Qed.

Lemma dedup_head : forall t x, exists r, dedup (x :: t) = x :: r.
Proof.
  induction t as [|z t IH]; intros x.
  - exists []. reflexivity.
  - rewrite dedup_cons. destruct (lit_eqb x z) eqn:E.
    + apply lit_eqb_eq in E. subst z. apply IH.
    + eexists. reflexivity.
Qed.

Lemma ssorted_dedup : forall c, ssorted c -> ssorted (dedup c).
Proof.
  induction c as [|x t IH]; intros Hs; [exact I|]. destruct Hs as [Hx Ht]. rewrite dedup_cons.
  destruct t as [|z t']; [split; [intros y []|exact I]|].
  destruct (lit_eqb x z); [apply IH; exact Ht|].
  split; [|apply IH; exact Ht]. intros y Hy. apply Hx. apply (proj1 (in_dedup _ _)). exact Hy.
Qed.

Lemma adjdist_dedup : forall c, adjdist (dedup c).
Proof.
  induction c as [|x t IH]; [exact I|]. rewrite dedup_cons. destruct t as [|z t']; [exact I|].
  destruct (lit_eqb x z) eqn:E; [exact IH|].
  destruct (dedup_head t' z) as [r Hr]. rewrite Hr in *. split; [|exact IH].
  intros ->. rewrite (proj2 (lit_eqb_eq z z) eq_refl) in E. discriminate.
Qed.

(* filtering by a predicate that only looks at the label keeps neighbours distinct *)
Lemma filter_label_adj (q : nat -> bool) : forall c u s rest,
  ssorted c -> adjdist c -> filter (fun l => q (lvar l)) c = u :: s :: rest -> u <> s.
Proof.
  induction c as [|x t IH]; intros u s rest Hs Ha Hf; [discriminate|].
  destruct Hs as [Hx Ht].
  assert (Hat : adjdist t) by (destruct t; [exact I|destruct Ha; assumption]).
  simpl in Hf. destruct (q (lvar x)) eqn:Eq.
  - injection Hf as Hu Hf. subst u. intros <-.
    destruct t as [|y t']; [discriminate|]. destruct Ha as [Hxy _]. simpl in Hf.
    destruct (q (lvar y)) eqn:Eqy.
    + injection Hf as Hf _. congruence.
    + assert (Hin : In x (filter (fun l => q (lvar l)) t')) by (rewrite Hf; left; reflexivity).
      apply filter_In in Hin. destruct Hin as [Hin _].
      assert (lvar x <= lvar y) by (apply Hx; left; reflexivity).
      assert (lvar y <= lvar x) by (destruct Ht as [Hy _]; apply Hy; exact Hin).
      assert (lvar y = lvar x) by lia. congruence.
  - eapply IH; eauto.
Qed.

Lemma cnf_new_adj_ok raw : rem_adj_ok (cnf_new raw).
Proof.
  intros c m u s rest Hc Hr. unfold cnf_new in Hc. apply in_map_iff in Hc. destruct Hc as [c0 [<- _]].
  unfold remaining, lit_unset in Hr.
  eapply (filter_label_adj (fun v => negb (pm_is_set m v))); [| |exact Hr].
  - apply ssorted_dedup, ssorted_sort.
  - apply adjdist_dedup.
Qed.

Lemma clause_nvars_bound c l : In l c -> lvar l < clause_nvars c.
Proof.
  induction c as [|x t IH]; intros H; [destruct H|]. unfold clause_nvars in *. cbn [fold_right]. destruct H as [->|H]; [lia|].
  specialize (IH H). lia.
Qed.

Lemma cnf_num_vars_range cls : lits_in_range (cnf_num_vars cls) cls.
Proof.
  intros c l Hc Hl. induction cls as [|c0 t IH]; [destruct Hc|]. unfold cnf_num_vars in *. cbn [fold_right].
  destruct Hc as [->|Hc]; [pose proof (clause_nvars_bound _ _ Hl); lia|]. specialize (IH Hc). lia.
Qed.

(* ---------- UnitPropagate::new establishes the invariant ---------- *)
Lemma wl_push_lengths w l ci :
  length (wpos (wl_push w l ci)) = length (wpos w) /\ length (wneg (wl_push w l ci)) = length (wneg w).
Proof. unfold wl_push. apply wl_put_lengths. Qed.

Lemma push_watched w l ci cj l' :
  lvar l < length (wpos w) -> lvar l < length (wneg w) ->
  (watched (wl_push w l ci) cj l' <-> watched w cj l' \/ (cj = ci /\ l' = l)).
Proof.
  intros H1 H2. unfold watched, wl_push. destruct (lit_eqb l l') eqn:E.
  - apply lit_eqb_eq in E. subst l'. rewrite wl_get_put_same by assumption. rewrite in_app_iff. simpl.
    split; [intros [H|[H|[]]]; auto|intros [H|[H _]]; auto].
  - assert (Hne : l <> l') by (intros ->; rewrite (proj2 (lit_eqb_eq l' l') eq_refl) in E; discriminate).
    rewrite wl_get_put_other by exact Hne. split; [auto|intros [H|[_ H]]; [exact H|congruence]].
Qed.

Lemma push_nodup w l ci :
  lvar l < length (wpos w) -> lvar l < length (wneg w) ->
  (forall l', NoDup (wl_get w l')) -> ~ watched w ci l -> forall l', NoDup (wl_get (wl_push w l ci) l').
Proof.
  intros H1 H2 Hnd Hnw l'. unfold wl_push. destruct (lit_eqb l l') eqn:E.
  - apply lit_eqb_eq in E. subst l'. rewrite wl_get_put_same by assumption.
    eapply Permutation_NoDup; [apply Permutation_cons_append|]. constructor; [exact Hnw|apply Hnd].
  - assert (Hne : l <> l') by (intros ->; rewrite (proj2 (lit_eqb_eq l' l') eq_refl) in E; discriminate).
    rewrite wl_get_put_other by exact Hne. apply Hnd.
Qed.

Record Sscan (nvars : nat) (cls : list clause) (k : nat) (w : watches) : Prop := mkSscan {
  Sc_ok : w_ok (length cls) w;
  Sc_len_pos : length (wpos w) = nvars;
  Sc_len_neg : length (wneg w) = nvars;
  Sc_nodup : forall l, NoDup (wl_get w l);
  Sc_two : forall ci, ci < k -> ci < length cls -> 2 <= length (nth ci cls []) ->
    exists l1 l2, l1 <> l2 /\ In l1 (nth ci cls []) /\ In l2 (nth ci cls []) /\
                  forall l, watched w ci l <-> (l = l1 \/ l = l2);
  Sc_none : forall ci l, k <= ci -> ~ watched w ci l
}.

Lemma Sscan_S_inv nvars cls w : Sscan nvars cls (length cls) w -> S_inv nvars cls w.
Proof.
  intros [H1 H2 H3 H4 H5 _]. constructor; try assumption. intros ci Hci Hl. apply H5; assumption.
Qed.

Lemma scan_establishes nvars cls :
  lits_in_range nvars cls -> rem_adj_ok cls ->
  forall rest pre w implied w' imp',
  cls = pre ++ rest -> Sscan nvars cls (length pre) w ->
  up_new_scan rest (length pre) w implied = Some (w', imp') ->
  Sscan nvars cls (length cls) w' /\ ~ In [] rest /\
  (forall l, In l imp' <-> In l implied \/ In [l] rest).
Proof.
  intros Hrange Hadj. induction rest as [|c rest IH]; intros pre w implied w' imp' Hcls HS H; simpl in H.
  - injection H as <- <-. rewrite app_nil_r in Hcls. subst pre. split; [exact HS|split; [intros []|]].
    intros l. split; [auto|intros [H|[]]; exact H].
  - assert (Hcls2 : cls = (pre ++ [c]) ++ rest) by (rewrite <- app_assoc; exact Hcls).
    assert (Hlen2 : length (pre ++ [c]) = S (length pre)) by (rewrite app_length; simpl; lia).
    assert (Hnth : nth (length pre) cls [] = c) by (rewrite Hcls; apply nth_middle).
    assert (Hk : length pre < length cls) by (rewrite Hcls, app_length; simpl; lia).
    assert (Hc : In c cls) by (rewrite Hcls; apply in_or_app; right; left; reflexivity).
    destruct c as [|l0 [|l1 r]]; [discriminate| |].
    + (* unit clause: no watch *)
      assert (HS2 : Sscan nvars cls (S (length pre)) w).
      { destruct HS as [H1 H2 H3 H4 H5 H6]. constructor; try assumption.
        - intros ci Hci Hci2 Hl. destruct (Nat.eq_dec ci (length pre)) as [->|Hne].
          + rewrite Hnth in Hl. simpl in Hl. lia.
          + apply H5; [lia|assumption|assumption].
        - intros ci l Hci. apply H6. lia. }
      rewrite <- Hlen2 in H, HS2. destruct (IH _ _ _ _ _ Hcls2 HS2 H) as [HS' [Hne Himp]].
      split; [exact HS'|split].
      * intros [Hx|Hx]; [discriminate|contradiction].
      * intros l. rewrite Himp, in_app_iff. simpl. split.
        -- intros [[Hx|[->|[]]]|Hx]; auto.
        -- intros [Hx|[Hx|Hx]]; auto. injection Hx as ->. auto.
    + (* two watches: c[1] pushed first, then c[0] *)
      set (k := length pre) in *.
      assert (H01 : l0 <> l1).
      { apply (Hadj (l0 :: l1 :: r) [] l0 l1 r Hc). unfold remaining.
        assert (Hall : forall x : lit, lit_unset [] x = true).
        { intros x. unfold lit_unset, pm_is_set, pm_get. destruct (lvar x); reflexivity. }
        clear - Hall. generalize (l0 :: l1 :: r). intros c. induction c as [|x t IHc]; [reflexivity|].
        simpl. rewrite Hall, IHc. reflexivity. }
      assert (Hr0 : lvar l0 < nvars) by (apply (Hrange _ l0 Hc); left; reflexivity).
      assert (Hr1 : lvar l1 < nvars) by (apply (Hrange _ l1 Hc); right; left; reflexivity).
      destruct HS as [H1 H2 H3 H4 H5 H6].
      set (w1 := wl_push w l1 k) in *. set (w2 := wl_push w1 l0 k) in *.
      destruct (wl_push_lengths w l1 k) as [Hp1 Hn1]. fold w1 in Hp1, Hn1.
      destruct (wl_push_lengths w1 l0 k) as [Hp2 Hn2]. fold w2 in Hp2, Hn2.
      assert (Hw1 : forall cj l, watched w1 cj l <-> watched w cj l \/ (cj = k /\ l = l1))
        by (intros cj l; apply push_watched; lia).
      assert (Hw2 : forall cj l, watched w2 cj l <-> watched w1 cj l \/ (cj = k /\ l = l0))
        by (intros cj l; apply push_watched; lia).
      assert (HS2 : Sscan nvars cls (S k) w2).
      { constructor.
        - unfold w2, w1. repeat apply wl_push_ok; auto.
        - lia.
        - lia.
        - unfold w2. apply push_nodup; try lia.
          + unfold w1. apply push_nodup; try lia; [exact H4|]. apply H6. lia.
          + rewrite Hw1. intros [Hx|[_ Hx]]; [apply (H6 k l0 (le_n _)); exact Hx|congruence].
        - intros ci Hci Hci2 Hl. destruct (Nat.eq_dec ci k) as [->|Hne].
          + exists l0, l1. rewrite Hnth. split; [exact H01|split; [left; reflexivity|split; [right; left; reflexivity|]]].
            intros l. rewrite Hw2, Hw1. split.
            * intros [[Hx|[_ Hx]]|[_ Hx]]; auto. exfalso. apply (H6 k l (le_n _)). exact Hx.
            * intros [-> | ->]; auto.
          + destruct (H5 ci ltac:(lia) Hci2 Hl) as [x [y [Hxy [Hx [Hy Hiff]]]]].
            exists x, y. split; [exact Hxy|split; [exact Hx|split; [exact Hy|]]].
            intros l. rewrite Hw2, Hw1, <- Hiff. split; [intros [[Hz|[Hz _]]|[Hz _]]; auto; contradiction|auto].
        - intros ci l Hci. rewrite Hw2, Hw1. intros [[Hx|[Hx _]]|[Hx _]]; try lia. apply (H6 ci l); [lia|exact Hx]. }
      rewrite <- Hlen2 in H, HS2. destruct (IH _ _ _ _ _ Hcls2 HS2 H) as [HS' [Hne Himp]].
      split; [exact HS'|split].
      * intros [Hx|Hx]; [discriminate|contradiction].
      * intros l. rewrite Himp. simpl. split; [intros [Hx|Hx]; auto|intros [Hx|[Hx|Hx]]; auto; discriminate].
Qed.

Lemma Sscan_init nvars cls : Sscan nvars cls 0 (mkW (repeat [] nvars) (repeat [] nvars)).
Proof.
  assert (Hg : forall l, wl_get (mkW (repeat [] nvars) (repeat [] nvars)) l = []).
  { intros l. unfold wl_get. simpl. destruct (lpol l); rewrite nth_repeat_lt; destruct (Nat.ltb _ _); reflexivity. }
  constructor; simpl; try apply repeat_length.
  - split; apply wl_ok_repeat.
  - intros l. rewrite Hg. constructor.
  - intros ci Hci. lia.
  - intros ci l _. unfold watched. rewrite Hg. intros [].
Qed.

Lemma V_new nvars cls w : V cls [] w (pm_new nvars).
Proof.
  intros ci l _ _ _ Hf. unfold lit_false, pm_get, pm_new in Hf. rewrite nth_repeat_lt in Hf.
  destruct (Nat.ltb _ _); discriminate.
Qed.

(* ---------- one decide, without the unit-clause bookkeeping ---------- *)
Lemma decide_inv nvars cls fuel w m a w' r :
  lits_in_range nvars cls -> rem_adj_ok cls ->
  S_inv nvars cls w -> length m = nvars -> lvar a < nvars ->
  up_decide false cls fuel w m a = URes w' r ->
  S_inv nvars cls w' /\
  (forall mj, pm_le mj m -> V cls [] w mj -> V cls [] w' mj) /\
  (forall m', r = Some m' -> V cls [] w m ->
     V cls [] w' m' /\ length m' = nvars /\ pm_le m m' /\ lit_true m' a = true).
Proof.
  intros Hrange Hadj HS Hlen Ha H.
  pose proof (proj1 (up_fix nvars cls Hrange Hadj fuel) _ _ _ _ _ HS Hlen Ha H) as [HS' [_ [Hlow Hcur]]].
  pose proof (proj1 (up_basic false cls fuel) _ _ _ _ _ (S_ok _ _ _ HS) H) as [_ [Hm _]].
  split; [exact HS'|split; [intros mj Hle HV; apply Hlow; assumption|]].
  intros m' Hr HV. destruct (Hm m' Hr) as [Hlen' Hle]. subst r.
  split; [apply (Hcur m' eq_refl []); exact HV|split; [congruence|split; [exact Hle|]]].
  eapply up_decide_sets; [apply (S_ok _ _ _ HS)| |exact H]. lia.
Qed.

Lemma units_establish nvars cls fuel :
  lits_in_range nvars cls -> rem_adj_ok cls ->
  forall implied w m w' r,
  S_inv nvars cls w -> V cls [] w m -> length m = nvars -> (forall l, In l implied -> lvar l < nvars) ->
  up_new_units false cls fuel w m implied = URes w' r ->
  S_inv nvars cls w' /\
  forall m', r = Some m' ->
    V cls [] w' m' /\ length m' = nvars /\ pm_le m m' /\ forall l, In l implied -> lit_true m' l = true.
Proof.
  intros Hrange Hadj. induction implied as [|i rest IH]; intros w m w' r HS HV Hlen Hir H; simpl in H.
  - injection H as <- <-. split; [exact HS|]. intros m' Hr. injection Hr as <-.
    split; [exact HV|split; [exact Hlen|split; [apply pm_le_refl|intros l []]]].
  - destruct (up_decide false cls fuel w m i) as [|w1 [m1|]] eqn:Ed; [discriminate| |].
    + destruct (decide_inv nvars cls fuel w m i w1 (Some m1) Hrange Hadj HS Hlen (Hir i (or_introl eq_refl)) Ed)
        as [HS1 [_ Hcur]].
      destruct (Hcur m1 eq_refl HV) as [HV1 [Hlen1 [Hle1 Hti]]].
      destruct (IH w1 m1 w' r HS1 HV1 Hlen1 (fun l Hl => Hir l (or_intror Hl)) H) as [HS' Hfin].
      split; [exact HS'|]. intros m' Hr. destruct (Hfin m' Hr) as [HV' [Hlen' [Hle' Hall]]].
      split; [exact HV'|split; [exact Hlen'|split; [eapply pm_le_trans; eauto|]]].
      intros l [<-|Hl]; [eapply lit_true_le; eauto|apply Hall; exact Hl].
    + injection H as <- <-.
      destruct (decide_inv nvars cls fuel w m i w1 None Hrange Hadj HS Hlen (Hir i (or_introl eq_refl)) Ed)
        as [HS1 _].
      split; [exact HS1|]. intros m' Hr. discriminate.
Qed.

(* ---------- the invariant along the state stack ---------- *)
Section STACK.
Variable nvars : nat.
Variable cls : list clause.

Definition good (w : watches) (st : sat_state) : Prop :=
  V cls [] w (ss_model st) /\ units_true cls (ss_model st) /\ length (ss_model st) = nvars.

Inductive frames_ok (w : watches) : list sat_state -> Prop :=
| FO_base st0 bot : good w st0 -> frames_ok w [st0; bot]
| FO_push st st2 rest : good w st -> pm_le (ss_model st2) (ss_model st) ->
    frames_ok w (st2 :: rest) -> frames_ok w (st :: st2 :: rest).

Lemma frames_transfer w w' stack : frames_ok w stack ->
  forall m, (match stack with t :: _ => pm_le (ss_model t) m | [] => True end) ->
  (forall mj, pm_le mj m -> V cls [] w mj -> V cls [] w' mj) -> frames_ok w' stack.
Proof.
  induction 1 as [st0 bot [HV [Hu Hl]]|st st2 rest [HV [Hu Hl]] Hle Hf IH]; intros m Hm Hlow.
  - constructor. split; [apply Hlow; assumption|split; assumption].
  - constructor; [split; [apply Hlow; assumption|split; assumption]|exact Hle|].
    apply (IH m); [eapply pm_le_trans; eauto|exact Hlow].
Qed.

Definition fix_inv (s : solver) (ds : list lit) : Prop :=
  s_cnf s = cls /\ s_nvars s = nvars /\ S_inv nvars cls (s_w s) /\
  frames_ok (s_w s) (s_stack s) /\ length (s_stack s) = length ds + 2.

Hypothesis Hrange : lits_in_range nvars cls.
Hypothesis Hadj : rem_adj_ok cls.

Lemma sat_new_fix_inv s0 : sat_new false cls nvars = NewSome s0 -> fix_inv s0 [] /\ ~ In [] cls.
Proof.
  unfold sat_new, up_new. intros H.
  pose proof (scan_establishes nvars cls Hrange Hadj cls [] (mkW (repeat [] nvars) (repeat [] nvars)) []) as Hs.
  simpl in Hs.
  destruct (up_new_scan cls 0 (mkW (repeat [] nvars) (repeat [] nvars)) []) as [[w implied]|] eqn:Esc; [|discriminate].
  destruct (Hs w implied eq_refl (Sscan_init nvars cls) eq_refl) as [HSc [Hne Himp]].
  apply Sscan_S_inv in HSc.
  destruct (up_new_units false cls (up_fuel nvars cls) w (pm_new nvars) implied) as [|w' [state|]] eqn:Eu;
    try discriminate.
  assert (Hir : forall l, In l implied -> lvar l < nvars).
  { intros l Hl. apply Himp in Hl. destruct Hl as [[]|Hl]. apply (Hrange [l] l Hl). left. reflexivity. }
  destruct (units_establish nvars cls _ Hrange Hadj implied w (pm_new nvars) w' (Some state) HSc
              (V_new nvars cls w) (repeat_length _ _) Hir Eu) as [HS' Hfin].
  destruct (Hfin state eq_refl) as [HV [Hlen [_ Hall]]].
  destruct (update_hash_and_sat_set _ _ state) as [h set]. injection H as <-.
  split; [|exact Hne]. split; [reflexivity|split; [reflexivity|split; [exact HS'|split; [|reflexivity]]]].
  simpl. constructor. split; [exact HV|split; [|exact Hlen]].
  intros l Hl. apply Hall, Himp. right. exact Hl.
Qed.

Lemma frames_top w stack : frames_ok w stack -> exists t rest, stack = t :: rest /\ good w t.
Proof. intros H. inversion H; subst; eauto. Qed.

Theorem up_fixpoint s0 s ds :
  sat_new false cls nvars = NewSome s0 -> reaches false s0 s ds ->
  fixpoint_ok cls (ss_model (top_state s)) = true.
Proof.
  intros Hn Hr. destruct (sat_new_fix_inv s0 Hn) as [H0 Hne].
  assert (G : fix_inv s ds).
  { revert s ds Hr. apply run_track_ind.
    - exact H0.
    - intros s ds a s' r [Hc [Hnv [HS [Hf Hlen]]]] Hd Hres.
      destruct (sat_decide_push _ _ _ _ _ Hd Hres) as [w' [nm [Hl [Ed [-> _]]]]].
      destruct (frames_top _ _ Hf) as [t [rest [Est [HVt [Hut Hlt]]]]].
      assert (Etop : top_state s = t) by (unfold top_state; rewrite Est; reflexivity).
      rewrite Hc, Hnv, Etop in Ed. rewrite Hnv in Hl.
      destruct (decide_inv nvars cls _ _ _ _ _ _ Hrange Hadj HS Hlt Hl Ed) as [HS' [Hlow Hcur]].
      destruct (Hcur nm eq_refl HVt) as [HV' [Hlen' [Hle' _]]].
      split; [exact Hc|split; [exact Hnv|split; [exact HS'|split; [|simpl; lia]]]]. simpl. rewrite Est.
      assert (Hf' : frames_ok w' (t :: rest)).
      { rewrite <- Est. apply (frames_transfer (s_w s) w' _ Hf (ss_model t)); [rewrite Est; apply pm_le_refl|exact Hlow]. }
      inversion Hf' as [st0 bot Hg|st st2 rest' Hg Hle2 Hf2]; subst.
      + apply FO_push; [|exact Hle'|exact Hf']. split; [exact HV'|split; [|exact Hlen']].
        intros l Hl'. eapply lit_true_le; [exact Hle'|apply Hut; exact Hl'].
      + apply FO_push; [|exact Hle'|exact Hf']. split; [exact HV'|split; [|exact Hlen']].
        intros l Hl'. eapply lit_true_le; [exact Hle'|apply Hut; exact Hl'].
    - intros s ds a s' [Hc [Hnv [HS [Hf Hlen]]]] Hd.
      destruct (sat_decide_unsat _ _ _ _ Hd) as [w' [Hl [Ed ->]]].
      destruct (frames_top _ _ Hf) as [t [rest [Est [HVt [Hut Hlt]]]]].
      assert (Etop : top_state s = t) by (unfold top_state; rewrite Est; reflexivity).
      rewrite Hc, Hnv, Etop in Ed. rewrite Hnv in Hl.
      destruct (decide_inv nvars cls _ _ _ _ _ _ Hrange Hadj HS Hlt Hl Ed) as [HS' [Hlow _]].
      split; [exact Hc|split; [exact Hnv|split; [exact HS'|split; [|exact Hlen]]]]. simpl.
      apply (frames_transfer (s_w s) w' _ Hf (ss_model t)); [rewrite Est; apply pm_le_refl|exact Hlow].
    - intros s d ds [Hc [Hnv [HS [Hf Hlen]]]].
      split; [exact Hc|split; [exact Hnv|split; [exact HS|]]]. simpl.
      inversion Hf as [st0 bot Hg Est|st st2 rest Hg Hle Hf2 Est]; rewrite <- Est in Hlen; simpl in Hlen |- *.
      + lia.
      + split; [exact Hf2|lia]. }
  destruct G as [_ [_ [HS [Hf _]]]]. destruct (frames_top _ _ Hf) as [t [rest [Est [HVt [Hut _]]]]].
  unfold top_state. rewrite Est. eapply inv_fixpoint; eauto.
Qed.
End STACK.

(* the fix-point clause for every input of the whole pipeline Cnf::new -> SATSolver::new: no
   hypothesis on the clauses is left *)
Theorem up_fixpoint_raw raw s0 s ds :
  solver_of_raw false raw = NewSome s0 -> reaches false s0 s ds ->
  fixpoint_ok (cnf_new raw) (ss_model (top_state s)) = true.
Proof.
  unfold solver_of_raw. intros Hn Hr.
  eapply up_fixpoint; eauto; [apply cnf_num_vars_range|apply cnf_new_adj_ok].
Qed.

Theorem up_fixpoint_nodup cls nvars s0 s ds :
  lits_in_range nvars cls -> Forall (@NoDup lit) cls ->
  sat_new false cls nvars = NewSome s0 -> reaches false s0 s ds ->
  fixpoint_ok cls (ss_model (top_state s)) = true.
Proof. intros Hr Hnd. apply up_fixpoint; [exact Hr|apply nodup_adj_ok; exact Hnd]. Qed.
