(* C04: conditioning keeps the local normal form (compression on); hence every pool entry of
   every operation program of the compressing builder is well formed (invariant + normal form). *)
From Coq Require Import Bool NArith List Lia Arith Permutation.
Import ListNotations.
From RsddV Require Import Base.Bdd Base.Util Model.SddVtree Model.SddOps Proofs.SddBase.
From RsddV Require Import Proofs.SddVtree Proofs.SddInv Proofs.SddLoops Proofs.SddNode Proofs.SddAnd Proofs.SddCond Proofs.SddProg.
From RsddV Require Import Proofs.SddWf Proofs.SddWfOps Proofs.SddWfAnd.
From RsddV Require Model.Compile.

Section CondNf.
Variable t : vtree.
Hypothesis ND : NoDup (vleaves t).
Variable cache : sdd -> sdd -> option sdd.
Hypothesis CSound : cache_sound t cache.
Hypothesis CNf : cache_nf cache.
Variable fuel : nat.
Hypothesis Hfuel : vheight t < fuel.
Variable lbl : var.
Variable value : bool.
Notation cf := (cond_m t true cache fuel lbl value).

Definition cond_nf (p : sdd) : Prop :=
  forall u off flip x, occurs t 0 u off -> under u off p -> nf p -> cf flip p = Ok x -> nf x.

Lemma cond_loop_nfl c' : forall els res,
  Forall (fun e => (forall flip x, cf flip (fst e) = Ok x -> nf x) /\ (forall flip x, cf flip (snd e) = Ok x -> nf x)) els ->
  cond_loop cf c' els = Ok res -> match res with inl x => nf x | inr v => nfl v end.
Proof.
  induction els as [|[p s] rest IH]; intros res HI E.
  - simpl in E. injection E as <-. constructor.
  - inversion HI as [|? ? [Ip Is] HI']; subst. simpl in Ip, Is.
    cbn [cond_loop] in E. destruct (cf false p) as [newp| |] eqn:Enp; try discriminate. cbn [bind] in E.
    unfold cond_step in E. destruct (s_is_false newp).
    { apply IH; auto. }
    destruct (cf c' s) as [news| |] eqn:Ens; try discriminate. cbn [bind] in E.
    destruct (s_is_true newp).
    { injection E as <-. eapply Is; eauto. }
    destruct (cond_loop cf c' rest) as [[x|v]| |] eqn:Er; try discriminate; cbn [bind] in E; injection E as <-.
    + apply (IH (inl x)); auto.
    + constructor; [split; simpl; eauto|]. apply (IH (inr v)); auto.
Qed.

Lemma cond_node_nf l r off c' els idx z : occurs t 0 (VNode l r) off -> idx = off + vsize l ->
  okl (under l off) (under r (S (off + vsize l))) els -> part els -> nfl els ->
  Forall (fun e => cond_nf (fst e) /\ cond_nf (snd e)) els ->
  bind (cond_loop cf c' els)
       (fun r => match r with inl x => Ok x | inr v => canonicalize true (and_m t true cache fuel) v idx end) = Ok z ->
  nf z.
Proof.
  intros Ho -> Hok Hp Hn HI E.
  assert (HIok : Forall (fun e : elem => cond_ok t true cache fuel lbl value (fst e) /\ cond_ok t true cache fuel lbl value (snd e)) els).
  { apply Forall_forall. intros e _. split; apply (cond_m_ok t ND true cache CSound fuel Hfuel lbl value). }
  destruct (cond_loop_spec t true cache fuel Hfuel lbl value l r off Ho c' els Hok (part_excl _ Hp) HIok) as (res & Er & Hr).
  assert (HI' : Forall (fun e : elem => (forall flip x, cf flip (fst e) = Ok x -> nf x) /\ (forall flip x, cf flip (snd e) = Ok x -> nf x)) els).
  { unfold okl, nfl in *. rewrite Forall_forall in *. intros e He.
    destruct (HI e He) as [I1 I2]. destruct (Hok e He) as [U1 U2]. destruct (Hn e He) as [N1 N2].
    split; intros flip x Ex.
    - apply (I1 l off flip x (occurs_left _ _ _ _ _ Ho) U1 N1 Ex).
    - apply (I2 r _ flip x (occurs_right _ _ _ _ _ Ho) U2 N2 Ex). }
  pose proof (cond_loop_nfl c' els res HI' Er) as Hres.
  rewrite Er in E. cbn [bind] in E. destruct res as [x|v]; [injection E as <-; exact Hres|].
  destruct Hr as (H1 & H2 & H3 & H4).
  assert (GP : good (and_m t true cache fuel) (Upn l off)).
  { apply (and_m_good_nf t ND cache CSound CNf fuel l off (occurs_left _ _ _ _ _ Ho)).
    pose proof (occurs_height _ _ _ _ Ho). simpl in *. lia. }
  assert (Hokn : okl (Upn l off) (Usn l r off) v) by (apply okn_split; auto).
  apply (canonicalize_nf t ND l r off Ho (and_m t true cache fuel) GP v z Hokn); auto.
  - intros a. rewrite H3. apply Hp.
  - eapply okn_nonF_satl; eauto.
Qed.

Theorem cond_m_nf : forall p, cond_nf p.
Proof.
  induction p as [| |v b|c lb i lo hi IHlo IHhi|c i els IH] using sdd_ind'; intros u off flip x Hou Hu Hn E.
  - simpl in E. injection E as <-. destruct flip; exact I.
  - simpl in E. injection E as <-. destruct flip; exact I.
  - simpl in E. injection E as <-. unfold cond_var. destruct (N.eqb v lbl); [destruct (Bool.eqb _ _)|]; exact I.
  - destruct (under_locate u off _ Hu eq_refl) as (l & r & off' & Ho' & Ha); [discriminate|].
    assert (Hot : occurs t 0 (VNode l r) off') by (eapply occurs_trans; eauto).
    destruct Ha as [(c0 & lbl0 & lo0 & hi0 & [= <- <- -> <- <-] & H1 & H2 & H3)|(c0 & els0 & [=] & _)].
    destruct Hn as (Nlo & Nhi & _).
    rewrite cond_m_bdd in E.
    apply (cond_node_nf l r off' (xorb flip c) [(SVar lb true, hi); (SVar lb false, lo)] (off' + vsize l) x Hot eq_refl); auto.
    + repeat constructor; simpl; auto.
    + intros a. apply cnt_bdd_elems.
    + repeat constructor; simpl; auto.
    + assert (Cv : forall pol, cond_nf (SVar lb pol)).
      { intros pol u0 off0 flip0 x0 _ _ _ E0. simpl in E0. injection E0 as <-. unfold cond_var.
        destruct (N.eqb lb lbl); [destruct (Bool.eqb _ _)|]; exact I. }
      repeat constructor; simpl; auto.
  - destruct (under_locate u off _ Hu eq_refl) as (l & r & off' & Ho' & Ha); [discriminate|].
    assert (Hot : occurs t 0 (VNode l r) off') by (eapply occurs_trans; eauto).
    destruct Ha as [(c0 & lbl0 & lo0 & hi0 & [=] & _)|(c0 & els0 & [= <- -> <-] & H1 & H2 & H3)].
    apply nf_or in Hn. destruct Hn as (Nl & _).
    rewrite cond_m_or in E.
    apply (cond_node_nf l r off' (xorb flip c) els (off' + vsize l) x Hot eq_refl H2 H3 Nl IH E).
Qed.

End CondNf.

(* ---- instance 2 of the program theorem: invariant + local normal form, compression on ---- *)
Section ProgWf.
Variable t : vtree.
Hypothesis ND : NoDup (vleaves t).
Variable cache : sdd -> sdd -> option sdd.
Hypothesis CSound : cache_sound t cache.
Hypothesis CNf : cache_nf cache.
Variable fuel : nat.
Hypothesis Hfuel : vheight t < fuel.
Notation W := (wf_in t 0).

Lemma W_sneg p : W p -> W (sneg p).
Proof. intros [A B]. split; auto using under_sneg, nf_sneg. Qed.
Lemma W_T : W ST. Proof. split; [constructor | exact I]. Qed.
Lemma W_F : W SF. Proof. split; [constructor | exact I]. Qed.
Lemma W_var v b : In v (vleaves t) -> W (SVar v b).
Proof. intros H. split; [constructor; exact H | exact I]. Qed.

Lemma and_ok_w x y : W x -> W y ->
  exists r, and_m t true cache fuel x y = Ok r /\ W r /\ forall a, sden r a = sden x a && sden y a.
Proof. intros Hx Hy. apply (and_m_good_nf t ND cache CSound CNf fuel t 0 (occurs_refl t 0) Hfuel x y Hx Hy). Qed.

Lemma condition_ok_w x v b : W x ->
  exists r, condition_m t true cache fuel x v b = Ok r /\ W r /\ forall a, sden r a = sden x (upd a v b).
Proof.
  intros [Ux Nx]. destruct (condition_ok_u t ND true cache CSound fuel Hfuel x v b Ux) as (r & E & Ur & D).
  exists r. repeat split; auto.
  apply (cond_m_nf t ND cache CSound CNf fuel Hfuel v b x t 0 false r (occurs_refl t 0) Ux Nx E).
Qed.

Definition run_ok_w := run_ok t true cache fuel W W_sneg W_T W_F W_var and_ok_w condition_ok_w.
Definition or_ok_w := or_ok t true cache fuel W W_sneg and_ok_w.
Definition ite_ok_w := ite_ok t true cache fuel W W_sneg W_T W_F and_ok_w.
Lemma compile_cnf_ok_w (f sorted : list (list lit)) : Permutation sorted f ->
  Forall (Forall (fun l : lit => In (fst l) (vleaves t))) f ->
  exists r, compile_cnf_m t true cache fuel f sorted = Ok r /\ W r /\ forall a, sden r a = Compile.cnf_eval f a.
Proof. apply (compile_cnf_ok t true cache fuel W); auto using W_sneg, W_T, W_F, W_var, and_ok_w. Qed.
End ProgWf.
