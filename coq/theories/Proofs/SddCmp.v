(* derive(Ord) on SddPtr as modelled by [sdd_cmp] is a total order: Eq only on equal unfoldings,
   antisymmetric, transitive.  Needed for canonicity: sort_by_key(prime) puts the elements of a
   node in an order that depends on the set of elements only. *)
From Coq Require Import Bool NArith List Lia Arith.
Import ListNotations.
From RsddV Require Import Base.Bdd Model.SddVtree Model.SddOps Proofs.SddBase.

Lemma thenc_eq c d : thenc c d = Eq <-> c = Eq /\ d = Eq.
Proof. destruct c, d; simpl; split; intros; try tauto; try discriminate; destruct H; discriminate. Qed.
Lemma thenc_lt c d : thenc c d = Lt <-> c = Lt \/ (c = Eq /\ d = Lt).
Proof. destruct c, d; simpl; split; intros H; try tauto; try discriminate; destruct H as [H|[H1 H2]]; discriminate. Qed.
Lemma thenc_opp c d : CompOpp (thenc c d) = thenc (CompOpp c) (CompOpp d).
Proof. destruct c; reflexivity. Qed.

Lemma bool_cmp_eq a b : bool_cmp a b = Eq -> a = b.
Proof. destruct a, b; simpl; congruence. Qed.
Lemma bool_cmp_opp a b : bool_cmp b a = CompOpp (bool_cmp a b).
Proof. destruct a, b; reflexivity. Qed.
Lemma bool_cmp_trans a b c : bool_cmp a b = Lt -> bool_cmp b c = Lt -> bool_cmp a c = Lt.
Proof. destruct a, b, c; simpl; congruence. Qed.

(* lexicographic step: the first components are compared by [c1 c2 c3] (x~y, y~z, x~z) *)
Lemma lex_trans c1 c2 c3 d1 d2 d3 :
  (c1 = Lt -> c2 = Lt -> c3 = Lt) -> (c1 = Eq -> c3 = c2) -> (c2 = Eq -> c3 = c1) ->
  (c1 = Eq -> c2 = Eq -> d1 = Lt -> d2 = Lt -> d3 = Lt) ->
  thenc c1 d1 = Lt -> thenc c2 d2 = Lt -> thenc c3 d3 = Lt.
Proof.
  intros T E1 E2 D H1 H2. apply thenc_lt in H1, H2. apply thenc_lt.
  destruct H1 as [H1|[H1 H1']]; destruct H2 as [H2|[H2 H2']].
  - left. auto.
  - left. rewrite (E2 H2). exact H1.
  - left. rewrite (E1 H1). exact H2.
  - right. split; [rewrite (E1 H1); exact H2 | auto].
Qed.

(* the list comparison inside sdd_cmp, as a function of its own *)
Fixpoint lex_cmp (l l' : list elem) : comparison :=
  match l, l' with
  | [], [] => Eq
  | [], _ :: _ => Lt
  | _ :: _, [] => Gt
  | (p1, s1) :: r, (p2, s2) :: r' => thenc (sdd_cmp p1 p2) (thenc (sdd_cmp s1 s2) (lex_cmp r r'))
  end.
Lemma sdd_cmp_or c i els c' i' els' :
  sdd_cmp (SOr c i els) (SOr c' i' els') =
  match Nat.compare (tag (SOr c i els)) (tag (SOr c' i' els')) with
  | Eq => thenc (Nat.compare i i') (lex_cmp els els')
  | x => x
  end.
Proof. reflexivity. Qed.

Lemma tag_eq_cases p q : tag p = tag q ->
  (p = ST /\ q = ST) \/ (p = SF /\ q = SF) \/ (exists v b v' b', p = SVar v b /\ q = SVar v' b') \/
  (exists c l i lo hi l' i' lo' hi', p = SBdd c l i lo hi /\ q = SBdd c l' i' lo' hi') \/
  (exists c i els i' els', p = SOr c i els /\ q = SOr c i' els').
Proof.
  destruct p as [| |v b|[|] l i lo hi|[|] i els]; destruct q as [| |v' b'|[|] l' i' lo' hi'|[|] i' els']; simpl; intros H;
    try discriminate; eauto 20.
Qed.

Lemma sdd_cmp_tag p q : Nat.compare (tag p) (tag q) <> Eq -> sdd_cmp p q = Nat.compare (tag p) (tag q).
Proof.
  destruct p as [| |? ?|[|] ? ? ? ?|[|] ? ?]; destruct q as [| |? ?|[|] ? ? ? ?|[|] ? ?]; simpl; intros H;
    try reflexivity; exfalso; apply H; reflexivity.
Qed.
Lemma cmp_eq_tag p q : sdd_cmp p q = Eq -> tag p = tag q.
Proof.
  intros H. destruct (Nat.compare (tag p) (tag q)) eqn:E; [apply Nat.compare_eq; exact E| |];
    rewrite sdd_cmp_tag in H by congruence; congruence.
Qed.

(* ---- Eq only on equal unfoldings ---- *)
Lemma sdd_cmp_eq : forall p q, sdd_cmp p q = Eq -> p = q.
Proof.
  induction p as [| |v b|c l i lo hi IHlo IHhi|c i els IH] using sdd_ind'; intros q H;
    pose proof (cmp_eq_tag _ _ H) as Ht.
  - destruct q; simpl in Ht; try discriminate; try (destruct c; discriminate). reflexivity.
  - destruct q; simpl in Ht; try discriminate; try (destruct c; discriminate). reflexivity.
  - destruct q as [| |v' b'|c' ? ? ? ?|c' ? ?]; simpl in Ht; try discriminate; try (destruct c'; discriminate).
    simpl in H. apply thenc_eq in H. destruct H as [H1 H2]. apply N.compare_eq in H1. apply bool_cmp_eq in H2. congruence.
  - destruct q as [| |v' b'|c' l' i' lo' hi'|c' ? ?]; try (destruct c; simpl in Ht; discriminate); try (destruct c, c'; simpl in Ht; discriminate).
    assert (c = c') by (destruct c, c'; simpl in Ht; congruence). subst c'.
    assert (H' : thenc (N.compare l l') (thenc (Nat.compare i i') (thenc (sdd_cmp lo lo') (sdd_cmp hi hi'))) = Eq).
    { destruct c; simpl in H; exact H. }
    apply thenc_eq in H'. destruct H' as [H1 H']. apply thenc_eq in H'. destruct H' as [H2 H']. apply thenc_eq in H'. destruct H' as [H3 H4].
    apply N.compare_eq in H1. apply Nat.compare_eq in H2. apply IHlo in H3. apply IHhi in H4. congruence.
  - destruct q as [| |v' b'|c' ? ? ? ?|c' i' els']; try (destruct c; simpl in Ht; discriminate); try (destruct c, c'; simpl in Ht; discriminate).
    assert (c = c') by (destruct c, c'; simpl in Ht; congruence). subst c'.
    rewrite sdd_cmp_or in H. assert (H' : thenc (Nat.compare i i') (lex_cmp els els') = Eq) by (destruct c; simpl in H; exact H).
    apply thenc_eq in H'. destruct H' as [H1 H2]. apply Nat.compare_eq in H1. subst i'. f_equal.
    clear -IH H2. revert els' H2. induction els as [|[p s] r IHr]; intros [|[p' s'] r'] H; simpl in H; try discriminate; auto.
    inversion IH as [|? ? [Ip Is] IH']; subst. simpl in *.
    apply thenc_eq in H. destruct H as [H1 H]. apply thenc_eq in H. destruct H as [H2 H3].
    apply Ip in H1. apply Is in H2. apply (IHr IH') in H3. congruence.
Qed.

Lemma sdd_cmp_refl p : sdd_cmp p p = Eq.
Proof.
  induction p as [| |v b|c l i lo hi IHlo IHhi|c i els IH] using sdd_ind'; try reflexivity.
  - simpl. rewrite N.compare_refl. destruct b; reflexivity.
  - destruct c; simpl; rewrite N.compare_refl, Nat.compare_refl, IHlo, IHhi; reflexivity.
  - rewrite sdd_cmp_or.
    assert (E : lex_cmp els els = Eq).
    { induction els as [|[p s] r IHr]; auto. inversion IH as [|? ? [Ip Is] IH']; subst. simpl in *. rewrite Ip, Is. simpl. auto. }
    rewrite !Nat.compare_refl, E. reflexivity.
Qed.

(* ---- antisymmetry ---- *)
Lemma sdd_cmp_opp : forall p q, sdd_cmp q p = CompOpp (sdd_cmp p q).
Proof.
  induction p as [| |v b|c l i lo hi IHlo IHhi|c i els IH] using sdd_ind'; intros q.
  - destruct q as [| |? ?|[|] ? ? ? ?|[|] ? ?]; reflexivity.
  - destruct q as [| |? ?|[|] ? ? ? ?|[|] ? ?]; reflexivity.
  - destruct q as [| |v' b'|[|] ? ? ? ?|[|] ? ?]; try reflexivity.
    simpl. rewrite thenc_opp, <- N.compare_antisym, <- bool_cmp_opp. reflexivity.
  - destruct q as [| |v' b'|c' l' i' lo' hi'|[|] ? ?]; try (destruct c; reflexivity).
    destruct c, c'; try reflexivity; simpl;
      rewrite !thenc_opp, <- N.compare_antisym, <- Nat.compare_antisym, <- IHlo, <- IHhi; reflexivity.
  - destruct q as [| |v' b'|[|] ? ? ? ?|c' i' els']; try (destruct c; reflexivity).
    assert (E : lex_cmp els' els = CompOpp (lex_cmp els els')).
    { clear -IH. revert els'. induction els as [|[p s] r IHr]; intros [|[p' s'] r']; try reflexivity.
      inversion IH as [|? ? [Ip Is] IH']; subst. simpl in *.
      rewrite !thenc_opp, <- Ip, <- Is, <- (IHr IH'). reflexivity. }
    rewrite !sdd_cmp_or. destruct c, c'; try reflexivity; simpl;
      rewrite thenc_opp, <- Nat.compare_antisym, <- E; reflexivity.
Qed.

(* ---- transitivity ---- *)
Lemma nat_cmp_lex i j k : (Nat.compare i j = Lt -> Nat.compare j k = Lt -> Nat.compare i k = Lt) /\
  (Nat.compare i j = Eq -> Nat.compare i k = Nat.compare j k) /\ (Nat.compare j k = Eq -> Nat.compare i k = Nat.compare i j).
Proof.
  repeat split.
  - rewrite !Nat.compare_lt_iff. lia.
  - intros H. apply Nat.compare_eq in H. subst. reflexivity.
  - intros H. apply Nat.compare_eq in H. subst. reflexivity.
Qed.
Lemma n_cmp_lex i j k : (N.compare i j = Lt -> N.compare j k = Lt -> N.compare i k = Lt) /\
  (N.compare i j = Eq -> N.compare i k = N.compare j k) /\ (N.compare j k = Eq -> N.compare i k = N.compare i j).
Proof.
  repeat split.
  - rewrite !N.compare_lt_iff. lia.
  - intros H. apply N.compare_eq in H. subst. reflexivity.
  - intros H. apply N.compare_eq in H. subst. reflexivity.
Qed.
Lemma sdd_cmp_eq_l p q r : sdd_cmp p q = Eq -> sdd_cmp p r = sdd_cmp q r.
Proof. intros H. apply sdd_cmp_eq in H. subst. reflexivity. Qed.
Lemma sdd_cmp_eq_r p q r : sdd_cmp q r = Eq -> sdd_cmp p r = sdd_cmp p q.
Proof. intros H. apply sdd_cmp_eq in H. subst. reflexivity. Qed.

Lemma tag_lt_cmp p q : tag p < tag q -> sdd_cmp p q = Lt.
Proof. intros H. apply Nat.compare_lt_iff in H. rewrite sdd_cmp_tag; congruence. Qed.
Lemma cmp_lt_tag p q : sdd_cmp p q = Lt -> tag p <= tag q.
Proof.
  intros H. destruct (Nat.compare (tag p) (tag q)) eqn:E.
  - apply Nat.compare_eq in E. lia.
  - apply Nat.compare_lt_iff in E. lia.
  - rewrite sdd_cmp_tag in H by congruence. congruence.
Qed.

Lemma sdd_cmp_trans : forall p q r, sdd_cmp p q = Lt -> sdd_cmp q r = Lt -> sdd_cmp p r = Lt.
Proof.
  induction p as [| |v b|c l i lo hi IHlo IHhi|c i els IH] using sdd_ind'; intros q r H1 H2;
    pose proof (cmp_lt_tag _ _ H1) as T1; pose proof (cmp_lt_tag _ _ H2) as T2;
    match goal with |- sdd_cmp ?P r = Lt =>
      destruct (Nat.eq_dec (tag P) (tag r)) as [Te|Tn]; [|apply tag_lt_cmp; lia] end;
    assert (Tq : tag q = tag r) by lia; rewrite <- Tq in Te.
  - destruct (tag_eq_cases _ _ Te) as [[_ ->]|[[? _]|[(?&?&?&?&?&_)|[(?&?&?&?&?&?&?&?&?&?&_)|(?&?&?&?&?&?&_)]]]]; try discriminate.
  - destruct (tag_eq_cases _ _ Te) as [[? _]|[[_ ->]|[(?&?&?&?&?&_)|[(?&?&?&?&?&?&?&?&?&?&_)|(?&?&?&?&?&?&_)]]]]; try discriminate.
  - destruct (tag_eq_cases _ _ Te) as [[? _]|[[? _]|[(v0&b0&v'&b'&E&->)|[(?&?&?&?&?&?&?&?&?&?&_)|(?&?&?&?&?&?&_)]]]]; try discriminate.
    destruct (tag_eq_cases _ _ Tq) as [[? _]|[[? _]|[(?&?&v''&b''&E'&->)|[(?&?&?&?&?&?&?&?&?&?&_)|(?&?&?&?&?&?&_)]]]]; try discriminate.
    simpl in *. destruct (n_cmp_lex v v' v'') as (A & B & C).
    refine (lex_trans _ _ _ _ _ _ A B C _ H1 H2). intros _ _. apply bool_cmp_trans.
  - destruct (tag_eq_cases _ _ Te) as [[? _]|[[? _]|[(?&?&?&?&?&_)|[(c0&l0&i0&lo0&hi0&l'&i'&lo'&hi'&E&->)|(?&?&?&?&?&?&_)]]]]; try discriminate.
    injection E as <- <- <- <- <-.
    destruct (tag_eq_cases _ _ Tq) as [[? _]|[[? _]|[(?&?&?&?&?&_)|[(c1&?&?&?&?&l''&i''&lo''&hi''&E'&->)|(?&?&?&?&?&?&_)]]]]; try discriminate.
    injection E' as <- _ _ _ _.
    assert (G : forall x y, sdd_cmp (SBdd c l i lo hi) (SBdd c x y lo' hi') = sdd_cmp (SBdd c l i lo hi) (SBdd c x y lo' hi')) by reflexivity.
    assert (U : forall la ia loa hia lb ib lob hib, sdd_cmp (SBdd c la ia loa hia) (SBdd c lb ib lob hib) =
              thenc (N.compare la lb) (thenc (Nat.compare ia ib) (thenc (sdd_cmp loa lob) (sdd_cmp hia hib)))) by (intros; destruct c; reflexivity).
    rewrite U in *.
    destruct (n_cmp_lex l l' l'') as (A1 & B1 & C1). destruct (nat_cmp_lex i i' i'') as (A2 & B2 & C2).
    refine (lex_trans _ _ _ _ _ _ A1 B1 C1 _ H1 H2). intros _ _ K1 K2.
    refine (lex_trans _ _ _ _ _ _ A2 B2 C2 _ K1 K2). intros _ _ K3 K4.
    refine (lex_trans _ _ _ _ _ _ (IHlo lo' lo'') (sdd_cmp_eq_l _ _ _) (sdd_cmp_eq_r _ _ _) _ K3 K4). intros _ _. apply IHhi.
  - destruct (tag_eq_cases _ _ Te) as [[? _]|[[? _]|[(?&?&?&?&?&_)|[(?&?&?&?&?&?&?&?&?&?&_)|(c0&i0&els0&i'&els'&E&->)]]]]; try discriminate.
    injection E as <- <- <-.
    destruct (tag_eq_cases _ _ Tq) as [[? _]|[[? _]|[(?&?&?&?&?&_)|[(?&?&?&?&?&?&?&?&?&?&_)|(c1&?&?&i''&els''&E'&->)]]]]; try discriminate.
    injection E' as <- _ _.
    assert (U : forall ia ea ib eb, sdd_cmp (SOr c ia ea) (SOr c ib eb) = thenc (Nat.compare ia ib) (lex_cmp ea eb))
      by (intros; rewrite sdd_cmp_or; destruct c; reflexivity).
    rewrite U in *.
    destruct (nat_cmp_lex i i' i'') as (A2 & B2 & C2).
    refine (lex_trans _ _ _ _ _ _ A2 B2 C2 _ H1 H2). intros _ _.
    clear -IH. revert els' els''. induction els as [|[p s] rest IHr]; intros [|[p' s'] r'] [|[p'' s''] r'']; simpl; try discriminate; auto.
    inversion IH as [|? ? [Ip Is] IH']; subst. simpl in *.
    intros K1 K2. eapply lex_trans; [apply Ip | apply sdd_cmp_eq_l | apply sdd_cmp_eq_r | | exact K1 | exact K2].
    intros _ _ K3 K4. eapply lex_trans; [apply Is | apply sdd_cmp_eq_l | apply sdd_cmp_eq_r | | exact K3 | exact K4].
    intros _ _. apply (IHr IH').
Qed.

(* ---- sort_by_key(prime): the sorted vector only depends on the set of elements ---- *)
From Coq Require Import Sorting.Sorted Permutation.

Definition le_el (e1 e2 : elem) : Prop := sdd_cmp (fst e1) (fst e2) <> Gt.
Definition sorted_els (l : list elem) : Prop := StronglySorted le_el l.

Lemma le_el_trans a b c : le_el a b -> le_el b c -> le_el a c.
Proof.
  unfold le_el. intros H1 H2.
  destruct (sdd_cmp (fst a) (fst b)) eqn:E1; try congruence;
  destruct (sdd_cmp (fst b) (fst c)) eqn:E2; try congruence.
  - apply sdd_cmp_eq in E1. rewrite E1, E2. discriminate.
  - apply sdd_cmp_eq in E1. rewrite E1, E2. discriminate.
  - apply sdd_cmp_eq in E2. rewrite <- E2, E1. discriminate.
  - rewrite (sdd_cmp_trans _ _ _ E1 E2). discriminate.
Qed.

Lemma insert_el_sorted x l : sorted_els l -> sorted_els (insert_el x l).
Proof.
  induction 1 as [|e r Hr IH He]; simpl.
  - constructor; constructor.
  - destruct (sdd_cmp (fst x) (fst e)) eqn:E.
    + constructor; [constructor; auto|]. constructor; [unfold le_el; congruence|].
      eapply Forall_impl; [|exact He]. intros y Hy. eapply le_el_trans; [|exact Hy]. unfold le_el. congruence.
    + constructor; [constructor; auto|]. constructor; [unfold le_el; congruence|].
      eapply Forall_impl; [|exact He]. intros y Hy. eapply le_el_trans; [|exact Hy]. unfold le_el. congruence.
    + constructor; auto.
      assert (Hex : le_el e x) by (unfold le_el; rewrite sdd_cmp_opp, E; discriminate).
      assert (P : Permutation (insert_el x r) (x :: r)) by apply insert_el_perm.
      rewrite Forall_forall. intros y Hy. apply (Permutation_in _ P) in Hy. destruct Hy as [<-|Hy]; auto.
      rewrite Forall_forall in He. auto.
Qed.

Lemma sort_els_sorted l : sorted_els (sort_els l).
Proof. induction l as [|x r IH]; simpl; [constructor | apply insert_el_sorted; exact IH]. Qed.

Lemma sorted_map_snd (f : sdd -> sdd) l : sorted_els l -> sorted_els (map (fun e => (fst e, f (snd e))) l).
Proof.
  induction 1 as [|e r Hr IH He]; simpl; constructor; auto.
  rewrite Forall_map. eapply Forall_impl; [|exact He]. intros y Hy. exact Hy.
Qed.

(* two sorted vectors with the same elements and pairwise distinct primes are equal *)
Lemma sorted_unique : forall X Y, Permutation X Y -> sorted_els X -> sorted_els Y ->
  NoDup (map fst X) -> X = Y.
Proof.
  induction X as [|x X' IH]; intros Y P SX SY ND.
  - apply Permutation_nil in P. subst. reflexivity.
  - destruct Y as [|y Y']; [apply Permutation_sym, Permutation_nil in P; discriminate|].
    inversion SX as [|? ? SX' HX]; subst. inversion SY as [|? ? SY' HY]; subst.
    assert (x = y).
    { assert (Hy : In y (x :: X')) by (apply (Permutation_in _ (Permutation_sym P)); left; reflexivity).
      assert (Hx : In x (y :: Y')) by (apply (Permutation_in _ P); left; reflexivity).
      destruct Hy as [->|Hy]; [reflexivity|]. destruct Hx as [->|Hx]; [reflexivity|].
      rewrite Forall_forall in HX, HY. specialize (HX _ Hy). specialize (HY _ Hx). unfold le_el in *.
      assert (E : sdd_cmp (fst x) (fst y) = Eq).
      { destruct (sdd_cmp (fst x) (fst y)) eqn:E; auto; [|congruence]. rewrite sdd_cmp_opp, E in HY. simpl in HY. congruence. }
      apply sdd_cmp_eq in E. simpl in ND. inversion ND as [|? ? Hn _]; subst. exfalso. apply Hn. rewrite E. apply in_map. exact Hy. }
    subst y. f_equal. apply IH; auto.
    + eapply Permutation_cons_inv; eauto.
    + simpl in ND. inversion ND; auto.
Qed.
