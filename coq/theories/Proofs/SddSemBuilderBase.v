(* C11 -- SemanticSddBuilder, basic layer:
   * a Hoare-style specification [sp] for the state + ghost-writer monad of Model/SddSemBuilder.v,
     relative to a predicate on the ghost events of the computation;
   * arithmetic of the hash in Z/P: range, negate is an involution, hash (neg p) = negate (hash p)
     for EVERY pointer (by construction of cached_semantic_hash);
   * semantic dependency [dep V p] (p's function ignores every variable outside V) and the
     SEMANTIC builder invariant [swf t p]: constants; literals of the vtree; decision nodes
     normalised for an internal vtree node (VNode l r) whose primes form a partition, whose
     primes depend only on the variables of l and whose subs only on those of r.  Unlike
     [under] (Proofs/SddInv.v) nothing is said about WHERE primes and subs are normalised: a
     hash-identified store returns the first node created with a function, which may sit at a
     higher vtree node than the one asked for;
   * vtree facts: the lowest common ancestor of two sub-vtree roots, located. *)
From Coq Require Import Bool NArith List Lia Arith Permutation.
Import ListNotations.
From RsddV Require Import Base.Bdd Base.Util Model.SddVtree Model.SddOps Model.Semirings Model.SemHash
  Model.SddSemBuilder.
From RsddV Require Import Proofs.Semirings Proofs.Wmc Proofs.SemHash Proofs.SemHashSdd Proofs.SddBase Proofs.SddVtree
  Proofs.SddWmc.

(* ===================================================================================== *)
(* specifications                                                                          *)
Section Spec.
Variable evok : ev -> Prop.

Definition logok (l : list ev) : Prop := Forall evok l.

(* if the computation returns and all its events are admissible, the postcondition holds *)
Definition sp {A} (m : M A) (st : sst) (Q : A -> sst -> Prop) : Prop :=
  forall x st' l, m st = Ok (x, st', l) -> logok l -> Q x st'.

Lemma sp_ret {A} (x : A) st (Q : A -> sst -> Prop) : Q x st -> sp (ret x) st Q.
Proof. intros H y st' l E _. injection E as <- <- <-. exact H. Qed.

Lemma sp_bnd {A B} (m : M A) (f : A -> M B) st (Q : B -> sst -> Prop) :
  sp m st (fun x s1 => sp (f x) s1 Q) -> sp (bnd m f) st Q.
Proof.
  intros H y st' l E L. unfold bnd in E.
  destruct (m st) as [[[x s1] l1]| |] eqn:E1; try discriminate.
  destruct (f x s1) as [[[y' s2] l2]| |] eqn:E2; try discriminate.
  injection E as Ey Es El. subst y st' l. apply Forall_app in L. destruct L as [L1 L2].
  exact (H x s1 l1 E1 L1 y' s2 l2 E2 L2).
Qed.

Lemma sp_mono {A} (m : M A) st (Q Q' : A -> sst -> Prop) :
  sp m st Q -> (forall x s, Q x s -> Q' x s) -> sp m st Q'.
Proof. intros H I x st' l E L. apply I. exact (H x st' l E L). Qed.

Lemma sp_panic {A} st (Q : A -> sst -> Prop) : sp panic st Q.
Proof. intros x st' l E. discriminate. Qed.
Lemma sp_oof {A} st (Q : A -> sst -> Prop) : sp out_of_fuel st Q.
Proof. intros x st' l E. discriminate. Qed.

(* sequencing with a known specification of the first computation *)
Lemma sp_seq {A B} (m : M A) (f : A -> M B) st (R : A -> sst -> Prop) (Q : B -> sst -> Prop) :
  sp m st R -> (forall x s1, R x s1 -> sp (f x) s1 Q) -> sp (bnd m f) st Q.
Proof. intros H1 H2. apply sp_bnd. eapply sp_mono; [exact H1|]. exact H2. Qed.

Lemma sp_andM (a b : M bool) st (Ra Rb : Prop) :
  sp a st (fun x s => s = st /\ (x = true -> Ra)) ->
  sp b st (fun x s => s = st /\ (x = true -> Rb)) ->
  sp (andM a b) st (fun x s => s = st /\ (x = true -> Ra /\ Rb)).
Proof.
  intros Ha Hb. unfold andM. eapply sp_seq; [exact Ha|]. intros x s1 [-> Hx]. destruct x.
  - eapply sp_mono; [exact Hb|]. intros y s [-> Hy]. split; auto.
  - apply sp_ret. split; auto. discriminate.
Qed.

Lemma sp_orM (a b : M bool) st :
  sp a st (fun _ s => s = st) -> sp b st (fun _ s => s = st) -> sp (orM a b) st (fun _ s => s = st).
Proof.
  intros Ha Hb. unfold orM. eapply sp_seq; [exact Ha|]. intros x s1 ->. destruct x; [apply sp_ret; reflexivity | exact Hb].
Qed.
End Spec.

(* ===================================================================================== *)
(* the hash in Z/P                                                                         *)
Section HashArith.
Variable P : N.
Hypothesis OK : ff_ok P.
Variable w : wmap.
Hypothesis WR : wrange P w.

Local Open Scope N_scope.

Let HP : 1 < P. Proof. destruct OK; assumption. Qed.

Notation shash := (shash P w).
Notation negP := (negP P).

Lemma swl_wl v : swl w v = wl w v. Proof. reflexivity. Qed.
Lemma swh_wh v : swh w v = wh w v. Proof. reflexivity. Qed.

Lemma swl_lt v : swl w v < P. Proof. apply (wrange_total P w HP WR v). Qed.
Lemma swh_lt v : swh w v < P. Proof. apply (wrange_total P w HP WR v). Qed.

Lemma negP_lt h : negP h < P.
Proof. unfold SddSemBuilder.negP. apply N.mod_lt. lia. Qed.

Lemma negP_zp h : negP h = zp_sub P 1 h. Proof. reflexivity. Qed.

Lemma negP_invol h : h < P -> negP (negP h) = h.
Proof.
  intros Hh. unfold SddSemBuilder.negP.
  destruct (N.eq_dec h 0) as [->|H0].
  - replace (1 + P - 0) with (1 + 1 * P) by lia. rewrite N.mod_add by lia. rewrite (N.mod_small 1) by lia.
    replace (1 + P - 1) with (0 + 1 * P) by lia. rewrite N.mod_add by lia. apply N.mod_small. lia.
  - destruct (N.eq_dec h 1) as [->|H1].
    + replace (1 + P - 1) with (0 + 1 * P) by lia. rewrite N.mod_add by lia. rewrite (N.mod_small 0) by lia.
      replace (1 + P - 0) with (1 + 1 * P) by lia. rewrite N.mod_add by lia. apply N.mod_small. lia.
    + rewrite (N.mod_small (1 + P - h)) by lia.
      replace (1 + P - (1 + P - h)) with h by lia. apply N.mod_small. exact Hh.
Qed.

Lemma cneg_lt c h : h < P -> cneg P c h < P.
Proof. destruct c; simpl; auto using negP_lt. Qed.

Lemma shash_lt p : shash p < P.
Proof.
  destruct p as [| |v b|c l i lo hi|c i els]; cbn [SddSemBuilder.shash].
  - apply N.mod_lt. lia.
  - apply N.mod_lt. lia.
  - destruct b; [apply swh_lt | apply swl_lt].
  - apply cneg_lt. apply N.mod_lt. lia.
  - apply cneg_lt. apply N.mod_lt. lia.
Qed.

Lemma shash_ST : shash ST = 1. Proof. cbn [SddSemBuilder.shash]. apply N.mod_small. exact HP. Qed.
Lemma shash_SF : shash SF = 0. Proof. cbn [SddSemBuilder.shash]. apply N.mod_small. lia. Qed.

Lemma negP_1 : negP 1 = 0.
Proof. unfold SddSemBuilder.negP. replace (1 + P - 1) with (0 + 1 * P) by lia. rewrite N.mod_add by lia. apply N.mod_small. lia. Qed.
Lemma negP_0 : negP 0 = 1.
Proof. unfold SddSemBuilder.negP. replace (1 + P - 0) with (1 + 1 * P) by lia. rewrite N.mod_add by lia. apply N.mod_small. lia. Qed.

Lemma swl_negP v : swl w v = negP (swh w v).
Proof.
  rewrite negP_zp. destruct (wrange_total P w HP WR v) as (A & B & C).
  apply (one_minus_unique P OK); assumption.
Qed.
Lemma swh_negP v : swh w v = negP (swl w v).
Proof. rewrite swl_negP, negP_invol; [reflexivity | apply swh_lt]. Qed.

(* hash (neg p) = negate (hash p): every pointer, no invariant *)
Lemma shash_sneg p : shash (sneg p) = negP (shash p).
Proof.
  destruct p as [| |v b|c l i lo hi|c i els].
  - change (sneg ST) with SF. rewrite shash_ST, shash_SF, negP_1. reflexivity.
  - change (sneg SF) with ST. rewrite shash_ST, shash_SF, negP_0. reflexivity.
  - destruct b; cbn [sneg negb SddSemBuilder.shash]; [apply swl_negP | apply swh_negP].
  - cbn [sneg SddSemBuilder.shash]. destruct c; cbn [negb cneg]; [|reflexivity].
    rewrite negP_invol; [reflexivity | apply N.mod_lt; lia].
  - cbn [sneg SddSemBuilder.shash]. destruct c; cbn [negb cneg]; [|reflexivity].
    rewrite negP_invol; [reflexivity | apply N.mod_lt; lia].
Qed.

Lemma app_key_consts : app_key P shash ST ST = 1 /\ app_key P shash SF SF = 0.
Proof.
  unfold app_key, mulP. rewrite shash_ST, shash_SF. split; apply N.mod_small; lia.
Qed.
End HashArith.

(* ===================================================================================== *)
(* semantic dependency                                                                     *)
Definition dep (V : list var) (p : sdd) : Prop := forall v, ~ In v V -> ignores (sden p) v.

Lemma upd_upd_same (a : asg) v b b' x : upd (upd a v b) v b' x = upd a v b' x.
Proof. unfold upd. destruct (N.eqb x v); reflexivity. Qed.
Lemma upd_upd_comm (a : asg) u v b b' x : u <> v -> upd (upd a u b) v b' x = upd (upd a v b') u b x.
Proof. intros H. unfold upd. destruct (N.eqb_spec x v), (N.eqb_spec x u); try reflexivity. congruence. Qed.

Lemma dep_feq V p q : (forall a, sden p a = sden q a) -> dep V p -> dep V q.
Proof. intros E H v Hv a b. rewrite <- !E. apply (H v Hv). Qed.
Lemma dep_sneg V p : dep V p -> dep V (sneg p).
Proof. intros H v Hv a b. rewrite !sden_sneg. f_equal. apply (H v Hv). Qed.
Lemma dep_adj V c p : dep V p -> dep V (adj c p).
Proof. destruct c; simpl; auto using dep_sneg. Qed.
Lemma dep_incl V V' p : incl V V' -> dep V p -> dep V' p.
Proof. intros I H v Hv. apply H. intros Hin. apply Hv. apply I. exact Hin. Qed.
Lemma dep_const V p : s_is_const p = true -> dep V p.
Proof. destruct p; try discriminate; intros _ v _ a b; reflexivity. Qed.
Lemma dep_var V v pol : In v V -> dep V (SVar v pol).
Proof.
  intros Hin u Hu a b. simpl. unfold upd. destruct (N.eqb_spec v u) as [->|]; [contradiction|reflexivity].
Qed.
Lemma dep_var_inv V v pol : dep V (SVar v pol) -> In v V.
Proof.
  intros H. destruct (in_dec N.eq_dec v V) as [Hin|Hn]; [exact Hin|exfalso].
  specialize (H v Hn (fun _ => pol) (negb pol)). simpl in H. unfold upd in H. rewrite N.eqb_refl in H.
  destruct pol; discriminate.
Qed.
Lemma dep_and V r x y : (forall a, sden r a = sden x a && sden y a) -> dep V x -> dep V y -> dep V r.
Proof. intros E Hx Hy v Hv a b. rewrite !E. f_equal; [apply (Hx v Hv) | apply (Hy v Hv)]. Qed.
(* fixing a variable *)
Lemma dep_cond V r x lbl value : (forall a, sden r a = sden x (upd a lbl value)) -> dep V x -> dep V r.
Proof.
  intros E Hx v Hv a b. rewrite !E. destruct (N.eq_dec v lbl) as [->|Hn].
  - apply sden_ext. intros u. apply upd_upd_same.
  - transitivity (sden x (upd (upd a lbl value) v b)).
    + apply sden_ext. intros u. apply upd_upd_comm. exact Hn.
    + apply (Hx v Hv).
Qed.

Lemma ignores_den_els els v : Forall (fun e : elem => ignores (sden (fst e)) v /\ ignores (sden (snd e)) v) els ->
  ignores (den_els els) v.
Proof.
  intros H a b. induction H as [|[p s] r [Hp Hs] _ IH]; [reflexivity|].
  rewrite !den_els_cons. cbn [fst snd] in *. rewrite Hp, Hs, IH. reflexivity.
Qed.

(* ===================================================================================== *)
(* the semantic invariant                                                                  *)
Definition ridx (u : vtree) (off : nat) : nat := match u with VLeaf _ => off | VNode l _ => off + vsize l end.

Section Swf.
Variable t : vtree.

Definition eok (l r : vtree) (swf : sdd -> Prop) (e : elem) : Prop :=
  swf (fst e) /\ swf (snd e) /\ dep (vleaves l) (fst e) /\ dep (vleaves r) (snd e).

Inductive swf : sdd -> Prop :=
| W_T : swf ST
| W_F : swf SF
| W_Var v pol : In v (vleaves t) -> swf (SVar v pol)
| W_Bdd l r off c lbl lo hi :
    occurs t 0 (VNode l r) off -> In lbl (vleaves l) -> swf lo -> swf hi ->
    dep (vleaves r) lo -> dep (vleaves r) hi ->
    swf (SBdd c lbl (off + vsize l) lo hi)
| W_Or l r off c els :
    occurs t 0 (VNode l r) off -> Forall (eok l r swf) els -> part els ->
    swf (SOr c (off + vsize l) els).

Definition sokl (l r : vtree) (els : list elem) : Prop := Forall (eok l r swf) els.

Lemma sokl_cons l r p s els : sokl l r ((p, s) :: els) <->
  swf p /\ swf s /\ dep (vleaves l) p /\ dep (vleaves r) s /\ sokl l r els.
Proof.
  unfold sokl. split.
  - intros H. inversion H as [|? ? (A & B & C & D) E]; subst. auto 6.
  - intros (A & B & C & D & E). constructor; [repeat split; assumption | exact E].
Qed.
Lemma sokl_app l r l1 l2 : sokl l r (l1 ++ l2) <-> sokl l r l1 /\ sokl l r l2.
Proof. apply Forall_app. Qed.
Lemma sokl_perm l r l1 l2 : Permutation l1 l2 -> sokl l r l1 -> sokl l r l2.
Proof. intros Pm H. unfold sokl. rewrite <- Pm. exact H. Qed.
Lemma sokl_in l r els p s : sokl l r els -> In (p, s) els ->
  swf p /\ swf s /\ dep (vleaves l) p /\ dep (vleaves r) s.
Proof. intros H Hin. unfold sokl in H. rewrite Forall_forall in H. apply (H (p, s) Hin). Qed.

Lemma swf_sneg p : swf p -> swf (sneg p).
Proof. intros H. inversion H; subst; simpl; econstructor; eauto. Qed.
Lemma swf_adj c p : swf p -> swf (adj c p).
Proof. destruct c; simpl; auto using swf_sneg. Qed.
Lemma swf_const p : s_is_const p = true -> swf p.
Proof. destruct p; try discriminate; constructor. Qed.

Lemma sokl_adjsubs l r c els : sokl l r els -> sokl l r (adjsubs c els).
Proof.
  intros H. unfold sokl, adjsubs. rewrite Forall_map. eapply Forall_impl; [|exact H].
  intros [p s] (A & B & C & D). repeat split; cbn [fst snd]; auto using swf_adj, dep_adj.
Qed.

(* the element view of a decision node: what node_iter + "if r.is_neg() { s.neg() }" yields *)
Lemma swf_view p els : swf p -> adj_elems p = Some els ->
  exists l r off, occurs t 0 (VNode l r) off /\ vidx t p = off + vsize l /\
    sokl l r els /\ part els /\ forall a, sden p a = den_els els a.
Proof.
  intros H E. inversion H as [| |v pol Hv|l r off c lbl lo hi Ho Hl Wlo Whi Dlo Dhi|l r off c els0 Ho Hok Hp]; subst;
    try discriminate.
  - unfold adj_elems in E. cbn [elems map s_is_neg fst snd] in E. injection E as <-.
    exists l, r, off. split; [exact Ho|]. split; [reflexivity|]. split; [|split].
    + apply sokl_cons. repeat split; auto using swf_adj, dep_adj.
      * constructor. eapply occurs_leaves; [exact Ho|]. simpl. apply in_or_app. auto.
      * apply dep_var. exact Hl.
      * apply sokl_cons. repeat split; auto using swf_adj, dep_adj; try constructor.
        -- eapply occurs_leaves; [exact Ho|]. simpl. apply in_or_app. auto.
        -- apply dep_var. exact Hl.
    + intros a. unfold cnt. simpl. destruct (a lbl); reflexivity.
    + intros a. unfold den_els. simpl. rewrite !sden_adj.
      destruct c, (a lbl), (sden hi a), (sden lo a); reflexivity.
  - unfold adj_elems in E. cbn [elems] in E. injection E as <-.
    exists l, r, off. split; [exact Ho|]. split; [reflexivity|].
    change (map (fun e : sdd * sdd => (fst e, adj (s_is_neg (SOr c (off + vsize l) els0)) (snd e))) els0)
      with (adjsubs (s_is_neg (SOr c (off + vsize l) els0)) els0).
    split; [apply sokl_adjsubs; exact Hok|]. split.
    + intros a. etransitivity; [apply cnt_adjsubs | apply Hp].
    + intros a. rewrite sden_or. etransitivity; [|symmetry; apply (den_adjsubs _ els0 a (Hp a))].
      destruct c; reflexivity.
Qed.

(* a decision node depends only on the variables below its vtree node *)
Lemma dep_den_els l r els : sokl l r els -> forall v, ~ In v (vleaves l ++ vleaves r) -> ignores (den_els els) v.
Proof.
  intros H v Hv. apply ignores_den_els. unfold sokl in H. eapply Forall_impl; [|exact H].
  intros [p s] (_ & _ & C & D). cbn [fst snd]. split; [apply C | apply D]; intros Hin; apply Hv; apply in_or_app; auto.
Qed.

(* where a non-constant pointer lives: a sub-vtree whose root has the pointer's vtree index and
   whose variables the pointer's function depends on at most *)
Lemma var_index_from_occurs_leaf u : forall toff v i, var_index_from u toff v = Some i -> occurs u toff (VLeaf v) i.
Proof.
  induction u as [x|l IHl r IHr]; intros toff v i H; simpl in H.
  - destruct (N.eqb_spec x v) as [->|]; [|discriminate]. injection H as <-. simpl. auto.
  - simpl. right. destruct (var_index_from l toff v) as [j|] eqn:E.
    + injection H as <-. left. apply IHl. exact E.
    + right. replace (S (toff + vsize l)) with (toff + vsize l + 1) by lia. apply IHr. exact H.
Qed.

Lemma swf_loc p : swf p -> s_is_const p = false ->
  exists u off, occurs t 0 u off /\ ridx u off = vidx t p /\ dep (vleaves u) p.
Proof.
  intros H NC. inversion H as [| |v pol Hv|l r off c lbl lo hi Ho Hl Wlo Whi Dlo Dhi|l r off c els Ho Hok Hp]; subst;
    try discriminate.
  - destruct (proj1 (var_index_from_in t 0 v) Hv) as [i Ei].
    exists (VLeaf v), i. split; [apply var_index_from_occurs_leaf; exact Ei|]. split.
    + simpl. unfold var_index. rewrite Ei. reflexivity.
    + apply dep_var. simpl. auto.
  - exists (VNode l r), off. split; [exact Ho|]. split; [reflexivity|].
    intros v Hv a b. simpl in Hv. simpl.
    assert (Hlv : lbl <> v) by (intros ->; apply Hv; apply in_or_app; auto).
    assert (Hr : ~ In v (vleaves r)) by (intros Hin; apply Hv; apply in_or_app; auto).
    unfold upd at 1. destruct (N.eqb_spec lbl v); [contradiction|].
    rewrite (Dlo v Hr), (Dhi v Hr). reflexivity.
  - exists (VNode l r), off. split; [exact Ho|]. split; [reflexivity|].
    intros v Hv a b. rewrite !sden_or. f_equal. apply (dep_den_els l r els Hok v Hv).
Qed.
End Swf.

(* ===================================================================================== *)
(* vtree: locating the lowest common ancestor                                              *)
Lemma occurs_ridx_range t : forall toff u off, occurs t toff u off -> toff <= ridx u off < toff + vsize t.
Proof.
  intros toff u off H. pose proof (occurs_range t toff u off H) as R.
  destruct u as [v|l r]; simpl in *; [lia|]. pose proof (vsize_pos r). lia.
Qed.

Lemma lca_locate t : forall toff ua offa ub offb,
  occurs t toff ua offa -> occurs t toff ub offb -> ridx ua offa < ridx ub offb ->
  exists l r off, occurs t toff (VNode l r) off /\
    lca_from t toff (ridx ua offa) (ridx ub offb) = off + vsize l /\
    (ridx ua offa = off + vsize l \/ occurs l off ua offa) /\
    (ridx ub offb = off + vsize l \/ occurs r (S (off + vsize l)) ub offb).
Proof.
  induction t as [x|tl IHl tr IHr]; intros toff ua offa ub offb Ha Hb Hlt.
  - simpl in Ha, Hb. destruct Ha as [[<- <-]|[]]. destruct Hb as [[<- <-]|[]]. lia.
  - simpl in Ha, Hb. cbn [lca_from].
    remember (toff + vsize tl) as M eqn:EM in *.
    assert (CA : (ua = VNode tl tr /\ offa = toff) \/ occurs tl toff ua offa \/ occurs tr (S M) ua offa).
    { destruct Ha as [[<- <-]|[H|H]]; auto. }
    assert (CB : (ub = VNode tl tr /\ offb = toff) \/ occurs tl toff ub offb \/ occurs tr (S M) ub offb).
    { destruct Hb as [[<- <-]|[H|H]]; auto. }
    clear Ha Hb.
    assert (RA : forall u off, occurs tl toff u off -> ridx u off < M).
    { intros u off H. pose proof (occurs_ridx_range _ _ _ _ H). lia. }
    assert (RB : forall u off, occurs tr (S M) u off -> M < ridx u off).
    { intros u off H. pose proof (occurs_ridx_range _ _ _ _ H). lia. }
    destruct CA as [[-> ->]|[Ha|Ha]]; destruct CB as [[-> ->]|[Hb|Hb]];
      try (pose proof (RA _ _ Ha)); try (pose proof (RB _ _ Ha));
      try (pose proof (RA _ _ Hb)); try (pose proof (RB _ _ Hb)); cbn [ridx] in *; rewrite <- ?EM in *; try lia.
    + (* a at the root, b right *)
      exists tl, tr, toff. rewrite <- ?EM. split; [apply occurs_refl|].
      destruct (Nat.ltb_spec M M); [lia|]. cbn [andb].
      split; [reflexivity|]. split; [left; reflexivity | right; exact Hb].
    + (* a left, b at the root *)
      exists tl, tr, toff. rewrite <- ?EM. split; [apply occurs_refl|].
      destruct (Nat.ltb_spec (ridx ua offa) M); [|lia].
      destruct (Nat.ltb_spec M M); [lia|]. cbn [andb].
      destruct (Nat.ltb_spec M (ridx ua offa)); [lia|]. cbn [andb].
      split; [reflexivity|]. split; [right; exact Ha | left; reflexivity].
    + (* both left *)
      destruct (Nat.ltb_spec (ridx ua offa) M); [|lia].
      destruct (Nat.ltb_spec (ridx ub offb) M); [|lia]. cbn [andb].
      destruct (IHl toff ua offa ub offb Ha Hb Hlt) as (l & r & off & Ho & E & A & B).
      exists l, r, off. split; [simpl; right; left; exact Ho|]. auto.
    + (* a left, b right *)
      exists tl, tr, toff. rewrite <- ?EM. split; [apply occurs_refl|].
      destruct (Nat.ltb_spec (ridx ua offa) M); [|lia].
      destruct (Nat.ltb_spec (ridx ub offb) M); [lia|]. cbn [andb].
      destruct (Nat.ltb_spec M (ridx ua offa)); [lia|]. cbn [andb].
      split; [reflexivity|]. split; right; assumption.
    + (* both right *)
      destruct (Nat.ltb_spec (ridx ua offa) M); [lia|]. cbn [andb].
      destruct (Nat.ltb_spec M (ridx ua offa)); [|lia].
      destruct (Nat.ltb_spec M (ridx ub offb)); [|lia]. cbn [andb].
      destruct (IHr (S M) ua offa ub offb Ha Hb Hlt) as (l & r & off & Ho & E & A & B).
      exists l, r, off. split; [simpl; right; right; rewrite <- EM; exact Ho|]. auto.
Qed.

Lemma occ_node_unique t l r off l' r' off' :
  occurs t 0 (VNode l r) off -> occurs t 0 (VNode l' r') off' -> off + vsize l = off' + vsize l' ->
  l = l' /\ r = r' /\ off = off'.
Proof.
  intros H1 H2 E. pose proof (node_at_from_occurs t 0 l r off H1) as N1.
  pose proof (node_at_from_occurs t 0 l' r' off' H2) as N2. rewrite E in N1. rewrite N1 in N2.
  injection N2 as <- <-. repeat split; lia.
Qed.

Lemma lca_same t l r off : occurs t 0 (VNode l r) off -> lca t (off + vsize l) (off + vsize l) = off + vsize l.
Proof.
  intros Ho. pose proof (vsize_pos r). apply (lca_from_occurs t 0 l r off); auto; simpl; lia.
Qed.

Lemma right_linear_at t l r off : occurs t 0 (VNode l r) off ->
  is_right_linear (node_at t (off + vsize l)) = match l with VLeaf _ => true | _ => false end.
Proof. intros Ho. unfold node_at. rewrite (node_at_from_occurs t 0 l r off Ho). destruct l; reflexivity. Qed.

(* a partition made of two literals is x, !x *)
Definition asg0 : asg := fun _ => false.
Lemma two_lits_part x p0 s0 y p1 s1 : part [(SVar x p0, s0); (SVar y p1, s1)] -> x = y /\ p1 = negb p0.
Proof.
  intros Hp. destruct (N.eqb_spec x y) as [->|Hn].
  - split; auto. specialize (Hp (upd asg0 y p0)). unfold cnt in Hp. simpl in Hp.
    unfold upd in Hp. rewrite N.eqb_refl in Hp. destruct p0, p1; simpl in *; auto; discriminate.
  - exfalso. specialize (Hp (upd (upd asg0 x p0) y p1)). unfold cnt in Hp. simpl in Hp.
    unfold upd in Hp. rewrite N.eqb_refl in Hp.
    destruct (N.eqb_spec x y); [contradiction|]. rewrite N.eqb_refl in Hp.
    destruct p0, p1; discriminate.
Qed.
