(* Basic facts about the SDD tree type: induction principle, equality test, negation, denotation,
   element lists (counting true primes, permutation invariance, sorting, swap_remove). *)
From Coq Require Import Bool NArith List Lia Arith Permutation.
Import ListNotations.
From RsddV Require Import Base.Bdd Base.Util Model.SddVtree Model.SddOps.

(* ---- induction principle for the nested type ---- *)
Section SddInd.
Variable P : sdd -> Prop.
Hypothesis HT : P ST.
Hypothesis HF : P SF.
Hypothesis HV : forall v b, P (SVar v b).
Hypothesis HB : forall c l i lo hi, P lo -> P hi -> P (SBdd c l i lo hi).
Hypothesis HO : forall c i els, Forall (fun e => P (fst e) /\ P (snd e)) els -> P (SOr c i els).
Fixpoint sdd_ind' (p : sdd) : P p :=
  match p with
  | ST => HT | SF => HF
  | SVar v b => HV v b
  | SBdd c l i lo hi => HB c l i lo hi (sdd_ind' lo) (sdd_ind' hi)
  | SOr c i els =>
    HO c i els ((fix go (l : list elem) : Forall (fun e => P (fst e) /\ P (snd e)) l :=
                   match l with
                   | [] => Forall_nil _
                   | (p, s) :: r => Forall_cons (p, s) (conj (sdd_ind' p) (sdd_ind' s)) (go r)
                   end) els)
  end.
End SddInd.

(* ---- equality ---- *)
Fixpoint els_eqb (l l' : list elem) : bool :=
  match l, l' with
  | [], [] => true
  | (p1, s1) :: r, (p2, s2) :: r' => sdd_eqb p1 p2 && sdd_eqb s1 s2 && els_eqb r r'
  | _, _ => false
  end.
Lemma sdd_eqb_or c i els c' i' els' :
  sdd_eqb (SOr c i els) (SOr c' i' els') = Bool.eqb c c' && Nat.eqb i i' && els_eqb els els'.
Proof.
  reflexivity.
Qed.

Lemma sdd_eqb_eq p q : sdd_eqb p q = true <-> p = q.
Proof.
  revert q. induction p as [| |v b|c l i lo hi IHlo IHhi|c i els IH] using sdd_ind'; intros q.
  - destruct q; simpl; split; congruence.
  - destruct q; simpl; split; congruence.
  - destruct q; simpl; split; try congruence.
    + rewrite andb_true_iff. intros [H1 H2]. apply N.eqb_eq in H1. apply eqb_prop in H2. congruence.
    + intros [= <- <-]. rewrite N.eqb_refl, eqb_reflx. reflexivity.
  - destruct q; try (simpl; split; congruence).
    simpl. rewrite !andb_true_iff. split.
    + intros [[[[H1 H2] H3] H4] H5]. apply eqb_prop in H1. apply N.eqb_eq in H2. apply Nat.eqb_eq in H3.
      apply IHlo in H4. apply IHhi in H5. congruence.
    + intros [= <- <- <- <- <-]. rewrite eqb_reflx, N.eqb_refl, Nat.eqb_refl.
      rewrite (proj2 (IHlo _) eq_refl), (proj2 (IHhi _) eq_refl). auto.
  - destruct q as [| | | |c' i' els']; try (simpl; split; congruence).
    rewrite sdd_eqb_or, !andb_true_iff.
    assert (E : forall els', els_eqb els els' = true <-> els = els').
    { clear c i c' i' els'. induction els as [|[p s] r IHr]; intros [|[p' s'] r']; simpl; split; try congruence; auto.
      - rewrite !andb_true_iff. intros [[H1 H2] H3].
        inversion IH as [|x y [Hp Hs] Hr]; subst. simpl in *.
        apply Hp in H1. apply Hs in H2. apply (IHr Hr) in H3. subst. reflexivity.
      - intros [= <- <- <-]. inversion IH as [|x y [Hp Hs] Hr]; subst. simpl in *.
        rewrite (proj2 (Hp _) eq_refl), (proj2 (Hs _) eq_refl), (proj2 (IHr Hr _) eq_refl). auto. }
    split.
    + intros [[H1 H2] H3]. apply eqb_prop in H1. apply Nat.eqb_eq in H2. apply E in H3. congruence.
    + intros [= <- <- <-]. rewrite eqb_reflx, Nat.eqb_refl. rewrite (proj2 (E _) eq_refl). auto.
Qed.

Lemma sdd_eqb_refl p : sdd_eqb p p = true.
Proof. apply sdd_eqb_eq. reflexivity. Qed.
Lemma sdd_eqb_neq p q : sdd_eqb p q = false <-> p <> q.
Proof.
  split.
  - intros H E. apply sdd_eqb_eq in E. congruence.
  - intros H. destruct (sdd_eqb p q) eqn:E; auto. apply sdd_eqb_eq in E. contradiction.
Qed.

(* ---- negation, denotation ---- *)
Lemma sneg_invol p : sneg (sneg p) = p.
Proof. destruct p; simpl; rewrite ?negb_involutive; reflexivity. Qed.

Lemma sden_or c i els a : sden (SOr c i els) a = xorb c (den_els els a).
Proof.
  simpl. f_equal. unfold den_els. induction els as [|[p s] r IH]; simpl; auto. rewrite IH. reflexivity.
Qed.

Lemma sden_sneg p a : sden (sneg p) a = negb (sden p a).
Proof.
  destruct p as [| |v b|c l i lo hi|c i els]; try reflexivity.
  - simpl. destruct (a v), b; reflexivity.
  - simpl. destruct c, (if a l then sden hi a else sden lo a); reflexivity.
  - unfold sneg. rewrite !sden_or. destruct c, (den_els els a); reflexivity.
Qed.

Lemma sden_adj c s a : sden (adj c s) a = xorb c (sden s a).
Proof. destruct c; simpl; [apply sden_sneg | destruct (sden s a); reflexivity]. Qed.

Lemma s_is_true_eq p : s_is_true p = true -> p = ST.
Proof. destruct p; simpl; congruence. Qed.
Lemma s_is_false_eq p : s_is_false p = true -> p = SF.
Proof. destruct p; simpl; congruence. Qed.
Lemma s_is_false_neq p : s_is_false p = false -> p <> SF.
Proof. destruct p; simpl; congruence. Qed.
Lemma s_is_true_neq p : s_is_true p = false -> p <> ST.
Proof. destruct p; simpl; congruence. Qed.

(* ---- element lists ---- *)
(* number of primes that hold under a *)
Definition cnt (els : list elem) (a : asg) : nat := count (fun e => sden (fst e) a) els.
Definition excl (els : list elem) : Prop := forall a, cnt els a <= 1.
Definition part (els : list elem) : Prop := forall a, cnt els a = 1.
Definition negsubs (els : list elem) : list elem := map (fun e => (fst e, sneg (snd e))) els.
Definition adjsubs (c : bool) (els : list elem) : list elem := map (fun e => (fst e, adj c (snd e))) els.

Lemma part_excl els : part els -> excl els.
Proof. intros H a. rewrite H. lia. Qed.

Lemma count_app {A} (f : A -> bool) l1 l2 : count f (l1 ++ l2) = count f l1 + count f l2.
Proof. induction l1; simpl; auto. rewrite IHl1. lia. Qed.
Lemma count_perm {A} (f : A -> bool) l1 l2 : Permutation l1 l2 -> count f l1 = count f l2.
Proof. induction 1; simpl; lia. Qed.
Lemma existsb_perm {A} (f : A -> bool) l1 l2 : Permutation l1 l2 -> existsb f l1 = existsb f l2.
Proof.
  induction 1; simpl; auto; try congruence.
  destruct (f x), (f y); reflexivity.
Qed.
Lemma cnt_app l1 l2 a : cnt (l1 ++ l2) a = cnt l1 a + cnt l2 a.
Proof. apply count_app. Qed.
Lemma cnt_perm l1 l2 a : Permutation l1 l2 -> cnt l1 a = cnt l2 a.
Proof. apply count_perm. Qed.
Lemma den_els_perm l1 l2 a : Permutation l1 l2 -> den_els l1 a = den_els l2 a.
Proof. apply existsb_perm. Qed.
Lemma den_els_app l1 l2 a : den_els (l1 ++ l2) a = den_els l1 a || den_els l2 a.
Proof. apply existsb_app. Qed.
Lemma den_els_cons p s r a : den_els ((p, s) :: r) a = (sden p a && sden s a) || den_els r a.
Proof. reflexivity. Qed.
Lemma cnt_cons p s r a : cnt ((p, s) :: r) a = (if sden p a then 1 else 0) + cnt r a.
Proof. reflexivity. Qed.

Lemma cnt_adjsubs c els a : cnt (adjsubs c els) a = cnt els a.
Proof. unfold cnt, adjsubs. induction els as [|[p s] r IH]; simpl; auto. Qed.

Lemma cnt_zero_den els a : cnt els a = 0 -> den_els els a = false.
Proof.
  induction els as [|[p s] r IH]; auto. rewrite cnt_cons, den_els_cons.
  destruct (sden p a); simpl; intros H; [lia | apply IH; lia].
Qed.

(* with exclusive primes, the element whose prime holds decides *)
Lemma excl_den els p s a : (cnt els a <= 1) -> In (p, s) els -> sden p a = true -> den_els els a = sden s a.
Proof.
  induction els as [|[p' s'] r IH]; intros Hc Hin Hp; [destruct Hin|].
  rewrite cnt_cons in Hc. rewrite den_els_cons. destruct Hin as [[= -> ->]|Hin].
  - rewrite Hp in *. simpl. rewrite (cnt_zero_den r a) by lia. apply orb_false_r.
  - destruct (sden p' a) eqn:E.
    + exfalso. assert (cnt r a >= 1); [|lia].
      clear -Hin Hp. induction r as [|[q t] r IH]; [destruct Hin|]. rewrite cnt_cons.
      destruct Hin as [[= -> ->]|Hin]; [rewrite Hp; lia | specialize (IH Hin); lia].
    + simpl. apply IH; auto; lia.
Qed.

(* negating every sub negates the node when the primes form a partition *)
Lemma den_negsubs els a : cnt els a = 1 -> den_els (negsubs els) a = negb (den_els els a).
Proof.
  induction els as [|[p s] r IH]; [discriminate|].
  unfold negsubs. simpl map. rewrite cnt_cons, !den_els_cons. simpl fst; simpl snd. rewrite sden_sneg.
  destruct (sden p a) eqn:E; intros H.
  - assert (Hz : cnt r a = 0) by lia.
    rewrite (cnt_zero_den r a Hz).
    assert (Hz' : cnt (negsubs r) a = 0) by (unfold negsubs; rewrite <- Hz; apply (cnt_adjsubs true)).
    fold (negsubs r). rewrite (cnt_zero_den _ a Hz'). simpl. rewrite !orb_false_r. reflexivity.
  - simpl. apply IH. lia.
Qed.

Lemma adjsubs_false els : adjsubs false els = els.
Proof. unfold adjsubs, adj. induction els as [|[p s] r IH]; simpl; auto. f_equal; auto. Qed.

Lemma den_adjsubs c els a : cnt els a = 1 -> den_els (adjsubs c els) a = xorb c (den_els els a).
Proof.
  destruct c; intros H.
  - apply (den_negsubs els a H).
  - rewrite adjsubs_false. destruct (den_els els a); reflexivity.
Qed.


(* ---- sorting ---- *)
Lemma insert_el_perm x l : Permutation (insert_el x l) (x :: l).
Proof.
  induction l as [|e r IH]; simpl; auto.
  destruct (sdd_cmp (fst x) (fst e)); auto.
  rewrite IH. apply perm_swap.
Qed.
Lemma sort_els_perm l : Permutation (sort_els l) l.
Proof.
  induction l as [|x r IH]; simpl; auto.
  rewrite insert_el_perm. auto.
Qed.

(* ---- swap_remove ---- *)
Lemma removelast_app_last {A} (l : list A) x : removelast (l ++ [x]) = l.
Proof. rewrite removelast_app by discriminate. simpl. apply app_nil_r. Qed.

Lemma set_nth_perm {A} (l : list A) k x y : nth_error l k = Some x ->
  Permutation (x :: set_nth l k y) (y :: l).
Proof.
  revert k. induction l as [|z r IH]; intros [|k] H; simpl in *; try discriminate.
  - injection H as ->. apply perm_swap.
  - specialize (IH k H). rewrite perm_swap. rewrite IH. apply perm_swap.
Qed.

Lemma swap_remove_perm {A} (l : list A) k x : nth_error l k = Some x ->
  Permutation (x :: swap_remove l k) l.
Proof.
  intros H. destruct (rev l) as [|last rl] eqn:E.
  - apply (f_equal (@rev A)) in E. rewrite rev_involutive in E. subst. destruct k; discriminate.
  - apply (f_equal (@rev A)) in E. rewrite rev_involutive in E. simpl in E. subst l.
    unfold swap_remove. rewrite rev_app_distr. simpl.
    rewrite app_length. simpl. replace (length (rev rl) + 1 - 1) with (length (rev rl)) by lia.
    rewrite removelast_app_last.
    destruct (Nat.eqb k (length (rev rl))) eqn:Ek.
    + apply Nat.eqb_eq in Ek. subst k. rewrite nth_error_app2 in H by lia.
      rewrite Nat.sub_diag in H. simpl in H. injection H as ->.
      apply Permutation_cons_append.
    + apply Nat.eqb_neq in Ek.
      assert (Hk : k < length (rev rl)).
      { assert (k < length (rev rl ++ [last])) by (apply nth_error_Some; congruence).
        rewrite app_length in H0. simpl in H0. lia. }
      rewrite nth_error_app1 in H by lia.
      rewrite (set_nth_perm _ _ _ last H). apply Permutation_cons_append.
Qed.

Lemma swap_remove_length {A} (l : list A) k x : nth_error l k = Some x ->
  S (length (swap_remove l k)) = length l.
Proof. intros H. apply (Permutation_length (swap_remove_perm l k x H)). Qed.
