(* Proofs about Model/CnfUtil.v (property C15).  Spec vocabulary first: assignments are
   functions N -> bool, a CNF denotes the conjunction of the disjunctions of its literals. *)
From Coq Require Import Bool NArith List Arith Lia Permutation Sorted ZArith Znumtheory.
Import ListNotations.
From RsddV Require Import Base.Util Base.Bdd Generated.Constants Model.CnfUtil.
Local Open Scope N_scope.

(* ------------------------------------------------------------------------------------ *)
(* Spec *)
Definition lit_true (a : asg) (l : lit) : bool := Bool.eqb (snd l) (a (fst l)).
Definition clause_sem (a : asg) (c : clause) : bool := existsb (lit_true a) c.
Definition cnf_sem (a : asg) (cs : list clause) : bool := forallb (clause_sem a) cs.
Definition asg_of_list (l : list bool) : asg := fun v => nth (N.to_nat v) l false.
Definition upd (a : asg) (x : lit) : asg := fun v => if v =? fst x then snd x else a v.
Definition lit_neg (x : lit) : lit := (fst x, negb (snd x)).

Definition lbl_le (a b : lit) : Prop := fst a <= fst b.
Fixpoint no_adj (l : clause) : Prop :=
  match l with
  | x :: t => match t with y :: _ => x <> y | [] => True end /\ no_adj t
  | [] => True
  end.
(* "1 + largest label, or 0" *)
Definition nv_spec (cs : list clause) (n : N) : Prop :=
  (forall c l, In c cs -> In l c -> fst l < n) /\
  (n = 0 \/ exists c l, In c cs /\ In l c /\ n = fst l + 1).

Lemma lit_eqb_eq a b : lit_eqb a b = true <-> a = b.
Proof.
  unfold lit_eqb. destruct a as [a1 a2], b as [b1 b2]; cbn [fst snd].
  rewrite andb_true_iff, N.eqb_eq, eqb_true_iff. split.
  - intros [-> ->]; reflexivity.
  - intros H; inversion H; auto.
Qed.
Lemma lit_eqb_refl a : lit_eqb a a = true.
Proof. apply lit_eqb_eq; reflexivity. Qed.
Lemma lit_eqb_neq a b : lit_eqb a b = false <-> a <> b.
Proof.
  split.
  - intros H E. apply lit_eqb_eq in E. congruence.
  - intros H. destruct (lit_eqb a b) eqn:E; auto. apply lit_eqb_eq in E. contradiction.
Qed.

(* ------------------------------------------------------------------------------------ *)
(* Cnf::new *)
Lemma insert_lit_perm x l : Permutation (insert_lit x l) (x :: l).
Proof.
  induction l as [|y t IH]; cbn [insert_lit].
  - reflexivity.
  - destruct (fst x <=? fst y).
    + reflexivity.
    + etransitivity; [apply perm_skip, IH | apply perm_swap].
Qed.

Lemma sort_clause_perm l : Permutation (sort_clause l) l.
Proof.
  induction l as [|x t IH]; cbn [sort_clause fold_right].
  - reflexivity.
  - etransitivity; [apply insert_lit_perm | apply perm_skip, IH].
Qed.

Lemma insert_lit_sorted x l : Sorted lbl_le l -> Sorted lbl_le (insert_lit x l).
Proof.
  induction l as [|y t IH]; intros Hs; cbn [insert_lit].
  - repeat constructor.
  - destruct (N.leb_spec (fst x) (fst y)) as [Hle|Hgt].
    + constructor; [exact Hs | constructor; exact Hle].
    + inversion Hs as [|? ? Hst Hhd]; subst. constructor; [apply IH, Hst|].
      destruct t as [|z t']; cbn [insert_lit].
      * constructor. unfold lbl_le; lia.
      * destruct (fst x <=? fst z).
        -- constructor; unfold lbl_le; lia.
        -- inversion Hhd; subst. constructor; assumption.
Qed.

Lemma sort_clause_sorted l : Sorted lbl_le (sort_clause l).
Proof.
  induction l as [|x t IH]; cbn [sort_clause fold_right].
  - constructor.
  - apply insert_lit_sorted, IH.
Qed.

(* stability: literals of one label keep their relative order *)
Lemma insert_lit_stable k x l :
  filter (fun y => fst y =? k) (insert_lit x l) = filter (fun y => fst y =? k) (x :: l).
Proof.
  induction l as [|y t IH]; cbn [insert_lit].
  - reflexivity.
  - destruct (N.leb_spec (fst x) (fst y)) as [Hle|Hgt]; [reflexivity|].
    cbn [filter] in *. rewrite IH.
    destruct (N.eqb_spec (fst y) k), (N.eqb_spec (fst x) k); try reflexivity. lia.
Qed.

Lemma sort_clause_stable k l :
  filter (fun y => fst y =? k) (sort_clause l) = filter (fun y => fst y =? k) l.
Proof.
  induction l as [|x t IH]; cbn [sort_clause fold_right]; [reflexivity|].
  fold (sort_clause t). rewrite insert_lit_stable. cbn [filter]. rewrite IH. reflexivity.
Qed.

Lemma dedup_cons2 x y t :
  dedup (x :: y :: t) = if lit_eqb x y then dedup (y :: t) else x :: dedup (y :: t).
Proof. reflexivity. Qed.

Lemma dedup_hd y t : exists r, dedup (y :: t) = y :: r.
Proof.
  revert y; induction t as [|z t IH]; intros y.
  - exists []; reflexivity.
  - rewrite dedup_cons2. destruct (lit_eqb y z) eqn:E.
    + apply lit_eqb_eq in E; subst. apply IH.
    + eexists; reflexivity.
Qed.

Lemma dedup_In x l : In x (dedup l) <-> In x l.
Proof.
  induction l as [|y t IH]; [reflexivity|].
  destruct t as [|z t']; [reflexivity|].
  rewrite dedup_cons2. destruct (lit_eqb y z) eqn:E.
  - apply lit_eqb_eq in E; subst z. rewrite IH. cbn [In]. tauto.
  - cbn [In] in *. rewrite IH. tauto.
Qed.

Lemma dedup_sorted l : Sorted lbl_le l -> Sorted lbl_le (dedup l).
Proof.
  induction l as [|y t IH]; intros Hs; [constructor|].
  destruct t as [|z t']; [exact Hs|].
  inversion Hs as [|? ? Hst Hhd]; subst.
  rewrite dedup_cons2. destruct (lit_eqb y z) eqn:E; [apply IH, Hst|].
  constructor; [apply IH, Hst|].
  destruct (dedup_hd z t') as [r ->]. inversion Hhd; subst. constructor; assumption.
Qed.

Lemma dedup_no_adj l : no_adj (dedup l).
Proof.
  induction l as [|y t IH]; [exact I|].
  destruct t as [|z t']; [cbn; auto|].
  rewrite dedup_cons2. destruct (lit_eqb y z) eqn:E; [exact IH|].
  destruct (dedup_hd z t') as [r Hr]. rewrite Hr in *.
  split; [|exact IH]. apply lit_eqb_neq, E.
Qed.

(* dedup only ever drops an element equal to its successor *)
Lemma dedup_fixpoint l : no_adj l -> dedup l = l.
Proof.
  induction l as [|y t IH]; [reflexivity|].
  destruct t as [|z t']; [reflexivity|].
  intros [Hne Ht]. rewrite dedup_cons2.
  destruct (lit_eqb y z) eqn:E; [apply lit_eqb_eq in E; contradiction|].
  rewrite IH by exact Ht. reflexivity.
Qed.

Lemma norm_clause_In x c : In x (norm_clause c) <-> In x c.
Proof.
  unfold norm_clause. rewrite dedup_In. split; apply Permutation_in.
  - apply sort_clause_perm.
  - symmetry; apply sort_clause_perm.
Qed.

Lemma clause_sem_ext a c c' : (forall l, In l c' <-> In l c) -> clause_sem a c' = clause_sem a c.
Proof.
  intros H. unfold clause_sem. apply eq_true_iff_eq. rewrite !existsb_exists.
  split; intros [l [Hin Ht]]; exists l; split; auto; apply H; auto.
Qed.

Lemma fold_max_spec {A} (f : A -> N) (l : list A) (init : N) :
  init <= fold_left (fun m x => N.max m (f x)) l init /\
  (forall x, In x l -> f x <= fold_left (fun m x => N.max m (f x)) l init) /\
  (fold_left (fun m x => N.max m (f x)) l init = init \/
   exists x, In x l /\ fold_left (fun m x => N.max m (f x)) l init = f x).
Proof.
  revert init; induction l as [|y t IH]; intros init; cbn [fold_left].
  - split; [lia|]. split; [intros x []|]. left; reflexivity.
  - specialize (IH (N.max init (f y))). destruct IH as (H1 & H2 & H3).
    split; [lia|]. split.
    + intros x [->|Hin]; [lia|]. apply H2, Hin.
    + destruct H3 as [H3|[x [Hin Hx]]].
      * destruct (N.max_spec init (f y)) as [[_ Hm]|[_ Hm]].
        -- right; exists y; split; [left; reflexivity|rewrite H3; exact Hm].
        -- left; rewrite H3; exact Hm.
      * right; exists x; split; [right; exact Hin|exact Hx].
Qed.

Lemma cnf_nv_spec cs : nv_spec cs (cnf_nv cs).
Proof.
  unfold cnf_nv.
  destruct (fold_max_spec clause_nv cs 0) as (_ & H2 & H3). split.
  - intros c l Hc Hl. specialize (H2 c Hc).
    destruct (fold_max_spec (fun l => fst l + 1) c 0) as (_ & G2 & _).
    specialize (G2 l Hl).
    change (clause_nv c) with (fold_left (fun m l => N.max m (fst l + 1)) c 0) in H2.
    cbn beta in G2. lia.
  - destruct H3 as [H3|[c [Hc Hr]]]; [left; exact H3|].
    destruct (fold_max_spec (fun l => fst l + 1) c 0) as (_ & _ & G3).
    change (clause_nv c) with (fold_left (fun m l => N.max m (fst l + 1)) c 0) in Hr.
    destruct G3 as [G3|[l [Hl Hx]]].
    + left. rewrite Hr. exact G3.
    + right. exists c, l. split; [exact Hc|]. split; [exact Hl|]. rewrite Hr. exact Hx.
Qed.

Lemma nv_spec_unique cs n m : nv_spec cs n -> nv_spec cs m -> n = m.
Proof.
  intros [A1 A2] [B1 B2].
  destruct A2 as [->|(c & l & Hc & Hl & ->)], B2 as [->|(c' & l' & Hc' & Hl' & ->)]; auto.
  - specialize (A1 c' l' Hc' Hl'). lia.
  - specialize (B1 c l Hc Hl). lia.
  - specialize (A1 c' l' Hc' Hl'). specialize (B1 c l Hc Hl). lia.
Qed.

Lemma nv_spec_ext cs cs' n :
  Forall2 (fun c c' => forall l, In l c' <-> In l c) cs cs' -> nv_spec cs' n -> nv_spec cs n.
Proof.
  intros HF [H1 H2]. split.
  - intros c l Hc Hl.
    assert (exists c', In c' cs' /\ forall l, In l c' <-> In l c) as [c' [Hc' Hiff]].
    { clear -HF Hc. induction HF as [|a b la lb Hab HF IH]; [destruct Hc|].
      destruct Hc as [->|Hc].
      - exists b; split; [left; reflexivity|exact Hab].
      - destruct (IH Hc) as [c' [Hc' Hiff]]. exists c'; split; [right; exact Hc'|exact Hiff]. }
    apply (H1 c' l Hc'). apply Hiff, Hl.
  - destruct H2 as [->|(c' & l & Hc' & Hl & ->)]; [left; reflexivity|right].
    assert (exists c, In c cs /\ forall l, In l c' <-> In l c) as [c [Hc Hiff]].
    { clear -HF Hc'. induction HF as [|a b la lb Hab HF IH]; [destruct Hc'|].
      destruct Hc' as [->|Hc'].
      - exists a; split; [left; reflexivity|exact Hab].
      - destruct (IH Hc') as [c [Hc Hiff]]. exists c; split; [right; exact Hc|exact Hiff]. }
    exists c, l. split; [exact Hc|]. split; [apply Hiff, Hl|reflexivity].
Qed.

Lemma norm_clause_spec c :
  (forall l, In l (norm_clause c) <-> In l c) /\ Sorted lbl_le (norm_clause c) /\ no_adj (norm_clause c).
Proof.
  split; [intros l; apply norm_clause_In|]. split.
  - apply dedup_sorted, sort_clause_sorted.
  - apply dedup_no_adj.
Qed.

Lemma cnf_sem_norm a cs : cnf_sem a (map norm_clause cs) = cnf_sem a cs.
Proof.
  induction cs as [|c t IH]; [reflexivity|].
  unfold cnf_sem in *. cbn [map forallb]. rewrite IH. f_equal.
  apply clause_sem_ext. intros l; apply norm_clause_In.
Qed.

Lemma Forall2_map_norm cs :
  Forall2 (fun c c' => (forall l, In l c' <-> In l c) /\ Sorted lbl_le c' /\ no_adj c')
          cs (map norm_clause cs).
Proof. induction cs as [|c t IH]; constructor; [apply norm_clause_spec|exact IH]. Qed.

(* Cnf::new keeps every clause's literal set (sorted by label, no two adjacent equal
   literals), the number of clauses, the denotation; num_vars is 1 + the largest label, or 0. *)
Theorem cnf_new_sem cs :
  Forall2 (fun c c' => (forall l, In l c' <-> In l c) /\ Sorted lbl_le c' /\ no_adj c')
          cs (clauses (cnf_new cs)) /\
  nv_spec cs (num_vars (cnf_new cs)) /\
  (forall a, cnf_sem a (clauses (cnf_new cs)) = cnf_sem a cs).
Proof.
  split; [apply Forall2_map_norm|]. split.
  - cbn [cnf_new num_vars]. apply nv_spec_ext with (cs' := map norm_clause cs).
    + clear. induction cs as [|c t IH]; constructor; [intros l; apply norm_clause_In|exact IH].
    + apply cnf_nv_spec.
  - intros a. apply cnf_sem_norm.
Qed.

(* the sort is the stable one: literals of one label keep their order (before dedup) *)
Lemma sort_is_stable c k :
  filter (fun y => fst y =? k) (sort_clause c) = filter (fun y => fst y =? k) c.
Proof. apply sort_clause_stable. Qed.

Lemma sort_clause_sorted_id l : Sorted lbl_le l -> sort_clause l = l.
Proof.
  induction l as [|x t IH]; intros Hs; [reflexivity|].
  inversion Hs as [|? ? Hst Hhd]; subst.
  cbn [sort_clause fold_right]. fold (sort_clause t). rewrite IH by exact Hst.
  destruct t as [|y t']; [reflexivity|]. cbn [insert_lit].
  inversion Hhd as [|? ? Hle]; subst. unfold lbl_le in Hle.
  destruct (N.leb_spec (fst x) (fst y)); [reflexivity|lia].
Qed.

Theorem cnf_new_idempotent cs : cnf_new (clauses (cnf_new cs)) = cnf_new cs.
Proof.
  unfold cnf_new. cbn [clauses].
  assert (E : map norm_clause (map norm_clause cs) = map norm_clause cs).
  { rewrite map_map. apply map_ext. intros c. unfold norm_clause at 1.
    destruct (norm_clause_spec c) as (_ & Hs & Hn).
    rewrite sort_clause_sorted_id by exact Hs. apply dedup_fixpoint, Hn. }
  rewrite E. reflexivity.
Qed.

Lemma cnf_new_labels_lt cs c l :
  In c (clauses (cnf_new cs)) -> In l c -> fst l < num_vars (cnf_new cs).
Proof. intros Hc Hl. exact (proj1 (cnf_nv_spec (map norm_clause cs)) c l Hc Hl). Qed.

(* ------------------------------------------------------------------------------------ *)
(* eval *)
Lemma eval_clause_spec a c sat :
  (forall l, In l c -> (N.to_nat (fst l) < length a)%nat) ->
  eval_clause a c sat = Some (sat || clause_sem (asg_of_list a) c).
Proof.
  revert sat; induction c as [|l t IH]; intros sat Hr; cbn [eval_clause clause_sem existsb].
  - rewrite orb_false_r; reflexivity.
  - destruct (nth_error a (N.to_nat (fst l))) as [b|] eqn:E.
    + rewrite IH by (intros l' Hl'; apply Hr; right; exact Hl'). f_equal.
      unfold lit_true at 1, asg_of_list. rewrite (nth_error_nth _ _ false E).
      fold (clause_sem (asg_of_list a) t).
      destruct (Bool.eqb (snd l) b), sat, (clause_sem (asg_of_list a) t); reflexivity.
    + apply nth_error_None in E. specialize (Hr l (or_introl eq_refl)). lia.
Qed.

Lemma eval_clause_out_of_range a c sat :
  (exists l, In l c /\ (length a <= N.to_nat (fst l))%nat) -> eval_clause a c sat = None.
Proof.
  revert sat; induction c as [|l t IH]; intros sat [l' [Hin Hl']]; [destruct Hin|].
  cbn [eval_clause]. destruct (nth_error a (N.to_nat (fst l))) as [b|] eqn:E; [|reflexivity].
  destruct Hin as [->|Hin].
  - apply nth_error_None in Hl'. congruence.
  - apply IH. exists l'; auto.
Qed.

Lemma eval_clauses_spec a cs :
  (forall c l, In c cs -> In l c -> (N.to_nat (fst l) < length a)%nat) ->
  eval_clauses a cs = Some (cnf_sem (asg_of_list a) cs).
Proof.
  induction cs as [|c t IH]; intros Hr; cbn [eval_clauses cnf_sem forallb]; [reflexivity|].
  rewrite eval_clause_spec by (intros l Hl; apply (Hr c l); [left; reflexivity|exact Hl]).
  cbn [orb]. destruct (clause_sem (asg_of_list a) c); cbn [andb]; [|reflexivity].
  apply IH. intros c' l Hc' Hl. apply (Hr c' l); [right; exact Hc'|exact Hl].
Qed.

(* Cnf::eval on a vector at least num_vars long is the denotation; a shorter vector fails
   the assert.  No index is ever out of range in the first case. *)
Theorem eval_spec cs a :
  (num_vars (cnf_new cs) <= N.of_nat (length a) ->
     cnf_eval_impl (cnf_new cs) a = Some (cnf_sem (asg_of_list a) cs)) /\
  (N.of_nat (length a) < num_vars (cnf_new cs) -> cnf_eval_impl (cnf_new cs) a = None).
Proof.
  unfold cnf_eval_impl. split; intros H.
  - destruct (N.ltb_spec (N.of_nat (length a)) (num_vars (cnf_new cs))); [lia|].
    rewrite eval_clauses_spec.
    + f_equal. apply cnf_sem_norm.
    + intros c l Hc Hl. pose proof (cnf_new_labels_lt cs c l Hc Hl). lia.
  - destruct (N.ltb_spec (N.of_nat (length a)) (num_vars (cnf_new cs))); [reflexivity|lia].
Qed.

(* ------------------------------------------------------------------------------------ *)
(* is_sat_partial *)
Lemma existsb_ext_in {A} (p : A -> bool) c c' :
  (forall l, In l c' <-> In l c) -> existsb p c' = existsb p c.
Proof.
  intros H. apply eq_true_iff_eq. rewrite !existsb_exists.
  split; intros [l [Hin Ht]]; exists l; split; auto; apply H; auto.
Qed.

Lemma sat_partial_clause_spec m c : sat_partial_clause m c = existsb (pm_lit_implied m) c.
Proof.
  unfold sat_partial_clause.
  enough (G : forall sat, fold_left (fun sat l => match pm_get m (fst l) with
             | Some b => if Bool.eqb (snd l) b then true else sat | None => sat end) c sat
             = sat || existsb (pm_lit_implied m) c) by (rewrite G; reflexivity).
  induction c as [|l t IH]; intros sat; cbn [fold_left existsb].
  - rewrite orb_false_r; reflexivity.
  - rewrite IH. unfold pm_lit_implied at 2.
    destruct (pm_get m (fst l)) as [b|].
    + destruct (snd l), b, sat; reflexivity.
    + destruct sat; reflexivity.
Qed.

Lemma pm_lit_implied_iff m l : pm_lit_implied m l = true <-> pm_get m (fst l) = Some (snd l).
Proof.
  unfold pm_lit_implied. destruct (pm_get m (fst l)) as [b|].
  - rewrite eqb_true_iff. split; [intros ->; reflexivity|intros H; inversion H; reflexivity].
  - split; discriminate.
Qed.

(* true exactly when every clause has a literal made true by the partial model *)
Theorem is_sat_partial_spec cs m :
  is_sat_partial (cnf_new cs) m = true <->
  forall c, In c cs -> exists l, In l c /\ pm_get m (fst l) = Some (snd l).
Proof.
  unfold is_sat_partial. cbn [cnf_new clauses]. rewrite forallb_forall. split.
  - intros H c Hc. specialize (H (norm_clause c) (in_map _ _ _ Hc)).
    rewrite sat_partial_clause_spec in H. apply existsb_exists in H. destruct H as [l [Hl Hi]].
    exists l. split; [apply norm_clause_In, Hl|apply pm_lit_implied_iff, Hi].
  - intros H c' Hc'. apply in_map_iff in Hc'. destruct Hc' as [c [<- Hc]].
    rewrite sat_partial_clause_spec. apply existsb_exists.
    destruct (H c Hc) as [l [Hl Hg]]. exists l. split; [apply norm_clause_In, Hl|apply pm_lit_implied_iff, Hg].
Qed.

(* hence the partial model implies the formula: every total extension satisfies it *)
Theorem is_sat_partial_sound cs m (a : asg) :
  is_sat_partial (cnf_new cs) m = true ->
  (forall v b, pm_get m v = Some b -> a v = b) -> cnf_sem a cs = true.
Proof.
  intros H Hext. rewrite is_sat_partial_spec in H.
  unfold cnf_sem. apply forallb_forall. intros c Hc.
  destruct (H c Hc) as [l [Hl Hg]]. apply existsb_exists. exists l. split; [exact Hl|].
  unfold lit_true. rewrite (Hext _ _ Hg). apply eqb_reflx.
Qed.

(* ------------------------------------------------------------------------------------ *)
(* condition *)
Lemma lit_eqb_sym a b : lit_eqb a b = lit_eqb b a.
Proof.
  unfold lit_eqb. rewrite N.eqb_sym. f_equal. destruct (snd a), (snd b); reflexivity.
Qed.

Lemma cond_clause_spec x c :
  cond_clause x c = if clause_contains c x then None
                    else Some (filter (fun l => negb (lit_eqb l (lit_neg x))) c).
Proof.
  induction c as [|l t IH]; [reflexivity|].
  cbn [cond_clause clause_contains existsb filter].
  change ((fst l =? fst x) && Bool.eqb (snd l) (snd x)) with (lit_eqb l x).
  rewrite (lit_eqb_sym x l). destruct (lit_eqb l x) eqn:E; cbn [orb]; [reflexivity|].
  assert (E2 : (fst l =? fst x) && negb (Bool.eqb (snd l) (snd x)) = lit_eqb l (lit_neg x)).
  { unfold lit_eqb, lit_neg; cbn [fst snd]. f_equal. destruct (snd l), (snd x); reflexivity. }
  rewrite E2. fold (clause_contains t x) in *. rewrite IH.
  destruct (lit_eqb l (lit_neg x)); cbn [negb]; destruct (clause_contains t x); reflexivity.
Qed.

(* the syntactic description *)
Theorem cond_clauses_spec x cs :
  cond_clauses x cs =
  map (filter (fun l => negb (lit_eqb l (lit_neg x)))) (filter (fun c => negb (clause_contains c x)) cs).
Proof.
  induction cs as [|c t IH]; [reflexivity|].
  cbn [cond_clauses filter]. rewrite cond_clause_spec.
  destruct (clause_contains c x); cbn [negb map]; rewrite IH; reflexivity.
Qed.

Lemma lit_true_upd a x l :
  lit_true (upd a x) l = if fst l =? fst x then Bool.eqb (snd l) (snd x) else lit_true a l.
Proof. unfold lit_true, upd. destruct (fst l =? fst x); reflexivity. Qed.

Lemma clause_contains_sem a x c : clause_contains c x = true -> clause_sem (upd a x) c = true.
Proof.
  unfold clause_contains, clause_sem. rewrite !existsb_exists. intros [l [Hl He]].
  apply lit_eqb_eq in He; subst l. exists x. split; [exact Hl|].
  rewrite lit_true_upd, N.eqb_refl. apply eqb_reflx.
Qed.

Lemma cond_filter_sem a x c :
  clause_contains c x = false ->
  clause_sem a (filter (fun l => negb (lit_eqb l (lit_neg x))) c) = clause_sem (upd a x) c.
Proof.
  induction c as [|l t IH]; intros Hc; [reflexivity|].
  cbn [clause_contains existsb] in Hc. apply orb_false_iff in Hc. destruct Hc as [Hl Ht].
  fold (clause_contains t x) in Ht. specialize (IH Ht).
  cbn [filter clause_sem existsb]. fold (clause_sem (upd a x) t).
  rewrite lit_true_upd. unfold lit_eqb in Hl |- *. unfold lit_neg; cbn [fst snd] in *.
  rewrite (N.eqb_sym (fst x) (fst l)) in Hl.
  destruct (fst l =? fst x) eqn:E; cbn [andb negb] in *.
  - assert (Es : Bool.eqb (snd l) (negb (snd x)) = true) by (destruct (snd l), (snd x); cbn in *; congruence).
    rewrite Es. cbn [negb].
    assert (Ef : Bool.eqb (snd l) (snd x) = false) by (destruct (snd l), (snd x); cbn in *; congruence).
    rewrite Ef. cbn [orb]. exact IH.
  - cbn [clause_sem existsb]. f_equal. exact IH.
Qed.

Lemma cond_clauses_sem a x cs : cnf_sem a (cond_clauses x cs) = cnf_sem (upd a x) cs.
Proof.
  induction cs as [|c t IH]; [reflexivity|].
  cbn [cond_clauses]. rewrite cond_clause_spec.
  cbn [cnf_sem forallb]. fold (cnf_sem (upd a x) t).
  destruct (clause_contains c x) eqn:E.
  - rewrite (clause_contains_sem a x c E). cbn [andb]. exact IH.
  - cbn [cnf_sem forallb]. fold (cnf_sem a (cond_clauses x t)).
    rewrite (cond_filter_sem a x c E), IH. reflexivity.
Qed.

(* conditioning on a literal = evaluating under the assignment updated with it; the result
   is the normal form of: clauses containing the literal dropped, the complementary literal
   removed from the others (an emptied clause stays as the empty clause) *)
Theorem condition_spec c x :
  (forall a, cnf_sem a (clauses (condition c x)) = cnf_sem (upd a x) (clauses c)) /\
  clauses (condition c x) =
    map norm_clause (map (filter (fun l => negb (lit_eqb l (lit_neg x))))
                         (filter (fun cl => negb (clause_contains cl x)) (clauses c))) /\
  nv_spec (clauses (condition c x)) (num_vars (condition c x)).
Proof.
  split; [|split].
  - intros a. unfold condition. cbn [cnf_new clauses]. rewrite cnf_sem_norm. apply cond_clauses_sem.
  - unfold condition. cbn [cnf_new clauses]. rewrite cond_clauses_spec. reflexivity.
  - unfold condition. cbn [cnf_new clauses num_vars]. apply cnf_nv_spec.
Qed.

(* ------------------------------------------------------------------------------------ *)
(* AssignmentIter: the reference enumeration (index 0 is the least significant bit) *)
Fixpoint all_asg (n : nat) : list (list bool) :=
  match n with
  | O => [[]]
  | S k => flat_map (fun t => [false :: t; true :: t]) (all_asg k)
  end.

(* ripple-carry addition of one bit *)
Fixpoint addc (cy : bool) (c : list bool) : list bool * bool :=
  match c with
  | [] => ([], cy)
  | b :: t => let r := addc (b && cy) t in (xorb b cy :: fst r, snd r)
  end.

Lemma fold_half_adder c acc cy :
  fold_left half_adder c (acc, cy) = (acc ++ fst (addc cy c), snd (addc cy c)).
Proof.
  revert acc cy; induction c as [|b t IH]; intros acc cy; cbn [fold_left addc fst snd].
  - rewrite app_nil_r; reflexivity.
  - unfold half_adder at 2; cbn [fst snd]. rewrite IH, <- app_assoc. reflexivity.
Qed.

Lemma ai_incr_addc c : ai_incr c = addc true c.
Proof.
  unfold ai_incr. rewrite fold_half_adder. cbn [app]. destruct (addc true c); reflexivity.
Qed.

Lemma addc_false c : addc false c = (c, false).
Proof.
  induction c as [|b t IH]; [reflexivity|].
  cbn [addc]. rewrite andb_false_r, IH, xorb_false_r. reflexivity.
Qed.

(* starting from state [a] the iterator yields exactly [post] and then stops *)
Fixpoint chain (a : list bool) (post : list (list bool)) : Prop :=
  match post with
  | [] => snd (addc true a) = true
  | b :: post' => addc true a = (b, false) /\ chain b post'
  end.

Lemma chain_lift a post :
  chain a post ->
  chain (false :: a) ((true :: a) :: flat_map (fun t => [false :: t; true :: t]) post).
Proof.
  revert a; induction post as [|b post' IH]; intros a H; cbn [chain flat_map app] in *.
  - split.
    + cbn [addc andb xorb]. rewrite addc_false. reflexivity.
    + cbn [addc andb snd]. exact H.
  - destruct H as [Ha Hb]. split.
    + cbn [addc andb xorb]. rewrite addc_false. reflexivity.
    + split.
      * cbn [addc andb xorb]. rewrite Ha. reflexivity.
      * apply IH, Hb.
Qed.

Lemma all_asg_chain n :
  exists rest, all_asg n = repeat false n :: rest /\ chain (repeat false n) rest.
Proof.
  induction n as [|k [rest [E Hc]]].
  - exists []. split; reflexivity.
  - cbn [all_asg]. rewrite E. cbn [flat_map app repeat].
    eexists. split; [reflexivity|]. apply chain_lift, Hc.
Qed.

Lemma all_asg_length n : length (all_asg n) = (2 ^ n)%nat.
Proof.
  induction n as [|k IH]; [reflexivity|].
  cbn [all_asg]. rewrite Nat.pow_succ_r'. rewrite <- IH.
  generalize (all_asg k) as l. induction l as [|t l IHl]; [reflexivity|].
  cbn [flat_map app length] in *. lia.
Qed.

Lemma all_asg_In n a : In a (all_asg n) <-> length a = n.
Proof.
  revert a; induction n as [|k IH]; intros a; cbn [all_asg].
  - cbn [In]. destruct a; cbn [length]; split; intros H; auto; try discriminate.
    destruct H as [H|[]]; discriminate.
  - rewrite in_flat_map. split.
    + intros [t [Ht Hin]]. apply IH in Ht. cbn [In] in Hin.
      destruct Hin as [<-|[<-|[]]]; cbn [length]; lia.
    + intros Hl. destruct a as [|b t]; [discriminate|]. cbn [length] in Hl.
      exists t. split; [apply IH; lia|]. destruct b; cbn [In]; auto.
Qed.

Lemma all_asg_NoDup n : NoDup (all_asg n).
Proof.
  induction n as [|k IH]; cbn [all_asg].
  - constructor; [intros []|constructor].
  - induction IH as [|t l Hnin Hnd IHl]; [constructor|].
    cbn [flat_map app]. constructor; [|constructor].
    + cbn [In]. intros [H|H]; [discriminate|].
      apply in_flat_map in H. destruct H as [t' [Ht' Hin]]. cbn [In] in Hin.
      destruct Hin as [H|[H|[]]]; inversion H; subst; contradiction.
    + intros H. apply in_flat_map in H. destruct H as [t' [Ht' Hin]]. cbn [In] in Hin.
      destruct Hin as [H|[H|[]]]; inversion H; subst; contradiction.
    + exact IHl.
Qed.

Lemma ai_next_some a n :
  ai_next {| ai_cur := Some a; ai_n := n |} =
  (if snd (addc true a) then None else Some (fst (addc true a)),
   {| ai_cur := Some (fst (addc true a)); ai_n := n |}).
Proof. unfold ai_next. cbn [ai_cur ai_n]. rewrite ai_incr_addc. reflexivity. Qed.

Lemma ai_collect_chain post : forall a n fuel,
  chain a post -> (length post < fuel)%nat ->
  ai_collect fuel {| ai_cur := Some a; ai_n := n |} = Some post.
Proof.
  induction post as [|b post' IH]; intros a n fuel Hc Hf; (destruct fuel as [|f]; [cbn [length] in Hf; lia|]);
    cbn [ai_collect]; rewrite ai_next_some; cbn [chain] in Hc.
  - rewrite Hc. reflexivity.
  - destruct Hc as [Ha Hb]. rewrite Ha. cbn [fst snd].
    rewrite (IH b n f Hb) by (cbn [length] in Hf; lia). reflexivity.
Qed.

(* the for-loop over AssignmentIter::new(n) sees every assignment of n variables exactly
   once (and needs 2^n + 1 calls of next) *)
Theorem assignment_iter_complete n fuel :
  (2 ^ n < fuel)%nat ->
  ai_collect fuel (ai_new n) = Some (all_asg n) /\
  NoDup (all_asg n) /\ length (all_asg n) = (2 ^ n)%nat /\
  (forall a, In a (all_asg n) <-> length a = n).
Proof.
  intros Hf. split; [|split; [apply all_asg_NoDup|split; [apply all_asg_length|apply all_asg_In]]].
  destruct (all_asg_chain n) as [rest [E Hc]].
  pose proof (all_asg_length n) as HL. rewrite E in HL |- *. cbn [length] in HL.
  destruct fuel as [|f]; [lia|]. cbn [ai_collect ai_new ai_next ai_cur ai_n].
  rewrite (ai_collect_chain rest (repeat false n) n f Hc) by lia. reflexivity.
Qed.

(* with too little fuel the model reports exhaustion rather than a short list *)
Lemma ai_collect_short post : forall a n fuel,
  chain a post -> (fuel <= length post)%nat ->
  ai_collect fuel {| ai_cur := Some a; ai_n := n |} = None.
Proof.
  induction post as [|b post' IH]; intros a n fuel Hc Hf; (destruct fuel as [|f]; [reflexivity|]);
    cbn [length] in Hf; [lia|].
  cbn [ai_collect]. rewrite ai_next_some. cbn [chain] in Hc. destruct Hc as [Ha Hb].
  rewrite Ha. cbn [fst snd]. rewrite (IH b n f Hb) by lia. reflexivity.
Qed.

(* ------------------------------------------------------------------------------------ *)
(* wmc *)
Section WmcProofs.
  Variable R : Type.
  Variables (radd rmul : R -> R -> R) (rzero rone : R).
  Hypothesis radd_assoc : forall a b c, radd a (radd b c) = radd (radd a b) c.
  Hypothesis radd_0_l : forall a, radd rzero a = a.
  Hypothesis radd_0_r : forall a, radd a rzero = a.
  Hypothesis rmul_assoc : forall a b c, rmul a (rmul b c) = rmul (rmul a b) c.
  Hypothesis rmul_1_l : forall a, rmul rone a = a.
  Hypothesis rmul_1_r : forall a, rmul a rone = a.

  (* spec: sum over the reference enumeration of [f a] * prod_i w_i(a_i) *)
  Definition pick (p : bool * (R * R)) : R := if fst p then snd (snd p) else fst (snd p).
  Definition weight_spec (wv : list (R * R)) (a : list bool) : R :=
    fold_right (fun p s => rmul (pick p) s) rone (combine a wv).
  Definition wmc_sum (wv : list (R * R)) (f : list bool -> bool) (l : list (list bool)) : R :=
    fold_right (fun a s => radd (if f a then weight_spec wv a else rzero) s) rzero l.
  Definition wmc_spec (n : nat) (wv : list (R * R)) (f : list bool -> bool) : R :=
    wmc_sum wv f (all_asg n).

  Lemma asg_weight_spec wv a : asg_weight R rmul rone wv a = weight_spec wv a.
  Proof.
    unfold asg_weight, weight_spec. fold pick.
    enough (G : forall l v, fold_left (fun v p => rmul v (pick p)) l v
                            = rmul v (fold_right (fun p s => rmul (pick p) s) rone l))
      by (rewrite G; apply rmul_1_l).
    induction l as [|p t IH]; intros v; cbn [fold_left fold_right].
    - symmetry; apply rmul_1_r.
    - rewrite IH, rmul_assoc. reflexivity.
  Qed.

  Lemma wmc_loop_chain c wv f post : forall a fuel total,
    chain a post -> (length post < fuel)%nat ->
    (forall b, In b post -> cnf_eval_impl c b = Some (f b)) ->
    wmc_loop R radd rmul rone c wv fuel {| ai_cur := Some a; ai_n := N.to_nat (num_vars c) |} total =
    Some (fold_left (fun t b => if f b then radd t (asg_weight R rmul rone wv b) else t) post total).
  Proof.
    induction post as [|b post' IH]; intros a fuel total Hc Hf He;
      (destruct fuel as [|fu]; [cbn [length] in Hf; lia|]);
      cbn [wmc_loop]; rewrite ai_next_some; cbn [chain] in Hc.
    - rewrite Hc. reflexivity.
    - destruct Hc as [Ha Hb]. rewrite Ha. cbn [fst snd].
      rewrite (He b (or_introl eq_refl)). cbn [fold_left].
      destruct (f b); apply IH; auto; cbn [length] in Hf; try lia;
        intros b' Hb'; apply He; right; exact Hb'.
  Qed.

  Lemma fold_left_sum wv (f : list bool -> bool) l t :
    fold_left (fun t b => if f b then radd t (asg_weight R rmul rone wv b) else t) l t =
    radd t (wmc_sum wv f l).
  Proof.
    revert t; induction l as [|b l' IH]; intros t; cbn [fold_left wmc_sum fold_right].
    - symmetry; apply radd_0_r.
    - rewrite IH. fold (wmc_sum wv f l'). rewrite asg_weight_spec.
      destruct (f b); [rewrite radd_assoc; reflexivity|rewrite radd_0_l; reflexivity].
  Qed.

  Lemma weight_vec_length w i n wv : weight_vec R w i n = Some wv -> length wv = n.
  Proof.
    revert i wv; induction n as [|k IH]; intros i wv H; cbn [weight_vec] in H.
    - inversion H; reflexivity.
    - destruct (nth_error w i) as [[x|]|]; try discriminate.
      destruct (weight_vec R w (S i) k) as [r|] eqn:E; [|discriminate].
      inversion H; subst. cbn [length]. f_equal. eapply IH, E.
  Qed.

  Lemma weight_vec_nth w i n wv j x :
    weight_vec R w i n = Some wv -> nth_error wv j = Some x -> nth_error w (i + j) = Some (Some x).
  Proof.
    revert i wv j; induction n as [|k IH]; intros i wv j H Hj; cbn [weight_vec] in H.
    - inversion H; subst. destruct j; discriminate.
    - destruct (nth_error w i) as [[y|]|] eqn:Ei; try discriminate.
      destruct (weight_vec R w (S i) k) as [r|] eqn:E; [|discriminate].
      inversion H; subst. destruct j as [|j']; cbn [nth_error] in Hj.
      + inversion Hj; subst. rewrite Nat.add_0_r. exact Ei.
      + replace (i + S j')%nat with (S i + j')%nat by lia. eapply IH; eauto.
  Qed.

  Lemma weight_vec_total w i n :
    (forall j, (j < n)%nat -> exists x, nth_error w (i + j) = Some (Some x)) ->
    exists wv, weight_vec R w i n = Some wv.
  Proof.
    revert i; induction n as [|k IH]; intros i H; cbn [weight_vec].
    - eexists; reflexivity.
    - destruct (H 0%nat ltac:(lia)) as [x Hx]. rewrite Nat.add_0_r in Hx. rewrite Hx.
      destruct (IH (S i)) as [r Hr].
      + intros j Hj. destruct (H (S j) ltac:(lia)) as [y Hy].
        exists y. replace (S i + j)%nat with (i + S j)%nat by lia. exact Hy.
      + rewrite Hr. eexists; reflexivity.
  Qed.

  Lemma weight_vec_missing w i n j :
    (j < n)%nat -> (nth_error w (i + j) = None \/ nth_error w (i + j) = Some None) ->
    weight_vec R w i n = None.
  Proof.
    revert i j; induction n as [|k IH]; intros i j Hj Hm; [lia|]. cbn [weight_vec].
    destruct j as [|j'].
    - rewrite Nat.add_0_r in Hm. destruct Hm as [-> | ->]; reflexivity.
    - destruct (nth_error w i) as [[x|]|]; try reflexivity.
      rewrite (IH (S i) j'); [reflexivity|lia|].
      replace (S i + j')%nat with (i + S j')%nat by lia. exact Hm.
  Qed.

  (* the brute-force count is the semiring sum over all assignments of the variables
     0..num_vars-1; it panics exactly when one of those variables has no weight *)
  Theorem wmc_bruteforce_spec cs w :
    let c := cnf_new cs in
    let n := N.to_nat (num_vars c) in
    (forall wv, weight_vec R w 0 n = Some wv ->
       wmc R radd rmul rzero rone c w = Some (wmc_spec n wv (fun a => cnf_sem (asg_of_list a) cs))) /\
    (weight_vec R w 0 n = None -> wmc R radd rmul rzero rone c w = None).
  Proof.
    intros c n. split.
    - intros wv Hwv. unfold wmc. fold c n. rewrite Hwv.
      destruct (all_asg_chain n) as [rest [E Hc]].
      pose proof (all_asg_length n) as HL. rewrite E in HL. cbn [length] in HL.
      assert (Hev : forall b, In b (all_asg n) -> cnf_eval_impl c b = Some (cnf_sem (asg_of_list b) cs)).
      { intros b Hb. apply all_asg_In in Hb. apply (proj1 (eval_spec cs b)). fold c. unfold n in Hb. lia. }
      cbn [wmc_loop ai_new ai_next ai_cur ai_n].
      rewrite (Hev (repeat false n)) by (rewrite E; left; reflexivity).
      unfold wmc_spec. rewrite E. cbn [wmc_sum fold_right].
      fold (wmc_sum wv (fun a => cnf_sem (asg_of_list a) cs) rest).
      destruct (cnf_sem (asg_of_list (repeat false n)) cs).
      + unfold n. rewrite (wmc_loop_chain c wv (fun a => cnf_sem (asg_of_list a) cs) rest); auto; try (fold n; lia).
        * rewrite fold_left_sum, asg_weight_spec, radd_0_l. reflexivity.
        * intros b Hb. apply Hev. rewrite E. right; exact Hb.
      + unfold n. rewrite (wmc_loop_chain c wv (fun a => cnf_sem (asg_of_list a) cs) rest); auto; try (fold n; lia).
        * rewrite fold_left_sum. reflexivity.
        * intros b Hb. apply Hev. rewrite E. right; exact Hb.
    - intros H. unfold wmc. fold c n. rewrite H. reflexivity.
  Qed.

  (* D6: a formula without clauses has no variables and weight one *)
  Corollary wmc_empty_formula w : wmc R radd rmul rzero rone (cnf_new []) w = Some rone.
  Proof.
    destruct (wmc_bruteforce_spec [] w) as [H _]. specialize (H [] eq_refl). rewrite H.
    f_equal. unfold wmc_spec, wmc_sum, weight_spec. cbn. apply radd_0_r.
  Qed.

  Lemma wmc_sum_false wv f l : (forall a, f a = false) -> wmc_sum wv f l = rzero.
  Proof.
    intros Hf. induction l as [|a l' IH]; [reflexivity|].
    cbn [wmc_sum fold_right]. fold (wmc_sum wv f l'). rewrite Hf, IH. apply radd_0_l.
  Qed.

  (* a formula containing the empty clause has weight zero *)
  Corollary wmc_empty_clause cs w wv :
    In [] cs -> weight_vec R w 0 (N.to_nat (num_vars (cnf_new cs))) = Some wv ->
    wmc R radd rmul rzero rone (cnf_new cs) w = Some rzero.
  Proof.
    intros Hin Hwv. destruct (wmc_bruteforce_spec cs w) as [H _]. rewrite (H wv Hwv).
    f_equal. apply wmc_sum_false. intros a.
    unfold cnf_sem. apply not_true_is_false. intros Ht. rewrite forallb_forall in Ht.
    specialize (Ht [] Hin). discriminate.
  Qed.
End WmcProofs.

(* ------------------------------------------------------------------------------------ *)
(* Literal bit packing *)
Lemma two63_pos : two63 <> 0. Proof. discriminate. Qed.

Lemma mod64_mod63 v : (v mod two64) mod two63 = v mod two63.
Proof.
  change two64 with (two63 * 2). rewrite N.mod_mul_r by discriminate.
  rewrite (N.mul_comm two63), N.mod_add by discriminate. apply N.mod_mod; discriminate.
Qed.

Lemma set_label_zero v : set_label 0 v = v mod two63.
Proof.
  unfold set_label, bf_set.
  change ((2 ^ (63 - 0) - 1) * 2 ^ 0) with (N.ones 63).
  rewrite N.ldiff_0_l, N.lor_0_l, N.land_ones.
  change (2 ^ 0) with 1. rewrite N.mul_1_r. apply mod64_mod63.
Qed.

Lemma land_low_two63 x : N.land (x mod two63) two63 = 0.
Proof.
  apply N.bits_inj. intros n. rewrite N.land_spec, N.bits_0.
  unfold two63 at 2. rewrite N.pow2_bits_eqb.
  destruct (N.eqb_spec 63 n) as [<-|Hne]; [|apply andb_false_r].
  unfold two63. rewrite N.mod_pow2_bits_high by lia. reflexivity.
Qed.

Lemma set_polarity_low x (p : bool) :
  set_polarity (x mod two63) (if p then 1 else 0) = x mod two63 + (if p then two63 else 0).
Proof.
  unfold set_polarity, bf_set.
  change ((2 ^ (64 - 63) - 1) * 2 ^ 63) with two63.
  assert (E1 : N.ldiff (x mod two63) two63 = x mod two63).
  { apply N.bits_inj. intros n. rewrite N.ldiff_spec.
    unfold two63 at 2. rewrite N.pow2_bits_eqb.
    destruct (N.eqb_spec 63 n) as [<-|Hne]; [|apply andb_true_r].
    unfold two63. rewrite N.mod_pow2_bits_high by lia. reflexivity. }
  rewrite E1. destruct p.
  - change (N.land ((1 * 2 ^ 63) mod two64) two63) with two63.
    rewrite <- N.lxor_lor by apply land_low_two63.
    symmetry. apply N.add_nocarry_lxor, land_low_two63.
  - change (N.land ((0 * 2 ^ 63) mod two64) two63) with 0.
    rewrite N.lor_0_r, N.add_0_r. reflexivity.
Qed.

(* the packed word: 63 label bits, the polarity in bit 63 *)
Theorem literal_new_value l p :
  literal_new l p = l mod two63 + (if p then two63 else 0).
Proof. unfold literal_new. rewrite set_label_zero. apply set_polarity_low. Qed.

Lemma literal_new_lt l p : literal_new l p < two64.
Proof.
  rewrite literal_new_value. pose proof (N.mod_lt l two63 two63_pos) as H.
  change two64 with (two63 + two63). destruct p; lia.
Qed.

Lemma raw_label_value d : d < two64 -> raw_label d = d mod two63.
Proof.
  intros Hd. unfold raw_label, bf_get.
  change (2 ^ (64 - 63)) with 2. change (2 ^ (64 - 63 + 0)) with 2.
  change two64 with (two63 * 2). rewrite N.mul_mod_distr_r by discriminate.
  apply N.div_mul; discriminate.
Qed.

Lemma raw_polarity_value d : d < two64 -> raw_polarity d = d / two63.
Proof.
  intros Hd. unfold raw_polarity, bf_get.
  change (2 ^ (64 - 64)) with 1. change (2 ^ (64 - 64 + 63)) with two63.
  rewrite N.mul_1_r, N.mod_small by exact Hd. reflexivity.
Qed.

(* round trip: the label survives modulo 2^63 (so exactly when it is below 2^63), the
   polarity always *)
Theorem literal_roundtrip l p :
  literal_label (literal_new l p) = l mod two63 /\ literal_polarity (literal_new l p) = p.
Proof.
  unfold literal_label, literal_polarity.
  rewrite raw_label_value, raw_polarity_value by apply literal_new_lt.
  rewrite literal_new_value. pose proof (N.mod_lt l two63 two63_pos) as H. split.
  - destruct p.
    + replace (l mod two63 + two63) with (l mod two63 + 1 * two63) by lia.
      rewrite N.mod_add by discriminate. apply N.mod_mod; discriminate.
    + rewrite N.add_0_r. apply N.mod_mod; discriminate.
  - destruct p.
    + replace (l mod two63 + two63) with (l mod two63 + 1 * two63) by lia.
      rewrite N.div_add by discriminate. rewrite N.div_small by exact H. reflexivity.
    + rewrite N.add_0_r, N.div_small by exact H. reflexivity.
Qed.

Corollary literal_view_new l p : l < two63 -> literal_view (literal_new l p) = (l, p).
Proof.
  intros Hl. unfold literal_view. destruct (literal_roundtrip l p) as [-> ->].
  rewrite N.mod_small by exact Hl. reflexivity.
Qed.

Corollary literal_new_inj l1 p1 l2 p2 :
  l1 < two63 -> l2 < two63 -> literal_new l1 p1 = literal_new l2 p2 -> l1 = l2 /\ p1 = p2.
Proof.
  intros H1 H2 E. pose proof (literal_view_new l1 p1 H1) as V1.
  rewrite E, (literal_view_new l2 p2 H2) in V1. inversion V1; auto.
Qed.

Theorem literal_negated_view d :
  literal_view (literal_negated d) = (literal_label d mod two63, negb (literal_polarity d)).
Proof.
  unfold literal_negated, literal_view.
  destruct (literal_roundtrip (literal_label d) (negb (literal_polarity d))) as [-> ->]. reflexivity.
Qed.

(* ------------------------------------------------------------------------------------ *)
(* VarSet / PartialModel laws *)
Lemma vs_contains_insert v s w : vs_contains (vs_insert v s) w = (w =? v) || vs_contains s w.
Proof.
  unfold vs_contains. induction s as [|x t IH]; cbn [vs_insert existsb].
  - reflexivity.
  - destruct (v <? x); [reflexivity|]. destruct (N.eqb_spec v x) as [->|Hne].
    + cbn [existsb]. destruct (w =? x); reflexivity.
    + cbn [existsb]. rewrite IH. destruct (w =? v), (w =? x); reflexivity.
Qed.

Lemma vs_contains_remove v s w : vs_contains (vs_remove v s) w = negb (w =? v) && vs_contains s w.
Proof.
  unfold vs_contains, vs_remove. induction s as [|x t IH]; cbn [filter existsb].
  - rewrite andb_false_r; reflexivity.
  - destruct (N.eqb_spec x v) as [->|Hne]; cbn [negb existsb]; rewrite IH.
    + destruct (w =? v); reflexivity.
    + destruct (N.eqb_spec w x) as [->|Hwx]; cbn [orb].
      * destruct (N.eqb_spec x v); [contradiction|reflexivity].
      * reflexivity.
Qed.

Lemma vs_contains_In s v : vs_contains s v = true <-> In v s.
Proof.
  unfold vs_contains. rewrite existsb_exists. split.
  - intros [x [Hx He]]. apply N.eqb_eq in He. subst; exact Hx.
  - intros H. exists v. split; [exact H|apply N.eqb_refl].
Qed.

Lemma vs_contains_difference s o w :
  vs_contains (vs_difference s o) w = vs_contains s w && negb (vs_contains o w).
Proof.
  apply eq_true_iff_eq. rewrite andb_true_iff, negb_true_iff, !vs_contains_In.
  unfold vs_difference. rewrite filter_In, negb_true_iff. reflexivity.
Qed.

(* iteration order: a VarSet stays strictly increasing (BitSet iterates in index order) *)
Definition vs_wf (s : varset) : Prop := StronglySorted N.lt s.

Lemma vs_insert_In v s y : In y (vs_insert v s) <-> y = v \/ In y s.
Proof.
  rewrite <- !vs_contains_In, vs_contains_insert, orb_true_iff, N.eqb_eq. reflexivity.
Qed.

Lemma vs_insert_wf v s : vs_wf s -> vs_wf (vs_insert v s).
Proof.
  unfold vs_wf. induction s as [|x t IH]; intros H; cbn [vs_insert].
  - repeat constructor.
  - inversion H as [|? ? Ht Hx]; subst.
    destruct (N.ltb_spec v x) as [Hlt|Hge].
    + constructor; [exact H|]. constructor; [exact Hlt|].
      eapply Forall_impl; [|exact Hx]. intros a Ha; cbn beta in *. lia.
    + destruct (N.eqb_spec v x) as [->|Hne]; [exact H|].
      constructor; [apply IH, Ht|]. apply Forall_forall. intros y Hy.
      apply vs_insert_In in Hy. destruct Hy as [->|Hy]; [lia|].
      rewrite Forall_forall in Hx. apply Hx, Hy.
Qed.

Lemma filter_wf p s : vs_wf s -> vs_wf (filter p s).
Proof.
  unfold vs_wf. induction s as [|x t IH]; intros H; cbn [filter]; [constructor|].
  inversion H as [|? ? Ht Hx]; subst. destruct (p x); [|apply IH, Ht].
  constructor; [apply IH, Ht|]. apply Forall_forall. intros y Hy. apply filter_In in Hy.
  rewrite Forall_forall in Hx. apply Hx, Hy.
Qed.

Lemma vs_remove_wf v s : vs_wf s -> vs_wf (vs_remove v s).
Proof. apply filter_wf. Qed.
Lemma vs_difference_wf s o : vs_wf s -> vs_wf (vs_difference s o).
Proof. apply filter_wf. Qed.

Definition pm_wf (m : pmodel) : Prop :=
  vs_wf (pm_true m) /\ vs_wf (pm_false m) /\
  (forall v, vs_contains (pm_true m) v = true -> vs_contains (pm_false m) v = false).

Theorem pm_get_new n v : pm_get (pm_new n) v = None.
Proof. reflexivity. Qed.

Theorem pm_get_set m v b w : pm_get (pm_set m v b) w = if w =? v then Some b else pm_get m w.
Proof.
  unfold pm_get, pm_set. destruct b; cbn [pm_true pm_false];
    rewrite vs_contains_insert, vs_contains_remove; destruct (w =? v); cbn [orb negb andb]; reflexivity.
Qed.

Theorem pm_get_unset m v w : pm_get (pm_unset m v) w = if w =? v then None else pm_get m w.
Proof.
  unfold pm_get, pm_unset. cbn [pm_true pm_false].
  rewrite !vs_contains_remove. destruct (w =? v); cbn [negb andb]; reflexivity.
Qed.

Theorem pm_is_set_spec m v :
  pm_is_set m v = match pm_get m v with Some _ => true | None => false end.
Proof.
  unfold pm_is_set, pm_get.
  destruct (vs_contains (pm_true m) v), (vs_contains (pm_false m) v); reflexivity.
Qed.

Theorem pm_lit_neg_implied_iff m l :
  pm_lit_neg_implied m l = true <-> pm_get m (fst l) = Some (negb (snd l)).
Proof.
  unfold pm_lit_neg_implied. destruct (pm_get m (fst l)) as [b|]; [|split; discriminate].
  destruct b, (snd l); cbn; split; intros H; try reflexivity; try discriminate.
Qed.

Lemma pm_new_wf n : pm_wf (pm_new n).
Proof. split; [constructor|split; [constructor|intros v H; discriminate]]. Qed.

Lemma pm_set_wf m v b : pm_wf m -> pm_wf (pm_set m v b).
Proof.
  intros (Ht & Hf & Hd). unfold pm_set, pm_wf. destruct b; cbn [pm_true pm_false].
  - split; [apply vs_insert_wf, Ht|]. split; [apply vs_remove_wf, Hf|].
    intros w. rewrite vs_contains_insert, vs_contains_remove.
    destruct (N.eqb_spec w v) as [->|Hne]; cbn [orb negb andb]; [intros _; reflexivity|apply Hd].
  - split; [apply vs_remove_wf, Ht|]. split; [apply vs_insert_wf, Hf|].
    intros w. rewrite vs_contains_insert, vs_contains_remove.
    destruct (N.eqb_spec w v) as [->|Hne]; cbn [orb negb andb]; [discriminate|apply Hd].
Qed.

Lemma pm_unset_wf m v : pm_wf m -> pm_wf (pm_unset m v).
Proof.
  intros (Ht & Hf & Hd). unfold pm_unset, pm_wf. cbn [pm_true pm_false]. split; [|split].
  - apply vs_remove_wf, Ht.
  - apply vs_remove_wf, Hf.
  - intros w. rewrite !vs_contains_remove. destruct (w =? v); cbn [negb andb]; auto.
Qed.

(* assignment_iter lists exactly the assigned literals (false ones first) *)
Theorem pm_assignment_iter_spec m l :
  pm_wf m -> (In l (pm_assignment_iter m) <-> pm_get m (fst l) = Some (snd l)).
Proof.
  intros (_ & _ & Hd). unfold pm_assignment_iter, pm_get. rewrite in_app_iff, !in_map_iff.
  destruct l as [v b]; cbn [fst snd]. specialize (Hd v). split.
  - intros [[x [E Hx]]|[x [E Hx]]]; inversion E; subst; apply vs_contains_In in Hx.
    + destruct (vs_contains (pm_true m) v); [specialize (Hd eq_refl); congruence|].
      rewrite Hx. reflexivity.
    + rewrite Hx. reflexivity.
  - destruct (vs_contains (pm_true m) v) eqn:Et.
    + intros H; inversion H; subst. right. exists v. split; [reflexivity|apply vs_contains_In, Et].
    + destruct (vs_contains (pm_false m) v) eqn:Ef; [|discriminate].
      intros H; inversion H; subst. left. exists v. split; [reflexivity|apply vs_contains_In, Ef].
Qed.

(* difference: the literals assigned by m that o does not assign the same way *)
Theorem pm_difference_spec m o l :
  pm_wf m -> pm_wf o ->
  (In l (pm_difference m o) <-> pm_get m (fst l) = Some (snd l) /\ pm_get o (fst l) <> Some (snd l)).
Proof.
  intros (_ & _ & Hdm) (_ & _ & Hdo). unfold pm_difference, pm_get.
  rewrite in_app_iff, !in_map_iff. destruct l as [v b]; cbn [fst snd].
  specialize (Hdm v). specialize (Hdo v). split.
  - intros [[x [E Hx]]|[x [E Hx]]]; inversion E; subst; apply vs_contains_In in Hx;
      rewrite vs_contains_difference in Hx; apply andb_true_iff in Hx; destruct Hx as [H1 H2];
      apply negb_true_iff in H2.
    + destruct (vs_contains (pm_true m) v); [specialize (Hdm eq_refl); congruence|].
      rewrite H1, H2. split; [reflexivity|]. destruct (vs_contains (pm_true o) v); discriminate.
    + rewrite H1, H2. split; [reflexivity|]. destruct (vs_contains (pm_false o) v); discriminate.
  - intros [H1 H2].
    destruct (vs_contains (pm_true m) v) eqn:Et.
    + inversion H1; subst. right. exists v. split; [reflexivity|].
      apply vs_contains_In. rewrite vs_contains_difference, Et.
      destruct (vs_contains (pm_true o) v); [congruence|reflexivity].
    + destruct (vs_contains (pm_false m) v) eqn:Ef; [|discriminate].
      inversion H1; subst. left. exists v. split; [reflexivity|].
      apply vs_contains_In. rewrite vs_contains_difference, Ef.
      destruct (vs_contains (pm_true o) v) eqn:Eto.
      * rewrite (Hdo eq_refl). reflexivity.
      * destruct (vs_contains (pm_false o) v); [congruence|reflexivity].
Qed.

(* from_assignments / from_total_model / from_litvec *)
Definition asg_at (l : list (option bool)) (k : nat) (b : bool) : bool :=
  match nth_error l k with Some (Some b') => Bool.eqb b b' | _ => false end.
Definition side (b : bool) (m : pmodel) : varset := if b then pm_true m else pm_false m.

Lemma aux_side b l : forall i acc v,
  vs_contains (side b (pm_from_assignments_aux l i acc)) v =
  vs_contains (side b acc) v || ((i <=? v) && asg_at l (N.to_nat (v - i)) b).
Proof.
  induction l as [|a t IH]; intros i acc v; cbn [pm_from_assignments_aux].
  - unfold asg_at. destruct (N.to_nat (v - i)); cbn [nth_error]; rewrite andb_false_r, orb_false_r; reflexivity.
  - rewrite IH.
    assert (Hs : vs_contains (side b match a with
                  | Some true => {| pm_true := vs_insert i (pm_true acc); pm_false := pm_false acc |}
                  | Some false => {| pm_true := pm_true acc; pm_false := vs_insert i (pm_false acc) |}
                  | None => acc end) v
                 = vs_contains (side b acc) v
                   || ((v =? i) && match a with Some b' => Bool.eqb b b' | None => false end)).
    { destruct a as [[|]|], b; cbn [side pm_true pm_false Bool.eqb];
        rewrite ?vs_contains_insert, ?andb_false_r, ?andb_true_r, ?orb_false_r;
        try reflexivity; apply orb_comm. }
    rewrite Hs, <- orb_assoc. f_equal.
    destruct (N.ltb_spec v i) as [Hlt|Hge].
    + destruct (N.eqb_spec v i); [lia|]. destruct (N.leb_spec i v); [lia|].
      destruct (N.leb_spec (i + 1) v); [lia|]. reflexivity.
    + destruct (N.eqb_spec v i) as [E|Hne].
      * subst v. rewrite N.sub_diag. destruct (N.leb_spec (i + 1) i); [lia|].
        destruct (N.leb_spec i i); [|lia]. unfold asg_at; cbn [N.to_nat nth_error andb orb].
        rewrite orb_false_r. reflexivity.
      * destruct (N.leb_spec i v); [|lia]. destruct (N.leb_spec (i + 1) v); [|lia].
        replace (N.to_nat (v - i)) with (S (N.to_nat (v - (i + 1)))) by lia.
        reflexivity.
Qed.

Theorem pm_from_assignments_get l v :
  pm_get (pm_from_assignments l) v =
  match nth_error l (N.to_nat v) with Some (Some b) => Some b | _ => None end.
Proof.
  unfold pm_get, pm_from_assignments.
  change (pm_true ?m) with (side true m). change (pm_false ?m) with (side false m).
  rewrite !aux_side. cbn [side pm_new pm_true pm_false vs_contains existsb orb].
  rewrite N.sub_0_r. destruct (N.leb_spec 0 v); [|lia]. cbn [andb]. unfold asg_at.
  destruct (nth_error l (N.to_nat v)) as [[[|]|]|]; reflexivity.
Qed.

Corollary pm_from_total_model_get l v :
  pm_get (pm_from_total_model l) v = nth_error l (N.to_nat v).
Proof.
  unfold pm_from_total_model. rewrite pm_from_assignments_get, nth_error_map.
  destruct (nth_error l (N.to_nat v)); reflexivity.
Qed.

Lemma aux_sorted b l : forall i acc,
  vs_wf (side b acc) -> vs_wf (side b (pm_from_assignments_aux l i acc)).
Proof.
  induction l as [|a t IH]; intros i acc H; cbn [pm_from_assignments_aux]; [exact H|].
  apply IH. destruct a as [[|]|], b; cbn [side pm_true pm_false] in *;
    try exact H; apply vs_insert_wf, H.
Qed.

Theorem pm_from_assignments_wf l : pm_wf (pm_from_assignments l).
Proof.
  unfold pm_wf, pm_from_assignments. split; [|split].
  - apply (aux_sorted true). constructor.
  - apply (aux_sorted false). constructor.
  - intros v. change (pm_true ?m) with (side true m). change (pm_false ?m) with (side false m).
    rewrite !aux_side. cbn [side pm_new pm_true pm_false vs_contains existsb orb].
    unfold asg_at. destruct (nth_error l (N.to_nat (v - 0))) as [[[|]|]|];
      rewrite ?andb_false_r; cbn [Bool.eqb]; auto; discriminate.
Qed.

(* from_litvec: the last literal on a variable wins; a label >= num_vars panics *)
Definition last_asg (lits : list lit) (v : N) (init : option bool) : option bool :=
  fold_left (fun acc l => if fst l =? v then Some (snd l) else acc) lits init.

Lemma litvec_fill_spec lits : forall init r,
  litvec_fill lits init = Some r ->
  length r = length init /\
  (forall l, In l lits -> (N.to_nat (fst l) < length init)%nat) /\
  (forall v, (N.to_nat v < length init)%nat ->
             nth (N.to_nat v) r None = last_asg lits v (nth (N.to_nat v) init None)).
Proof.
  induction lits as [|l t IH]; intros init r H; cbn [litvec_fill] in H.
  - inversion H; subst. split; [reflexivity|]. split; [intros l []|]. reflexivity.
  - destruct (Nat.ltb_spec (N.to_nat (fst l)) (length init)) as [Hlt|Hge]; [|discriminate].
    destruct (IH _ _ H) as (H1 & H2 & H3). rewrite length_set_nth in *.
    split; [exact H1|]. split.
    + intros l' [<-|Hl']; [exact Hlt|apply H2, Hl'].
    + intros v Hv. rewrite (H3 v Hv). unfold last_asg. cbn [fold_left]. f_equal.
      destruct (N.eqb_spec (fst l) v) as [E|Hne].
      * subst v. apply nth_set_nth_eq, Hlt.
      * apply nth_set_nth_neq. intros E. apply Hne. apply N2Nat.inj, E.
Qed.

Lemma litvec_fill_none lits : forall init,
  (exists l, In l lits /\ (length init <= N.to_nat (fst l))%nat) -> litvec_fill lits init = None.
Proof.
  induction lits as [|l t IH]; intros init [l' [Hin Hl']]; [destruct Hin|].
  cbn [litvec_fill]. destruct (Nat.ltb_spec (N.to_nat (fst l)) (length init)) as [Hlt|Hge]; [|reflexivity].
  apply IH. rewrite length_set_nth. destruct Hin as [->|Hin]; [lia|]. exists l'; auto.
Qed.

Lemma litvec_fill_some lits : forall init,
  (forall l, In l lits -> (N.to_nat (fst l) < length init)%nat) -> exists r, litvec_fill lits init = Some r.
Proof.
  induction lits as [|l t IH]; intros init H; cbn [litvec_fill]; [eexists; reflexivity|].
  destruct (Nat.ltb_spec (N.to_nat (fst l)) (length init)) as [Hlt|Hge].
  - apply IH. intros l' Hl'. rewrite length_set_nth. apply H. right; exact Hl'.
  - specialize (H l (or_introl eq_refl)). lia.
Qed.

Lemma last_asg_none lits v : (forall l, In l lits -> fst l <> v) -> last_asg lits v None = None.
Proof.
  unfold last_asg. induction lits as [|l t IH]; intros H; [reflexivity|]. cbn [fold_left].
  destruct (N.eqb_spec (fst l) v) as [E|_]; [exfalso; apply (H l (or_introl eq_refl) E)|].
  apply IH. intros l' Hl'. apply H. right; exact Hl'.
Qed.

Theorem pm_from_litvec_spec lits n :
  ((forall l, In l lits -> fst l < n) ->
     exists m, pm_from_litvec lits n = Some m /\ pm_wf m /\
               forall v, pm_get m v = last_asg lits v None) /\
  ((exists l, In l lits /\ n <= fst l) -> pm_from_litvec lits n = None).
Proof.
  unfold pm_from_litvec. split.
  - intros Hr.
    destruct (litvec_fill_some lits (repeat None (N.to_nat n))) as [r Hfill].
    { intros l Hl. rewrite repeat_length. specialize (Hr l Hl). lia. }
    rewrite Hfill. eexists. split; [reflexivity|]. split; [apply pm_from_assignments_wf|].
    intros v. rewrite pm_from_assignments_get.
    destruct (litvec_fill_spec _ _ _ Hfill) as (H1 & _ & H3). rewrite repeat_length in *.
    destruct (Nat.ltb_spec (N.to_nat v) (N.to_nat n)) as [Hlt|Hge].
    + specialize (H3 v Hlt). rewrite nth_repeat_lt in H3.
      destruct (Nat.ltb_spec (N.to_nat v) (N.to_nat n)); [|lia].
      rewrite <- H3. destruct (nth_error r (N.to_nat v)) as [o|] eqn:E.
      * rewrite (nth_error_nth _ _ None E). destruct o; reflexivity.
      * apply nth_error_None in E. lia.
    + rewrite last_asg_none.
      * destruct (nth_error r (N.to_nat v)) as [o|] eqn:E; [|reflexivity].
        assert (nth_error r (N.to_nat v) <> None) as Hn by congruence.
        apply nth_error_Some in Hn. lia.
      * intros l Hl E. specialize (Hr l Hl). subst. lia.
  - intros [l [Hl Hn]]. rewrite litvec_fill_none; [reflexivity|].
    exists l. split; [exact Hl|]. rewrite repeat_length. lia.
Qed.

(* ------------------------------------------------------------------------------------ *)
(* The prime stream *)
Definition Nprime (n : N) : Prop := prime (Z.of_N n).

Lemma is_prime_sound n : is_prime n = true -> Nprime n.
Proof.
  unfold is_prime, Nprime. rewrite andb_true_iff, forallb_forall. intros [H2 Hall].
  apply N.leb_le in H2. apply prime_alt. split; [lia|].
  intros d [Hd1 Hd2] Hdiv.
  specialize (Hall (Z.to_nat d)). rewrite in_seq in Hall.
  assert (Hd : N.of_nat (Z.to_nat d) = Z.to_N d) by lia.
  rewrite Hd in Hall. specialize (Hall ltac:(lia)).
  apply negb_true_iff, N.eqb_neq in Hall. apply Hall.
  apply N2Z.inj. rewrite N2Z.inj_mod. rewrite Z2N.id by lia.
  apply Z.mod_divide; [lia|exact Hdiv].
Qed.

Lemma take_primes_spec fuel : forall k cand ps,
  take_primes k cand fuel = Some ps ->
  length ps = k /\ Forall (fun p => is_prime p = true) ps /\ Forall (fun p => cand <= p) ps /\
  StronglySorted N.lt ps.
Proof.
  induction fuel as [|f IH]; intros k cand ps H; destruct k as [|k']; cbn [take_primes] in H;
    try (inversion H; subst; repeat split; constructor); try discriminate.
  destruct (is_prime cand) eqn:Ep.
  - destruct (take_primes k' (cand + 1) f) as [r|] eqn:Er; [|discriminate].
    inversion H; subst. destruct (IH _ _ _ Er) as (H1 & H2 & H3 & H4).
    split; [cbn [length]; lia|]. split; [constructor; assumption|]. split.
    + constructor; [lia|]. eapply Forall_impl; [|exact H3]. intros a Ha; cbn beta in *; lia.
    + constructor; [exact H4|]. eapply Forall_impl; [|exact H3]. intros a Ha; cbn beta in *; lia.
  - destruct (IH _ _ _ H) as (H1 & H2 & H3 & H4).
    split; [exact H1|]. split; [exact H2|]. split; [|exact H4].
    eapply Forall_impl; [|exact H3]. intros a Ha; cbn beta in *; lia.
Qed.

Lemma StronglySorted_lt_NoDup l : StronglySorted N.lt l -> NoDup l.
Proof.
  induction 1 as [|a l Hs IH Hf]; constructor; [|exact IH].
  intros Hin. rewrite Forall_forall in Hf. specialize (Hf a Hin). lia.
Qed.

(* products *)
Definition prodN (l : list N) : N := fold_right N.mul 1 l.
Definition prodZ (l : list Z) : Z := fold_right Z.mul 1%Z l.

Lemma prodN_app a b : prodN (a ++ b) = prodN a * prodN b.
Proof.
  induction a as [|x a IH]; cbn [app prodN fold_right].
  - rewrite N.mul_1_l; reflexivity.
  - fold (prodN (a ++ b)). fold (prodN a). rewrite IH. lia.
Qed.

Lemma prodN_Z l : Z.of_N (prodN l) = prodZ (map Z.of_N l).
Proof.
  induction l as [|x l IH]; [reflexivity|].
  cbn [prodN prodZ fold_right map]. fold (prodN l). fold (prodZ (map Z.of_N l)).
  rewrite N2Z.inj_mul, IH. reflexivity.
Qed.

Lemma prodN_perm a b : Permutation a b -> prodN a = prodN b.
Proof.
  induction 1 as [|x a b Hp IH|x y a|a b c H1 IH1 H2 IH2]; cbn [prodN fold_right] in *.
  - reflexivity.
  - fold (prodN a). fold (prodN b). rewrite IH. reflexivity.
  - fold (prodN a). lia.
  - congruence.
Qed.

Lemma prodN_pos l : Forall (fun p => 0 < p) l -> 0 < prodN l.
Proof.
  induction 1 as [|x l Hx Hl IH]; cbn [prodN fold_right]; [lia|]. fold (prodN l). nia.
Qed.

(* a prime dividing a product of primes is one of them *)
Lemma prime_divides_prodZ p l :
  prime p -> Forall prime l -> (p | prodZ l)%Z -> In p l.
Proof.
  intros Hp Hl. induction Hl as [|q l Hq Hl IH]; cbn [prodZ fold_right]; intros Hd.
  - exfalso. apply Z.divide_1_r_nonneg in Hd; [|destruct Hp; lia]. destruct Hp; lia.
  - fold (prodZ l) in Hd. destruct (prime_mult p Hp _ _ Hd) as [H|H].
    + left. symmetry. apply prime_div_prime; assumption.
    + right. apply IH, H.
Qed.

(* unique factorisation, in the form needed: two sub-products of a list of distinct primes
   are equal only if they select the same factors *)
Lemma uf_filter {A} (w : A -> N) (L : list A) (f1 f2 : A -> bool) :
  NoDup (map w L) -> (forall x, In x L -> Nprime (w x)) ->
  prodN (map w (filter f1 L)) = prodN (map w (filter f2 L)) ->
  forall x, In x L -> f1 x = f2 x.
Proof.
  induction L as [|a L IH]; intros Hnd Hpr He x Hx; [destruct Hx|].
  cbn [map] in Hnd. inversion Hnd as [|? ? Hnin Hnd']; subst.
  assert (Hpr' : forall y, In y L -> Nprime (w y)) by (intros y Hy; apply Hpr; right; exact Hy).
  assert (Hpa : Nprime (w a)) by (apply Hpr; left; reflexivity).
  assert (Hpos : w a <> 0) by (unfold Nprime in Hpa; destruct Hpa; lia).
  assert (Hcontra : forall g P, w a * P = prodN (map w (filter g L)) -> False).
  { intros g P HP. apply Hnin.
    assert (Hin : In (Z.of_N (w a)) (map Z.of_N (map w (filter g L)))).
    { apply prime_divides_prodZ.
      - exact Hpa.
      - apply Forall_forall. intros z Hz. apply in_map_iff in Hz. destruct Hz as [n [<- Hn]].
        apply in_map_iff in Hn. destruct Hn as [y [<- Hy]]. apply filter_In in Hy. apply Hpr', Hy.
      - rewrite <- prodN_Z, <- HP, N2Z.inj_mul. apply Z.divide_factor_l. }
    apply in_map_iff in Hin. destruct Hin as [n [Hn Hin]]. apply N2Z.inj in Hn. subst n.
    apply in_map_iff in Hin. destruct Hin as [y [Hy Hyin]]. apply filter_In in Hyin.
    rewrite <- Hy. apply in_map, Hyin. }
  cbn [filter] in He.
  destruct (f1 a) eqn:E1, (f2 a) eqn:E2; cbn [map prodN fold_right] in He;
    repeat match type of He with context [fold_right N.mul 1 ?l] => fold (prodN l) in He end.
  - apply N.mul_cancel_l in He; [|exact Hpos].
    destruct Hx as [->|Hx]; [congruence|]. apply (IH Hnd' Hpr' He x Hx).
  - exfalso. apply (Hcontra f2 _ He).
  - exfalso. symmetry in He. apply (Hcontra f1 _ He).
  - destruct Hx as [->|Hx]; [congruence|]. apply (IH Hnd' Hpr' He x Hx).
Qed.

Lemma prodN_filter_le {A} (w : A -> N) (L : list A) (f : A -> bool) :
  (forall x, In x L -> 0 < w x) -> prodN (map w (filter f L)) <= prodN (map w L).
Proof.
  induction L as [|a L IH]; intros Hpos; [cbn; lia|].
  assert (Hpos' : forall x, In x L -> 0 < w x) by (intros x Hx; apply Hpos; right; exact Hx).
  specialize (IH Hpos'). pose proof (Hpos a (or_introl eq_refl)) as Ha.
  cbn [filter]. destruct (f a); cbn [map prodN fold_right];
    repeat match goal with |- context [fold_right N.mul 1 ?l] => fold (prodN l) end.
  - nia.
  - assert (0 < prodN (map w L)).
    { apply prodN_pos, Forall_forall. intros z Hz. apply in_map_iff in Hz.
      destruct Hz as [y [<- Hy]]. apply Hpos', Hy. }
    nia.
Qed.

(* ------------------------------------------------------------------------------------ *)
(* CnfHasher *)
Lemma combine_snd {A B} (c : list B) : forall (qs : list A),
  (length c <= length qs)%nat -> map snd (combine qs c) = c.
Proof.
  induction c as [|l c IHc]; intros qs Hq; [destruct qs; reflexivity|].
  destruct qs as [|q qs]; [cbn [length] in Hq; lia|]. cbn [combine map snd]. f_equal.
  apply IHc. cbn [length] in Hq. lia.
Qed.

Lemma combine_fst {A B} (c : list B) : forall (qs : list A),
  length qs = length c -> map fst (combine qs c) = qs.
Proof.
  induction c as [|l c IHc]; intros qs Hq; destruct qs as [|q qs]; try discriminate; [reflexivity|].
  cbn [combine map fst]. f_equal. apply IHc. cbn [length] in Hq. lia.
Qed.

Lemma assign_primes_snd cs : forall ps,
  (length (concat cs) <= length ps)%nat -> map (map snd) (assign_primes ps cs) = cs.
Proof.
  induction cs as [|c t IH]; intros ps Hl; [reflexivity|].
  cbn [concat] in Hl. rewrite app_length in Hl.
  cbn [assign_primes map]. f_equal.
  - apply combine_snd. rewrite firstn_length. lia.
  - apply IH. rewrite skipn_length. lia.
Qed.

Lemma assign_primes_fst cs : forall ps,
  length (concat cs) = length ps -> concat (map (map fst) (assign_primes ps cs)) = ps.
Proof.
  induction cs as [|c t IH]; intros ps Hl.
  - destruct ps; [reflexivity|discriminate].
  - cbn [concat] in Hl. rewrite app_length in Hl.
    cbn [assign_primes map concat]. rewrite IH by (rewrite skipn_length; lia).
    rewrite <- (firstn_skipn (length c) ps) at 3. f_equal.
    apply combine_fst. rewrite firstn_length. lia.
Qed.

Definition clause_sat (m : pmodel) (c : clause) : bool := existsb (pm_lit_implied m) c.
Definition unassigned (m : pmodel) (l : lit) : bool :=
  match pm_get m (fst l) with None => true | Some _ => false end.

Lemma implied_cases m l :
  (pm_lit_implied m l = true /\ unassigned m l = false) \/
  (pm_lit_implied m l = false /\ pm_lit_neg_implied m l = true /\ unassigned m l = false) \/
  (pm_lit_implied m l = false /\ pm_lit_neg_implied m l = false /\ unassigned m l = true).
Proof.
  unfold pm_lit_implied, pm_lit_neg_implied, unassigned.
  destruct (pm_get m (fst l)) as [b|]; [|right; right; auto].
  destruct (Bool.eqb b (snd l)); [left; auto|right; left; auto].
Qed.

(* the factors a clause contributes *)
Definition sel_clause (m : pmodel) (wc : list (N * lit)) : list N :=
  if clause_sat m (map snd wc) then []
  else map fst (filter (fun wl => unassigned m (snd wl)) wc).
Definition sel (W : list (list (N * lit))) (m : pmodel) (idxs : list nat) : list N :=
  flat_map (fun i => sel_clause m (nth i W [])) idxs.

Lemma two128_pos : two128 <> 0. Proof. discriminate. Qed.

Lemma clause_hash_spec m wc : forall acc, acc < two128 ->
  clause_hash m wc acc =
  if clause_sat m (map snd wc) then None
  else Some ((acc * prodN (map fst (filter (fun wl => unassigned m (snd wl)) wc))) mod two128).
Proof.
  induction wc as [|[w l] t IH]; intros acc Hacc; cbn [clause_hash map clause_sat existsb filter snd].
  - cbn [prodN fold_right map]. rewrite N.mul_1_r, N.mod_small by exact Hacc. reflexivity.
  - fold (clause_sat m (map snd t)).
    destruct (implied_cases m l) as [[H1 H2]|[(H1 & H2 & H3)|(H1 & H2 & H3)]];
      cbn [snd] in *; rewrite H1; cbn [orb]; [reflexivity| |].
    + rewrite H2, H3. apply IH, Hacc.
    + rewrite H2, H3. rewrite IH by (apply N.mod_lt, two128_pos).
      destruct (clause_sat m (map snd t)); [reflexivity|]. f_equal.
      cbn [map fst prodN fold_right]. fold (prodN (map fst (filter (fun wl => unassigned m (snd wl)) t))).
      unfold wrapping_mul. rewrite N.mul_mod_idemp_l by apply two128_pos. f_equal. lia.
Qed.

Lemma hash_top_spec W m idxs : hash_top W m idxs = prodN (sel W m idxs) mod two128.
Proof.
  unfold hash_top.
  enough (G : forall v, v < two128 ->
            fold_left (fun v i => match clause_hash m (nth i W []) 1 with
                                  | None => v | Some cv => wrapping_mul v cv end) idxs v
            = (v * prodN (sel W m idxs)) mod two128).
  { rewrite G by reflexivity. rewrite N.mul_1_l. reflexivity. }
  induction idxs as [|i t IH]; intros v Hv; cbn [fold_left sel flat_map].
  - cbn [prodN fold_right]. rewrite N.mul_1_r, N.mod_small by exact Hv. reflexivity.
  - fold (sel W m t). rewrite prodN_app. rewrite clause_hash_spec by reflexivity.
    unfold sel_clause. destruct (clause_sat m (map snd (nth i W []))).
    + rewrite IH by exact Hv. cbn [prodN fold_right]. rewrite N.mul_1_l. reflexivity.
    + rewrite IH by (apply N.mod_lt, two128_pos). rewrite N.mul_1_l.
      unfold wrapping_mul. rewrite N.mul_mod_idemp_r by apply two128_pos.
      rewrite N.mul_mod_idemp_l by apply two128_pos. f_equal. lia.
Qed.

(* HashSet iteration order does not matter *)
Theorem h_hash_order_irrelevant W m top top' :
  Permutation top top' -> hash_top W m top = hash_top W m top'.
Proof.
  intros Hp. rewrite !hash_top_spec. f_equal. apply prodN_perm.
  unfold sel. apply Permutation_flat_map, Hp.
Qed.

(* the residual formula, tagged with the clause index: for every clause still in the top
   frame and not satisfied by m, its literals not assigned by m *)
Definition residual_top (C : list clause) (m : pmodel) (top : list nat) : list (nat * clause) :=
  flat_map (fun i => let c := nth i C [] in
                     if clause_sat m c then [] else [(i, filter (unassigned m) c)]) top.
Definition h_clauses (h : hasher) : list clause := map (map snd) (h_wcnf h).
Definition residual (h : hasher) (m : pmodel) : option (list (nat * clause)) :=
  match h_state h with
  | [] => None
  | top :: _ => Some (residual_top (h_clauses h) m top)
  end.

(* the hash as a function of the residual alone *)
Definition factors_of (W : list (list (N * lit))) (res : list (nat * clause)) : list N :=
  flat_map (fun e => map fst (filter (fun wl => clause_contains (snd e) (snd wl)) (nth (fst e) W []))) res.

Lemma nth_map_snd (W : list (list (N * lit))) i : nth i (map (map snd) W) [] = map snd (nth i W []).
Proof. apply (map_nth (map snd) W [] i). Qed.

Lemma sel_factors W m top : sel W m top = factors_of W (residual_top (map (map snd) W) m top).
Proof.
  unfold sel, factors_of, residual_top.
  induction top as [|i t IH]; [reflexivity|]. cbn [flat_map]. rewrite IH.
  rewrite flat_map_app. f_equal. rewrite nth_map_snd. unfold sel_clause.
  destruct (clause_sat m (map snd (nth i W []))); [reflexivity|].
  cbn [flat_map fst snd]. rewrite app_nil_r. f_equal. apply filter_ext_in.
  intros wl Hwl. unfold clause_contains. symmetry.
  destruct (unassigned m (snd wl)) eqn:Eu.
  - apply existsb_exists. exists (snd wl). split; [|apply lit_eqb_refl].
    apply filter_In. split; [apply in_map, Hwl|exact Eu].
  - apply not_true_is_false. intros H. apply existsb_exists in H. destruct H as [l' [Hl' He]].
    apply lit_eqb_eq in He. subst l'. apply filter_In in Hl'. destruct Hl' as [_ Hu]. congruence.
Qed.

Lemma h_hash_residual h m :
  h_hash h m = match residual h m with
               | None => None
               | Some res => Some (repeat (prodN (factors_of (h_wcnf h) res) mod two128) cnf_num_primes)
               end.
Proof.
  unfold h_hash, residual, h_clauses. destruct (h_state h) as [|top rest]; [reflexivity|].
  rewrite hash_top_spec, sel_factors. reflexivity.
Qed.

(* "if": two hashers over the same weighted clauses (in particular: the same CnfHasher after
   two arbitrary push/decide/pop histories) give equal hashes whenever the tagged residuals
   coincide -- no side condition *)
Theorem cnfhasher_if_gen h1 h2 m1 m2 :
  h_wcnf h1 = h_wcnf h2 -> residual h1 m1 = residual h2 m2 -> h_hash h1 m1 = h_hash h2 m2.
Proof. intros HW Hr. rewrite !h_hash_residual, HW, Hr. reflexivity. Qed.

Lemma h_step_wcnf h o h' : h_step h o = Some h' ->
  h_wcnf h' = h_wcnf h /\ h_pos h' = h_pos h /\ h_neg h' = h_neg h.
Proof.
  destruct o as [|l|]; cbn [h_step]; unfold h_push, h_decide, h_pop.
  - destruct (h_state h); intros H; inversion H; subst; auto.
  - destruct (nth_error _ _) as [[|i idxs]|]; try discriminate.
    + intros H; inversion H; subst; auto.
    + destruct (h_state h); intros H; inversion H; subst; auto.
  - intros H; inversion H; subst; auto.
Qed.

Lemma h_run_wcnf ops : forall h h', h_run h ops = Some h' ->
  h_wcnf h' = h_wcnf h /\ h_pos h' = h_pos h /\ h_neg h' = h_neg h.
Proof.
  induction ops as [|o t IH]; intros h h' H; cbn [h_run] in H.
  - inversion H; subst; auto.
  - destruct (h_step h o) as [h1|] eqn:E; [|discriminate].
    destruct (h_step_wcnf _ _ _ E) as (A & B & C). destruct (IH _ _ H) as (A' & B' & C').
    repeat split; congruence.
Qed.

Theorem cnfhasher_if h0 ops1 ops2 h1 h2 m1 m2 :
  h_run h0 ops1 = Some h1 -> h_run h0 ops2 = Some h2 ->
  residual h1 m1 = residual h2 m2 -> h_hash h1 m1 = h_hash h2 m2.
Proof.
  intros H1 H2. apply cnfhasher_if_gen.
  destruct (h_run_wcnf _ _ _ H1) as [-> _]. destruct (h_run_wcnf _ _ _ H2) as [-> _]. reflexivity.
Qed.

(* ---- what the state stack is: the spec keeps, per frame, the literals decided in it or
   inherited by it; a frame holds the non-unit clauses containing none of them ---- *)
Definition nonunit (C : list clause) (i : nat) : bool := (1 <? length (nth i C []))%nat.
Definition live_ok (C : list clause) (d : list lit) (i : nat) : bool :=
  negb (existsb (clause_contains (nth i C [])) d).
Definition top_spec (C : list clause) (d : list lit) : list nat :=
  filter (fun i => nonunit C i && live_ok C d i) (seq 0 (length C)).
Definition d_step (st : list (list lit)) (o : hop) : list (list lit) :=
  match o with
  | HPush => match st with d :: r => d :: d :: r | [] => [] end
  | HDecide l => match st with d :: r => (l :: d) :: r | [] => [] end
  | HPop => tl st
  end.
Definition d_run (ops : list hop) : list (list lit) := fold_left d_step ops [[]].

Definition hinv (C : list clause) (nv : N) (h : hasher) (st : list (list lit)) : Prop :=
  h_clauses h = C /\ h_pos h = lit_index C nv true /\ h_neg h = lit_index C nv false /\
  h_state h = map (top_spec C) st.

Lemma hasher_new_facts cs nv h0 :
  hasher_new cs nv = Some h0 ->
  hinv cs nv h0 [[]] /\
  NoDup (concat (map (map fst) (h_wcnf h0))) /\
  Forall Nprime (concat (map (map fst) (h_wcnf h0))).
Proof.
  unfold hasher_new. destruct (take_primes _ _ _) as [ps|] eqn:E; [|discriminate].
  intros H; inversion H; subst; clear H.
  destruct (take_primes_spec _ _ _ _ E) as (Hlen & Hpr & _ & Hss).
  cbn [h_wcnf]. rewrite assign_primes_fst by (symmetry; exact Hlen). split; [|split].
  - unfold hinv, h_clauses. cbn [h_wcnf h_pos h_neg h_state].
    rewrite assign_primes_snd by lia. repeat split.
    cbn [map]. f_equal. unfold top_spec. apply filter_ext. intros i.
    unfold nonunit, live_ok. cbn [existsb negb]. rewrite andb_true_r. reflexivity.
  - apply StronglySorted_lt_NoDup, Hss.
  - eapply Forall_impl; [|exact Hpr]. intros p Hp. apply is_prime_sound, Hp.
Qed.

Lemma nth_error_map_seq {A} (f : nat -> A) n : forall a k,
  nth_error (map f (seq a n)) k = if (k <? n)%nat then Some (f (a + k)%nat) else None.
Proof.
  induction n as [|n IH]; intros a k; cbn [seq map].
  - destruct k; reflexivity.
  - destruct k as [|k]; cbn [nth_error].
    + rewrite Nat.add_0_r. reflexivity.
    + rewrite IH. change (S k <? S n)%nat with (k <? n)%nat.
      replace (S a + k)%nat with (a + S k)%nat by lia. reflexivity.
Qed.

Lemma filter_filter {A} (p q : A -> bool) l :
  filter p (filter q l) = filter (fun x => q x && p x) l.
Proof.
  induction l as [|x l IH]; [reflexivity|]. cbn [filter].
  destruct (q x); cbn [filter andb]; rewrite IH; reflexivity.
Qed.

Lemma fold_filter_remove idxs : forall top,
  fold_left (fun s i => filter (fun j => negb (Nat.eqb j i)) s) idxs top =
  filter (fun j => negb (existsb (Nat.eqb j) idxs)) top.
Proof.
  induction idxs as [|i t IH]; intros top; cbn [fold_left existsb].
  - cbn [negb]. symmetry. clear. induction top as [|x l IH]; [reflexivity|]. cbn [filter]. rewrite IH at 1. reflexivity.
  - rewrite IH, filter_filter. apply filter_ext. intros j.
    destruct (Nat.eqb j i); reflexivity.
Qed.

Lemma mem_filter (P : nat -> bool) L i :
  In i L -> existsb (Nat.eqb i) (filter P L) = P i.
Proof.
  intros Hin. apply eq_true_iff_eq. rewrite existsb_exists. split.
  - intros [x [Hx He]]. apply Nat.eqb_eq in He. subst x. apply filter_In in Hx. apply Hx.
  - intros HP. exists i. split; [apply filter_In; auto|apply Nat.eqb_refl].
Qed.

Lemma filter_nil_all {A} (p : A -> bool) l : filter p l = [] -> forall x, In x l -> p x = false.
Proof.
  induction l as [|y l IH]; intros H x Hx; [destruct Hx|]. cbn [filter] in H.
  destruct (p y) eqn:E; [discriminate|]. destruct Hx as [->|Hx]; [exact E|apply IH; assumption].
Qed.

Lemma lit_index_nth C nv (l : lit) idxs :
  nth_error (lit_index C nv (snd l)) (N.to_nat (fst l)) = Some idxs ->
  idxs = filter (fun i => clause_contains (nth i C []) l) (seq 0 (length C)).
Proof.
  unfold lit_index. rewrite nth_error_map_seq.
  destruct (N.to_nat (fst l) <? N.to_nat nv)%nat; [|discriminate].
  intros H; inversion H; subst; clear H. cbn [Nat.add]. rewrite N2Nat.id.
  destruct l; reflexivity.
Qed.

Lemma hinv_step C nv h st o h' :
  hinv C nv h st -> h_step h o = Some h' -> hinv C nv h' (d_step st o).
Proof.
  intros (HC & Hp & Hn & Hs) Hstep.
  destruct (h_step_wcnf _ _ _ Hstep) as (EW & EP & EN).
  unfold hinv, h_clauses in *. rewrite EW, EP, EN.
  split; [exact HC|]. split; [exact Hp|]. split; [exact Hn|].
  destruct o as [|l|]; cbn [h_step d_step] in *.
  - unfold h_push in Hstep. rewrite Hs in Hstep.
    destruct st as [|d r]; cbn [map] in Hstep; [discriminate|]. inversion Hstep; subst. reflexivity.
  - unfold h_decide in Hstep.
    assert (Hidx : forall idxs,
              nth_error (if snd l then h_pos h else h_neg h) (N.to_nat (fst l)) = Some idxs ->
              idxs = filter (fun i => clause_contains (nth i C []) l) (seq 0 (length C))).
    { intros idxs H. apply (lit_index_nth C nv). rewrite <- H.
      destruct (snd l); [rewrite Hp|rewrite Hn]; reflexivity. }
    destruct (nth_error _ _) as [idxs|] eqn:En; [|discriminate].
    specialize (Hidx idxs eq_refl).
    destruct idxs as [|i0 idxs'].
    + inversion Hstep; subst h'. rewrite Hs. destruct st as [|d r]; [reflexivity|].
      cbn [map]. f_equal. unfold top_spec. apply filter_ext_in. intros i Hi.
      unfold live_ok. cbn [existsb]. symmetry in Hidx.
      rewrite (filter_nil_all _ _ Hidx i Hi). reflexivity.
    + rewrite Hs in Hstep. destruct st as [|d r]; cbn [map] in Hstep; [discriminate|].
      inversion Hstep; subst h'; clear Hstep. cbn [h_state map]. f_equal.
      change (fold_left (fun s i => filter (fun j => negb (Nat.eqb j i)) s) (i0 :: idxs') (top_spec C d)
              = top_spec C (l :: d)).
      rewrite fold_filter_remove, Hidx. unfold top_spec. rewrite filter_filter.
      apply filter_ext_in. intros i Hi.
      rewrite (mem_filter _ _ _ Hi). unfold live_ok. cbn [existsb].
      destruct (nonunit C i), (clause_contains (nth i C []) l), (existsb (clause_contains (nth i C [])) d); reflexivity.
  - inversion Hstep; subst h'. cbn [h_pop h_state]. rewrite Hs. destruct st; reflexivity.
Qed.

Lemma hinv_run C nv ops : forall h st h',
  hinv C nv h st -> h_run h ops = Some h' -> hinv C nv h' (fold_left d_step ops st).
Proof.
  induction ops as [|o t IH]; intros h st h' Hi Hr; cbn [h_run fold_left] in *.
  - inversion Hr; subst. exact Hi.
  - destruct (h_step h o) as [h1|] eqn:E; [|discriminate].
    apply (IH h1 _ h' (hinv_step _ _ _ _ _ _ Hi E) Hr).
Qed.

(* the state of the hasher after any history: the frames of the spec stack *)
Theorem cnfhasher_state_spec cs nv h0 ops h :
  hasher_new cs nv = Some h0 -> h_run h0 ops = Some h ->
  h_clauses h = cs /\ h_state h = map (top_spec cs) (d_run ops).
Proof.
  intros H0 Hr. destruct (hasher_new_facts _ _ _ H0) as (Hi & _ & _).
  destruct (hinv_run _ _ _ _ _ _ Hi Hr) as (A & _ & _ & B). split; assumption.
Qed.

(* ---- occurrences ---- *)
Definition occ := (N * (nat * lit))%type.
Definition occs_of (W : list (list (N * lit))) (idxs : list nat) : list occ :=
  flat_map (fun i => map (fun wl => (fst wl, (i, snd wl))) (nth i W [])) idxs.
Definition keep (W : list (list (N * lit))) (q : nat -> bool) (m : pmodel) (o : occ) : bool :=
  q (fst (snd o)) && negb (clause_sat m (map snd (nth (fst (snd o)) W []))) && unassigned m (snd (snd o)).

Lemma keep_clause W q m i wc :
  map fst (filter (keep W q m) (map (fun wl => (fst wl, (i, snd wl))) wc)) =
  if q i then (if clause_sat m (map snd (nth i W [])) then []
               else map fst (filter (fun wl => unassigned m (snd wl)) wc))
  else [].
Proof.
  induction wc as [|wl wc IHw]; cbn [map filter].
  - destruct (q i), (clause_sat m (map snd (nth i W []))); reflexivity.
  - unfold keep at 1. cbn [fst snd].
    destruct (q i); cbn [andb]; [|exact IHw].
    destruct (clause_sat m (map snd (nth i W []))); cbn [negb andb] in *; [exact IHw|].
    destruct (unassigned m (snd wl)); cbn [map fst]; rewrite IHw; reflexivity.
Qed.

Lemma sel_filter_occs W q m idxs :
  sel W m (filter q idxs) = map fst (filter (keep W q m) (occs_of W idxs)).
Proof.
  unfold sel, occs_of. induction idxs as [|i t IH]; [reflexivity|].
  cbn [filter flat_map]. rewrite filter_app, map_app, keep_clause.
  unfold sel_clause in *. destruct (q i); cbn [flat_map app]; rewrite IH; reflexivity.
Qed.

Lemma flat_map_seq_nth {A B} (f : list A -> list B) (W : list (list A)) :
  flat_map (fun i => f (nth i W [])) (seq 0 (length W)) = flat_map f W.
Proof.
  enough (G : forall a, flat_map (fun i => f (nth (i - a) W [])) (seq a (length W)) = flat_map f W).
  { rewrite <- (G 0%nat). apply flat_map_ext. intros i. rewrite Nat.sub_0_r. reflexivity. }
  induction W as [|c W IH]; intros a; [reflexivity|].
  cbn [length seq flat_map]. rewrite Nat.sub_diag. cbn [nth]. f_equal.
  rewrite <- (IH (S a)). clear. generalize (length W) as n. intros n.
  assert (G : forall b, (a < b)%nat -> flat_map (fun i => f (nth (i - a) (c :: W) [])) (seq b n)
                                = flat_map (fun i => f (nth (i - S a) W [])) (seq b n)).
  { induction n as [|n IHn]; intros b Hb; [reflexivity|]. cbn [seq flat_map].
    rewrite IHn by lia. f_equal. replace (b - a)%nat with (S (b - S a)) by lia. reflexivity. }
  apply G. lia.
Qed.

Lemma occs_fst W : map fst (occs_of W (seq 0 (length W))) = concat (map (map fst) W).
Proof.
  unfold occs_of. rewrite <- flat_map_concat_map.
  rewrite <- (flat_map_seq_nth (map fst) W).
  generalize (seq 0 (length W)) as idxs. induction idxs as [|i t IH]; [reflexivity|].
  cbn [flat_map]. rewrite map_app, IH. f_equal. rewrite map_map. reflexivity.
Qed.

Lemma residual_filter C m q idxs :
  residual_top C m (filter q idxs) =
  flat_map (fun i => if q i && negb (clause_sat m (nth i C []))
                     then [(i, filter (unassigned m) (nth i C []))] else []) idxs.
Proof.
  unfold residual_top. induction idxs as [|i t IH]; [reflexivity|].
  cbn [filter flat_map]. destruct (q i); cbn [flat_map andb]; rewrite IH; [|reflexivity].
  destruct (clause_sat m (nth i C [])); reflexivity.
Qed.

Lemma flat_map_ext_in {A B} (f g : A -> list B) l :
  (forall x, In x l -> f x = g x) -> flat_map f l = flat_map g l.
Proof.
  induction l as [|x l IH]; intros H; [reflexivity|]. cbn [flat_map].
  rewrite (H x (or_introl eq_refl)), IH; [reflexivity|]. intros y Hy. apply H. right; exact Hy.
Qed.

(* no clause of the top frame is falsified: every residual clause is non-empty *)
Definition no_falsified (h : hasher) (m : pmodel) : Prop :=
  forall res i cl, residual h m = Some res -> In (i, cl) res -> cl <> [].

Lemma repeat_inj_num_primes (x y : N) :
  repeat x cnf_num_primes = repeat y cnf_num_primes -> x = y.
Proof. unfold cnf_num_primes. cbn [repeat]. intros H; inversion H; reflexivity. Qed.

(* "only if": as long as the product of all literal primes fits in 128 bits, equal hashes
   of partial models that falsify no clause of their top frame mean equal tagged residuals,
   whatever the two histories were *)
Theorem cnfhasher_only_if cs nv h0 ops1 ops2 h1 h2 m1 m2 :
  hasher_new cs nv = Some h0 ->
  h_run h0 ops1 = Some h1 -> h_run h0 ops2 = Some h2 ->
  prodN (concat (map (map fst) (h_wcnf h0))) < two128 ->
  no_falsified h1 m1 -> no_falsified h2 m2 ->
  h_hash h1 m1 = h_hash h2 m2 -> residual h1 m1 = residual h2 m2.
Proof.
  intros H0 R1 R2 Hfit NF1 NF2 Hh.
  destruct (hasher_new_facts _ _ _ H0) as (Hi & Hnd & Hpr).
  destruct (hinv_run _ _ _ _ _ _ Hi R1) as (C1 & _ & _ & S1).
  destruct (hinv_run _ _ _ _ _ _ Hi R2) as (C2 & _ & _ & S2).
  destruct (h_run_wcnf _ _ _ R1) as (W1 & _). destruct (h_run_wcnf _ _ _ R2) as (W2 & _).
  set (W := h_wcnf h0) in *.
  assert (HC : map (map snd) W = cs) by (destruct Hi as (A & _); exact A).
  unfold no_falsified, residual, h_hash in *. rewrite C1, C2, S1, S2, W1, W2 in *.
  destruct (fold_left d_step ops1 [[]]) as [|d1 r1], (fold_left d_step ops2 [[]]) as [|d2 r2];
    cbn [map] in *; try reflexivity; try discriminate.
  f_equal.
  assert (Hv : hash_top W m1 (top_spec cs d1) = hash_top W m2 (top_spec cs d2))
    by (apply repeat_inj_num_primes; congruence).
  clear Hh.
  rewrite !hash_top_spec in Hv.
  set (q1 := fun i => nonunit cs i && live_ok cs d1 i) in *.
  set (q2 := fun i => nonunit cs i && live_ok cs d2 i) in *.
  assert (Hlen : length cs = length W) by (rewrite <- HC, map_length; reflexivity).
  unfold top_spec in *. fold q1 q2 in NF1, NF2, Hv |- *. rewrite Hlen in *.
  rewrite !sel_filter_occs in Hv.
  set (L := occs_of W (seq 0 (length W))) in *.
  assert (HLfst : map fst L = concat (map (map fst) W)) by apply occs_fst.
  assert (HLpr : forall o, In o L -> Nprime (fst o)).
  { intros o Ho. rewrite Forall_forall in Hpr. apply Hpr. rewrite <- HLfst. apply in_map, Ho. }
  assert (HLpos : forall o, In o L -> 0 < fst o).
  { intros o Ho. specialize (HLpr o Ho). unfold Nprime in HLpr. destruct HLpr. lia. }
  assert (Hle : forall f, prodN (map fst (filter f L)) < two128).
  { intros f. eapply N.le_lt_trans; [apply prodN_filter_le, HLpos|]. rewrite HLfst. exact Hfit. }
  rewrite !N.mod_small in Hv by apply Hle.
  assert (Hkeep : forall o, In o L -> keep W q1 m1 o = keep W q2 m2 o).
  { apply (uf_filter fst L); [rewrite HLfst; exact Hnd|exact HLpr|exact Hv]. }
  clear Hv Hle.
  (* per clause index *)
  assert (Hocc : forall i wl, (i < length W)%nat -> In wl (nth i W []) -> In (fst wl, (i, snd wl)) L).
  { intros i wl Hilt Hwl. unfold L, occs_of. apply in_flat_map. exists i. split; [apply in_seq; lia|].
    apply in_map_iff. exists wl. split; [reflexivity|exact Hwl]. }
  assert (Hnth : forall i, nth i cs [] = map snd (nth i W [])) by (intros i; rewrite <- HC; apply nth_map_snd).
  rewrite !residual_filter. apply flat_map_ext_in. intros i Hilt. apply in_seq in Hilt.
  assert (Hk : forall wl, In wl (nth i W []) ->
            q1 i && negb (clause_sat m1 (nth i cs [])) && unassigned m1 (snd wl)
            = q2 i && negb (clause_sat m2 (nth i cs [])) && unassigned m2 (snd wl)).
  { intros wl Hwl. specialize (Hkeep _ (Hocc i wl ltac:(lia) Hwl)).
    unfold keep in Hkeep. cbn [fst snd] in Hkeep. rewrite <- !Hnth in Hkeep. exact Hkeep. }
  assert (Hwit : forall (q : nat -> bool) m,
            (forall res i cl, Some (residual_top cs m (filter q (seq 0 (length W)))) = Some res ->
                              In (i, cl) res -> cl <> []) ->
            q i && negb (clause_sat m (nth i cs [])) = true ->
            exists wl, In wl (nth i W []) /\ unassigned m (snd wl) = true).
  { intros q m NF HK.
    assert (Hin : In (i, filter (unassigned m) (nth i cs [])) (residual_top cs m (filter q (seq 0 (length W))))).
    { rewrite residual_filter. apply in_flat_map. exists i. split; [apply in_seq; lia|].
      rewrite HK. left; reflexivity. }
    specialize (NF _ _ _ eq_refl Hin).
    destruct (filter (unassigned m) (nth i cs [])) as [|l rest] eqn:Ef; [contradiction|].
    assert (Hl : In l (filter (unassigned m) (nth i cs []))) by (rewrite Ef; left; reflexivity).
    apply filter_In in Hl. destruct Hl as [Hl Hu]. rewrite Hnth in Hl.
    apply in_map_iff in Hl. destruct Hl as [wl [<- Hwl]]. exists wl. auto. }
  destruct (q1 i && negb (clause_sat m1 (nth i cs []))) eqn:K1,
           (q2 i && negb (clause_sat m2 (nth i cs []))) eqn:K2.
  - f_equal. f_equal. apply filter_ext_in. intros l Hl. rewrite Hnth in Hl.
    apply in_map_iff in Hl. destruct Hl as [wl [<- Hwl]]. specialize (Hk wl Hwl). exact Hk.
  - exfalso. destruct (Hwit q1 m1 NF1 K1) as [wl [Hwl Hu]]. specialize (Hk wl Hwl).
    rewrite Hu in Hk. cbn in Hk. discriminate.
  - exfalso. destruct (Hwit q2 m2 NF2 K2) as [wl [Hwl Hu]]. specialize (Hk wl Hwl).
    rewrite Hu in Hk. cbn in Hk. discriminate.
  - reflexivity.
Qed.

(* when the live decided literals are all implied by the queried model (the way the
   compiler uses the hasher), the history is irrelevant: hash and residual are those of the
   fresh hasher, i.e. functions of the partial model alone *)
Theorem cnfhasher_history_irrelevant cs nv h0 ops h d r m :
  hasher_new cs nv = Some h0 -> h_run h0 ops = Some h -> d_run ops = d :: r ->
  (forall l, In l d -> pm_lit_implied m l = true) ->
  residual h m = residual h0 m /\ h_hash h m = h_hash h0 m.
Proof.
  intros H0 Hr Hd Himp.
  assert (Hres : residual h m = residual h0 m).
  { destruct (hasher_new_facts _ _ _ H0) as (Hi & _ & _).
    destruct (hinv_run _ _ _ _ _ _ Hi Hr) as (C1 & _ & _ & S1).
    destruct Hi as (C0 & _ & _ & S0).
    unfold residual. rewrite C1, C0, S1, S0. fold (d_run ops). rewrite Hd. cbn [map]. f_equal.
    unfold top_spec. rewrite !residual_filter. apply flat_map_ext_in. intros i _.
    unfold live_ok at 2. cbn [existsb negb]. rewrite andb_true_r.
    destruct (live_ok cs d i) eqn:El; [rewrite andb_true_r; reflexivity|].
    assert (Hs : clause_sat m (nth i cs []) = true).
    { unfold live_ok in El. apply negb_false_iff, existsb_exists in El.
      destruct El as [l [Hl Hc]]. unfold clause_contains in Hc. apply existsb_exists in Hc.
      destruct Hc as [l' [Hl' He]]. apply lit_eqb_eq in He. subst l'.
      unfold clause_sat. apply existsb_exists. exists l. split; [exact Hl'|apply Himp, Hl]. }
    rewrite Hs. cbn [negb]. rewrite !andb_false_r. reflexivity. }
  split; [exact Hres|].
  rewrite !h_hash_residual, Hres. destruct (h_run_wcnf _ _ _ Hr) as [-> _]. reflexivity.
Qed.

(* The reading of "equal residuals" that forgets which clause a residual clause came from is
   NOT enough for equal hashes: primes belong to literal occurrences, so the same residual
   clause arising from two different clauses hashes differently.  (No soundness issue for a
   component cache -- only a missed hit.)  Witness: (!x0 | x1) & (x0 | x1); x0=F leaves (x1)
   from clause 1... *)
Definition untagged (r : option (list (nat * clause))) : option (list clause) :=
  match r with Some l => Some (map snd l) | None => None end.

Theorem cnfhasher_if_untagged_refuted :
  exists cs h m1 m2,
    cnf_hasher (cnf_new cs) = Some h /\
    untagged (residual h m1) = untagged (residual h m2) /\
    no_falsified h m1 /\ no_falsified h m2 /\
    h_hash h m1 <> h_hash h m2.
Proof.
  exists [[(0, false); (1, true)]; [(0, true); (1, true)]].
  eexists. exists (pm_from_assignments [Some false]), (pm_from_assignments [Some true]).
  split; [vm_compute; reflexivity|]. split; [vm_compute; reflexivity|].
  split; [|split].
  - intros res i cl H Hin. vm_compute in H. inversion H; subst.
    destruct Hin as [E|[]]. inversion E; subst. discriminate.
  - intros res i cl H Hin. vm_compute in H. inversion H; subst.
    destruct Hin as [E|[]]. inversion E; subst. discriminate.
  - vm_compute. discriminate.
Qed.

(* and without the "falsifies no clause" guard the "only if" direction fails even for tiny
   formulas: a falsified clause contributes the factor 1, exactly like a satisfied one *)
Theorem cnfhasher_only_if_unguarded_refuted :
  exists cs h m1 m2,
    cnf_hasher (cnf_new cs) = Some h /\
    prodN (concat (map (map fst) (h_wcnf h))) < two128 /\
    h_hash h m1 = h_hash h m2 /\ residual h m1 <> residual h m2.
Proof.
  exists [[(0, true); (1, true)]; [(2, true); (3, true)]].
  eexists. exists (pm_from_assignments [Some false; Some false]), (pm_from_assignments [Some true]).
  split; [vm_compute; reflexivity|]. split; [vm_compute; reflexivity|].
  split; [vm_compute; reflexivity|]. vm_compute. discriminate.
Qed.

(* VarSet::union_with / union *)
Lemma vs_contains_union o : forall s w,
  vs_contains (vs_union s o) w = vs_contains s w || vs_contains o w.
Proof.
  unfold vs_union. induction o as [|x o IH]; intros s w; cbn [fold_left].
  - unfold vs_contains at 3. cbn [existsb]. rewrite orb_false_r. reflexivity.
  - rewrite IH, vs_contains_insert. unfold vs_contains at 4. cbn [existsb].
    fold (vs_contains o w). destruct (w =? x), (vs_contains s w), (vs_contains o w); reflexivity.
Qed.
Lemma vs_union_wf o : forall s, vs_wf s -> vs_wf (vs_union s o).
Proof.
  unfold vs_union. induction o as [|x o IH]; intros s H; cbn [fold_left]; [exact H|].
  apply IH, vs_insert_wf, H.
Qed.
