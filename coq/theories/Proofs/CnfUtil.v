(* Proofs about Model/CnfUtil.v (property C15).  Spec vocabulary first: assignments are
   functions N -> bool, a CNF denotes the conjunction of the disjunctions of its literals. *)
From Coq Require Import Bool NArith List Arith Lia Permutation Sorted ZArith Znumtheory.
Import ListNotations.
From RsddV Require Import Base.Util Base.Bdd Generated.Constants Model.CnfUtil.
Local Open Scope N_scope.

(* ------------------------------------------------------------------------------------ *)
(* Spec *)
Definition lit_true (a : asg) (l : lit) : bool := Bool.eqb (snd l) (a (fst l)).
Definition clause_sem (a : asg) (c : clause) : bool := existsb (lit_true a) c.
Definition cnf_sem (a : asg) (cs : list clause) : bool := forallb (clause_sem a) cs.
Definition asg_of_list (l : list bool) : asg := fun v => nth (N.to_nat v) l false.
Definition upd (a : asg) (x : lit) : asg := fun v => if v =? fst x then snd x else a v.
Definition lit_neg (x : lit) : lit := (fst x, negb (snd x)).

Definition lbl_le (a b : lit) : Prop := fst a <= fst b.
Fixpoint no_adj (l : clause) : Prop :=
  match l with
  | x :: t => match t with y :: _ => x <> y | [] => True end /\ no_adj t
  | [] => True
  end.
(* "1 + largest label, or 0" *)
Definition nv_spec (cs : list clause) (n : N) : Prop :=
  (forall c l, In c cs -> In l c -> fst l < n) /\
  (n = 0 \/ exists c l, In c cs /\ In l c /\ n = fst l + 1).

Lemma lit_eqb_eq a b : lit_eqb a b = true <-> a = b.
Proof.
  unfold lit_eqb. destruct a as [a1 a2], b as [b1 b2]; cbn [fst snd].
  rewrite andb_true_iff, N.eqb_eq, eqb_true_iff. split.
  - intros [-> ->]; reflexivity.
  - intros H; inversion H; auto.
Qed.
Lemma lit_eqb_refl a : lit_eqb a a = true.
Proof. apply lit_eqb_eq; reflexivity. Qed.
Lemma lit_eqb_neq a b : lit_eqb a b = false <-> a <> b.
Proof.
  split.
  - intros H E. apply lit_eqb_eq in E. congruence.
  - intros H. destruct (lit_eqb a b) eqn:E; auto. apply lit_eqb_eq in E. contradiction.
Qed.

(* ------------------------------------------------------------------------------------ *)
(* Cnf::new *)
Lemma insert_lit_perm x l : Permutation (insert_lit x l) (x :: l).
Proof.
  induction l as [|y t IH]; cbn [insert_lit].
  - reflexivity.
  - destruct (fst x <=? fst y).
    + reflexivity.
    + etransitivity; [apply perm_skip, IH | apply perm_swap].
Qed.

Lemma sort_clause_perm l : Permutation (sort_clause l) l.
Proof.
  induction l as [|x t IH]; cbn [sort_clause fold_right].
  - reflexivity.
  - etransitivity; [apply insert_lit_perm | apply perm_skip, IH].
Qed.

Lemma insert_lit_sorted x l : Sorted lbl_le l -> Sorted lbl_le (insert_lit x l).
Proof.
  induction l as [|y t IH]; intros Hs; cbn [insert_lit].
  - repeat constructor.
  - destruct (N.leb_spec (fst x) (fst y)) as [Hle|Hgt].
    + constructor; [exact Hs | constructor; exact Hle].
    + inversion Hs as [|? ? Hst Hhd]; subst. constructor; [apply IH, Hst|].
      destruct t as [|z t']; cbn [insert_lit].
      * constructor. unfold lbl_le; lia.
      * destruct (fst x <=? fst z).
        -- constructor; unfold lbl_le; lia.
        -- inversion Hhd; subst. constructor; assumption.
Qed.

Lemma sort_clause_sorted l : Sorted lbl_le (sort_clause l).
Proof.
  induction l as [|x t IH]; cbn [sort_clause fold_right].
  - constructor.
  - apply insert_lit_sorted, IH.
Qed.

(* stability: literals of one label keep their relative order *)
Lemma insert_lit_stable k x l :
  filter (fun y => fst y =? k) (insert_lit x l) = filter (fun y => fst y =? k) (x :: l).
Proof.
  induction l as [|y t IH]; cbn [insert_lit].
  - reflexivity.
  - destruct (N.leb_spec (fst x) (fst y)) as [Hle|Hgt]; [reflexivity|].
    cbn [filter] in *. rewrite IH.
    destruct (N.eqb_spec (fst y) k), (N.eqb_spec (fst x) k); try reflexivity. lia.
Qed.

Lemma sort_clause_stable k l :
  filter (fun y => fst y =? k) (sort_clause l) = filter (fun y => fst y =? k) l.
Proof.
  induction l as [|x t IH]; cbn [sort_clause fold_right]; [reflexivity|].
  fold (sort_clause t). rewrite insert_lit_stable. cbn [filter]. rewrite IH. reflexivity.
Qed.

Lemma dedup_cons2 x y t :
  dedup (x :: y :: t) = if lit_eqb x y then dedup (y :: t) else x :: dedup (y :: t).
Proof. reflexivity. Qed.

Lemma dedup_hd y t : exists r, dedup (y :: t) = y :: r.
Proof.
  revert y; induction t as [|z t IH]; intros y.
  - exists []; reflexivity.
  - rewrite dedup_cons2. destruct (lit_eqb y z) eqn:E.
    + apply lit_eqb_eq in E; subst. apply IH.
    + eexists; reflexivity.
Qed.

Lemma dedup_In x l : In x (dedup l) <-> In x l.
Proof.
  induction l as [|y t IH]; [reflexivity|].
  destruct t as [|z t']; [reflexivity|].
  rewrite dedup_cons2. destruct (lit_eqb y z) eqn:E.
  - apply lit_eqb_eq in E; subst z. rewrite IH. cbn [In]. tauto.
  - cbn [In] in *. rewrite IH. tauto.
Qed.

Lemma dedup_sorted l : Sorted lbl_le l -> Sorted lbl_le (dedup l).
Proof.
  induction l as [|y t IH]; intros Hs; [constructor|].
  destruct t as [|z t']; [exact Hs|].
  inversion Hs as [|? ? Hst Hhd]; subst.
  rewrite dedup_cons2. destruct (lit_eqb y z) eqn:E; [apply IH, Hst|].
  constructor; [apply IH, Hst|].
  destruct (dedup_hd z t') as [r ->]. inversion Hhd; subst. constructor; assumption.
Qed.

Lemma dedup_no_adj l : no_adj (dedup l).
Proof.
  induction l as [|y t IH]; [exact I|].
  destruct t as [|z t']; [cbn; auto|].
  rewrite dedup_cons2. destruct (lit_eqb y z) eqn:E; [exact IH|].
  destruct (dedup_hd z t') as [r Hr]. rewrite Hr in *.
  split; [|exact IH]. apply lit_eqb_neq, E.
Qed.

(* dedup only ever drops an element equal to its successor *)
Lemma dedup_fixpoint l : no_adj l -> dedup l = l.
Proof.
  induction l as [|y t IH]; [reflexivity|].
  destruct t as [|z t']; [reflexivity|].
  intros [Hne Ht]. rewrite dedup_cons2.
  destruct (lit_eqb y z) eqn:E; [apply lit_eqb_eq in E; contradiction|].
  rewrite IH by exact Ht. reflexivity.
Qed.

Lemma norm_clause_In x c : In x (norm_clause c) <-> In x c.
Proof.
  unfold norm_clause. rewrite dedup_In. split; apply Permutation_in.
  - apply sort_clause_perm.
  - symmetry; apply sort_clause_perm.
Qed.

Lemma clause_sem_ext a c c' : (forall l, In l c' <-> In l c) -> clause_sem a c' = clause_sem a c.
Proof.
  intros H. unfold clause_sem. apply eq_true_iff_eq. rewrite !existsb_exists.
  split; intros [l [Hin Ht]]; exists l; split; auto; apply H; auto.
Qed.

Lemma fold_max_spec {A} (f : A -> N) (l : list A) (init : N) :
  init <= fold_left (fun m x => N.max m (f x)) l init /\
  (forall x, In x l -> f x <= fold_left (fun m x => N.max m (f x)) l init) /\
  (fold_left (fun m x => N.max m (f x)) l init = init \/
   exists x, In x l /\ fold_left (fun m x => N.max m (f x)) l init = f x).
Proof.
  revert init; induction l as [|y t IH]; intros init; cbn [fold_left].
  - split; [lia|]. split; [intros x []|]. left; reflexivity.
  - specialize (IH (N.max init (f y))). destruct IH as (H1 & H2 & H3).
    split; [lia|]. split.
    + intros x [->|Hin]; [lia|]. apply H2, Hin.
    + destruct H3 as [H3|[x [Hin Hx]]].
      * destruct (N.max_spec init (f y)) as [[_ Hm]|[_ Hm]].
        -- right; exists y; split; [left; reflexivity|rewrite H3; exact Hm].
        -- left; rewrite H3; exact Hm.
      * right; exists x; split; [right; exact Hin|exact Hx].
Qed.

Lemma cnf_nv_spec cs : nv_spec cs (cnf_nv cs).
Proof.
  unfold cnf_nv.
  destruct (fold_max_spec clause_nv cs 0) as (_ & H2 & H3). split.
  - intros c l Hc Hl. specialize (H2 c Hc).
    destruct (fold_max_spec (fun l => fst l + 1) c 0) as (_ & G2 & _).
    specialize (G2 l Hl).
    change (clause_nv c) with (fold_left (fun m l => N.max m (fst l + 1)) c 0) in H2.
    cbn beta in G2. lia.
  - destruct H3 as [H3|[c [Hc Hr]]]; [left; exact H3|].
    destruct (fold_max_spec (fun l => fst l + 1) c 0) as (_ & _ & G3).
    change (clause_nv c) with (fold_left (fun m l => N.max m (fst l + 1)) c 0) in Hr.
    destruct G3 as [G3|[l [Hl Hx]]].
    + left. rewrite Hr. exact G3.
    + right. exists c, l. split; [exact Hc|]. split; [exact Hl|]. rewrite Hr. exact Hx.
Qed.

Lemma nv_spec_unique cs n m : nv_spec cs n -> nv_spec cs m -> n = m.
Proof.
  intros [A1 A2] [B1 B2].
  destruct A2 as [->|(c & l & Hc & Hl & ->)], B2 as [->|(c' & l' & Hc' & Hl' & ->)]; auto.
  - specialize (A1 c' l' Hc' Hl'). lia.
  - specialize (B1 c l Hc Hl). lia.
  - specialize (A1 c' l' Hc' Hl'). specialize (B1 c l Hc Hl). lia.
Qed.

Lemma nv_spec_ext cs cs' n :
  Forall2 (fun c c' => forall l, In l c' <-> In l c) cs cs' -> nv_spec cs' n -> nv_spec cs n.
Proof.
  intros HF [H1 H2]. split.
  - intros c l Hc Hl.
    assert (exists c', In c' cs' /\ forall l, In l c' <-> In l c) as [c' [Hc' Hiff]].
    { clear -HF Hc. induction HF as [|a b la lb Hab HF IH]; [destruct Hc|].
      destruct Hc as [->|Hc].
      - exists b; split; [left; reflexivity|exact Hab].
      - destruct (IH Hc) as [c' [Hc' Hiff]]. exists c'; split; [right; exact Hc'|exact Hiff]. }
    apply (H1 c' l Hc'). apply Hiff, Hl.
  - destruct H2 as [->|(c' & l & Hc' & Hl & ->)]; [left; reflexivity|right].
    assert (exists c, In c cs /\ forall l, In l c' <-> In l c) as [c [Hc Hiff]].
    { clear -HF Hc'. induction HF as [|a b la lb Hab HF IH]; [destruct Hc'|].
      destruct Hc' as [->|Hc'].
      - exists a; split; [left; reflexivity|exact Hab].
      - destruct (IH Hc') as [c [Hc Hiff]]. exists c; split; [right; exact Hc|exact Hiff]. }
    exists c, l. split; [exact Hc|]. split; [apply Hiff, Hl|reflexivity].
Qed.

Lemma norm_clause_spec c :
  (forall l, In l (norm_clause c) <-> In l c) /\ Sorted lbl_le (norm_clause c) /\ no_adj (norm_clause c).
Proof.
  split; [intros l; apply norm_clause_In|]. split.
  - apply dedup_sorted, sort_clause_sorted.
  - apply dedup_no_adj.
Qed.

Lemma cnf_sem_norm a cs : cnf_sem a (map norm_clause cs) = cnf_sem a cs.
Proof.
  induction cs as [|c t IH]; [reflexivity|].
  unfold cnf_sem in *. cbn [map forallb]. rewrite IH. f_equal.
  apply clause_sem_ext. intros l; apply norm_clause_In.
Qed.

Lemma Forall2_map_norm cs :
  Forall2 (fun c c' => (forall l, In l c' <-> In l c) /\ Sorted lbl_le c' /\ no_adj c')
          cs (map norm_clause cs).
Proof. induction cs as [|c t IH]; constructor; [apply norm_clause_spec|exact IH]. Qed.

(* Cnf::new keeps every clause's literal set (sorted by label, no two adjacent equal
   literals), the number of clauses, the denotation; num_vars is 1 + the largest label, or 0. *)
Theorem cnf_new_sem cs :
  Forall2 (fun c c' => (forall l, In l c' <-> In l c) /\ Sorted lbl_le c' /\ no_adj c')
          cs (clauses (cnf_new cs)) /\
  nv_spec cs (num_vars (cnf_new cs)) /\
  (forall a, cnf_sem a (clauses (cnf_new cs)) = cnf_sem a cs).
Proof.
  split; [apply Forall2_map_norm|]. split.
  - cbn [cnf_new num_vars]. apply nv_spec_ext with (cs' := map norm_clause cs).
    + clear. induction cs as [|c t IH]; constructor; [intros l; apply norm_clause_In|exact IH].
    + apply cnf_nv_spec.
  - intros a. apply cnf_sem_norm.
Qed.

(* the sort is the stable one: literals of one label keep their order (before dedup) *)
Lemma sort_is_stable c k :
  filter (fun y => fst y =? k) (sort_clause c) = filter (fun y => fst y =? k) c.
Proof. apply sort_clause_stable. Qed.

Lemma sort_clause_sorted_id l : Sorted lbl_le l -> sort_clause l = l.
Proof.
  induction l as [|x t IH]; intros Hs; [reflexivity|].
  inversion Hs as [|? ? Hst Hhd]; subst.
  cbn [sort_clause fold_right]. fold (sort_clause t). rewrite IH by exact Hst.
  destruct t as [|y t']; [reflexivity|]. cbn [insert_lit].
  inversion Hhd as [|? ? Hle]; subst. unfold lbl_le in Hle.
  destruct (N.leb_spec (fst x) (fst y)); [reflexivity|lia].
Qed.

Theorem cnf_new_idempotent cs : cnf_new (clauses (cnf_new cs)) = cnf_new cs.
Proof.
  unfold cnf_new. cbn [clauses].
  assert (E : map norm_clause (map norm_clause cs) = map norm_clause cs).
  { rewrite map_map. apply map_ext. intros c. unfold norm_clause at 1.
    destruct (norm_clause_spec c) as (_ & Hs & Hn).
    rewrite sort_clause_sorted_id by exact Hs. apply dedup_fixpoint, Hn. }
  rewrite E. reflexivity.
Qed.

Lemma cnf_new_labels_lt cs c l :
  In c (clauses (cnf_new cs)) -> In l c -> fst l < num_vars (cnf_new cs).
Proof. intros Hc Hl. exact (proj1 (cnf_nv_spec (map norm_clause cs)) c l Hc Hl). Qed.

(* ------------------------------------------------------------------------------------ *)
(* eval *)
Lemma eval_clause_spec a c sat :
  (forall l, In l c -> (N.to_nat (fst l) < length a)%nat) ->
  eval_clause a c sat = Some (sat || clause_sem (asg_of_list a) c).
Proof.
  revert sat; induction c as [|l t IH]; intros sat Hr; cbn [eval_clause clause_sem existsb].
  - rewrite orb_false_r; reflexivity.
  - destruct (nth_error a (N.to_nat (fst l))) as [b|] eqn:E.
    + rewrite IH by (intros l' Hl'; apply Hr; right; exact Hl'). f_equal.
      unfold lit_true at 1, asg_of_list. rewrite (nth_error_nth _ _ false E).
      fold (clause_sem (asg_of_list a) t).
      destruct (Bool.eqb (snd l) b), sat, (clause_sem (asg_of_list a) t); reflexivity.
    + apply nth_error_None in E. specialize (Hr l (or_introl eq_refl)). lia.
Qed.

Lemma eval_clause_out_of_range a c sat :
  (exists l, In l c /\ (length a <= N.to_nat (fst l))%nat) -> eval_clause a c sat = None.
Proof.
  revert sat; induction c as [|l t IH]; intros sat [l' [Hin Hl']]; [destruct Hin|].
  cbn [eval_clause]. destruct (nth_error a (N.to_nat (fst l))) as [b|] eqn:E; [|reflexivity].
  destruct Hin as [->|Hin].
  - apply nth_error_None in Hl'. congruence.
  - apply IH. exists l'; auto.
Qed.

Lemma eval_clauses_spec a cs :
  (forall c l, In c cs -> In l c -> (N.to_nat (fst l) < length a)%nat) ->
  eval_clauses a cs = Some (cnf_sem (asg_of_list a) cs).
Proof.
  induction cs as [|c t IH]; intros Hr; cbn [eval_clauses cnf_sem forallb]; [reflexivity|].
  rewrite eval_clause_spec by (intros l Hl; apply (Hr c l); [left; reflexivity|exact Hl]).
  cbn [orb]. destruct (clause_sem (asg_of_list a) c); cbn [andb]; [|reflexivity].
  apply IH. intros c' l Hc' Hl. apply (Hr c' l); [right; exact Hc'|exact Hl].
Qed.

(* Cnf::eval on a vector at least num_vars long is the denotation; a shorter vector fails
   the assert.  No index is ever out of range in the first case. *)
Theorem eval_spec cs a :
  (num_vars (cnf_new cs) <= N.of_nat (length a) ->
     cnf_eval_impl (cnf_new cs) a = Some (cnf_sem (asg_of_list a) cs)) /\
  (N.of_nat (length a) < num_vars (cnf_new cs) -> cnf_eval_impl (cnf_new cs) a = None).
Proof.
  unfold cnf_eval_impl. split; intros H.
  - destruct (N.ltb_spec (N.of_nat (length a)) (num_vars (cnf_new cs))); [lia|].
    rewrite eval_clauses_spec.
    + f_equal. apply cnf_sem_norm.
    + intros c l Hc Hl. pose proof (cnf_new_labels_lt cs c l Hc Hl). lia.
  - destruct (N.ltb_spec (N.of_nat (length a)) (num_vars (cnf_new cs))); [reflexivity|lia].
Qed.

(* ------------------------------------------------------------------------------------ *)
(* is_sat_partial *)
Lemma existsb_ext_in {A} (p : A -> bool) c c' :
  (forall l, In l c' <-> In l c) -> existsb p c' = existsb p c.
Proof.
  intros H. apply eq_true_iff_eq. rewrite !existsb_exists.
  split; intros [l [Hin Ht]]; exists l; split; auto; apply H; auto.
Qed.

Lemma sat_partial_clause_spec m c : sat_partial_clause m c = existsb (pm_lit_implied m) c.
Proof.
  unfold sat_partial_clause.
  enough (G : forall sat, fold_left (fun sat l => match pm_get m (fst l) with
             | Some b => if Bool.eqb (snd l) b then true else sat | None => sat end) c sat
             = sat || existsb (pm_lit_implied m) c) by (rewrite G; reflexivity).
  induction c as [|l t IH]; intros sat; cbn [fold_left existsb].
  - rewrite orb_false_r; reflexivity.
  - rewrite IH. unfold pm_lit_implied at 2.
    destruct (pm_get m (fst l)) as [b|].
    + destruct (snd l), b, sat; reflexivity.
    + destruct sat; reflexivity.
Qed.

Lemma pm_lit_implied_iff m l : pm_lit_implied m l = true <-> pm_get m (fst l) = Some (snd l).
Proof.
  unfold pm_lit_implied. destruct (pm_get m (fst l)) as [b|].
  - rewrite eqb_true_iff. split; [intros ->; reflexivity|intros H; inversion H; reflexivity].
  - split; discriminate.
Qed.

(* true exactly when every clause has a literal made true by the partial model *)
Theorem is_sat_partial_spec cs m :
  is_sat_partial (cnf_new cs) m = true <->
  forall c, In c cs -> exists l, In l c /\ pm_get m (fst l) = Some (snd l).
Proof.
  unfold is_sat_partial. cbn [cnf_new clauses]. rewrite forallb_forall. split.
  - intros H c Hc. specialize (H (norm_clause c) (in_map _ _ _ Hc)).
    rewrite sat_partial_clause_spec in H. apply existsb_exists in H. destruct H as [l [Hl Hi]].
    exists l. split; [apply norm_clause_In, Hl|apply pm_lit_implied_iff, Hi].
  - intros H c' Hc'. apply in_map_iff in Hc'. destruct Hc' as [c [<- Hc]].
    rewrite sat_partial_clause_spec. apply existsb_exists.
    destruct (H c Hc) as [l [Hl Hg]]. exists l. split; [apply norm_clause_In, Hl|apply pm_lit_implied_iff, Hg].
Qed.

(* hence the partial model implies the formula: every total extension satisfies it *)
Theorem is_sat_partial_sound cs m (a : asg) :
  is_sat_partial (cnf_new cs) m = true ->
  (forall v b, pm_get m v = Some b -> a v = b) -> cnf_sem a cs = true.
Proof.
  intros H Hext. rewrite is_sat_partial_spec in H.
  unfold cnf_sem. apply forallb_forall. intros c Hc.
  destruct (H c Hc) as [l [Hl Hg]]. apply existsb_exists. exists l. split; [exact Hl|].
  unfold lit_true. rewrite (Hext _ _ Hg). apply eqb_reflx.
Qed.

(* ------------------------------------------------------------------------------------ *)
(* condition *)
Lemma lit_eqb_sym a b : lit_eqb a b = lit_eqb b a.
Proof.
  unfold lit_eqb. rewrite N.eqb_sym. f_equal. destruct (snd a), (snd b); reflexivity.
Qed.

Lemma cond_clause_spec x c :
  cond_clause x c = if clause_contains c x then None
                    else Some (filter (fun l => negb (lit_eqb l (lit_neg x))) c).
Proof.
  induction c as [|l t IH]; [reflexivity|].
  cbn [cond_clause clause_contains existsb filter].
  change ((fst l =? fst x) && Bool.eqb (snd l) (snd x)) with (lit_eqb l x).
  rewrite (lit_eqb_sym x l). destruct (lit_eqb l x) eqn:E; cbn [orb]; [reflexivity|].
  assert (E2 : (fst l =? fst x) && negb (Bool.eqb (snd l) (snd x)) = lit_eqb l (lit_neg x)).
  { unfold lit_eqb, lit_neg; cbn [fst snd]. f_equal. destruct (snd l), (snd x); reflexivity. }
  rewrite E2. fold (clause_contains t x) in *. rewrite IH.
  destruct (lit_eqb l (lit_neg x)); cbn [negb]; destruct (clause_contains t x); reflexivity.
Qed.

(* the syntactic description *)
Theorem cond_clauses_spec x cs :
  cond_clauses x cs =
  map (filter (fun l => negb (lit_eqb l (lit_neg x)))) (filter (fun c => negb (clause_contains c x)) cs).
Proof.
  induction cs as [|c t IH]; [reflexivity|].
  cbn [cond_clauses filter]. rewrite cond_clause_spec.
  destruct (clause_contains c x); cbn [negb map]; rewrite IH; reflexivity.
Qed.

Lemma lit_true_upd a x l :
  lit_true (upd a x) l = if fst l =? fst x then Bool.eqb (snd l) (snd x) else lit_true a l.
Proof. unfold lit_true, upd. destruct (fst l =? fst x); reflexivity. Qed.

Lemma clause_contains_sem a x c : clause_contains c x = true -> clause_sem (upd a x) c = true.
Proof.
  unfold clause_contains, clause_sem. rewrite !existsb_exists. intros [l [Hl He]].
  apply lit_eqb_eq in He; subst l. exists x. split; [exact Hl|].
  rewrite lit_true_upd, N.eqb_refl. apply eqb_reflx.
Qed.

Lemma cond_filter_sem a x c :
  clause_contains c x = false ->
  clause_sem a (filter (fun l => negb (lit_eqb l (lit_neg x))) c) = clause_sem (upd a x) c.
Proof.
  induction c as [|l t IH]; intros Hc; [reflexivity|].
  cbn [clause_contains existsb] in Hc. apply orb_false_iff in Hc. destruct Hc as [Hl Ht].
  fold (clause_contains t x) in Ht. specialize (IH Ht).
  cbn [filter clause_sem existsb]. fold (clause_sem (upd a x) t).
  rewrite lit_true_upd. unfold lit_eqb in Hl |- *. unfold lit_neg; cbn [fst snd] in *.
  rewrite (N.eqb_sym (fst x) (fst l)) in Hl.
  destruct (fst l =? fst x) eqn:E; cbn [andb negb] in *.
  - assert (Es : Bool.eqb (snd l) (negb (snd x)) = true) by (destruct (snd l), (snd x); cbn in *; congruence).
    rewrite Es. cbn [negb].
    assert (Ef : Bool.eqb (snd l) (snd x) = false) by (destruct (snd l), (snd x); cbn in *; congruence).
    rewrite Ef. cbn [orb]. exact IH.
  - cbn [clause_sem existsb]. f_equal. exact IH.
Qed.

Lemma cond_clauses_sem a x cs : cnf_sem a (cond_clauses x cs) = cnf_sem (upd a x) cs.
Proof.
  induction cs as [|c t IH]; [reflexivity|].
  cbn [cond_clauses]. rewrite cond_clause_spec.
  cbn [cnf_sem forallb]. fold (cnf_sem (upd a x) t).
  destruct (clause_contains c x) eqn:E.
  - rewrite (clause_contains_sem a x c E). cbn [andb]. exact IH.
  - cbn [cnf_sem forallb]. fold (cnf_sem a (cond_clauses x t)).
    rewrite (cond_filter_sem a x c E), IH. reflexivity.
Qed.

(* conditioning on a literal = evaluating under the assignment updated with it; the result
   is the normal form of: clauses containing the literal dropped, the complementary literal
   removed from the others (an emptied clause stays as the empty clause) *)
Theorem condition_spec c x :
  (forall a, cnf_sem a (clauses (condition c x)) = cnf_sem (upd a x) (clauses c)) /\
  clauses (condition c x) =
    map norm_clause (map (filter (fun l => negb (lit_eqb l (lit_neg x))))
                         (filter (fun cl => negb (clause_contains cl x)) (clauses c))) /\
  nv_spec (clauses (condition c x)) (num_vars (condition c x)).
Proof.
  split; [|split].
  - intros a. unfold condition. cbn [cnf_new clauses]. rewrite cnf_sem_norm. apply cond_clauses_sem.
  - unfold condition. cbn [cnf_new clauses]. rewrite cond_clauses_spec. reflexivity.
  - unfold condition. cbn [cnf_new clauses num_vars]. apply cnf_nv_spec.
Qed.

(* ------------------------------------------------------------------------------------ *)
(* AssignmentIter: the reference enumeration (index 0 is the least significant bit) *)
Fixpoint all_asg (n : nat) : list (list bool) :=
  match n with
  | O => [[]]
  | S k => flat_map (fun t => [false :: t; true :: t]) (all_asg k)
  end.

(* ripple-carry addition of one bit *)
Fixpoint addc (cy : bool) (c : list bool) : list bool * bool :=
  match c with
  | [] => ([], cy)
  | b :: t => let r := addc (b && cy) t in (xorb b cy :: fst r, snd r)
  end.

Lemma fold_half_adder c acc cy :
  fold_left half_adder c (acc, cy) = (acc ++ fst (addc cy c), snd (addc cy c)).
Proof.
  revert acc cy; induction c as [|b t IH]; intros acc cy; cbn [fold_left addc fst snd].
  - rewrite app_nil_r; reflexivity.
  - unfold half_adder at 2; cbn [fst snd]. rewrite IH, <- app_assoc. reflexivity.
Qed.

Lemma ai_incr_addc c : ai_incr c = addc true c.
Proof.
  unfold ai_incr. rewrite fold_half_adder. cbn [app]. destruct (addc true c); reflexivity.
Qed.

Lemma addc_false c : addc false c = (c, false).
Proof.
  induction c as [|b t IH]; [reflexivity|].
  cbn [addc]. rewrite andb_false_r, IH, xorb_false_r. reflexivity.
Qed.

(* starting from state [a] the iterator yields exactly [post] and then stops *)
Fixpoint chain (a : list bool) (post : list (list bool)) : Prop :=
  match post with
  | [] => snd (addc true a) = true
  | b :: post' => addc true a = (b, false) /\ chain b post'
  end.

Lemma chain_lift a post :
  chain a post ->
  chain (false :: a) ((true :: a) :: flat_map (fun t => [false :: t; true :: t]) post).
Proof.
  revert a; induction post as [|b post' IH]; intros a H; cbn [chain flat_map app] in *.
  - split.
    + cbn [addc andb xorb]. rewrite addc_false. reflexivity.
    + cbn [addc andb snd]. exact H.
  - destruct H as [Ha Hb]. split.
    + cbn [addc andb xorb]. rewrite addc_false. reflexivity.
    + split.
      * cbn [addc andb xorb]. rewrite Ha. reflexivity.
      * apply IH, Hb.
Qed.

Lemma all_asg_chain n :
  exists rest, all_asg n = repeat false n :: rest /\ chain (repeat false n) rest.
Proof.
  induction n as [|k [rest [E Hc]]].
  - exists []. split; reflexivity.
  - cbn [all_asg]. rewrite E. cbn [flat_map app repeat].
    eexists. split; [reflexivity|]. apply chain_lift, Hc.
Qed.

Lemma all_asg_length n : length (all_asg n) = (2 ^ n)%nat.
Proof.
  induction n as [|k IH]; [reflexivity|].
  cbn [all_asg]. rewrite Nat.pow_succ_r'. rewrite <- IH.
  generalize (all_asg k) as l. induction l as [|t l IHl]; [reflexivity|].
  cbn [flat_map app length] in *. lia.
Qed.

Lemma all_asg_In n a : In a (all_asg n) <-> length a = n.
Proof.
  revert a; induction n as [|k IH]; intros a; cbn [all_asg].
  - cbn [In]. destruct a; cbn [length]; split; intros H; auto; try discriminate.
    destruct H as [H|[]]; discriminate.
  - rewrite in_flat_map. split.
    + intros [t [Ht Hin]]. apply IH in Ht. cbn [In] in Hin.
      destruct Hin as [<-|[<-|[]]]; cbn [length]; lia.
    + intros Hl. destruct a as [|b t]; [discriminate|]. cbn [length] in Hl.
      exists t. split; [apply IH; lia|]. destruct b; cbn [In]; auto.
Qed.

Lemma all_asg_NoDup n : NoDup (all_asg n).
Proof.
  induction n as [|k IH]; cbn [all_asg].
  - constructor; [intros []|constructor].
  - induction IH as [|t l Hnin Hnd IHl]; [constructor|].
    cbn [flat_map app]. constructor; [|constructor].
    + cbn [In]. intros [H|H]; [discriminate|].
      apply in_flat_map in H. destruct H as [t' [Ht' Hin]]. cbn [In] in Hin.
      destruct Hin as [H|[H|[]]]; inversion H; subst; contradiction.
    + intros H. apply in_flat_map in H. destruct H as [t' [Ht' Hin]]. cbn [In] in Hin.
      destruct Hin as [H|[H|[]]]; inversion H; subst; contradiction.
    + exact IHl.
Qed.

Lemma ai_next_some a n :
  ai_next {| ai_cur := Some a; ai_n := n |} =
  (if snd (addc true a) then None else Some (fst (addc true a)),
   {| ai_cur := Some (fst (addc true a)); ai_n := n |}).
Proof. unfold ai_next. cbn [ai_cur ai_n]. rewrite ai_incr_addc. reflexivity. Qed.

Lemma ai_collect_chain post : forall a n fuel,
  chain a post -> (length post < fuel)%nat ->
  ai_collect fuel {| ai_cur := Some a; ai_n := n |} = Some post.
Proof.
  induction post as [|b post' IH]; intros a n fuel Hc Hf; (destruct fuel as [|f]; [cbn [length] in Hf; lia|]);
    cbn [ai_collect]; rewrite ai_next_some; cbn [chain] in Hc.
  - rewrite Hc. reflexivity.
  - destruct Hc as [Ha Hb]. rewrite Ha. cbn [fst snd].
    rewrite (IH b n f Hb) by (cbn [length] in Hf; lia). reflexivity.
Qed.

(* the for-loop over AssignmentIter::new(n) sees every assignment of n variables exactly
   once (and needs 2^n + 1 calls of next) *)
Theorem assignment_iter_complete n fuel :
  (2 ^ n < fuel)%nat ->
  ai_collect fuel (ai_new n) = Some (all_asg n) /\
  NoDup (all_asg n) /\ length (all_asg n) = (2 ^ n)%nat /\
  (forall a, In a (all_asg n) <-> length a = n).
Proof.
  intros Hf. split; [|split; [apply all_asg_NoDup|split; [apply all_asg_length|apply all_asg_In]]].
  destruct (all_asg_chain n) as [rest [E Hc]].
  pose proof (all_asg_length n) as HL. rewrite E in HL |- *. cbn [length] in HL.
  destruct fuel as [|f]; [lia|]. cbn [ai_collect ai_new ai_next ai_cur ai_n].
  rewrite (ai_collect_chain rest (repeat false n) n f Hc) by lia. reflexivity.
Qed.

(* with too little fuel the model reports exhaustion rather than a short list *)
Lemma ai_collect_short post : forall a n fuel,
  chain a post -> (fuel <= length post)%nat ->
  ai_collect fuel {| ai_cur := Some a; ai_n := n |} = None.
Proof.
  induction post as [|b post' IH]; intros a n fuel Hc Hf; (destruct fuel as [|f]; [reflexivity|]);
    cbn [length] in Hf; [lia|].
  cbn [ai_collect]. rewrite ai_next_some. cbn [chain] in Hc. destruct Hc as [Ha Hb].
  rewrite Ha. cbn [fst snd]. rewrite (IH b n f Hb) by lia. reflexivity.
Qed.

(* ------------------------------------------------------------------------------------ *)
(* wmc *)
Section WmcProofs.
  Variable R : Type.
  Variables (radd rmul : R -> R -> R) (rzero rone : R).
  Hypothesis radd_assoc : forall a b c, radd a (radd b c) = radd (radd a b) c.
  Hypothesis radd_0_l : forall a, radd rzero a = a.
  Hypothesis radd_0_r : forall a, radd a rzero = a.
  Hypothesis rmul_assoc : forall a b c, rmul a (rmul b c) = rmul (rmul a b) c.
  Hypothesis rmul_1_l : forall a, rmul rone a = a.
  Hypothesis rmul_1_r : forall a, rmul a rone = a.

  (* spec: sum over the reference enumeration of [f a] * prod_i w_i(a_i) *)
  Definition pick (p : bool * (R * R)) : R := if fst p then snd (snd p) else fst (snd p).
  Definition weight_spec (wv : list (R * R)) (a : list bool) : R :=
    fold_right (fun p s => rmul (pick p) s) rone (combine a wv).
  Definition wmc_sum (wv : list (R * R)) (f : list bool -> bool) (l : list (list bool)) : R :=
    fold_right (fun a s => radd (if f a then weight_spec wv a else rzero) s) rzero l.
  Definition wmc_spec (n : nat) (wv : list (R * R)) (f : list bool -> bool) : R :=
    wmc_sum wv f (all_asg n).

  Lemma asg_weight_spec wv a : asg_weight R rmul rone wv a = weight_spec wv a.
  Proof.
    unfold asg_weight, weight_spec. fold pick.
    enough (G : forall l v, fold_left (fun v p => rmul v (pick p)) l v
                            = rmul v (fold_right (fun p s => rmul (pick p) s) rone l))
      by (rewrite G; apply rmul_1_l).
    induction l as [|p t IH]; intros v; cbn [fold_left fold_right].
    - symmetry; apply rmul_1_r.
    - rewrite IH, rmul_assoc. reflexivity.
  Qed.

  Lemma wmc_loop_chain c wv f post : forall a fuel total,
    chain a post -> (length post < fuel)%nat ->
    (forall b, In b post -> cnf_eval_impl c b = Some (f b)) ->
    wmc_loop R radd rmul rone c wv fuel {| ai_cur := Some a; ai_n := N.to_nat (num_vars c) |} total =
    Some (fold_left (fun t b => if f b then radd t (asg_weight R rmul rone wv b) else t) post total).
  Proof.
    induction post as [|b post' IH]; intros a fuel total Hc Hf He;
      (destruct fuel as [|fu]; [cbn [length] in Hf; lia|]);
      cbn [wmc_loop]; rewrite ai_next_some; cbn [chain] in Hc.
    - rewrite Hc. reflexivity.
    - destruct Hc as [Ha Hb]. rewrite Ha. cbn [fst snd].
      rewrite (He b (or_introl eq_refl)). cbn [fold_left].
      destruct (f b); apply IH; auto; cbn [length] in Hf; try lia;
        intros b' Hb'; apply He; right; exact Hb'.
  Qed.

  Lemma fold_left_sum wv (f : list bool -> bool) l t :
    fold_left (fun t b => if f b then radd t (asg_weight R rmul rone wv b) else t) l t =
    radd t (wmc_sum wv f l).
  Proof.
    revert t; induction l as [|b l' IH]; intros t; cbn [fold_left wmc_sum fold_right].
    - symmetry; apply radd_0_r.
    - rewrite IH. fold (wmc_sum wv f l'). rewrite asg_weight_spec.
      destruct (f b); [rewrite radd_assoc; reflexivity|rewrite radd_0_l; reflexivity].
  Qed.

  Lemma weight_vec_length w i n wv : weight_vec R w i n = Some wv -> length wv = n.
  Proof.
    revert i wv; induction n as [|k IH]; intros i wv H; cbn [weight_vec] in H.
    - inversion H; reflexivity.
    - destruct (nth_error w i) as [[x|]|]; try discriminate.
      destruct (weight_vec R w (S i) k) as [r|] eqn:E; [|discriminate].
      inversion H; subst. cbn [length]. f_equal. eapply IH, E.
  Qed.

  Lemma weight_vec_nth w i n wv j x :
    weight_vec R w i n = Some wv -> nth_error wv j = Some x -> nth_error w (i + j) = Some (Some x).
  Proof.
    revert i wv j; induction n as [|k IH]; intros i wv j H Hj; cbn [weight_vec] in H.
    - inversion H; subst. destruct j; discriminate.
    - destruct (nth_error w i) as [[y|]|] eqn:Ei; try discriminate.
      destruct (weight_vec R w (S i) k) as [r|] eqn:E; [|discriminate].
      inversion H; subst. destruct j as [|j']; cbn [nth_error] in Hj.
      + inversion Hj; subst. rewrite Nat.add_0_r. exact Ei.
      + replace (i + S j')%nat with (S i + j')%nat by lia. eapply IH; eauto.
  Qed.

  Lemma weight_vec_total w i n :
    (forall j, (j < n)%nat -> exists x, nth_error w (i + j) = Some (Some x)) ->
    exists wv, weight_vec R w i n = Some wv.
  Proof.
    revert i; induction n as [|k IH]; intros i H; cbn [weight_vec].
    - eexists; reflexivity.
    - destruct (H 0%nat ltac:(lia)) as [x Hx]. rewrite Nat.add_0_r in Hx. rewrite Hx.
      destruct (IH (S i)) as [r Hr].
      + intros j Hj. destruct (H (S j) ltac:(lia)) as [y Hy].
        exists y. replace (S i + j)%nat with (i + S j)%nat by lia. exact Hy.
      + rewrite Hr. eexists; reflexivity.
  Qed.

  Lemma weight_vec_missing w i n j :
    (j < n)%nat -> (nth_error w (i + j) = None \/ nth_error w (i + j) = Some None) ->
    weight_vec R w i n = None.
  Proof.
    revert i j; induction n as [|k IH]; intros i j Hj Hm; [lia|]. cbn [weight_vec].
    destruct j as [|j'].
    - rewrite Nat.add_0_r in Hm. destruct Hm as [-> | ->]; reflexivity.
    - destruct (nth_error w i) as [[x|]|]; try reflexivity.
      rewrite (IH (S i) j'); [reflexivity|lia|].
      replace (S i + j')%nat with (i + S j')%nat by lia. exact Hm.
  Qed.

  (* the brute-force count is the semiring sum over all assignments of the variables
     0..num_vars-1; it panics exactly when one of those variables has no weight *)
  Theorem wmc_bruteforce_spec cs w :
    let c := cnf_new cs in
    let n := N.to_nat (num_vars c) in
    (forall wv, weight_vec R w 0 n = Some wv ->
       wmc R radd rmul rzero rone c w = Some (wmc_spec n wv (fun a => cnf_sem (asg_of_list a) cs))) /\
    (weight_vec R w 0 n = None -> wmc R radd rmul rzero rone c w = None).
  Proof.
    intros c n. split.
    - intros wv Hwv. unfold wmc. fold c n. rewrite Hwv.
      destruct (all_asg_chain n) as [rest [E Hc]].
      pose proof (all_asg_length n) as HL. rewrite E in HL. cbn [length] in HL.
      assert (Hev : forall b, In b (all_asg n) -> cnf_eval_impl c b = Some (cnf_sem (asg_of_list b) cs)).
      { intros b Hb. apply all_asg_In in Hb. apply (proj1 (eval_spec cs b)). fold c. unfold n in Hb. lia. }
      cbn [wmc_loop ai_new ai_next ai_cur ai_n].
      rewrite (Hev (repeat false n)) by (rewrite E; left; reflexivity).
      unfold wmc_spec. rewrite E. cbn [wmc_sum fold_right].
      fold (wmc_sum wv (fun a => cnf_sem (asg_of_list a) cs) rest).
      destruct (cnf_sem (asg_of_list (repeat false n)) cs).
      + unfold n. rewrite (wmc_loop_chain c wv (fun a => cnf_sem (asg_of_list a) cs) rest); auto; try (fold n; lia).
        * rewrite fold_left_sum, asg_weight_spec, radd_0_l. reflexivity.
        * intros b Hb. apply Hev. rewrite E. right; exact Hb.
      + unfold n. rewrite (wmc_loop_chain c wv (fun a => cnf_sem (asg_of_list a) cs) rest); auto; try (fold n; lia).
        * rewrite fold_left_sum. reflexivity.
        * intros b Hb. apply Hev. rewrite E. right; exact Hb.
    - intros H. unfold wmc. fold c n. rewrite H. reflexivity.
  Qed.

  (* D6: a formula without clauses has no variables and weight one *)
  Corollary wmc_empty_formula w : wmc R radd rmul rzero rone (cnf_new []) w = Some rone.
  Proof.
    destruct (wmc_bruteforce_spec [] w) as [H _]. specialize (H [] eq_refl). rewrite H.
    f_equal. unfold wmc_spec, wmc_sum, weight_spec. cbn. apply radd_0_r.
  Qed.

  Lemma wmc_sum_false wv f l : (forall a, f a = false) -> wmc_sum wv f l = rzero.
  Proof.
    intros Hf. induction l as [|a l' IH]; [reflexivity|].
    cbn [wmc_sum fold_right]. fold (wmc_sum wv f l'). rewrite Hf, IH. apply radd_0_l.
  Qed.

  (* a formula containing the empty clause has weight zero *)
  Corollary wmc_empty_clause cs w wv :
    In [] cs -> weight_vec R w 0 (N.to_nat (num_vars (cnf_new cs))) = Some wv ->
    wmc R radd rmul rzero rone (cnf_new cs) w = Some rzero.
  Proof.
    intros Hin Hwv. destruct (wmc_bruteforce_spec cs w) as [H _]. rewrite (H wv Hwv).
    f_equal. apply wmc_sum_false. intros a.
    unfold cnf_sem. apply not_true_is_false. intros Ht. rewrite forallb_forall in Ht.
    specialize (Ht [] Hin). discriminate.
  Qed.
End WmcProofs.

(* ------------------------------------------------------------------------------------ *)
(* Literal bit packing *)
Lemma two63_pos : two63 <> 0. Proof. discriminate. Qed.

Lemma mod64_mod63 v : (v mod two64) mod two63 = v mod two63.
Proof.
  change two64 with (two63 * 2). rewrite N.mod_mul_r by discriminate.
  rewrite (N.mul_comm two63), N.mod_add by discriminate. apply N.mod_mod; discriminate.
Qed.

Lemma set_label_zero v : set_label 0 v = v mod two63.
Proof.
  unfold set_label, bf_set.
  change ((2 ^ (63 - 0) - 1) * 2 ^ 0) with (N.ones 63).
  rewrite N.ldiff_0_l, N.lor_0_l, N.land_ones.
  change (2 ^ 0) with 1. rewrite N.mul_1_r. apply mod64_mod63.
Qed.

Lemma land_low_two63 x : N.land (x mod two63) two63 = 0.
Proof.
  apply N.bits_inj. intros n. rewrite N.land_spec, N.bits_0.
  unfold two63 at 2. rewrite N.pow2_bits_eqb.
  destruct (N.eqb_spec 63 n) as [<-|Hne]; [|apply andb_false_r].
  unfold two63. rewrite N.mod_pow2_bits_high by lia. reflexivity.
Qed.

Lemma set_polarity_low x (p : bool) :
  set_polarity (x mod two63) (if p then 1 else 0) = x mod two63 + (if p then two63 else 0).
Proof.
  unfold set_polarity, bf_set.
  change ((2 ^ (64 - 63) - 1) * 2 ^ 63) with two63.
  assert (E1 : N.ldiff (x mod two63) two63 = x mod two63).
  { apply N.bits_inj. intros n. rewrite N.ldiff_spec.
    unfold two63 at 2. rewrite N.pow2_bits_eqb.
    destruct (N.eqb_spec 63 n) as [<-|Hne]; [|apply andb_true_r].
    unfold two63. rewrite N.mod_pow2_bits_high by lia. reflexivity. }
  rewrite E1. destruct p.
  - change (N.land ((1 * 2 ^ 63) mod two64) two63) with two63.
    rewrite <- N.lxor_lor by apply land_low_two63.
    symmetry. apply N.add_nocarry_lxor, land_low_two63.
  - change (N.land ((0 * 2 ^ 63) mod two64) two63) with 0.
    rewrite N.lor_0_r, N.add_0_r. reflexivity.
Qed.

(* the packed word: 63 label bits, the polarity in bit 63 *)
Theorem literal_new_value l p :
  literal_new l p = l mod two63 + (if p then two63 else 0).
Proof. unfold literal_new. rewrite set_label_zero. apply set_polarity_low. Qed.

Lemma literal_new_lt l p : literal_new l p < two64.
Proof.
  rewrite literal_new_value. pose proof (N.mod_lt l two63 two63_pos) as H.
  change two64 with (two63 + two63). destruct p; lia.
Qed.

Lemma raw_label_value d : d < two64 -> raw_label d = d mod two63.
Proof.
  intros Hd. unfold raw_label, bf_get.
  change (2 ^ (64 - 63)) with 2. change (2 ^ (64 - 63 + 0)) with 2.
  change two64 with (two63 * 2). rewrite N.mul_mod_distr_r by discriminate.
  apply N.div_mul; discriminate.
Qed.

Lemma raw_polarity_value d : d < two64 -> raw_polarity d = d / two63.
Proof.
  intros Hd. unfold raw_polarity, bf_get.
  change (2 ^ (64 - 64)) with 1. change (2 ^ (64 - 64 + 63)) with two63.
  rewrite N.mul_1_r, N.mod_small by exact Hd. reflexivity.
Qed.

(* round trip: the label survives modulo 2^63 (so exactly when it is below 2^63), the
   polarity always *)
Theorem literal_roundtrip l p :
  literal_label (literal_new l p) = l mod two63 /\ literal_polarity (literal_new l p) = p.
Proof.
  unfold literal_label, literal_polarity.
  rewrite raw_label_value, raw_polarity_value by apply literal_new_lt.
  rewrite literal_new_value. pose proof (N.mod_lt l two63 two63_pos) as H. split.
  - destruct p.
    + replace (l mod two63 + two63) with (l mod two63 + 1 * two63) by lia.
      rewrite N.mod_add by discriminate. apply N.mod_mod; discriminate.
    + rewrite N.add_0_r. apply N.mod_mod; discriminate.
  - destruct p.
    + replace (l mod two63 + two63) with (l mod two63 + 1 * two63) by lia.
      rewrite N.div_add by discriminate. rewrite N.div_small by exact H. reflexivity.
    + rewrite N.add_0_r, N.div_small by exact H. reflexivity.
Qed.

Corollary literal_view_new l p : l < two63 -> literal_view (literal_new l p) = (l, p).
Proof.
  intros Hl. unfold literal_view. destruct (literal_roundtrip l p) as [-> ->].
  rewrite N.mod_small by exact Hl. reflexivity.
Qed.

Corollary literal_new_inj l1 p1 l2 p2 :
  l1 < two63 -> l2 < two63 -> literal_new l1 p1 = literal_new l2 p2 -> l1 = l2 /\ p1 = p2.
Proof.
  intros H1 H2 E. pose proof (literal_view_new l1 p1 H1) as V1.
  rewrite E, (literal_view_new l2 p2 H2) in V1. inversion V1; auto.
Qed.

Theorem literal_negated_view d :
  literal_view (literal_negated d) = (literal_label d mod two63, negb (literal_polarity d)).
Proof.
  unfold literal_negated, literal_view.
  destruct (literal_roundtrip (literal_label d) (negb (literal_polarity d))) as [-> ->]. reflexivity.
Qed.

(* ------------------------------------------------------------------------------------ *)
(* VarSet / PartialModel laws *)
Lemma vs_contains_insert v s w : vs_contains (vs_insert v s) w = (w =? v) || vs_contains s w.
Proof.
  unfold vs_contains. induction s as [|x t IH]; cbn [vs_insert existsb].
  - reflexivity.
  - destruct (v <? x); [reflexivity|]. destruct (N.eqb_spec v x) as [->|Hne].
    + cbn [existsb]. destruct (w =? x); reflexivity.
    + cbn [existsb]. rewrite IH. destruct (w =? v), (w =? x); reflexivity.
Qed.

Lemma vs_contains_remove v s w : vs_contains (vs_remove v s) w = negb (w =? v) && vs_contains s w.
Proof.
  unfold vs_contains, vs_remove. induction s as [|x t IH]; cbn [filter existsb].
  - rewrite andb_false_r; reflexivity.
  - destruct (N.eqb_spec x v) as [->|Hne]; cbn [negb existsb]; rewrite IH.
    + destruct (w =? v); reflexivity.
    + destruct (N.eqb_spec w x) as [->|Hwx]; cbn [orb].
      * destruct (N.eqb_spec x v); [contradiction|reflexivity].
      * reflexivity.
Qed.

Lemma vs_contains_In s v : vs_contains s v = true <-> In v s.
Proof.
  unfold vs_contains. rewrite existsb_exists. split.
  - intros [x [Hx He]]. apply N.eqb_eq in He. subst; exact Hx.
  - intros H. exists v. split; [exact H|apply N.eqb_refl].
Qed.

Lemma vs_contains_difference s o w :
  vs_contains (vs_difference s o) w = vs_contains s w && negb (vs_contains o w).
Proof.
  apply eq_true_iff_eq. rewrite andb_true_iff, negb_true_iff, !vs_contains_In.
  unfold vs_difference. rewrite filter_In, negb_true_iff. reflexivity.
Qed.

(* iteration order: a VarSet stays strictly increasing (BitSet iterates in index order) *)
Definition vs_wf (s : varset) : Prop := StronglySorted N.lt s.

Lemma vs_insert_In v s y : In y (vs_insert v s) <-> y = v \/ In y s.
Proof.
  rewrite <- !vs_contains_In, vs_contains_insert, orb_true_iff, N.eqb_eq. reflexivity.
Qed.

Lemma vs_insert_wf v s : vs_wf s -> vs_wf (vs_insert v s).
Proof.
  unfold vs_wf. induction s as [|x t IH]; intros H; cbn [vs_insert].
  - repeat constructor.
  - inversion H as [|? ? Ht Hx]; subst.
    destruct (N.ltb_spec v x) as [Hlt|Hge].
    + constructor; [exact H|]. constructor; [exact Hlt|].
      eapply Forall_impl; [|exact Hx]. intros a Ha; cbn beta in *. lia.
    + destruct (N.eqb_spec v x) as [->|Hne]; [exact H|].
      constructor; [apply IH, Ht|]. apply Forall_forall. intros y Hy.
      apply vs_insert_In in Hy. destruct Hy as [->|Hy]; [lia|].
      rewrite Forall_forall in Hx. apply Hx, Hy.
Qed.

Lemma filter_wf p s : vs_wf s -> vs_wf (filter p s).
Proof.
  unfold vs_wf. induction s as [|x t IH]; intros H; cbn [filter]; [constructor|].
  inversion H as [|? ? Ht Hx]; subst. destruct (p x); [|apply IH, Ht].
  constructor; [apply IH, Ht|]. apply Forall_forall. intros y Hy. apply filter_In in Hy.
  rewrite Forall_forall in Hx. apply Hx, Hy.
Qed.

Lemma vs_remove_wf v s : vs_wf s -> vs_wf (vs_remove v s).
Proof. apply filter_wf. Qed.
Lemma vs_difference_wf s o : vs_wf s -> vs_wf (vs_difference s o).
Proof. apply filter_wf. Qed.

Definition pm_wf (m : pmodel) : Prop :=
  vs_wf (pm_true m) /\ vs_wf (pm_false m) /\
  (forall v, vs_contains (pm_true m) v = true -> vs_contains (pm_false m) v = false).

Theorem pm_get_new n v : pm_get (pm_new n) v = None.
Proof. reflexivity. Qed.

Theorem pm_get_set m v b w : pm_get (pm_set m v b) w = if w =? v then Some b else pm_get m w.
Proof.
  unfold pm_get, pm_set. destruct b; cbn [pm_true pm_false];
    rewrite vs_contains_insert, vs_contains_remove; destruct (w =? v); cbn [orb negb andb]; reflexivity.
Qed.

Theorem pm_get_unset m v w : pm_get (pm_unset m v) w = if w =? v then None else pm_get m w.
Proof.
  unfold pm_get, pm_unset. cbn [pm_true pm_false].
  rewrite !vs_contains_remove. destruct (w =? v); cbn [negb andb]; reflexivity.
Qed.

Theorem pm_is_set_spec m v :
  pm_is_set m v = match pm_get m v with Some _ => true | None => false end.
Proof.
  unfold pm_is_set, pm_get.
  destruct (vs_contains (pm_true m) v), (vs_contains (pm_false m) v); reflexivity.
Qed.

Theorem pm_lit_neg_implied_iff m l :
  pm_lit_neg_implied m l = true <-> pm_get m (fst l) = Some (negb (snd l)).
Proof.
  unfold pm_lit_neg_implied. destruct (pm_get m (fst l)) as [b|]; [|split; discriminate].
  destruct b, (snd l); cbn; split; intros H; try reflexivity; try discriminate.
Qed.

Lemma pm_new_wf n : pm_wf (pm_new n).
Proof. split; [constructor|split; [constructor|intros v H; discriminate]]. Qed.

Lemma pm_set_wf m v b : pm_wf m -> pm_wf (pm_set m v b).
Proof.
  intros (Ht & Hf & Hd). unfold pm_set. destruct b; cbn [pm_true pm_false].
  - split; [apply vs_insert_wf, Ht|]. split; [apply vs_remove_wf, Hf|].
    intros w. rewrite vs_contains_insert, vs_contains_remove.
    destruct (N.eqb_spec w v) as [->|Hne]; cbn [orb negb andb]; [intros _; reflexivity|apply Hd].
  - split; [apply vs_remove_wf, Ht|]. split; [apply vs_insert_wf, Hf|].
    intros w. rewrite vs_contains_insert, vs_contains_remove.
    destruct (N.eqb_spec w v) as [->|Hne]; cbn [orb negb andb]; [discriminate|apply Hd].
Qed.

Lemma pm_unset_wf m v : pm_wf m -> pm_wf (pm_unset m v).
Proof.
  intros (Ht & Hf & Hd). unfold pm_unset. cbn [pm_true pm_false]. split; [|split].
  - apply vs_remove_wf, Ht.
  - apply vs_remove_wf, Hf.
  - intros w. rewrite !vs_contains_remove. destruct (w =? v); cbn [negb andb]; auto.
Qed.

(* assignment_iter lists exactly the assigned literals (false ones first) *)
Theorem pm_assignment_iter_spec m l :
  pm_wf m -> (In l (pm_assignment_iter m) <-> pm_get m (fst l) = Some (snd l)).
Proof.
  intros (_ & _ & Hd). unfold pm_assignment_iter, pm_get. rewrite in_app_iff, !in_map_iff.
  destruct l as [v b]; cbn [fst snd]. specialize (Hd v). split.
  - intros [[x [E Hx]]|[x [E Hx]]]; inversion E; subst; apply vs_contains_In in Hx.
    + destruct (vs_contains (pm_true m) v); [specialize (Hd eq_refl); congruence|].
      rewrite Hx. reflexivity.
    + rewrite Hx. reflexivity.
  - destruct (vs_contains (pm_true m) v) eqn:Et.
    + intros H; inversion H; subst. right. exists v. split; [reflexivity|apply vs_contains_In, Et].
    + destruct (vs_contains (pm_false m) v) eqn:Ef; [|discriminate].
      intros H; inversion H; subst. left. exists v. split; [reflexivity|apply vs_contains_In, Ef].
Qed.

(* difference: the literals assigned by m that o does not assign the same way *)
Theorem pm_difference_spec m o l :
  pm_wf m -> pm_wf o ->
  (In l (pm_difference m o) <-> pm_get m (fst l) = Some (snd l) /\ pm_get o (fst l) <> Some (snd l)).
Proof.
  intros (_ & _ & Hdm) (_ & _ & Hdo). unfold pm_difference, pm_get.
  rewrite in_app_iff, !in_map_iff. destruct l as [v b]; cbn [fst snd].
  specialize (Hdm v). specialize (Hdo v). split.
  - intros [[x [E Hx]]|[x [E Hx]]]; inversion E; subst; apply vs_contains_In in Hx;
      rewrite vs_contains_difference in Hx; apply andb_true_iff in Hx; destruct Hx as [H1 H2];
      apply negb_true_iff in H2.
    + destruct (vs_contains (pm_true m) v); [specialize (Hdm eq_refl); congruence|].
      rewrite H1, H2. split; [reflexivity|]. destruct (vs_contains (pm_true o) v); discriminate.
    + rewrite H1, H2. split; [reflexivity|]. destruct (vs_contains (pm_false o) v); discriminate.
  - intros [H1 H2].
    destruct (vs_contains (pm_true m) v) eqn:Et.
    + inversion H1; subst. right. exists v. split; [reflexivity|].
      apply vs_contains_In. rewrite vs_contains_difference, Et.
      destruct (vs_contains (pm_true o) v); [congruence|reflexivity].
    + destruct (vs_contains (pm_false m) v) eqn:Ef; [|discriminate].
      inversion H1; subst. left. exists v. split; [reflexivity|].
      apply vs_contains_In. rewrite vs_contains_difference, Ef.
      destruct (vs_contains (pm_true o) v) eqn:Eto.
      * rewrite (Hdo eq_refl). reflexivity.
      * destruct (vs_contains (pm_false o) v); [congruence|reflexivity].
Qed.
