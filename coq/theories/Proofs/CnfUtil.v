(* Proofs about Model/CnfUtil.v (property C15).  Spec vocabulary first: assignments are
   functions N -> bool, a CNF denotes the conjunction of the disjunctions of its literals. *)
From Coq Require Import Bool NArith List Arith Lia Permutation Sorted ZArith Znumtheory.
Import ListNotations.
From RsddV Require Import Base.Util Base.Bdd Generated.Constants Model.CnfUtil.
Local Open Scope N_scope.

(* ------------------------------------------------------------------------------------ *)
(* Spec *)
Definition lit_true (a : asg) (l : lit) : bool := Bool.eqb (snd l) (a (fst l)).
Definition clause_sem (a : asg) (c : clause) : bool := existsb (lit_true a) c.
Definition cnf_sem (a : asg) (cs : list clause) : bool := forallb (clause_sem a) cs.
Definition asg_of_list (l : list bool) : asg := fun v => nth (N.to_nat v) l false.
Definition upd (a : asg) (x : lit) : asg := fun v => if v =? fst x then snd x else a v.
Definition lit_neg (x : lit) : lit := (fst x, negb (snd x)).

Definition lbl_le (a b : lit) : Prop := fst a <= fst b.
Fixpoint no_adj (l : clause) : Prop :=
  match l with
  | x :: t => match t with y :: _ => x <> y | [] => True end /\ no_adj t
  | [] => True
  end.
(* "1 + largest label, or 0" *)
Definition nv_spec (cs : list clause) (n : N) : Prop :=
  (forall c l, In c cs -> In l c -> fst l < n) /\
  (n = 0 \/ exists c l, In c cs /\ In l c /\ n = fst l + 1).

Lemma lit_eqb_eq a b : lit_eqb a b = true <-> a = b.
Proof.
  unfold lit_eqb. destruct a as [a1 a2], b as [b1 b2]; cbn [fst snd].
  rewrite andb_true_iff, N.eqb_eq, eqb_true_iff. split.
  - intros [-> ->]; reflexivity.
  - intros H; inversion H; auto.
Qed.
Lemma lit_eqb_refl a : lit_eqb a a = true.
Proof. apply lit_eqb_eq; reflexivity. Qed.
Lemma lit_eqb_neq a b : lit_eqb a b = false <-> a <> b.
Proof.
  split.
  - intros H E. apply lit_eqb_eq in E. congruence.
  - intros H. destruct (lit_eqb a b) eqn:E; auto. apply lit_eqb_eq in E. contradiction.
Qed.

(* ------------------------------------------------------------------------------------ *)
(* Cnf::new *)
Lemma insert_lit_perm x l : Permutation (insert_lit x l) (x :: l).
Proof.
  induction l as [|y t IH]; cbn [insert_lit].
  - reflexivity.
  - destruct (fst x <=? fst y).
    + reflexivity.
    + etransitivity; [apply perm_skip, IH | apply perm_swap].
Qed.

Lemma sort_clause_perm l : Permutation (sort_clause l) l.
Proof.
  induction l as [|x t IH]; cbn [sort_clause fold_right].
  - reflexivity.
  - etransitivity; [apply insert_lit_perm | apply perm_skip, IH].
Qed.

Lemma insert_lit_sorted x l : Sorted lbl_le l -> Sorted lbl_le (insert_lit x l).
Proof.
  induction l as [|y t IH]; intros Hs; cbn [insert_lit].
  - repeat constructor.
  - destruct (N.leb_spec (fst x) (fst y)) as [Hle|Hgt].
    + constructor; [exact Hs | constructor; exact Hle].
    + inversion Hs as [|? ? Hst Hhd]; subst. constructor; [apply IH, Hst|].
      destruct t as [|z t']; cbn [insert_lit].
      * constructor. unfold lbl_le; lia.
      * destruct (fst x <=? fst z).
        -- constructor; unfold lbl_le; lia.
        -- inversion Hhd; subst. constructor; assumption.
Qed.

Lemma sort_clause_sorted l : Sorted lbl_le (sort_clause l).
Proof.
  induction l as [|x t IH]; cbn [sort_clause fold_right].
  - constructor.
  - apply insert_lit_sorted, IH.
Qed.

(* stability: literals of one label keep their relative order *)
Lemma insert_lit_stable k x l :
  filter (fun y => fst y =? k) (insert_lit x l) = filter (fun y => fst y =? k) (x :: l).
Proof.
  induction l as [|y t IH]; cbn [insert_lit].
  - reflexivity.
  - destruct (N.leb_spec (fst x) (fst y)) as [Hle|Hgt]; [reflexivity|].
    cbn [filter] in *. rewrite IH.
    destruct (N.eqb_spec (fst y) k), (N.eqb_spec (fst x) k); try reflexivity. lia.
Qed.

Lemma sort_clause_stable k l :
  filter (fun y => fst y =? k) (sort_clause l) = filter (fun y => fst y =? k) l.
Proof.
  induction l as [|x t IH]; cbn [sort_clause fold_right]; [reflexivity|].
  fold (sort_clause t). rewrite insert_lit_stable. cbn [filter]. rewrite IH. reflexivity.
Qed.

Lemma dedup_cons2 x y t :
  dedup (x :: y :: t) = if lit_eqb x y then dedup (y :: t) else x :: dedup (y :: t).
Proof. reflexivity. Qed.

Lemma dedup_hd y t : exists r, dedup (y :: t) = y :: r.
Proof.
  revert y; induction t as [|z t IH]; intros y.
  - exists []; reflexivity.
  - rewrite dedup_cons2. destruct (lit_eqb y z) eqn:E.
    + apply lit_eqb_eq in E; subst. apply IH.
    + eexists; reflexivity.
Qed.

Lemma dedup_In x l : In x (dedup l) <-> In x l.
Proof.
  induction l as [|y t IH]; [reflexivity|].
  destruct t as [|z t']; [reflexivity|].
  rewrite dedup_cons2. destruct (lit_eqb y z) eqn:E.
  - apply lit_eqb_eq in E; subst z. rewrite IH. cbn [In]. tauto.
  - cbn [In] in *. rewrite IH. tauto.
Qed.

Lemma dedup_sorted l : Sorted lbl_le l -> Sorted lbl_le (dedup l).
Proof.
  induction l as [|y t IH]; intros Hs; [constructor|].
  destruct t as [|z t']; [exact Hs|].
  inversion Hs as [|? ? Hst Hhd]; subst.
  rewrite dedup_cons2. destruct (lit_eqb y z) eqn:E; [apply IH, Hst|].
  constructor; [apply IH, Hst|].
  destruct (dedup_hd z t') as [r ->]. inversion Hhd; subst. constructor; assumption.
Qed.

Lemma dedup_no_adj l : no_adj (dedup l).
Proof.
  induction l as [|y t IH]; [exact I|].
  destruct t as [|z t']; [cbn; auto|].
  rewrite dedup_cons2. destruct (lit_eqb y z) eqn:E; [exact IH|].
  destruct (dedup_hd z t') as [r Hr]. rewrite Hr in *.
  split; [|exact IH]. apply lit_eqb_neq, E.
Qed.

(* dedup only ever drops an element equal to its successor *)
Lemma dedup_fixpoint l : no_adj l -> dedup l = l.
Proof.
  induction l as [|y t IH]; [reflexivity|].
  destruct t as [|z t']; [reflexivity|].
  intros [Hne Ht]. rewrite dedup_cons2.
  destruct (lit_eqb y z) eqn:E; [apply lit_eqb_eq in E; contradiction|].
  rewrite IH by exact Ht. reflexivity.
Qed.

Lemma norm_clause_In x c : In x (norm_clause c) <-> In x c.
Proof.
  unfold norm_clause. rewrite dedup_In. split; apply Permutation_in.
  - apply sort_clause_perm.
  - symmetry; apply sort_clause_perm.
Qed.

Lemma clause_sem_ext a c c' : (forall l, In l c' <-> In l c) -> clause_sem a c' = clause_sem a c.
Proof.
  intros H. unfold clause_sem. apply eq_true_iff_eq. rewrite !existsb_exists.
  split; intros [l [Hin Ht]]; exists l; split; auto; apply H; auto.
Qed.

Lemma fold_max_spec {A} (f : A -> N) (l : list A) (init : N) :
  init <= fold_left (fun m x => N.max m (f x)) l init /\
  (forall x, In x l -> f x <= fold_left (fun m x => N.max m (f x)) l init) /\
  (fold_left (fun m x => N.max m (f x)) l init = init \/
   exists x, In x l /\ fold_left (fun m x => N.max m (f x)) l init = f x).
Proof.
  revert init; induction l as [|y t IH]; intros init; cbn [fold_left].
  - split; [lia|]. split; [intros x []|]. left; reflexivity.
  - specialize (IH (N.max init (f y))). destruct IH as (H1 & H2 & H3).
    split; [lia|]. split.
    + intros x [->|Hin]; [lia|]. apply H2, Hin.
    + destruct H3 as [H3|[x [Hin Hx]]].
      * destruct (N.max_spec init (f y)) as [[_ Hm]|[_ Hm]].
        -- right; exists y; split; [left; reflexivity|rewrite H3; exact Hm].
        -- left; rewrite H3; exact Hm.
      * right; exists x; split; [right; exact Hin|exact Hx].
Qed.

Lemma cnf_nv_spec cs : nv_spec cs (cnf_nv cs).
Proof.
  unfold cnf_nv.
  destruct (fold_max_spec clause_nv cs 0) as (_ & H2 & H3). split.
  - intros c l Hc Hl. specialize (H2 c Hc).
    destruct (fold_max_spec (fun l => fst l + 1) c 0) as (_ & G2 & _).
    specialize (G2 l Hl).
    change (clause_nv c) with (fold_left (fun m l => N.max m (fst l + 1)) c 0) in H2.
    cbn beta in G2. lia.
  - destruct H3 as [H3|[c [Hc Hr]]]; [left; exact H3|].
    destruct (fold_max_spec (fun l => fst l + 1) c 0) as (_ & _ & G3).
    change (clause_nv c) with (fold_left (fun m l => N.max m (fst l + 1)) c 0) in Hr.
    destruct G3 as [G3|[l [Hl Hx]]].
    + left. rewrite Hr. exact G3.
    + right. exists c, l. split; [exact Hc|]. split; [exact Hl|]. rewrite Hr. exact Hx.
Qed.

Lemma nv_spec_unique cs n m : nv_spec cs n -> nv_spec cs m -> n = m.
Proof.
  intros [A1 A2] [B1 B2].
  destruct A2 as [->|(c & l & Hc & Hl & ->)], B2 as [->|(c' & l' & Hc' & Hl' & ->)]; auto.
  - specialize (A1 c' l' Hc' Hl'). lia.
  - specialize (B1 c l Hc Hl). lia.
  - specialize (A1 c' l' Hc' Hl'). specialize (B1 c l Hc Hl). lia.
Qed.

Lemma nv_spec_ext cs cs' n :
  Forall2 (fun c c' => forall l, In l c' <-> In l c) cs cs' -> nv_spec cs' n -> nv_spec cs n.
Proof.
  intros HF [H1 H2]. split.
  - intros c l Hc Hl.
    assert (exists c', In c' cs' /\ forall l, In l c' <-> In l c) as [c' [Hc' Hiff]].
    { clear -HF Hc. induction HF as [|a b la lb Hab HF IH]; [destruct Hc|].
      destruct Hc as [->|Hc].
      - exists b; split; [left; reflexivity|exact Hab].
      - destruct (IH Hc) as [c' [Hc' Hiff]]. exists c'; split; [right; exact Hc'|exact Hiff]. }
    apply (H1 c' l Hc'). apply Hiff, Hl.
  - destruct H2 as [->|(c' & l & Hc' & Hl & ->)]; [left; reflexivity|right].
    assert (exists c, In c cs /\ forall l, In l c' <-> In l c) as [c [Hc Hiff]].
    { clear -HF Hc'. induction HF as [|a b la lb Hab HF IH]; [destruct Hc'|].
      destruct Hc' as [->|Hc'].
      - exists a; split; [left; reflexivity|exact Hab].
      - destruct (IH Hc') as [c [Hc Hiff]]. exists c; split; [right; exact Hc|exact Hiff]. }
    exists c, l. split; [exact Hc|]. split; [apply Hiff, Hl|reflexivity].
Qed.
