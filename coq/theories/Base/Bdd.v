(* Tree layer: a BDD pointer is modelled by its unfolding.  [BN c v lo hi] is a pointer with
   complement bit [c] to the node (v, lo, hi) (repr/bdd.rs: BddPtr::{Reg,Compl}, BddNode). *)
From Coq Require Import Bool NArith List Lia Arith.
Import ListNotations.

Definition var := N.
Definition asg := var -> bool.

Inductive bdd := BT | BF | BN (c : bool) (v : var) (lo hi : bdd).

Fixpoint bdd_eqb (p q : bdd) : bool :=
  match p, q with
  | BT, BT | BF, BF => true
  | BN c v l h, BN c' v' l' h' => Bool.eqb c c' && N.eqb v v' && bdd_eqb l l' && bdd_eqb h h'
  | _, _ => false
  end.

Lemma bdd_eqb_eq p q : bdd_eqb p q = true <-> p = q.
Proof.
  revert q; induction p as [| |c v l IHl h IHh]; intros [| |c' v' l' h']; simpl; split; try congruence; try reflexivity.
  - rewrite !andb_true_iff. intros [[[H1 H2] H3] H4].
    apply eqb_prop in H1. apply N.eqb_eq in H2. apply IHl in H3. apply IHh in H4. congruence.
  - intros H; inversion H; subst. rewrite eqb_reflx, N.eqb_refl. simpl.
    rewrite (proj2 (IHl _) eq_refl), (proj2 (IHh _) eq_refl). reflexivity.
Qed.

Definition neg (p : bdd) : bdd :=
  match p with BT => BF | BF => BT | BN c v l h => BN (negb c) v l h end.
Definition is_true p := match p with BT => true | _ => false end.
Definition is_false p := match p with BF => true | _ => false end.
Definition is_neg p := match p with BN true _ _ _ => true | _ => false end.

Fixpoint den (p : bdd) (a : asg) : bool :=
  match p with
  | BT => true | BF => false
  | BN c v l h => xorb c (if a v then den h a else den l a)
  end.

Lemma den_neg p a : den (neg p) a = negb (den p a).
Proof. destruct p as [| |[] v l h]; simpl; try reflexivity; destruct (if a v then _ else _); reflexivity. Qed.


(* functional update of an assignment *)
Definition upd (a : asg) (v : var) (b : bool) : asg := fun u => if N.eqb u v then b else a u.
Lemma upd_same a v b : upd a v b v = b.
Proof. unfold upd. rewrite N.eqb_refl. reflexivity. Qed.
