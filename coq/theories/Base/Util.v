(* Shared list utilities: arrays as lists with functional update. *)
From Coq Require Import Bool NArith List Lia Arith.
Import ListNotations.

Fixpoint set_nth {A} (l : list A) (i : nat) (x : A) : list A :=
  match l, i with
  | [], _ => []
  | _ :: t, O => x :: t
  | y :: t, S j => y :: set_nth t j x
  end.

Lemma length_set_nth {A} (l : list A) i x : length (set_nth l i x) = length l.
Proof. revert i; induction l as [|y t IH]; intros [|j]; simpl; auto. Qed.

Lemma nth_set_nth_eq {A} (l : list A) i x d : i < length l -> nth i (set_nth l i x) d = x.
Proof. revert i; induction l as [|y t IH]; intros [|j] H; simpl in *; try lia; auto. apply IH; lia. Qed.

Lemma nth_set_nth_neq {A} (l : list A) i j x d : i <> j -> nth j (set_nth l i x) d = nth j l d.
Proof.
  revert i j; induction l as [|y t IH]; intros [|i] [|j] H; simpl; auto; try lia.
Qed.

Lemma nth_repeat_lt {A} (x d : A) n i : nth i (repeat x n) d = if Nat.ltb i n then x else d.
Proof.
  revert i; induction n as [|n IH]; intros [|i]; simpl; auto. rewrite IH.
  change (Nat.ltb (S i) (S n)) with (Nat.ltb i n). reflexivity.
Qed.

(* count of the elements satisfying a predicate *)
Fixpoint count {A} (p : A -> bool) (l : list A) : nat :=
  match l with [] => 0 | x :: t => (if p x then 1 else 0) + count p t end.

Lemma count_repeat_false {A} (p : A -> bool) x n : p x = false -> count p (repeat x n) = 0.
Proof. intros H; induction n; simpl; auto. rewrite H. auto. Qed.

Lemma count_set_nth {A} (p : A -> bool) l i x d : i < length l ->
  count p (set_nth l i x) + (if p (nth i l d) then 1 else 0) = count p l + (if p x then 1 else 0).
Proof.
  revert i; induction l as [|y t IH]; intros [|i] H; simpl in *; try lia.
  specialize (IH i ltac:(lia)). lia.
Qed.
