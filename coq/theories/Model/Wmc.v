(* Model of weighted model counting on BDD pointers (repr/bdd.rs `fold` for BddPtr through
   DDNNFPtr::unsmoothed_wmc in repr/ddnnf.rs): a complemented pointer is counted by pushing
   the negation to its children; node value = (w_lo * low) + (w_hi * high); the per-node
   dual-polarity memo is removed here (C10 shows memoised = plain recursion). *)
From Coq Require Import Bool NArith List Lia Arith.
Import ListNotations.
From RsddV Require Import Base.Bdd.

Section Wmc.
Variable S : Type.
Variable add mul : S -> S -> S.
Variable zero one : S.
Variable wlo whi : var -> S.      (* WmcParams::var_weight *)

(* wmc_c c p = the fold's value for the pointer (p complemented c times) *)
Fixpoint wmc_c (c0 : bool) (p : bdd) : S :=
  match p with
  | BT => if c0 then zero else one
  | BF => if c0 then one else zero
  | BN c v lo hi =>
    let c' := xorb c0 c in
    add (mul (wlo v) (wmc_c c' lo)) (mul (whi v) (wmc_c c' hi))
  end.
Definition wmc_m (p : bdd) : S := wmc_c false p.

(* the specification: semiring sum over all assignments of [vars] of the product of the chosen
   literal weights, restricted to the models of f; variables outside [vars] keep x's value *)
Fixpoint wmc_spec (vars : list var) (f : asg -> bool) (x : asg) : S :=
  match vars with
  | [] => if f x then one else zero
  | v :: vs => add (mul (wlo v) (wmc_spec vs f (upd x v false))) (mul (whi v) (wmc_spec vs f (upd x v true)))
  end.
End Wmc.

(* DDNNFPtr::evaluate: the Boolean semiring with weights (not a[v], a[v]) *)
Definition evaluate_m (p : bdd) (a : asg) : bool :=
  wmc_m bool orb andb false true (fun v => negb (a v)) (fun v => a v) p.
