(* Model of semantic hashing (src/repr/ddnnf.rs, src/repr/bdd.rs, src/util/semirings/finitefield.rs).

   * A value of type FiniteField<P> is [hv = option N]: [None] = the Rust code panicked (u128
     overflow in a build with overflow checks, [% 0], or a variable missing from the weight
     map); the arithmetic is Model/Semirings.v's transcription of finitefield.rs in both build
     modes.
   * DDNNFPtr::semantic_hash(map) = unsmoothed_wmc(map) in FiniteField<P> = Model/Wmc.v's fold
     instantiated with these operations: [hash_m].
   * BddPtr::cached_semantic_hash / BddNode::{semantic_hash, cached_semantic_hash}: the field
     [semantic_hash : RefCell<Option<u128>>] of every node is a finite map keyed by the node
     (tree layer: the regular pointer [BN false v lo hi] to it), threaded through: [cached_hash].
     The stored value is a bare u128 -- neither the modulus nor the weight map is recorded.
   * create_semantic_hash_map draws its weights from ChaCha8 and is NOT re-implemented: the
     weights are inputs (the harness reads the real ones from the implementation);
     [weights_ok] checks what the code guarantees about them (2 <= high < P,
     low = (P - high + 1) mod P).
   No proofs in this file. *)
From Coq Require Import Bool NArith List.
Import ListNotations.
From RsddV Require Import Base.Bdd Model.Wmc Model.Semirings.

Local Open Scope N_scope.

(* FiniteField<P> values, with panics *)
Definition hv := option N.
Definition hadd (m : mode) (P : N) (x y : hv) : hv := bind x (fun a => bind y (fun b => ff_add m P a b)).
Definition hmul (m : mode) (P : N) (x y : hv) : hv := bind x (fun a => bind y (fun b => ff_mul m P a b)).
(* FiniteField::negate: new(P - v + 1) *)
Definition hneg (m : mode) (P : N) (x : hv) : hv := bind x (ff_negate m P).

(* WmcParams<FiniteField<P>> as built by create_semantic_hash_map(num_vars): entry v = (low, high)
   of variable v; var_weight of a variable that is not in the map panics *)
Definition wmap := list (N * N).
Definition w_lo (w : wmap) (v : var) : hv := option_map fst (nth_error w (N.to_nat v)).
Definition w_hi (w : wmap) (v : var) : hv := option_map snd (nth_error w (N.to_nat v)).

(* what create_semantic_hash_map establishes: h = random_range(2..P), l = new(P - h + 1) *)
Definition weight_ok (P : N) (lh : N * N) : bool :=
  (2 <=? snd lh) && (snd lh <? P) && (fst lh =? (P - snd lh + 1) mod P).
Definition weights_ok (P : N) (w : wmap) : bool := forallb (weight_ok P) w.

(* DDNNFPtr::semantic_hash for BddPtr = the fold of Model/Wmc.v (complement pushed to the
   children, value of a node = low_w * low + high_w * high, True = one, False = zero) *)
Definition hash_c (m : mode) (P : N) (w : wmap) (c : bool) (p : bdd) : hv :=
  wmc_c hv (hadd m P) (hmul m P) (ff_zero P) (ff_one P) (w_lo w) (w_hi w) c p.
Definition hash_m (m : mode) (P : N) (w : wmap) (p : bdd) : hv := hash_c m P w false p.

(* the per-node caches of all nodes: finite map node -> stored u128 *)
Definition hcache := list (bdd * N).
Fixpoint hc_get (k : bdd) (s : hcache) : option N :=
  match s with
  | [] => None
  | (k', h) :: r => if bdd_eqb k k' then Some h else hc_get k r
  end.
Definition hc_set (k : bdd) (h : N) (s : hcache) : hcache := (k, h) :: s.

(* BddPtr::cached_semantic_hash:
     PtrTrue => new(1), PtrFalse => new(0),
     Reg(node) => node.cached_semantic_hash(),
     Compl(_) => self.neg().cached_semantic_hash().negate()
   BddNode::cached_semantic_hash: if let Some(h) = cache { return new(h) }
                                  h = self.semantic_hash(); cache = Some(h.value()); h
   BddNode::semantic_hash: (low_w, high_w) = map.var_weight(var);
                           low.cached() * low_w + high.cached() * high_w
   [None] = panic (then the state no longer matters). *)
Fixpoint cached_hash (m : mode) (P : N) (w : wmap) (p : bdd) (s : hcache) : option (N * hcache) :=
  match p with
  | BT => option_map (fun r => (r, s)) (ff_new P 1)
  | BF => option_map (fun r => (r, s)) (ff_new P 0)
  | BN c v lo hi =>
    let key := BN false v lo hi in
    let reg :=
      match hc_get key s with
      | Some h => option_map (fun r => (r, s)) (ff_new P h)
      | None =>
        bind (w_lo w v) (fun lw => bind (w_hi w v) (fun hw =>
        bind (cached_hash m P w lo s) (fun ls =>
        bind (ff_mul m P (fst ls) lw) (fun a =>
        bind (cached_hash m P w hi (snd ls)) (fun hs =>
        bind (ff_mul m P (fst hs) hw) (fun b =>
        bind (ff_add m P a b) (fun r => Some (r, hc_set key r (snd hs)))))))))
      end in
    if c then bind reg (fun rs => option_map (fun x => (x, snd rs)) (ff_negate m P (fst rs)))
    else reg
  end.

(* a sequence of cached-hash queries on pointers that may share nodes; results in order *)
Fixpoint cached_hashes (m : mode) (P : N) (w : wmap) (ps : list bdd) (s : hcache) : option (list N * hcache) :=
  match ps with
  | [] => Some ([], s)
  | p :: r =>
    bind (cached_hash m P w p s) (fun hs =>
    bind (cached_hashes m P w r (snd hs)) (fun rs => Some (fst hs :: fst rs, snd rs)))
  end.

(* the node-identification test of the hash-identified builders (check_cached_hash_and_neg /
   sdd_eq): same hash, or the hash of one is the negate of the other's *)
Definition hash_match (m : mode) (P : N) (x y : hv) : bool :=
  match x, y with
  | Some a, Some b =>
    (a =? b) || match ff_negate m P b with Some nb => a =? nb | None => false end
  | _, _ => false
  end.
